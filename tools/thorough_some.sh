#!/bin/sh
# tools/thorough_some.sh <props...>: thorough tier of the given properties (inside a vp run snapshot or in /verif)
cd "$(dirname "$0")/.."
[ -n "$VP_RUN_REPO" ] && export VERIF_REPO=$VP_RUN_REPO
./setup.sh >/dev/null 2>&1
for p in "$@"; do
  /usr/bin/time -f "%es %MKB" ./check $p --tier thorough 2>&1 | grep -v "^KNOWN-FINDING" | tail -3
done
