#!/usr/bin/env python3
"""Regenerate MANIFEST.json from harness/props_table.py + manifest_texts.py."""
import json
import os
import sys

V = os.path.dirname(os.path.dirname(os.path.abspath(__file__)))
sys.path.insert(0, os.path.join(V, 'harness'))
import props_table
import manifest_texts as mt

ALL = [f'C{i:02d}' for i in range(1, 20)]
checks = []
for pid in ALL:
  if pid in props_table.PROPS and pid in mt.TEXTS:
    t = mt.TEXTS[pid]
    checks.append({
        'property_id': pid,
        'quick_cmd': f'./check {pid} --tier quick',
        'thorough_cmd': f'./check {pid} --tier thorough',
        'evidence_file': f'evidence/{pid}.json',
        'replay_cmd_template': f'./check {pid} --replay {{path}}',
        'engine': 'coq-proof',
        'level_claimed': {'category': 'proof', 'text': t['level'],
                          'design_ref': f'DESIGN.md §4 {pid}'},
        'level_note': t['note'],
        'technique': t.get('technique', 'machine-checked proof in Coq (Rocq) '
                           '8.16 + translator-regenerated tables + '
                           'differential correspondence with /repo'),
    })
na = [{'property_id': p, 'reason': mt.NOT_CLAIMED.get(
    p, 'check not built yet (work in progress); not claimed')}
      for p in ALL if p not in [c['property_id'] for c in checks]]
m = {
    'version': 1,
    'setup_cmd': './setup.sh',
    'hooks': mt.HOOKS,
    'engines': [{
        'name': 'coq-proof', 'path': 'coq/',
        'serves_properties': [c['property_id'] for c in checks],
        'kind_free_text': 'Coq 8.16.1 development: Gen/ regenerated from /repo '
                          'by tools/py2v on every run, hand models in Model/, '
                          'lemmas in Proofs/, property theorems in Props/; '
                          'correspondence harness and direct oracles in harness/'}],
    'checks': checks,
    'not_applicable': na,
    'notes': mt.NOTES,
}
with open(os.path.join(V, 'MANIFEST.json'), 'w') as f:
  json.dump(m, f, indent=1)
print('MANIFEST.json:', len(checks), 'checks,', len(na), 'not claimed')
