#!/bin/sh
# tools/try_seed.sh <seed id> <property> [more properties]: apply seeded/<id>/patch.diff to /repo,
# run the quick checks, undo the patch.  Evidence files are saved and restored
# so that runs against a mutated tree never end up committed.
id=$1; shift
cd /repo || exit 2
if ! git diff --quiet; then echo "/repo has uncommitted changes"; exit 2; fi
git apply /verif/seeded/$id/patch.diff || { echo "patch does not apply"; exit 2; }
cd /verif
rm -rf .evidence.bak; cp -r evidence .evidence.bak
for p in "$@"; do ./check $p --tier ${TIER:-quick} | grep -v "^KNOWN-FINDING" ; echo "($p with seed $id)"; done
git -C /repo checkout -- .
rm -rf evidence; mv .evidence.bak evidence
