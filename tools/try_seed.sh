#!/bin/sh
# tools/try_seed.sh <seed id> <property> [more properties]: apply seeded/<id>/patch.diff to /repo,
# run the quick checks, undo the patch.
id=$1; shift
cd /repo || exit 2
if ! git diff --quiet; then echo "/repo has uncommitted changes"; exit 2; fi
git apply /verif/seeded/$id/patch.diff || { echo "patch does not apply"; exit 2; }
cd /verif
for p in "$@"; do ./check $p --tier ${TIER:-quick} | grep -v "^KNOWN-FINDING" ; echo "exit=$? ($p with seed $id)"; done
git -C /repo checkout -- .
