#!/bin/sh
# tools/reconfirm_seed.sh <id>: re-validate a kept seeded change against /repo's current HEAD in a
# scratch worktree: demo passes without the patch, fails with it, test-suite summary unchanged.
id=$1
W=/tmp/seed/re_$id
git -C /repo worktree remove --force $W 2>/dev/null
git -C /repo worktree add -q --detach $W HEAD || exit 2
mkdir -p $W/SEED; cp /verif/seeded/$id/demo.py /verif/seeded/$id/patch.diff $W/SEED/
# demos written by the sub-agents refer to their own scratch path
orig=$(grep -o '/tmp/seed/C[0-9]*' $W/SEED/demo.py | head -1)
[ -n "$orig" ] && sed -i "s|$orig|$W|g" $W/SEED/demo.py
cd $W
export PYTHONPATH=$W TF_CPP_MIN_LOG_LEVEL=3 CUDA_VISIBLE_DEVICES=
unset AI_EDGE_QUANTIZER_VERIF
/venv/bin/python $W/SEED/demo.py > $W/SEED/before.log 2>&1; r0=$?
if git apply $W/SEED/patch.diff 2>/dev/null; then
  /venv/bin/python $W/SEED/demo.py > $W/SEED/after.log 2>&1; r1=$?
  t=$(/venv/bin/python -m pytest -q -p no:cacheprovider --timeout=900 --continue-on-collection-errors ai_edge_quantizer 2>&1 | tail -1)
  echo "RECONFIRM $id: demo before=$r0 after=$r1 tests: $t"
else
  echo "RECONFIRM $id: patch does not apply at HEAD (demo before=$r0)"
fi
[ "$r0" != 0 ] && tail -3 $W/SEED/before.log
cd /; git -C /repo worktree remove --force $W
