#!/bin/sh
# run every thorough check once (inside a vp run snapshot or in /verif)
cd "$(dirname "$0")/.."
# inside `vp run --with-repo` use the private snapshot of /repo (so that seed trials against /repo cannot interfere)
[ -n "$VP_RUN_REPO" ] && export VERIF_REPO=$VP_RUN_REPO
./setup.sh >/dev/null 2>&1
for p in C11 C12 C13 C16 C18 C09 C10 C17 C01 C02 C03 C04 C05 C06 C07 C08 C14 C15 C19; do
  /usr/bin/time -f "%es %MKB" ./check $p --tier thorough 2>&1 | grep -v "^KNOWN-FINDING" | tail -3
done
