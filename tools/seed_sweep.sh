#!/bin/sh
# tools/seed_sweep.sh [ids...]: run inside a `vp run --with-repo` snapshot (or with
# VERIF_REPO pointing at a scratch copy of /repo): for every seeded change apply the
# patch to that copy, run the quick check of its property, print one line, undo.
R=${VERIF_REPO:-$VP_RUN_REPO}
[ -n "$R" ] && [ "$R" != "/repo" ] || { echo "need a scratch repo copy"; exit 2; }
export VERIF_REPO=$R
cd "$(dirname "$0")/.."
./setup.sh >/dev/null 2>&1 || { python3 tools/py2v/py2v.py $R coq/Gen && (cd coq && coq_makefile -f _CoqProject -o Makefile && make -j16 >/dev/null 2>&1); }
ids=${@:-$(ls seeded)}
for id in $ids; do
  prop=$(python3 -c "import json;print(json.load(open('seeded/$id/meta.json'))['property'])")
  git -C $R checkout -q -- . ; git -C $R apply "$PWD/seeded/$id/patch.diff" || { echo "SEED $id: patch does not apply"; continue; }
  out=$(VERIF_SEED=${VERIF_SEED:-1} ./check $prop --tier ${TIER:-quick} 2>&1 | grep -v "^KNOWN-FINDING")
  v=$(echo "$out" | grep -c "^VIOLATION")
  echo "SEED $id ($prop): violation_lines=$v :: $(echo "$out" | tail -2 | tr '\n' ' ')"
  rp=$(echo "$out" | sed -n 's/^VIOLATION.*replay=\([^ ]*\).*/\1/p' | head -1)
  [ -n "$rp" ] && python3 - "$rp" <<'PY'
import json,sys
d=json.load(open(sys.argv[1]))
for b in d.get('broken_obligations',[])[:3]: print('    broken:', b.get('what'), str(b.get('detail'))[:300].replace('\n',' '))
for v in d.get('violations',[])[:3]: print('    oracle:', v.get('key'), str(v.get('what'))[:200])
PY
  git -C $R checkout -q -- .
done
