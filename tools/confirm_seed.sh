#!/bin/sh
# tools/confirm_seed.sh <id> [dest-id]: confirm a sub-agent's seeded change in its scratch
# worktree /tmp/seed/<id> (demo passes without / fails with the patch, test-suite
# summary unchanged), then keep it as /verif/seeded/<dest-id>/ and remove the worktree.
id=$1; dest=${2:-$1}
W=/tmp/seed/$id
S=/tmp/seed/$id.SEED
rm -rf $S; cp -r $W/SEED $S || exit 2
cd $W || exit 2
git checkout -q -- . && git clean -fdq -e SEED
export PYTHONPATH=$W TF_CPP_MIN_LOG_LEVEL=3 AI_EDGE_QUANTIZER_VERIF= CUDA_VISIBLE_DEVICES=
unset AI_EDGE_QUANTIZER_VERIF
/venv/bin/python $W/SEED/demo.py > $S/demo_before.log 2>&1; r0=$?
git apply $S/patch.diff || { echo "$id: patch does not apply"; exit 2; }
/venv/bin/python $W/SEED/demo.py > $S/demo_after.log 2>&1; r1=$?
t=$(/venv/bin/python -m pytest -q -p no:cacheprovider --timeout=900 --continue-on-collection-errors ai_edge_quantizer 2>&1 | tail -1)
echo "$id: demo before=$r0 after=$r1 tests: $t"
case "$t" in *"519 passed"*) ok=1;; *) ok=0;; esac
if [ $r0 -eq 0 ] && [ $r1 -ne 0 ] && [ $ok -eq 1 ]; then
  mkdir -p /verif/seeded/$dest
  cp $S/patch.diff $S/demo.py $S/meta.json /verif/seeded/$dest/
  python3 - "$dest" "$r0" "$r1" "$t" <<'PY'
import json,sys
d,r0,r1,t=sys.argv[1:5]
p=f'/verif/seeded/{d}/meta.json'
m=json.load(open(p))
m['confirmed_by_main']={'demo_exit_without_patch':int(r0),'demo_exit_with_patch':int(r1),'test_suite_with_patch':t}
json.dump(m,open(p,'w'),indent=1)
PY
  echo "$id: KEPT as seeded/$dest"
  cd /; git -C /repo worktree remove --force $W; rm -rf $S
else
  echo "$id: NOT confirmed (worktree kept: $W, logs in $S)"; tail -5 $S/demo_before.log
fi
