#!/bin/sh
# tools/soak_seeds.sh [seeds...]: run every quick check on the UNCHANGED tree with other seeds
# (false-alarm hunt).  Inside a vp run snapshot or in /verif.
cd "$(dirname "$0")/.."
# inside `vp run --with-repo` use the private snapshot of /repo (so that seed trials against /repo cannot interfere)
[ -n "$VP_RUN_REPO" ] && export VERIF_REPO=$VP_RUN_REPO
./setup.sh >/dev/null 2>&1
for sd in ${@:-1 2 3}; do
  for p in C01 C02 C03 C04 C05 C06 C07 C08 C09 C10 C11 C12 C13 C14 C15 C16 C17 C18 C19; do
    out=$(VERIF_SEED=$sd ./check $p --tier quick 2>&1 | grep -v "^KNOWN-FINDING")
    echo "seed=$sd $(echo "$out" | tail -1)"
    echo "$out" | grep "^VIOLATION"
  done
done
