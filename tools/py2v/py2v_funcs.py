"""Decision-function / wrapper / recipe / constant translation (stage 2).

Expressions are translated type-directed into Gallina in the exception monad
of Base/Prelude.v.  `tr` returns (term, type, pure): when pure the term has
the Coq type directly, otherwise it has type `res <type>`.
"""
import ast
import json
import os

from py2v import (HEADER, Py2VError, coq_bool, f32_bits, f64_bits, fail,
                  find_assign, find_class, find_func, parse)

ENUM_ALIASES = {
    '_TFLOpName': 'opname', '_OpName': 'opname', 'TFLOperationName': 'opname',
    '_ComputePrecision': 'precision', 'ComputePrecision': 'precision',
    'TensorDataType': 'dtype', 'QuantGranularity': 'granularity',
    '_QuantTransformation': 'qtrans', 'QuantTransformation': 'qtrans',
    '_QuantTrans': 'qtrans', 'AlgorithmName': 'algname',
}

FIELDS = {
    ('ocfg', 'activation_tensor_config'): ('ocfg_activation_tensor_config',
                                           ('opt', 'tcfg')),
    ('ocfg', 'weight_tensor_config'): ('ocfg_weight_tensor_config',
                                       ('opt', 'tcfg')),
    ('ocfg', 'compute_precision'): ('ocfg_compute_precision', 'precision'),
    ('ocfg', 'explicit_dequantize'): ('ocfg_explicit_dequantize', 'bool'),
    ('ocfg', 'skip_checks'): ('ocfg_skip_checks', 'bool'),
    ('tcfg', 'num_bits'): ('tcfg_num_bits', 'Z'),
    ('tcfg', 'symmetric'): ('tcfg_symmetric', 'bool'),
    ('tcfg', 'granularity'): ('tcfg_granularity', 'granularity'),
    ('tcfg', 'dtype'): ('tcfg_dtype', 'dtype'),
    ('tcfg', 'block_size'): ('tcfg_block_size', 'Z'),
    # OpToTensorParams / TransformationInst (Model/GraphTypes.v), polymorphic
    # in the parameter type through the section variable peqb
    ('o2t', 'transformations'): ('o2t_trans', ('list', 'qtrans')),
    ('o2t', 'parameters'): ('o2t_params', ('opt', 'P')),
    ('inst', 'transformation'): ('i_trans', 'qtrans'),
    ('inst', 'parameters'): ('i_params', ('opt', 'P')),
    ('ttp', 'producer'): ('ttp_producer', ('opt', 'o2t')),
    ('ttp', 'consumers'): ('ttp_consumers', ('opt', ('list', 'o2t'))),
    ('inttype', 'signed'): ('it_signed', 'bool'),
    ('inttype', 'num_bits'): ('it_bits', 'Z'),
}

EQB = {
    'Z': 'Z.eqb', 'bool': 'Bool.eqb', 'opname': 'opname_eqb',
    'precision': 'precision_eqb', 'dtype': 'dtype_eqb',
    'granularity': 'granularity_eqb', 'qtrans': 'qtrans_eqb',
    'algname': 'algname_eqb', 'tcfg': 'tcfg_eqb', 'ocfg': 'ocfg_eqb',
    'P': 'qparam_eqb', 'str': '(fun _ _ : unit => true)',
}


def eqb_of(ty):
  if isinstance(ty, tuple) and ty[0] == 'opt':
    return f'(opt_eqb {eqb_of(ty[1])})'
  if isinstance(ty, tuple) and ty[0] == 'list':
    return f'(list_eqb {eqb_of(ty[1])})'
  if ty in EQB:
    return EQB[ty]
  raise KeyError(ty)


def coq_type(ty):
  if isinstance(ty, tuple) and ty[0] == 'opt':
    return f'(option {coq_type(ty[1])})'
  if isinstance(ty, tuple) and ty[0] == 'list':
    return f'(list {coq_type(ty[1])})'
  return {'str': 'unit', 'policy': 'policy_t', 'P': 'qparam'}.get(ty, ty)


class FT:
  """Function translator."""

  def __init__(self, ctx, path, env, funcs, rtype):
    self.ctx = ctx
    self.path = path
    self.env = dict(env)       # python name -> (coq term, type)
    self.funcs = funcs         # python callee text -> (coq name, arg count, rtype)
    self.rtype = rtype
    self.kcount = 0

  # ----- expressions -----
  def enum_const(self, node):
    if isinstance(node, ast.Attribute):
      chain = ast.unparse(node).split('.')
      if len(chain) >= 2 and chain[-2] == 'TensorType':
        codes = {'FLOAT32': 'TY_FLOAT32', 'FLOAT16': 'TY_FLOAT16',
                 'INT32': 'TY_INT32', 'INT64': 'TY_INT64', 'INT16': 'TY_INT16',
                 'INT8': 'TY_INT8', 'INT4': 'TY_INT4'}
        if chain[-1] not in codes:
          fail(self.path, node, f'unknown tensor type {chain[-1]}')
        return codes[chain[-1]], 'Z'
      if len(chain) >= 2 and chain[-2] in ENUM_ALIASES:
        ty = ENUM_ALIASES[chain[-2]]
        m = self.ctx.enum_by_member[ty]
        if chain[-1] not in m:
          fail(self.path, node, f'unknown enum member {ast.unparse(node)}')
        return m[chain[-1]], ty
    return None

  def lift(self, t, pure):
    return f'(Ok {t})' if pure else t

  def tr(self, e):
    ec = self.enum_const(e)
    if ec is not None:
      return ec[0], ec[1], True
    if isinstance(e, ast.Name):
      if e.id not in self.env:
        fail(self.path, e, f'unknown name {e.id}')
      t, ty = self.env[e.id]
      return t, ty, True
    if isinstance(e, ast.Constant):
      if e.value is True:
        return 'true', 'bool', True
      if e.value is False:
        return 'false', 'bool', True
      if e.value is None:
        return 'None', ('opt', '?'), True
      if isinstance(e.value, int):
        return f'({e.value})', 'Z', True
      if isinstance(e.value, str):
        return 'tt', 'str', True
      fail(self.path, e, f'unsupported constant {e.value!r}')
    if isinstance(e, ast.JoinedStr):
      return 'tt', 'str', True
    if isinstance(e, ast.BinOp) and isinstance(e.op, ast.Mod) and isinstance(
        e.left, ast.Constant) and isinstance(e.left.value, str):
      return 'tt', 'str', True
    if isinstance(e, ast.Attribute):
      t, ty, p = self.tr(e.value)
      if isinstance(ty, tuple) and ty[0] == 'opt':
        inner = ty[1]
        if (inner, e.attr) not in FIELDS:
          fail(self.path, e, f'unknown attribute {inner}.{e.attr}')
        acc, rty = FIELDS[(inner, e.attr)]
        return (f'(o_ <- {self.lift(t, p)} ;; v_ <- unopt o_ ;; '
                f'Ok ({acc} v_))'), rty, False
      if (ty, e.attr) not in FIELDS:
        fail(self.path, e, f'unknown attribute {ty}.{e.attr}')
      acc, rty = FIELDS[(ty, e.attr)]
      if p:
        return f'({acc} {t})', rty, True
      return f'(v_ <- {t} ;; Ok ({acc} v_))', rty, False
    if isinstance(e, ast.UnaryOp) and isinstance(e.op, ast.Not):
      t, p = self.truthy(e.operand)
      return (f'(negb {t})' if p else f'(bnot {t})'), 'bool', p
    if isinstance(e, ast.UnaryOp) and isinstance(e.op, ast.USub):
      t, ty, p = self.tr(e.operand)
      if ty != 'Z' or not p:
        fail(self.path, e, 'unsupported negation')
      return f'(- {t})', 'Z', True
    if isinstance(e, ast.BoolOp):
      parts = [self.truthy(v) for v in e.values]
      if all(p for _, p in parts):
        op = ' && ' if isinstance(e.op, ast.And) else ' || '
        return '(' + op.join(t for t, _ in parts) + ')', 'bool', True
      fn = 'band' if isinstance(e.op, ast.And) else 'bor'
      acc = self.lift(*parts[-1])
      for t, p in reversed(parts[:-1]):
        acc = f'({fn} {self.lift(t, p)} {acc})'
      return acc, 'bool', False
    if isinstance(e, ast.Compare):
      if len(e.ops) != 1:
        fail(self.path, e, 'chained comparison unsupported')
      return self.compare(e, e.left, e.ops[0], e.comparators[0])
    if isinstance(e, ast.BinOp) and isinstance(
        e.op, (ast.Add, ast.Sub, ast.Mult, ast.Pow)):
      lt, lty, lp = self.tr(e.left)
      rt, rty, rp = self.tr(e.right)
      if lty != 'Z' or rty != 'Z' or not (lp and rp):
        fail(self.path, e, 'unsupported arithmetic')
      op = {ast.Add: '+', ast.Sub: '-', ast.Mult: '*', ast.Pow: '^'}[type(e.op)]
      return f'({lt} {op} {rt})', 'Z', True
    if isinstance(e, ast.Subscript):
      t, ty, p = self.tr(e.value)
      it, ity, ip = self.tr(e.slice)
      if ty == 'policy' or ty == ('opt', 'policy'):
        pre = self.lift(t, p)
        if ty == ('opt', 'policy'):
          pre = f'(o_ <- {pre} ;; unopt o_)'
        if not ip or ity != 'opname':
          fail(self.path, e, 'policy subscript must be a pure op name')
        return f'(p_ <- {pre} ;; policy_get p_ {it})', ('list', 'ocfg'), False
      if isinstance(ty, tuple) and ty[0] == 'list' and ity == 'Z' and ip:
        return (f'(l_ <- {self.lift(t, p)} ;; py_index l_ {it})', ty[1],
                False)
      fail(self.path, e, f'unsupported subscript on {ty}')
    if isinstance(e, ast.Call):
      fn = ast.unparse(e.func)
      if isinstance(e.func, ast.Attribute) and e.func.attr == 'keys':
        t, ty, p = self.tr(e.func.value)
        pre = self.lift(t, p)
        if ty == ('opt', 'policy'):
          return (f'(o_ <- {pre} ;; p_ <- unopt o_ ;; Ok (map fst p_))',
                  ('list', 'opname'), False)
        if ty == 'policy':
          return f'(map fst {t})', ('list', 'opname'), True
        fail(self.path, e, '.keys() on unsupported type')
      if fn == 'len' and len(e.args) == 1:
        t, ty, p = self.tr(e.args[0])
        if not (isinstance(ty, tuple) and ty[0] == 'list'):
          fail(self.path, e, 'len of non-list')
        if p:
          return f'(Z.of_nat (length {t}))', 'Z', True
        return f'(l_ <- {t} ;; Ok (Z.of_nat (length l_)))', 'Z', False
      if fn == 'float' and len(e.args) == 1:
        return self.tr(e.args[0])
      if fn in self.funcs:
        name, rty = self.funcs[fn]
        args = []
        binds = []
        for i, a in enumerate(e.args):
          t, ty, p = self.tr(a)
          if p:
            args.append(t)
          else:
            binds.append(f'a{i}_ <- {t} ;; ')
            args.append(f'a{i}_')
        return '(' + ''.join(binds) + f'{name} ' + ' '.join(args) + ')', \
            rty, False
      fail(self.path, e, f'unsupported call {fn}')
    if isinstance(e, ast.List):
      parts = [self.tr(x) for x in e.elts]
      if not all(p for _, _, p in parts):
        fail(self.path, e, 'impure list literal')
      if not parts:
        hint = getattr(self, 'empty_hint', None)
        if hint is None:
          fail(self.path, e, 'empty list literal of unknown element type')
        return f'(@nil {coq_type(hint)})', ('list', hint), True
      ty = parts[0][1]
      return '[' + '; '.join(t for t, _, _ in parts) + ']', ('list', ty), True
    fail(self.path, e, f'unsupported expression {type(e).__name__}')

  def truthy(self, e):
    t, ty, p = self.tr(e)
    if ty == 'bool':
      return t, p
    if ty == ('opt', 'policy') and p:
      return (f'(match {t} with None => false | Some p_ => '
              'negb (is_empty_policy p_) end)'), True
    if isinstance(ty, tuple) and ty[0] == 'opt' and p:
      # only types whose instances are always truthy
      if ty[1] in ('tcfg', 'ocfg', 'o2t', 'Z_nonzero'):
        return f'(negb (is_none {t}))', True
    if isinstance(ty, tuple) and ty[0] == 'list' and p:
      return f'(negb (is_nil {t}))', True
    fail(self.path, e, f'unsupported truthiness of type {ty}')

  def compare(self, e, l, op, r):
    if isinstance(op, (ast.Is, ast.IsNot)):
      if not (isinstance(r, ast.Constant) and r.value is None):
        fail(self.path, e, '`is` only against None')
      t, ty, p = self.tr(l)
      if not (isinstance(ty, tuple) and ty[0] == 'opt'):
        fail(self.path, e, f'`is None` on non-optional {ty}')
      neg = isinstance(op, ast.IsNot)
      if p:
        b = f'(is_none {t})'
        return (f'(negb {b})' if neg else b), 'bool', True
      b = f'(o_ <- {t} ;; Ok ({"negb " if neg else ""}(is_none o_)))'
      return b, 'bool', False
    lt, lty, lp = self.tr(l)
    rt, rty, rp = self.tr(r)
    if isinstance(op, (ast.Eq, ast.NotEq)):
      ty = lty
      if isinstance(lty, tuple) and lty[1] == '?':
        ty = rty
      if lty != rty and not (isinstance(lty, tuple) and isinstance(
          rty, tuple) and lty[0] == rty[0] and '?' in (lty[1], rty[1])):
        fail(self.path, e, f'comparison of different types {lty} vs {rty}')
      try:
        eqb = eqb_of(ty)
      except KeyError:
        fail(self.path, e, f'no equality for type {ty}')
      neg = isinstance(op, ast.NotEq)
      if lp and rp:
        b = f'({eqb} {lt} {rt})'
        return (f'(negb {b})' if neg else b), 'bool', True
      b = (f'(x_ <- {self.lift(lt, lp)} ;; y_ <- {self.lift(rt, rp)} ;; '
           f'Ok ({"negb " if neg else ""}({eqb} x_ y_)))')
      return b, 'bool', False
    if isinstance(op, (ast.In, ast.NotIn)):
      if not (isinstance(rty, tuple) and rty[0] == 'list'):
        fail(self.path, e, f'`in` on non-list {rty}')
      ety = rty[1] if rty[1] != '?' else lty
      if ety != lty:
        fail(self.path, e, f'`in` element type mismatch {lty} vs {rty}')
      eqb = eqb_of(ety)
      neg = isinstance(op, ast.NotIn)
      if lp and rp:
        b = f'(existsb ({eqb} {lt}) {rt})'
        return (f'(negb {b})' if neg else b), 'bool', True
      b = (f'(x_ <- {self.lift(lt, lp)} ;; l_ <- {self.lift(rt, rp)} ;; '
           f'Ok ({"negb " if neg else ""}(existsb ({eqb} x_) l_)))')
      return b, 'bool', False
    cmpop = {ast.LtE: 'Z.leb', ast.Lt: 'Z.ltb', ast.GtE: 'Z.geb',
             ast.Gt: 'Z.gtb'}.get(type(op))
    if cmpop and lty == 'Z' and rty == 'Z':
      if lp and rp:
        return f'({cmpop} {lt} {rt})', 'bool', True
      return (f'(x_ <- {self.lift(lt, lp)} ;; y_ <- {self.lift(rt, rp)} ;; '
              f'Ok ({cmpop} x_ y_))'), 'bool', False
    fail(self.path, e, f'unsupported comparison {type(op).__name__}')

  # ----- statements -----
  def assigned(self, stmts):
    out = []
    for s in stmts:
      if isinstance(s, ast.Assign):
        for t in s.targets:
          if isinstance(t, ast.Name) and t.id not in out:
            out.append(t.id)
      elif isinstance(s, ast.If):
        for v in self.assigned(s.body) + self.assigned(s.orelse):
          if v not in out:
            out.append(v)
    return out

  def always_exits(self, stmts):
    if not stmts:
      return False
    s = stmts[-1]
    if isinstance(s, (ast.Return, ast.Raise)):
      return True
    if isinstance(s, ast.If):
      return self.always_exits(s.body) and self.always_exits(s.orelse)
    return False

  def block(self, stmts, cont):
    """cont: None (end of function) or a callable returning the Coq term to
    continue with (evaluated under the env at that point)."""
    if not stmts:
      return cont() if cont else self.end_value()
    s, rest = stmts[0], stmts[1:]
    nxt = lambda: self.block(rest, cont)
    if isinstance(s, ast.Expr) and isinstance(s.value, ast.Constant):
      return nxt()
    if isinstance(s, ast.Pass):
      return nxt()
    if isinstance(s, ast.Raise):
      exc = s.exc
      name = exc.func.id if isinstance(exc, ast.Call) and isinstance(
          exc.func, ast.Name) else None
      if name not in ('ValueError', 'RuntimeError', 'KeyError', 'TypeError'):
        fail(self.path, s, 'unsupported raise')
      return f'(Err {name})'
    if isinstance(s, ast.Return):
      if s.value is None:
        return '(Ok tt)'
      t, ty, p = self.tr(s.value)
      self.check_rtype(s, ty)
      return self.lift(t, p)
    if isinstance(s, ast.Assign):
      if not (len(s.targets) == 1 and isinstance(s.targets[0], ast.Name)):
        fail(self.path, s, 'unsupported assignment target')
      t, ty, p = self.tr(s.value)
      name = s.targets[0].id
      old = self.env.get(name)
      cname = f'{name}_{self.kcount}'
      self.kcount += 1
      self.env[name] = (cname, ty if old is None or ty != ('list', '?')
                        else old[1])
      body = nxt()
      if p:
        return f'(let {cname} := {t} in\n {body})'
      return f'({cname} <- {t} ;;\n {body})'
    if isinstance(s, ast.Expr) and isinstance(s.value, ast.Call):
      t, ty, p = self.tr(s.value)
      if p:
        return nxt()
      return f'({t} ;;;\n {nxt()})'
    if isinstance(s, ast.If):
      ct, cp = self.truthy(s.test)
      body_exits = self.always_exits(s.body)
      else_exits = self.always_exits(s.orelse)
      if (not rest and cont is None) or (body_exits and else_exits):
        saved = dict(self.env)
        b = self.block(s.body, None if (not rest and cont is None) else None)
        self.env = dict(saved)
        o = self.block(s.orelse, None)
        self.env = saved
        return self.ite(ct, cp, b, o)
      if body_exits and not s.orelse:
        saved = dict(self.env)
        b = self.block(s.body, None)
        self.env = saved
        return self.ite(ct, cp, b, nxt())
      # general join: continuation abstracted over the assigned variables
      av = [v for v in self.assigned([s])]
      for v in av:
        if v not in self.env:
          fail(self.path, s, f'variable {v} assigned in a branch only')
      k = f'k{self.kcount}_'
      self.kcount += 1
      saved = dict(self.env)
      params = []
      for v in av:
        pn = f'{v}_{self.kcount}'
        self.kcount += 1
        params.append(pn)
        self.env[v] = (pn, saved[v][1])
      kbody = nxt()
      self.env = dict(saved)

      def call_k():
        return f'({k} ' + ' '.join(self.env[v][0] for v in av) + ')' \
            if av else f'({k} tt)'
      b = self.block(s.body, call_k)
      self.env = dict(saved)
      o = self.block(s.orelse, call_k)
      self.env = saved
      plist = ' '.join(params) if params else '(_ : unit)'
      return (f'(let {k} := fun {plist} =>\n {kbody} in\n '
              f'{self.ite(ct, cp, b, o)})')
    fail(self.path, s, f'unsupported statement {type(s).__name__}')

  def ite(self, ct, cp, b, o):
    if cp:
      return f'(if {ct} then\n {b}\n else\n {o})'
    return f'(c_ <- {ct} ;; if c_ then\n {b}\n else\n {o})'

  def end_value(self):
    if self.rtype != 'unit':
      raise Py2VError(f'{self.path}: function may end without return')
    return '(Ok tt)'

  def check_rtype(self, node, ty):
    if self.rtype == 'unit':
      fail(self.path, node, 'return value in unit function')
    if ty != self.rtype and not (isinstance(ty, tuple) and '?' in ty):
      fail(self.path, node, f'return type {ty}, expected {self.rtype}')


def translate_func(ctx, rel, name, params, rtype, funcs, cls=None,
                   coq_name=None, extra_env=None):
  """params: list of (python name, type).  Returns Coq Definition text."""
  path, tree = parse(ctx.root, rel)
  fn = find_func(path, tree, name, cls)
  pyargs = [a.arg for a in fn.args.args]
  if pyargs != [p for p, _ in params]:
    fail(path, fn, f'parameters changed: {pyargs}')
  env = {p: (p, ty) for p, ty in params}
  if extra_env:
    env.update(extra_env)
  ft = FT(ctx, path, env, funcs, rtype)
  if isinstance(rtype, tuple) and rtype[0] == 'list':
    ft.empty_hint = rtype[1]
  body = ft.block(fn.body, None)
  args = ' '.join(f'({p} : {coq_type(ty)})' for p, ty in params)
  cn = coq_name or name
  return (f'(* {rel}:{fn.lineno} {name} *)\n'
          f'Definition {cn} {args} : res {coq_type(rtype)} :=\n {body}.\n')


def gen_checks(ctx):
  out = [HEADER,
         'From VF Require Import Gen.Enums Gen.Configs Gen.Registry.\n',
         '''Definition policy_t := list (opname * list ocfg).
Fixpoint policy_get (p : policy_t) (o : opname) : res (list ocfg) :=
  match p with
  | [] => Err KeyError
  | (k, v) :: r => if opname_eqb k o then Ok v else policy_get r o
  end.
Definition is_empty_policy (p : policy_t) : bool :=
  match p with [] => true | _ => false end.
''']
  utils = 'algorithms/utils/min_max_quantize_utils.py'
  nmm = 'algorithms/uniform_quantize/naive_min_max_quantize.py'
  fc = 'algorithms/nonlinear_quantize/float_casting.py'
  sets = {
      '_SUPPORTED_SUBCHANNEL_OPS': ('SUPPORTED_SUBCHANNEL_OPS',
                                    ('list', 'opname')),
      '_SUPPORTED_WEIGHT_ONLY_OPS': ('SUPPORTED_WEIGHT_ONLY_OPS',
                                     ('list', 'opname')),
      '_SUPPORTED_DRQ_OPS': ('SUPPORTED_DRQ_OPS', ('list', 'opname')),
      'SUPPORTED_WEIGHT_QUANT_OPS': ('FC_SUPPORTED_WEIGHT_QUANT_OPS',
                                     ('list', 'opname')),
  }
  out.append(translate_func(
      ctx, utils, 'check_subchannel_config',
      [('op_name', 'opname'), ('op_quant_config', 'ocfg')], 'unit', {},
      extra_env=sets))
  out.append(translate_func(
      ctx, utils, 'check_if_valid_op_config',
      [('op_name', 'opname'), ('op_quant_config', 'ocfg'),
       ('config_check_policy', ('opt', 'policy'))], 'unit', {},
      extra_env=sets))
  funcs = {
      'utils.check_if_valid_op_config': ('check_if_valid_op_config', 'unit'),
      'utils.check_subchannel_config': ('check_subchannel_config', 'unit'),
  }
  out.append(translate_func(
      ctx, nmm, 'check_op_quantization_config',
      [('op_name', 'opname'), ('op_quant_config', 'ocfg'),
       ('config_check_policy', ('opt', 'policy'))], 'unit', funcs,
      coq_name='minmax_check_op_quantization_config', extra_env=sets))
  out.append(translate_func(
      ctx, fc, 'check_op_quantization_config',
      [('op_name', 'opname'), ('op_quant_config', 'ocfg'),
       ('config_check_policy', ('opt', 'policy'))], 'unit', {},
      coq_name='floatcast_check_op_quantization_config', extra_env=sets))
  out.append(translate_func(
      ctx, 'qtyping.py', '__post_init__', [('self', 'ocfg')], 'unit', {},
      cls='OpQuantizationConfig', coq_name='ocfg_post_init'))
  out.append(translate_func(
      ctx, utils, 'get_tensor_transformations',
      [('op_quant_config', 'ocfg'), ('is_inbounding_tensor', 'bool'),
       ('is_constant', 'bool')], ('list', 'qtrans'), {}))
  return '\n'.join(out)


def gen_instchecks(ctx):
  out = [HEADER, 'From VF Require Import Gen.Enums Model.Graph.\n']
  tig = 'transformation_instruction_generator.py'
  out.append(translate_func(
      ctx, tig, 'check_horizontal_optimization',
      [('param1', 'o2t'), ('param2', 'o2t'), ('index', 'Z')], 'bool', {}))
  for fn in ('check_dq_q_elimination', 'check_replace_dq_q_with_rq',
             'check_dq_no_quant_elimination'):
    out.append(translate_func(
        ctx, tig, fn, [('producer_inst', 'inst'), ('consumer_inst', 'inst')],
        'bool', {}))
  qt = 'transformations/quantize_tensor.py'
  out.append(translate_func(ctx, qt, 'quant_params_to_tflite_type',
                            [('bitwidth', 'Z')], 'Z', {}))
  out.append(translate_func(ctx, qt, 'nonlinear_quant_params_to_tflite_type',
                            [('bitwidth', 'Z')], 'Z', {}))
  pg = 'params_generator.py'
  out.append(translate_func(
      ctx, pg, '_same_tensor_params_except_id',
      [('params1', 'o2t'), ('params2', 'o2t')], 'bool', {}))
  out.append(translate_func(
      ctx, pg, '_compatible_tensor_params',
      [('params1', 'o2t'), ('params2', 'o2t')], 'bool',
      {'_same_tensor_params_except_id': ('_same_tensor_params_except_id',
                                         'bool')}))
  return '\n'.join(out)


import hashlib


class _Abs(ast.NodeTransformer):

  def __init__(self):
    self.consts = []

  def visit_Constant(self, n):
    if isinstance(n.value, (int, float)) and not isinstance(n.value, bool):
      self.consts.append(n.value)
      return ast.copy_location(ast.Constant(value='#'), n)
    return n


def fn_shape(fn):
  """(sha1 of the body with numeric literals abstracted, the literals)."""
  body = [st for st in fn.body if not (
      isinstance(st, ast.Expr) and isinstance(st.value, ast.Constant) and
      isinstance(st.value.value, str))]
  a = _Abs()
  body = [a.visit(st) for st in body]
  d = ast.dump(ast.Module(body=body, type_ignores=[]))
  return hashlib.sha1(d.encode()).hexdigest()[:12], a.consts


def gen_matdesc(ctx):
  """Gen/MatDesc.v: what each registered materialize function does, as a
  descriptor consumed by Model/Plan.v.  The simple wrappers are parsed
  (keywords of the materialize_standard_op call); the five composite ones
  must have exactly the recognised shape (hash of the body with numeric
  literals abstracted) and contribute their literals."""
  out = [HEADER, 'From VF Require Import Gen.Enums Gen.Registry.\n']
  out.append("""Inductive mat_desc :=
| MStd (constraint : Z) (ign_in ign_out : list Z)   (* 0 none, 1 same-as-input, 2 same-as-output *)
| MFcConv (ii wi bi : Z)
| MConvT (shape_i wi ii bi min_params : Z)
| MFixed (kind : Z)                                 (* index into fixed_ranges *)
| MCast (ii wi bi : Z).
(* fixed output range entry: activation bits, scale = num/den (both exact
   binary64 values in the source), zero point, symmetric flag *)
Record fixed_range := { fr_bits : Z; fr_num : Z; fr_den : Z; fr_zp : Z; fr_sym : bool }.
""")
  nmm = 'algorithms/uniform_quantize/naive_min_max_quantize.py'
  fcp = 'algorithms/nonlinear_quantize/float_casting.py'
  path, tree = parse(ctx.root, nmm)
  fpath, ftree = parse(ctx.root, fcp)
  cons_codes = {'NO_CONSTRAIN': 0, 'SAME_AS_INPUT_SCALE': 1,
                'SAME_AS_OUTPUT_SCALE': 2}

  def intlist(node, p):
    if not (isinstance(node, ast.List) and all(
        isinstance(e, ast.Constant) and isinstance(e.value, int)
        for e in node.elts)):
      fail(p, node, 'ignore list is not a list of int literals')
    return '[' + '; '.join(str(e.value) for e in node.elts) + ']'

  def std_desc(fn):
    body = [st for st in fn.body if not (
        isinstance(st, ast.Expr) and isinstance(st.value, ast.Constant))]
    if not (len(body) == 1 and isinstance(body[0], ast.Return) and
            isinstance(body[0].value, ast.Call) and
            ast.unparse(body[0].value.func) == 'utils.materialize_standard_op'):
      return None
    call = body[0].value
    if [ast.unparse(a) for a in call.args] != ['op_info', 'graph_info',
                                               'tensor_name_to_qsv']:
      fail(path, fn, 'unexpected positional arguments')
    cons, ii, io = 0, '[]', '[]'
    for kw in call.keywords:
      if kw.arg == 'constraint':
        name = ast.unparse(kw.value).split('.')[-1]
        if name not in cons_codes:
          fail(path, kw, f'unknown constraint {name}')
        cons = cons_codes[name]
      elif kw.arg == 'inputs_to_ignore':
        ii = intlist(kw.value, path)
      elif kw.arg == 'outputs_to_ignore':
        io = intlist(kw.value, path)
      else:
        fail(path, kw, f'unexpected keyword {kw.arg}')
    return f'MStd {cons} {ii} {io}'

  fixed = []
  descs = {}
  for full in ctx.matfuncs:
    mod, name = full.split('.')
    if mod == 'naive_min_max_quantize':
      fn = find_func(path, tree, name)
      d = std_desc(fn)
      if d is None:
        sha, consts = fn_shape(fn)
        if name == 'materialize_fc_conv':
          helper = find_func(path, tree, '_materialize_bias_for_conv_ops')
          hsha, hconsts = fn_shape(helper)
          if (sha, hsha, hconsts) != ('27d47d7af143', 'fc3ac9b38ad1', [0, 0]):
            fail(path, fn, f'materialize_fc_conv/_materialize_bias_for_conv_ops '
                 f'changed shape ({sha}, {hsha}, {hconsts})')
          dv = [x.value for x in fn.args.defaults]
          if len(dv) != 3 or not all(isinstance(v, int) for v in dv):
            fail(path, fn, 'operand index defaults changed')
          d = f'MFcConv {dv[0]} {dv[1]} {dv[2]}'
        elif name == 'materialize_conv2d_transpose':
          if sha != '21d413ac91df' or len(consts) != 5:
            fail(path, fn, f'materialize_conv2d_transpose changed shape ({sha})')
          # ignored_shape_index, weight_index, input_index, bias_index, min len
          d = 'MConvT ' + ' '.join(str(int(c)) for c in consts)
        elif name == 'materialize_softmax_and_logistic':
          if sha != '4bb250039f18' or len(consts) != 10:
            fail(path, fn, f'materialize_softmax_and_logistic changed shape ({sha})')
          k8, k16, b8, n8, d8, z8, b16, n16, d16, z16 = consts
          if (k8, k16) != (b8, b16):
            fail(path, fn, 'dict keys differ from num_bits')
          kind = len(fixed)
          # 8-bit entry: zero_point=np.array(-128): literal 128 under USub;
          # symmetric=False written; 16-bit entry uses the dataclass default
          fixed.append([(b8, n8, d8, -z8, False), (b16, n16, d16, z16, True)])
          d = f'MFixed {kind}'
        elif name == 'materialize_tanh':
          if sha != '2a6bdd1fbbee' or consts != [8, 16, 1.0, 1, 1, 0, 16]:
            fail(path, fn, f'materialize_tanh changed shape ({sha}, {consts})')
          kind = len(fixed)
          # scale = 1.0 / (1 << (bits - 1)); zp 0; symmetric = (bits == 16)
          fixed.append([(b, 1.0, 1 << (b - 1), 0, b == 16) for b in (8, 16)])
          d = f'MFixed {kind}'
        else:
          fail(path, fn, f'unrecognised materializer shape {name} ({sha})')
      descs[full] = d
    elif mod == 'float_casting':
      fn = find_func(fpath, ftree, name)
      sha, consts = fn_shape(fn)
      helper = find_func(fpath, ftree, '_config_no_quantize_tensor')
      if fn_shape(helper)[0] != 'fe66fa0eb7d6':
        fail(fpath, helper, '_config_no_quantize_tensor changed shape')
      if name == 'materialize_fc_conv':
        if (sha, consts) != ('48ac573eade4', [16]):
          fail(fpath, fn, f'float_casting.materialize_fc_conv changed ({sha})')
        descs[full] = 'MCast 0 1 2'
      elif name == 'materialize_embedding_lookup':
        if sha != 'f94b7da0e582':
          fail(fpath, fn, 'float_casting.materialize_embedding_lookup changed')
        descs[full] = 'MCast 0 1 2'
      elif name == 'materialize_conv2d_transpose':
        if (sha, consts) != ('b65dbfe7c7c9', [2, 1, 3, 0, 16]):
          fail(fpath, fn, f'float_casting.materialize_conv2d_transpose changed ({sha}, {consts})')
        descs[full] = f'MCast {consts[0]} {consts[1]} {consts[2]}'
      else:
        fail(fpath, fn, f'unrecognised float_casting materializer {name}')
    else:
      raise Py2VError(f'unknown materializer module {mod}')
  out.append('Definition mat_desc_of (f : matfunc) : mat_desc :=\n  match f with')
  for full in ctx.matfuncs:
    out.append(f'  | Mat_{full.replace(".", "_")} => {descs[full]}')
  out.append('  end.')

  def zr(x):
    if float(x) != int(x):
      raise Py2VError(f'non-integral literal {x} in a fixed range')
    x = int(x)
    return f'({x})' if x < 0 else str(x)
  out.append('Definition fixed_ranges : list (list fixed_range) := [')
  out.append(';\n'.join(
      '  [' + '; '.join(
          f'{{| fr_bits := {zr(b)}; fr_num := {zr(n)}; fr_den := {zr(dn)}; '
          f'fr_zp := {zr(z)}; fr_sym := {coq_bool(sy)} |}}'
          for (b, n, dn, z, sy) in kind) + ']' for kind in fixed))
  out.append('].')
  return '\n'.join(out)


def scope_tokens(path, fn):
  """Recognise `scope = ''; for i in op.outputs: if i != -1: scope += ...;
  return scope` and return the per-output token list."""
  body = [st for st in fn.body if not (
      isinstance(st, ast.Expr) and isinstance(st.value, ast.Constant))]
  if not (len(body) == 3 and isinstance(body[0], ast.Assign) and
          isinstance(body[0].value, ast.Constant) and body[0].value.value == '' and
          isinstance(body[1], ast.For) and isinstance(body[2], ast.Return)):
    fail(path, fn, 'scope function is not init / for / return')
  var = body[0].targets[0].id
  if ast.unparse(body[2].value) != var:
    fail(path, fn, 'scope function does not return the accumulator')
  loop = body[1]
  if ast.unparse(loop.iter) != 'op.outputs' or loop.orelse:
    fail(path, loop, 'scope loop does not iterate op.outputs')
  idx = loop.target.id
  if not (len(loop.body) == 1 and isinstance(loop.body[0], ast.If) and
          ast.unparse(loop.body[0].test) == f'{idx} != -1' and
          not loop.body[0].orelse):
    fail(path, loop, 'scope loop body is not `if idx != -1:`')
  toks = []
  alias = {}
  for st in loop.body[0].body:
    if isinstance(st, ast.Assign) and len(st.targets) == 1 and isinstance(
        st.targets[0], ast.Name):
      if st.targets[0].id == var:
        # `scope = ...` inside the loop: the accumulator is overwritten, only
        # the pieces after the last overwrite survive per iteration AND all
        # earlier iterations are lost: not a flat_map; model it explicitly.
        toks = ['TReset']
        txt = ast.unparse(st.value)
        for a, b in alias.items():
          txt = txt.replace(a, b)
        if txt != f'tfl_flatbuffer_utils.get_tensor_name(subgraph_tensors[{idx}])':
          fail(path, st, f'unsupported scope overwrite {txt}')
        toks.append('TName x')
        continue
      alias[st.targets[0].id] = ast.unparse(st.value)
      continue
    if not (isinstance(st, ast.AugAssign) and isinstance(st.op, ast.Add) and
            ast.unparse(st.target) == var):
      fail(path, st, 'unsupported statement in scope loop')
    v = st.value
    if isinstance(v, ast.Constant) and isinstance(v.value, str):
      toks += [f'TLit {ord(c)}' for c in v.value]
      continue
    txt = ast.unparse(v)
    for a, b in alias.items():
      txt = txt.replace(a, b)
    if txt != f'tfl_flatbuffer_utils.get_tensor_name(subgraph_tensors[{idx}])':
      fail(path, st, f'unsupported scope piece {txt}')
    toks.append('TName x')
  return toks


def gen_scopes(ctx):
  out = [HEADER, """(* scope string as a token list: tensor names and literal characters *)
Inductive stok := TName (tensor : Z) | TLit (char : Z) | TReset.
Definition stok_eqb (a b : stok) : bool :=
  match a, b with
  | TName x, TName y => Z.eqb x y | TLit x, TLit y => Z.eqb x y
  | TReset, TReset => true | _, _ => false end.
(* an assignment to the accumulator discards everything before it *)
Fixpoint after_reset (acc l : list stok) : list stok :=
  match l with
  | [] => acc
  | TReset :: r => after_reset [] r
  | t :: r => after_reset (acc ++ [t]) r
  end.
"""]
  for rel, cls, name in (('calibrator.py', 'Calibrator', 'scope_calibrator'),
                         ('params_generator.py', 'ParamsGenerator',
                          'scope_params_generator')):
    path, tree = parse(ctx.root, rel)
    fn = find_func(path, tree, '_get_op_scope', cls)
    toks = scope_tokens(path, fn)
    out.append(f'(* {rel}:{fn.lineno} {cls}._get_op_scope *)')
    body = ('flat_map (fun x => if negb (Z.eqb x (-1)) then ['
            + '; '.join(toks) + '] else []) outputs')
    if 'TReset' in toks:
      body = f'after_reset [] ({body})'
    out.append(f'Definition {name} (outputs : list Z) : list stok :=\n  {body}.\n')
  return '\n'.join(out)


def gen_consts(ctx):
  """Numeric constants of the arithmetic, as IEEE bit patterns."""
  out = [HEADER]
  upath, utree = parse(ctx.root, 'algorithms/uniform_quantize/uniform_quantize_tensor.py')
  fn = find_func(upath, utree, 'tensor_zp_scale_from_min_max')
  mb = None
  for st in ast.walk(fn):
    if isinstance(st, ast.Assign) and len(st.targets) == 1 and isinstance(
        st.targets[0], ast.Name) and st.targets[0].id == 'min_bound':
      if not (isinstance(st.value, ast.Constant) and isinstance(st.value.value, float)):
        fail(upath, st, 'min_bound is not a float literal')
      mb = st.value.value
  if mb is None:
    fail(upath, fn, 'min_bound not found')
  sha, consts = fn_shape(fn)
  out.append(f'(* uniform_quantize_tensor.tensor_zp_scale_from_min_max: min_bound = {mb!r}; body shape {sha} *)')
  out.append(f'Definition min_bound_f64_bits : Z := {f64_bits(mb)}.')
  out.append(f'Definition min_bound_f32_bits : Z := {f32_bits(mb)}.')
  out.append(f'Definition zp_scale_shape : Z := {int(sha, 16)}.')
  # body shapes (numeric literals abstracted) of the hand-modelled numeric
  # functions: Props pin them, so an edit to one of these bodies breaks an
  # obligation even before the bit-exact correspondence runs
  qpath, qtree = parse(ctx.root, 'transformations/quantize_tensor.py')
  mpath, mtree = parse(ctx.root, 'algorithms/utils/min_max_quantize_utils.py')
  for (pth, tr, name) in ((upath, utree, 'uniform_quantize'),
                          (upath, utree, 'uniform_dequantize'),
                          (upath, utree, '_round_and_clip'),
                          (upath, utree, 'assign_quantized_type'),
                          (upath, utree, 'get_quantized_range'),
                          (upath, utree, 'symmetric_quantize_bias_tensor'),
                          (upath, utree, 'fix_quantization_params_rank'),
                          (qpath, qtree, '_pack_data'),
                          (mpath, mtree, '_get_min_max_from_quant_params')):
    f2 = find_func(pth, tr, name)
    sh, cs = fn_shape(f2)
    out.append(f'Definition shape_{name.lstrip("_")} : Z := {int(sh, 16)}.  '
               f'(* literals {cs} *)')
  # model_modifier: large-model serialisation (Model/Serial.v): alignment
  # constant, size threshold, body shapes
  spath, stree = parse(ctx.root, 'model_modifier.py')
  ser = find_func(spath, stree, '_serialize_large_model', 'ModelModifier')
  mods = sorted(set(n.right.value for n in ast.walk(ser)
                    if isinstance(n, ast.BinOp) and isinstance(n.op, ast.Mod)
                    and isinstance(n.right, ast.Constant)))
  if len(mods) != 1 or not isinstance(mods[0], int):
    fail(spath, ser, f'expected one alignment constant in the padding loops, found {mods}')
  out.append(f'(* model_modifier._serialize_large_model: while len(..) % {mods[0]} *)')
  out.append(f'Definition serial_align : Z := {mods[0]}.')
  mm = find_func(spath, stree, 'modify_model', 'ModelModifier')
  thr = None
  for n in ast.walk(mm):
    if (isinstance(n, ast.Compare) and isinstance(n.left, ast.Name) and
        n.left.id == 'constant_buffer_size' and len(n.ops) == 1 and
        isinstance(n.ops[0], ast.Gt) and not isinstance(n.comparators[0], ast.Call)):
      try:
        thr = eval(compile(ast.Expression(n.comparators[0]), '<thr>', 'eval'), {'__builtins__': {}})  # pylint: disable=eval-used
      except Exception:  # pylint: disable=broad-except
        fail(spath, n, 'large-model threshold is not a constant expression')
  if not isinstance(thr, int):
    fail(spath, mm, 'large-model threshold comparison not found')
  out.append(f'Definition large_model_threshold : Z := {thr}.')
  for name in ('_serialize_large_model', '_process_constant_map', '_serialize_small_model'):
    f2 = find_func(spath, stree, name, 'ModelModifier')
    sh, cs = fn_shape(f2)
    out.append(f'Definition shape_{name.lstrip("_")} : Z := {int(sh, 16)}.  '
               f'(* literals {cs} *)')
  cpath, ctree = parse(ctx.root, 'utils/calibration_utils.py')
  fn = find_func(cpath, ctree, 'moving_average_update')
  dv = fn.args.defaults
  if not (len(dv) == 1 and isinstance(dv[0], ast.Constant) and isinstance(dv[0].value, float)):
    fail(cpath, fn, 'smoothing_factor default is not a float literal')
  a = dv[0].value
  helper = find_func(cpath, ctree, '_update_moving_average')
  body = [st for st in helper.body if not (isinstance(st, ast.Expr) and isinstance(st.value, ast.Constant))]
  if not (len(body) == 1 and isinstance(body[0], ast.Return) and ast.unparse(body[0].value) ==
          'smoothing_factor * w + (1.0 - smoothing_factor) * update'):
    fail(cpath, helper, 'moving average expression changed')
  b = 1.0 - a
  out.append(f'(* calibration_utils: smoothing_factor = {a!r}; 1.0 - smoothing_factor = {b!r} (binary64) *)')
  out.append(f'Definition ema_old_f32_bits : Z := {f32_bits(a)}.')
  out.append(f'Definition ema_new_f32_bits : Z := {f32_bits(b)}.')
  out.append(f'Definition ema_old_f64_bits : Z := {f64_bits(a)}.')
  out.append(f'Definition ema_new_f64_bits : Z := {f64_bits(b)}.')
  return '\n'.join(out) + '\n'


def gen_recipes(ctx):
  """Shipped recipe files as jrule-like raw data (Gen/Recipes.v)."""
  out = [HEADER, 'From VF Require Import Gen.Enums Gen.Configs.\n']
  out.append('''(* raw recipe entry: op_config as found in the file; tensor configs may
   carry keys the dataclass does not know (-> TypeError on load) *)
Record raw_tcfg := { rt_cfg : tcfg; rt_unknown_keys : bool; rt_missing_bits : bool }.
Record raw_entry := {
  re_regex : Z; re_op : opname; re_alg : Z (* algname code, -1 unknown *);
  re_has_op_config : bool;
  re_act : option raw_tcfg; re_wt : option raw_tcfg;
  re_prec : precision; re_expl : bool; re_skip : bool;
  re_unknown_keys : bool }.
''')
  rdir = os.path.join(ctx.root, 'ai_edge_quantizer', 'recipes')
  names = sorted(f for f in os.listdir(rdir) if f.endswith('.json'))
  regexes = {}

  def rid(s):
    return regexes.setdefault(s, len(regexes))

  def raw_t(d):
    known = {'num_bits', 'symmetric', 'granularity', 'dtype', 'block_size'}
    unknown = bool(set(d.keys()) - known)
    gran = ctx.enum_by_value['granularity'].get(
        d.get('granularity', 'TENSORWISE'))
    dt = ctx.enum_by_value['dtype'].get(d.get('dtype', 'INT'))
    if gran is None or dt is None:
      raise Py2VError(f'recipe file: unknown enum value in {d}')
    t = (f'(Mk_tcfg ({int(d.get("num_bits", 0))}) '
         f'{coq_bool(d.get("symmetric", True))} {gran} {dt} '
         f'({int(d.get("block_size", 0))}))')
    return (f'{{| rt_cfg := {t}; rt_unknown_keys := {coq_bool(unknown)}; '
            f'rt_missing_bits := {coq_bool("num_bits" not in d)} |}}')

  defs = []
  for n in names:
    with open(os.path.join(rdir, n)) as f:
      data = json.load(f)
    items = []
    for ent in data:
      oc = ent.get('op_config')
      ocd = oc or {}
      known = {'activation_tensor_config', 'weight_tensor_config',
               'compute_precision', 'explicit_dequantize', 'skip_checks'}
      alg = ctx.enum_by_value['algname'].get(ent['algorithm_key'])
      algcode = (list(ctx.enum_by_value['algname'].values()).index(alg)
                 if alg else -1)
      op = ctx.enum_by_value['opname'].get(ent['operation'])
      if op is None:
        raise Py2VError(f'{n}: unknown operation {ent["operation"]}')
      act = ('Some (' + raw_t(ocd['activation_tensor_config']) + ')'
             if 'activation_tensor_config' in ocd else 'None')
      wt = ('Some (' + raw_t(ocd['weight_tensor_config']) + ')'
            if 'weight_tensor_config' in ocd else 'None')
      prec = ctx.enum_by_value['precision'].get(
          ocd.get('compute_precision', 'FLOAT'))
      items.append(
          f'  {{| re_regex := {rid(ent["regex"])}; re_op := {op}; '
          f're_alg := {algcode}; re_has_op_config := {coq_bool(oc is not None)};\n'
          f'     re_act := {act};\n     re_wt := {wt};\n'
          f'     re_prec := {prec}; re_expl := '
          f'{coq_bool(ocd.get("explicit_dequantize", False))}; re_skip := '
          f'{coq_bool(ocd.get("skip_checks", False))}; re_unknown_keys := '
          f'{coq_bool(bool(set(ocd.keys()) - known))} |}}')
    ident = 'recipe_' + n[:-5]
    defs.append(ident)
    out.append(f'Definition {ident} : list raw_entry := [\n' +
               ';\n'.join(items) + '\n].')
  out.append('Definition shipped_recipes : list (list raw_entry) := [' +
             '; '.join(defs) + '].')
  out.append('(* file order: ' + ', '.join(names) + ' *)')
  out.append('(* regex ids: ' + json.dumps(regexes) + ' *)')
  # recipe.py helper: dynamic_wi8_afp32 must equal the json file of that name
  return '\n'.join(out)


def generate(ctx):
  files = {}
  files['Checks.v'] = gen_checks(ctx)
  files['Recipes.v'] = gen_recipes(ctx)
  files['InstChecks.v'] = gen_instchecks(ctx)
  files['MatDesc.v'] = gen_matdesc(ctx)
  files['Scopes.v'] = gen_scopes(ctx)
  files['Consts.v'] = gen_consts(ctx)
  return files
