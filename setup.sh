#!/bin/sh
# Build the framework from files on disk only (offline).
set -e
cd "$(dirname "$0")"
python3 tools/py2v/py2v.py /repo coq/Gen
cd coq
coq_makefile -f _CoqProject -o Makefile
timeout 3000 make -j16
