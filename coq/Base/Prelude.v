(* Base/Prelude.v — shared vocabulary: exception monad, canonical encoding
   type J used by every correspondence interface, small list utilities.
   No axioms, no proofs of properties here. *)
From Coq Require Export ZArith List Bool Lia.
Export ListNotations.
Open Scope Z_scope.

(* Python exceptions that the modelled code can raise.  The correspondence
   harness maps every exception class of the implementation to one of these
   (anything else is [OtherError]). *)
Inductive exn :=
| ValueError | AttributeError | KeyError | RuntimeError | TypeError
| IndexError | OtherError.

Definition exn_code (e : exn) : Z :=
  match e with
  | ValueError => 1 | AttributeError => 2 | KeyError => 3 | RuntimeError => 4
  | TypeError => 5 | IndexError => 6 | OtherError => 7
  end.

Inductive res (A : Type) := Ok (a : A) | Err (e : exn).
Arguments Ok {A} a.
Arguments Err {A} e.

Definition bind {A B} (m : res A) (f : A -> res B) : res B :=
  match m with Ok a => f a | Err e => Err e end.
Notation "x <- m ;; k" := (bind m (fun x => k))
  (at level 61, m at next level, right associativity).
Notation "m ;;; k" := (bind m (fun _ => k))
  (at level 61, right associativity).

Definition is_ok {A} (m : res A) : bool := match m with Ok _ => true | Err _ => false end.

(* python `a and b` / `a or b` / `not a` on possibly-raising operands *)
Definition band (a b : res bool) : res bool :=
  x <- a ;; if x then b else Ok false.
Definition bor (a b : res bool) : res bool :=
  x <- a ;; if x then Ok true else b.
Definition bnot (a : res bool) : res bool := x <- a ;; Ok (negb x).

(* attribute access on an Optional value: None.attr raises AttributeError *)
Definition unopt {A} (o : option A) : res A :=
  match o with Some a => Ok a | None => Err AttributeError end.
Definition is_none {A} (o : option A) : bool :=
  match o with None => true | Some _ => false end.

(* ------------------------------------------------------------------ *)
(* Canonical encoding compared by the correspondence harness.          *)
Inductive J := JZ (z : Z) | JL (l : list J).

Fixpoint flat (j : J) : list Z :=
  match j with
  | JZ z => [0; z]
  | JL l => 1 :: Z.of_nat (length l) ::
            (fix go (l : list J) : list Z :=
               match l with [] => [] | x :: r => flat x ++ go r end) l
  end.

Definition JB (b : bool) : J := JZ (if b then 1 else 0).
Definition JN (n : nat) : J := JZ (Z.of_nat n).
Definition Jopt {A} (f : A -> J) (o : option A) : J :=
  match o with None => JL [] | Some a => JL [f a] end.
Definition Jlist {A} (f : A -> J) (l : list A) : J := JL (map f l).
Definition Jres {A} (f : A -> J) (r : res A) : J :=
  match r with Ok a => JL [JZ 0; f a] | Err e => JL [JZ 1; JZ (exn_code e)] end.

(* ------------------------------------------------------------------ *)
(* list utilities *)
Section ListUtil.
  Context {A : Type}.

  Fixpoint nth_opt (l : list A) (n : nat) : option A :=
    match l, n with
    | [], _ => None
    | x :: _, O => Some x
    | _ :: r, S n => nth_opt r n
    end.

  (* Python list indexing with an int (negative indices wrap once). *)
  Definition py_index (l : list A) (i : Z) : res A :=
    let n := Z.of_nat (length l) in
    let j := if i <? 0 then i + n else i in
    if (j <? 0) || (n <=? j) then Err IndexError
    else match nth_opt l (Z.to_nat j) with Some a => Ok a | None => Err IndexError end.

  Fixpoint set_nth (l : list A) (n : nat) (a : A) : list A :=
    match l, n with
    | [], _ => []
    | _ :: r, O => a :: r
    | x :: r, S n => x :: set_nth r n a
    end.

  Fixpoint insert_at (l : list A) (n : nat) (a : A) : list A :=
    match n, l with
    | O, _ => a :: l
    | S n, [] => [a]                      (* list.insert past the end appends *)
    | S n, x :: r => x :: insert_at r n a
    end.

  Fixpoint find_index (p : A -> bool) (l : list A) : option nat :=
    match l with
    | [] => None
    | x :: r => if p x then Some O else option_map S (find_index p r)
    end.

  Fixpoint mapi_from (f : nat -> A -> A) (i : nat) (l : list A) : list A :=
    match l with [] => [] | x :: r => f i x :: mapi_from f (S i) r end.
End ListUtil.

Fixpoint list_eqb {A} (eqb : A -> A -> bool) (a b : list A) : bool :=
  match a, b with
  | [], [] => true
  | x :: a, y :: b => eqb x y && list_eqb eqb a b
  | _, _ => false
  end.

Definition opt_eqb {A} (eqb : A -> A -> bool) (a b : option A) : bool :=
  match a, b with
  | None, None => true
  | Some x, Some y => eqb x y
  | _, _ => false
  end.

Definition memZ (x : Z) (l : list Z) : bool := existsb (Z.eqb x) l.

Fixpoint minZ (d : Z) (l : list Z) : Z :=
  match l with [] => d | x :: r => minZ (Z.min d x) r end.
(* python min(list) for a non-empty list; ValueError on empty *)
Definition py_min (l : list Z) : res Z :=
  match l with [] => Err ValueError | x :: r => Ok (minZ x r) end.

Fixpoint enumerate_from {A} (i : Z) (l : list A) : list (Z * A) :=
  match l with [] => [] | x :: r => (i, x) :: enumerate_from (i + 1) r end.
Definition enumerate {A} (l : list A) := enumerate_from 0 l.

Fixpoint mapM {A B} (f : A -> res B) (l : list A) : res (list B) :=
  match l with
  | [] => Ok []
  | x :: r => y <- f x ;; ys <- mapM f r ;; Ok (y :: ys)
  end.

Fixpoint foldM {A S} (f : S -> A -> res S) (l : list A) (s : S) : res S :=
  match l with
  | [] => Ok s
  | x :: r => s' <- f s x ;; foldM f r s'
  end.
