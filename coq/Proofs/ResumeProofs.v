(* Proofs/ResumeProofs.v — C09 resumability: (a) the number of accumulated
   copies of the virtual I/O operators does not influence a sample;
   (b) calibrating on D1 and continuing on D2 from the returned store gives
   exactly the store of one pass over D1 ++ D2. *)
From VF Require Import Base.Prelude Gen.Enums Gen.Configs Gen.Registry Gen.Checks Gen.Scopes
     Model.Recipe Model.Check Model.Graph Model.Plan Model.Calib Proofs.ListFacts Proofs.CalibProofs.

Section Resume.
  Variable matches : Z -> Z -> bool.
  Variable rules : state.
  Variable bufs : list bufval.
  Variable scope_id : Z -> list stok -> Z.

  Notation sample_step := (sample_step matches rules bufs).
  Notation selected := (selected matches rules).

  (* the names an op contributes (independent of the store) *)
  Definition contributes (g : subgraph) (k : Z) (op : cop) (ns : list name_t) : Prop :=
    match selected op with
    | None => ns = []
    | Some (a, c, o) =>
        exists a' es, algname_of a = Ok a' /\ is_op_registered (AK a') o = true /\
                      collect_op bufs (sg_tensors g) op a' k = Ok es /\ ns = map fst es
    end.

  Definition inner (st : qstore * list name_t) (e : name_t * qval) : qstore * list name_t :=
    let '(s, upd) := st in
    if existsb (name_eqb2 (fst e)) upd then (s, upd)
    else match qs_get s (fst e) with
         | None => (qs_set s (fst e) (snd e), fst e :: upd)
         | Some old => (qs_set s (fst e) (update old (snd e)), fst e :: upd)
         end.

  Lemma inner_fold_covered es : forall s upd,
    (forall n, In n (map fst es) -> In n upd) -> fold_left inner es (s, upd) = (s, upd).
  Proof.
    induction es as [|e es IH]; intros s upd H; cbn [fold_left]; [reflexivity|].
    unfold inner at 2. assert (Hin : In (fst e) upd) by (apply H; left; reflexivity).
    apply existsb_name_In in Hin. rewrite Hin. apply IH. intros n Hn. apply H. right. exact Hn.
  Qed.

  Lemma inner_fold_grows es : forall s upd s' upd',
    fold_left inner es (s, upd) = (s', upd') ->
    (forall n, In n upd -> In n upd') /\ (forall n, In n (map fst es) -> In n upd').
  Proof.
    induction es as [|e es IH]; intros s upd s' upd' H; cbn [fold_left] in H.
    - inversion H; subst. split; [auto|intros n []].
    - unfold inner at 2 in H. destruct (existsb (name_eqb2 (fst e)) upd) eqn:Ex.
      + destruct (IH _ _ _ _ H) as [A B]. split; [exact A|].
        intros n [<-|Hn]; [apply A; apply existsb_name_In; exact Ex|apply B; exact Hn].
      + destruct (qs_get s (fst e)); destruct (IH _ _ _ _ H) as [A B];
          (split; [intros n Hn; apply A; right; exact Hn|
                   intros n [<-|Hn]; [apply A; left; reflexivity|apply B; exact Hn]]).
  Qed.

  Lemma sample_step_unfold g k s upd op :
    sample_step g k (s, upd) op =
    match selected op with
    | None => Ok (s, upd)
    | Some (a, c, o) =>
        a' <- algname_of a ;;
        if negb (is_op_registered (AK a') o) then Err ValueError else
        es <- collect_op bufs (sg_tensors g) op a' k ;; Ok (fold_left inner es (s, upd))
    end.
  Proof. reflexivity. Qed.

  (* a successful step makes the op's names covered and only grows the set *)
  Lemma step_grows g k s upd op s' upd' :
    sample_step g k (s, upd) op = Ok (s', upd') ->
    exists ns, contributes g k op ns /\
      (forall n, In n upd -> In n upd') /\ (forall n, In n ns -> In n upd').
  Proof.
    rewrite sample_step_unfold. unfold contributes.
    destruct (selected op) as [[[a c] o]|].
    - destruct (algname_of a) as [a'|]; cbn [bind]; [|discriminate].
      destruct (is_op_registered (AK a') o) eqn:Er; cbn [negb]; [|discriminate].
      destruct (collect_op bufs (sg_tensors g) op a' k) as [es|] eqn:Ec; cbn [bind]; [|discriminate].
      intros H. inversion H as [H1]. destruct (inner_fold_grows _ _ _ _ _ H1) as [A B].
      exists (map fst es). split; [exists a', es; auto|auto].
    - intros H; inversion H; subst. exists []. split; [reflexivity|]. split; [auto|intros n []].
  Qed.

  (* an op whose names are all covered is a no-op *)
  Lemma step_covered g k s upd op ns :
    contributes g k op ns -> (forall n, In n ns -> In n upd) ->
    sample_step g k (s, upd) op = Ok (s, upd).
  Proof.
    rewrite sample_step_unfold. unfold contributes. destruct (selected op) as [[[a c] o]|]; [|reflexivity].
    intros (a' & es & Ea & Er & Ec & ->) Hcov. rewrite Ea. cbn [bind]. rewrite Er. cbn [negb]. rewrite Ec. cbn [bind].
    rewrite inner_fold_covered by exact Hcov. reflexivity.
  Qed.

  Lemma foldM_app {A S} (f : S -> A -> res S) l1 l2 s :
    foldM f (l1 ++ l2) s = (s1 <- foldM f l1 s ;; foldM f l2 s1).
  Proof.
    revert s. induction l1 as [|a l1 IH]; intros s; cbn; [reflexivity|].
    destruct (f s a); cbn [bind]; [apply IH|reflexivity].
  Qed.

  (* after a list of ops has been processed, every op of the list is covered *)
  Lemma fold_covers g k : forall ops s upd s' upd',
    foldM (sample_step g k) ops (s, upd) = Ok (s', upd') ->
    (forall n, In n upd -> In n upd') /\
    forall op, In op ops -> exists ns, contributes g k op ns /\ forall n, In n ns -> In n upd'.
  Proof.
    induction ops as [|op ops IH]; intros s upd s' upd' H; cbn [foldM] in H.
    - inversion H; subst. split; [auto|intros op []].
    - destruct (sample_step g k (s, upd) op) as [[s1 upd1]|] eqn:E; cbn [bind] in H; [|discriminate].
      destruct (step_grows _ _ _ _ _ _ _ E) as (ns & Hc & G1 & G2).
      destruct (IH _ _ _ _ H) as [A B]. split; [intros n Hn; apply A; apply G1; exact Hn|].
      intros op' [<-|Hin]; [exists ns; split; [exact Hc|intros n Hn; apply A; apply G2; exact Hn]|apply B; exact Hin].
  Qed.

  Lemma fold_covered_noop g k : forall ops s upd,
    (forall op, In op ops -> exists ns, contributes g k op ns /\ forall n, In n ns -> In n upd) ->
    foldM (sample_step g k) ops (s, upd) = Ok (s, upd).
  Proof.
    induction ops as [|op ops IH]; intros s upd H; cbn [foldM]; [reflexivity|].
    destruct (H op (or_introl eq_refl)) as (ns & Hc & Hcov).
    rewrite (step_covered _ _ _ _ _ _ Hc Hcov). cbn [bind]. apply IH. intros op' Hin. apply H. right. exact Hin.
  Qed.

  Lemma in_concat_repeat {A} (l : list A) c x : In x (concat (repeat l c)) -> In x l.
  Proof.
    induction c as [|c IH]; cbn [repeat concat]; [intros []|].
    intros H. apply in_app_iff in H. destruct H as [H|H]; [exact H|apply IH; exact H].
  Qed.

  (* (a) any number >= 1 of accumulated I/O-operator copies gives the same store *)
  Theorem copies_irrelevant m gi g ad c k s :
    one_sample_gen matches rules bufs scope_id m gi g ad (S c) k s
    = one_sample_gen matches rules bufs scope_id m gi g ad 1 k s.
  Proof.
    unfold one_sample_gen. cbn [repeat concat]. rewrite app_nil_r.
    set (real := real_cops scope_id gi (m_opcodes m) g ad). set (io := io_cops scope_id gi g).
    rewrite (app_assoc real io). rewrite foldM_app.
    destruct (foldM (sample_step g k) (real ++ io) (s, [])) as [[s1 upd1]|] eqn:E; cbn [bind]; [|reflexivity].
    destruct (fold_covers _ _ _ _ _ _ _ E) as [_ Hcov].
    rewrite fold_covered_noop; [reflexivity|].
    intros op Hin. apply Hcov. apply in_app_iff. right.
    eapply in_concat_repeat. exact Hin.
  Qed.

  (* keys never disappear *)
  Lemma qs_set_nonempty s n v : qs_set s n v <> [].
  Proof. destruct s as [|[k w] s]; cbn; [discriminate|destruct (name_eqb2 k n); discriminate]. Qed.

  Lemma inner_fold_nonempty es : forall s upd s' upd',
    fold_left inner es (s, upd) = (s', upd') -> s' = [] -> s = [].
  Proof.
    induction es as [|e es IH]; intros s upd s' upd' H E; cbn [fold_left] in H; [inversion H; subst; reflexivity|].
    unfold inner at 2 in H. destruct (existsb (name_eqb2 (fst e)) upd); [eapply IH; eassumption|].
    destruct (qs_get s (fst e)); exfalso; eapply qs_set_nonempty; eapply IH; eassumption.
  Qed.

  Lemma fold_nonempty g k : forall ops s upd s' upd',
    foldM (sample_step g k) ops (s, upd) = Ok (s', upd') -> s' = [] -> s = [].
  Proof.
    induction ops as [|op ops IH]; intros s upd s' upd' H E; cbn [foldM] in H; [inversion H; subst; reflexivity|].
    destruct (sample_step g k (s, upd) op) as [[s1 upd1]|] eqn:Es; cbn [bind] in H; [|discriminate].
    specialize (IH _ _ _ _ H E). subst s1. rewrite sample_step_unfold in Es.
    destruct (selected op) as [[[a c] o]|]; [|inversion Es; reflexivity].
    destruct (algname_of a) as [a'|]; cbn [bind] in Es; [|discriminate].
    destruct (negb (is_op_registered (AK a') o)); [discriminate|].
    destruct (collect_op bufs (sg_tensors g) op a' k) as [es|]; cbn [bind] in Es; [|discriminate].
    inversion Es as [E1]. eapply inner_fold_nonempty; [exact E1|reflexivity].
  Qed.

  (* calibration from a given store over a list of (copies, label) samples:
     initialisation only when the store is empty *)
  Definition run_samples (m : model) (adjy : list (list bool)) (gi : Z) (g : subgraph) (ad : list bool)
             (samples : list (nat * Z)) (s0 : qstore) : res qstore :=
    s1 <- (match s0 with [] => initialize matches rules bufs scope_id m adjy s0 | _ => Ok s0 end) ;;
    foldM (fun s ck => one_sample_gen matches rules bufs scope_id m gi g ad (fst ck) (snd ck) s) samples s1.

  (* (b) resume: D1 then D2 from the returned store = one pass over D1 ++ D2 *)
  Theorem resume m adjy gi g ad d1 d2 :
    run_samples m adjy gi g ad (d1 ++ d2) []
    = (s <- run_samples m adjy gi g ad d1 [] ;; run_samples m adjy gi g ad d2 s).
  Proof.
    unfold run_samples.
    destruct (initialize matches rules bufs scope_id m adjy []) as [s1|] eqn:Ei; cbn [bind]; [|reflexivity].
    rewrite foldM_app.
    match goal with |- (x <- ?f ;; _) = _ => destruct f as [sa|] eqn:E1 end; cbn [bind]; [|reflexivity].
    destruct sa as [|e sa]; [|reflexivity].
    (* the store is still empty after D1: then it was empty after the
       initialisation, and initialising again gives the same (empty) store *)
    assert (Hs1 : s1 = []).
    { clear -E1. revert s1 E1. induction d1 as [|[c k] d1 IH]; intros s1 E1; cbn [foldM] in E1; [inversion E1; reflexivity|].
      cbn beta in E1. cbn [fst snd] in E1.
      destruct (one_sample_gen matches rules bufs scope_id m gi g ad c k s1) as [s2|] eqn:E2; cbn [bind] in E1; [|discriminate].
      cbn [fst snd] in E2. specialize (IH _ E1). subst s2. unfold one_sample_gen in E2.
      match type of E2 with (r <- ?f ;; _) = _ => destruct f as [[sf uf]|] eqn:Ef end; cbn [bind] in E2; [|discriminate].
      inversion E2 as [E3]. cbn in E3. subst sf. eapply fold_nonempty; [exact Ef|reflexivity]. }
    subst s1. rewrite Ei. reflexivity.
  Qed.
End Resume.

(* the modelled Quantizer.calibrate without a previous result is [run_samples]
   over samples 0..n-1, sample k carrying k+1 copies of the I/O operators *)
Lemma calibrate_is_run_samples matches rules bufs scope_id m adjy sig n g ad :
  need_calibration rules = true ->
  py_index (m_subgraphs m) sig = Ok g -> py_index adjy sig = Ok ad ->
  calibrate matches rules bufs scope_id m adjy sig None n
  = run_samples matches rules bufs scope_id m adjy sig g ad
      (map (fun k => (Z.to_nat (k + 1), k)) (map Z.of_nat (seq 0 (Z.to_nat n)))) [].
Proof.
  intros Hn Hg Ha. unfold calibrate, run_samples. rewrite Hn. cbn [negb].
  destruct (initialize matches rules bufs scope_id m adjy []) as [s1|]; cbn [bind]; [|reflexivity].
  rewrite Hg, Ha. cbn [bind].
  generalize (map Z.of_nat (seq 0 (Z.to_nat n))) as ks. intros ks. revert s1.
  induction ks as [|k ks IH]; intros s1; cbn [map foldM]; [reflexivity|].
  unfold one_sample at 1. cbn [fst snd].
  destruct (one_sample_gen matches rules bufs scope_id m sig g ad (Z.to_nat (k + 1)) k s1); cbn [bind]; [apply IH|reflexivity].
Qed.

(* ---------------- C10: calibration records what quantization will ask for ---------------- *)
Section Covers.
  Variable matches : Z -> Z -> bool.
  Variable rules : state.
  Variable bufs : list bufval.
  Variable scope_id : Z -> list stok -> Z.
  Notation sample_step := (sample_step matches rules bufs).
  Notation selected := (selected matches rules).
  Notation inner := (inner).

  Definition has_key (s : qstore) (n : name_t) : Prop := qs_get s n <> None.

  Lemma has_key_set s n v n2 : has_key s n2 -> has_key (qs_set s n v) n2.
  Proof.
    unfold has_key. intros H. destruct (name_eqb2 n2 n) eqn:E.
    - apply name_eqb2_eq in E. subst. rewrite qs_get_set_same. discriminate.
    - rewrite qs_get_set_other; [exact H|]. intros ->. rewrite name_eqb2_refl in E. discriminate.
  Qed.
  Lemma has_key_set_same s n v : has_key (qs_set s n v) n.
  Proof. unfold has_key. rewrite qs_get_set_same. discriminate. Qed.

  Lemma inner_fold_keys es : forall s upd s' upd',
    fold_left (inner) es (s, upd) = (s', upd') ->
    (forall n, In n upd -> has_key s n) ->
    (forall n, In n upd' -> has_key s' n) /\ (forall n, has_key s n -> has_key s' n).
  Proof.
    induction es as [|e es IH]; intros s upd s' upd' H Hu; cbn [fold_left] in H.
    - inversion H; subst. auto.
    - unfold inner at 2 in H. destruct (existsb (name_eqb2 (fst e)) upd).
      + eapply IH; eassumption.
      + destruct (qs_get s (fst e)) eqn:Eg.
        * destruct (IH _ _ _ _ H) as [A B].
          { intros n [<-|Hn]; [apply has_key_set_same|apply has_key_set; apply Hu; exact Hn]. }
          split; [exact A|intros n Hn; apply B; apply has_key_set; exact Hn].
        * destruct (IH _ _ _ _ H) as [A B].
          { intros n [<-|Hn]; [apply has_key_set_same|apply has_key_set; apply Hu; exact Hn]. }
          split; [exact A|intros n Hn; apply B; apply has_key_set; exact Hn].
  Qed.

  Lemma fold_keys g k : forall ops s upd s' upd',
    foldM (sample_step g k) ops (s, upd) = Ok (s', upd') ->
    (forall n, In n upd -> has_key s n) ->
    (forall n, In n upd' -> has_key s' n) /\ (forall n, has_key s n -> has_key s' n).
  Proof.
    induction ops as [|op ops IH]; intros s upd s' upd' H Hu; cbn [foldM] in H.
    - inversion H; subst. auto.
    - destruct (sample_step g k (s, upd) op) as [[s1 upd1]|] eqn:E; cbn [bind] in H; [|discriminate].
      assert (H1 : (forall n, In n upd1 -> has_key s1 n) /\ (forall n, has_key s n -> has_key s1 n)).
      { rewrite sample_step_unfold in E. destruct (selected op) as [[[a c] o]|]; [|inversion E; subst; auto].
        destruct (algname_of a) as [a'|]; cbn [bind] in E; [|discriminate].
        destruct (negb (is_op_registered (AK a') o)); [discriminate|].
        destruct (collect_op bufs (sg_tensors g) op a' k) as [es|]; cbn [bind] in E; [|discriminate].
        inversion E as [E1]. eapply inner_fold_keys; eassumption. }
      destruct H1 as [A1 B1]. destruct (IH _ _ _ _ H A1) as [A B]. split; [exact A|intros n Hn; apply B; apply B1; exact Hn].
  Qed.

  (* names collected for one op by the min/max algorithm: every present,
     non-constant operand or result *)
  Lemma fold_set_keys : forall (es : list (name_t * qval)) acc n,
    (has_key acc n \/ In n (map fst es)) ->
    has_key (fold_left (fun acc e => qs_set acc (fst e) (snd e)) es acc) n.
  Proof.
    induction es as [|e es IH]; intros acc n H; cbn [fold_left].
    - destruct H as [H|[]]. exact H.
    - apply IH. destruct H as [H|[<-|H]]; [left; apply has_key_set; exact H|left; apply has_key_set_same|right; exact H].
  Qed.

  Lemma has_key_in_fst (s : qstore) n : has_key s n -> In n (map fst s).
  Proof.
    unfold has_key. induction s as [|[k v] s IH]; cbn; [congruence|].
    destruct (name_eqb2 k n) eqn:E; [intros _; left; apply name_eqb2_eq; exact E|intros H; right; apply IH; exact H].
  Qed.

  Lemma collect_op_covers ts op k es x t :
    collect_op bufs ts op Alg_MIN_MAX_UNIFORM_QUANT k = Ok es ->
    In x (present (co_ins op) ++ present (co_outs op)) -> py_index ts x = Ok t -> is_const bufs t = false ->
    In (tname t) (map fst es).
  Proof.
    unfold collect_op. intros H Hx Ht Hc.
    match type of H with bind ?m _ = _ => destruct m as [r|] eqn:E end; cbn [bind] in H; [|discriminate].
    inversion H; subst. apply has_key_in_fst. apply fold_set_keys. right.
    clear H. revert r E. induction (present (co_ins op) ++ present (co_outs op)) as [|y l IH]; intros r E; [destruct Hx|].
    cbn [mapM] in E. destruct (py_index ts y) as [ty|] eqn:Ey; cbn [bind] in E; [|discriminate].
    match type of E with bind ?m _ = _ => destruct m as [e1|] eqn:E1 end; cbn [bind] in E; [|discriminate].
    destruct (mapM _ l) as [rs|] eqn:E2; cbn [bind] in E; [|discriminate]. inversion E; subst. cbn [concat].
    rewrite map_app. apply in_app_iff. destruct Hx as [->|Hx].
    - left. rewrite Ht in Ey. inversion Ey; subst ty. rewrite Hc in E1. inversion E1; subst. cbn. left. reflexivity.
    - right. eapply IH; [exact Hx|reflexivity].
  Qed.

  (* after one sample, every runtime operand/result of every selected
     min/max op of the calibrated subgraph has an entry *)
  Theorem sample_covers m gi g ad copies k s s' op c o x t :
    one_sample_gen matches rules bufs scope_id m gi g ad copies k s = Ok s' ->
    In op (real_cops scope_id gi (m_opcodes m) g ad ++ concat (repeat (io_cops scope_id gi g) copies)) ->
    selected op = Some (AK Alg_MIN_MAX_UNIFORM_QUANT, c, o) ->
    In x (present (co_ins op) ++ present (co_outs op)) ->
    py_index (sg_tensors g) x = Ok t -> is_const bufs t = false ->
    has_key s' (tname t).
  Proof.
    unfold one_sample_gen. intros H Hin Hsel Hx Ht Hc.
    match type of H with bind ?f _ = _ => destruct f as [[sf uf]|] eqn:E end; cbn [bind] in H; [|discriminate].
    inversion H; subst s'. cbn [fst].
    destruct (fold_covers matches rules bufs _ _ _ _ _ _ _ E) as [_ Hcov].
    destruct (Hcov _ Hin) as (ns & Hcon & Hns).
    destruct (fold_keys _ _ _ _ _ _ _ E) as [Hk _]; [intros n []|].
    apply Hk. apply Hns. unfold contributes in Hcon. rewrite Hsel in Hcon.
    destruct Hcon as (a' & es & Ea & _ & Ec & ->). cbn in Ea. inversion Ea; subst a'.
    eapply collect_op_covers; eassumption.
  Qed.
End Covers.
