(* Proofs/InterStep.v — C06 composition, list level: inserting a DEQUANTIZE
   of a (not yet quantized) constant c in front of all its readers and
   redirecting those readers to the new tensor turns an interleaving for the
   quantized set [isq] into an interleaving for [isq + c]. *)
From VF Require Import Base.Prelude Model.Graph Model.Perform Model.Sem Spec.Interleave Proofs.ListFacts
     Proofs.PerformStep Proofs.SemProofs Proofs.SemRun.

Section InterStep.
  Variable val : Type.
  Variable K : Z -> Z -> list (option val) -> list val.
  Variable n0 : Z.
  Variables (q dq : Z -> val).
  Variable isq : Z -> bool.
  Variables (c x : Z).

  Definition isq' (t : Z) : bool := isq t || Z.eqb t c.
  Definition rw (o : op) : op := rewire_op o c x.

  Hypothesis Hc_new : isq c = false.
  Hypothesis Hc_rng : 0 <= c < n0.
  Hypothesis Hx_new : n0 <= x.

  Notation interS := (inter val K n0 isq q dq).
  Notation interS' := (inter val K n0 isq' q dq).

  Lemma operandR_keep nm nm1 x0 xo :
    (forall a, In a nm -> In a nm1) -> x0 <> c ->
    operandR n0 isq nm x0 xo -> operandR n0 isq' nm1 x0 xo.
  Proof.
    intros Hinc Hne [[-> [-> | [Hlt Hq]]]|Hin].
    - left. auto.
    - left. split; [reflexivity|right]. split; [exact Hlt|]. unfold isq'. rewrite Hq. cbn.
      apply Z.eqb_neq. exact Hne.
    - right. apply Hinc. exact Hin.
  Qed.

  (* redirecting every reader in a suffix, after the DEQUANTIZE has run *)
  Lemma inter_rw : forall nm ops0 ops,
    interS nm ops0 ops ->
    Forall (fun o0 => ~ In c (o_outs o0)) ops0 ->
    Forall (fun o => ~ In x (o_outs o)) ops ->
    (forall a, In a nm -> fst a <> c /\ fst a <> x) ->
    forall nm1, (forall a, In a nm1 <-> a = (x, c) \/ In a nm) ->
    interS' nm1 ops0 (map rw ops).
  Proof.
    induction 1 as [nm|nm o x' c' ops0 ops Hi Ho Hq Hx Hf HK _ IH|nm o0 o ops0 ops Hc Hu Ho Hi Houts _ IH];
      intros Hw Hxo Hnm nm1 Hnm1; cbn [map].
    - constructor.
    - inversion Hxo as [|? ? Hxo1 Hxo2]; subst.
      assert (Hcc : c' <> c) by (intros ->; congruence).
      assert (Hxx : x' <> x) by (intros ->; apply Hxo1; rewrite Ho; left; reflexivity).
      assert (Erw : rw o = o).
      { unfold rw, rewire_op. destruct o as [oc oi oo ou]. cbn in *. subst oi. cbn.
        destruct (Z.eqb_spec c' c); [contradiction|reflexivity]. }
      rewrite Erw. eapply I_deq; try eassumption.
      + unfold isq'. rewrite Hq. reflexivity.
      + intros C. apply in_map_iff in C. destruct C as ([a b] & E & Hin). cbn in E. subst a.
        apply Hnm1 in Hin. destruct Hin as [E|Hin]; [inversion E; contradiction|].
        apply Hf. apply in_map_iff. exists (x', b). auto.
      + apply IH; try assumption.
        * intros a [<-|Ha]; [cbn; split; [pose proof Hc_rng; lia|exact Hxx]|apply Hnm; exact Ha].
        * intros a. cbn [In]. rewrite Hnm1. split; [intros [E|[E|E]]|intros [E|[E|E]]]; auto.
    - inversion Hw as [|? ? Hw1 Hw2]; subst. inversion Hxo as [|? ? Hxo1 Hxo2]; subst.
      apply I_orig; try assumption.
      + (* operands *)
        unfold rw. rewrite rewire_op_ins. clear - Hi Hnm Hnm1 Hc_new Hc_rng Hx_new.
        induction Hi as [|x0 xo l0 l Hx HF IHF]; cbn [map]; constructor; [|exact IHF].
        unfold repl. destruct Hx as [[-> [-> | [Hlt Hq]]]|Hin].
        * destruct (Z.eqb_spec (-1) c); [lia|]. left. auto.
        * destruct (Z.eqb_spec x0 c) as [->|Hne].
          -- right. apply Hnm1. left. reflexivity.
          -- left. split; [reflexivity|right]. split; [exact Hlt|]. unfold isq'. rewrite Hq. cbn.
             apply Z.eqb_neq. exact Hne.
        * destruct (Hnm _ Hin) as [A B]. cbn in A. destruct (Z.eqb_spec xo c); [contradiction|].
          right. apply Hnm1. right. exact Hin.
      + apply Forall_forall. intros t Ht. rewrite Forall_forall in Houts. destruct (Houts _ Ht) as [A B].
        split; [exact A|]. unfold isq'. rewrite B. cbn. apply Z.eqb_neq. intros ->. contradiction.
      + apply IH; assumption.
  Qed.

  Variable newop : op.
  Hypothesis Hn_ins : o_ins newop = [c].
  Hypothesis Hn_outs : o_outs newop = [x].
  Hypothesis Hn_K : K (o_code newop) (o_uid newop) [Some (q c)] = [dq c].

  (* the whole step: prefix untouched (it does not read c), then the
     DEQUANTIZE, then the redirected suffix *)
  Lemma inter_insert : forall nm ops0 ops,
    interS nm ops0 ops ->
    Forall (fun o0 => ~ In c (o_outs o0)) ops0 ->
    Forall (fun o => ~ In x (o_outs o)) ops ->
    (forall a, In a nm -> fst a <> c /\ fst a <> x) ->
    forall p, Forall (fun o => ~ In c (o_ins o)) (firstn p ops) ->
    interS' nm ops0 (firstn p ops ++ newop :: map rw (skipn p ops)).
  Proof.
    induction 1 as [nm|nm o x' c' ops0 ops Hi Ho Hq Hx Hf HK Hrest IH|nm o0 o ops0 ops Hc Hu Ho Hi Houts Hrest IH];
      intros Hw Hxo Hnm p Hpre.
    - rewrite firstn_nil, skipn_nil. cbn. eapply I_deq; try eassumption.
      + unfold isq'. rewrite Z.eqb_refl. apply Bool.orb_true_r.
      + intros C. apply in_map_iff in C. destruct C as (a & E & Hin). destruct (Hnm _ Hin) as [_ B]. congruence.
      + constructor.
    - destruct p as [|p].
      + cbn [firstn skipn app]. eapply I_deq; try eassumption.
        * unfold isq'. rewrite Z.eqb_refl. apply Bool.orb_true_r.
        * intros C. apply in_map_iff in C. destruct C as (a & E & Hin). destruct (Hnm _ Hin) as [_ B]. congruence.
        * eapply inter_rw; try eassumption.
          -- eapply I_deq; eassumption.
          -- intros a. cbn [In]. split; (intros [E|E]; [left; symmetry; exact E|right; exact E]).
      + cbn [firstn skipn app]. inversion Hxo as [|? ? Hxo1 Hxo2]; subst.
        cbn [firstn] in Hpre. inversion Hpre as [|? ? Hp1 Hp2]; subst.
        assert (Hxx : x' <> x) by (intros ->; apply Hxo1; rewrite Ho; left; reflexivity).
        eapply I_deq; try eassumption.
        * unfold isq'. rewrite Hq. reflexivity.
        * apply IH; try assumption.
          intros a [<-|Ha]; [cbn; split; [pose proof Hc_rng; lia|exact Hxx]|apply Hnm; exact Ha].
    - destruct p as [|p].
      + cbn [firstn skipn app]. eapply I_deq; try eassumption.
        * unfold isq'. rewrite Z.eqb_refl. apply Bool.orb_true_r.
        * intros C. apply in_map_iff in C. destruct C as (a & E & Hin). destruct (Hnm _ Hin) as [_ B]. congruence.
        * eapply inter_rw; try eassumption.
          -- apply I_orig; assumption.
          -- intros a. cbn [In]. split; (intros [E|E]; [left; symmetry; exact E|right; exact E]).
      + cbn [firstn skipn app]. inversion Hw as [|? ? Hw1 Hw2]; subst. inversion Hxo as [|? ? Hxo1 Hxo2]; subst.
        cbn [firstn] in Hpre. inversion Hpre as [|? ? Hp1 Hp2]; subst.
        apply I_orig; try assumption.
        * (* the head does not read c: its operands stay valid for isq' *)
          clear - Hi Hp1 Hc_new. induction Hi as [|x0 xo l0 l Hx HF IHF]; constructor.
          -- assert (Hne : xo <> c) by (intros ->; apply Hp1; left; reflexivity).
             destruct Hx as [[-> HH]|Hin].
             ++ left. split; [reflexivity|]. destruct HH as [->|[Hlt Hq]]; [left; reflexivity|right].
                split; [exact Hlt|]. unfold isq'. rewrite Hq. cbn. apply Z.eqb_neq. exact Hne.
             ++ right. exact Hin.
          -- apply IHF. intros C. apply Hp1. right. exact C.
        * apply Forall_forall. intros t Ht. rewrite Forall_forall in Houts. destruct (Houts _ Ht) as [A B].
          split; [exact A|]. unfold isq'. rewrite B. cbn. apply Z.eqb_neq. intros ->. contradiction.
        * apply IH; assumption.
  Qed.
End InterStep.
