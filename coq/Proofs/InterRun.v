(* Proofs/InterRun.v — C06 composition, performer level: one ADD_DEQUANTIZE
   step on a constant whose listed consumers are all its readers keeps the
   graph an interleaving (Proofs/SemRun.v) of the original operators with
   DEQUANTIZE operators — now for one more quantized constant. *)
From VF Require Import Base.Prelude Gen.Enums Model.Graph Gen.InstChecks Model.Perform Model.Sem Spec.WF
     Spec.Interleave Proofs.ListFacts Proofs.PerformStep Proofs.ModeProofs Proofs.SemProofs Proofs.SemRun
     Proofs.InterStep Proofs.RewireFun.

Section InterRun.
  Variable val : Type.
  Variable K : Z -> Z -> list (option val) -> list val.
  Variable n0 : Z.
  Variables (q dq : Z -> val).

  Definition inS (S : list Z) (t : Z) : bool := memZ t S.
  Notation interS S := (inter val K n0 (inS S) q dq).

  Lemma Forall2_impl_local {A B} (R R' : A -> B -> Prop) l l' :
    (forall a b, R a b -> R' a b) -> Forall2 R l l' -> Forall2 R' l l'.
  Proof. intros H F. induction F; constructor; auto. Qed.

  Lemma operandR_ext isq1 isq2 nm x0 x :
    (forall t, isq1 t = isq2 t) -> operandR n0 isq1 nm x0 x -> operandR n0 isq2 nm x0 x.
  Proof.
    intros E [[-> HH]|Hin]; [left|right; exact Hin]. split; [reflexivity|].
    destruct HH as [->|[A B]]; [left; reflexivity|right]. rewrite <- E. auto.
  Qed.

  Lemma inter_ext isq1 isq2 : (forall t, isq1 t = isq2 t) -> forall nm ops0 ops,
    inter val K n0 isq1 q dq nm ops0 ops -> inter val K n0 isq2 q dq nm ops0 ops.
  Proof.
    intros E. induction 1 as [nm|nm o x c ops0 ops Hi Ho Hq Hx Hf HK _ IH|nm o0 o ops0 ops Hc Hu Ho Hi Houts _ IH].
    - constructor.
    - eapply I_deq; try eassumption. rewrite <- E. exact Hq.
    - apply I_orig; try assumption.
      + eapply Forall2_impl_local; [|exact Hi]. intros a b. apply operandR_ext. exact E.
      + eapply Forall_impl; [|exact Houts]. cbn. intros t [A B]. rewrite <- E. auto.
  Qed.

  Lemma In_firstn_nth {A} : forall p (l : list A) a, In a (firstn p l) ->
    exists k, (k < p)%nat /\ nth_opt l k = Some a.
  Proof.
    induction p as [|p IH]; intros l a H; [destruct H|].
    destruct l as [|x l]; [destruct H|]. cbn in H. destruct H as [->|H].
    - exists 0%nat. split; [lia|reflexivity].
    - destruct (IH _ _ H) as (k & Hk & E). exists (S k). split; [lia|exact E].
  Qed.

  Theorem insert_common_inter codes bufs g c cs ps codes' bufs' g' info ops0 S :
    wf_sg g -> interS S [] ops0 (sg_ops g) ->
    0 <= c < n0 -> n0 <= ntens g -> inS S c = false ->
    Forall (fun o0 => ~ In c (o_outs o0)) ops0 ->
    Forall (fun k => 0 <= k) cs ->
    (forall k o, nth_opt (sg_ops g) k = Some o -> In c (o_ins o) -> In (Z.of_nat k) cs) ->
    insert_common false codes bufs g c (-1) cs ps = Ok (codes', bufs', g', info) ->
    K (fst (add_op_code BC_DEQUANTIZE codes)) UID_INSERTED [Some (q c)] = [dq c] ->
    interS (c :: S) [] ops0 (sg_ops g').
  Proof.
    intros Hwf HI Hc Hn HcS Hconst Hcs Hex H HK.
    unfold insert_common in H.
    destruct (add_op_code BC_DEQUANTIZE codes) as [cidx cds]. cbn [fst] in HK.
    destruct (get_tensor g c) as [tc|]; cbn [bind] in H; [|discriminate].
    match type of H with bind ?m _ = _ => destruct m as [[b2 g2]|] eqn:Q end; cbn [bind] in H; [|discriminate].
    destruct (quantize_tensor_shape _ _ _ _ _ _ Q) as (O2 & _ & _ & _ & _). cbn [sg_ops] in O2.
    destruct (py_min cs) as [first|] eqn:Em; cbn [bind] in H; [|discriminate].
    destruct (py_min_le _ _ Em) as [Hmin Hfin].
    rewrite O2 in H.
    destruct (rewire_consumers (sg_ops g) cs c (lenZ (sg_tensors g))) as [ops'|] eqn:W; cbn [bind] in H; [|discriminate].
    assert (Hf0 : 0 <= first) by (rewrite Forall_forall in Hcs; apply Hcs; exact Hfin).
    replace (Z.max (-1 + 1) first) with first in H by lia.
    destruct (Z.ltb_spec first 0); [lia|]. inversion H; subst codes' bufs' g' info; clear H. cbn [sg_ops].
    set (x := lenZ (sg_tensors g)) in *.
    assert (Hxc : x <> c) by (unfold ntens in Hn; lia).
    assert (Hcs' : Forall (fun k => k = -1 \/ 0 <= k) cs) by (eapply Forall_impl; [|exact Hcs]; cbn; auto).
    destruct (rewire_spec cs _ _ _ _ Hxc Hcs' W) as (_ & Hrng & _).
    assert (Hplen : (Z.to_nat first <= length (sg_ops g))%nat).
    { specialize (Hrng _ Hfin ltac:(lia)). lia. }
    rewrite (rewire_insert_form _ _ _ _ _ (Z.to_nat first) _ Hxc Hcs W).
    - eapply inter_ext; [|eapply (inter_insert val K n0 q dq (inS S) c x)].
      + intros t. unfold isq', inS, memZ. cbn [existsb]. rewrite Bool.orb_comm. reflexivity.
      + exact HcS.
      + exact Hc.
      + exact Hn.
      + reflexivity.
      + reflexivity.
      + exact HK.
      + exact HI.
      + exact Hconst.
      + apply Forall_forall. intros o Ho Hin. destruct (In_nth_opt _ _ Ho) as [k Hk].
        pose proof (wf_outs _ Hwf k o x Hk Hin). unfold ntens, x in *. lia.
      + intros a [].
      + apply Forall_forall. intros o Ho Hin. destruct (In_firstn_nth _ _ _ Ho) as (k & Hk & Ek).
        specialize (Hex _ _ Ek Hin). rewrite Forall_forall in Hmin. specialize (Hmin _ Hex). lia.
    - intros k Hk. rewrite Forall_forall in Hmin. specialize (Hmin _ Hk). lia.
    - exact Hex.
    - exact Hplen.
  Qed.
End InterRun.
