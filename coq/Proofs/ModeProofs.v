(* Proofs/ModeProofs.v — lemmas behind C03: which transformation each operand
   of an op gets from the (regenerated) decision function, what the plan of a
   no-quantize op / of an ignored operand looks like, and what one performer
   step does to tensor dtypes and to buffers. *)
From VF Require Import Base.Prelude Gen.Enums Gen.Configs Gen.Registry Gen.Checks
     Gen.MatDesc Gen.InstChecks Gen.Scopes Model.Recipe Model.Check Model.Graph
     Model.Plan Model.Perform Spec.WF Proofs.ListFacts Proofs.PerformStep.

(* ------------------------------------------------------------------ *)
(* the three modes, as predicates on the op config *)
Definition cfg_static (c : ocfg) : bool :=
  precision_eqb (ocfg_compute_precision c) Prec_INTEGER
  && negb (is_none (ocfg_activation_tensor_config c)).
Definition cfg_dynamic (c : ocfg) : bool :=
  precision_eqb (ocfg_compute_precision c) Prec_INTEGER
  && is_none (ocfg_activation_tensor_config c).
Definition cfg_blockwise (c : ocfg) : bool :=
  match ocfg_weight_tensor_config c with
  | Some w => granularity_eqb (tcfg_granularity w) Gr_BLOCKWISE
  | None => false end.
Definition cfg_weight_only (c : ocfg) : bool :=
  precision_eqb (ocfg_compute_precision c) Prec_FLOAT
  && ocfg_explicit_dequantize c && negb (cfg_blockwise c).

(* what C03 expects *)
Definition expected_trans (c : ocfg) (inbound const : bool) : list qtrans :=
  if cfg_static c then
    (if inbound then (if const then [Tr_QUANTIZE_TENSOR] else [Tr_ADD_QUANTIZE])
     else [Tr_ADD_DEQUANTIZE])
  else if cfg_dynamic c then
    (if inbound && const then [Tr_QUANTIZE_TENSOR] else [Tr_NO_QUANTIZE])
  else
    (if inbound && const then [Tr_ADD_DEQUANTIZE] else [Tr_NO_QUANTIZE]).

Lemma precision_cases p :
  (precision_eqb p Prec_INTEGER = true /\ precision_eqb p Prec_FLOAT = false) \/
  (precision_eqb p Prec_INTEGER = false).
Proof. destruct p; cbn; auto. Qed.

Lemma mode_table c inbound const :
  cfg_static c || cfg_dynamic c || cfg_weight_only c = true ->
  get_tensor_transformations c inbound const = Ok (expected_trans c inbound const).
Proof.
  destruct c as [[a|] [[nb sy gr dt bs]|] p e s]; destruct p, e; try destruct gr;
    destruct inbound, const; cbn; intros H; try discriminate H; reflexivity.
Qed.

(* every transformation list the decision function can return *)
Lemma trans_shapes c inbound const l :
  get_tensor_transformations c inbound const = Ok l ->
  l = [Tr_QUANTIZE_TENSOR] \/ l = [Tr_ADD_QUANTIZE] \/ l = [Tr_ADD_DEQUANTIZE] \/
  l = [Tr_NO_QUANTIZE] \/ l = [Tr_EMULATED_SUBCHANNEL].
Proof.
  destruct c as [[a|] [[nb sy gr dt bs]|] p e s]; destruct p, e; try destruct gr;
    destruct inbound, const; cbn; intros H; try discriminate H; inversion H; auto 10.
Qed.

(* ------------------------------------------------------------------ *)
(* plans of no-quantize ops and of ignored operands *)
Section PlanFacts.
  Variable matches : Z -> Z -> bool.
  Variable rules : state.
  Variable bufs : list bufval.

  Definition is_noquant_plan (opid : Z) (p : tplan) : Prop :=
    (tp_producer p = Some (noquant_entry opid) /\ tp_consumers p = None) \/
    (tp_producer p = None /\ tp_consumers p = Some [noquant_entry opid]).

  Lemma entry_plan_noquant t inbound opid :
    is_noquant_plan opid (entry_plan t inbound (noquant_entry opid)).
  Proof. unfold is_noquant_plan, entry_plan. destruct inbound; cbn; auto. Qed.

  Lemma mapM_Forall {A B} (f : A -> res B) (P : B -> Prop) :
    (forall a b, f a = Ok b -> P b) ->
    forall l r, mapM f l = Ok r -> Forall P r.
  Proof.
    intros Hf. induction l as [|a l IH]; cbn; intros r H.
    - inversion H. constructor.
    - destruct (f a) as [b|] eqn:E; cbn [bind] in H; [|discriminate].
      destruct (mapM f l) as [bs|] eqn:E2; cbn [bind] in H; [|discriminate].
      inversion H; subst. constructor; eauto.
  Qed.

  (* an op resolved to no-quantize marks every operand and result NO_QUANTIZE
     with no parameters *)
  Lemma noquant_op_all ts op ps :
    noquant_op ts op = Ok ps -> Forall (is_noquant_plan (po_id op)) ps.
  Proof.
    unfold noquant_op. intros H.
    match type of H with bind ?m _ = _ => destruct m as [pi|] eqn:E1 end; cbn [bind] in H; [|discriminate].
    match type of H with bind ?m _ = _ => destruct m as [po|] eqn:E2 end; cbn [bind] in H; [|discriminate].
    inversion H; subst. apply Forall_app. split.
    - eapply mapM_Forall; [|exact E1]. intros a b Hb. cbn beta in Hb.
      destruct (get_t ts a); cbn [bind] in Hb; [|discriminate]. injection Hb as <-.
      unfold is_noquant_plan; cbn; auto.
    - eapply mapM_Forall; [|exact E2]. intros a b Hb. cbn beta in Hb.
      destruct (get_t ts a); cbn [bind] in Hb; [|discriminate]. injection Hb as <-.
      unfold is_noquant_plan; cbn; auto.
  Qed.

  (* in the merged operand list of a standard op, every operand that is not
     float32 (or is in the op's ignore list) carries the NO_QUANTIZE plan *)
  Lemma merge_plans_ignored ts opid inbound : forall l ps out,
    merge_plans ts opid inbound l ps = Ok out ->
    length out = length l /\
    forall k x, nth_opt l k = Some (x, false) ->
      exists p, nth_opt out k = Some p /\ is_noquant_plan opid p.
  Proof.
    induction l as [|[x b] l IH]; cbn [merge_plans]; intros ps out H.
    - inversion H. split; [reflexivity|]. intros k x Hk. destruct k; discriminate.
    - destruct b.
      + destruct ps as [|p ps']; [discriminate|].
        destruct (merge_plans ts opid inbound l ps') as [rest|] eqn:E; cbn [bind] in H; [|discriminate].
        inversion H; subst. destruct (IH _ _ E) as [L R]. split; [cbn; congruence|].
        intros k y Hk. destruct k; [discriminate|]. cbn in Hk |- *. eauto.
      + destruct (get_t ts x) as [t|]; cbn [bind] in H; [|discriminate].
        destruct (merge_plans ts opid inbound l ps) as [rest|] eqn:E; cbn [bind] in H; [|discriminate].
        inversion H; subst. destruct (IH _ _ E) as [L R]. split; [cbn; congruence|].
        intros k y Hk. destruct k.
        * cbn. eexists. split; [reflexivity|]. apply entry_plan_noquant.
        * cbn in Hk |- *. eauto.
  Qed.

  (* the keep flag of an operand is false as soon as its dtype is not float32 *)
  Lemma keep_flags_nonfloat ts ign : forall ids i0 ks,
    mapM (fun it : Z * Z => let '(i, x) := it in
            t <- get_t ts x ;;
            Ok (Z.eqb (t_ty t) TY_FLOAT32 && negb (memZ i ign))) (enumerate_from i0 ids) = Ok ks ->
    length ks = length ids /\
    forall k x t, nth_opt ids k = Some x -> get_t ts x = Ok t -> t_ty t <> TY_FLOAT32 ->
      nth_opt ks k = Some false.
  Proof.
    induction ids as [|x ids IH]; cbn [enumerate_from mapM]; intros i0 ks H.
    - inversion H. split; [reflexivity|]. intros k y t Hk. destruct k; discriminate.
    - destruct (get_t ts x) as [t|] eqn:Et; cbn [bind] in H; [|discriminate].
      match type of H with bind ?m _ = _ => destruct m as [rest|] eqn:E end; cbn [bind] in H; [|discriminate].
      inversion H; subst. destruct (IH _ _ E) as [L R]. split; [cbn; congruence|].
      intros k y t' Hk Hy Hty. destruct k.
      + cbn in Hk. inversion Hk; subst y. rewrite Et in Hy. inversion Hy; subst t'.
        cbn. destruct (Z.eqb_spec (t_ty t) TY_FLOAT32); [contradiction|reflexivity].
      + cbn in Hk |- *. eauto.
  Qed.
End PlanFacts.

(* ------------------------------------------------------------------ *)
(* dtype effect of one performer step *)
Lemma nth_opt_set_nth_any {A} (l : list A) n a k :
  nth_opt (set_nth l n a) k = if Nat.eqb k n then (match nth_opt l k with Some _ => Some a | None => None end)
                              else nth_opt l k.
Proof.
  revert n k. induction l as [|x l IH]; intros n k; cbn.
  - destruct n, k; cbn; try reflexivity. destruct (Nat.eqb k n); reflexivity.
  - destruct n, k; cbn; try reflexivity. apply IH.
Qed.

Definition tensor_at (g : subgraph) (k : Z) : option tensor := nthZ (sg_tensors g) k.

(* in-place quantization: only the target tensor changes, and it gets the
   integer dtype of the parameters' bit width together with their id (uniform)
   or float16/float32 and unchanged annotation (non-linear); only the target
   tensor's buffer can change, and then to exactly these parameters' data *)
Lemma quantize_tensor_effect bufs g tid ps bufs' g' :
  0 <= tid ->
  (forall t, tensor_at g tid = Some t -> 0 <= t_buf t) ->
  quantize_tensor bufs g tid ps = Ok (bufs', g') ->
  exists t, tensor_at g tid = Some t /\
    (forall k, k <> tid -> tensor_at g' k = tensor_at g k) /\
    (forall b, b <> t_buf t -> nthZ bufs' b = nthZ bufs b) /\
    match ps with
    | None => g' = g /\ bufs' = bufs
    | Some p =>
        exists t', tensor_at g' tid = Some t' /\
          t_root t' = t_root t /\ t_sfx t' = t_sfx t /\ t_shape t' = t_shape t /\
          t_buf t' = t_buf t /\
          (if qp_uniform p
           then quant_params_to_tflite_type (qp_bits p) = Ok (t_ty t') /\ t_q t' = Some (qp_id p)
           else nonlinear_quant_params_to_tflite_type (qp_bits p) = Ok (t_ty t') /\ t_q t' = t_q t) /\
          (nthZ bufs' (t_buf t) = nthZ bufs (t_buf t) \/
           (t_buf t <> 0 /\ qp_has_data p = true /\ nthZ bufs' (t_buf t) = Some (BQuant (qp_id p))))
    end.
Proof.
  intros Ht Hbufnn H. unfold quantize_tensor in H.
  destruct (get_tensor g tid) as [t|] eqn:Et; cbn [bind] in H; [|discriminate].
  unfold get_tensor in Et. destruct (py_index_nonneg _ _ _ Ht Et) as [Hn Hlt].
  assert (Hat : tensor_at g tid = Some t).
  { unfold tensor_at, nthZ. destruct (Z.ltb_spec tid 0); [lia|assumption]. }
  exists t. split; [exact Hat|].
  replace (if tid <? 0 then tid + lenZ (sg_tensors g) else tid) with tid in H
    by (destruct (Z.ltb_spec tid 0); [lia|reflexivity]).
  destruct ps as [p|].
  - match type of H with bind ?m _ = _ => destruct m as [b2|] eqn:Eb end; cbn [bind] in H; [|discriminate].
    match type of H with bind ?m _ = _ => destruct m as [t2|] eqn:Et2 end; cbn [bind] in H; [|discriminate].
    inversion H; subst bufs' g'; clear H.
    assert (Hother : forall k, k <> tid -> tensor_at (set_tensor g tid t2) k = tensor_at g k).
    { intros k Hk. unfold tensor_at, nthZ, set_tensor. cbn [sg_tensors].
      destruct (Z.ltb_spec k 0); [reflexivity|]. rewrite nth_opt_set_nth_any.
      destruct (Nat.eqb_spec (Z.to_nat k) (Z.to_nat tid)); [lia|reflexivity]. }
    assert (Hsame : tensor_at (set_tensor g tid t2) tid = Some t2).
    { unfold tensor_at, nthZ, set_tensor. cbn [sg_tensors].
      destruct (Z.ltb_spec tid 0); [lia|]. rewrite nth_opt_set_nth_any, Nat.eqb_refl, Hn. reflexivity. }
    assert (Hb : (forall b, b <> t_buf t -> nthZ b2 b = nthZ bufs b) /\
                 (nthZ b2 (t_buf t) = nthZ bufs (t_buf t) \/
                  (t_buf t <> 0 /\ qp_has_data p = true /\ nthZ b2 (t_buf t) = Some (BQuant (qp_id p))))).
    { destruct (negb (t_buf t =? 0) && qp_has_data p) eqn:Ec.
      - apply Bool.andb_true_iff in Ec. destruct Ec as [Ec1 Ec2].
        apply Bool.negb_true_iff in Ec1. apply Z.eqb_neq in Ec1.
        destruct (py_index bufs (t_buf t)) as [bv|] eqn:Ei; cbn [bind] in Eb; [|discriminate].
        inversion Eb; subst b2; clear Eb.
        assert (Hbn : 0 <= t_buf t) by (apply Hbufnn; exact Hat).
        destruct (py_index_nonneg _ _ _ Hbn Ei) as [Hbi _].
        split.
        + intros b Hne. unfold nthZ. destruct (Z.ltb_spec b 0); [reflexivity|].
          rewrite nth_opt_set_nth_any. destruct (Nat.eqb_spec (Z.to_nat b) (Z.to_nat (t_buf t))); [lia|reflexivity].
        + right. repeat split; try assumption. unfold nthZ.
          destruct (Z.ltb_spec (t_buf t) 0); [lia|]. rewrite nth_opt_set_nth_any, Nat.eqb_refl, Hbi. reflexivity.
      - inversion Eb; subst b2. split; [reflexivity|left; reflexivity]. }
    destruct Hb as [Hb1 Hb2].
    split; [exact Hother|]. split; [exact Hb1|].
    exists t2. split; [exact Hsame|].
    destruct (qp_uniform p).
    + destruct (quant_params_to_tflite_type (qp_bits p)) as [ty|] eqn:Ety; cbn [bind] in Et2; [|discriminate].
      inversion Et2; subst t2. cbn. repeat split; try reflexivity. exact Hb2.
    + destruct (nonlinear_quant_params_to_tflite_type (qp_bits p)) as [ty|] eqn:Ety; cbn [bind] in Et2; [|discriminate].
      inversion Et2; subst t2. cbn. repeat split; try reflexivity. exact Hb2.
  - destruct (negb (t_buf t =? 0)); [discriminate|]. inversion H; subst.
    repeat split; reflexivity.
Qed.

(* dtype map of the regenerated bit-width -> TensorType function *)
Lemma dtype_of_bits b ty :
  quant_params_to_tflite_type b = Ok ty ->
  (b <= 4 /\ ty = TY_INT4) \/ (4 < b <= 8 /\ ty = TY_INT8) \/ (8 < b <= 16 /\ ty = TY_INT16) \/
  (16 < b <= 32 /\ ty = TY_INT32) \/ (32 < b <= 64 /\ ty = TY_INT64).
Proof.
  unfold quant_params_to_tflite_type.
  destruct (Z.leb_spec b 4); [intros E; inversion E; left; auto|].
  destruct (Z.leb_spec b 8); [intros E; inversion E; right; left; split; [lia|reflexivity]|].
  destruct (Z.leb_spec b 16); [intros E; inversion E; right; right; left; split; [lia|reflexivity]|].
  destruct (Z.leb_spec b 32); [intros E; inversion E; right; right; right; left; split; [lia|reflexivity]|].
  destruct (Z.leb_spec b 64); [intros E; inversion E; right; right; right; right; split; [lia|reflexivity]|].
  discriminate.
Qed.

(* ------------------------------------------------------------------ *)
(* dtype effect of an insertion: QUANTIZE annotates the NEW tensor with the
   integer dtype of the parameters and leaves every original tensor and every
   buffer alone; DEQUANTIZE retypes the ORIGINAL tensor (and may overwrite its
   buffer with the quantized data) and creates a float32 tensor without
   parameters for the rewired readers. *)
Lemma nthZ_app_l {A} (l r : list A) k : k < lenZ l -> nthZ (l ++ r) k = nthZ l k.
Proof.
  unfold nthZ, lenZ. intros H. destruct (Z.ltb_spec k 0); [reflexivity|].
  revert k H H0. induction l as [|x l IH]; intros k H H0; cbn in *; [lia|].
  destruct (Z.to_nat k) eqn:E; [reflexivity|]. cbn.
  specialize (IH (k - 1)). replace (Z.to_nat (k - 1)) with n in IH by lia. apply IH; lia.
Qed.

Lemma nthZ_app_new {A} (l : list A) a : nthZ (l ++ [a]) (lenZ l) = Some a.
Proof.
  unfold nthZ, lenZ. destruct (Z.ltb_spec (Z.of_nat (length l)) 0); [lia|].
  rewrite Nat2Z.id. clear H. induction l as [|x l IH]; cbn; [reflexivity|exact IH].
Qed.

Lemma insert_common_types is_quant codes bufs g tid producer consumers ps codes' bufs' g' info :
  0 <= tid ->
  (forall t, tensor_at g tid = Some t -> 0 <= t_buf t) ->
  insert_common is_quant codes bufs g tid producer consumers ps = Ok (codes', bufs', g', info) ->
  exists t tn,
    tensor_at g tid = Some t /\ tensor_at g' (ntens g) = Some tn /\
    t_root tn = t_root t /\ t_shape tn = t_shape t /\ t_buf tn = 0 /\
    (forall k, k < ntens g -> k <> tid -> tensor_at g' k = tensor_at g k) /\
    (forall b, b <> t_buf t -> nthZ bufs' b = nthZ bufs b) /\
    (is_quant = true -> tensor_at g' tid = Some t /\ bufs' = bufs) /\
    match ps with
    | None => True
    | Some p =>
        if is_quant then
          (if qp_uniform p
           then quant_params_to_tflite_type (qp_bits p) = Ok (t_ty tn) /\ t_q tn = Some (qp_id p)
           else nonlinear_quant_params_to_tflite_type (qp_bits p) = Ok (t_ty tn))
        else
          t_ty tn = TY_FLOAT32 /\ t_q tn = None /\
          exists t', tensor_at g' tid = Some t' /\ t_buf t' = t_buf t /\ t_shape t' = t_shape t /\
            (if qp_uniform p
             then quant_params_to_tflite_type (qp_bits p) = Ok (t_ty t') /\ t_q t' = Some (qp_id p)
             else nonlinear_quant_params_to_tflite_type (qp_bits p) = Ok (t_ty t'))
    end.
Proof.
  intros Ht Hbuf Hrun. unfold insert_common in Hrun.
  destruct (add_op_code (if is_quant then BC_QUANTIZE else BC_DEQUANTIZE) codes) as [cidx cds] eqn:Ec.
  destruct (get_tensor g tid) as [t|] eqn:E; cbn [bind] in Hrun; [|discriminate].
  match type of Hrun with bind ?m _ = _ => destruct m as [[bufs2 g2]|] eqn:E0 end;
    cbn [bind] in Hrun; [|discriminate].
  destruct (py_min consumers) as [z|] eqn:E1; cbn [bind] in Hrun; [|discriminate].
  match type of Hrun with bind ?m _ = _ => destruct m as [l|] eqn:E2 end;
    cbn [bind] in Hrun; [|discriminate].
  destruct (Z.max (producer + 1) z <? 0) eqn:Eneg; [discriminate|].
  inversion Hrun; subst codes' bufs' g' info; clear Hrun.
  unfold get_tensor in E. destruct (py_index_nonneg _ _ _ Ht E) as [Hnth Hlt].
  assert (Hat : tensor_at g tid = Some t).
  { unfold tensor_at, nthZ. destruct (Z.ltb_spec tid 0); [lia|assumption]. }
  set (tn0 := new_activation_tensor (sg_tensors g) t (if is_quant then 0 else 1)) in *.
  match type of E0 with quantize_tensor _ ?G _ _ = _ => set (g1 := G) in * end.
  assert (Hg1_old : forall k, k < ntens g -> tensor_at g1 k = tensor_at g k).
  { intros k Hk. unfold tensor_at, g1. cbn [sg_tensors]. apply nthZ_app_l. exact Hk. }
  assert (Hg1_new : tensor_at g1 (ntens g) = Some tn0).
  { unfold tensor_at, g1, ntens. cbn [sg_tensors]. apply nthZ_app_new. }
  assert (Hnt : 0 <= ntens g) by (unfold ntens, lenZ; lia).
  assert (Hltn : tid < ntens g) by (unfold ntens, lenZ; lia).
  (* tensor table of the result = tensor table after quantize_tensor *)
  change (tensor_at {| sg_tensors := sg_tensors g2; sg_ops := _; sg_inputs := _; sg_outputs := _ |})
    with (tensor_at g2) in *.
  destruct is_quant.
  - (* QUANTIZE: the new tensor is annotated *)
    assert (Hb0 : forall t0, tensor_at g1 (lenZ (sg_tensors g)) = Some t0 -> 0 <= t_buf t0).
    { intros t0 H0. fold (ntens g) in H0. rewrite Hg1_new in H0. inversion H0; subst. cbn. lia. }
    destruct (quantize_tensor_effect _ _ _ _ _ _ Hnt Hb0 E0) as (t0 & Ht0 & Hoth & Hbo & Hps).
    fold (ntens g) in Ht0. rewrite Hg1_new in Ht0. inversion Ht0; subst t0; clear Ht0.
    assert (Hbufs : bufs2 = bufs).
    { destruct ps as [p|]; [|destruct Hps as [_ ->]; reflexivity].
      unfold quantize_tensor in E0. fold (ntens g) in E0. unfold get_tensor in E0.
      destruct (py_index (sg_tensors g1) (ntens g)) as [tq|] eqn:Eq; cbn [bind] in E0; [|discriminate].
      destruct (py_index_nonneg _ _ _ Hnt Eq) as [Hq _].
      assert (tq = tn0).
      { unfold tensor_at, nthZ in Hg1_new. destruct (Z.ltb_spec (ntens g) 0); [lia|]. congruence. }
      subst tq. cbn [tn0 new_activation_tensor t_buf] in E0. cbn [Z.eqb negb andb bind] in E0.
      match type of E0 with bind ?m _ = _ => destruct m as [t2|] end; cbn [bind] in E0; [|discriminate].
      inversion E0; reflexivity. }
    subst bufs2.
    assert (Hold : forall k, k < ntens g -> tensor_at g2 k = tensor_at g k).
    { intros k Hk. rewrite <- Hg1_old by exact Hk. apply Hoth. fold (ntens g). lia. }
    destruct ps as [p|].
    + destruct Hps as (t' & Ht' & Hr & Hs & Hsh & Hbf & Hty & _).
      exists t, t'. fold (ntens g) in Ht'.
      split; [exact Hat|]. split; [exact Ht'|]. split; [rewrite Hr; reflexivity|].
      split; [rewrite Hsh; reflexivity|]. split; [rewrite Hbf; reflexivity|].
      split; [intros k Hk _; apply Hold; exact Hk|].
      split; [intros; reflexivity|].
      split; [intros _; split; [rewrite Hold by exact Hltn; exact Hat|reflexivity]|].
      destruct (qp_uniform p); [exact Hty|apply Hty].
    + destruct Hps as [-> _].
      exists t, tn0. fold (ntens g) in *.
      split; [exact Hat|]. split; [exact Hg1_new|]. split; [reflexivity|]. split; [reflexivity|].
      split; [reflexivity|].
      split; [intros k Hk _; apply Hg1_old; exact Hk|].
      split; [intros; reflexivity|].
      split; [intros _; split; [rewrite Hg1_old by exact Hltn; exact Hat|reflexivity]|exact I].
  - (* DEQUANTIZE: the original tensor is quantized in place *)
    assert (Hb0 : forall t0, tensor_at g1 tid = Some t0 -> 0 <= t_buf t0).
    { intros t0 H0. rewrite Hg1_old in H0 by exact Hltn. apply Hbuf. exact H0. }
    destruct (quantize_tensor_effect _ _ _ _ _ _ Ht Hb0 E0) as (t0 & Ht0 & Hoth & Hbo & Hps).
    rewrite Hg1_old in Ht0 by exact Hltn. rewrite Hat in Ht0. inversion Ht0; subst t0; clear Ht0.
    assert (Hnew : tensor_at g2 (ntens g) = Some tn0).
    { rewrite Hoth by lia. exact Hg1_new. }
    exists t, tn0. fold (ntens g).
    split; [exact Hat|]. split; [exact Hnew|]. split; [reflexivity|]. split; [reflexivity|].
    split; [reflexivity|].
    split; [intros k Hk Hne; rewrite Hoth by exact Hne; apply Hg1_old; exact Hk|].
    split; [exact Hbo|]. split; [discriminate|].
    destruct ps as [p|]; [|exact I].
    destruct Hps as (t' & Ht' & Hr & Hs & Hsh & Hbf & Hty & _).
    split; [reflexivity|]. split; [reflexivity|].
    exists t'. split; [exact Ht'|]. split; [exact Hbf|]. split; [exact Hsh|].
    destruct (qp_uniform p); [exact Hty|apply Hty].
Qed.
