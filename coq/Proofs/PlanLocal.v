(* Proofs/PlanLocal.v — the params generator works per subgraph.

   ParamsGenerator keeps ONE result dict and ONE statistics dict for the whole
   model, both keyed by tensor name.  An operator of a subgraph reads and
   writes them only at names of that subgraph's tensors; hence, with
   model-wide unique names, the plan entries of subgraph k computed on the
   whole model are those computed on k alone. *)
From VF Require Import Base.Prelude Gen.Enums Gen.Configs Gen.Policy Gen.Registry Gen.Checks
     Gen.MatDesc Gen.InstChecks Gen.Scopes Model.Recipe Model.Check Model.Graph Model.Plan
     Proofs.ListFacts.

Lemma name_eqb2_eq a b : name_eqb2 a b = true <-> a = b.
Proof.
  destruct a as [r1 s1], b as [r2 s2]. unfold name_eqb2. cbn. rewrite Bool.andb_true_iff, Z.eqb_eq. split.
  - intros [-> H]. f_equal. revert s2 H. induction s1 as [|x l IH]; destruct s2 as [|y l2]; cbn; try discriminate; auto.
    intros H. apply Bool.andb_true_iff in H. destruct H as [H1 H2]. apply Z.eqb_eq in H1. subst. f_equal. auto.
  - intros H. inversion H; subst. split; [reflexivity|].
    induction s2 as [|x l IH]; cbn; [reflexivity|]. rewrite Z.eqb_refl. apply IH. reflexivity.
Qed.

Lemma name_eqb2_refl a : name_eqb2 a a = true.
Proof. apply name_eqb2_eq. reflexivity. Qed.

Lemma name_eqb2_false a b : a <> b -> name_eqb2 a b = false.
Proof. intros H. destruct (name_eqb2 a b) eqn:E; [apply name_eqb2_eq in E; contradiction|reflexivity]. Qed.

Lemma get_set s n v m :
  store_get (store_set s n v) m = if name_eqb2 n m then Some v else store_get s m.
Proof.
  induction s as [|[k w] r IH]; cbn [store_set store_get].
  - destruct (name_eqb2 n m); reflexivity.
  - destruct (name_eqb2 k n) eqn:Ekn; cbn [store_get].
    + apply name_eqb2_eq in Ekn. subst k. destruct (name_eqb2 n m); reflexivity.
    + destruct (name_eqb2 k m) eqn:Ekm.
      * apply name_eqb2_eq in Ekm. subst k. rewrite name_eqb2_false; [reflexivity|].
        intros ->. rewrite name_eqb2_refl in Ekn. discriminate.
      * exact IH.
Qed.

Section Loc.
  Variable bufs : list bufval.
  Variable N : name_t -> Prop.           (* the names of the subgraph at hand *)

  Definition agree (s1 s2 : store) : Prop := forall n, N n -> store_get s1 n = store_get s2 n.
  Definition names_in (ts : list tensor) : Prop := forall t, In t ts -> N (tname t).

  Lemma agree_set s1 s2 n v : agree s1 s2 -> agree (store_set s1 n v) (store_set s2 n v).
  Proof. intros H m Hm. rewrite !get_set. destruct (name_eqb2 n m); [reflexivity|apply H; exact Hm]. Qed.

  Lemma get_t_in ts x t : get_t ts x = Ok t -> In t ts.
  Proof.
    unfold get_t, py_index. destruct (_ || _); [discriminate|].
    destruct (nth_opt ts _) eqn:E; [|discriminate]. intros H; inversion H; subst. eapply nth_opt_In; eauto.
  Qed.

  Lemma wrapper_agree s1 s2 o opid adjy c t inbound qp :
    agree s1 s2 -> N (tname t) ->
    wrapper bufs s1 o opid adjy c t inbound qp = wrapper bufs s2 o opid adjy c t inbound qp.
  Proof. intros H Ht. unfold wrapper. rewrite (H _ Ht). reflexivity. Qed.

  Definition Wf (s : store) ts o op c x inbound qp :=
    t <- get_t ts x ;; wrapper bufs s o (po_id op) (po_adjy op) c t inbound qp.

  Lemma W_agree s1 s2 ts o op c x inbound qp :
    agree s1 s2 -> names_in ts -> Wf s1 ts o op c x inbound qp = Wf s2 ts o op c x inbound qp.
  Proof.
    intros H Hn. unfold Wf. destruct (get_t ts x) as [t|] eqn:E; cbn [bind]; [|reflexivity].
    apply wrapper_agree; [exact H|apply Hn; eapply get_t_in; eauto].
  Qed.

  Lemma mapM_ext {A B} (f g : A -> res B) l : (forall a, f a = g a) -> mapM f l = mapM g l.
  Proof. intros H. induction l as [|a l IH]; cbn; [reflexivity|]. rewrite H, IH. reflexivity. Qed.

  (* results of two runs: same plans, stores that still agree on N *)
  Definition rel2 {A} (r1 r2 : res (A * store)) : Prop :=
    match r1, r2 with
    | Ok (a1, s1), Ok (a2, s2) => a1 = a2 /\ agree s1 s2
    | Err e1, Err e2 => e1 = e2
    | _, _ => False
    end.

  Lemma foldM_set_agree ts v : forall ys s1 s2, agree s1 s2 ->
    match foldM (fun s y => ty <- get_t ts y ;; Ok (store_set s (tname ty) v)) ys s1,
          foldM (fun s y => ty <- get_t ts y ;; Ok (store_set s (tname ty) v)) ys s2 with
    | Ok a, Ok b => agree a b | Err e1, Err e2 => e1 = e2 | _, _ => False end.
  Proof.
    induction ys as [|y ys IH]; intros s1 s2 H; cbn [foldM]; [exact H|].
    destruct (get_t ts y) as [ty|]; cbn [bind]; [|reflexivity]. apply IH. apply agree_set. exact H.
  Qed.

  Lemma standard_core_agree s1 s2 ts o op c cons ai ao :
    agree s1 s2 -> names_in ts ->
    match standard_core bufs s1 ts o op c cons ai ao, standard_core bufs s2 ts o op c cons ai ao with
    | Ok (p1, q1, t1), Ok (p2, q2, t2) => p1 = p2 /\ q1 = q2 /\ agree t1 t2
    | Err e1, Err e2 => e1 = e2
    | _, _ => False end.
  Proof.
    intros H Hn. unfold standard_core.
    assert (EW : forall x i q,
              (t <- get_t ts x;; wrapper bufs s1 o (po_id op) (po_adjy op) c t i q) =
              (t <- get_t ts x;; wrapper bufs s2 o (po_id op) (po_adjy op) c t i q))
      by (intros; apply (W_agree s1 s2 ts o op c); assumption).
    destruct ai as [|x ai]; [destruct ao as [|y ao]; [split; [reflexivity|split; [reflexivity|exact H]]|]|].
    - (* no kept input, some outputs *)
      destruct cons.
      + rewrite (mapM_ext _ _ (y :: ao) (fun z => EW z false None)). simpl (mapM _ []). cbn [bind].
        destruct (mapM _ (y :: ao)); cbn [bind]; [split; [reflexivity|split; [reflexivity|exact H]]|reflexivity].
      + reflexivity.
      + destruct ao as [|y2 ao]; [|reflexivity]. rewrite EW. destruct (t <- get_t ts y;; wrapper bufs s2 o (po_id op) (po_adjy op) c t false None) as [po|]; cbn [bind]; [|reflexivity].
        destruct (first_param po false); cbn [bind mapM]; [split; [reflexivity|split; [reflexivity|exact H]]|reflexivity].
    - destruct cons.
      + rewrite (mapM_ext _ _ (x :: ai) (fun z => EW z true None)).
        destruct (mapM _ (x :: ai)) as [pi|]; cbn [bind]; [|reflexivity].
        rewrite (mapM_ext _ _ ao (fun z => EW z false None)).
        destruct (mapM _ ao); cbn [bind]; [split; [reflexivity|split; [reflexivity|exact H]]|reflexivity].
      + destruct ai as [|x2 ai]; [|reflexivity]. rewrite EW.
        destruct (t <- get_t ts x;; wrapper bufs s2 o (po_id op) (po_adjy op) c t true None) as [pi|]; cbn [bind]; [|reflexivity].
        destruct (first_param pi true) as [qp|]; cbn [bind]; [|reflexivity].
        rewrite (mapM_ext _ _ ao (fun z => EW z false qp)).
        destruct (mapM _ ao) as [po|]; cbn [bind]; [|reflexivity].
        destruct (get_t ts x) as [ti|] eqn:Eti; cbn [bind]; [|reflexivity].
        rewrite (H (tname ti)) by (apply Hn; eapply get_t_in; eauto).
        destruct (store_get s2 (tname ti)) as [v|]; cbn [bind]; [|reflexivity].
        pose proof (foldM_set_agree ts v ao s1 s2 H) as HF.
        destruct (foldM _ ao s1) as [a|], (foldM _ ao s2) as [b|]; cbn [bind]; try contradiction; auto.
      + destruct ao as [|y [|y2 ao]]; try reflexivity. rewrite EW.
        destruct (t <- get_t ts y;; wrapper bufs s2 o (po_id op) (po_adjy op) c t false None) as [po|]; cbn [bind]; [|reflexivity].
        destruct (first_param po false) as [qp|]; cbn [bind]; [|reflexivity].
        rewrite (mapM_ext _ _ (x :: ai) (fun z => EW z true qp)).
        destruct (mapM _ (x :: ai)); cbn [bind]; [split; [reflexivity|split; [reflexivity|exact H]]|reflexivity].
  Qed.

  Lemma standard_op_agree s1 s2 ts o op c cons ii io :
    agree s1 s2 -> names_in ts ->
    rel2 (standard_op bufs s1 ts o op c cons ii io) (standard_op bufs s2 ts o op c cons ii io).
  Proof.
    intros H Hn. unfold standard_op, rel2.
    destruct (keep_flags ts (po_ins op) ii) as [kin|]; cbn [bind]; [|reflexivity].
    destruct (keep_flags ts (po_outs op) io) as [kout|]; cbn [bind]; [|reflexivity].
    pose proof (standard_core_agree s1 s2 ts o op c cons (kept (present (po_ins op) kin))
                  (kept (present (po_outs op) kout)) H Hn) as HC.
    destruct (standard_core bufs s1 _ _ _ _ _ _ _) as [[[p1 q1] t1]|],
             (standard_core bufs s2 _ _ _ _ _ _ _) as [[[p2 q2] t2]|]; cbn [bind]; try contradiction; [|exact HC].
    destruct HC as (-> & -> & HA).
    destruct (merge_plans ts (po_id op) true _ p2); cbn [bind]; [|reflexivity].
    destruct (merge_plans ts (po_id op) false _ q2); cbn [bind]; [|reflexivity].
    split; [reflexivity|exact HA].
  Qed.

  (* ---- what an operator's materialisation returns: plans named after its own
     tensors; a store changed at most at their names ---- *)
  Definition named (ts : list tensor) (p : tplan) : Prop := exists t, In t ts /\ tp_name p = tname t.
  Definition frame (ts : list tensor) (s s' : store) : Prop :=
    forall n, (forall t, In t ts -> tname t <> n) -> store_get s' n = store_get s n.

  Lemma frame_refl ts s : frame ts s s.
  Proof. intros n _. reflexivity. Qed.
  Lemma frame_trans ts a b c : frame ts a b -> frame ts b c -> frame ts a c.
  Proof. intros H1 H2 n Hn. rewrite (H2 n Hn). apply H1. exact Hn. Qed.
  Lemma frame_set ts s t v : In t ts -> frame ts s (store_set s (tname t) v).
  Proof.
    intros Hin n Hn. rewrite get_set. rewrite name_eqb2_false; [reflexivity|]. apply Hn. exact Hin.
  Qed.

  Lemma entry_plan_name t inbound e : tp_name (entry_plan t inbound e) = tname t.
  Proof. unfold entry_plan. destruct inbound; reflexivity. Qed.

  Lemma wrapper_named s o opid adjy c t inbound qp p :
    wrapper bufs s o opid adjy c t inbound qp = Ok p -> tp_name p = tname t.
  Proof.
    unfold wrapper. match goal with |- (p0 <- ?m ;; _) = _ -> _ => destruct m as [pp|] end; cbn [bind]; [|discriminate].
    destruct (mk_entry _ _ _ _ _) as [e|]; cbn [bind]; [|discriminate].
    intros H; inversion H; subst. apply entry_plan_name.
  Qed.

  Lemma W_named s ts o opid adjy c x inbound qp p :
    (t <- get_t ts x;; wrapper bufs s o opid adjy c t inbound qp) = Ok p -> named ts p.
  Proof.
    destruct (get_t ts x) as [t|] eqn:E; cbn [bind]; [|discriminate]. intros H.
    exists t. split; [eapply get_t_in; eauto|eapply wrapper_named; eauto].
  Qed.

  Lemma mapM_Forall' {A B} (f : A -> res B) (P : B -> Prop) :
    (forall a b, f a = Ok b -> P b) -> forall l r, mapM f l = Ok r -> Forall P r.
  Proof.
    intros Hf. induction l as [|a l IH]; cbn; intros r H; [inversion H; constructor|].
    destruct (f a) as [b|] eqn:E; cbn [bind] in H; [|discriminate].
    destruct (mapM f l) as [bs|] eqn:E2; cbn [bind] in H; [|discriminate].
    inversion H; subst. constructor; eauto.
  Qed.

  Lemma foldM_set_frame ts v : forall ys s s',
    foldM (fun s y => ty <- get_t ts y ;; Ok (store_set s (tname ty) v)) ys s = Ok s' -> frame ts s s'.
  Proof.
    induction ys as [|y ys IH]; intros s s' H; cbn [foldM] in H; [inversion H; apply frame_refl|].
    destruct (get_t ts y) as [ty|] eqn:E; cbn [bind] in H; [|discriminate].
    eapply frame_trans; [apply frame_set; eapply get_t_in; eauto|apply IH; exact H].
  Qed.

  Lemma standard_core_out s ts o op c cons ai ao pi po s' :
    standard_core bufs s ts o op c cons ai ao = Ok (pi, po, s') ->
    Forall (named ts) pi /\ Forall (named ts) po /\ frame ts s s'.
  Proof.
    unfold standard_core.
    assert (HW : forall i q l r,
              mapM (fun x => t <- get_t ts x;; wrapper bufs s o (po_id op) (po_adjy op) c t i q) l = Ok r ->
              Forall (named ts) r).
    { intros i q. apply mapM_Forall'. intros a b. apply W_named. }
    destruct ai as [|x ai]; [destruct ao as [|y ao]|].
    - intros H; inversion H; subst. split; [constructor|split; [constructor|apply frame_refl]].
    - destruct cons.
      + simpl (mapM _ []). cbn [bind]. destruct (mapM _ (y :: ao)) as [r|] eqn:E; cbn [bind]; [|discriminate].
        intros H; inversion H; subst. split; [constructor|split; [eapply HW; eauto|apply frame_refl]].
      + discriminate.
      + destruct ao as [|y2 ao]; [|discriminate].
        destruct (t <- get_t ts y;; wrapper bufs s o (po_id op) (po_adjy op) c t false None) as [p|] eqn:E; cbn [bind]; [|discriminate].
        destruct (first_param p false); cbn [bind mapM]; [|discriminate].
        intros H; inversion H; subst. split; [constructor|split; [constructor; [eapply W_named; eauto|constructor]|apply frame_refl]].
    - destruct cons.
      + destruct (mapM _ (x :: ai)) as [r1|] eqn:E1; cbn [bind]; [|discriminate].
        destruct (mapM _ ao) as [r2|] eqn:E2; cbn [bind]; [|discriminate].
        intros H; inversion H; subst. split; [eapply HW; eauto|split; [eapply HW; eauto|apply frame_refl]].
      + destruct ai as [|x2 ai]; [|discriminate].
        destruct (t <- get_t ts x;; wrapper bufs s o (po_id op) (po_adjy op) c t true None) as [p|] eqn:E; cbn [bind]; [|discriminate].
        pose proof (W_named _ _ _ _ _ _ _ _ _ _ E) as Hp.
        destruct (first_param p true) as [qp|]; cbn [bind]; [|discriminate].
        destruct (mapM _ ao) as [r2|] eqn:E2; cbn [bind]; [|discriminate].
        pose proof (HW _ _ _ _ E2) as Hr2.
        destruct (get_t ts x) as [ti|]; cbn [bind]; [|discriminate].
        destruct (store_get s (tname ti)) as [v|]; cbn [bind]; [|discriminate].
        destruct (foldM _ ao s) as [s2|] eqn:EF; cbn [bind]; [|discriminate].
        intros H; inversion H; subst.
        split; [constructor; [exact Hp|constructor]|split; [exact Hr2|eapply foldM_set_frame; eauto]].
      + destruct ao as [|y [|y2 ao]]; try discriminate.
        destruct (t <- get_t ts y;; wrapper bufs s o (po_id op) (po_adjy op) c t false None) as [p|] eqn:E; cbn [bind]; [|discriminate].
        destruct (first_param p false) as [qp|]; cbn [bind]; [|discriminate].
        destruct (mapM _ (x :: ai)) as [r1|] eqn:E1; cbn [bind]; [|discriminate].
        intros H; inversion H; subst.
        split; [eapply HW; eauto|split; [constructor; [eapply W_named; eauto|constructor]|apply frame_refl]].
  Qed.

  Lemma merge_plans_named ts opid inbound : forall l ps r,
    Forall (named ts) ps -> merge_plans ts opid inbound l ps = Ok r -> Forall (named ts) r.
  Proof.
    induction l as [|[x b] l IH]; intros ps r Hps H; cbn [merge_plans] in H; [inversion H; constructor|].
    destruct b.
    - destruct ps as [|p ps']; [discriminate|]. inversion Hps as [|? ? Hp Hps']; subst.
      destruct (merge_plans ts opid inbound l ps') as [rest|] eqn:E; cbn [bind] in H; [|discriminate].
      inversion H; subst. constructor; [exact Hp|eapply IH; eauto].
    - destruct (get_t ts x) as [t|] eqn:Et; cbn [bind] in H; [|discriminate].
      destruct (merge_plans ts opid inbound l ps) as [rest|] eqn:E; cbn [bind] in H; [|discriminate].
      inversion H; subst. constructor; [|eapply IH; eauto].
      exists t. split; [eapply get_t_in; eauto|first [apply entry_plan_name|reflexivity]].
  Qed.

  Lemma standard_op_out s ts o op c cons ii io ps s' :
    standard_op bufs s ts o op c cons ii io = Ok (ps, s') -> Forall (named ts) ps /\ frame ts s s'.
  Proof.
    unfold standard_op.
    destruct (keep_flags ts (po_ins op) ii) as [kin|]; cbn [bind]; [|discriminate].
    destruct (keep_flags ts (po_outs op) io) as [kout|]; cbn [bind]; [|discriminate].
    destruct (standard_core bufs s ts o op c cons _ _) as [[[pi po] s1]|] eqn:EC; cbn [bind]; [|discriminate].
    destruct (standard_core_out _ _ _ _ _ _ _ _ _ _ _ EC) as (Hpi & Hpo & Hf).
    destruct (merge_plans ts (po_id op) true _ pi) as [mi|] eqn:E1; cbn [bind]; [|discriminate].
    destruct (merge_plans ts (po_id op) false _ po) as [mo|] eqn:E2; cbn [bind]; [|discriminate].
    intros H; inversion H; subst. split; [|exact Hf].
    apply Forall_app. split; [eapply merge_plans_named; [exact Hpi|exact E1]|eapply merge_plans_named; [exact Hpo|exact E2]].
  Qed.

  Lemma Forall_set_nth {A} (P : A -> Prop) a : forall l n, Forall P l -> P a -> Forall P (set_nth l n a).
  Proof.
    induction l as [|x l IH]; intros n Hl Ha; cbn [set_nth]; [constructor|].
    inversion Hl; subst. destruct n; constructor; auto.
  Qed.

  Lemma bias_step_named ts op c ps ii wi bi ps' :
    Forall (named ts) ps -> bias_step bufs ts op c ps ii wi bi = Ok ps' -> Forall (named ts) ps'.
  Proof.
    intros Hps. unfold bias_step.
    destruct (py_index (po_ins op) ii); cbn [bind]; [|discriminate].
    destruct (py_index (po_ins op) wi); cbn [bind]; [|discriminate].
    destruct (py_index (po_outs op) 0); cbn [bind]; [|discriminate].
    destruct (negb _); [intros H; inversion H; subst; exact Hps|].
    destruct (py_index (po_ins op) bi) as [bx|]; cbn [bind]; [|discriminate].
    destruct (get_t ts bx) as [bt|] eqn:Eb; cbn [bind]; [|discriminate].
    match goal with |- (qp <- ?m ;; _) = _ -> _ => destruct m as [qp|] end; cbn [bind]; [|discriminate].
    destruct (mk_entry _ _ _ _ _) as [e|]; cbn [bind]; [|discriminate].
    unfold list_assign. destruct (py_index ps bi); cbn [bind]; [|discriminate].
    intros H; inversion H; subst. apply Forall_set_nth; [exact Hps|].
    exists bt. split; [eapply get_t_in; eauto|first [apply entry_plan_name|reflexivity]].
  Qed.

  Lemma Forall_rev' {A} (P : A -> Prop) l : Forall P (rev l) -> Forall P l.
  Proof. intros H. rewrite <- (rev_involutive l). apply Forall_rev. exact H. Qed.

  Lemma fixed_output_out s ts o op c kind ps s' :
    fixed_output bufs s ts o op c kind = Ok (ps, s') -> Forall (named ts) ps /\ frame ts s s'.
  Proof.
    unfold fixed_output. destruct (negb _); [discriminate|].
    destruct (standard_op bufs s ts o op c NoConstrain [] []) as [[ps0 s1]|] eqn:ES; cbn [bind]; [|discriminate].
    destruct (standard_op_out _ _ _ _ _ _ _ _ _ _ ES) as [Hn Hf].
    destruct (rev ps0) as [|lastp front] eqn:Er; [discriminate|].
    assert (Hrev : Forall (named ts) (lastp :: front)) by (rewrite <- Er; apply Forall_rev; exact Hn).
    inversion Hrev as [|? ? Hlast Hfront]; subst.
    destruct (ocfg_activation_tensor_config c) as [a|]; [|intros H; inversion H; subst; split; assumption].
    destruct (tp_producer lastp) as [e|]; [|intros H; inversion H; subst; split; assumption].
    destruct (negb _); [discriminate|].
    destruct (store_get s1 (tp_name lastp)); [|discriminate].
    intros H; inversion H; subst. split.
    - apply Forall_app. split; [apply Forall_rev; exact Hfront|]. constructor; [|constructor].
      destruct Hlast as (t & Hin & E). exists t. split; [exact Hin|exact E].
    - eapply frame_trans; [exact Hf|]. destruct Hlast as (t & Hin & E). rewrite E. apply frame_set. exact Hin.
  Qed.

  Lemma fc_cast_named ts op ii wi bi ps : fc_cast bufs ts op ii wi bi = Ok ps -> Forall (named ts) ps.
  Proof.
    unfold fc_cast.
    destruct (py_index (po_ins op) ii) as [ix|]; cbn [bind]; [|discriminate].
    destruct (get_t ts ix) as [it|] eqn:E1; cbn [bind]; [|discriminate].
    destruct (py_index (po_ins op) wi) as [wx|]; cbn [bind]; [|discriminate].
    destruct (get_t ts wx) as [wt|] eqn:E2; cbn [bind]; [|discriminate].
    destruct (py_index (po_outs op) 0) as [ox|]; cbn [bind]; [|discriminate].
    destruct (get_t ts ox) as [ot|] eqn:E3; cbn [bind]; [|discriminate].
    destruct (negb (is_const bufs wt)); [discriminate|].
    match goal with |- (b <- ?m ;; _) = _ -> _ => destruct m as [b|] eqn:Eb end; cbn [bind]; [|discriminate].
    intros H; inversion H; subst.
    constructor; [exists it; split; [eapply get_t_in; eauto|first [apply entry_plan_name|reflexivity]]|].
    constructor; [exists wt; split; [eapply get_t_in; eauto|reflexivity]|].
    constructor; [exists ot; split; [eapply get_t_in; eauto|first [apply entry_plan_name|reflexivity]]|].
    destruct (_ && _); [|inversion Eb; constructor].
    destruct (py_index (po_ins op) bi) as [bx|]; cbn [bind] in Eb; [|discriminate].
    destruct (get_t ts bx) as [bt|] eqn:E4; cbn [bind] in Eb; [|discriminate].
    inversion Eb; subst. constructor; [|constructor]. exists bt. split; [eapply get_t_in; eauto|first [apply entry_plan_name|reflexivity]].
  Qed.

  Lemma noquant_op_named ts op ps : noquant_op ts op = Ok ps -> Forall (named ts) ps.
  Proof.
    unfold noquant_op.
    destruct (mapM _ (filter _ (po_ins op))) as [pi|] eqn:E1; cbn [bind]; [|discriminate].
    destruct (mapM _ (filter _ (po_outs op))) as [po|] eqn:E2; cbn [bind]; [|discriminate].
    intros H; inversion H; subst. apply Forall_app. split.
    - eapply mapM_Forall'; [|exact E1]. intros a b Hb. cbn beta in Hb.
      destruct (get_t ts a) as [t|] eqn:Et; cbn [bind] in Hb; [|discriminate]. inversion Hb; subst.
      exists t. split; [eapply get_t_in; eauto|first [apply entry_plan_name|reflexivity]].
    - eapply mapM_Forall'; [|exact E2]. intros a b Hb. cbn beta in Hb.
      destruct (get_t ts a) as [t|] eqn:Et; cbn [bind] in Hb; [|discriminate]. inversion Hb; subst.
      exists t. split; [eapply get_t_in; eauto|first [apply entry_plan_name|reflexivity]].
  Qed.

  Lemma materialize_out s ts a o op c ps s' :
    materialize bufs s ts a o op c = Ok (ps, s') -> Forall (named ts) ps /\ frame ts s s'.
  Proof.
    unfold materialize. destruct (lookup_registration a o) as [f|]; [|discriminate].
    destruct (mat_desc_of f) as [k ii io|ii wi bi|si wi ii bi minp|kind|ii wi bi].
    - apply standard_op_out.
    - destruct (standard_op bufs s ts o op c NoConstrain [bi] []) as [[p0 s0]|] eqn:E; cbn [bind fst snd]; [|discriminate].
      destruct (standard_op_out _ _ _ _ _ _ _ _ _ _ E) as [Hn Hf].
      destruct (bias_step bufs ts op c p0 ii wi bi) as [p1|] eqn:Eb; cbn [bind]; [|discriminate].
      intros H; inversion H; subst. split; [eapply bias_step_named; eauto|exact Hf].
    - destruct (standard_op bufs s ts o op c NoConstrain [si; bi] []) as [[p0 s0]|] eqn:E; cbn [bind fst snd]; [|discriminate].
      destruct (standard_op_out _ _ _ _ _ _ _ _ _ _ E) as [Hn Hf].
      destruct (lenZ p0 <? minp); [discriminate|].
      destruct (bias_step bufs ts op c p0 ii wi bi) as [p1|] eqn:Eb; cbn [bind]; [|discriminate].
      intros H; inversion H; subst. split; [eapply bias_step_named; eauto|exact Hf].
    - apply fixed_output_out.
    - destruct (fc_cast bufs ts op ii wi bi) as [p0|] eqn:E; cbn [bind]; [|discriminate].
      intros H; inversion H; subst. split; [eapply fc_cast_named; eauto|apply frame_refl].
  Qed.

  (* ---- two stores that agree on N ---- *)
  Lemma fixed_output_agree s1 s2 ts o op c kind :
    agree s1 s2 -> names_in ts ->
    rel2 (fixed_output bufs s1 ts o op c kind) (fixed_output bufs s2 ts o op c kind).
  Proof.
    intros H Hn. unfold fixed_output. destruct (negb _); [reflexivity|].
    pose proof (standard_op_agree s1 s2 ts o op c NoConstrain [] [] H Hn) as HS. unfold rel2 in HS.
    destruct (standard_op bufs s1 ts o op c NoConstrain [] []) as [[p1 t1]|] eqn:E1,
             (standard_op bufs s2 ts o op c NoConstrain [] []) as [[p2 t2]|] eqn:E2; cbn [bind]; try contradiction; [|exact HS].
    destruct HS as [-> HA]. destruct (standard_op_out _ _ _ _ _ _ _ _ _ _ E2) as [Hnm _].
    destruct (rev p2) as [|lastp front] eqn:Er; [reflexivity|].
    assert (Hlast : named ts lastp).
    { assert (Hr : Forall (named ts) (rev p2)) by (apply Forall_rev; exact Hnm). rewrite Er in Hr. inversion Hr; assumption. }
    destruct (ocfg_activation_tensor_config c) as [a|]; [|split; [reflexivity|exact HA]].
    destruct (tp_producer lastp) as [e|]; [|split; [reflexivity|exact HA]].
    destruct (negb _); [reflexivity|].
    assert (HN : N (tp_name lastp)) by (destruct Hlast as (t & Hin & ->); apply Hn; exact Hin).
    rewrite (HA _ HN). destruct (store_get t2 (tp_name lastp)); [|reflexivity].
    split; [reflexivity|apply agree_set; exact HA].
  Qed.

  Lemma materialize_agree s1 s2 ts a o op c :
    agree s1 s2 -> names_in ts ->
    rel2 (materialize bufs s1 ts a o op c) (materialize bufs s2 ts a o op c).
  Proof.
    intros H Hn. unfold materialize. destruct (lookup_registration a o) as [f|]; [|reflexivity].
    destruct (mat_desc_of f) as [k ii io|ii wi bi|si wi ii bi minp|kind|ii wi bi].
    - apply standard_op_agree; assumption.
    - pose proof (standard_op_agree s1 s2 ts o op c NoConstrain [bi] [] H Hn) as HS. unfold rel2 in *.
      destruct (standard_op bufs s1 ts o op c NoConstrain [bi] []) as [[p1 t1]|],
               (standard_op bufs s2 ts o op c NoConstrain [bi] []) as [[p2 t2]|]; cbn [bind fst snd]; try contradiction; [|exact HS].
      destruct HS as [-> HA]. destruct (bias_step bufs ts op c p2 ii wi bi); cbn [bind]; [split; [reflexivity|exact HA]|reflexivity].
    - pose proof (standard_op_agree s1 s2 ts o op c NoConstrain [si; bi] [] H Hn) as HS. unfold rel2 in *.
      destruct (standard_op bufs s1 ts o op c NoConstrain [si; bi] []) as [[p1 t1]|],
               (standard_op bufs s2 ts o op c NoConstrain [si; bi] []) as [[p2 t2]|]; cbn [bind fst snd]; try contradiction; [|exact HS].
      destruct HS as [-> HA]. destruct (lenZ p2 <? minp); [reflexivity|].
      destruct (bias_step bufs ts op c p2 ii wi bi); cbn [bind]; [split; [reflexivity|exact HA]|reflexivity].
    - apply fixed_output_agree; assumption.
    - unfold rel2. destruct (fc_cast bufs ts op ii wi bi); cbn [bind]; [split; [reflexivity|exact H]|reflexivity].
  Qed.
End Loc.

(* ================================================================== *)
Section Run.
  Variable matches : Z -> Z -> bool.
  Variable rules : state.
  Variable bufs : list bufval.
  Variable nb : name_t -> bool.            (* "is a name of subgraph k" *)
  Let N := fun n => nb n = true.

  Definition filt (rs : results) : results := filter (fun p => nb (tp_name p)) rs.

  Definition res_mapf {A B} (f : A -> B) (r : res A) : res B :=
    match r with Ok a => Ok (f a) | Err e => Err e end.

  Lemma merge_out rs : forall p rs', nb (tp_name p) = false -> merge_result rs p = Ok rs' -> filt rs' = filt rs.
  Proof.
    induction rs as [|r rest IH]; intros p rs' Hp H; cbn [merge_result] in H.
    - inversion H; subst. cbn. rewrite Hp. reflexivity.
    - destruct (name_eqb2 (tp_name r) (tp_name p)) eqn:En.
      + apply name_eqb2_eq in En.
        match type of H with (prod <- ?m ;; _) = _ => destruct m as [prod|] end; cbn [bind] in H; [|discriminate].
        inversion H; subst. cbn [filt filter tp_name]. rewrite En, Hp. reflexivity.
      + destruct (merge_result rest p) as [rest'|] eqn:E; cbn [bind] in H; [|discriminate].
        inversion H; subst. cbn [filt filter]. fold (filt rest') (filt rest). rewrite (IH _ _ Hp E). reflexivity.
  Qed.

  Lemma merge_in rs : forall p, nb (tp_name p) = true ->
    merge_result (filt rs) p = res_mapf filt (merge_result rs p).
  Proof.
    induction rs as [|r rest IH]; intros p Hp; cbn [filt filter merge_result].
    - cbn. rewrite Hp. reflexivity.
    - fold (filt rest). destruct (name_eqb2 (tp_name r) (tp_name p)) eqn:En.
      + pose proof En as En'. apply name_eqb2_eq in En'. rewrite En', Hp. cbn [merge_result]. rewrite <- En' at 1. rewrite name_eqb2_refl.
        match goal with |- (prod <- ?m ;; _) = _ => destruct m as [prod|] end; cbn [bind res_mapf]; [|reflexivity].
        cbn [filt filter tp_name]. rewrite En', Hp. reflexivity.
      + destruct (nb (tp_name r)) eqn:Er.
        * cbn [merge_result]. rewrite En, (IH _ Hp).
          destruct (merge_result rest p) as [rest'|]; cbn [bind res_mapf]; [|reflexivity].
          cbn [filt filter]. rewrite Er. reflexivity.
        * rewrite (IH _ Hp). destruct (merge_result rest p) as [rest'|]; cbn [bind res_mapf]; [|reflexivity].
          cbn [filt filter]. rewrite Er. reflexivity.
  Qed.

  Lemma foldM_merge_out : forall ps rs rs', Forall (fun p => nb (tp_name p) = false) ps ->
    foldM merge_result ps rs = Ok rs' -> filt rs' = filt rs.
  Proof.
    induction ps as [|p ps IH]; intros rs rs' Hps H; cbn [foldM] in H; [inversion H; reflexivity|].
    inversion Hps; subst. destruct (merge_result rs p) as [r1|] eqn:E; cbn [bind] in H; [|discriminate].
    rewrite (IH _ _ H3 H). eapply merge_out; eauto.
  Qed.

  Lemma foldM_merge_in : forall ps rs, Forall (fun p => nb (tp_name p) = true) ps ->
    foldM merge_result ps (filt rs) = res_mapf filt (foldM merge_result ps rs).
  Proof.
    induction ps as [|p ps IH]; intros rs Hps; cbn [foldM]; [reflexivity|].
    inversion Hps; subst. rewrite (merge_in _ _ H1).
    destruct (merge_result rs p) as [r1|]; cbn [bind res_mapf]; [|reflexivity]. apply IH. exact H2.
  Qed.

  (* the store-dependent half of plan_op *)
  Definition op_result (s : store) (ts : list tensor) (op : pop) : res (list tplan * store) :=
    match po_key op with
    | None => ps <- noquant_op ts op ;; Ok (ps, s)
    | Some o =>
        let '(alg, c) := get check matches rules o (po_scope op) in
        if is_noquant alg then ps <- noquant_op ts op ;; Ok (ps, s)
        else a <- algname_of alg ;; materialize bufs s ts a o op c
    end.

  Lemma plan_op_unfold rs s ts op :
    plan_op matches rules bufs (rs, s) ts op =
      (r <- op_result s ts op ;; rs' <- foldM merge_result (fst r) rs ;; Ok (rs', snd r)).
  Proof. reflexivity. Qed.

  Lemma op_result_out s ts op ps s' :
    op_result s ts op = Ok (ps, s') -> Forall (named ts) ps /\ frame ts s s'.
  Proof.
    unfold op_result. destruct (po_key op) as [o|].
    - destruct (get check matches rules o (po_scope op)) as [alg c]. destruct (is_noquant alg).
      + destruct (noquant_op ts op) as [p0|] eqn:E; cbn [bind]; [|discriminate].
        intros H; inversion H; subst. split; [eapply noquant_op_named; eauto|apply frame_refl].
      + destruct (algname_of alg); cbn [bind]; [|discriminate]. apply materialize_out.
    - destruct (noquant_op ts op) as [p0|] eqn:E; cbn [bind]; [|discriminate].
      intros H; inversion H; subst. split; [eapply noquant_op_named; eauto|apply frame_refl].
  Qed.

  Lemma op_result_agree s1 s2 ts op :
    agree N s1 s2 -> names_in N ts -> rel2 N (op_result s1 ts op) (op_result s2 ts op).
  Proof.
    intros H Hn. unfold op_result. destruct (po_key op) as [o|].
    - destruct (get check matches rules o (po_scope op)) as [alg c]. destruct (is_noquant alg).
      + unfold rel2. destruct (noquant_op ts op); cbn [bind]; [split; [reflexivity|exact H]|reflexivity].
      + destruct (algname_of alg); cbn [bind]; [|reflexivity]. apply materialize_agree; assumption.
    - unfold rel2. destruct (noquant_op ts op); cbn [bind]; [split; [reflexivity|exact H]|reflexivity].
  Qed.

  Definition outside (ts : list tensor) : Prop := forall t, In t ts -> nb (tname t) = false.
  Definition inside (ts : list tensor) : Prop := forall t, In t ts -> nb (tname t) = true.

  Lemma named_out ts ps : outside ts -> Forall (named ts) ps -> Forall (fun p => nb (tp_name p) = false) ps.
  Proof. intros Ho. apply Forall_impl. intros p (t & Hin & ->). apply Ho. exact Hin. Qed.
  Lemma named_in' ts ps : inside ts -> Forall (named ts) ps -> Forall (fun p => nb (tp_name p) = true) ps.
  Proof. intros Ho. apply Forall_impl. intros p (t & Hin & ->). apply Ho. exact Hin. Qed.

  (* an operator of another subgraph is invisible on N *)
  Lemma plan_op_other rs s ts op rs' s' :
    outside ts -> plan_op matches rules bufs (rs, s) ts op = Ok (rs', s') ->
    filt rs' = filt rs /\ agree N s' s.
  Proof.
    intros Ho. rewrite plan_op_unfold.
    destruct (op_result s ts op) as [[ps s1]|] eqn:E; cbn [bind fst snd]; [|discriminate].
    destruct (op_result_out _ _ _ _ _ E) as [Hn Hf].
    destruct (foldM merge_result ps rs) as [r1|] eqn:EF; cbn [bind]; [|discriminate].
    intros H; inversion H; subst. split.
    - eapply foldM_merge_out; [eapply named_out; eauto|exact EF].
    - intros n Hn'. apply Hf. intros t Hin E2. unfold N in Hn'. rewrite <- E2, (Ho _ Hin) in Hn'. discriminate.
  Qed.

  (* an operator of subgraph k: same effect on related states *)
  Lemma plan_op_own rs s1 s2 ts op rs' s1' :
    inside ts -> agree N s1 s2 ->
    plan_op matches rules bufs (rs, s1) ts op = Ok (rs', s1') ->
    exists s2', plan_op matches rules bufs (filt rs, s2) ts op = Ok (filt rs', s2') /\ agree N s1' s2'.
  Proof.
    intros Hi Ha. rewrite !plan_op_unfold.
    pose proof (op_result_agree s1 s2 ts op Ha (fun t Hin => Hi t Hin)) as HR. unfold rel2 in HR.
    destruct (op_result s1 ts op) as [[ps t1]|] eqn:E1; cbn [bind fst snd]; [|discriminate].
    destruct (op_result s2 ts op) as [[ps2 t2]|] eqn:E2; [|contradiction]. destruct HR as [<- HA].
    destruct (op_result_out _ _ _ _ _ E1) as [Hn _].
    destruct (foldM merge_result ps rs) as [r1|] eqn:EF; cbn [bind]; [|discriminate].
    intros H; inversion H; subst. exists t2. split; [|exact HA]. cbn [bind fst snd].
    rewrite (foldM_merge_in ps rs (named_in' _ _ Hi Hn)), EF. reflexivity.
  Qed.

  (* whole subgraphs *)
  Definition plan_ops (ts : list tensor) (ops : list pop) (st : results * store) :=
    foldM (fun st op => plan_op matches rules bufs st ts op) ops st.

  Lemma plan_ops_other ts : outside ts -> forall ops rs s rs' s',
    plan_ops ts ops (rs, s) = Ok (rs', s') -> filt rs' = filt rs /\ agree N s' s.
  Proof.
    intros Ho. unfold plan_ops. induction ops as [|op ops IH]; intros rs s rs' s' H; cbn [foldM] in H.
    - inversion H; subst. split; [reflexivity|intros n _; reflexivity].
    - destruct (plan_op matches rules bufs (rs, s) ts op) as [[r1 t1]|] eqn:E; cbn [bind] in H; [|discriminate].
      destruct (plan_op_other _ _ _ _ _ _ Ho E) as [A B]. destruct (IH _ _ _ _ H) as [A' B'].
      split; [congruence|]. intros n Hn. rewrite (B' n Hn). apply B. exact Hn.
  Qed.

  Lemma plan_ops_own ts : inside ts -> forall ops rs s1 s2 rs' s1',
    agree N s1 s2 -> plan_ops ts ops (rs, s1) = Ok (rs', s1') ->
    exists s2', plan_ops ts ops (filt rs, s2) = Ok (filt rs', s2') /\ agree N s1' s2'.
  Proof.
    intros Hi. unfold plan_ops. induction ops as [|op ops IH]; intros rs s1 s2 rs' s1' Ha H; cbn [foldM] in H.
    - inversion H; subst. exists s2. split; [reflexivity|exact Ha].
    - destruct (plan_op matches rules bufs (rs, s1) ts op) as [[r1 t1]|] eqn:E; cbn [bind] in H; [|discriminate].
      destruct (plan_op_own _ _ _ _ _ _ _ Hi Ha E) as (t2 & E2 & Ha2).
      destruct (IH _ _ _ _ _ Ha2 H) as (s2' & E3 & Ha3).
      exists s2'. split; [|exact Ha3]. cbn [foldM]. rewrite E2. cbn [bind]. exact E3.
  Qed.
End Run.

(* ---- list plumbing ---- *)
Lemma foldM_app' {A S} (f : S -> A -> res S) : forall l1 l2 s,
  foldM f (l1 ++ l2) s = (s' <- foldM f l1 s ;; foldM f l2 s').
Proof.
  induction l1 as [|a l1 IH]; intros l2 s; cbn [app foldM bind]; [reflexivity|].
  destruct (f s a); cbn [bind]; [apply IH|reflexivity].
Qed.

Lemma enumerate_from_split {A} (l : list A) : forall k x i0, nth_opt l k = Some x ->
  enumerate_from i0 l = enumerate_from i0 (firstn k l) ++
                        (i0 + Z.of_nat k, x) :: enumerate_from (i0 + Z.of_nat k + 1) (skipn (S k) l).
Proof.
  induction l as [|a l IH]; intros k x i0 H; [destruct k; discriminate|].
  destruct k as [|k]; cbn [nth_opt] in H.
  - inversion H; subst. cbn. rewrite Z.add_0_r. reflexivity.
  - cbn [firstn skipn enumerate_from app]. rewrite (IH k x (i0 + 1) H).
    replace (i0 + Z.of_nat (S k)) with (i0 + 1 + Z.of_nat k) by lia. reflexivity.
Qed.

Lemma in_enum_firstn {A} (l : list A) : forall k i0 gi y,
  In (gi, y) (enumerate_from i0 (firstn k l)) ->
  exists j, (j < k)%nat /\ gi = i0 + Z.of_nat j /\ nth_opt l j = Some y.
Proof.
  induction l as [|a l IH]; intros k i0 gi y H; [destruct k; destruct H|].
  destruct k as [|k]; [destruct H|]. cbn [firstn enumerate_from] in H. destruct H as [E|H].
  - inversion E; subst. exists 0%nat. repeat split; [lia|lia].
  - destruct (IH _ _ _ _ H) as (j & Hj & -> & Hn). exists (S j). repeat split; [lia|lia|exact Hn].
Qed.

Lemma in_enum_all {A} (l : list A) : forall i1 gi y,
  In (gi, y) (enumerate_from i1 l) -> exists j, gi = i1 + Z.of_nat j /\ nth_opt l j = Some y.
Proof.
  induction l as [|b l IH]; intros i1 gi y H; [destruct H|]. cbn [enumerate_from] in H. destruct H as [E|H].
  - inversion E; subst. exists 0%nat. split; [lia|reflexivity].
  - destruct (IH _ _ _ H) as (j & -> & Hn). exists (S j). split; [lia|exact Hn].
Qed.

Lemma nth_opt_skipn {A} (l : list A) : forall k j, nth_opt (skipn k l) j = nth_opt l (k + j).
Proof.
  induction l as [|a l IH]; intros k j; [destruct k; destruct j; reflexivity|].
  destruct k as [|k]; [reflexivity|]. cbn [skipn]. rewrite IH. reflexivity.
Qed.

Lemma in_enum_skipn {A} (l : list A) k i1 gi y :
  In (gi, y) (enumerate_from i1 (skipn k l)) ->
  exists j, gi = i1 + Z.of_nat j /\ nth_opt l (k + j) = Some y.
Proof.
  intros H. destruct (in_enum_all _ _ _ _ H) as (j & E & Hn). exists j. split; [exact E|].
  rewrite <- nth_opt_skipn. exact Hn.
Qed.

Section Whole.
  Variable matches : Z -> Z -> bool.
  Variable rules : state.
  Variable nb : name_t -> bool.
  Let N := fun n => nb n = true.
  Variable scope_id : Z -> list stok -> Z.

  Definition plan_sg (bufs : list bufval) (opcodes : list Z) (sid : Z -> list stok -> Z)
             (st : results * store) (gs : Z * (subgraph * list bool)) : res (results * store) :=
    let '(gi, (g, sc)) := gs in
    plan_ops matches rules bufs (sg_tensors g) (pops_of (sid gi) opcodes g sc) st.

  Lemma plan_unfold bufs m scopes stats :
    plan matches rules bufs scope_id m scopes stats =
      (let empty := match stats with None => true | Some _ => false end in
       if need_calibration rules && empty then Err RuntimeError else
       let s0 : store := match stats with Some ns => map (fun n => (n, VStat n)) ns | None => [] end in
       r <- foldM (plan_sg bufs (m_opcodes m) scope_id) (enumerate (combine (m_subgraphs m) scopes)) ([], s0) ;;
       Ok r).
  Proof. reflexivity. Qed.

  Lemma others_invisible bufs opcodes : forall L rs s rs' s',
    Forall (fun gs : Z * (subgraph * list bool) => outside nb (sg_tensors (fst (snd gs)))) L ->
    foldM (plan_sg bufs opcodes scope_id) L (rs, s) = Ok (rs', s') ->
    filt nb rs' = filt nb rs /\ agree N s' s.
  Proof.
    induction L as [|[gi [g sc]] L IH]; intros rs s rs' s' HL H; cbn [foldM] in H.
    - inversion H; subst. split; [reflexivity|intros n _; reflexivity].
    - inversion HL as [|? ? Hg HL']; subst. cbn [fst snd] in Hg.
      destruct (plan_sg bufs opcodes scope_id (rs, s) (gi, (g, sc))) as [[r1 t1]|] eqn:E; cbn [bind] in H; [|discriminate].
      cbn [plan_sg] in E. destruct (plan_ops_other matches rules bufs nb _ Hg _ _ _ _ _ E) as [A B].
      destruct (IH _ _ _ _ HL' H) as [A' B']. split; [congruence|].
      intros n Hn. rewrite (B' n Hn). apply B. exact Hn.
  Qed.

  (* the plan entries of subgraph k, computed on the whole model, are the
     plan of k alone (m2: any model made of that subgraph, same opcode table) *)
  Theorem plan_of_subgraph_alone bufs m m2 scopes stats k g sc rs s :
    nth_opt (combine (m_subgraphs m) scopes) k = Some (g, sc) ->
    m_subgraphs m2 = [g] -> m_opcodes m2 = m_opcodes m ->
    inside nb (sg_tensors g) ->
    (forall j g' sc', nth_opt (combine (m_subgraphs m) scopes) j = Some (g', sc') -> j <> k ->
                      outside nb (sg_tensors g')) ->
    plan matches rules bufs scope_id m scopes stats = Ok (rs, s) ->
    exists s', plan matches rules bufs (fun _ => scope_id (Z.of_nat k)) m2 [sc] stats = Ok (filt nb rs, s') /\
               agree N s s'.
  Proof.
    intros Hk Hm2 Hop Hin Hout H. rewrite plan_unfold in H.
    unfold plan. rewrite Hm2, Hop. cbn [combine enumerate enumerate_from foldM]. cbv zeta in H |- *.
    destruct (need_calibration rules && match stats with None => true | Some _ => false end); [discriminate|].
    unfold enumerate in H. rewrite (enumerate_from_split _ _ _ 0 Hk), foldM_app' in H.
    match type of H with context [foldM ?f (enumerate_from 0 (firstn k ?c)) (?e, ?s00)] =>
      set (s0 := s00) in *; destruct (foldM f (enumerate_from 0 (firstn k c)) (e, s0)) as [[rs1 s1]|] eqn:E1 end;
      cbn [bind] in H; [|discriminate].
    cbn [foldM] in H.
    destruct (plan_sg bufs (m_opcodes m) scope_id (rs1, s1) (0 + Z.of_nat k, (g, sc))) as [[rs2 s2]|] eqn:E2;
      cbn [bind] in H; [|discriminate].
    match type of H with context [foldM ?f (enumerate_from ?i (skipn (S k) ?c)) ?st] =>
      destruct (foldM f (enumerate_from i (skipn (S k) c)) st) as [[rs3 s3]|] eqn:E3 end;
      cbn [bind] in H; [|discriminate].
    inversion H; subst rs3 s3. clear H.
    (* phase 1 *)
    assert (F1 : Forall (fun gs : Z * (subgraph * list bool) => outside nb (sg_tensors (fst (snd gs))))
                        (enumerate_from 0 (firstn k (combine (m_subgraphs m) scopes)))).
    { apply Forall_forall. intros [gi [g' sc']] Hgs. destruct (in_enum_firstn _ _ _ _ _ Hgs) as (j & Hj & _ & Hn).
      cbn [fst snd]. eapply Hout; [exact Hn|lia]. }
    destruct (others_invisible bufs (m_opcodes m) _ _ _ _ _ F1 E1) as [A1 B1].
    (* phase 3 *)
    assert (F3 : Forall (fun gs : Z * (subgraph * list bool) => outside nb (sg_tensors (fst (snd gs))))
                        (enumerate_from (0 + Z.of_nat k + 1) (skipn (S k) (combine (m_subgraphs m) scopes)))).
    { apply Forall_forall. intros [gi [g' sc']] Hgs. destruct (in_enum_skipn _ _ _ _ _ Hgs) as (j & _ & Hn).
      cbn [fst snd]. eapply Hout; [exact Hn|lia]. }
    destruct (others_invisible bufs (m_opcodes m) _ _ _ _ _ F3 E3) as [A3 B3].
    (* phase 2 *)
    cbn [plan_sg] in E2. rewrite Z.add_0_l in E2.
    destruct (plan_ops_own matches rules bufs nb _ Hin _ _ _ s0 _ _ B1 E2) as (s2' & E2' & Ha2).
    change (filt nb []) with (@nil tplan) in A1. rewrite A1 in E2'.
    exists s2'. cbn [plan_sg bind]. fold (plan_ops matches rules bufs (sg_tensors g)).
    unfold plan_ops in E2' |- *.
    match goal with |- (r <- (s' <- ?X ;; _) ;; _) = _ /\ _ =>
      replace X with (@Ok (results * store) (filt nb rs2, s2')) by (symmetry; exact E2') end.
    cbn [bind]. rewrite A3. split; [reflexivity|].
    intros n Hn. rewrite (B3 n Hn). apply Ha2. exact Hn.
  Qed.
End Whole.
