(* Proofs/RewireFun.v — what rewire_consumers computes, as a function of the
   position: the operator at a listed position is redirected, every other one
   is left alone; and, when the listed positions are exactly the readers of
   [old] and none lies before p, the result of redirect-then-insert has the
   prefix / new op / redirected suffix form used by Proofs/InterStep.v. *)
From VF Require Import Base.Prelude Model.Graph Model.Perform Proofs.ListFacts Proofs.PerformStep Proofs.ModeProofs.

Lemma nth_opt_ext {A} : forall (a b : list A), (forall k, nth_opt a k = nth_opt b k) -> a = b.
Proof.
  induction a as [|x a IH]; intros [|y b] H.
  - reflexivity.
  - specialize (H 0%nat). discriminate.
  - specialize (H 0%nat). discriminate.
  - pose proof (H 0%nat) as H0. cbn in H0. inversion H0; subst. f_equal. apply IH.
    intros k. exact (H (S k)).
Qed.

Lemma nth_opt_map' {A B} (f : A -> B) : forall l k, nth_opt (map f l) k = option_map f (nth_opt l k).
Proof. induction l as [|x l IH]; intros [|k]; cbn; auto. Qed.

Lemma nth_opt_prefix_suffix {A} (f : A -> A) : forall p (l : list A) k,
  nth_opt (firstn p l ++ map f (skipn p l)) k =
  if (k <? p)%nat then nth_opt l k else option_map f (nth_opt l k).
Proof.
  induction p as [|p IH]; intros l k.
  - cbn. apply nth_opt_map'.
  - destruct l as [|x l].
    + cbn [firstn skipn map app]. destruct k; cbn [nth_opt option_map]; match goal with |- context [if ?b then _ else _] => destruct b end; reflexivity.
    + cbn [firstn skipn app]. destruct k as [|k]; [reflexivity|]. cbn [nth_opt]. rewrite IH. reflexivity.
Qed.

Lemma rewire_op_noread o old new : ~ In old (o_ins o) -> rewire_op o old new = o.
Proof.
  intros H. unfold rewire_op. destruct o as [oc oi oo ou]. cbn in *. f_equal.
  induction oi as [|y l IH]; cbn; [reflexivity|].
  destruct (Z.eqb_spec y old) as [->|Hne]; [exfalso; apply H; left; reflexivity|].
  f_equal. apply IH. intros C. apply H. right. exact C.
Qed.

Lemma rewire_fun cs : forall ops old new ops',
  new <> old -> Forall (fun c => 0 <= c) cs ->
  rewire_consumers ops cs old new = Ok ops' ->
  forall k, nth_opt ops' k =
            option_map (fun o => if memZ (Z.of_nat k) cs then rewire_op o old new else o) (nth_opt ops k).
Proof.
  induction cs as [|c cs IH]; intros ops old new ops' Hne Hcs H k.
  - cbn in H. inversion H; subst. cbn. destruct (nth_opt ops' k); reflexivity.
  - inversion Hcs as [|? ? Hc Hcs']; subst.
    unfold rewire_consumers in H. cbn [foldM] in H.
    destruct (Z.eqb_spec c (-1)) as [E|E]; [lia|].
    destruct (py_index ops c) as [o|] eqn:Ei; cbn [bind] in H; [|discriminate].
    destruct (py_index_nonneg _ _ _ Hc Ei) as [Hn Hlt].
    replace (if c <? 0 then c + lenZ ops else c) with c in H
      by (destruct (Z.ltb_spec c 0); [lia|reflexivity]).
    fold (rewire_consumers (set_nth ops (Z.to_nat c) (rewire_op o old new)) cs old new) in H.
    rewrite (IH _ _ _ _ Hne Hcs' H k). rewrite nth_opt_set_nth_any.
    unfold memZ. cbn [existsb].
    destruct (Nat.eqb_spec k (Z.to_nat c)) as [Ek|Nk].
    + subst k. rewrite Hn. cbn [option_map]. rewrite Z2Nat.id by exact Hc. rewrite Z.eqb_refl. cbn [orb].
      fold (memZ c cs). destruct (memZ c cs); [rewrite rewire_op_idem by exact Hne|]; reflexivity.
    + destruct (Z.eqb_spec (Z.of_nat k) c) as [Ek|_]; [exfalso; apply Nk; subst c; rewrite Nat2Z.id; reflexivity|].
      reflexivity.
Qed.

(* redirect the readers, then insert the new op at p *)
Theorem rewire_insert_form ops cs old new ops' p newop :
  new <> old -> Forall (fun c => 0 <= c) cs ->
  rewire_consumers ops cs old new = Ok ops' ->
  (forall k, In k cs -> Z.of_nat p <= k) ->
  (forall k o, nth_opt ops k = Some o -> In old (o_ins o) -> In (Z.of_nat k) cs) ->
  (p <= length ops)%nat ->
  insert_at ops' p newop =
  firstn p ops ++ newop :: map (fun o => rewire_op o old new) (skipn p ops).
Proof.
  intros Hne Hcs H Hp Hex Hlen.
  assert (E : ops' = firstn p ops ++ map (fun o => rewire_op o old new) (skipn p ops)).
  { apply nth_opt_ext. intros k. rewrite (rewire_fun _ _ _ _ _ Hne Hcs H k), nth_opt_prefix_suffix.
    destruct (nth_opt ops k) as [o|] eqn:Ek; [|destruct (k <? p)%nat; reflexivity]. cbn [option_map].
    destruct (Nat.ltb_spec k p) as [Hlt|Hge].
    - destruct (memZ (Z.of_nat k) cs) eqn:Em; [|reflexivity].
      apply memZ_In in Em. specialize (Hp _ Em). lia.
    - destruct (memZ (Z.of_nat k) cs) eqn:Em; [reflexivity|].
      f_equal. symmetry. apply rewire_op_noread. intros C.
      specialize (Hex _ _ Ek C). apply memZ_In in Hex. congruence. }
  rewrite E. clear - Hlen.
  revert ops Hlen. induction p as [|p IH]; intros ops Hlen.
  { cbn [firstn skipn app]. destruct (map _ ops); reflexivity. }
  destruct ops as [|o ops]; [cbn in Hlen; lia|]. cbn [firstn skipn app insert_at]. f_equal.
  apply IH. cbn in Hlen. lia.
Qed.
