(* Proofs/RangeInv.v — C01 composition, remaining index clauses: opcode
   indices, buffer indices and signature entries stay in range over whole
   performer runs.  Together with Proofs/PerformInv.v this gives [wf_model]
   of the result. *)
From VF Require Import Base.Prelude Gen.Enums Model.Graph Gen.InstChecks Model.Perform Spec.WF
     Proofs.ListFacts Proofs.PerformStep Proofs.ModeProofs Proofs.LocalProofs Proofs.PerformInv.

Definition codes_ok (ncodes : Z) (g : subgraph) : Prop :=
  forall k o, op_at g k o -> 0 <= o_code o < ncodes.
Definition bufs_ok (nbufs : Z) (g : subgraph) : Prop :=
  forall k t, tensor_at g k = Some t -> 0 <= t_buf t < nbufs.
Definition sig_ok (subgraphs : list subgraph) (s : sigdef) : Prop :=
  0 <= sd_sg s /\ exists g, nth_opt subgraphs (Z.to_nat (sd_sg s)) = Some g /\
    Forall (fun x => 0 <= x < ntens g) (sd_inputs s ++ sd_outputs s).

Record rinv (m : model) : Prop := {
  ri_codes : forall k g, nth_opt (m_subgraphs m) k = Some g -> codes_ok (lenZ (m_opcodes m)) g;
  ri_bufs : forall k g, nth_opt (m_subgraphs m) k = Some g -> bufs_ok (lenZ (m_buffers m)) g;
  ri_sigs : Forall (sig_ok (m_subgraphs m)) (m_sigs m) }.

(* ---- effect of one insertion on the shared tables ---- *)
Lemma insert_common_tables is_quant codes bufs g tid producer cs ps codes' bufs' g' info :
  insert_common is_quant codes bufs g tid producer cs ps = Ok (codes', bufs', g', info) ->
  codes' = snd (add_op_code (if is_quant then BC_QUANTIZE else BC_DEQUANTIZE) codes) /\
  length bufs' = length bufs.
Proof.
  intros Hrun. unfold insert_common in Hrun.
  destruct (add_op_code (if is_quant then BC_QUANTIZE else BC_DEQUANTIZE) codes) as [cidx cds].
  destruct (get_tensor g tid) as [t|]; cbn [bind] in Hrun; [|discriminate].
  match type of Hrun with bind ?m _ = _ => destruct m as [[bufs2 g2]|] eqn:E0 end; cbn [bind] in Hrun; [|discriminate].
  destruct (py_min cs) as [z|]; cbn [bind] in Hrun; [|discriminate].
  match type of Hrun with bind ?m _ = _ => destruct m as [l|] end; cbn [bind] in Hrun; [|discriminate].
  destruct (Z.max (producer + 1) z <? 0); [discriminate|].
  inversion Hrun; subst. split; [reflexivity|].
  destruct (quantize_tensor_shape _ _ _ _ _ _ E0) as (_ & _ & _ & _ & L). exact L.
Qed.

Lemma add_op_code_range code codes :
  let '(idx, codes') := add_op_code code codes in
  0 <= idx < lenZ codes' /\ lenZ codes <= lenZ codes'.
Proof.
  pose proof (add_op_code_stable code codes) as H. destruct (add_op_code code codes) as [idx codes'].
  destruct H as (_ & Hn & Hl). split; [|unfold lenZ; lia].
  unfold nthZ in Hn. destruct (Z.ltb_spec idx 0); [discriminate|]. apply nth_opt_Some_lt in Hn. unfold lenZ. lia.
Qed.

Lemma codes_ok_mono n n' g : n <= n' -> codes_ok n g -> codes_ok n' g.
Proof. intros H C k o Hk. specialize (C k o Hk). lia. Qed.

Lemma quantize_tensor_buf bufs g tid ps bufs' g' :
  0 <= tid -> quantize_tensor bufs g tid ps = Ok (bufs', g') ->
  forall k t', tensor_at g' k = Some t' -> exists t, tensor_at g k = Some t /\ t_buf t' = t_buf t.
Proof.
  intros Ht H k t' Hk. unfold quantize_tensor in H.
  destruct (get_tensor g tid) as [t0|] eqn:Et; cbn [bind] in H; [|discriminate].
  unfold get_tensor in Et. destruct (py_index_nonneg _ _ _ Ht Et) as [Hn Hlt].
  replace (if tid <? 0 then tid + lenZ (sg_tensors g) else tid) with tid in H
    by (destruct (Z.ltb_spec tid 0); [lia|reflexivity]).
  destruct ps as [p|].
  - match type of H with bind ?m _ = _ => destruct m as [b2|] end; cbn [bind] in H; [|discriminate].
    match type of H with bind ?m _ = _ => destruct m as [t2|] eqn:Et2 end; cbn [bind] in H; [|discriminate].
    inversion H; subst bufs' g'; clear H.
    assert (M2 : t_buf t2 = t_buf t0).
    { destruct (qp_uniform p).
      - destruct (quant_params_to_tflite_type (qp_bits p)); cbn [bind] in Et2; [|discriminate]. inversion Et2; reflexivity.
      - destruct (nonlinear_quant_params_to_tflite_type (qp_bits p)); cbn [bind] in Et2; [|discriminate]. inversion Et2; reflexivity. }
    unfold tensor_at, nthZ, set_tensor in *. cbn [sg_tensors] in Hk.
    destruct (Z.ltb_spec k 0); [discriminate|]. rewrite nth_opt_set_nth_any in Hk.
    destruct (Nat.eqb_spec (Z.to_nat k) (Z.to_nat tid)) as [E|E].
    + rewrite E in *. rewrite Hn in Hk. inversion Hk; subst. exists t0. split; [exact Hn|exact M2].
    + exists t'. split; [exact Hk|reflexivity].
  - destruct (negb (t_buf t0 =? 0)); [discriminate|]. inversion H; subst. exists t'. split; [exact Hk|reflexivity].
Qed.

Lemma insert_common_buf is_quant codes bufs g tid producer cs ps codes' bufs' g' info :
  0 <= tid ->
  insert_common is_quant codes bufs g tid producer cs ps = Ok (codes', bufs', g', info) ->
  forall k t', tensor_at g' k = Some t' ->
    (k < ntens g /\ exists t, tensor_at g k = Some t /\ t_buf t' = t_buf t) \/ (k = ntens g /\ t_buf t' = 0).
Proof.
  intros Ht Hrun k t' Hk. unfold insert_common in Hrun.
  destruct (add_op_code (if is_quant then BC_QUANTIZE else BC_DEQUANTIZE) codes) as [cidx cds].
  destruct (get_tensor g tid) as [t0|] eqn:E; cbn [bind] in Hrun; [|discriminate].
  match type of Hrun with bind ?m _ = _ => destruct m as [[bufs2 g2]|] eqn:E0 end;
    cbn [bind] in Hrun; [|discriminate].
  destruct (py_min cs) as [z|]; cbn [bind] in Hrun; [|discriminate].
  match type of Hrun with bind ?m _ = _ => destruct m as [l|] end; cbn [bind] in Hrun; [|discriminate].
  destruct (Z.max (producer + 1) z <? 0); [discriminate|].
  inversion Hrun; subst; clear Hrun.
  change (tensor_at {| sg_tensors := sg_tensors g2; sg_ops := _; sg_inputs := _; sg_outputs := _ |} k)
    with (tensor_at g2 k) in Hk.
  match type of E0 with quantize_tensor _ ?G ?T _ = _ => set (g1 := G) in *; set (tq := T) in * end.
  assert (Htq : 0 <= tq) by (unfold tq; destruct is_quant; unfold lenZ; lia).
  destruct (quantize_tensor_buf _ _ _ _ _ _ Htq E0 _ _ Hk) as (t1 & Ht1 & Eb).
  unfold tensor_at, g1 in Ht1. cbn [sg_tensors] in Ht1.
  destruct (Z.lt_trichotomy k (ntens g)) as [Hlt|[->|Hgt]].
  - left. split; [exact Hlt|]. rewrite nthZ_app_l in Ht1 by exact Hlt. exists t1. split; [exact Ht1|exact Eb].
  - right. split; [reflexivity|]. unfold ntens in Ht1. rewrite nthZ_app_new in Ht1. inversion Ht1; subst. rewrite Eb. reflexivity.
  - exfalso. unfold nthZ in Ht1. destruct (Z.ltb_spec k 0); [discriminate|]. apply nth_opt_Some_lt in Ht1.
    rewrite app_length in Ht1. cbn in Ht1. unfold ntens, lenZ in Hgt. lia.
Qed.

Lemma insert_step_ranges is_quant codes bufs g tid producer cs ps codes' bufs' g' info :
  0 <= tid < ntens g -> -1 <= producer < lenZ (sg_ops g) ->
  Forall (fun c => c = -1 \/ 0 <= c) cs ->
  codes_ok (lenZ codes) g -> bufs_ok (lenZ bufs) g ->
  insert_common is_quant codes bufs g tid producer cs ps = Ok (codes', bufs', g', info) ->
  codes_ok (lenZ codes') g' /\ bufs_ok (lenZ bufs') g' /\ lenZ codes <= lenZ codes' /\ lenZ bufs' = lenZ bufs.
Proof.
  intros Ht Hpr Hcs Hc Hb Hrun.
  assert (Ht0 : 0 <= tid) by lia.
  destruct (insert_common_tables _ _ _ _ _ _ _ _ _ _ _ _ Hrun) as [Ecodes Lb].
  pose proof (add_op_code_range (if is_quant then BC_QUANTIZE else BC_DEQUANTIZE) codes) as Hr.
  destruct (insert_common_facts is_quant codes bufs g tid producer cs ps codes' bufs' g' info Ht0 Hpr Hcs Hrun)
    as (ops2 & first & Hn & _ & _ & _ & _ & _ & Hrng & Hlen & Hrew & Hops & _ & _).
  destruct (add_op_code (if is_quant then BC_QUANTIZE else BC_DEQUANTIZE) codes) as [idx cds] eqn:Ea.
  cbn [snd] in Ecodes. subst codes'. destruct Hr as [Hidx Hgrow]. cbn [fst] in Hops.
  assert (Hnle : (Z.to_nat (to_op_id info) <= length ops2)%nat) by (unfold lenZ in Hrng; lia).
  assert (Hbnn : forall t, tensor_at g tid = Some t -> 0 <= t_buf t) by (intros t Ht1; specialize (Hb _ _ Ht1); lia).
  destruct (insert_common_types _ _ _ _ _ _ _ _ _ _ _ _ Ht0 Hbnn Hrun)
    as (t & tn & Hat & Hnew & _ & _ & Hbn & Hoth & _ & Hq & Hps).
  assert (Lb' : lenZ bufs' = lenZ bufs) by (unfold lenZ; lia).
  split; [|split; [|split; [exact Hgrow|exact Lb']]].
  - intros k o Hk. unfold op_at in Hk. rewrite Hops in Hk.
    destruct (insert_at_cases _ _ _ _ _ Hnle Hk) as [[_ ->]|(k0 & _ & Hk0)]; [cbn; exact Hidx|].
    destruct (Hrew _ _ Hk0) as (o0 & Ho0 & Hr). specialize (Hc _ _ Ho0).
    destruct Hr as [->|[-> _]]; cbn [rewire_op o_code]; lia.
  - intros k t' Hk. rewrite Lb'.
    destruct (insert_common_buf _ _ _ _ _ _ _ _ _ _ _ _ Ht0 Hrun _ _ Hk) as [(Hlt & t1 & Ht1 & Eb)|[-> Eb]].
    + rewrite Eb. eapply Hb; exact Ht1.
    + rewrite Eb. pose proof (Hb _ _ Hat). lia.
Qed.

(* ---- what a performer step does to the shared tables ---- *)
Lemma apply_single_tables st sgid i later st' later' :
  0 <= sgid -> apply_single st sgid i later = Ok (st', later') ->
  exists om am g,
    nth_opt (ps_orig st) (Z.to_nat sgid) = Some om /\
    nth_opt (ps_added st) (Z.to_nat sgid) = Some am /\
    nth_opt (m_subgraphs (ps_model st)) (Z.to_nat sgid) = Some g /\
    ((exists bufs g',
        quantize_tensor (m_buffers (ps_model st)) g (i_tensor i) (i_params i) = Ok (bufs, g') /\
        m_opcodes (ps_model st') = m_opcodes (ps_model st) /\ m_buffers (ps_model st') = bufs /\
        m_sigs (ps_model st') = m_sigs (ps_model st) /\
        m_subgraphs (ps_model st') = set_nth (m_subgraphs (ps_model st)) (Z.to_nat sgid) g') \/
     (exists q producer cs codes bufs g' info,
        resolve om am (i_producer i) = Ok producer /\ Forall (fun c => c = -1 \/ In c om) cs /\
        insert_common q (m_opcodes (ps_model st)) (m_buffers (ps_model st)) g (i_tensor i)
                      producer cs (i_params i) = Ok (codes, bufs, g', info) /\
        m_opcodes (ps_model st') = codes /\ m_buffers (ps_model st') = bufs /\
        m_sigs (ps_model st') =
          (if memZ (-1) (i_consumers i) && negb (to_tensor info =? i_tensor i)
           then fix_sigs (m_sigs (ps_model st)) sgid (i_tensor i) (to_tensor info)
           else m_sigs (ps_model st)) /\
        m_subgraphs (ps_model st') = set_nth (m_subgraphs (ps_model st)) (Z.to_nat sgid) g')).
Proof.
  intros Hs H. unfold apply_single in H.
  destruct (py_index (ps_orig st) sgid) as [om|] eqn:E1; cbn [bind] in H; [|discriminate].
  destruct (py_index (ps_added st) sgid) as [am|] eqn:E2; cbn [bind] in H; [|discriminate].
  destruct (py_index (m_subgraphs (ps_model st)) sgid) as [g|] eqn:E3; cbn [bind] in H; [|discriminate].
  apply (py_index_nonneg _ _ _ Hs) in E1. apply (py_index_nonneg _ _ _ Hs) in E2.
  apply (py_index_nonneg _ _ _ Hs) in E3. destruct E1 as [E1 _], E2 as [E2 _], E3 as [E3 _].
  exists om, am, g. split; [exact E1|]. split; [exact E2|]. split; [exact E3|].
  fold (resolve om am (i_producer i)) in H.
  destruct (resolve om am (i_producer i)) as [producer|] eqn:Er; cbn [bind] in H; [|discriminate].
  match type of H with bind ?m _ = _ => destruct m as [cs|] eqn:Ec end; cbn [bind] in H; [|discriminate].
  apply mapM_consumers in Ec.
  destruct (i_trans i) eqn:Et; cbn [bind] in H; try discriminate.
  - destruct (insert_common true (m_opcodes (ps_model st)) (m_buffers (ps_model st)) g (i_tensor i)
                producer cs (i_params i)) as [[[[codes bufs] g'] info]|] eqn:Ei; cbn [bind] in H; [|discriminate].
    right. exists true, producer, cs, codes, bufs, g', info.
    destruct (to_added info =? 0); inversion H; subst; cbn; repeat split; assumption.
  - destruct (insert_common false (m_opcodes (ps_model st)) (m_buffers (ps_model st)) g (i_tensor i)
                producer cs (i_params i)) as [[[[codes bufs] g'] info]|] eqn:Ei; cbn [bind] in H; [|discriminate].
    right. exists false, producer, cs, codes, bufs, g', info.
    destruct (to_added info =? 0); inversion H; subst; cbn; repeat split; assumption.
  - destruct (quantize_tensor (m_buffers (ps_model st)) g (i_tensor i) (i_params i)) as [[bufs g']|] eqn:Eq;
      cbn [bind] in H; [|discriminate].
    left. exists bufs, g'. cbn [to_added to_tensor Z.eqb fst snd] in H.
    rewrite Z.eqb_refl in H. cbn [negb] in H. rewrite Bool.andb_false_r in H.
    inversion H; subst; cbn. repeat split; reflexivity.
Qed.

Lemma sig_ok_set_nth sgs k g g' s :
  nth_opt sgs k = Some g -> ntens g <= ntens g' -> sig_ok sgs s -> sig_ok (set_nth sgs k g') s.
Proof.
  intros Hk Hn (H0 & g0 & Hg0 & F). split; [exact H0|].
  destruct (Nat.eq_dec (Z.to_nat (sd_sg s)) k) as [E|E].
  - subst k. rewrite Hk in Hg0. inversion Hg0; subst g0. exists g'.
    split; [apply nth_opt_set_nth_same; eapply nth_opt_Some_lt; exact Hk|].
    eapply Forall_impl; [|exact F]. cbn. intros; lia.
  - exists g0. split; [rewrite nth_opt_set_nth_other by exact E; exact Hg0|exact F].
Qed.

Theorem apply_single_rinv st sgid i later rest st' later' :
  ginv st ((sgid, i) :: map (pair sgid) later ++ rest) -> rinv (ps_model st) ->
  apply_single st sgid i later = Ok (st', later') -> rinv (ps_model st').
Proof.
  intros HG [RC RB RS] H. pose proof HG as [Lo La Hm Hp].
  destruct (Hp sgid i (or_introl eq_refl)) as [Hs Hi].
  destruct (apply_single_tables _ _ _ _ _ _ Hs H) as (om & am & g & Eo & Ea & Eg & Hcase).
  pose proof (Hm _ _ _ _ Eg Eo Ea) as Hmo.
  destruct (Hi _ _ _ Eg Eo Ea) as (Ht & _ & _).
  destruct Hcase as [(bufs & g' & Hq & Ec & Eb & Es & Em)|(q & producer & cs & codes & bufs & g' & info & Hr & Hcs & Hins & Ec & Eb & Es & Em)].
  - destruct (quantize_tensor_shape _ _ _ _ _ _ Hq) as (Hops & _ & _ & Hnt & Lb).
    assert (Ht0 : 0 <= i_tensor i) by lia.
    constructor.
    + rewrite Ec, Em. intros k g0 Hk. destruct (Nat.eq_dec k (Z.to_nat sgid)) as [->|Hne].
      * rewrite (nth_opt_set_nth_eq _ _ _ _ Eg) in Hk. inversion Hk; subst g0.
        intros k0 o Ho. unfold op_at in Ho. rewrite Hops in Ho. eapply RC; eassumption.
      * rewrite nth_opt_set_nth_other in Hk by exact Hne. eapply RC; exact Hk.
    + rewrite Eb, Em. replace (lenZ bufs) with (lenZ (m_buffers (ps_model st))) by (unfold lenZ; lia).
      intros k g0 Hk. destruct (Nat.eq_dec k (Z.to_nat sgid)) as [->|Hne].
      * rewrite (nth_opt_set_nth_eq _ _ _ _ Eg) in Hk. inversion Hk; subst g0.
        intros k0 t' Hk0. destruct (quantize_tensor_buf _ _ _ _ _ _ Ht0 Hq _ _ Hk0) as (t1 & Ht1 & E).
        rewrite E. eapply RB; eassumption.
      * rewrite nth_opt_set_nth_other in Hk by exact Hne. eapply RB; exact Hk.
    + rewrite Es, Em. eapply Forall_impl; [|exact RS]. intros s Hsig.
      eapply sig_ok_set_nth; [exact Eg|lia|exact Hsig].
  - pose proof (resolve_range _ _ _ _ _ Hmo Hr) as Hrng.
    assert (Hcs' : Forall (fun c => c = -1 \/ 0 <= c) cs).
    { eapply Forall_impl; [|exact Hcs]. cbn. intros c [->|Hc]; [left; reflexivity|right].
      destruct Hmo as [_ _ Ro _]. rewrite Forall_forall in Ro. specialize (Ro _ Hc). lia. }
    destruct (insert_step_ranges q _ _ g (i_tensor i) producer cs (i_params i) codes bufs g' info
                Ht Hrng Hcs' (RC _ _ Eg) (RB _ _ Eg) Hins) as (C' & B' & Lc & Lb).
    assert (Ht0 : 0 <= i_tensor i) by lia.
    destruct (insert_common_facts q _ _ g (i_tensor i) producer cs (i_params i) codes bufs g' info Ht0 Hrng Hcs' Hins)
      as (_ & _ & Hn & Htn & _).
    constructor.
    + rewrite Ec, Em. intros k g0 Hk. destruct (Nat.eq_dec k (Z.to_nat sgid)) as [->|Hne].
      * rewrite (nth_opt_set_nth_eq _ _ _ _ Eg) in Hk. inversion Hk; subst g0. exact C'.
      * rewrite nth_opt_set_nth_other in Hk by exact Hne. eapply codes_ok_mono; [exact Lc|eapply RC; exact Hk].
    + rewrite Eb, Em, Lb. intros k g0 Hk. destruct (Nat.eq_dec k (Z.to_nat sgid)) as [->|Hne].
      * rewrite (nth_opt_set_nth_eq _ _ _ _ Eg) in Hk. inversion Hk; subst g0. rewrite <- Lb. exact B'.
      * rewrite nth_opt_set_nth_other in Hk by exact Hne. eapply RB; exact Hk.
    + rewrite Es, Em.
      assert (Hbase : Forall (sig_ok (set_nth (m_subgraphs (ps_model st)) (Z.to_nat sgid) g')) (m_sigs (ps_model st))).
      { eapply Forall_impl; [|exact RS]. intros s Hsig. eapply sig_ok_set_nth; [exact Eg|lia|exact Hsig]. }
      destruct (memZ (-1) (i_consumers i) && negb (to_tensor info =? i_tensor i)); [|exact Hbase].
      unfold fix_sigs. apply Forall_forall. intros s' Hs'. apply in_map_iff in Hs'. destruct Hs' as (s & <- & Hin).
      rewrite Forall_forall in Hbase. specialize (Hbase _ Hin).
      destruct (Z.eqb_spec (sd_sg s) sgid) as [E|E]; [|exact Hbase].
      destruct Hbase as (H0 & g0 & Hg0 & F). split; [exact H0|]. cbn [sd_sg sd_inputs sd_outputs].
      exists g0. split; [exact Hg0|].
      rewrite E in Hg0. rewrite (nth_opt_set_nth_eq _ _ _ _ Eg) in Hg0. inversion Hg0; subst g0.
      apply Forall_app in F. destruct F as [F1 F2]. apply Forall_app. split; [exact F1|].
      apply Forall_forall. intros x Hx. apply in_map_iff in Hx. destruct Hx as (y & <- & Hy).
      rewrite Forall_forall in F2. specialize (F2 _ Hy). destruct (Z.eqb y (i_tensor i)); [rewrite Htn; lia|exact F2].
Qed.

(* ---- generic lifting of a state property that is preserved by every step ---- *)
Section Lift.
  Variable Q : pstate -> Prop.
  Hypothesis Qstep : forall st sgid i later rest st' later',
    ginv st ((sgid, i) :: map (pair sgid) later ++ rest) -> Q st ->
    apply_single st sgid i later = Ok (st', later') -> Q st'.

  Lemma apply_insts_lift sgid : forall fuel is st rest st',
    ginv st (map (pair sgid) is ++ rest) -> Q st ->
    apply_insts st sgid is fuel = Ok st' -> ginv st' rest /\ Q st'.
  Proof.
    induction fuel as [|f IH]; intros is st rest st' HI HQ H.
    - destruct is as [|i later]; cbn in H; [|discriminate]. inversion H; subst.
      split; [eapply ginv_weaken; [|exact HI]; intros x Hx; exact Hx|exact HQ].
    - destruct is as [|i later]; cbn [apply_insts] in H.
      + inversion H; subst. split; [eapply ginv_weaken; [|exact HI]; intros x Hx; exact Hx|exact HQ].
      + destruct (is_insertion (i_trans i)).
        * destruct (apply_single st sgid i later) as [[st1 later1]|] eqn:E; cbn [bind fst snd] in H; [|discriminate].
          eapply IH; [| |exact H].
          -- eapply apply_single_ginv; [|exact E]. exact HI.
          -- eapply (Qstep st sgid i later rest); [exact HI|exact HQ|exact E].
        * destruct (qtrans_eqb (i_trans i) Tr_EMULATED_SUBCHANNEL); [discriminate|].
          eapply IH; [|exact HQ|exact H]. eapply ginv_weaken; [|exact HI]. intros x Hx. cbn. right. exact Hx.
  Qed.

  Lemma foldM_lift : forall tis st st',
    ginv st (pend_of tis) -> Q st ->
    foldM (fun st ti => apply_insts st (ti_sg ti) (ti_insts ti) (length (ti_insts ti))) tis st = Ok st' ->
    ginv st' [] /\ Q st'.
  Proof.
    induction tis as [|ti tis IH]; intros st st' HI HQ H; cbn in H.
    - inversion H; subst. auto.
    - destruct (apply_insts st (ti_sg ti) (ti_insts ti) (length (ti_insts ti))) as [st1|] eqn:E;
        cbn [bind] in H; [|discriminate].
      destruct (apply_insts_lift (ti_sg ti) _ _ _ _ _ HI HQ E) as [HI1 HQ1]. eapply IH; eassumption.
  Qed.
End Lift.

(* [wf_model] of Spec/WF.v in terms of the two invariants *)
Lemma rinv_of_wf_model m : wf_model m -> rinv m.
Proof.
  intros (_ & HC & HB & HS). constructor.
  - intros k g Hk j o Ho. rewrite Forall_forall in HC. specialize (HC g (nth_opt_In _ _ _ Hk)).
    rewrite Forall_forall in HC. apply HC. eapply nth_opt_In; exact Ho.
  - intros k g Hk j t Ht. rewrite Forall_forall in HB. specialize (HB g (nth_opt_In _ _ _ Hk)).
    rewrite Forall_forall in HB. apply HB. unfold tensor_at, nthZ in Ht. destruct (j <? 0); [discriminate|].
    eapply nth_opt_In; exact Ht.
  - eapply Forall_impl; [|exact HS]. intros s (g & Hg & H0 & F). split; [exact H0|]. exists g. split; [exact Hg|exact F].
Qed.

Lemma wf_model_of m : Forall wf_sg (m_subgraphs m) -> rinv m -> wf_model m.
Proof.
  intros Hwf [RC RB RS]. split; [exact Hwf|]. split; [|split].
  - apply Forall_forall. intros g Hg. destruct (In_nth_opt _ _ Hg) as [k Hk].
    apply Forall_forall. intros o Ho. destruct (In_nth_opt _ _ Ho) as [j Hj]. eapply RC; eassumption.
  - apply Forall_forall. intros g Hg. destruct (In_nth_opt _ _ Hg) as [k Hk].
    apply Forall_forall. intros t Ht. destruct (In_nth_opt _ _ Ht) as [j Hj].
    eapply (RB _ _ Hk (Z.of_nat j)). unfold tensor_at, nthZ. destruct (Z.ltb_spec (Z.of_nat j) 0); [lia|].
    rewrite Nat2Z.id. exact Hj.
  - eapply Forall_impl; [|exact RS]. intros s (H0 & g & Hg & F). exists g. auto.
Qed.

(* the composition theorem with ALL index clauses of C01 *)
Theorem transform_graph_wf_model m tis m' :
  wf_model m ->
  (forall ti i, In ti tis -> In i (ti_insts ti) -> sane m (ti_sg ti) i) ->
  transform_graph m tis = Ok m' -> wf_model m'.
Proof.
  intros Hwf Hsane H. pose proof Hwf as (Hsg & _).
  pose proof (transform_graph_wf _ _ _ Hsg Hsane H) as Hsg'.
  unfold transform_graph in H.
  match type of H with bind ?x _ = _ => destruct x as [st|] eqn:E end; cbn [bind] in H; [|discriminate].
  inversion H; subst.
  destruct (foldM_lift (fun st => rinv (ps_model st)) apply_single_rinv _ _ _
              (init_ginv _ _ Hsg Hsane) (rinv_of_wf_model _ Hwf) E) as [_ HR].
  apply wf_model_of; assumption.
Qed.
