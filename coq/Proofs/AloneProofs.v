(* Proofs/AloneProofs.v — C19 as a simulation: the performer's work on one
   subgraph is a function of that subgraph (ops read through the opcode
   table), its own op-id maps, its own signatures, the NUMBER of buffers and
   its own instruction list.  Two performer states that agree on these for
   subgraph k1 (resp. k2) stay in agreement when both execute the same
   instruction on k1 (resp. k2), and when the first executes any instruction
   on another subgraph.  Instantiated twice: a run of the whole model against
   (a) the run that keeps only k's instructions, (b) the run on the model that
   consists of subgraph k alone. *)
From VF Require Import Base.Prelude Gen.Enums Model.Graph Gen.InstChecks Model.Insts
     Model.Perform Spec.WF Proofs.ListFacts Proofs.PerformStep Proofs.ModeProofs Proofs.LocalProofs
     Proofs.PerformInv Proofs.RangeInv.

(* ---------- generic facts about Forall2 and the list primitives ---------- *)
Section F2.
  Context {A B : Type} (R : A -> B -> Prop).

  Lemma F2_length l1 l2 : Forall2 R l1 l2 -> length l1 = length l2.
  Proof. induction 1; cbn; congruence. Qed.

  Lemma F2_nth l1 l2 : Forall2 R l1 l2 -> forall k a, nth_opt l1 k = Some a ->
    exists b, nth_opt l2 k = Some b /\ R a b.
  Proof.
    induction 1 as [|x y l1 l2 Hxy HF IH]; intros k a Hk; [destruct k; discriminate|].
    destruct k; cbn in *; [inversion Hk; subst; eauto|apply IH; exact Hk].
  Qed.

  Lemma F2_set_nth l1 l2 k a b : Forall2 R l1 l2 -> R a b -> Forall2 R (set_nth l1 k a) (set_nth l2 k b).
  Proof.
    intros HF Hab. revert k. induction HF as [|x y l1 l2 Hxy HF IH]; intros k; cbn; [constructor|].
    destruct k; constructor; auto.
  Qed.

  Lemma F2_insert_at l1 l2 k a b : Forall2 R l1 l2 -> R a b -> Forall2 R (insert_at l1 k a) (insert_at l2 k b).
  Proof.
    intros HF Hab. revert l1 l2 HF. induction k as [|k IH]; intros l1 l2 HF.
    - destruct HF; cbn; constructor; try assumption; constructor; assumption.
    - destruct HF as [|x y l1 l2 Hxy HF]; cbn; [constructor; [assumption|constructor]|].
      constructor; [assumption|apply IH; assumption].
  Qed.

  Lemma F2_py_index l1 l2 i a : Forall2 R l1 l2 -> py_index l1 i = Ok a ->
    exists b, py_index l2 i = Ok b /\ R a b.
  Proof.
    intros HF H. unfold py_index in *. rewrite <- (F2_length _ _ HF).
    destruct ((_ <? 0) || _); [discriminate|].
    destruct (nth_opt l1 _) as [x|] eqn:E; [|discriminate]. inversion H; subst.
    destruct (F2_nth _ _ HF _ _ E) as (b & Eb & Hb). rewrite Eb. eauto.
  Qed.
End F2.

Lemma F2_impl {A B} (R R' : A -> B -> Prop) l1 l2 :
  (forall a b, R a b -> R' a b) -> Forall2 R l1 l2 -> Forall2 R' l1 l2.
Proof. intros H. induction 1; constructor; auto. Qed.

Lemma py_index_same_length {A B} (l1 : list A) (l2 : list B) i a :
  length l1 = length l2 -> py_index l1 i = Ok a -> exists b, py_index l2 i = Ok b.
Proof.
  intros L H. unfold py_index in *. rewrite <- L.
  destruct ((_ <? 0) || _) eqn:E; [discriminate|].
  destruct (nth_opt l1 _) eqn:E1; [|discriminate].
  apply nth_opt_Some_lt in E1.
  match type of E1 with (?n < _)%nat => assert (E2 : (n < length l2)%nat) by lia end.
  destruct (nth_opt_lt_Some l2 _ E2) as [b Eb]. rewrite Eb. eauto.
Qed.

Lemma py_index_of_nat {A} (l : list A) k a : nth_opt l k = Some a -> py_index l (Z.of_nat k) = Ok a.
Proof.
  intros H. unfold py_index. pose proof (nth_opt_Some_lt _ _ _ H) as L.
  destruct (Z.ltb_spec (Z.of_nat k) 0); [lia|].
  replace ((Z.of_nat k <? 0) || (Z.of_nat (length l) <=? Z.of_nat k)) with false.
  - rewrite Nat2Z.id, H. reflexivity.
  - symmetry. apply Bool.orb_false_iff. split; [apply Z.ltb_ge; lia|apply Z.leb_gt; lia].
Qed.

Lemma py_index_of_nat_inv {A} (l : list A) k a : py_index l (Z.of_nat k) = Ok a -> nth_opt l k = Some a.
Proof.
  intros H. apply py_index_nonneg in H; [|lia]. rewrite Nat2Z.id in H. exact (proj1 H).
Qed.

(* ---------- ops read through the opcode table ---------- *)
Definition ext (c c' : list Z) : Prop := forall x v, nthZ c x = Some v -> nthZ c' x = Some v.

Lemma ext_refl c : ext c c.
Proof. intros x v H; exact H. Qed.

Lemma ext_trans a b c : ext a b -> ext b c -> ext a c.
Proof. intros H1 H2 x v H. apply H2, H1, H. Qed.

Lemma ext_of_prefix c c' :
  (forall k, (k < length c)%nat -> nth_opt c' k = nth_opt c k) -> ext c c'.
Proof.
  intros H x v Hx. unfold nthZ in *. destruct (x <? 0); [discriminate|].
  rewrite H; [exact Hx|]. eapply nth_opt_Some_lt; exact Hx.
Qed.

Lemma add_op_code_ext code codes : ext codes (snd (add_op_code code codes)).
Proof.
  pose proof (add_op_code_stable code codes) as H. destruct (add_op_code code codes) as [idx c'].
  cbn. apply ext_of_prefix. exact (proj1 H).
Qed.

Definition opR (c1 c2 : list Z) (o1 o2 : op) : Prop :=
  o_ins o1 = o_ins o2 /\ o_outs o1 = o_outs o2 /\ o_uid o1 = o_uid o2 /\
  exists code, nthZ c1 (o_code o1) = Some code /\ nthZ c2 (o_code o2) = Some code.

Definition gR (c1 c2 : list Z) (g1 g2 : subgraph) : Prop :=
  sg_tensors g1 = sg_tensors g2 /\ Forall2 (opR c1 c2) (sg_ops g1) (sg_ops g2) /\
  sg_inputs g1 = sg_inputs g2 /\ sg_outputs g1 = sg_outputs g2.

Lemma opR_mono c1 c2 c1' c2' o1 o2 : ext c1 c1' -> ext c2 c2' -> opR c1 c2 o1 o2 -> opR c1' c2' o1 o2.
Proof.
  intros E1 E2 (A & B & C & code & H1 & H2). repeat split; try assumption.
  exists code. split; [apply E1; exact H1|apply E2; exact H2].
Qed.

Lemma gR_mono c1 c2 c1' c2' g1 g2 : ext c1 c1' -> ext c2 c2' -> gR c1 c2 g1 g2 -> gR c1' c2' g1 g2.
Proof.
  intros E1 E2 (A & B & C & D). repeat split; try assumption.
  eapply F2_impl; [|exact B]. intros a b. apply opR_mono; assumption.
Qed.

Lemma opR_rewire c1 c2 o1 o2 old new : opR c1 c2 o1 o2 -> opR c1 c2 (rewire_op o1 old new) (rewire_op o2 old new).
Proof.
  intros (A & B & C & D). unfold rewire_op, opR. cbn. rewrite A. repeat split; assumption.
Qed.

(* ---------- the three graph transformations respect the relation ---------- *)
Lemma rewire_consumers_sim c1 c2 cs old new : forall ops1 ops2 r1,
  Forall2 (opR c1 c2) ops1 ops2 -> rewire_consumers ops1 cs old new = Ok r1 ->
  exists r2, rewire_consumers ops2 cs old new = Ok r2 /\ Forall2 (opR c1 c2) r1 r2.
Proof.
  unfold rewire_consumers. induction cs as [|c cs IH]; intros ops1 ops2 r1 HF H; cbn in *.
  - inversion H; subst. eauto.
  - destruct (Z.eqb c (-1)).
    + cbn [bind] in *. eapply IH; eassumption.
    + destruct (py_index ops1 c) as [o1|] eqn:E1; cbn [bind] in H; [|discriminate].
      destruct (F2_py_index _ _ _ _ _ HF E1) as (o2 & E2 & Ho). rewrite E2. cbn [bind].
      unfold lenZ in *. rewrite <- (F2_length _ _ _ HF).
      eapply IH; [|exact H]. apply F2_set_nth; [exact HF|apply opR_rewire; exact Ho].
Qed.

Lemma quantize_tensor_sim b1 b2 g1 g2 tid ps b1' g1' :
  sg_tensors g1 = sg_tensors g2 -> length b1 = length b2 ->
  quantize_tensor b1 g1 tid ps = Ok (b1', g1') ->
  exists b2' g2', quantize_tensor b2 g2 tid ps = Ok (b2', g2') /\
    sg_tensors g1' = sg_tensors g2' /\ length b1' = length b2'.
Proof.
  intros Ht Lb H. unfold quantize_tensor, get_tensor in *. rewrite <- Ht.
  destruct (py_index (sg_tensors g1) tid) as [t|]; cbn [bind] in *; [|discriminate].
  destruct ps as [p|].
  - destruct (negb (t_buf t =? 0) && qp_has_data p).
    + destruct (py_index b1 (t_buf t)) as [x|] eqn:E1; cbn [bind] in H; [|discriminate].
      destruct (py_index_same_length _ b2 _ _ Lb E1) as [y E2]. rewrite E2. cbn [bind] in *.
      match type of H with bind ?m _ = _ => destruct m as [t2|] end; cbn [bind] in *; [|discriminate].
      inversion H; subst. do 2 eexists. split; [reflexivity|].
      unfold set_tensor. cbn [sg_tensors]. rewrite !length_set_nth, Ht. auto.
    + cbn [bind] in *.
      match type of H with bind ?m _ = _ => destruct m as [t2|] end; cbn [bind] in *; [|discriminate].
      inversion H; subst. do 2 eexists. split; [reflexivity|].
      unfold set_tensor. cbn [sg_tensors]. rewrite Ht. auto.
  - destruct (negb (t_buf t =? 0)); [discriminate|]. inversion H; subst. do 2 eexists. eauto.
Qed.

Lemma insert_common_sim q c1 c2 b1 b2 g1 g2 tid producer cs ps c1' b1' g1' info :
  gR c1 c2 g1 g2 -> length b1 = length b2 ->
  insert_common q c1 b1 g1 tid producer cs ps = Ok (c1', b1', g1', info) ->
  exists c2' b2' g2',
    insert_common q c2 b2 g2 tid producer cs ps = Ok (c2', b2', g2', info) /\
    gR c1' c2' g1' g2' /\ length b1' = length b2' /\ ext c1 c1' /\ ext c2 c2'.
Proof.
  intros (Ht & Hops & Hi & Ho) Lb H.
  destruct g1 as [ts ops1 gi go], g2 as [ts2 ops2 gi2 go2].
  cbn [sg_tensors sg_ops sg_inputs sg_outputs] in Ht, Hops, Hi, Ho. subst ts2 gi2 go2.
  unfold insert_common in *. cbn [sg_tensors sg_ops sg_inputs sg_outputs] in *.
  set (code := if q then BC_QUANTIZE else BC_DEQUANTIZE) in *.
  pose proof (add_op_code_ext code c1) as X1. pose proof (add_op_code_ext code c2) as X2.
  pose proof (add_op_code_stable code c1) as S1. pose proof (add_op_code_stable code c2) as S2.
  destruct (add_op_code code c1) as [i1 d1]. destruct (add_op_code code c2) as [i2 d2].
  cbn [snd] in X1, X2. destruct S1 as (_ & N1 & _). destruct S2 as (_ & N2 & _).
  unfold get_tensor in *. cbn [sg_tensors] in *.
  destruct (py_index ts tid) as [t|]; cbn [bind] in *; [|discriminate].
  match type of H with bind ?m _ = _ => destruct m as [[bb1 ga1]|] eqn:Q1 end; cbn [bind] in H; [|discriminate].
  match type of Q1 with quantize_tensor _ ?G ?T _ = _ => set (gx1 := G) in *; set (tq := T) in * end.
  match goal with |- context [quantize_tensor b2 ?G tq ps] => set (gx2 := G) in * end.
  assert (Htx : sg_tensors gx1 = sg_tensors gx2) by reflexivity.
  destruct (quantize_tensor_sim _ _ _ _ _ _ _ _ Htx Lb Q1) as (bb2 & ga2 & Q2 & Hta & Lba).
  rewrite Q2. cbn [bind].
  destruct (quantize_tensor_shape _ _ _ _ _ _ Q1) as (O1 & I1 & U1 & _ & _).
  destruct (quantize_tensor_shape _ _ _ _ _ _ Q2) as (O2 & I2 & U2 & _ & _).
  unfold gx1 in O1, I1, U1. unfold gx2 in O2, I2, U2. cbn [sg_ops sg_inputs sg_outputs] in O1, I1, U1, O2, I2, U2.
  destruct (py_min cs) as [first|]; cbn [bind] in *; [|discriminate].
  match type of H with bind ?m _ = _ => destruct m as [r1|] eqn:W1 end; cbn [bind] in H; [|discriminate].
  assert (HF : Forall2 (opR d1 d2) (sg_ops ga1) (sg_ops ga2)).
  { rewrite O1, O2. eapply F2_impl; [|exact Hops]. intros a b. apply opR_mono; assumption. }
  destruct (rewire_consumers_sim _ _ _ _ _ _ _ _ HF W1) as (r2 & W2 & HR). rewrite W2. cbn [bind].
  destruct (Z.max (producer + 1) first <? 0); [discriminate|].
  inversion H; subst c1' b1' g1' info; clear H.
  do 3 eexists. split; [rewrite <- Hta, I2, U2, <- I1, <- U1; reflexivity|].
  split; [|split; [exact Lba|split; assumption]].
  repeat split; cbn [sg_tensors sg_ops sg_inputs sg_outputs].
  - apply F2_insert_at; [exact HR|]. unfold opR. cbn. repeat split; try reflexivity.
    exists code. split; assumption.
Qed.

(* ---------- signatures of one subgraph ---------- *)
Definition sig_of (k : Z) (s : sigdef) : bool := Z.eqb (sd_sg s) k.
Definition sigR (s1 s2 : sigdef) : Prop :=
  sd_inputs s1 = sd_inputs s2 /\ sd_outputs s1 = sd_outputs s2.
Definition sigsR (k1 k2 : Z) (l1 l2 : list sigdef) : Prop :=
  Forall2 sigR (filter (sig_of k1) l1) (filter (sig_of k2) l2).

Definition fix_one (old new : Z) (s : sigdef) : sigdef :=
  {| sd_sg := sd_sg s; sd_inputs := sd_inputs s;
     sd_outputs := map (fun x => if Z.eqb x old then new else x) (sd_outputs s) |}.

Lemma filter_fix_sigs_same sigs k old new :
  filter (sig_of k) (fix_sigs sigs k old new) = map (fix_one old new) (filter (sig_of k) sigs).
Proof.
  unfold fix_sigs. induction sigs as [|s l IH]; [reflexivity|].
  cbn [map filter]. destruct (Z.eqb (sd_sg s) k) eqn:E.
  - assert (E1 : sig_of k s = true) by exact E.
    assert (E2 : sig_of k {| sd_sg := sd_sg s; sd_inputs := sd_inputs s;
                             sd_outputs := map (fun x => if x =? old then new else x) (sd_outputs s) |} = true) by exact E.
    rewrite E1, E2. cbn [map]. f_equal. exact IH.
  - assert (E1 : sig_of k s = false) by exact E. rewrite E1. exact IH.
Qed.

Lemma filter_fix_sigs_other sigs k sg old new :
  sg <> k -> filter (sig_of k) (fix_sigs sigs sg old new) = filter (sig_of k) sigs.
Proof.
  intros Hne. unfold fix_sigs. induction sigs as [|s l IH]; [reflexivity|].
  cbn [map filter]. destruct (Z.eqb_spec (sd_sg s) sg) as [E|E].
  - assert (E1 : sig_of k s = false) by (unfold sig_of; apply Z.eqb_neq; congruence).
    assert (E2 : sig_of k {| sd_sg := sd_sg s; sd_inputs := sd_inputs s;
                             sd_outputs := map (fun x => if x =? old then new else x) (sd_outputs s) |} = false)
      by (unfold sig_of; cbn [sd_sg]; apply Z.eqb_neq; congruence).
    rewrite E1, E2. exact IH.
  - destruct (sig_of k s); [f_equal|]; exact IH.
Qed.

Lemma sigsR_fix k1 k2 l1 l2 old new :
  sigsR k1 k2 l1 l2 -> sigsR k1 k2 (fix_sigs l1 k1 old new) (fix_sigs l2 k2 old new).
Proof.
  unfold sigsR. rewrite !filter_fix_sigs_same. generalize (filter (sig_of k1) l1) (filter (sig_of k2) l2).
  induction 1 as [|a b la lb (Hi & Ho) HF IH]; cbn; constructor; [|exact IH].
  unfold sigR, fix_one. cbn. rewrite Hi, Ho. auto.
Qed.

(* ---------- the simulation relation on performer states ---------- *)
Record sim (k1 k2 : nat) (s1 s2 : pstate) : Prop := {
  sm_g : exists g1 g2, nth_opt (m_subgraphs (ps_model s1)) k1 = Some g1 /\
                       nth_opt (m_subgraphs (ps_model s2)) k2 = Some g2 /\
                       gR (m_opcodes (ps_model s1)) (m_opcodes (ps_model s2)) g1 g2;
  sm_orig : exists o, nth_opt (ps_orig s1) k1 = Some o /\ nth_opt (ps_orig s2) k2 = Some o;
  sm_added : exists a, nth_opt (ps_added s1) k1 = Some a /\ nth_opt (ps_added s2) k2 = Some a;
  sm_bufs : length (m_buffers (ps_model s1)) = length (m_buffers (ps_model s2));
  sm_sigs : sigsR (Z.of_nat k1) (Z.of_nat k2) (m_sigs (ps_model s1)) (m_sigs (ps_model s2)) }.

(* the transformation proper, as it appears inside apply_single *)
Definition trans_of (i : inst) (codes : list Z) (bufs : list bufval) (g : subgraph)
           (producer : Z) (consumers : list Z) : res (list Z * list bufval * subgraph * tinfo_out) :=
  match i_trans i with
  | Tr_QUANTIZE_TENSOR =>
      bg <- quantize_tensor bufs g (i_tensor i) (i_params i) ;;
      Ok (codes, fst bg, snd bg, {| to_op_id := 0; to_added := 0; to_tensor := i_tensor i |})
  | Tr_ADD_QUANTIZE => insert_common true codes bufs g (i_tensor i) producer consumers (i_params i)
  | Tr_ADD_DEQUANTIZE => insert_common false codes bufs g (i_tensor i) producer consumers (i_params i)
  | _ => Err OtherError
  end.

Lemma trans_of_sim i c1 c2 b1 b2 g1 g2 producer cs c1' b1' g1' info :
  gR c1 c2 g1 g2 -> length b1 = length b2 ->
  trans_of i c1 b1 g1 producer cs = Ok (c1', b1', g1', info) ->
  exists c2' b2' g2',
    trans_of i c2 b2 g2 producer cs = Ok (c2', b2', g2', info) /\
    gR c1' c2' g1' g2' /\ length b1' = length b2' /\ ext c1 c1' /\ ext c2 c2'.
Proof.
  intros HG Lb H. unfold trans_of in *. destruct (i_trans i); try discriminate.
  - eapply insert_common_sim; eassumption.
  - eapply insert_common_sim; eassumption.
  - destruct (quantize_tensor b1 g1 (i_tensor i) (i_params i)) as [[bb1 ga1]|] eqn:Q1; cbn [bind] in H; [|discriminate].
    destruct HG as (Ht & Hops & Hi & Ho).
    destruct (quantize_tensor_sim _ _ _ _ _ _ _ _ Ht Lb Q1) as (bb2 & ga2 & Q2 & Hta & Lba).
    rewrite Q2. cbn [bind fst snd] in *. inversion H; subst c1' b1' g1' info; clear H.
    do 3 eexists. split; [reflexivity|].
    destruct (quantize_tensor_shape _ _ _ _ _ _ Q1) as (O1 & I1 & U1 & _ & _).
    destruct (quantize_tensor_shape _ _ _ _ _ _ Q2) as (O2 & I2 & U2 & _ & _).
    split; [|split; [exact Lba|split; apply ext_refl]].
    repeat split; [exact Hta|rewrite O1, O2; exact Hops|congruence|congruence].
Qed.

Lemma apply_single_unfold st sgid i later :
  apply_single st sgid i later =
  (orig <- py_index (ps_orig st) sgid ;;
   added <- py_index (ps_added st) sgid ;;
   g <- py_index (m_subgraphs (ps_model st)) sgid ;;
   producer <- resolve orig added (i_producer i) ;;
   consumers <- mapM (fun c => if Z.eqb c (-1) then Ok (-1) else py_index orig c) (i_consumers i) ;;
   r <- trans_of i (m_opcodes (ps_model st)) (m_buffers (ps_model st)) g producer consumers ;;
   let '(codes, bufs, g', info) := r in
   let sigs := if memZ (-1) (i_consumers i) && negb (Z.eqb (to_tensor info) (i_tensor i))
               then fix_sigs (m_sigs (ps_model st)) sgid (i_tensor i) (to_tensor info)
               else m_sigs (ps_model st) in
   let m' := set_sg (ps_model st) sgid g' codes bufs sigs in
   if Z.eqb (to_added info) 0 then
     Ok ({| ps_model := m'; ps_orig := ps_orig st; ps_added := ps_added st |}, later)
   else
     let n := to_added info in
     let added1 := added ++ [to_op_id info + n - 1] in
     let later' := update_instructions later i (lenZ orig + lenZ added1 - 1) (to_tensor info) in
     let added2 := shift_from (to_op_id info) n added ++ [to_op_id info + n - 1] in
     let orig2 := shift_suffix (to_op_id info) n orig in
     Ok ({| ps_model := m';
            ps_orig := set_nth (ps_orig st) (Z.to_nat sgid) orig2;
            ps_added := set_nth (ps_added st) (Z.to_nat sgid) added2 |}, later')).
Proof. reflexivity. Qed.

(* both states execute the same instruction on their own copy of the subgraph *)
Theorem apply_single_sim k1 k2 s1 s2 i later s1' later1 :
  sim k1 k2 s1 s2 ->
  apply_single s1 (Z.of_nat k1) i later = Ok (s1', later1) ->
  exists s2', apply_single s2 (Z.of_nat k2) i later = Ok (s2', later1) /\ sim k1 k2 s1' s2'.
Proof.
  intros [(g1 & g2 & G1 & G2 & HG) (o & O1 & O2) (a & A1 & A2) Lb HS] H.
  rewrite apply_single_unfold in *.
  rewrite (py_index_of_nat _ _ _ O1), (py_index_of_nat _ _ _ A1), (py_index_of_nat _ _ _ G1) in H.
  rewrite (py_index_of_nat _ _ _ O2), (py_index_of_nat _ _ _ A2), (py_index_of_nat _ _ _ G2).
  cbn [bind] in *.
  destruct (resolve o a (i_producer i)) as [producer|]; cbn [bind] in *; [|discriminate].
  destruct (mapM _ (i_consumers i)) as [cs|]; cbn [bind] in *; [|discriminate].
  destruct (trans_of i (m_opcodes (ps_model s1)) (m_buffers (ps_model s1)) g1 producer cs)
    as [[[[c1' b1'] g1'] info]|] eqn:T1; cbn [bind] in H; [|discriminate].
  destruct (trans_of_sim _ _ _ _ _ _ _ _ _ _ _ _ _ HG Lb T1) as (c2' & b2' & g2' & T2 & HG' & Lb' & _ & _).
  rewrite T2. cbn [bind].
  pose proof (nth_opt_Some_lt _ _ _ G1) as L1. pose proof (nth_opt_Some_lt _ _ _ G2) as L2.
  pose proof (nth_opt_Some_lt _ _ _ O1) as Lo1. pose proof (nth_opt_Some_lt _ _ _ O2) as Lo2.
  pose proof (nth_opt_Some_lt _ _ _ A1) as La1. pose proof (nth_opt_Some_lt _ _ _ A2) as La2.
  assert (HS' : sigsR (Z.of_nat k1) (Z.of_nat k2)
            (if memZ (-1) (i_consumers i) && negb (to_tensor info =? i_tensor i)
             then fix_sigs (m_sigs (ps_model s1)) (Z.of_nat k1) (i_tensor i) (to_tensor info)
             else m_sigs (ps_model s1))
            (if memZ (-1) (i_consumers i) && negb (to_tensor info =? i_tensor i)
             then fix_sigs (m_sigs (ps_model s2)) (Z.of_nat k2) (i_tensor i) (to_tensor info)
             else m_sigs (ps_model s2))).
  { destruct (memZ (-1) (i_consumers i) && negb (to_tensor info =? i_tensor i)); [apply sigsR_fix|]; exact HS. }
  destruct (to_added info =? 0).
  - inversion H; subst s1' later1; clear H. eexists. split; [reflexivity|].
    constructor; cbn [ps_model ps_orig ps_added set_sg m_subgraphs m_opcodes m_buffers m_sigs].
    + exists g1', g2'. rewrite !Nat2Z.id. split; [apply nth_opt_set_nth_same; exact L1|].
      split; [apply nth_opt_set_nth_same; exact L2|exact HG'].
    + eauto.
    + eauto.
    + exact Lb'.
    + exact HS'.
  - inversion H; subst s1' later1; clear H. eexists. split; [reflexivity|].
    constructor; cbn [ps_model ps_orig ps_added set_sg m_subgraphs m_opcodes m_buffers m_sigs].
    + exists g1', g2'. rewrite !Nat2Z.id. split; [apply nth_opt_set_nth_same; exact L1|].
      split; [apply nth_opt_set_nth_same; exact L2|exact HG'].
    + rewrite !Nat2Z.id. eexists. split; apply nth_opt_set_nth_same; assumption.
    + rewrite !Nat2Z.id. eexists. split; apply nth_opt_set_nth_same; assumption.
    + exact Lb'.
    + exact HS'.
Qed.

(* the first state executes an instruction on ANOTHER subgraph *)
Theorem apply_single_frame k1 k2 s1 s2 sg i later s1' later' :
  sim k1 k2 s1 s2 -> 0 <= sg -> Z.to_nat sg <> k1 ->
  apply_single s1 sg i later = Ok (s1', later') -> sim k1 k2 s1' s2.
Proof.
  intros [(g1 & g2 & G1 & G2 & HG) (o & O1 & O2) (a & A1 & A2) Lb HS] Hsg Hne H.
  destruct (apply_single_local _ _ _ _ _ _ Hsg H) as (Hoth & _ & _ & Hpre).
  assert (Hk : k1 <> Z.to_nat sg) by congruence.
  destruct (Hoth k1 Hk) as (Eg & Eo & Ea).
  destruct (apply_single_tables _ _ _ _ _ _ Hsg H) as (om & am & g & _ & _ & _ & Hcase).
  assert (Hne' : sg <> Z.of_nat k1) by lia.
  assert (X : ext (m_opcodes (ps_model s1)) (m_opcodes (ps_model s1'))) by (apply ext_of_prefix; exact Hpre).
  constructor.
  - exists g1, g2. split; [rewrite Eg; exact G1|]. split; [exact G2|].
    eapply gR_mono; [exact X|apply ext_refl|exact HG].
  - exists o. split; [rewrite Eo; exact O1|exact O2].
  - exists a. split; [rewrite Ea; exact A1|exact A2].
  - destruct Hcase as [(bufs & g' & Hq & _ & Eb & _ & _)|(q & producer & cs & codes & bufs & g' & info & _ & _ & Hins & _ & Eb & _ & _)].
    + rewrite Eb. destruct (quantize_tensor_shape _ _ _ _ _ _ Hq) as (_ & _ & _ & _ & L). congruence.
    + rewrite Eb. destruct (insert_common_tables _ _ _ _ _ _ _ _ _ _ _ _ Hins) as [_ L]. congruence.
  - destruct Hcase as [(bufs & g' & _ & _ & _ & Es & _)|(q & producer & cs & codes & bufs & g' & info & _ & _ & _ & _ & _ & Es & _)].
    + rewrite Es. exact HS.
    + rewrite Es. destruct (memZ (-1) (i_consumers i) && negb (to_tensor info =? i_tensor i)); [|exact HS].
      unfold sigsR. rewrite filter_fix_sigs_other by exact Hne'. exact HS.
Qed.

(* ---------- lockstep over instruction lists and whole runs ---------- *)
Lemma apply_insts_sim k1 k2 : forall fuel is s1 s2 s1',
  sim k1 k2 s1 s2 -> apply_insts s1 (Z.of_nat k1) is fuel = Ok s1' ->
  exists s2', apply_insts s2 (Z.of_nat k2) is fuel = Ok s2' /\ sim k1 k2 s1' s2'.
Proof.
  induction fuel as [|f IH]; intros is s1 s2 s1' HS H.
  - destruct is as [|i later]; cbn in *; [|discriminate]. inversion H; subst. eauto.
  - destruct is as [|i later]; cbn [apply_insts] in *; [inversion H; subst; eauto|].
    destruct (is_insertion (i_trans i)).
    + destruct (apply_single s1 (Z.of_nat k1) i later) as [[t1 l1]|] eqn:E; cbn [bind fst snd] in H; [|discriminate].
      destruct (apply_single_sim _ _ _ _ _ _ _ _ HS E) as (t2 & E2 & HS2). rewrite E2. cbn [bind fst snd].
      eapply IH; eassumption.
    + destruct (qtrans_eqb (i_trans i) Tr_EMULATED_SUBCHANNEL); [discriminate|]. eapply IH; eassumption.
Qed.

Lemma apply_insts_frame k1 k2 sg : 0 <= sg -> Z.to_nat sg <> k1 -> forall fuel is s1 s2 s1',
  sim k1 k2 s1 s2 -> apply_insts s1 sg is fuel = Ok s1' -> sim k1 k2 s1' s2.
Proof.
  intros Hsg Hne. induction fuel as [|f IH]; intros is s1 s2 s1' HS H.
  - destruct is as [|i later]; cbn in *; [|discriminate]. inversion H; subst. exact HS.
  - destruct is as [|i later]; cbn [apply_insts] in *; [inversion H; subst; exact HS|].
    destruct (is_insertion (i_trans i)).
    + destruct (apply_single s1 sg i later) as [[t1 l1]|] eqn:E; cbn [bind fst snd] in H; [|discriminate].
      eapply IH; [|exact H]. eapply apply_single_frame; eassumption.
    + destruct (qtrans_eqb (i_trans i) Tr_EMULATED_SUBCHANNEL); [discriminate|]. eapply IH; eassumption.
Qed.

Definition run_step (st : pstate) (ti : tinsts) : res pstate :=
  apply_insts st (ti_sg ti) (ti_insts ti) (length (ti_insts ti)).
Definition own (k : nat) (ti : tinsts) : bool := Z.eqb (ti_sg ti) (Z.of_nat k).
Definition retarget (k2 : nat) (ti : tinsts) : tinsts :=
  {| ti_name := ti_name ti; ti_sg := Z.of_nat k2; ti_insts := ti_insts ti |}.

Theorem run_sim k1 k2 : forall tis s1 s2 s1',
  Forall (fun ti => 0 <= ti_sg ti) tis -> sim k1 k2 s1 s2 ->
  foldM run_step tis s1 = Ok s1' ->
  exists s2', foldM run_step (map (retarget k2) (filter (own k1) tis)) s2 = Ok s2' /\ sim k1 k2 s1' s2'.
Proof.
  induction tis as [|ti tis IH]; intros s1 s2 s1' Hnn HS H; cbn [foldM filter map] in *.
  - inversion H; subst. eauto.
  - inversion Hnn as [|? ? Hti Hnn']; subst.
    destruct (run_step s1 ti) as [t1|] eqn:E; cbn [bind] in H; [|discriminate].
    unfold own at 1. destruct (Z.eqb_spec (ti_sg ti) (Z.of_nat k1)) as [Eq|Ne].
    + unfold run_step in E. rewrite Eq in E.
      destruct (apply_insts_sim _ _ _ _ _ _ _ HS E) as (t2 & E2 & HS2).
      cbn [map foldM]. unfold run_step at 1. cbn [retarget ti_sg ti_insts]. rewrite E2. cbn [bind].
      eapply IH; eassumption.
    + eapply IH; [exact Hnn'| |exact H]. unfold run_step in E.
      eapply apply_insts_frame; [exact Hti| |exact HS|exact E]. lia.
Qed.

(* ---------- instance (a): the run that keeps only k's instructions ---------- *)
Lemma retarget_own k ti : own k ti = true -> retarget k ti = ti.
Proof. unfold own, retarget. intros H. apply Z.eqb_eq in H. destruct ti; cbn in *. subst. reflexivity. Qed.

Lemma map_retarget_own k tis : map (retarget k) (filter (own k) tis) = filter (own k) tis.
Proof.
  induction tis as [|ti tis IH]; cbn; [reflexivity|]. destruct (own k ti) eqn:E; [|exact IH].
  cbn. rewrite retarget_own by exact E. f_equal. exact IH.
Qed.

Definition codes_in_range (codes : list Z) (g : subgraph) : Prop :=
  Forall (fun o => 0 <= o_code o < lenZ codes) (sg_ops g).

Lemma gR_refl codes g : codes_in_range codes g -> gR codes codes g g.
Proof.
  intros H. repeat split; try reflexivity. induction H as [|o l Ho HF IH]; constructor; [|exact IH].
  repeat split; try reflexivity.
  unfold nthZ. destruct (Z.ltb_spec (o_code o) 0); [lia|].
  destruct (nth_opt_lt_Some codes (Z.to_nat (o_code o))) as [c Hc]; [unfold lenZ in Ho; lia|]. eauto.
Qed.

Lemma sigsR_refl k sigs : sigsR k k sigs sigs.
Proof. unfold sigsR. induction (filter (sig_of k) sigs); constructor; [split; reflexivity|assumption]. Qed.

Lemma nth_opt_map {A B} (f : A -> B) : forall l k, nth_opt (map f l) k = option_map f (nth_opt l k).
Proof. induction l as [|x l IH]; intros [|k]; cbn; auto. Qed.

Lemma init_sim_same m k g :
  nth_opt (m_subgraphs m) k = Some g -> codes_in_range (m_opcodes m) g ->
  sim k k (init_pstate m) (init_pstate m).
Proof.
  intros Hg Hc. constructor; cbn [init_pstate ps_model ps_orig ps_added].
  - exists g, g. split; [exact Hg|]. split; [exact Hg|apply gR_refl; exact Hc].
  - eexists. rewrite nth_opt_map, Hg. cbn. split; reflexivity.
  - eexists. rewrite nth_opt_map, Hg. cbn. split; reflexivity.
  - reflexivity.
  - apply sigsR_refl.
Qed.

(* what the relation says about the results, spelled out *)
Definition same_subgraph_result (k1 k2 : nat) (m1 m2 : model) : Prop :=
  exists g1 g2, nth_opt (m_subgraphs m1) k1 = Some g1 /\ nth_opt (m_subgraphs m2) k2 = Some g2 /\
    gR (m_opcodes m1) (m_opcodes m2) g1 g2 /\
    sigsR (Z.of_nat k1) (Z.of_nat k2) (m_sigs m1) (m_sigs m2).

Theorem transform_graph_own_instructions m tis m1 k g :
  nth_opt (m_subgraphs m) k = Some g -> codes_in_range (m_opcodes m) g ->
  Forall (fun ti => 0 <= ti_sg ti) tis ->
  transform_graph m tis = Ok m1 ->
  exists m2, transform_graph m (filter (own k) tis) = Ok m2 /\ same_subgraph_result k k m1 m2.
Proof.
  intros Hg Hc Hnn H. unfold transform_graph in *.
  match type of H with bind ?x _ = _ => destruct x as [s1|] eqn:E end; cbn [bind] in H; [|discriminate].
  inversion H; subst m1; clear H.
  destruct (run_sim k k _ _ _ _ Hnn (init_sim_same _ _ _ Hg Hc) E) as (s2 & E2 & [(g1 & g2 & G1 & G2 & HG) _ _ _ HS]).
  rewrite map_retarget_own in E2. unfold run_step in E2. rewrite E2. cbn [bind].
  eexists. split; [reflexivity|]. exists g1, g2. auto.
Qed.

(* ---------- instance (b): the model that consists of subgraph k alone ---------- *)
Definition alone (m : model) (k : nat) (g : subgraph) : model :=
  {| m_subgraphs := [g]; m_buffers := m_buffers m; m_opcodes := m_opcodes m;
     m_sigs := map (fun s => {| sd_sg := 0; sd_inputs := sd_inputs s; sd_outputs := sd_outputs s |})
                   (filter (sig_of (Z.of_nat k)) (m_sigs m)) |}.

Lemma init_sim_alone m k g :
  nth_opt (m_subgraphs m) k = Some g -> codes_in_range (m_opcodes m) g ->
  sim k 0 (init_pstate m) (init_pstate (alone m k g)).
Proof.
  intros Hg Hc. constructor; cbn [init_pstate ps_model ps_orig ps_added alone m_subgraphs m_buffers m_opcodes m_sigs].
  - exists g, g. split; [exact Hg|]. split; [reflexivity|apply gR_refl; exact Hc].
  - eexists. rewrite nth_opt_map, Hg. cbn. split; reflexivity.
  - eexists. rewrite nth_opt_map, Hg. cbn. split; reflexivity.
  - reflexivity.
  - unfold sigsR. cbn [Z.of_nat]. generalize (filter (sig_of (Z.of_nat k)) (m_sigs m)).
    induction l as [|s l IH]; cbn; [constructor|]. constructor; [split; reflexivity|exact IH].
Qed.

Theorem transform_graph_alone m tis m1 k g :
  nth_opt (m_subgraphs m) k = Some g -> codes_in_range (m_opcodes m) g ->
  Forall (fun ti => 0 <= ti_sg ti) tis ->
  transform_graph m tis = Ok m1 ->
  exists m2, transform_graph (alone m k g) (map (retarget 0) (filter (own k) tis)) = Ok m2 /\
             same_subgraph_result k 0 m1 m2.
Proof.
  intros Hg Hc Hnn H. unfold transform_graph in *.
  match type of H with bind ?x _ = _ => destruct x as [s1|] eqn:E end; cbn [bind] in H; [|discriminate].
  inversion H; subst m1; clear H.
  destruct (run_sim k 0 _ _ _ _ Hnn (init_sim_alone _ _ _ Hg Hc) E) as (s2 & E2 & [(g1 & g2 & G1 & G2 & HG) _ _ _ HS]).
  unfold run_step in E2. rewrite E2. cbn [bind].
  eexists. split; [reflexivity|]. exists g1, g2. auto.
Qed.
