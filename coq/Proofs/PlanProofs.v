(* Proofs/PlanProofs.v — lemmas behind C04 (op-level parameter rules) on the
   plan model: where each tensor's parameter TERM comes from. *)
From VF Require Import Base.Prelude Gen.Enums Gen.Configs Gen.Policy Gen.Registry Gen.Checks
     Gen.MatDesc Gen.InstChecks Gen.Scopes Model.Recipe Model.Check Model.Graph
     Model.Plan Proofs.ListFacts Proofs.ModeProofs.

Section PlanTerms.
  Variable matches : Z -> Z -> bool.
  Variable rules : state.
  Variable bufs : list bufval.

  Notation wrapper := (wrapper bufs).
  Notation standard_core := (standard_core bufs).
  Notation bias_step := (bias_step bufs).
  Notation fixed_output := (fixed_output bufs).
  Notation is_const := (is_const bufs).

  (* the single entry of a plan produced for one operand *)
  Definition plan_entry (p : tplan) (inbound : bool) : option e2t :=
    if inbound then match tp_consumers p with Some [e] => Some e | _ => None end
    else tp_producer p.

  Lemma entry_plan_entry t inbound e : plan_entry (entry_plan t inbound e) inbound = Some e.
  Proof. unfold plan_entry, entry_plan. destruct inbound; reflexivity. Qed.

  Lemma first_param_entry t inbound e :
    first_param (entry_plan t inbound e) inbound = Ok (e_params e).
  Proof. unfold first_param, entry_plan. destruct inbound; reflexivity. Qed.

  (* wrapper: the parameters handed in are attached unchanged *)
  Lemma wrapper_given s o opid adjy c t inbound p pl :
    wrapper s o opid adjy c t inbound (Some p) = Ok pl ->
    exists e, pl = entry_plan t inbound e /\ e_op e = opid /\ e_params e = Some p.
  Proof.
    unfold Plan.wrapper. cbn [bind].
    unfold mk_entry; destruct (get_tensor_transformations c inbound (is_const t)); cbn [bind];
      try discriminate; intros H; inversion H; eexists; repeat split; reflexivity.
  Qed.

  (* wrapper without given parameters: a MinMax term of the tensor's own
     statistics (or of its own data for a constant without entry), under the
     WEIGHT config for a constant operand of a weight op and under the
     ACTIVATION config otherwise *)
  Definition chosen_cfg (o : opname) (c : ocfg) (t : tensor) : option tcfg :=
    if is_const t && in_ops o weight_ops then ocfg_weight_tensor_config c
    else ocfg_activation_tensor_config c.

  Lemma wrapper_fresh s o opid adjy c t inbound pl :
    wrapper s o opid adjy c t inbound None = Ok pl ->
    exists e, pl = entry_plan t inbound e /\ e_op e = opid /\
      match chosen_cfg o c t with
      | None => e_params e = None
      | Some tc =>
          exists v qd,
            e_params e = Some (PMinMax v (tcfg_num_bits tc) (tcfg_symmetric tc) qd
                                       (if is_const t then Some (tcid t) else None)) /\
            param_qdim o tc t (is_const t) adjy = Ok qd /\
            (store_get s (tname t) = Some v \/
             (store_get s (tname t) = None /\ is_const t = true /\
              v = VConst (tcid t) (init_qdim o c t adjy)))
      end.
  Proof.
    unfold Plan.wrapper, chosen_cfg.
    destruct (if is_const t && in_ops o weight_ops then ocfg_weight_tensor_config c
              else ocfg_activation_tensor_config c) as [tc|].
    - destruct (is_blockwise c && is_const t); cbn [bind]; [discriminate|].
      destruct (store_get s (tname t)) as [v|] eqn:Es; cbn [bind].
      + destruct (param_qdim o tc t (is_const t) adjy) as [qd|] eqn:Eq; cbn [bind]; [|discriminate].
        unfold mk_entry. destruct (get_tensor_transformations c inbound (is_const t)); cbn [bind]; [|discriminate].
        intros H; inversion H. eexists. split; [reflexivity|]. split; [reflexivity|].
        exists v, qd. cbn. auto.
      + destruct (is_const t) eqn:Ec; cbn [bind]; [|discriminate].
        destruct (param_qdim o tc t true adjy) as [qd|] eqn:Eq; cbn [bind]; [|discriminate].
        unfold mk_entry. destruct (get_tensor_transformations c inbound true); cbn [bind]; [|discriminate].
        intros H; inversion H. eexists. split; [reflexivity|]. split; [reflexivity|].
        exists (VConst (tcid t) (init_qdim o c t adjy)), qd. cbn. auto 10.
    - cbn [bind]. unfold mk_entry.
      destruct (get_tensor_transformations c inbound (is_const t)); cbn [bind]; [|discriminate].
      intros H; inversion H. eexists. repeat split; reflexivity.
  Qed.

  (* the "statistics are required" error of the wrapper: only for a runtime
     tensor without an entry in the store *)
  Lemma wrapper_error s o opid adjy c t inbound e :
    wrapper s o opid adjy c t inbound None = Err e ->
    (store_get s (tname t) = None /\ is_const t = false /\ e = ValueError) \/
    (is_blockwise c && is_const t = true /\ e = OtherError) \/
    (exists tc, chosen_cfg o c t = Some tc /\ param_qdim o tc t (is_const t) adjy = Err e) \/
    (exists const, get_tensor_transformations c inbound const = Err e).
  Proof.
    unfold Plan.wrapper, chosen_cfg.
    destruct (if is_const t && in_ops o weight_ops then ocfg_weight_tensor_config c
              else ocfg_activation_tensor_config c) as [tc|].
    - destruct (is_blockwise c && is_const t) eqn:Eb; cbn [bind]; [intros H; inversion H; right; left; auto|].
      destruct (store_get s (tname t)) as [v|] eqn:Es; cbn [bind].
      + destruct (param_qdim o tc t (is_const t) adjy) as [qd|] eqn:Eq; cbn [bind].
        * unfold mk_entry. destruct (get_tensor_transformations c inbound (is_const t)) eqn:Et; cbn [bind]; [discriminate|].
          intros H; inversion H; subst. right; right; right. eexists. exact Et.
        * intros H; inversion H; subst. right; right; left. exists tc. auto.
      + destruct (is_const t) eqn:Ec; cbn [bind].
        * destruct (param_qdim o tc t true adjy) as [qd|] eqn:Eq; cbn [bind].
          -- unfold mk_entry. destruct (get_tensor_transformations c inbound true) eqn:Et; cbn [bind]; [discriminate|].
             intros H; inversion H; subst. right; right; right. eexists. exact Et.
          -- intros H; inversion H; subst. right; right; left. exists tc. auto.
        * intros H; inversion H; subst. left. auto.
    - cbn [bind]. unfold mk_entry.
      destruct (get_tensor_transformations c inbound (is_const t)) eqn:Et; cbn [bind]; [discriminate|].
      intros H; inversion H; subst. right; right; right. eexists. exact Et.
  Qed.

  (* per-channel parameters: only under a CHANNELWISE tensor config, and then
     on the op's own weight dimension (table / batch-matmul rule) *)
  Lemma param_qdim_channel o tc t const adjy d :
    param_qdim o tc t const adjy = Ok (QdDim d) ->
    granularity_eqb (tcfg_granularity tc) Gr_CHANNELWISE = true /\
    ((opname_eqb o Op_BATCH_MATMUL = true /\ const = true /\ d = bmm_qdim (t_rank t) adjy) \/
     (opname_eqb o Op_BATCH_MATMUL = false /\ qdim_lookup o = Some d)).
  Proof.
    unfold param_qdim. destruct (granularity_eqb (tcfg_granularity tc) Gr_CHANNELWISE); [|discriminate].
    intros E. split; [reflexivity|]. revert E. destruct (opname_eqb o Op_BATCH_MATMUL).
    - destruct const; [|discriminate]. intros E; inversion E. left. auto.
    - destruct (qdim_lookup o); [|discriminate]. intros E; inversion E. right. auto.
  Qed.

  (* ---- same-as-input / same-as-output ---- *)
  Lemma mapM_In {A B} (f : A -> res B) : forall l r b,
    mapM f l = Ok r -> In b r -> exists a, In a l /\ f a = Ok b.
  Proof.
    induction l as [|a l IH]; cbn; intros r b H Hin.
    - inversion H; subst. destruct Hin.
    - destruct (f a) as [b0|] eqn:E; cbn [bind] in H; [|discriminate].
      destruct (mapM f l) as [bs|] eqn:E2; cbn [bind] in H; [|discriminate].
      inversion H; subst. destruct Hin as [<-|Hin].
      + exists a. split; [left; reflexivity|assumption].
      + destruct (IH _ _ eq_refl Hin) as (a' & Ha & Hf). exists a'. split; [right; assumption|assumption].
  Qed.

  Lemma same_as_input_shares s ts o op c act_in act_out pi po s' :
    (act_in <> [] \/ act_out <> []) ->
    standard_core s ts o op c SameAsInput act_in act_out = Ok (pi, po, s') ->
    exists x tx pin qp,
      act_in = [x] /\ get_t ts x = Ok tx /\ pi = [pin] /\ first_param pin true = Ok qp /\
      (forall p q, In p po -> qp = Some q ->
         exists e, tp_producer p = Some e /\ e_params e = Some q) /\
      (* the results inherit the operand's statistics entry *)
      exists v, store_get s (tname tx) = Some v.
  Proof.
    intros Hne H. unfold Plan.standard_core in H.
    destruct act_in as [|x [|x2 r]].
    - destruct act_out; [destruct Hne; congruence|discriminate].
    - assert (H' : (pi0 <- (t <- get_t ts x ;; wrapper s o (po_id op) (po_adjy op) c t true None) ;;
                    qp <- first_param pi0 true ;;
                    po0 <- mapM (fun y => t <- get_t ts y ;; wrapper s o (po_id op) (po_adjy op) c t false qp) act_out ;;
                    ti <- get_t ts x ;;
                    v <- match store_get s (tname ti) with Some v => Ok v | None => Err KeyError end ;;
                    s0 <- foldM (fun s y => ty <- get_t ts y ;; Ok (store_set s (tname ty) v)) act_out s ;;
                    Ok ([pi0], po0, s0)) = Ok (pi, po, s')).
      { destruct act_out; exact H. }
      clear H. rename H' into H.
      destruct (get_t ts x) as [tx|] eqn:Ex; cbn [bind] in H; [|discriminate].
      destruct (wrapper s o (po_id op) (po_adjy op) c tx true None) as [pin|] eqn:Ew; cbn [bind] in H; [|discriminate].
      destruct (first_param pin true) as [qp|] eqn:Ef; cbn [bind] in H; [|discriminate].
      match type of H with bind ?m _ = _ => destruct m as [po0|] eqn:Em end; cbn [bind] in H; [|discriminate].
      destruct (store_get s (tname tx)) as [v|] eqn:Es; cbn [bind] in H; [|discriminate].
      match type of H with bind ?m _ = _ => destruct m as [s0|] eqn:Efo end; cbn [bind] in H; [|discriminate].
      inversion H; subst pi po s'; clear H.
      exists x, tx, pin, qp. repeat split; try reflexivity; try assumption.
      + intros p q Hin ->. destruct (mapM_In _ _ _ _ Em Hin) as (y & _ & Hy). cbn beta in Hy.
        destruct (get_t ts y) as [ty|]; cbn [bind] in Hy; [|discriminate].
        destruct (wrapper_given _ _ _ _ _ _ _ _ _ Hy) as (e & -> & _ & Hp).
        exists e. split; [reflexivity|assumption].
      + exists v. exact Es.
    - destruct act_out; discriminate.
  Qed.

  Lemma same_as_output_shares s ts o op c act_in act_out pi po s' :
    (act_in <> [] \/ act_out <> []) ->
    standard_core s ts o op c SameAsOutput act_in act_out = Ok (pi, po, s') ->
    exists y pout qp,
      act_out = [y] /\ po = [pout] /\ first_param pout false = Ok qp /\ s' = s /\
      forall p q, In p pi -> qp = Some q ->
        exists e, tp_consumers p = Some [e] /\ e_params e = Some q.
  Proof.
    intros Hne H. unfold Plan.standard_core in H.
    assert (H' : match act_out with
                 | [y] =>
                     po0 <- (t <- get_t ts y ;; wrapper s o (po_id op) (po_adjy op) c t false None) ;;
                     qp <- first_param po0 false ;;
                     pi0 <- mapM (fun x => t <- get_t ts x ;; wrapper s o (po_id op) (po_adjy op) c t true qp) act_in ;;
                     Ok (pi0, [po0], s)
                 | _ => Err ValueError
                 end = Ok (pi, po, s')).
    { destruct act_in; [destruct act_out; [destruct Hne; congruence|exact H]|exact H]. }
    clear H. rename H' into H.
    destruct act_out as [|y [|y2 r]]; try discriminate.
    destruct (get_t ts y) as [ty|] eqn:Ey; cbn [bind] in H; [|discriminate].
    destruct (wrapper s o (po_id op) (po_adjy op) c ty false None) as [pout|] eqn:Ew; cbn [bind] in H; [|discriminate].
    destruct (first_param pout false) as [qp|] eqn:Ef; cbn [bind] in H; [|discriminate].
    match type of H with bind ?m _ = _ => destruct m as [pi0|] eqn:Em end; cbn [bind] in H; [|discriminate].
    inversion H; subst pi po s'; clear H.
    exists y, pout, qp. repeat split; try reflexivity; try assumption.
    intros p q Hin ->. destruct (mapM_In _ _ _ _ Em Hin) as (x & _ & Hx). cbn beta in Hx.
    destruct (get_t ts x) as [tx|]; cbn [bind] in Hx; [|discriminate].
    destruct (wrapper_given _ _ _ _ _ _ _ _ _ Hx) as (e & -> & _ & Hp).
    exists e. split; [reflexivity|assumption].
  Qed.

  (* ---- bias ---- *)
  Lemma bias_step_term ts op c ps ii wi bi ps' :
    bias_step ts op c ps ii wi bi = Ok ps' ->
    is_srq c = true ->
    forall bx, nthZ (po_ins op) bi = Some bx -> bx <> -1 -> 0 <= bi ->
    exists pin pw a w bt e,
      py_index ps ii = Ok pin /\ py_index ps wi = Ok pw /\
      first_param pin true = Ok (Some a) /\ first_param pw true = Ok (Some w) /\
      get_t ts bx = Ok bt /\ is_const bt = true /\
      nth_opt ps' (Z.to_nat bi) = Some (entry_plan bt true e) /\
      e_params e = Some (PBias a w (tcid bt)) /\
      length ps' = length ps.
  Proof.
    intros H Hsrq bx Hbx Hne Hbi. unfold Plan.bias_step in H.
    destruct (py_index (po_ins op) ii) as [zi|]; cbn [bind] in H; [|discriminate].
    destruct (py_index (po_ins op) wi) as [zw|]; cbn [bind] in H; [|discriminate].
    destruct (py_index (po_outs op) 0) as [zo|]; cbn [bind] in H; [|discriminate].
    rewrite Hbx in H.
    assert (Hlt : bi <? lenZ (po_ins op) = true).
    { unfold nthZ in Hbx. destruct (Z.ltb_spec bi 0); [discriminate|].
      apply nth_opt_Some_lt in Hbx. unfold lenZ. apply Z.ltb_lt. lia. }
    rewrite Hlt in H. cbn [andb] in H.
    destruct (Z.eqb_spec bx (-1)); [contradiction|]. cbn [negb] in H.
    assert (Hpi : py_index (po_ins op) bi = Ok bx).
    { unfold py_index. unfold nthZ in Hbx. destruct (Z.ltb_spec bi 0); [lia|].
      apply Z.ltb_lt in Hlt. unfold lenZ in Hlt.
      destruct (Z.ltb_spec bi 0); [lia|]. cbn [orb].
      destruct (Z.leb_spec (Z.of_nat (length (po_ins op))) bi); [lia|]. rewrite Hbx. reflexivity. }
    rewrite Hpi in H. cbn [bind] in H.
    destruct (get_t ts bx) as [bt|] eqn:Ebt; cbn [bind] in H; [|discriminate].
    rewrite Hsrq in H.
    destruct (py_index ps ii) as [pin|] eqn:E1; cbn [bind] in H; [|discriminate].
    destruct (py_index ps wi) as [pw|] eqn:E2; cbn [bind] in H; [|discriminate].
    destruct (first_param pin true) as [oa|] eqn:E3; cbn [bind] in H; [|discriminate].
    destruct (first_param pw true) as [ow|] eqn:E4; cbn [bind] in H; [|discriminate].
    destruct oa as [a1|]; cbn [bind unopt] in H; [|discriminate].
    destruct ow as [w1|]; cbn [bind unopt] in H; [|discriminate].
    destruct (is_const bt) eqn:Ec; cbn [negb bind] in H; [|discriminate].
    unfold mk_entry in H.
    destruct (get_tensor_transformations c true true) as [tr|]; cbn [bind] in H; [|discriminate].
    unfold list_assign in H.
    destruct (py_index ps bi) as [old|] eqn:E5; cbn [bind] in H; [|discriminate].
    inversion H; subst ps'; clear H.
    destruct (py_index_nonneg _ _ _ Hbi E5) as [Hn5 Hl5].
    replace (if bi <? 0 then bi + lenZ ps else bi) with bi by (destruct (Z.ltb_spec bi 0); [lia|reflexivity]).
    exists pin, pw, a1, w1, bt,
      {| e_op := po_id op; e_trans := tr; e_params := Some (PBias a1 w1 (tcid bt)) |}.
    split; [reflexivity|]. split; [reflexivity|]. split; [assumption|]. split; [assumption|].
    split; [reflexivity|]. split; [exact Ec|].
    split; [rewrite nth_opt_set_nth_any, Nat.eqb_refl, Hn5; reflexivity|].
    split; [reflexivity|apply length_set_nth].
  Qed.

  (* ---- fixed output range ---- *)
  Lemma fixed_output_term s ts o op c kind ps s' a :
    fixed_output s ts o op c kind = Ok (ps, s') ->
    ocfg_activation_tensor_config c = Some a ->
    forall lastp, last (map Some ps) None = Some lastp ->
    forall e, tp_producer lastp = Some e ->
      e_params e = Some (PFixed kind (tcfg_num_bits a)) /\
      (tcfg_num_bits a = 8 \/ tcfg_num_bits a = 16) /\
      store_get s' (tp_name lastp) = Some (VFixed kind (tcfg_num_bits a) (tcfg_symmetric a)).
  Proof.
    intros H Ha. unfold Plan.fixed_output in H.
    destruct (negb (lenZ (po_outs op) =? 1)); [discriminate|].
    destruct (Plan.standard_op bufs s ts o op c NoConstrain [] []) as [[ps0 s1]|]; cbn [bind] in H; [|discriminate].
    destruct (rev ps0) as [|lp front] eqn:Er; [discriminate|].
    rewrite Ha in H.
    destruct (tp_producer lp) as [e0|] eqn:Ep.
    2:{ (* no producer entry on the last plan: nothing is overridden *)
        inversion H; subst ps s'; clear H. intros lastp Hl e He.
        assert (lastp = lp).
        { assert (Hps : ps0 = rev front ++ [lp]) by (rewrite <- (rev_involutive ps0), Er; reflexivity).
          rewrite Hps, map_app in Hl; cbn [map] in Hl; rewrite last_last in Hl. inversion Hl. reflexivity. }
        subst. congruence. }
    destruct (negb ((tcfg_num_bits a =? 8) || (tcfg_num_bits a =? 16))) eqn:Eb; [discriminate|].
    destruct (store_get s1 (tp_name lp)) eqn:Es; [|discriminate].
    inversion H; subst ps s'; clear H.
    intros lastp Hl e He. rewrite map_app in Hl; cbn [map] in Hl; rewrite last_last in Hl. inversion Hl; subst lastp; clear Hl.
    cbn in He. inversion He; subst e; clear He. cbn.
    split; [reflexivity|]. split.
    - apply Bool.negb_false_iff, Bool.orb_true_iff in Eb. destruct Eb as [E|E]; apply Z.eqb_eq in E; auto.
    - clear. induction s1 as [|[k w] r IH]; cbn.
      + unfold name_eqb2. rewrite Z.eqb_refl. cbn.
        assert (forall l, list_eqb Z.eqb l l = true) as Hl.
        { induction l; cbn; [reflexivity|]. rewrite Z.eqb_refl. assumption. }
        rewrite Hl. reflexivity.
      + destruct (name_eqb2 k (tp_name lp)) eqn:E; cbn; rewrite E; [reflexivity|exact IH].
  Qed.
End PlanTerms.

(* activation configs of the default policy are never per-channel: per-channel
   parameters can therefore only come from a WEIGHT config, which is chosen
   only for a constant operand of a weight op *)
Lemma policy_activation_tensorwise :
  forallb (fun c => match ocfg_activation_tensor_config c with
                    | Some a => granularity_eqb (tcfg_granularity a) Gr_TENSORWISE
                    | None => true end) (flat_map snd DEFAULT_CONFIG_CHECK_POLICY) = true.
Proof. vm_compute. reflexivity. Qed.
