(* Proofs/SkeletonInv.v — C02 composition: the performer preserves the graph
   SKELETON.  Relative to the original subgraph g0, the current subgraph g
   with original-op map om satisfies [skel g0 g om]: the op at position om[i]
   is original op i (same code index, options, results, and every operand
   DERIVES from the original operand through inserted ops only); every other
   op is an inserted one-in/one-out op writing a new tensor; original tensors
   keep name and shape; graph inputs are unchanged and graph outputs derive
   from the original outputs. *)
From Coq Require Import Sorted.
From VF Require Import Base.Prelude Gen.Enums Model.Graph Gen.InstChecks Model.Perform Spec.WF
     Proofs.ListFacts Proofs.PerformStep Proofs.ModeProofs Proofs.LocalProofs Proofs.PerformInv.

(* x is obtained from the original tensor x0 by a chain of inserted ops *)
Inductive derived (g : subgraph) : Z -> Z -> Prop :=
| d_refl x : derived g x x
| d_step x y x0 k o :
    op_at g k o -> o_uid o = UID_INSERTED -> o_ins o = [y] -> o_outs o = [x] ->
    derived g y x0 -> derived g x x0.

Definition inserted_op (n0 : Z) (o : op) : Prop :=
  o_uid o = UID_INSERTED /\ exists y x, o_ins o = [y] /\ o_outs o = [x] /\ n0 <= x.

Definition same_meta (t t0 : tensor) : Prop :=
  t_root t = t_root t0 /\ t_sfx t = t_sfx t0 /\ t_shape t = t_shape t0.

Record skel (g0 g : subgraph) (om : list Z) : Prop := {
  sk_len : length om = length (sg_ops g0);
  sk_orig : forall i o0 p, nth_opt (sg_ops g0) i = Some o0 -> nth_opt om i = Some p ->
      0 <= p /\ exists o, op_at g (Z.to_nat p) o /\
        o_code o = o_code o0 /\ o_uid o = o_uid o0 /\ o_outs o = o_outs o0 /\
        Forall2 (derived g) (o_ins o) (o_ins o0);
  sk_other : forall k o, op_at g k o -> In (Z.of_nat k) om \/ inserted_op (ntens g0) o;
  sk_tensors : ntens g0 <= ntens g /\
      forall k t0, tensor_at g0 k = Some t0 -> exists t, tensor_at g k = Some t /\ same_meta t t0;
  sk_inputs : sg_inputs g = sg_inputs g0;
  sk_outputs : Forall2 (derived g) (sg_outputs g) (sg_outputs g0) }.

Lemma Forall2_refl {A} (R : A -> A -> Prop) (l : list A) : (forall x, R x x) -> Forall2 R l l.
Proof. intros H. induction l; constructor; auto. Qed.

Lemma Forall2_impl {A B} (R R' : A -> B -> Prop) l l' :
  (forall a b, R a b -> R' a b) -> Forall2 R l l' -> Forall2 R' l l'.
Proof. intros H F. induction F; constructor; auto. Qed.

Lemma Forall2_map_l {A B C} (R : B -> C -> Prop) (f : A -> B) l l' :
  Forall2 (fun a c => R (f a) c) l l' -> Forall2 R (map f l) l'.
Proof. intros F. induction F; cbn; constructor; auto. Qed.

(* the identity skeleton *)
Lemma skel_init g0 :
  Forall (fun o => o_uid o <> UID_INSERTED) (sg_ops g0) ->
  skel g0 g0 (map fst (enumerate (sg_ops g0))).
Proof.
  intros _. constructor.
  - unfold enumerate. apply length_iota.
  - intros i o0 p Ho Hp. pose proof (nth_opt_Some_lt _ _ _ Ho) as Hl.
    unfold enumerate in Hp. rewrite nth_opt_iota in Hp by exact Hl. inversion Hp; subst p.
    split; [lia|]. exists o0. rewrite Nat2Z.id. split; [exact Ho|].
    repeat split; try reflexivity. apply Forall2_refl. constructor.
  - intros k o Hk. left. pose proof (nth_opt_Some_lt _ _ _ Hk) as Hl.
    eapply nth_opt_In. unfold enumerate. rewrite nth_opt_iota by exact Hl. reflexivity.
  - split; [lia|]. intros k t0 H. exists t0. split; [exact H|repeat split; reflexivity].
  - reflexivity.
  - apply Forall2_refl. constructor.
Qed.

(* ---------------- tensor names / shapes ---------------- *)
Lemma same_meta_refl t : same_meta t t.
Proof. repeat split. Qed.
Lemma same_meta_trans a b c : same_meta a b -> same_meta b c -> same_meta a c.
Proof. intros (A1 & A2 & A3) (B1 & B2 & B3). repeat split; congruence. Qed.

Lemma quantize_tensor_meta bufs g tid ps bufs' g' :
  0 <= tid -> quantize_tensor bufs g tid ps = Ok (bufs', g') ->
  forall k t, tensor_at g k = Some t -> exists t', tensor_at g' k = Some t' /\ same_meta t' t.
Proof.
  intros Ht H k t Hk. unfold quantize_tensor in H.
  destruct (get_tensor g tid) as [t0|] eqn:Et; cbn [bind] in H; [|discriminate].
  unfold get_tensor in Et. destruct (py_index_nonneg _ _ _ Ht Et) as [Hn Hlt].
  replace (if tid <? 0 then tid + lenZ (sg_tensors g) else tid) with tid in H
    by (destruct (Z.ltb_spec tid 0); [lia|reflexivity]).
  destruct ps as [p|].
  - match type of H with bind ?m _ = _ => destruct m as [b2|] end; cbn [bind] in H; [|discriminate].
    match type of H with bind ?m _ = _ => destruct m as [t2|] eqn:Et2 end; cbn [bind] in H; [|discriminate].
    inversion H; subst bufs' g'; clear H.
    assert (M2 : same_meta t2 t0).
    { destruct (qp_uniform p).
      - destruct (quant_params_to_tflite_type (qp_bits p)); cbn [bind] in Et2; [|discriminate].
        inversion Et2; subst. repeat split.
      - destruct (nonlinear_quant_params_to_tflite_type (qp_bits p)); cbn [bind] in Et2; [|discriminate].
        inversion Et2; subst. repeat split. }
    unfold tensor_at, nthZ, set_tensor in *. cbn [sg_tensors].
    destruct (Z.ltb_spec k 0); [discriminate|]. rewrite nth_opt_set_nth_any.
    destruct (Nat.eqb_spec (Z.to_nat k) (Z.to_nat tid)) as [E|E].
    + rewrite Hk. exists t2. split; [reflexivity|]. rewrite E in Hk. rewrite Hn in Hk. inversion Hk; subst. exact M2.
    + exists t. split; [exact Hk|apply same_meta_refl].
  - destruct (negb (t_buf t0 =? 0)); [discriminate|]. inversion H; subst. exists t. split; [exact Hk|apply same_meta_refl].
Qed.

Lemma insert_common_meta is_quant codes bufs g tid producer cs ps codes' bufs' g' info :
  0 <= tid ->
  insert_common is_quant codes bufs g tid producer cs ps = Ok (codes', bufs', g', info) ->
  forall k t, tensor_at g k = Some t -> exists t', tensor_at g' k = Some t' /\ same_meta t' t.
Proof.
  intros Ht Hrun k t Hk. unfold insert_common in Hrun.
  destruct (add_op_code (if is_quant then BC_QUANTIZE else BC_DEQUANTIZE) codes) as [cidx cds].
  destruct (get_tensor g tid) as [t0|] eqn:E; cbn [bind] in Hrun; [|discriminate].
  match type of Hrun with bind ?m _ = _ => destruct m as [[bufs2 g2]|] eqn:E0 end;
    cbn [bind] in Hrun; [|discriminate].
  destruct (py_min cs) as [z|]; cbn [bind] in Hrun; [|discriminate].
  match type of Hrun with bind ?m _ = _ => destruct m as [l|] end; cbn [bind] in Hrun; [|discriminate].
  destruct (Z.max (producer + 1) z <? 0); [discriminate|].
  inversion Hrun; subst; clear Hrun.
  change (tensor_at {| sg_tensors := sg_tensors g2; sg_ops := _; sg_inputs := _; sg_outputs := _ |} k)
    with (tensor_at g2 k).
  match type of E0 with quantize_tensor _ ?G ?T _ = _ => set (g1 := G) in *; set (tq := T) in * end.
  assert (Hk1 : tensor_at g1 k = Some t).
  { unfold tensor_at, g1. cbn [sg_tensors]. rewrite nthZ_app_l; [exact Hk|].
    unfold tensor_at, nthZ in Hk. destruct (Z.ltb_spec k 0); [discriminate|].
    apply nth_opt_Some_lt in Hk. unfold lenZ. lia. }
  assert (Htq : 0 <= tq) by (unfold tq; destruct is_quant; unfold lenZ; lia).
  exact (quantize_tensor_meta _ _ _ _ _ _ Htq E0 k t Hk1).
Qed.

(* ---------------- one step ---------------- *)
Lemma derived_same_ops g g' x x0 : sg_ops g' = sg_ops g -> derived g x x0 -> derived g' x x0.
Proof.
  intros E H. induction H as [|x y x0 k o Hk Hu Hi Ho _ IH]; [constructor|].
  eapply (d_step g' x y x0 k o); [unfold op_at in *; rewrite E; exact Hk|exact Hu|exact Hi|exact Ho|exact IH].
Qed.

Lemma skel_quantize g0 g om bufs tid ps bufs' g' :
  0 <= tid -> skel g0 g om -> quantize_tensor bufs g tid ps = Ok (bufs', g') -> skel g0 g' om.
Proof.
  intros Ht [L O X T I U] H.
  destruct (quantize_tensor_shape _ _ _ _ _ _ H) as (Hops & Hin & Hout & Hnt & _).
  constructor.
  - exact L.
  - intros i o0 p H1 H2. destruct (O _ _ _ H1 H2) as (Hp & o & Ho & A & B & C & D).
    split; [exact Hp|]. exists o. unfold op_at in *. rewrite Hops. repeat split; try assumption.
    eapply Forall2_impl; [|exact D]. intros a b. apply derived_same_ops. exact Hops.
  - intros k o Hk. unfold op_at in Hk. rewrite Hops in Hk. apply X in Hk. exact Hk.
  - destruct T as [T1 T2]. split; [lia|]. intros k t0 Hk. destruct (T2 _ _ Hk) as (t & Ht1 & M).
    destruct (quantize_tensor_meta _ _ _ _ _ _ Ht H _ _ Ht1) as (t' & Ht' & M'). exists t'. split; [exact Ht'|].
    eapply same_meta_trans; eassumption.
  - congruence.
  - rewrite Hout. eapply Forall2_impl; [|exact U]. intros a b. apply derived_same_ops. exact Hops.
Qed.

Lemma in_om_original g0 g om k o :
  skel g0 g om -> Forall (fun o => o_uid o <> UID_INSERTED) (sg_ops g0) ->
  In (Z.of_nat k) om -> op_at g k o -> o_uid o <> UID_INSERTED.
Proof.
  intros [L O _ _ _ _] Horig Hin Hk. destruct (In_nth_opt _ _ Hin) as [i Hi].
  pose proof (nth_opt_Some_lt _ _ _ Hi) as Hl. rewrite L in Hl.
  destruct (nth_opt_lt_Some (sg_ops g0) i Hl) as [o0 Ho0].
  destruct (O _ _ _ Ho0 Hi) as (_ & o' & Ho' & _ & Hu & _). rewrite Nat2Z.id in Ho'.
  unfold op_at in *. rewrite Hk in Ho'. inversion Ho'; subst o'. rewrite Hu.
  rewrite Forall_forall in Horig. apply Horig. eapply nth_opt_In; exact Ho0.
Qed.

Lemma skel_insert g0 g om am is_quant codes bufs tid producer cs ps codes' bufs' g' info :
  skel g0 g om -> maps_ok g om am ->
  Forall (fun o => o_uid o <> UID_INSERTED) (sg_ops g0) ->
  0 <= tid < ntens g -> -1 <= producer < lenZ (sg_ops g) ->
  Forall (fun c => c = -1 \/ In c om) cs ->
  insert_common is_quant codes bufs g tid producer cs ps = Ok (codes', bufs', g', info) ->
  skel g0 g' (shift_suffix (to_op_id info) 1 om).
Proof.
  intros SK Hmo Horig Ht Hpr Hcs Hrun.
  pose proof SK as [L O X T I U].
  assert (Ht0 : 0 <= tid) by lia.
  assert (Hcs' : Forall (fun c => c = -1 \/ 0 <= c) cs).
  { eapply Forall_impl; [|exact Hcs]. cbn. intros c [->|Hc]; [left; reflexivity|right].
    destruct Hmo as [_ _ Ro _]. rewrite Forall_forall in Ro. specialize (Ro _ Hc). lia. }
  destruct (insert_common_facts is_quant codes bufs g tid producer cs ps codes' bufs' g' info
              Ht0 Hpr Hcs' Hrun)
    as (ops2 & first & Hn & Htn & Hadd & Hop & Hlt & Hmin & Hrng & Hlen & Hrew & Hops & Hins & Houts).
  set (n := to_op_id info) in *.
  set (newop := {| o_code := _; o_ins := [tid]; o_outs := [ntens g]; o_uid := UID_INSERTED |}) in *.
  assert (Hn0 : 0 <= n) by lia.
  assert (Hnle : (Z.to_nat n <= length ops2)%nat) by (unfold lenZ in Hrng; lia).
  rewrite (shift_suffix_sorted _ _ (mo_sorted _ _ _ Hmo)), shift_from_is_map.
  (* image of an op of g *)
  assert (Himg : forall k o, op_at g k o ->
            exists o', op_at g' (shift_pos (Z.to_nat n) k) o' /\ rewired tid (ntens g) cs k o o').
  { intros k o Hk. pose proof (nth_opt_Some_lt _ _ _ Hk) as Hkl.
    destruct (nth_opt_lt_Some ops2 k ltac:(lia)) as [o' Ho'].
    destruct (Hrew _ _ Ho') as (o1 & Ho1 & Hr). unfold op_at in Ho1. rewrite Hk in Ho1. inversion Ho1; subst o1.
    exists o'. split; [|exact Hr]. unfold op_at. rewrite Hops, nth_opt_insert_at_old by exact Hnle. exact Ho'. }
  assert (Hnew : op_at g' (Z.to_nat n) newop).
  { unfold op_at. rewrite Hops, nth_opt_insert_at by exact Hnle. rewrite Nat.ltb_irrefl, Nat.eqb_refl. reflexivity. }
  (* inserted ops of g are carried over unchanged *)
  assert (Hkeep : forall k o, op_at g k o -> o_uid o = UID_INSERTED ->
            op_at g' (shift_pos (Z.to_nat n) k) o).
  { intros k o Hk Hu. destruct (Himg _ _ Hk) as (o' & Ho' & [->|[-> Hin]]); [exact Ho'|].
    exfalso. rewrite Forall_forall in Hcs. destruct (Hcs _ Hin) as [E|Hom]; [lia|].
    exact (in_om_original _ _ _ _ _ SK Horig Hom Hk Hu). }
  assert (Hmono : forall x x0, derived g x x0 -> derived g' x x0).
  { intros x x0 H. induction H as [|x y x0 k o Hk Hu Hi Ho _ IH]; [constructor|].
    eapply d_step; [exact (Hkeep _ _ Hk Hu)|exact Hu|exact Hi|exact Ho|exact IH]. }
  assert (Hrepl : forall x x0, derived g x x0 -> derived g' (repl tid (ntens g) x) x0).
  { intros x x0 H. unfold repl. destruct (Z.eqb_spec x tid) as [->|_]; [|apply Hmono; exact H].
    eapply d_step; [exact Hnew|reflexivity|reflexivity|reflexivity|apply Hmono; exact H]. }
  constructor.
  - rewrite map_length. exact L.
  - intros i o0 p' Ho0 Hp'. rewrite nth_opt_map in Hp'. destruct (nth_opt om i) as [p|] eqn:Ep; [|discriminate].
    cbn in Hp'. inversion Hp'; subst p'. destruct (O _ _ _ Ho0 Ep) as (Hp0 & o & Hko & A & B & C & D).
    destruct (Himg _ _ Hko) as (o' & Hko' & Hr).
    assert (E : shiftZ n p = Z.of_nat (shift_pos (Z.to_nat n) (Z.to_nat p))).
    { rewrite <- (Z2Nat.id p) at 1 by exact Hp0. apply shiftZ_shift_pos. exact Hn0. }
    rewrite E. split; [lia|]. exists o'. rewrite Nat2Z.id. split; [exact Hko'|].
    destruct Hr as [->|[-> _]].
    + repeat split; try assumption. eapply Forall2_impl; [|exact D]. exact Hmono.
    + cbn [rewire_op o_code o_uid o_outs o_ins]. repeat split; try assumption.
      apply Forall2_map_l. eapply Forall2_impl; [|exact D]. intros a b Hd.
      change (if a =? tid then ntens g else a) with (repl tid (ntens g) a). apply Hrepl. exact Hd.
  - intros k' o' Hk'. unfold op_at in Hk'. rewrite Hops in Hk'.
    destruct (insert_at_cases _ _ _ _ _ Hnle Hk') as [[-> ->]|(k & -> & Hk2)].
    + right. split; [reflexivity|]. exists tid, (ntens g). destruct T as [T1 _]. repeat split; try reflexivity. exact T1.
    + destruct (Hrew _ _ Hk2) as (o & Hko & Hr). destruct (X _ _ Hko) as [Hin|(Hu & y & x & Hi & Hou & Hx)].
      * left. apply in_map_iff. exists (Z.of_nat k). split; [apply shiftZ_shift_pos; exact Hn0|exact Hin].
      * right. destruct Hr as [->|[-> _]].
        -- split; [exact Hu|]. exists y, x. auto.
        -- split; [exact Hu|]. cbn [rewire_op o_ins o_outs]. rewrite Hi. cbn [map].
           eexists _, x. repeat split; [exact Hou|exact Hx].
  - destruct T as [T1 T2]. split; [lia|]. intros k t0 Hk. destruct (T2 _ _ Hk) as (t & Ht1 & M).
    destruct (insert_common_meta _ _ _ _ _ _ _ _ _ _ _ _ Ht0 Hrun _ _ Ht1) as (t' & Ht' & M').
    exists t'. split; [exact Ht'|eapply same_meta_trans; eassumption].
  - congruence.
  - rewrite Houts. destruct (memZ (-1) cs).
    + apply Forall2_map_l. eapply Forall2_impl; [|exact U]. intros a b Hd. apply Hrepl. exact Hd.
    + eapply Forall2_impl; [|exact U]. exact Hmono.
Qed.

(* ---------------- the global skeleton invariant ---------------- *)
Definition uids_ok (m0 : model) : Prop :=
  Forall (fun g0 => Forall (fun o => o_uid o <> UID_INSERTED) (sg_ops g0)) (m_subgraphs m0).

Definition sinv (m0 : model) (st : pstate) : Prop :=
  length (m_subgraphs (ps_model st)) = length (m_subgraphs m0) /\
  forall k g0 g om,
    nth_opt (m_subgraphs m0) k = Some g0 ->
    nth_opt (m_subgraphs (ps_model st)) k = Some g ->
    nth_opt (ps_orig st) k = Some om -> skel g0 g om.

Lemma apply_single_sinv m0 st sgid i later rest st' later' :
  uids_ok m0 ->
  ginv st ((sgid, i) :: map (pair sgid) later ++ rest) -> sinv m0 st ->
  apply_single st sgid i later = Ok (st', later') -> sinv m0 st'.
Proof.
  intros Hu HG [SL SK] H. pose proof HG as [Lo La Hm Hp].
  destruct (Hp sgid i (or_introl eq_refl)) as [Hs Hi].
  destruct (apply_single_view _ _ _ _ _ _ Hs H) as
    [om am g bufs g' Eo Ea Eg Hq -> Eo' Ea' Em'
    |q om am g producer cs codes bufs g' info Eo Ea Eg Hr Hcs Hins Hupd Em'].
  - split; [rewrite Em', length_set_nth; exact SL|].
    intros k g0 g1 om1 H0 H1 H2. rewrite Em' in H1. rewrite Eo' in H2.
    destruct (Nat.eq_dec k (Z.to_nat sgid)) as [->|Hk].
    + rewrite (nth_opt_set_nth_eq _ _ _ _ Eg) in H1. inversion H1; subst g1. rewrite Eo in H2. inversion H2; subst om1.
      destruct (Hi _ _ _ Eg Eo Ea) as ((T0 & _) & _).
      eapply skel_quantize; [exact T0|eapply SK; eassumption|exact Hq].
    + rewrite nth_opt_set_nth_other in H1 by exact Hk. eapply SK; eassumption.
  - pose proof (Hm _ _ _ _ Eg Eo Ea) as Hmo.
    destruct (Hi _ _ _ Eg Eo Ea) as (Ht & _ & _).
    pose proof (resolve_range _ _ _ _ _ Hmo Hr) as Hrng.
    assert (Hcs' : Forall (fun c => c = -1 \/ 0 <= c) cs).
    { eapply Forall_impl; [|exact Hcs]. cbn. intros c [->|Hc]; [left; reflexivity|right].
      destruct Hmo as [_ _ Ro _]. rewrite Forall_forall in Ro. specialize (Ro _ Hc). lia. }
    assert (Hadd : to_added info = 1).
    { assert (Ht0 : 0 <= i_tensor i) by lia.
      destruct (insert_common_facts q _ _ g (i_tensor i) producer cs (i_params i) _ _ g' info Ht0 Hrng Hcs' Hins)
        as (_ & _ & _ & _ & A & _). exact A. }
    destruct (Hupd Hadd) as (_ & Eo' & _).
    split; [rewrite Em', length_set_nth; exact SL|].
    intros k g0 g1 om1 H0 H1 H2. rewrite Em' in H1. rewrite Eo' in H2.
    destruct (Nat.eq_dec k (Z.to_nat sgid)) as [->|Hk].
    + rewrite (nth_opt_set_nth_eq _ _ _ _ Eg) in H1. rewrite (nth_opt_set_nth_eq _ _ _ _ Eo) in H2.
      inversion H1; inversion H2; subst.
      eapply skel_insert; [eapply SK; eassumption|exact Hmo| |exact Ht|exact Hrng|exact Hcs|exact Hins].
      unfold uids_ok in Hu. rewrite Forall_forall in Hu. apply Hu. eapply nth_opt_In; exact H0.
    + rewrite nth_opt_set_nth_other in H1 by exact Hk. rewrite nth_opt_set_nth_other in H2 by exact Hk.
      eapply SK; eassumption.
Qed.

Lemma apply_insts_both m0 sgid : uids_ok m0 -> forall fuel is st rest st',
  ginv st (map (pair sgid) is ++ rest) -> sinv m0 st ->
  apply_insts st sgid is fuel = Ok st' -> ginv st' rest /\ sinv m0 st'.
Proof.
  intros Hu. induction fuel as [|f IH]; intros is st rest st' HI HS H.
  - destruct is as [|i later]; cbn in H; [|discriminate]. inversion H; subst.
    split; [eapply ginv_weaken; [|exact HI]; intros x Hx; exact Hx|exact HS].
  - destruct is as [|i later]; cbn [apply_insts] in H.
    + inversion H; subst. split; [eapply ginv_weaken; [|exact HI]; intros x Hx; exact Hx|exact HS].
    + destruct (is_insertion (i_trans i)).
      * destruct (apply_single st sgid i later) as [[st1 later1]|] eqn:E; cbn [bind fst snd] in H; [|discriminate].
        eapply IH; [| |exact H].
        -- eapply apply_single_ginv; [|exact E]. exact HI.
        -- eapply apply_single_sinv; [exact Hu|exact HI|exact HS|exact E].
      * destruct (qtrans_eqb (i_trans i) Tr_EMULATED_SUBCHANNEL); [discriminate|].
        eapply IH; [|exact HS|exact H]. eapply ginv_weaken; [|exact HI]. intros x Hx. cbn. right. exact Hx.
Qed.

Lemma foldM_both m0 : uids_ok m0 -> forall tis st st',
  ginv st (pend_of tis) -> sinv m0 st ->
  foldM (fun st ti => apply_insts st (ti_sg ti) (ti_insts ti) (length (ti_insts ti))) tis st = Ok st' ->
  ginv st' [] /\ sinv m0 st'.
Proof.
  intros Hu. induction tis as [|ti tis IH]; intros st st' HI HS H; cbn in H.
  - inversion H; subst. auto.
  - destruct (apply_insts st (ti_sg ti) (ti_insts ti) (length (ti_insts ti))) as [st1|] eqn:E;
      cbn [bind] in H; [|discriminate].
    destruct (apply_insts_both m0 (ti_sg ti) Hu _ _ _ _ _ HI HS E) as [HI1 HS1].
    eapply IH; eassumption.
Qed.

Lemma init_sinv m : uids_ok m -> sinv m (init_pstate m).
Proof.
  intros Hu. split; [reflexivity|]. intros k g0 g om H0 H1 H2. cbn [init_pstate ps_model ps_orig] in *.
  rewrite H0 in H1. inversion H1; subst g. rewrite nth_opt_map, H0 in H2. cbn in H2. inversion H2; subst om.
  apply skel_init. unfold uids_ok in Hu. rewrite Forall_forall in Hu. apply Hu. eapply nth_opt_In; exact H0.
Qed.

(* every subgraph of the result has the skeleton of the corresponding input
   subgraph, through a strictly increasing position map (same ops, same order) *)
Theorem transform_graph_skeleton m tis m' :
  Forall wf_sg (m_subgraphs m) -> uids_ok m ->
  (forall ti i, In ti tis -> In i (ti_insts ti) -> sane m (ti_sg ti) i) ->
  transform_graph m tis = Ok m' ->
  length (m_subgraphs m') = length (m_subgraphs m) /\
  forall k g0 g', nth_opt (m_subgraphs m) k = Some g0 -> nth_opt (m_subgraphs m') k = Some g' ->
    exists om, StronglySorted Z.lt om /\ skel g0 g' om.
Proof.
  intros Hwf Hu Hsane H. unfold transform_graph in H.
  match type of H with bind ?x _ = _ => destruct x as [st|] eqn:E end; cbn [bind] in H; [|discriminate].
  inversion H; subst.
  destruct (foldM_both m Hu _ _ _ (init_ginv _ _ Hwf Hsane) (init_sinv _ Hu) E) as [[Lo La Hm _] [SL SK]].
  split; [exact SL|]. intros k g0 g' H0 H1.
  pose proof (nth_opt_Some_lt _ _ _ H1) as Hlt.
  destruct (nth_opt_lt_Some (ps_orig st) k ltac:(lia)) as [om Ho].
  destruct (nth_opt_lt_Some (ps_added st) k ltac:(lia)) as [am Ha].
  exists om. split; [exact (mo_sorted _ _ _ (Hm _ _ _ _ H1 Ho Ha))|eapply SK; eassumption].
Qed.
