(* Proofs/SemGlue.v — ties the abstract semantic-preservation statement of
   Proofs/SemProofs.v to the performer model: the graph produced by
   insert_common (DEQUANTIZE) on a constant all of whose readers are listed
   splits into unchanged ops before the insertion point, the DEQUANTIZE op,
   and ops that are either untouched non-readers or rewired readers. *)
From VF Require Import Base.Prelude Gen.Enums Model.Graph Gen.InstChecks Model.Perform Model.Sem
     Spec.WF Proofs.ListFacts Proofs.PerformStep Proofs.SemProofs.

(* listed consumers are rewired, the others are left alone *)
Lemma rewire_listed cs : forall ops old new ops',
  new <> old -> Forall (fun c => c = -1 \/ 0 <= c) cs ->
  rewire_consumers ops cs old new = Ok ops' ->
  forall k o, nth_opt ops k = Some o ->
    nth_opt ops' k = Some (if memZ (Z.of_nat k) cs then rewire_op o old new else o).
Proof.
  induction cs as [|c cs IH]; intros ops old new ops' Hne Hcs H k o Hk.
  - cbn in H. inversion H; subst. exact Hk.
  - apply Forall_cons_iff in Hcs. destruct Hcs as [Hc Hcs].
    unfold rewire_consumers in H. cbn [foldM] in H.
    destruct (Z.eqb_spec c (-1)) as [E|E].
    + cbn [bind] in H. fold (rewire_consumers ops cs old new) in H.
      rewrite (IH _ _ _ _ Hne Hcs H k o Hk). unfold memZ. cbn [existsb].
      destruct (Z.eqb_spec (Z.of_nat k) c); [lia|reflexivity].
    + destruct Hc as [Hc|Hc]; [contradiction|].
      destruct (py_index ops c) as [oc|e] eqn:Ei; cbn [bind] in H; [|discriminate].
      destruct (py_index_nonneg _ _ _ Hc Ei) as [Hn Hlt].
      replace (if c <? 0 then c + lenZ ops else c) with c in H
        by (destruct (Z.ltb_spec c 0); [lia|reflexivity]).
      fold (rewire_consumers (set_nth ops (Z.to_nat c) (rewire_op oc old new)) cs old new) in H.
      unfold memZ. cbn [existsb]. fold (memZ (Z.of_nat k) cs).
      destruct (Nat.eq_dec k (Z.to_nat c)) as [Ek|Ek].
      * subst k. rewrite Hn in Hk. inversion Hk; subst oc.
        assert (Hk1 : nth_opt (set_nth ops (Z.to_nat c) (rewire_op o old new)) (Z.to_nat c)
                      = Some (rewire_op o old new)).
        { apply nth_opt_set_nth_same. apply nth_opt_Some_lt in Hn. exact Hn. }
        rewrite (IH _ _ _ _ Hne Hcs H _ _ Hk1).
        replace (Z.of_nat (Z.to_nat c) =? c) with true by (symmetry; apply Z.eqb_eq; lia).
        cbn [orb]. destruct (memZ (Z.of_nat (Z.to_nat c)) cs); [rewrite rewire_op_idem by exact Hne|]; reflexivity.
      * assert (Hk1 : nth_opt (set_nth ops (Z.to_nat c) (rewire_op oc old new)) k = Some o).
        { rewrite nth_opt_set_nth_other by exact Ek. exact Hk. }
        rewrite (IH _ _ _ _ Hne Hcs H _ _ Hk1).
        destruct (Z.eqb_spec (Z.of_nat k) c); [lia|reflexivity].
Qed.

Lemma insert_at_split {A} (l : list A) n a :
  (n <= length l)%nat -> insert_at l n a = firstn n l ++ a :: skipn n l.
Proof.
  revert l. induction n as [|n IH]; intros l H; [destruct l; reflexivity|].
  destruct l as [|x l]; [cbn in H; lia|]. cbn. rewrite IH by (cbn in H; lia). reflexivity.
Qed.

Lemma insert_at_inj {A} (a : A) : forall n (l l2 : list A),
  (n <= length l)%nat -> (n <= length l2)%nat -> insert_at l n a = insert_at l2 n a -> l = l2.
Proof.
  induction n as [|n IH]; intros l l2 H1 H2 E.
  - destruct l, l2; cbn in E; inversion E; reflexivity.
  - destruct l as [|x l]; [cbn in H1; lia|]. destruct l2 as [|y l2]; [cbn in H2; lia|].
    cbn in E. inversion E; subst. f_equal. apply IH; [cbn in H1; lia|cbn in H2; lia|assumption].
Qed.

Lemma Forall_combine_nth {A} (P : A * A -> Prop) (l l2 : list A) :
  length l = length l2 ->
  (forall k a b, nth_opt l k = Some a -> nth_opt l2 k = Some b -> P (a, b)) ->
  Forall P (combine l l2).
Proof.
  revert l2. induction l as [|x l IH]; intros [|y l2] L H; try discriminate; [constructor|].
  cbn. constructor; [apply (H 0%nat); reflexivity|].
  apply IH; [cbn in L; lia|]. intros k a b Ha Hb. apply (H (S k)); assumption.
Qed.

Lemma map_fst_combine {A B} (l : list A) (l2 : list B) : length l = length l2 -> map fst (combine l l2) = l.
Proof. revert l2; induction l as [|x l IH]; intros [|y l2] L; try discriminate; cbn; [reflexivity|]. rewrite IH by (cbn in L; lia). reflexivity. Qed.
Lemma map_snd_combine {A B} (l : list A) (l2 : list B) : length l = length l2 -> map snd (combine l l2) = l2.
Proof. revert l2; induction l as [|x l IH]; intros [|y l2] L; try discriminate; cbn; [reflexivity|]. rewrite IH by (cbn in L; lia). reflexivity. Qed.

Lemma nth_opt_firstn {A} (l : list A) n k a : nth_opt (firstn n l) k = Some a -> nth_opt l k = Some a /\ (k < n)%nat.
Proof.
  revert n k. induction l as [|x l IH]; intros n k H.
  - rewrite firstn_nil in H. destruct k; discriminate.
  - destruct n; [destruct k; discriminate|]. destruct k; cbn in *; [split; [exact H|lia]|].
    destruct (IH _ _ H). split; [assumption|lia].
Qed.
Lemma nth_opt_skipn {A} (l : list A) n k : nth_opt (skipn n l) k = nth_opt l (n + k).
Proof.
  revert l. induction n as [|n IH]; intros l; [reflexivity|]. destruct l as [|x l]; [destruct k; reflexivity|].
  cbn. apply IH.
Qed.

Section Glue.
  Variable val : Type.
  Variable K : Z -> Z -> list (option val) -> list val.

  Theorem insert_dequantize_preserves_meaning
      codes bufs g tid consumers ps codes' bufs' g' info (q dq : val) e e' :
    wf_sg g -> 0 <= tid ->
    (forall k o, op_at g k o -> ~ writes o tid) ->                       (* a constant: no producer *)
    (forall k o, op_at g k o -> reads o tid -> In (Z.of_nat k) consumers) ->  (* every reader is listed *)
    Forall (fun c => 0 <= c) consumers ->
    insert_common false codes bufs g tid (-1) consumers ps = Ok (codes', bufs', g', info) ->
    K (fst (add_op_code BC_DEQUANTIZE codes)) UID_INSERTED [Some q] = [dq] ->
    Inv val tid (ntens g) q dq false e e' ->
    Inv val tid (ntens g) q dq true (run val K (sg_ops g) e) (run val K (sg_ops g') e').
  Proof.
    intros Hwf Ht Hnw Hall Hcs Hrun Hk HI.
    assert (Hcs' : Forall (fun c => c = -1 \/ 0 <= c) consumers)
      by (eapply Forall_impl; [|exact Hcs]; cbn; intros; right; assumption).
    assert (Hprod : -1 <= -1 < lenZ (sg_ops g)) by (unfold lenZ; lia).
    destruct (insert_common_facts false codes bufs g tid (-1) consumers ps codes' bufs' g' info
                Ht Hprod Hcs' Hrun)
      as (ops2 & first & Hn & Htn & _ & Hop & Hlt & Hmin & Hrng & Hlen & _ & Hops & _ & _).
    (* recover the exact pointwise description of ops2 *)
    assert (Hne : ntens g <> tid) by lia.
    assert (Hops2 : forall k o, op_at g k o ->
              nth_opt ops2 k = Some (if memZ (Z.of_nat k) consumers then rewire_op o tid (ntens g) else o)).
    { unfold insert_common in Hrun.
      destruct (add_op_code BC_DEQUANTIZE codes) as [cidx cds] eqn:Ec.
      destruct (get_tensor g tid) as [t|] eqn:E; cbn [bind] in Hrun; [|discriminate].
      match type of Hrun with bind ?m _ = _ => destruct m as [[bufs2 g2]|] eqn:E0 end;
        cbn [bind] in Hrun; [|discriminate].
      destruct (py_min consumers) as [z|] eqn:E1; cbn [bind] in Hrun; [|discriminate].
      match type of Hrun with bind ?m _ = _ => destruct m as [l|] eqn:E2 end;
        cbn [bind] in Hrun; [|discriminate].
      destruct (Z.max (-1 + 1) z <? 0) eqn:Eneg; [discriminate|].
      inversion Hrun; subst; clear Hrun. cbn [sg_ops] in Hops.
      destruct (quantize_tensor_shape _ _ _ _ _ _ E0) as (Ho & _). rewrite Ho in E2. cbn [sg_ops] in E2.
      assert (l = ops2).
      { assert (Hl : length l = length (sg_ops g)).
        { destruct (rewire_spec _ _ _ _ _ Hne Hcs' E2) as (L & _). exact L. }
        cbn [to_op_id] in *. unfold lenZ in Hrng.
        eapply insert_at_inj; [| |exact Hops]; lia. }
      subst l. intros k o Hko. apply (rewire_listed _ _ _ _ _ Hne Hcs' E2 k o Hko). }
    set (n := Z.to_nat (to_op_id info)) in *.
    assert (Hnle : (n <= length ops2)%nat) by (unfold lenZ in Hrng; lia).
    assert (Hnle' : (n <= length (sg_ops g))%nat) by lia.
    rewrite Hops, (insert_at_split ops2 n _ Hnle).
    rewrite <- (firstn_skipn n (sg_ops g)) at 1.
    set (pre := combine (firstn n (sg_ops g)) (firstn n ops2)).
    set (post := combine (skipn n (sg_ops g)) (skipn n ops2)).
    assert (L1 : length (firstn n (sg_ops g)) = length (firstn n ops2)) by (rewrite !firstn_length; lia).
    assert (L2 : length (skipn n (sg_ops g)) = length (skipn n ops2)) by (rewrite !skipn_length; lia).
    rewrite <- (map_fst_combine _ _ L1), <- (map_fst_combine _ _ L2).
    rewrite <- (map_snd_combine _ _ L1) at 2. rewrite <- (map_snd_combine _ _ L2) at 2.
    fold pre post.
    destruct Hwf as [W1 W2 _ _ _ _].
    assert (Hplain : forall k o, op_at g k o -> plain tid (ntens g) o).
    { intros k o Hko. repeat split.
      - apply (Hnw k o Hko).
      - intros C. pose proof (W2 _ _ _ Hko C). lia.
      - intros C. destruct (W1 _ _ _ Hko C) as [E|E]; unfold ntens, lenZ in *; lia. }
    destruct (py_min_le _ _ Hmin) as [Hminall Hminin]. rewrite Forall_forall in Hminall.
    assert (Hfirst : 0 <= first) by (rewrite Forall_forall in Hcs; apply Hcs; exact Hminin).
    assert (Hn_first : Z.of_nat n = first) by (unfold n; rewrite Hop; lia).
    apply dequantize_insertion_preserves_meaning; try assumption; try lia.
    - (* before the insertion point: not listed, hence not readers, hence untouched *)
      apply Forall_combine_nth; [exact L1|]. intros k a b Ha Hb.
      destruct (nth_opt_firstn _ _ _ _ Ha) as [Ha' Hkn]. destruct (nth_opt_firstn _ _ _ _ Hb) as [Hb' _].
      assert (Hnot : memZ (Z.of_nat k) consumers = false).
      { destruct (memZ (Z.of_nat k) consumers) eqn:Em; [|reflexivity].
        apply memZ_In in Em. specialize (Hminall _ Em). lia. }
      rewrite (Hops2 k a Ha'), Hnot in Hb'. inversion Hb'; subst b.
      split; [apply (Hplain k a Ha')|]. split; [reflexivity|].
      intros C. pose proof (Hall k a Ha' C) as Hin. apply memZ_In in Hin. congruence.
    - apply Forall_combine_nth; [exact L2|]. intros k a b Ha Hb.
      rewrite nth_opt_skipn in Ha, Hb.
      rewrite (Hops2 _ a Ha) in Hb. inversion Hb; subst b. split; [apply (Hplain _ a Ha)|].
      destruct (memZ (Z.of_nat (n + k)) consumers) eqn:Em; [right; reflexivity|].
      left. split; [reflexivity|]. intros C. pose proof (Hall _ a Ha C) as Hin. apply memZ_In in Hin. congruence.
    - cbn. reflexivity.
    - cbn. reflexivity.
  Qed.
End Glue.
