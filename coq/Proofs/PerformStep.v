(* Proofs/PerformStep.v — one transformation step preserves subgraph
   well-formedness (the local heart of C01). *)
From VF Require Import Base.Prelude Gen.Enums Model.Graph Gen.InstChecks
     Model.Perform Spec.WF Proofs.ListFacts.

Ltac inv_res H :=
  repeat match type of H with
  | bind ?m _ = Ok _ =>
      let E := fresh "E" in destruct m eqn:E; cbn [bind] in H; [|discriminate H]
  | Err _ = Ok _ => discriminate H
  end.

Lemma wf_sg_ext g g' :
  sg_ops g' = sg_ops g -> ntens g' = ntens g ->
  sg_inputs g' = sg_inputs g -> sg_outputs g' = sg_outputs g ->
  wf_sg g -> wf_sg g'.
Proof.
  intros Ho Hn Hi Hu [H1 H2 H3 H4 H5 H6].
  constructor; unfold op_at in *; rewrite ?Ho, ?Hn, ?Hi, ?Hu; assumption.
Qed.

Lemma ntens_set_tensor g tid t : ntens (set_tensor g tid t) = ntens g.
Proof. unfold ntens, lenZ, set_tensor. cbn. rewrite length_set_nth. reflexivity. Qed.

Lemma quantize_tensor_shape bufs g tid ps bufs' g' :
  quantize_tensor bufs g tid ps = Ok (bufs', g') ->
  sg_ops g' = sg_ops g /\ sg_inputs g' = sg_inputs g /\ sg_outputs g' = sg_outputs g
  /\ ntens g' = ntens g /\ length bufs' = length bufs.
Proof.
  unfold quantize_tensor. intros H.
  destruct (get_tensor g tid) as [t|] eqn:Et; cbn [bind] in H; [|discriminate].
  destruct ps as [p|].
  - match type of H with bind ?m _ = _ => destruct m as [b2|] eqn:Eb end;
      cbn [bind] in H; [|discriminate].
    assert (Hb : length b2 = length bufs).
    { destruct (negb (t_buf t =? 0) && qp_has_data p).
      - destruct (py_index bufs (t_buf t)); cbn [bind] in Eb; [|discriminate].
        inversion Eb; subst. apply length_set_nth.
      - inversion Eb; subst. reflexivity. }
    match type of H with bind ?m _ = _ => destruct m as [t2|] eqn:Et2 end;
      cbn [bind] in H; [|discriminate].
    inversion H; subst; clear H.
    repeat split; try reflexivity; [apply ntens_set_tensor|assumption].
  - destruct (negb (t_buf t =? 0)); [discriminate|]. inversion H; subst. auto.
Qed.

Lemma quantize_tensor_wf bufs g tid ps bufs' g' :
  quantize_tensor bufs g tid ps = Ok (bufs', g') -> wf_sg g -> wf_sg g'.
Proof.
  intros H. destruct (quantize_tensor_shape _ _ _ _ _ _ H) as (A & B & C & D & _).
  apply wf_sg_ext; assumption.
Qed.

(* ---- rewiring ---- *)
Definition repl (old new x : Z) : Z := if Z.eqb x old then new else x.

Lemma rewire_op_ins o old new : o_ins (rewire_op o old new) = map (repl old new) (o_ins o).
Proof. reflexivity. Qed.

Lemma rewire_op_idem o old new :
  new <> old -> rewire_op (rewire_op o old new) old new = rewire_op o old new.
Proof.
  intros Hne. unfold rewire_op. cbn. f_equal. rewrite map_map. apply map_ext.
  intros x. destruct (Z.eqb_spec x old); [|destruct (Z.eqb_spec x old); congruence].
  destruct (Z.eqb_spec new old); congruence.
Qed.

Definition rewired (old new : Z) (cs : list Z) (k : nat) (o o' : op) : Prop :=
  o' = o \/ (o' = rewire_op o old new /\ In (Z.of_nat k) cs).

Lemma rewire_spec cs : forall ops old new ops',
  new <> old ->
  Forall (fun c => c = -1 \/ 0 <= c) cs ->
  rewire_consumers ops cs old new = Ok ops' ->
  length ops' = length ops /\
  (forall c, In c cs -> c <> -1 -> c < Z.of_nat (length ops)) /\
  forall k o', nth_opt ops' k = Some o' ->
    exists o, nth_opt ops k = Some o /\ rewired old new cs k o o'.
Proof.
  induction cs as [|c cs IH]; intros ops old new ops' Hne Hcs H.
  - cbn in H. inversion H; subst. split; [reflexivity|]. split; [intros ? []|].
    intros k o' Hk. exists o'. split; [assumption|left; reflexivity].
  - apply Forall_cons_iff in Hcs. destruct Hcs as [Hc Hcs].
    unfold rewire_consumers in H. cbn [foldM] in H.
    destruct (Z.eqb_spec c (-1)) as [E|E].
    + cbn [bind] in H. fold (rewire_consumers ops cs old new) in H.
      destruct (IH _ _ _ _ Hne Hcs H) as (L & R & S). split; [assumption|].
      split.
      * intros c0 [<-|Hin] Hn; [contradiction|]. apply R; assumption.
      * intros k o' Hk. destruct (S k o' Hk) as (o & Ho & [Hr|[Hr Hin]]); exists o;
          (split; [assumption|]); [left; assumption|right; split; [assumption|right; assumption]].
    + destruct Hc as [Hc|Hc]; [contradiction|].
      destruct (py_index ops c) as [o|e] eqn:Ei; cbn [bind] in H; [|discriminate].
      destruct (py_index_nonneg _ _ _ Hc Ei) as [Hn Hlt].
      replace (if c <? 0 then c + lenZ ops else c) with c in H
        by (destruct (Z.ltb_spec c 0); [lia|reflexivity]).
      fold (rewire_consumers (set_nth ops (Z.to_nat c) (rewire_op o old new)) cs old new) in H.
      destruct (IH _ _ _ _ Hne Hcs H) as (L & R & S).
      rewrite length_set_nth in L, R. split; [assumption|]. split.
      * intros c0 [<-|Hin] Hn0; [assumption|]. apply R; assumption.
      * intros k o' Hk. destruct (S k o' Hk) as (o1 & Ho1 & Hr).
        destruct (Nat.eq_dec k (Z.to_nat c)) as [Ek|Ek].
        -- subst k. rewrite nth_opt_set_nth_same in Ho1 by (apply nth_opt_Some_lt in Hn; assumption).
           inversion Ho1; subst o1. exists o. split; [assumption|].
           right. split.
           ++ destruct Hr as [Hr|[Hr _]]; [assumption|]. rewrite Hr. apply rewire_op_idem. assumption.
           ++ left. lia.
        -- rewrite nth_opt_set_nth_other in Ho1 by assumption. exists o1. split; [assumption|].
           destruct Hr as [Hr|[Hr Hin]]; [left; assumption|right; split; [assumption|right; assumption]].
Qed.

(* ---- the insertion step ---- *)
Section Step.
  Variables (is_quant : bool) (codes : list Z) (bufs : list bufval) (g : subgraph)
            (tid producer : Z) (consumers : list Z) (ps : option qparam)
            (codes' : list Z) (bufs' : list bufval) (g' : subgraph) (info : tinfo_out).

  Hypothesis Hwf : wf_sg g.
  Hypothesis Htid : 0 <= tid.
  (* the producer argument is the position of tid's producer, or -1 *)
  Hypothesis Hprod_rng : -1 <= producer < lenZ (sg_ops g).
  Hypothesis Hprod_w : forall k o, op_at g k o -> writes o tid -> Z.of_nat k <= producer.
  Hypothesis Hprod_r : forall k o, op_at g k o -> reads o tid -> producer < Z.of_nat k.
  Hypothesis Hcons : Forall (fun c => c = -1 \/ 0 <= c) consumers.
  Hypothesis Hrun :
    insert_common is_quant codes bufs g tid producer consumers ps = Ok (codes', bufs', g', info).

  Lemma insert_common_facts :
    exists ops2 first,
      ntens g' = ntens g + 1 /\ to_tensor info = ntens g /\ to_added info = 1 /\
      to_op_id info = Z.max (producer + 1) first /\ tid < ntens g /\
      py_min consumers = Ok first /\
      0 <= to_op_id info <= lenZ (sg_ops g) /\
      length ops2 = length (sg_ops g) /\
      (forall k o', nth_opt ops2 k = Some o' ->
         exists o, op_at g k o /\ rewired tid (ntens g) consumers k o o') /\
      sg_ops g' = insert_at ops2 (Z.to_nat (to_op_id info))
                    {| o_code := fst (add_op_code (if is_quant then BC_QUANTIZE else BC_DEQUANTIZE) codes);
                       o_ins := [tid]; o_outs := [ntens g]; o_uid := UID_INSERTED |} /\
      sg_inputs g' = sg_inputs g /\
      sg_outputs g' = (if memZ (-1) consumers
                       then map (repl tid (ntens g)) (sg_outputs g) else sg_outputs g).
  Proof.
    unfold insert_common in Hrun.
    destruct (add_op_code (if is_quant then BC_QUANTIZE else BC_DEQUANTIZE) codes) as [cidx cds] eqn:Ec.
    destruct (get_tensor g tid) as [t|] eqn:E; cbn [bind] in Hrun; [|discriminate].
    match type of Hrun with bind ?m _ = _ => destruct m as [[bufs2 g2]|] eqn:E0 end;
      cbn [bind] in Hrun; [|discriminate].
    destruct (py_min consumers) as [z|] eqn:E1; cbn [bind] in Hrun; [|discriminate].
    match type of Hrun with bind ?m _ = _ => destruct m as [l|] eqn:E2 end;
      cbn [bind] in Hrun; [|discriminate].
    destruct (Z.max (producer + 1) z <? 0) eqn:Eneg; [discriminate|].
    inversion Hrun; subst; clear Hrun. cbn [to_tensor to_added to_op_id sg_ops sg_inputs sg_outputs].
    unfold get_tensor in E. destruct (py_index_nonneg _ _ _ Htid E) as [_ Hlt].
    match type of E0 with quantize_tensor _ ?G _ _ = _ => set (g1 := G) in * end.
    destruct (quantize_tensor_shape _ _ _ _ _ _ E0) as (Ho & Hi & Hu & Hn & _).
    assert (Hn1 : ntens g1 = ntens g + 1).
    { unfold ntens, lenZ, g1. cbn. rewrite app_length. cbn. lia. }
    assert (Hne : ntens g <> tid) by (unfold ntens, lenZ; lia).
    rewrite Ho in E2. cbn [g1 sg_ops] in E2.
    destruct (rewire_spec _ _ _ _ _ Hne Hcons E2) as (L & R & S).
    destruct (py_min_le _ _ E1) as [Hmin Hin].
    exists l, z. unfold ntens in *. cbn [sg_tensors]. rewrite Hn, Hn1.
    repeat split; try assumption; try reflexivity; try lia.
    - (* op_id <= length *)
      apply Z.max_lub; [unfold lenZ in *; lia|].
      destruct (Z.eq_dec z (-1)); [unfold lenZ; lia|].
      specialize (R z Hin n). unfold lenZ. lia.
    - rewrite Hu. reflexivity.
  Qed.

  Theorem insert_common_wf : wf_sg g'.
  Proof.
    destruct insert_common_facts as
      (ops2 & first & Hn & Ht & _ & Hop & Hlt & Hmin & Hrng & Hlen & Hrew & Hops & Hins & Houts).
    destruct Hwf as [W1 W2 W3 W4 W5 W6].
    set (n := Z.to_nat (to_op_id info)) in *.
    set (newop := {| o_code := _; o_ins := [tid]; o_outs := [ntens g]; o_uid := UID_INSERTED |}) in *.
    assert (Hnle : (n <= length ops2)%nat) by (unfold lenZ in Hrng; lia).
    assert (Hcase : forall k o', op_at g' k o' ->
              (k = n /\ o' = newop) \/
              (exists k0 o, k = shift_pos n k0 /\ op_at g k0 o /\ rewired tid (ntens g) consumers k0 o o')).
    { intros k o' Hk. unfold op_at in Hk. rewrite Hops in Hk.
      destruct (insert_at_cases _ _ _ _ _ Hnle Hk) as [[-> ->]|(k0 & -> & Hk0)]; [left; auto|].
      right. destruct (Hrew _ _ Hk0) as (o & Ho & Hr). exists k0, o. auto. }
    assert (Hnt : 0 <= ntens g) by (unfold ntens, lenZ; lia).
    (* reading through a rewired op *)
    assert (Hreads : forall k0 o o' x, op_at g k0 o -> rewired tid (ntens g) consumers k0 o o' ->
              reads o' x ->
              (reads o x /\ x <> ntens g) \/
              (x = ntens g /\ reads o tid /\ In (Z.of_nat k0) consumers)).
    { intros k0 o o' x Ho [->|[-> Hin]] Hx.
      - left. split; [assumption|]. destruct (W1 _ _ _ Ho Hx); lia.
      - unfold reads in Hx. rewrite rewire_op_ins in Hx. apply in_map_iff in Hx.
        destruct Hx as (y & Hy & Hyin). unfold repl in Hy.
        destruct (Z.eqb_spec y tid).
        + right. subst. auto.
        + left. subst. split; [assumption|]. destruct (W1 _ _ _ Ho Hyin); lia. }
    assert (Hwrites : forall k0 o o' x, rewired tid (ntens g) consumers k0 o o' ->
              writes o' x -> writes o x).
    { intros k0 o o' x [->|[-> _]] Hx; exact Hx. }
    constructor.
    - (* wf_ins *)
      intros k o' x Hk Hx. rewrite Hn.
      destruct (Hcase _ _ Hk) as [[_ ->]|(k0 & o & _ & Ho & Hr)].
      + cbn in Hx. destruct Hx as [<-|[]]. right. lia.
      + destruct (Hreads _ _ _ _ Ho Hr Hx) as [[Hx' _]|[-> _]].
        * destruct (W1 _ _ _ Ho Hx'); [left; assumption|right; lia].
        * right. lia.
    - (* wf_outs *)
      intros k o' x Hk Hx. rewrite Hn.
      destruct (Hcase _ _ Hk) as [[_ ->]|(k0 & o & _ & Ho & Hr)].
      + cbn in Hx. destruct Hx as [<-|[]]. lia.
      + pose proof (W2 _ _ _ Ho (Hwrites _ _ _ _ Hr Hx)). lia.
    - (* wf_single *)
      intros k1 k2 o1 o2 x H1 H2 Hx1 Hx2.
      destruct (Hcase _ _ H1) as [[-> ->]|(a & oa & -> & Hoa & Hra)];
        destruct (Hcase _ _ H2) as [[-> ->]|(b & ob & -> & Hob & Hrb)].
      + reflexivity.
      + cbn in Hx1. destruct Hx1 as [<-|[]].
        pose proof (W2 _ _ _ Hob (Hwrites _ _ _ _ Hrb Hx2)). lia.
      + cbn in Hx2. destruct Hx2 as [<-|[]].
        pose proof (W2 _ _ _ Hoa (Hwrites _ _ _ _ Hra Hx1)). lia.
      + f_equal. eapply W3; eauto.
    - (* wf_order *)
      intros k j o' p' x Hk Hj Hx Hw.
      destruct (Hcase _ _ Hk) as [[-> ->]|(k0 & o & -> & Ho & Hr)].
      + (* reader = the inserted op: x = tid *)
        cbn in Hx. destruct Hx as [<-|[]].
        destruct (Hcase _ _ Hj) as [[-> ->]|(j0 & p & -> & Hp & Hrp)].
        * cbn in Hw. destruct Hw as [Hw|[]]. lia.
        * pose proof (Hprod_w _ _ Hp (Hwrites _ _ _ _ Hrp Hw)) as Hle.
          unfold shift_pos. destruct (Nat.ltb_spec j0 n); [assumption|]. unfold n in *. lia.
      + destruct (Hcase _ _ Hj) as [[-> ->]|(j0 & p & -> & Hp & Hrp)].
        * (* writer = inserted op: x = new tensor *)
          cbn in Hw. destruct Hw as [<-|[]].
          destruct (Hreads _ _ _ _ Ho Hr Hx) as [[_ Hne]|(_ & Hrt & Hin)]; [congruence|].
          pose proof (Hprod_r _ _ Ho Hrt) as Hlt1.
          destruct (py_min_le _ _ Hmin) as [Hall _]. rewrite Forall_forall in Hall.
          specialize (Hall _ Hin).
          unfold shift_pos. destruct (Nat.ltb_spec k0 n); [unfold n in *; lia|lia].
        * destruct (Hreads _ _ _ _ Ho Hr Hx) as [[Hx' _]|(-> & _ & _)].
          -- apply shift_pos_mono. eapply W4; eauto.
          -- pose proof (W2 _ _ _ Hp (Hwrites _ _ _ _ Hrp Hw)). lia.
    - rewrite Hins, Hn. eapply Forall_impl; [|exact W5]. cbn. intros; lia.
    - rewrite Houts, Hn. destruct (memZ (-1) consumers).
      + apply Forall_map. eapply Forall_impl; [|exact W6]. cbn. intros x Hx.
        unfold repl. destruct (Z.eqb x tid); lia.
      + eapply Forall_impl; [|exact W6]. cbn. intros; lia.
  Qed.
End Step.
