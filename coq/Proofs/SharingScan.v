(* Proofs/SharingScan.v — C15: the buffer-sharing check VISITS EVERYTHING: if
   it returns, then for every constant buffer and every tensor occurrence
   listed for it (a tensor read by several operators is listed once per read;
   several tensors tied to one buffer are all listed) the first listed user and
   that user passed the compatibility predicate — no group is skipped, no
   member of a group is skipped. *)
From VF Require Import Base.Prelude Gen.Enums Model.Graph Model.Plan.

Lemma foldM_unit_all {A} (f : A -> res unit) : forall l,
  foldM (fun _ x => f x) l tt = Ok tt -> forall x, In x l -> f x = Ok tt.
Proof.
  induction l as [|a l IH]; intros H x Hin; [destruct Hin|]. cbn [foldM] in H.
  destruct (f a) as [[]|] eqn:E; cbn [bind] in H; [|discriminate].
  destruct Hin as [<-|Hin]; [exact E|apply IH; assumption].
Qed.

Theorem check_buffer_sharing_visits_all bufs cls m rs :
  check_buffer_sharing_with bufs cls m rs = Ok tt ->
  forall b first second rest v n,
    In (b, first :: second :: rest) (buffer_groups m) ->
    nthZ bufs b = Some (BOrig v) ->
    In n (second :: rest) ->
    exists p1 p2, find_plan rs first = Ok p1 /\ find_plan rs n = Ok p2 /\
                  compatible_ttp (to_ttp cls p1) (to_ttp cls p2) = Ok true.
Proof.
  intros H b first second rest v n Hin Hb Hn. unfold check_buffer_sharing_with in H.
  pose proof (foldM_unit_all _ _ H _ Hin) as Hg. cbn beta iota in Hg. rewrite Hb in Hg.
  destruct (find_plan rs first) as [p1|] eqn:E1; cbn [bind] in Hg; [|discriminate].
  pose proof (foldM_unit_all _ _ Hg _ Hn) as Hm. cbn beta in Hm.
  destruct (find_plan rs n) as [p2|] eqn:E2; cbn [bind] in Hm; [|discriminate].
  destruct (compatible_ttp (to_ttp cls p1) (to_ttp cls p2)) as [[|]|] eqn:E3; cbn [bind] in Hm; try discriminate.
  exists p1, p2. auto.
Qed.

(* ---- buffer_groups lists every tensor occurrence under its buffer ---- *)
Fixpoint ins_grp (b : Z) (n : name_t) (l : list (Z * list name_t)) : list (Z * list name_t) :=
  match l with
  | [] => [(b, [n])]
  | (b', ns) :: r => if Z.eqb b' b then (b', ns ++ [n]) :: r else (b', ns) :: ins_grp b n r
  end.

Definition listed (b : Z) (n : name_t) (acc : list (Z * list name_t)) : Prop :=
  exists ns, In (b, ns) acc /\ In n ns.

Lemma ins_grp_listed b n l : listed b n (ins_grp b n l).
Proof.
  induction l as [|[b' ns] r IH]; cbn.
  - exists [n]. split; left; reflexivity.
  - destruct (Z.eqb_spec b' b) as [->|Hne].
    + exists (ns ++ [n]). split; [left; reflexivity|apply in_app_iff; right; left; reflexivity].
    + destruct IH as (ns' & A & B). exists ns'. split; [right; exact A|exact B].
Qed.

Lemma ins_grp_mono b n l b0 n0 : listed b0 n0 l -> listed b0 n0 (ins_grp b n l).
Proof.
  intros (ns0 & Hin & Hn). induction l as [|[b' ns] r IH]; [destruct Hin|]. cbn.
  destruct (Z.eqb_spec b' b) as [->|Hne].
  - destruct Hin as [E|Hin].
    + inversion E; subst. exists (ns0 ++ [n]). split; [left; reflexivity|apply in_app_iff; left; exact Hn].
    + exists ns0. split; [right; exact Hin|exact Hn].
  - destruct Hin as [E|Hin].
    + inversion E; subst. exists ns0. split; [left; reflexivity|exact Hn].
    + destruct (IH Hin) as (ns' & A & B). exists ns'. split; [right; exact A|exact B].
Qed.

Definition step_operand (g : subgraph) (acc : list (Z * list name_t)) (x : Z) :=
  if Z.eqb x (-1) then acc else
  match nthZ (sg_tensors g) x with
  | None => acc
  | Some t => ins_grp (t_buf t) (tname t) acc
  end.

Lemma step_operand_mono g acc x b0 n0 : listed b0 n0 acc -> listed b0 n0 (step_operand g acc x).
Proof.
  intros H. unfold step_operand. destruct (Z.eqb x (-1)); [exact H|].
  destruct (nthZ (sg_tensors g) x); [apply ins_grp_mono; exact H|exact H].
Qed.

Lemma fold_mono {A} (f : list (Z * list name_t) -> A -> list (Z * list name_t)) b0 n0 :
  (forall acc x, listed b0 n0 acc -> listed b0 n0 (f acc x)) ->
  forall l acc, listed b0 n0 acc -> listed b0 n0 (fold_left f l acc).
Proof. intros Hf. induction l as [|x l IH]; intros acc H; cbn; [exact H|apply IH, Hf, H]. Qed.

Lemma fold_hits {A} (f : list (Z * list name_t) -> A -> list (Z * list name_t)) b0 n0 :
  (forall acc x, listed b0 n0 acc -> listed b0 n0 (f acc x)) ->
  forall l x0, In x0 l -> (forall acc, listed b0 n0 (f acc x0)) ->
  forall acc, listed b0 n0 (fold_left f l acc).
Proof.
  intros Hf. induction l as [|x l IH]; intros x0 Hin Hx acc; [destruct Hin|]. cbn.
  destruct Hin as [->|Hin]; [apply fold_mono; [exact Hf|apply Hx]|eapply IH; eassumption].
Qed.

Lemma fold_left_ext {A B} (f g : A -> B -> A) : (forall a b, f a b = g a b) ->
  forall l a, fold_left f l a = fold_left g l a.
Proof. intros H. induction l as [|x l IH]; intros a; cbn; [reflexivity|]. rewrite H. apply IH. Qed.

Lemma buffer_groups_eq m :
  buffer_groups m =
  fold_left (fun acc g => fold_left (fun acc o => fold_left (step_operand g) (o_outs o ++ o_ins o) acc)
                                    (sg_ops g) acc) (m_subgraphs m) [].
Proof.
  unfold buffer_groups. apply fold_left_ext. intros acc g. apply fold_left_ext. intros acc2 o.
  apply fold_left_ext. intros acc3 x. unfold step_operand. destruct (Z.eqb x (-1)); [reflexivity|].
  destruct (nthZ (sg_tensors g) x) as [t|]; [|reflexivity].
  induction acc3 as [|[b ns] r IH]; cbn; [reflexivity|].
  destruct (Z.eqb b (t_buf t)); [reflexivity|]. f_equal. exact IH.
Qed.

Theorem buffer_groups_lists_every_operand m g o x t :
  In g (m_subgraphs m) -> In o (sg_ops g) -> In x (o_outs o ++ o_ins o) -> x <> -1 ->
  nthZ (sg_tensors g) x = Some t ->
  listed (t_buf t) (tname t) (buffer_groups m).
Proof.
  intros Hg Ho Hx Hne Ht. rewrite buffer_groups_eq.
  eapply (fold_hits _ _ _ _ _ g Hg).
  - intros acc. eapply (fold_hits _ _ _ _ _ o Ho).
    + intros acc2. eapply (fold_hits _ _ _ _ _ x Hx).
      * intros acc3. unfold step_operand. destruct (Z.eqb_spec x (-1)); [contradiction|].
        rewrite Ht. apply ins_grp_listed.
  Unshelve.
  all: try (intros; apply fold_mono; [|assumption]; intros; try (apply fold_mono; [|assumption]; intros); apply step_operand_mono; assumption).
  all: try (intros; apply step_operand_mono; assumption).
Qed.
