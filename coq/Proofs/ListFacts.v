(* Proofs/ListFacts.v — facts about the list utilities of Base/Prelude.v. *)
From VF Require Import Base.Prelude.

Lemma nth_opt_nth_error {A} (l : list A) n : nth_opt l n = nth_error l n.
Proof. revert n; induction l as [|x l IH]; intros [|n]; cbn; auto. Qed.

Lemma nth_opt_Some_lt {A} (l : list A) n a : nth_opt l n = Some a -> (n < length l)%nat.
Proof. rewrite nth_opt_nth_error. intros H. apply nth_error_Some. congruence. Qed.

Lemma nth_opt_lt_Some {A} (l : list A) n : (n < length l)%nat -> exists a, nth_opt l n = Some a.
Proof.
  rewrite nth_opt_nth_error. intros H. destruct (nth_error l n) eqn:E; [eauto|].
  apply nth_error_None in E. lia.
Qed.

Lemma nth_opt_In {A} (l : list A) n a : nth_opt l n = Some a -> In a l.
Proof. rewrite nth_opt_nth_error. apply nth_error_In. Qed.

Lemma In_nth_opt {A} (l : list A) a : In a l -> exists n, nth_opt l n = Some a.
Proof. intros H. apply In_nth_error in H. destruct H as [n H]. exists n. rewrite nth_opt_nth_error. exact H. Qed.

Lemma nth_opt_app_l {A} (l r : list A) n : (n < length l)%nat -> nth_opt (l ++ r) n = nth_opt l n.
Proof. rewrite !nth_opt_nth_error. apply nth_error_app1. Qed.

Lemma nth_opt_app_r {A} (l r : list A) n : (length l <= n)%nat -> nth_opt (l ++ r) n = nth_opt r (n - length l).
Proof. rewrite !nth_opt_nth_error. apply nth_error_app2. Qed.

Lemma length_set_nth {A} (l : list A) n a : length (set_nth l n a) = length l.
Proof. revert n; induction l as [|x l IH]; intros [|n]; cbn; auto. Qed.

Lemma nth_opt_set_nth_same {A} (l : list A) n a :
  (n < length l)%nat -> nth_opt (set_nth l n a) n = Some a.
Proof. revert n; induction l as [|x l IH]; intros [|n] H; cbn in *; try lia; auto. apply IH. lia. Qed.

Lemma nth_opt_set_nth_other {A} (l : list A) n k a :
  k <> n -> nth_opt (set_nth l n a) k = nth_opt l k.
Proof.
  revert n k; induction l as [|x l IH]; intros [|n] [|k] H; cbn; auto; try congruence.
Qed.

Lemma length_insert_at {A} (l : list A) n a : length (insert_at l n a) = S (length l).
Proof. revert l; induction n as [|n IH]; intros [|x l]; cbn; auto. Qed.

Lemma nth_opt_insert_at {A} (l : list A) n a k :
  (n <= length l)%nat ->
  nth_opt (insert_at l n a) k =
  if (k <? n)%nat then nth_opt l k
  else if (k =? n)%nat then Some a else nth_opt l (k - 1).
Proof.
  revert l k; induction n as [|n IH]; intros l k Hn.
  - destruct l; destruct k as [|k]; cbn; try reflexivity; rewrite Nat.sub_0_r; reflexivity.
  - destruct l as [|x l]; cbn in Hn; [lia|].
    destruct k as [|k]; cbn [insert_at nth_opt]; [reflexivity|].
    rewrite IH by lia.
    change (S k <? S n)%nat with (k <? n)%nat. change (S k =? S n)%nat with (k =? n)%nat.
    destruct (k <? n)%nat eqn:E1; [reflexivity|].
    destruct (k =? n)%nat eqn:E2; [reflexivity|].
    apply Nat.ltb_ge in E1. apply Nat.eqb_neq in E2.
    destruct k as [|k]; [lia|]. cbn. rewrite Nat.sub_0_r. reflexivity.
Qed.

(* position of an old element after an insertion at n *)
Definition shift_pos (n k : nat) : nat := if (k <? n)%nat then k else S k.

Lemma nth_opt_insert_at_old {A} (l : list A) n a k :
  (n <= length l)%nat -> nth_opt (insert_at l n a) (shift_pos n k) = nth_opt l k.
Proof.
  intros Hn. rewrite nth_opt_insert_at by assumption. unfold shift_pos.
  destruct (k <? n)%nat eqn:E.
  - rewrite E. reflexivity.
  - apply Nat.ltb_ge in E.
    replace (S k <? n)%nat with false by (symmetry; apply Nat.ltb_ge; lia).
    replace (S k =? n)%nat with false by (symmetry; apply Nat.eqb_neq; lia).
    cbn. rewrite Nat.sub_0_r. reflexivity.
Qed.

Lemma insert_at_cases {A} (l : list A) n a k x :
  (n <= length l)%nat -> nth_opt (insert_at l n a) k = Some x ->
  (k = n /\ x = a) \/ (exists k0, k = shift_pos n k0 /\ nth_opt l k0 = Some x).
Proof.
  intros Hn H. rewrite nth_opt_insert_at in H by assumption.
  destruct (k <? n)%nat eqn:E1.
  - right. exists k. split; [|assumption]. unfold shift_pos. rewrite E1. reflexivity.
  - destruct (k =? n)%nat eqn:E2.
    + left. apply Nat.eqb_eq in E2. inversion H. auto.
    + right. apply Nat.ltb_ge in E1. apply Nat.eqb_neq in E2. exists (k - 1)%nat.
      split; [|assumption]. unfold shift_pos.
      replace (k - 1 <? n)%nat with false by (symmetry; apply Nat.ltb_ge; lia). cbn iota. lia.
Qed.

Lemma shift_pos_mono n a b : (a < b)%nat -> (shift_pos n a < shift_pos n b)%nat.
Proof.
  unfold shift_pos. intros H.
  destruct (Nat.ltb_spec a n); destruct (Nat.ltb_spec b n); lia.
Qed.

Lemma shift_pos_ne n k : shift_pos n k <> n.
Proof.
  unfold shift_pos. destruct (Nat.ltb_spec k n); lia.
Qed.

Lemma memZ_In x l : memZ x l = true <-> In x l.
Proof.
  unfold memZ. rewrite existsb_exists. split.
  - intros (y & Hy & E). apply Z.eqb_eq in E. subst. assumption.
  - intros H. exists x. split; [assumption|apply Z.eqb_refl].
Qed.

Lemma py_index_nonneg {A} (l : list A) i a :
  0 <= i -> py_index l i = Ok a -> nth_opt l (Z.to_nat i) = Some a /\ i < Z.of_nat (length l).
Proof.
  unfold py_index. intros Hi.
  destruct (i <? 0) eqn:E; [lia|].
  destruct ((i <? 0) || (Z.of_nat (length l) <=? i)) eqn:E2; [discriminate|].
  apply orb_false_iff in E2. destruct E2 as [_ E2]. apply Z.leb_gt in E2.
  destruct (nth_opt l (Z.to_nat i)) eqn:E3; [|discriminate].
  intros H. inversion H. subst. auto.
Qed.

Lemma minZ_le d l : minZ d l <= d /\ Forall (fun x => minZ d l <= x) l.
Proof.
  revert d; induction l as [|x l IH]; intros d; cbn; [split; [lia|constructor]|].
  destruct (IH (Z.min d x)) as [H1 H2]. split; [lia|].
  constructor; [lia|exact H2].
Qed.

Lemma py_min_le l m : py_min l = Ok m -> Forall (fun x => m <= x) l /\ In m l.
Proof.
  destruct l as [|x l]; cbn; [discriminate|]. intros H. inversion H; subst; clear H.
  destruct (minZ_le x l) as [H1 H2]. split; [constructor; assumption|].
  clear H1 H2. revert x. induction l as [|y l IH]; intros x; cbn; [left; reflexivity|].
  destruct (IH (Z.min x y)) as [H|H].
  - destruct (Z.min_spec x y) as [[_ E]|[_ E]]; rewrite E in H; [left|right; left]; congruence.
  - right. right. assumption.
Qed.
