(* Proofs/PurityProofs.v — lemmas behind C14: the plan (hence the whole
   pipeline) depends on the recipe manager only through the flattened rule
   list. *)
From VF Require Import Base.Prelude Gen.Enums Gen.Configs Gen.Registry Gen.Checks Gen.Scopes
     Model.Recipe Model.Check Model.Graph Model.Plan Model.Insts Model.Perform Model.Pipeline
     Proofs.RecipeProofs.

Lemma foldM_ext {A S} (f g : S -> A -> res S) :
  (forall s a, f s a = g s a) -> forall l s, foldM f l s = foldM g l s.
Proof.
  intros H. induction l as [|a l IH]; intros s; cbn; [reflexivity|].
  rewrite H. destruct (g s a); cbn; [apply IH|reflexivity].
Qed.

Section Purity.
  Variable matches : Z -> Z -> bool.
  Variable post_init : ocfg -> res unit.

  Definition same_resolution (r1 r2 : state) : Prop :=
    (forall o sc, get check matches r1 o sc = get check matches r2 o sc) /\
    need_calibration r1 = need_calibration r2.

  Lemma get_recipe_flatten s :
    get_recipe s = map (fun r => {| j_regex := r_regex r; j_op := r_op r; j_alg := r_alg r;
                                    j_dict := Some (to_dict (r_cfg r)) |}) (flatten s).
  Proof.
    unfold get_recipe, flatten. induction s as [|[k v] s IH]; cbn; [reflexivity|].
    rewrite map_app, IH. reflexivity.
  Qed.

  Lemma same_flatten_same_resolution r1 r2 :
    Inv check r1 -> Inv check r2 -> flatten r1 = flatten r2 -> same_resolution r1 r2.
  Proof.
    intros I1 I2 E. split.
    - intros o sc. unfold get, resolve_spec.
      rewrite !scan_scopes_fold by (eapply Inv_keys_ok; eassumption). rewrite E. reflexivity.
    - unfold need_calibration. rewrite !get_recipe_flatten, E. reflexivity.
  Qed.

  Lemma plan_op_ext r1 r2 bufs st ts op :
    (forall o sc, get check matches r1 o sc = get check matches r2 o sc) ->
    plan_op matches r1 bufs st ts op = plan_op matches r2 bufs st ts op.
  Proof.
    intros H. unfold plan_op. destruct st as [rs s]. destruct (po_key op) as [o|]; [|reflexivity].
    rewrite H. reflexivity.
  Qed.

  Theorem plan_ext r1 r2 bufs scope_id m scopes stats :
    same_resolution r1 r2 ->
    plan matches r1 bufs scope_id m scopes stats = plan matches r2 bufs scope_id m scopes stats.
  Proof.
    intros [Hg Hn]. unfold plan. rewrite Hn.
    destruct (need_calibration r2 && match stats with None => true | Some _ => false end); [reflexivity|].
    f_equal. apply foldM_ext. intros st [gi [g sc]]. apply foldM_ext. intros st' op.
    apply plan_op_ext. exact Hg.
  Qed.

  Theorem pipeline_cls_ext mk_cls r1 r2 scope_id m scopes stats :
    same_resolution r1 r2 ->
    pipeline_cls mk_cls matches r1 scope_id m scopes stats
    = pipeline_cls mk_cls matches r2 scope_id m scopes stats.
  Proof.
    intros H. unfold pipeline_cls, plan_checked_cls. rewrite (plan_ext r1 r2 _ _ _ _ _ H). reflexivity.
  Qed.

  Theorem pipeline_ext r1 r2 scope_id m scopes stats :
    same_resolution r1 r2 ->
    pipeline matches r1 scope_id m scopes stats = pipeline matches r2 scope_id m scopes stats.
  Proof. apply pipeline_cls_ext. Qed.
End Purity.
