(* Proofs/NameInv.v — C01, clause "tensor names are unique": every inserted
   tensor gets a name that no tensor of its subgraph carries
   (add_new_activation_tensor's retry loop, modelled with fuel = number of
   tensors + 1, never runs out: pigeonhole), quantize_tensor renames nothing,
   hence uniqueness of names is preserved by every performer step and by whole
   runs of transform_graph. *)
From Coq Require Import FinFun.
From VF Require Import Base.Prelude Gen.Enums Model.Graph Gen.InstChecks Model.Perform Spec.WF Spec.WFb
     Proofs.ListFacts Proofs.PerformStep Proofs.ModeProofs Proofs.LocalProofs Proofs.PerformInv
     Proofs.RangeInv.

Definition ninv (m : model) : Prop :=
  forall k g, nth_opt (m_subgraphs m) k = Some g -> names_unique g.

Lemma map_set_nth_same {A B} (f : A -> B) : forall (l : list A) n a b,
  nth_opt l n = Some b -> f a = f b -> map f (set_nth l n a) = map f l.
Proof.
  induction l as [|x l IH]; intros n a b Hn E; [reflexivity|].
  destruct n; cbn in *.
  - inversion Hn; subst. rewrite E. reflexivity.
  - f_equal. eapply IH; eassumption.
Qed.

Lemma NoDup_snoc {A} (l : list A) x : NoDup l -> ~ In x l -> NoDup (l ++ [x]).
Proof.
  induction l as [|y l IH]; intros ND Hn; cbn.
  - constructor; [intros []|constructor].
  - inversion ND as [|? ? Hy ND']; subst. constructor.
    + rewrite in_app_iff. intros [C|[C|[]]]; [contradiction|]. subst. apply Hn. left. reflexivity.
    + apply IH; [exact ND'|]. intros C. apply Hn. right. exact C.
Qed.

Lemma list_eqb_Z_spec : forall a b : list Z, list_eqb Z.eqb a b = true <-> a = b.
Proof.
  induction a as [|x a IH]; intros [|y b]; cbn; try (split; [discriminate|discriminate]); [tauto|].
  rewrite Bool.andb_true_iff, Z.eqb_eq, IH. split; [intros [-> ->]; reflexivity|intros E; inversion E; auto].
Qed.

Lemma has_name_spec ts root sfx :
  has_name ts root sfx = true <-> In (root, sfx) (map tname ts).
Proof.
  unfold has_name. rewrite existsb_exists. split.
  - intros (t & Ht & E). apply Bool.andb_true_iff in E. destruct E as [E1 E2].
    apply Z.eqb_eq in E1. apply list_eqb_Z_spec in E2. apply in_map_iff. exists t.
    split; [unfold tname; congruence|exact Ht].
  - intros H. apply in_map_iff in H. destruct H as (t & E & Ht). exists t. split; [exact Ht|].
    unfold tname in E. inversion E; subst. rewrite Z.eqb_refl. cbn. apply list_eqb_Z_spec. reflexivity.
Qed.

(* the candidate names of the retry loop: base, base_1, base_2, ... *)
Definition cand (sfx : list Z) (k : Z) : list Z := if Z.eqb k 0 then sfx else sfx ++ [2 + k].

Lemma cand_inj sfx a b : 0 <= a -> 0 <= b -> cand sfx a = cand sfx b -> a = b.
Proof.
  unfold cand. intros Ha Hb. destruct (Z.eqb_spec a 0) as [->|Na], (Z.eqb_spec b 0) as [->|Nb]; intros E.
  - reflexivity.
  - exfalso. apply (f_equal (@length Z)) in E. rewrite app_length in E. cbn in E. lia.
  - exfalso. apply (f_equal (@length Z)) in E. rewrite app_length in E. cbn in E. lia.
  - apply app_inj_tail in E. destruct E as [_ E]. lia.
Qed.

Lemma fresh_sfx_spec ts root sfx : forall fuel k,
  exists j, (j <= fuel)%nat /\
    fresh_sfx ts root sfx k fuel = cand sfx (k + Z.of_nat j) /\
    (forall i, (i < j)%nat -> In (root, cand sfx (k + Z.of_nat i)) (map tname ts)) /\
    (In (root, cand sfx (k + Z.of_nat j)) (map tname ts) -> j = fuel).
Proof.
  induction fuel as [|f IH]; intros k.
  - exists 0%nat. cbn [fresh_sfx]. rewrite Z.add_0_r. fold (cand sfx k).
    split; [lia|]. split; [reflexivity|]. split; [intros i Hi; lia|reflexivity].
  - cbn [fresh_sfx]. fold (cand sfx k).
    destruct (has_name ts root (cand sfx k)) eqn:E.
    + apply has_name_spec in E. destruct (IH (k + 1)) as (j & Hj & Ef & Hall & Hlast).
      exists (S j). split; [lia|].
      replace (k + Z.of_nat (S j)) with (k + 1 + Z.of_nat j) by lia.
      split; [exact Ef|]. split.
      * intros i Hi. destruct i as [|i]; [rewrite Z.add_0_r; exact E|].
        replace (k + Z.of_nat (S i)) with (k + 1 + Z.of_nat i) by lia. apply Hall. lia.
      * intros H. f_equal. apply Hlast. exact H.
    + exists 0%nat. rewrite Z.add_0_r. split; [lia|]. split; [reflexivity|].
      split; [intros i Hi; lia|]. intros H. apply has_name_spec in H. congruence.
Qed.

(* the loop never runs out of fuel: the returned name is carried by no tensor *)
Theorem fresh_sfx_fresh ts root sfx :
  ~ In (root, fresh_sfx ts root sfx 0 (S (length ts))) (map tname ts).
Proof.
  destruct (fresh_sfx_spec ts root sfx (S (length ts)) 0) as (j & Hj & Ef & Hall & Hlast).
  rewrite Ef. intros H. specialize (Hlast H). subst j.
  (* length ts + 1 distinct names inside a list of length ts *)
  set (cs := map (fun i => (root, cand sfx (0 + Z.of_nat i))) (seq 0 (S (length ts)))).
  assert (ND : NoDup cs).
  { unfold cs. apply FinFun.Injective_map_NoDup; [|apply seq_NoDup].
    intros a b E. inversion E as [E1]. apply cand_inj in E1; lia. }
  assert (Inc : incl cs (map tname ts)).
  { intros x Hx. unfold cs in Hx. apply in_map_iff in Hx. destruct Hx as (i & <- & Hi).
    apply in_seq in Hi. apply Hall. lia. }
  pose proof (NoDup_incl_length ND Inc) as L. unfold cs in L.
  rewrite !map_length, seq_length in L. lia.
Qed.

(* ---- quantize_tensor keeps every name ---- *)
Lemma quantize_tensor_names bufs g tid ps bufs' g' :
  0 <= tid -> quantize_tensor bufs g tid ps = Ok (bufs', g') ->
  map tname (sg_tensors g') = map tname (sg_tensors g).
Proof.
  intros Ht H. unfold quantize_tensor in H.
  destruct (get_tensor g tid) as [t0|] eqn:Et; cbn [bind] in H; [|discriminate].
  unfold get_tensor in Et. destruct (py_index_nonneg _ _ _ Ht Et) as [Hn Hlt].
  replace (if tid <? 0 then tid + lenZ (sg_tensors g) else tid) with tid in H
    by (destruct (Z.ltb_spec tid 0); [lia|reflexivity]).
  destruct ps as [p|].
  - match type of H with bind ?m _ = _ => destruct m as [b2|] end; cbn [bind] in H; [|discriminate].
    match type of H with bind ?m _ = _ => destruct m as [t2|] eqn:Et2 end; cbn [bind] in H; [|discriminate].
    inversion H; subst bufs' g'; clear H.
    assert (M2 : tname t2 = tname t0).
    { destruct (qp_uniform p).
      - destruct (quant_params_to_tflite_type (qp_bits p)); cbn [bind] in Et2; [|discriminate]. inversion Et2; reflexivity.
      - destruct (nonlinear_quant_params_to_tflite_type (qp_bits p)); cbn [bind] in Et2; [|discriminate]. inversion Et2; reflexivity. }
    unfold set_tensor. cbn [sg_tensors].
    eapply map_set_nth_same; [exact Hn|exact M2].
  - destruct (negb (t_buf t0 =? 0)); [discriminate|]. inversion H; subst. reflexivity.
Qed.

(* ---- one insertion: the old names, then one fresh name ---- *)
Lemma insert_common_names is_quant codes bufs g tid producer cs ps codes' bufs' g' info :
  0 <= tid ->
  insert_common is_quant codes bufs g tid producer cs ps = Ok (codes', bufs', g', info) ->
  exists nm, map tname (sg_tensors g') = map tname (sg_tensors g) ++ [nm] /\
             ~ In nm (map tname (sg_tensors g)).
Proof.
  intros Ht Hrun. unfold insert_common in Hrun.
  destruct (add_op_code (if is_quant then BC_QUANTIZE else BC_DEQUANTIZE) codes) as [cidx cds].
  destruct (get_tensor g tid) as [t0|] eqn:E; cbn [bind] in Hrun; [|discriminate].
  match type of Hrun with bind ?m _ = _ => destruct m as [[bufs2 g2]|] eqn:E0 end;
    cbn [bind] in Hrun; [|discriminate].
  destruct (py_min cs) as [z|]; cbn [bind] in Hrun; [|discriminate].
  match type of Hrun with bind ?m _ = _ => destruct m as [l|] end; cbn [bind] in Hrun; [|discriminate].
  destruct (Z.max (producer + 1) z <? 0); [discriminate|].
  inversion Hrun; subst; clear Hrun. cbn [sg_tensors].
  match type of E0 with quantize_tensor _ ?G ?T _ = _ => set (g1 := G) in *; set (tq := T) in * end.
  assert (Htq : 0 <= tq) by (unfold tq; destruct is_quant; unfold lenZ; lia).
  rewrite (quantize_tensor_names _ _ _ _ _ _ Htq E0). unfold g1. cbn [sg_tensors].
  rewrite map_app. cbn [map].
  eexists. split; [reflexivity|].
  unfold new_activation_tensor, tname at 1. cbn [t_root t_sfx]. apply fresh_sfx_fresh.
Qed.

Lemma names_unique_snoc g g' nm :
  names_unique g -> map tname (sg_tensors g') = map tname (sg_tensors g) ++ [nm] ->
  ~ In nm (map tname (sg_tensors g)) -> names_unique g'.
Proof.
  unfold names_unique. intros ND E Hn. rewrite E.
  apply NoDup_snoc; assumption.
Qed.

(* ---- every performer step preserves uniqueness of names ---- *)
Theorem apply_single_ninv st sgid i later rest st' later' :
  ginv st ((sgid, i) :: map (pair sgid) later ++ rest) -> ninv (ps_model st) ->
  apply_single st sgid i later = Ok (st', later') -> ninv (ps_model st').
Proof.
  intros HG HN H. pose proof HG as [Lo La Hm Hp].
  destruct (Hp sgid i (or_introl eq_refl)) as [Hs Hi].
  destruct (apply_single_tables _ _ _ _ _ _ Hs H) as (om & am & g & Eo & Ea & Eg & Hcase).
  destruct (Hi _ _ _ Eg Eo Ea) as (Ht & _ & _).
  assert (Ht0 : 0 <= i_tensor i) by lia.
  destruct Hcase as [(bufs & g' & Hq & _ & _ & _ & Em)|(q & producer & cs & codes & bufs & g' & info & _ & _ & Hins & _ & _ & _ & Em)];
    intros k g0 Hk; rewrite Em in Hk.
  - destruct (Nat.eq_dec k (Z.to_nat sgid)) as [->|Hne].
    + rewrite (nth_opt_set_nth_eq _ _ _ _ Eg) in Hk. inversion Hk; subst g0.
      unfold names_unique. rewrite (quantize_tensor_names _ _ _ _ _ _ Ht0 Hq). exact (HN _ _ Eg).
    + rewrite nth_opt_set_nth_other in Hk by exact Hne. exact (HN _ _ Hk).
  - destruct (Nat.eq_dec k (Z.to_nat sgid)) as [->|Hne].
    + rewrite (nth_opt_set_nth_eq _ _ _ _ Eg) in Hk. inversion Hk; subst g0.
      destruct (insert_common_names _ _ _ _ _ _ _ _ _ _ _ _ Ht0 Hins) as (nm & E & Hn).
      eapply names_unique_snoc; [exact (HN _ _ Eg)|exact E|exact Hn].
    + rewrite nth_opt_set_nth_other in Hk by exact Hne. exact (HN _ _ Hk).
Qed.

(* ---- whole runs ---- *)
Theorem transform_graph_names_unique m tis m' :
  Forall wf_sg (m_subgraphs m) ->
  (forall ti i, In ti tis -> In i (ti_insts ti) -> sane m (ti_sg ti) i) ->
  Forall names_unique (m_subgraphs m) ->
  transform_graph m tis = Ok m' -> Forall names_unique (m_subgraphs m').
Proof.
  intros Hsg Hsane HN H. unfold transform_graph in H.
  match type of H with bind ?x _ = _ => destruct x as [st|] eqn:E end; cbn [bind] in H; [|discriminate].
  inversion H; subst.
  assert (HN0 : ninv m).
  { intros k g Hk. rewrite Forall_forall in HN. apply HN. eapply nth_opt_In; exact Hk. }
  destruct (foldM_lift (fun st => ninv (ps_model st)) apply_single_ninv _ _ _
              (init_ginv _ _ Hsg Hsane) HN0 E) as [_ HR].
  apply Forall_forall. intros g Hg. destruct (In_nth_opt _ _ Hg) as [k Hk]. exact (HR _ _ Hk).
Qed.

(* ---- the executable check is sound ---- *)
Lemma name_pair_eqb_spec a b : name_pair_eqb a b = true <-> a = b.
Proof.
  unfold name_pair_eqb. destruct a as [r1 s1], b as [r2 s2]. cbn.
  rewrite Bool.andb_true_iff, Z.eqb_eq, list_eqb_Z_spec. split; [intros [-> ->]; reflexivity|intros E; inversion E; auto].
Qed.

Theorem names_uniqueb_sound g : names_uniqueb g = true -> names_unique g.
Proof.
  unfold names_uniqueb, names_unique. generalize (map tname (sg_tensors g)).
  induction l as [|x l IH]; cbn; intros H; [constructor|].
  apply Bool.andb_true_iff in H. destruct H as [H1 H2]. constructor; [|apply IH; exact H2].
  intros C. apply Bool.negb_true_iff in H1.
  assert (existsb (name_pair_eqb x) l = true).
  { apply existsb_exists. exists x. split; [exact C|apply name_pair_eqb_spec; reflexivity]. }
  congruence.
Qed.
