(* Proofs/SerialProofs.v — C16: alignment, bounds, disjointness and content of
   the external-buffer regions. *)
From Coq Require Import ZArith List Bool Lia.
From VF Require Import Model.Serial.
Import ListNotations.
Open Scope Z_scope.
Ltac Zify.zify_post_hook ::= Z.to_euclidean_division_equations.

Lemma lenZ_app {A} (a b : list A) : lenZ (a ++ b) = lenZ a + lenZ b.
Proof. unfold lenZ. rewrite app_length. lia. Qed.
Lemma lenZ_nonneg {A} (a : list A) : 0 <= lenZ a.
Proof. unfold lenZ. lia. Qed.
Lemma lenZ_zeros n : 0 <= n -> lenZ (zeros n) = n.
Proof. intros H. unfold lenZ, zeros. rewrite repeat_length. lia. Qed.

Lemma pad_amount_spec n : 0 <= pad_amount n < 16 /\ (n + pad_amount n) mod 16 = 0.
Proof. unfold pad_amount. lia. Qed.

Lemma pad_amount_aligned n : n mod 16 = 0 -> pad_amount n = 0.
Proof. unfold pad_amount. lia. Qed.

Lemma lenZ_pad16 b : lenZ (pad16 b) = lenZ b + pad_amount (lenZ b) /\ lenZ (pad16 b) mod 16 = 0.
Proof.
  unfold pad16. rewrite lenZ_app, lenZ_zeros by (pose proof (pad_amount_spec (lenZ b)); lia).
  split; [reflexivity|apply pad_amount_spec].
Qed.

Definition region_ok (total : Z) (r : option (Z * Z)) : Prop :=
  match r with None => True | Some (o, s) => o mod 16 = 0 /\ 0 <= s /\ 0 <= o /\ o + s <= total end.

(* every region is aligned, lies between the running position and the end,
   regions come in buffer order without overlap, and the end is aligned *)
Fixpoint ordered_from (cur : Z) (t : list (option (Z * Z))) : Prop :=
  match t with
  | [] => True
  | None :: r => ordered_from cur r
  | Some (o, s) :: r => cur <= o /\ ordered_from (o + s) r
  end.

Lemma ordered_from_mono : forall t a b, a <= b -> ordered_from b t -> ordered_from a t.
Proof.
  induction t as [|[[o s]|] t IHt]; cbn; intros a b Hab H; auto.
  - destruct H; split; [lia|assumption].
  - eapply IHt; eassumption.
Qed.

Lemma assign_offsets_spec cm : forall cur,
  0 <= cur -> cur mod 16 = 0 ->
  let '(t, e) := assign_offsets cur cm in
  cur <= e /\ e mod 16 = 0 /\ Forall (region_ok e) t /\ ordered_from cur t /\
  length t = length cm /\
  (forall k, nth_error cm k = Some None <-> nth_error t k = Some None).
Proof.
  induction cm as [|[d|] r IH]; intros cur H0 Ha; cbn [assign_offsets].
  - repeat split; try lia; try constructor; intros H; destruct k; discriminate.
  - pose proof (pad_amount_spec (cur + lenZ d)) as [P1 P2]. pose proof (lenZ_nonneg d) as Hd.
    specialize (IH (cur + lenZ d + pad_amount (cur + lenZ d)) ltac:(lia) P2).
    destruct (assign_offsets (cur + lenZ d + pad_amount (cur + lenZ d)) r) as [t e].
    destruct IH as (I1 & I2 & I3 & I4 & I5 & I6).
    split; [lia|]. split; [exact I2|]. split.
    + constructor; [cbn; repeat split; lia|exact I3].
    + split.
      * cbn. split; [lia|]. eapply ordered_from_mono; [|exact I4]. lia.
      * split; [cbn; congruence|]. intros k. destruct k; cbn; [split; discriminate|apply I6].
  - specialize (IH cur H0 Ha). destruct (assign_offsets cur r) as [t e].
    destruct IH as (I1 & I2 & I3 & I4 & I5 & I6).
    repeat split; try assumption; try (constructor; [exact I|assumption]); try (cbn; congruence).
    + intros H. destruct k; cbn in *; [reflexivity|apply I6; assumption].
    + intros H. destruct k; cbn in *; [reflexivity|apply I6; assumption].
Qed.

(* content: the file assembled in pass 2 carries, at every (offset, size) of
   pass 1, exactly that buffer's bytes — provided the two encoded flatbuffers
   have the same padded length *)
Lemma slice_app_exact (a d rest : list Z) :
  slice (lenZ a) (lenZ d) (a ++ d ++ rest) = d.
Proof.
  unfold slice, lenZ. rewrite !Nat2Z.id. rewrite skipn_app, skipn_all, Nat.sub_diag. cbn [skipn app].
  rewrite firstn_app, firstn_all, Nat.sub_diag. cbn. apply app_nil_r.
Qed.

Lemma append_constants_prefix cm : forall acc, exists rest, append_constants acc cm = acc ++ rest.
Proof.
  induction cm as [|[d|] r IH]; intros acc; cbn [append_constants].
  - exists []. symmetry. apply app_nil_r.
  - destruct (IH (pad16 (acc ++ d))) as [rest E]. rewrite E. unfold pad16.
    exists (d ++ zeros (pad_amount (lenZ (acc ++ d))) ++ rest). rewrite <- !app_assoc. reflexivity.
  - apply IH.
Qed.

Lemma content_spec cm : forall acc cur k d,
  lenZ acc = cur ->
  nth_error cm k = Some (Some d) ->
  exists o, nth_error (fst (assign_offsets cur cm)) k = Some (Some (o, lenZ d)) /\
            slice o (lenZ d) (append_constants acc cm) = d.
Proof.
  induction cm as [|[d0|] r IH]; intros acc cur k d Hl Hk; [destruct k; discriminate| |].
  - cbn [assign_offsets append_constants].
    assert (Hl2 : lenZ (pad16 (acc ++ d0)) = cur + lenZ d0 + pad_amount (cur + lenZ d0)).
    { destruct (lenZ_pad16 (acc ++ d0)) as [E _]. rewrite E, lenZ_app, Hl. reflexivity. }
    destruct (assign_offsets (cur + lenZ d0 + pad_amount (cur + lenZ d0)) r) as [t e] eqn:Et.
    destruct k.
    + cbn in Hk. inversion Hk; subst d0. exists cur. split; [reflexivity|].
      destruct (append_constants_prefix r (pad16 (acc ++ d))) as [rest E]. rewrite E.
      unfold pad16. rewrite <- !app_assoc. rewrite <- Hl. apply slice_app_exact.
    + cbn in Hk. destruct (IH (pad16 (acc ++ d0)) _ k d Hl2 Hk) as (o & Ho & Hs).
      rewrite Et in Ho. exists o. split; [exact Ho|exact Hs].
  - cbn [assign_offsets append_constants].
    destruct (assign_offsets cur r) as [t e] eqn:Et.
    destruct k; [discriminate|]. cbn in Hk.
    destruct (IH acc cur k d Hl Hk) as (o & Ho & Hs). rewrite Et in Ho.
    exists o. split; [exact Ho|exact Hs].
Qed.

Lemma total_length cm : forall acc cur,
  lenZ acc = cur -> lenZ (append_constants acc cm) = snd (assign_offsets cur cm).
Proof.
  induction cm as [|[d|] r IH]; intros acc cur Hl; cbn [assign_offsets append_constants].
  - exact Hl.
  - assert (Hl2 : lenZ (pad16 (acc ++ d)) = cur + lenZ d + pad_amount (cur + lenZ d)).
    { destruct (lenZ_pad16 (acc ++ d)) as [E _]. rewrite E, lenZ_app, Hl. reflexivity. }
    rewrite (IH _ _ Hl2). destruct (assign_offsets (cur + lenZ d + pad_amount (cur + lenZ d)) r). reflexivity.
  - rewrite (IH _ _ Hl). destruct (assign_offsets cur r). reflexivity.
Qed.
