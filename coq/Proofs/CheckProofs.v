(* Proofs/CheckProofs.v — facts about the translated support checkers. *)
From VF Require Import Base.Prelude Gen.Enums Gen.Configs Gen.Policy
     Gen.Registry Gen.Checks Model.Recipe Model.Check.

(* The support check only ever returns or raises ValueError: this is what
   justifies modelling it as a boolean in Model/Recipe.v (the recipe manager
   catches ValueError only). *)
Ltac case_if :=
  match goal with
  | |- context [if ?b then _ else _] => destruct b eqn:?
  | |- context [match ?o with Some _ => _ | None => _ end] => destruct o eqn:?
  end.

Lemma check_subchannel_VE o c :
  check_subchannel_config o c = Ok tt \/ check_subchannel_config o c = Err ValueError.
Proof.
  unfold check_subchannel_config. destruct c as [a w p e s]. destruct w as [w|]; cbn;
    repeat (case_if; cbn); auto.
Qed.

Lemma check_if_valid_VE o c pol :
  check_if_valid_op_config o c (Some pol) = Ok tt \/
  check_if_valid_op_config o c (Some pol) = Err ValueError.
Proof.
  unfold check_if_valid_op_config. cbn.
  destruct (existsb (opname_eqb o) (map fst pol)) eqn:E1; cbn; auto.
  assert (Hget : exists l, policy_get pol o = Ok l).
  { clear -E1. induction pol as [|[k v] pol IH]; cbn in *; [discriminate|].
    destruct (opname_eqb_spec o k).
    - subst. destruct (opname_eqb_spec k k); [eauto|congruence].
    - cbn in E1. destruct (opname_eqb_spec k o); [congruence|]. auto. }
  destruct Hget as [l Hl]. rewrite Hl. cbn.
  destruct (existsb (ocfg_eqb c) l); cbn; auto.
Qed.

Opaque check_if_valid_op_config check_subchannel_config.
Lemma minmax_check_VE o c pol :
  minmax_check_op_quantization_config o c (Some pol) = Ok tt \/
  minmax_check_op_quantization_config o c (Some pol) = Err ValueError.
Proof.
  unfold minmax_check_op_quantization_config.
  destruct (ocfg_weight_tensor_config c) as [w|] eqn:Ew; cbn [is_none bind unopt]; auto.
  destruct (negb (dtype_eqb (tcfg_dtype w) Dt_INT)); auto.
  destruct (check_subchannel_VE o c) as [H2|H2];
    destruct (check_if_valid_VE o c pol) as [H|H]; rewrite ?H, ?H2;
    case_if; cbn [bind]; rewrite ?H, ?H2; cbn [bind]; auto.
Qed.
Transparent check_if_valid_op_config check_subchannel_config.
Lemma floatcast_check_VE o c pol :
  floatcast_check_op_quantization_config o c pol = Ok tt \/
  floatcast_check_op_quantization_config o c pol = Err ValueError.
Proof.
  unfold floatcast_check_op_quantization_config.
  repeat (case_if; cbn; auto).
  all: destruct (ocfg_weight_tensor_config c) as [w|]; cbn in *; try discriminate;
    repeat (case_if; cbn; auto).
Qed.

Theorem api_check_VE a o c :
  api_check a o c = Ok tt \/ api_check a o c = Err ValueError.
Proof.
  unfold api_check.
  destruct (ocfg_skip_checks c); auto.
  destruct (is_op_registered a o); cbn; auto.
  destruct a as [x|n]; auto.
  destruct x; cbn [existsb registered_checkers algname_eqb algname_code Z.eqb negb orb
                       policy_of fold_left registered_policies andb]; auto.
  - apply minmax_check_VE.
  - apply floatcast_check_VE.
Qed.
