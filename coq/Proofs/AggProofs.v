(* Proofs/AggProofs.v — compare_model's aggregation hands to the reduction
   (np.mean), for every tensor name, exactly the values compare_fn returned for
   that name, one per test input that lists it, in input order: no input is
   dropped, counted twice or mixed into another tensor's list. *)
From VF Require Import Base.Prelude Model.Valid.

Section Agg.
  Variable V : Type.

  Fixpoint lookup {A} (d : list (Z * A)) (k : Z) : option A :=
    match d with [] => None | (k', a) :: t => if Z.eqb k k' then Some a else lookup t k end.
  Definition get (d : list (Z * list V)) (k : Z) : list V :=
    match lookup d k with Some l => l | None => [] end.

  (* the values listed under name n by one sample / by all samples, in order *)
  Definition sample_values (n : Z) (s : list (Z * V)) : list V :=
    map snd (filter (fun kv => Z.eqb n (fst kv)) s).
  Definition values (n : Z) (samples : list (list (Z * V))) : list V :=
    flat_map (sample_values n) samples.

  Definition nonempty_lists (d : list (Z * list V)) : Prop := Forall (fun kl => snd kl <> []) d.

  Lemma get_append_to d k v n :
    get (append_to d k v) n = if Z.eqb n k then get d k ++ [v] else get d n.
  Proof.
    unfold get. induction d as [|[k' l] t IH]; cbn [append_to lookup].
    - destruct (Z.eqb n k); reflexivity.
    - destruct (Z.eqb_spec k k') as [Hkk'|Hkk']; cbn [lookup];
        destruct (Z.eqb_spec n k') as [Hn|Hn]; try exact IH;
        repeat match goal with |- context [Z.eqb ?a ?b] => destruct (Z.eqb_spec a b) end;
        try congruence; try reflexivity.
  Qed.

  Lemma keys_append_to (d : list (Z * list V)) k (v : V) :
    map fst (append_to d k v) = if existsb (Z.eqb k) (map fst d) then map fst d else map fst d ++ [k].
  Proof.
    induction d as [|[k' l] t IH]; cbn [append_to map fst existsb]; [reflexivity|].
    destruct (Z.eqb_spec k k') as [->|Hne]; cbn [map fst orb]; [reflexivity|].
    rewrite IH. destruct (existsb (Z.eqb k) (map fst t)); reflexivity.
  Qed.

  Lemma nonempty_append_to (d : list (Z * list V)) k (v : V) : nonempty_lists d -> nonempty_lists (append_to d k v).
  Proof.
    unfold nonempty_lists. induction d as [|[k' l] t IH]; intros H; cbn [append_to].
    - constructor; [cbn; discriminate|constructor].
    - inversion H as [|? ? H1 H2]; subst. destruct (Z.eqb k k').
      + constructor; [cbn; destruct l; discriminate|exact H2].
      + constructor; [exact H1|apply IH; exact H2].
  Qed.

  Lemma nodup_keys_append_to (d : list (Z * list V)) k (v : V) : NoDup (map fst d) -> NoDup (map fst (append_to d k v)).
  Proof.
    induction d as [|[k' l] t IH]; intros H; cbn [append_to map fst].
    - constructor; [intros []|constructor].
    - inversion H as [|? ? H1 H2]; subst. destruct (Z.eqb_spec k k') as [->|Hne]; cbn [map fst].
      + constructor; assumption.
      + constructor; [|apply IH; exact H2]. rewrite keys_append_to.
        destruct (existsb (Z.eqb k) (map fst t)); [exact H1|].
        intros Hin. apply in_app_iff in Hin. destruct Hin as [Hin|[E|[]]]; [contradiction|congruence].
  Qed.

  Lemma get_add_sample s : forall d n, get (add_sample d s) n = get d n ++ sample_values n s.
  Proof.
    unfold add_sample, sample_values. induction s as [|[k v] s IH]; intros d n; cbn [fold_left filter map fst snd].
    - rewrite app_nil_r. reflexivity.
    - rewrite IH, get_append_to. destruct (Z.eqb_spec n k) as [->|Hne].
      + cbn [map snd]. rewrite <- app_assoc. reflexivity.
      + reflexivity.
  Qed.

  Lemma inv_add_sample s : forall d, nonempty_lists d -> NoDup (map fst d) ->
    nonempty_lists (add_sample d s) /\ NoDup (map fst (add_sample d s)).
  Proof.
    unfold add_sample. induction s as [|[k v] s IH]; intros d H1 H2; cbn [fold_left]; [split; assumption|].
    apply IH; [apply nonempty_append_to; exact H1|apply nodup_keys_append_to; exact H2].
  Qed.

  Lemma collect_from samples : forall d n,
    get (fold_left add_sample samples d) n = get d n ++ values n samples.
  Proof.
    unfold values. induction samples as [|s ss IH]; intros d n; cbn [fold_left flat_map].
    - rewrite app_nil_r. reflexivity.
    - rewrite IH, get_add_sample, <- app_assoc. reflexivity.
  Qed.

  Lemma inv_collect_from samples : forall d, nonempty_lists d -> NoDup (map fst d) ->
    nonempty_lists (fold_left add_sample samples d) /\ NoDup (map fst (fold_left add_sample samples d)).
  Proof.
    induction samples as [|s ss IH]; intros d H1 H2; cbn [fold_left]; [split; assumption|].
    destruct (inv_add_sample s d H1 H2) as [A B]. apply IH; assumption.
  Qed.

  (* what the reduction receives for name n *)
  Theorem collect_values samples n : get (collect samples) n = values n samples.
  Proof. unfold collect. rewrite collect_from. reflexivity. Qed.

  Theorem collect_keys samples :
    NoDup (map fst (collect samples)) /\ nonempty_lists (collect samples).
  Proof.
    unfold collect. destruct (inv_collect_from samples [] (Forall_nil _) (NoDup_nil _)) as [A B]. split; assumption.
  Qed.

  Lemma lookup_In {A} (d : list (Z * A)) k a : lookup d k = Some a -> In (k, a) d.
  Proof.
    induction d as [|[k' a'] t IH]; cbn [lookup]; [discriminate|].
    destruct (Z.eqb_spec k k') as [->|]; [intros H; inversion H; left; reflexivity|intros H; right; auto].
  Qed.

  Lemma lookup_map {A B} (f : A -> B) (d : list (Z * A)) k :
    lookup (map (fun kl => (fst kl, f (snd kl))) d) k = option_map f (lookup d k).
  Proof.
    induction d as [|[k' a] t IH]; cbn [map lookup fst snd]; [reflexivity|].
    destruct (Z.eqb k k'); [reflexivity|exact IH].
  Qed.

  (* the reported value: the reduction of exactly those values; a name is
     reported iff some input listed it *)
  Theorem aggregate_reports mean samples n :
    lookup (aggregate mean samples) n =
      match values n samples with [] => None | vs => Some (mean vs) end.
  Proof.
    unfold aggregate. rewrite lookup_map. pose proof (collect_values samples n) as Hv. unfold get in Hv.
    destruct (lookup (collect samples) n) as [l|] eqn:El; cbn [option_map].
    - destruct (collect_keys samples) as [_ Hne]. unfold nonempty_lists in Hne.
      rewrite Forall_forall in Hne. specialize (Hne _ (lookup_In _ _ _ El)). cbn [snd] in Hne.
      rewrite <- Hv. destruct l; [contradiction|reflexivity].
    - rewrite <- Hv. reflexivity.
  Qed.

  (* the usual case: every input visits the same names, each once *)
  Definition uniform (names : list Z) (samples : list (list (Z * V))) : Prop :=
    NoDup names /\ Forall (fun s => map fst s = names) samples.

  Lemma sample_values_once names s n :
    NoDup names -> map fst s = names -> In n names -> exists v, sample_values n s = [v] /\ In (n, v) s.
  Proof.
    unfold sample_values. revert names. induction s as [|[k v] s IH]; intros names Hnd Hm Hin; cbn [map fst] in Hm.
    - subst names. destruct Hin.
    - subst names. inversion Hnd as [|? ? Hk Hnd']; subst. cbn [filter fst].
      destruct (Z.eqb_spec n k) as [->|Hne].
      + exists v. split; [|left; reflexivity]. cbn [map snd]. f_equal.
        assert (Hnone : forall s', ~ In k (map fst s') -> map snd (filter (fun kv : Z * V => Z.eqb k (fst kv)) s') = []).
        { induction s' as [|[k2 v2] s' IH2]; intros Hn; [reflexivity|]. cbn [filter fst map] in *.
          destruct (Z.eqb_spec k k2) as [->|]; [exfalso; apply Hn; left; reflexivity|].
          apply IH2. intros H; apply Hn; right; exact H. }
        apply Hnone. exact Hk.
      + destruct Hin as [E|Hin]; [congruence|]. destruct (IH _ Hnd' eq_refl Hin) as (v' & A & B).
        exists v'. split; [exact A|right; exact B].
  Qed.

  Theorem uniform_one_value_per_input names samples n :
    uniform names samples -> In n names -> length (values n samples) = length samples.
  Proof.
    intros [Hnd Hall] Hin. unfold values. induction samples as [|s ss IH]; [reflexivity|].
    inversion Hall as [|s' ss' Hs Hss]; subst s' ss'. cbn [flat_map]. rewrite app_length, IH by exact Hss.
    destruct (sample_values_once _ s n Hnd Hs Hin) as (v & E & _). rewrite E. reflexivity.
  Qed.
End Agg.
