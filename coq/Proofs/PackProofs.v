(* Proofs/PackProofs.v — lemmas behind C05: int4 packing round trip for lists
   of any length, byte counts, and the decode error of a constant quantized
   with parameters computed from its own range (ideal arithmetic). *)
From Coq Require Import ZArith List Bool Lia Reals Lra Psatz.
From Flocq Require Import Core.
From VF Require Import Spec.ArithR Proofs.ArithRProofs Model.ArithF32.
Import ListNotations.

Open Scope Z_scope.

Definition int4 (x : Z) : Prop := -8 <= x <= 7.

Lemma int4_cases x : int4 x ->
  x = -8 \/ x = -7 \/ x = -6 \/ x = -5 \/ x = -4 \/ x = -3 \/ x = -2 \/ x = -1 \/
  x = 0 \/ x = 1 \/ x = 2 \/ x = 3 \/ x = 4 \/ x = 5 \/ x = 6 \/ x = 7.
Proof. unfold int4. lia. Qed.

(* one byte holds two codes: low nibble first *)
Lemma pack_pair_ok e o : int4 e -> int4 o ->
  unpack_nibble (Z.land (pack_pair e o) 15) = e /\
  unpack_nibble (Z.shiftr (pack_pair e o) 4) = o /\
  0 <= pack_pair e o < 256.
Proof.
  intros He Ho.
  destruct (int4_cases e He) as [->|[->|[->|[->|[->|[->|[->|[->|[->|[->|[->|[->|[->|[->|[->| ->]]]]]]]]]]]]]]];
  destruct (int4_cases o Ho) as [->|[->|[->|[->|[->|[->|[->|[->|[->|[->|[->|[->|[->|[->|[->| ->]]]]]]]]]]]]]]];
  vm_compute; repeat split; congruence.
Qed.

(* induction two elements at a time *)
Lemma list_ind2 {A} (P : list A -> Prop) :
  P [] -> (forall a, P [a]) -> (forall a b l, P l -> P (a :: b :: l)) -> forall l, P l.
Proof.
  intros H0 H1 H2.
  assert (H : forall l, P l /\ forall a, P (a :: l)).
  { induction l as [|x l [IH1 IH2]]; split; auto. }
  intros l. apply H.
Qed.

(* number of stored bytes: two codes per byte, an odd tail padded *)
Lemma pack4_length l : Z.of_nat (length (pack4 l)) = (Z.of_nat (length l) + 1) / 2.
Proof.
  induction l as [| a | a b l IH] using list_ind2.
  - reflexivity.
  - reflexivity.
  - cbn [pack4 length]. rewrite !Nat2Z.inj_succ, IH.
    replace (Z.succ (Z.succ (Z.of_nat (length l))) + 1) with ((Z.of_nat (length l) + 1) + 1 * 2) by lia.
    rewrite Z.div_add by lia. lia.
Qed.

Lemma pack4_bytes l : Forall int4 l -> Forall (fun b => 0 <= b < 256) (pack4 l).
Proof.
  induction l as [| a | a b l IH] using list_ind2; intros H.
  - constructor.
  - inversion H; subst. constructor; [|constructor].
    apply (pack_pair_ok a 0); [assumption|unfold int4; lia].
  - inversion H as [|? ? Ha H']; subst. inversion H' as [|? ? Hb H'']; subst.
    cbn [pack4]. constructor; [apply (pack_pair_ok a b); assumption|apply IH; assumption].
Qed.

(* decoding the stored nibbles returns the codes, for every length *)
Lemma unpack_pack l : Forall int4 l -> unpack4 (length l) (pack4 l) = l.
Proof.
  induction l as [| a | a b l IH] using list_ind2; intros H.
  - reflexivity.
  - inversion H; subst. cbn [pack4 length unpack4].
    destruct (pack_pair_ok a 0) as (E & _); [assumption|unfold int4; lia|]. rewrite E. reflexivity.
  - inversion H as [|? ? Ha H']; subst. inversion H' as [|? ? Hb H'']; subst.
    cbn [pack4 length unpack4].
    destruct (pack_pair_ok a b Ha Hb) as (E1 & E2 & _). rewrite E1, E2, IH by assumption.
    reflexivity.
Qed.

(* the padding nibble of an odd tail is zero *)
Lemma pack4_odd_tail_zero e : int4 e -> Z.shiftr (pack_pair e 0) 4 = 0.
Proof.
  intros He.
  destruct (int4_cases e He) as [->|[->|[->|[->|[->|[->|[->|[->|[->|[->|[->|[->|[->|[->|[->| ->]]]]]]]]]]]]]]];
  reflexivity.
Qed.

(* ------------------------------------------------------------------ *)
(* decode error of constants (ideal arithmetic) *)
Open Scope R_scope.

(* clipping after rounding costs nothing as long as the pre-rounding value is
   within half a code of the integer range *)
Lemma deq_quant_halfstep_ext b narrow s zp x :
  0 < s -> (qlo b narrow <= qmax b)%Z ->
  IZR (qlo b narrow) - / 2 <= x * (1 / s) + IZR zp <= IZR (qmax b) + / 2 ->
  Rabs (deq s zp (quant b narrow s zp x) - x) <= s / 2.
Proof.
  intros Hs Hq [Hlo Hhi]. unfold quant, deq, clipZ.
  set (y := x * (1 / s) + IZR zp) in *.
  set (c := Z.max (qlo b narrow) (Z.min (qmax b) (rne y))).
  assert (Hc : Rabs (y - IZR c) <= / 2).
  { pose proof (rne_half y) as Hh. apply Rabs_le_inv in Hh. destruct Hh as [Hh1 Hh2].
    apply Rabs_le. unfold c.
    destruct (Z_lt_le_dec (rne y) (qlo b narrow)) as [L|L].
    - replace (Z.max (qlo b narrow) (Z.min (qmax b) (rne y))) with (qlo b narrow) by lia.
      apply IZR_lt in L. split; lra.
    - destruct (Z_lt_le_dec (qmax b) (rne y)) as [G|G].
      + replace (Z.max (qlo b narrow) (Z.min (qmax b) (rne y))) with (qmax b) by lia.
        apply IZR_lt in G. split; lra.
      + replace (Z.max (qlo b narrow) (Z.min (qmax b) (rne y))) with (rne y) by lia.
        split; lra. }
  rewrite minus_IZR.
  replace ((IZR c - IZR zp) * s - x) with (- (y - IZR c) * s) by (unfold y; field; lra).
  rewrite Rabs_mult, Rabs_Ropp, (Rabs_pos_eq s) by lra. nra.
Qed.

Lemma qlo_le_qmax b narrow : (2 <= b)%Z -> (qlo b narrow <= qmax b)%Z.
Proof.
  intros H. pose proof (pow2_ge b H). unfold qlo, qmax, qmin. destruct narrow; lia.
Qed.

(* symmetric (narrow range, zero point 0): every element of the tensor whose
   min/max produced the scale decodes within half a step *)
Theorem const_sym_halfstep b mn mx x :
  (2 <= b)%Z -> mn <= x <= mx ->
  let s := scale_sym b mn mx in
  Rabs (deq s 0 (quant b true s 0 x) - x) <= s / 2.
Proof.
  intros Hb [Hx1 Hx2] s.
  pose proof (scale_sym_pos b mn mx Hb) as Hs. fold s in Hs.
  pose proof (qmax_pos b Hb) as Hq.
  apply deq_quant_halfstep; [assumption|].
  assert (Hbound : Rabs x <= IZR (qmax b) * s).
  { unfold s, scale_sym.
    replace (IZR (qmax b) * (Rmax (Rmax (Rabs mn) (Rabs mx)) eps / IZR (qmax b)))
      with (Rmax (Rmax (Rabs mn) (Rabs mx)) eps) by (field; lra).
    pose proof (Rmax_l (Rmax (Rabs mn) (Rabs mx)) eps).
    pose proof (Rmax_l (Rabs mn) (Rabs mx)). pose proof (Rmax_r (Rabs mn) (Rabs mx)).
    assert (Rabs x <= Rmax (Rabs mn) (Rabs mx)).
    { apply Rabs_le. pose proof (Rle_abs mx). pose proof (Rle_abs (- mn)).
      rewrite Rabs_Ropp in *. split; lra. }
    lra. }
  apply Rabs_le_inv in Hbound. destruct Hbound as [B1 B2].
  assert (Hxs : x * (1 / s) * s = x) by (field; lra).
  unfold qlo, qmin, qmax in *. rewrite plus_IZR, opp_IZR. simpl (IZR 0). simpl (IZR 1).
  replace (- IZR (2 ^ (b - 1)) + 1) with (- (IZR (2 ^ (b - 1)) - 1)) by ring.
  rewrite minus_IZR in *. simpl (IZR 1) in *.
  split; nra.
Qed.

(* asymmetric: zero is forced into the range and the zero point is rounded;
   still every element of the tensor decodes within half a step in exact
   arithmetic (the property allows a whole step) *)
Theorem const_asym_halfstep b mn mx x :
  (2 <= b)%Z -> mn <= x <= mx ->
  let s := scale_asym b mn mx in let zp := zp_asym b mn mx in
  Rabs (deq s zp (quant b false s zp x) - x) <= s / 2.
Proof.
  intros Hb [Hx1 Hx2] s zp.
  pose proof (scale_asym_pos b mn mx Hb) as Hs. fold s in Hs.
  pose proof (qrange_pos b Hb) as Hr.
  apply deq_quant_halfstep_ext; [assumption|apply qlo_le_qmax; assumption|].
  assert (Hz : Rabs (IZR (qmin b) - bmin mn / s - IZR zp) <= / 2).
  { unfold zp, zp_asym. fold s. apply rne_half. }
  apply Rabs_le_inv in Hz. destruct Hz as [Hz1 Hz2].
  assert (Hbmin : bmin mn <= mn) by (unfold bmin; apply Rmin_l).
  assert (Hbmax : mx <= bmax mx) by (unfold bmax; apply Rmax_l).
  assert (Hbound : bmax mx - bmin mn <= IZR (qmax b - qmin b) * s).
  { unfold s, scale_asym.
    replace (IZR (qmax b - qmin b) * (Rmax (bmax mx - bmin mn) eps / IZR (qmax b - qmin b)))
      with (Rmax (bmax mx - bmin mn) eps) by (field; lra).
    apply Rmax_l. }
  rewrite minus_IZR in Hbound.
  assert (Hdiv : bmin mn / s * s = bmin mn) by (field; lra).
  assert (Hxs : x * (1 / s) * s = x) by (field; lra).
  unfold qlo. split; nra.
Qed.

(* bias: round-half-even of bias / (s_in * s_w) unless it saturates *)
Theorem bias_is_rounded b s x :
  0 < s -> IZR (qlo b true) <= x * (1 / s) <= IZR (qmax b) ->
  quant b true s 0 x = rne (x / s).
Proof.
  intros Hs [H1 H2]. unfold quant, clipZ. simpl (IZR 0). rewrite Rplus_0_r.
  replace (x / s) with (x * (1 / s)) by (field; lra).
  assert ((qlo b true <= rne (x * (1 / s)) <= qmax b)%Z).
  { split; [rewrite <- (rne_IZR (qlo b true))|rewrite <- (rne_IZR (qmax b))]; apply rne_mono; assumption. }
  lia.
Qed.

(* ---- C07: separation of codes (outputs cannot collapse) ---- *)
Open Scope R_scope.
Theorem quant_gap b narrow s zp x y :
  0 < s -> x <= y ->
  IZR (qlo b narrow) <= x * (1 / s) + IZR zp -> y * (1 / s) + IZR zp <= IZR (qmax b) ->
  (y - x) / s - 1 <= IZR (quant b narrow s zp y - quant b narrow s zp x).
Proof.
  intros Hs Hxy Hlo Hhi. unfold quant, clipZ.
  set (u := x * (1 / s) + IZR zp) in *. set (v := y * (1 / s) + IZR zp) in *.
  assert (Huv : u <= v).
  { unfold u, v. apply Rplus_le_compat_r. apply Rmult_le_compat_r; [|exact Hxy].
    apply Rlt_le. unfold Rdiv. rewrite Rmult_1_l. apply Rinv_0_lt_compat. exact Hs. }
  assert (Ru : (qlo b narrow <= rne u <= qmax b)%Z).
  { split; [rewrite <- (rne_IZR (qlo b narrow)); apply rne_mono; exact Hlo|].
    rewrite <- (rne_IZR (qmax b)). apply rne_mono. lra. }
  assert (Rv : (qlo b narrow <= rne v <= qmax b)%Z).
  { split; [rewrite <- (rne_IZR (qlo b narrow)); apply rne_mono; lra|].
    rewrite <- (rne_IZR (qmax b)). apply rne_mono. exact Hhi. }
  replace (Z.max (qlo b narrow) (Z.min (qmax b) (rne v))) with (rne v) by lia.
  replace (Z.max (qlo b narrow) (Z.min (qmax b) (rne u))) with (rne u) by lia.
  rewrite minus_IZR.
  pose proof (rne_half u) as Hu. pose proof (rne_half v) as Hv.
  apply Rabs_le_inv in Hu. apply Rabs_le_inv in Hv.
  assert (E : (y - x) / s = v - u) by (unfold u, v; field; lra).
  rewrite E. lra.
Qed.
