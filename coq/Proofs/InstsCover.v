(* Proofs/InstsCover.v — the instruction generator loses no consumer.

   For every consumer entry c of a tensor's plan (ttp) and every position d of
   c's transformation chain, the instruction list produced by
   quant_params_to_insts contains an instruction that lists c's operator and
   carries c's transformation at d with c's parameters — at position 0 possibly
   after one of the three documented vertical rewrites against the producer's
   last transformation.  (_group_consumer_transformations partitions, at every
   depth, the consumers whose chain is longer than the depth; the head of a
   group agrees with each member on the parameters and on the transformation
   at that depth.) *)
From VF Require Import Base.Prelude Gen.Enums Model.Graph Gen.InstChecks Model.Insts
     Proofs.ListFacts Proofs.LocalProofs Proofs.InstsSane.

(* ---- small facts ---- *)
Lemma mapM_In' {A B} (f : A -> res B) : forall l r a,
  mapM f l = Ok r -> In a l -> exists b, f a = Ok b /\ In b r.
Proof.
  induction l as [|x l IH]; intros r a H Hin; [destruct Hin|]. cbn in H.
  destruct (f x) as [y|] eqn:Ey; cbn [bind] in H; [|discriminate].
  destruct (mapM f l) as [ys|] eqn:E; cbn [bind] in H; [|discriminate]. inversion H; subst.
  destruct Hin as [<-|Hin]; [exists y; split; [exact Ey|left; reflexivity]|].
  destruct (IH _ _ eq_refl Hin) as (b & Hb & Ib). exists b. split; [exact Hb|right; exact Ib].
Qed.

Lemma qp_eq_refl ps : opt_eqb qparam_eqb ps ps = true.
Proof. destruct ps as [p|]; cbn; [apply Z.eqb_refl|reflexivity]. Qed.
Lemma qp_eq_sym a b : opt_eqb qparam_eqb a b = true -> opt_eqb qparam_eqb b a = true.
Proof. destruct a, b; cbn; try discriminate; try reflexivity. unfold qparam_eqb. rewrite Z.eqb_sym. auto. Qed.
Lemma qp_eq_trans a b c :
  opt_eqb qparam_eqb a b = true -> opt_eqb qparam_eqb b c = true -> opt_eqb qparam_eqb a c = true.
Proof.
  destruct a, b, c; cbn; try discriminate; try reflexivity. unfold qparam_eqb.
  intros H1 H2. apply Z.eqb_eq in H1, H2. apply Z.eqb_eq. congruence.
Qed.

Lemma band_true a b : band a b = Ok true -> a = Ok true /\ b = Ok true.
Proof.
  unfold band. destruct a as [x|]; cbn [bind]; [|discriminate]. destruct x; [auto|discriminate].
Qed.

Lemma py_index_nth {A} (l : list A) k a : nth_opt l k = Some a -> py_index l (Z.of_nat k) = Ok a.
Proof.
  intros H. pose proof (nth_opt_Some_lt _ _ _ H) as Hl. unfold py_index.
  destruct (Z.ltb_spec (Z.of_nat k) 0); [lia|].
  destruct (Z.ltb_spec (Z.of_nat k) 0); [lia|]. cbn [orb].
  destruct (Z.leb_spec (Z.of_nat (length l)) (Z.of_nat k)); [lia|]. rewrite Nat2Z.id, H. reflexivity.
Qed.

(* what check_horizontal_optimization = true says *)
Lemma horizontal_true c1 c2 d :
  0 <= d -> check_horizontal_optimization c1 c2 d = Ok true ->
  opt_eqb qparam_eqb (o2t_params c1) (o2t_params c2) = true /\
  exists t, nth_opt (o2t_trans c1) (Z.to_nat d) = Some t /\ nth_opt (o2t_trans c2) (Z.to_nat d) = Some t.
Proof.
  intros Hd H. unfold check_horizontal_optimization in H.
  apply band_true in H. destruct H as [H1 H]. apply band_true in H. destruct H as [_ H].
  apply band_true in H. destruct H as [_ H]. injection H1 as E1. split; [exact E1|].
  cbn [bind] in H.
  destruct (py_index (o2t_trans c1) d) as [x|] eqn:Ex; cbn [bind] in H; [|discriminate].
  destruct (py_index (o2t_trans c2) d) as [y|] eqn:Ey; cbn [bind] in H; [|discriminate].
  inversion H as [E]. destruct (qtrans_eqb_spec x y) as [->|]; [|discriminate].
  exists y. split; eapply py_index_nonneg_inv; eauto.
Qed.

(* ---- groups at one depth ---- *)
Section Depth.
  Variable cs : list o2t.
  Variable d : Z.
  Hypothesis Hd : 0 <= d.

  Definition at_ (x : Z) (c : o2t) : Prop := 0 <= x /\ nth_opt cs (Z.to_nat x) = Some c.
  Definition long (x : Z) : Prop := exists c, at_ x c /\ d < lenZ (o2t_trans c).
  (* head h speaks for member x at depth d *)
  Definition agrees (h x : Z) : Prop :=
    exists ch cx, at_ h ch /\ at_ x cx /\
      opt_eqb qparam_eqb (o2t_params ch) (o2t_params cx) = true /\
      exists t, nth_opt (o2t_trans ch) (Z.to_nat d) = Some t /\ nth_opt (o2t_trans cx) (Z.to_nat d) = Some t.
  Definition good (ng : list Z) : Prop :=
    exists h tl, ng = h :: tl /\ forall x, In x ng -> agrees h x.
  Definition mono (a b : list (list Z)) : Prop :=
    forall x ng, In ng a -> In x ng -> exists ng', In ng' b /\ In x ng'.

  Lemma mono_refl a : mono a a.
  Proof. intros x ng H1 H2. eauto. Qed.
  Lemma mono_trans a b c : mono a b -> mono b c -> mono a c.
  Proof. intros H1 H2 x ng Hng Hx. destruct (H1 _ _ Hng Hx) as (ng' & A & B). eauto. Qed.

  Lemma at_index x c : at_ x c -> py_index cs x = Ok c.
  Proof. intros [H0 H]. rewrite <- (Z2Nat.id x H0). apply py_index_nth. exact H. Qed.

  Lemma long_agrees_self x : long x -> agrees x x.
  Proof.
    intros (c & Hc & Hl). exists c, c. repeat split; try exact Hc; try apply (proj1 Hc); try apply (proj2 Hc).
    - apply qp_eq_refl.
    - unfold lenZ in Hl. destruct (nth_opt_lt_Some (o2t_trans c) (Z.to_nat d)) as (t & Ht); [lia|]. eauto.
  Qed.

  Lemma assign_group_spec cur ci c : at_ ci c -> long ci ->
    forall next next', Forall good next ->
    assign_group cs cur ci c d next = Ok next' ->
    Forall good next' /\ mono next next' /\ exists ng, In ng next' /\ In ci ng.
  Proof.
    intros Hc Hl. induction next as [|ng rest IH]; intros next' Hg H; cbn [assign_group] in H.
    - inversion H; subst. split; [|split].
      + constructor; [|constructor]. exists ci, []. split; [reflexivity|].
        intros x [<-|[]]. apply long_agrees_self. exact Hl.
      + intros x ng [].
      + exists [ci]. split; left; reflexivity.
    - inversion Hg as [|? ? Hng Hrest]; subst. destruct ng as [|idx tl]; [discriminate|].
      match type of H with (hit <- ?m ;; _) = _ => destruct m as [hit|] eqn:Eh end; cbn [bind] in H; [|discriminate].
      destruct hit.
      + inversion H; subst. clear H.
        assert (Hag : agrees idx ci).
        { destruct (memZ idx cur); [|discriminate].
          destruct (py_index cs idx) as [ic|] eqn:Ei; cbn [bind] in Eh; [|discriminate].
          destruct Hng as (h & tl' & E & Hall). inversion E; subst h tl'.
          destruct (Hall idx (or_introl eq_refl)) as (ch & _ & Hch & _).
          rewrite (at_index _ _ Hch) in Ei. inversion Ei; subst ic.
          destruct (horizontal_true _ _ _ Hd Eh) as (P & t & T1 & T2).
          exists ch, c. repeat split; try apply Hch; try apply Hc; try exact P. exists t. auto. }
        split; [|split].
        * constructor; [|exact Hrest]. destruct Hng as (h & tl' & E & Hall). inversion E; subst h tl'.
          exists idx, (tl ++ [ci]). split; [reflexivity|].
          intros x Hx. change (idx :: tl ++ [ci]) with ((idx :: tl) ++ [ci]) in Hx.
          apply in_app_iff in Hx. destruct Hx as [Hx|[<-|[]]]; [apply Hall; exact Hx|exact Hag].
        * intros x ng [<-|Hin] Hx.
          -- exists ((idx :: tl) ++ [ci]). split; [left; reflexivity|apply in_app_iff; left; exact Hx].
          -- exists ng. split; [right; exact Hin|exact Hx].
        * exists ((idx :: tl) ++ [ci]). split; [left; reflexivity|apply in_app_iff; right; left; reflexivity].
      + destruct (assign_group cs cur ci c d rest) as [rest'|] eqn:Er; cbn [bind] in H; [|discriminate].
        inversion H; subst. destruct (IH _ Hrest eq_refl) as (G & M & ng' & I1 & I2).
        split; [|split].
        * constructor; assumption.
        * intros x ng [<-|Hin] Hx; [exists (idx :: tl); split; [left; reflexivity|exact Hx]|].
          destruct (M _ _ Hin Hx) as (n2 & A & B). exists n2. split; [right; exact A|exact B].
        * exists ng'. split; [right; exact I1|exact I2].
  Qed.

  (* the inner loop: consumer ci against every current group *)
  Definition inner (groups : list (list Z)) (ci : Z) (c : o2t) (next : list (list Z)) :=
    foldM (fun next cur => if memZ ci cur then assign_group cs cur ci c d next else Ok next) groups next.

  Lemma inner_spec ci c : at_ ci c -> long ci ->
    forall groups next next', Forall good next -> inner groups ci c next = Ok next' ->
    Forall good next' /\ mono next next' /\
    ((exists cur, In cur groups /\ In ci cur) -> exists ng, In ng next' /\ In ci ng).
  Proof.
    intros Hc Hl. unfold inner. induction groups as [|cur groups IH]; intros next next' Hg H; cbn [foldM] in H.
    - inversion H; subst. split; [exact Hg|]. split; [apply mono_refl|]. intros (cur & [] & _).
    - destruct (memZ ci cur) eqn:Em.
      + destruct (assign_group cs cur ci c d next) as [n1|] eqn:Ea; cbn [bind] in H; [|discriminate].
        destruct (assign_group_spec cur ci c Hc Hl _ _ Hg Ea) as (G1 & M1 & ng & I1 & I2).
        destruct (IH _ _ G1 H) as (G2 & M2 & _). split; [exact G2|]. split; [eapply mono_trans; eauto|].
        intros _. apply (M2 _ _ I1 I2).
      + cbn [bind] in H. destruct (IH _ _ Hg H) as (G2 & M2 & C2). split; [exact G2|]. split; [exact M2|].
        intros (cur' & [<-|Hin] & Hx).
        * apply memZ_In in Hx. congruence.
        * apply C2. eauto.
  Qed.

  Definition outer (groups : list (list Z)) (l : list (Z * o2t)) (next : list (list Z)) :=
    foldM (fun next ic =>
      let '(ci, c) := ic in
      if Z.of_nat (length (o2t_trans c)) >? d then
        foldM (fun next cur =>
          if memZ ci cur then assign_group cs cur ci c d next else Ok next) groups next
      else Ok next) l next.

  Lemma outer_spec groups : forall l next next',
    Forall (fun ic => at_ (fst ic) (snd ic)) l -> Forall good next ->
    outer groups l next = Ok next' ->
    Forall good next' /\ mono next next' /\
    (forall ci c, In (ci, c) l -> d < lenZ (o2t_trans c) ->
       (exists cur, In cur groups /\ In ci cur) -> exists ng, In ng next' /\ In ci ng).
  Proof.
    unfold outer. induction l as [|[ci c] l IH]; intros next next' Hl Hg H; cbn [foldM] in H.
    - inversion H; subst. split; [exact Hg|]. split; [apply mono_refl|]. intros ? ? [].
    - inversion Hl as [|? ? Hc Hl']; subst. cbn [fst snd] in Hc.
      destruct (Z.of_nat (length (o2t_trans c)) >? d) eqn:El.
      + match type of H with (s' <- ?m ;; _) = _ => destruct m as [n1|] eqn:Ei end; cbn [bind] in H; [|discriminate].
        assert (Hlong : long ci) by (exists c; split; [exact Hc|unfold lenZ; lia]).
        destruct (inner_spec ci c Hc Hlong groups next n1 Hg Ei) as (G1 & M1 & C1).
        destruct (IH _ _ Hl' G1 H) as (G2 & M2 & C2).
        split; [exact G2|]. split; [eapply mono_trans; eauto|].
        intros ci' c' [E|Hin] Hlen Hex.
        * inversion E; subst ci' c'. destruct (C1 Hex) as (ng & I1 & I2). apply (M2 _ _ I1 I2).
        * eapply C2; eauto.
      + cbn [bind] in H. destruct (IH _ _ Hl' Hg H) as (G2 & M2 & C2).
        split; [exact G2|]. split; [exact M2|].
        intros ci' c' [E|Hin] Hlen Hex.
        * inversion E; subst ci' c'. unfold lenZ in Hlen. lia.
        * eapply C2; eauto.
  Qed.

  Lemma enumerate_at : Forall (fun ic : Z * o2t => at_ (fst ic) (snd ic)) (enumerate cs).
  Proof.
    apply Forall_forall. intros [k c] Hin. unfold enumerate in Hin.
    destruct (in_enumerate_from_inv _ _ _ _ Hin) as [K1 K2]. rewrite Z.sub_0_r in K2. split; assumption.
  Qed.

  Theorem group_depth_spec groups next :
    group_depth cs groups d = Ok next ->
    Forall good next /\
    (forall ci, long ci -> (exists cur, In cur groups /\ In ci cur) -> exists ng, In ng next /\ In ci ng).
  Proof.
    intros H. change (outer groups (enumerate cs) [] = Ok next) in H.
    destruct (outer_spec groups _ _ _ enumerate_at (Forall_nil _) H) as (G & _ & C).
    split; [exact G|]. intros ci (c & Hc & Hlen) Hex. apply (C ci c); [|exact Hlen|exact Hex].
    destruct Hc as [H0 Hn]. pose proof (in_enumerate_from cs 0 _ _ Hn) as Hin.
    rewrite Z2Nat.id in Hin by exact H0. exact Hin.
  Qed.
End Depth.

Lemma long_down cs d d' x : d' <= d -> long cs d x -> long cs d' x.
Proof. intros Hle (c & Hc & Hl). exists c. split; [exact Hc|lia]. Qed.

(* ---- all depths ---- *)
Lemma group_all_spec cs : forall fuel groups depth levels,
  0 <= depth ->
  group_all cs groups depth fuel = Ok levels ->
  forall j lv, nth_opt levels j = Some lv ->
    Forall (good cs (depth + Z.of_nat j)) lv /\
    (forall ci, long cs (depth + Z.of_nat j) ci -> (exists cur, In cur groups /\ In ci cur) ->
       exists ng, In ng lv /\ In ci ng).
Proof.
  induction fuel as [|f IH]; intros groups depth levels Hd H j lv Hj; cbn [group_all] in H.
  - inversion H; subst. destruct j; discriminate.
  - destruct (group_depth cs groups depth) as [next|] eqn:En; cbn [bind] in H; [|discriminate].
    destruct (group_all cs next (depth + 1) f) as [rest|] eqn:Er; cbn [bind] in H; [|discriminate].
    inversion H; subst. destruct (group_depth_spec cs depth Hd groups next En) as (G & C).
    destruct j as [|j]; cbn [nth_opt] in Hj.
    + inversion Hj; subst. rewrite Z.add_0_r. split; assumption.
    + assert (Hd1 : 0 <= depth + 1) by lia.
      destruct (IH _ _ _ Hd1 Er j lv Hj) as (G' & C').
      replace (depth + Z.of_nat (S j)) with (depth + 1 + Z.of_nat j) by lia.
      split; [exact G'|]. intros ci Hl Hex. apply C'; [exact Hl|]. apply C; [|exact Hex].
      eapply long_down; [|exact Hl]. lia.
Qed.

Lemma group_all_length cs : forall fuel groups depth levels,
  group_all cs groups depth fuel = Ok levels -> length levels = fuel.
Proof.
  induction fuel as [|f IH]; intros groups depth levels H; cbn [group_all] in H; [inversion H; reflexivity|].
  destruct (group_depth cs groups depth) as [next|]; cbn [bind] in H; [|discriminate].
  destruct (group_all cs next (depth + 1) f) as [rest|] eqn:Er; cbn [bind] in H; [|discriminate].
  inversion H; subst. cbn. f_equal. eapply IH. exact Er.
Qed.

Lemma fold_max_ge (cs : list o2t) : forall acc,
  (acc <= fold_left (fun a c => Nat.max a (length (o2t_trans c))) cs acc)%nat /\
  forall c, In c cs -> (length (o2t_trans c) <= fold_left (fun a c => Nat.max a (length (o2t_trans c))) cs acc)%nat.
Proof.
  induction cs as [|x cs IH]; intros acc; cbn [fold_left]; [split; [lia|intros ? []]|].
  destruct (IH (Nat.max acc (length (o2t_trans x)))) as [A B]. split; [lia|].
  intros c [<-|Hin]; [lia|apply B; exact Hin].
Qed.

Lemma in_map_fst_enumerate {A} (l : list A) k a : nth_opt l k = Some a -> In (Z.of_nat k) (map fst (enumerate l)).
Proof.
  intros H. apply in_map_iff. exists (Z.of_nat k, a). split; [reflexivity|].
  pose proof (in_enumerate_from l 0 _ _ H) as Hin. exact Hin.
Qed.

(* every consumer whose chain is longer than d sits in a good group of level d+1 *)
Theorem groups_cover p cs groups d ci :
  ttp_consumers p = Some cs -> group_consumer_transformations p = Ok groups ->
  0 <= d -> long cs d ci ->
  exists lv ng, nth_opt groups (S (Z.to_nat d)) = Some lv /\ Forall (good cs d) lv /\ In ng lv /\ In ci ng.
Proof.
  intros Hcs H Hd Hl. unfold group_consumer_transformations in H. rewrite Hcs in H.
  destruct cs as [|c0 cs0] eqn:Ecs.
  { destruct Hl as (c & [_ Hc] & _). destruct (Z.to_nat ci); discriminate. }
  rewrite <- Ecs in *. clear Ecs c0 cs0.
  set (g0 := map fst (enumerate cs)) in H.
  destruct (group_all cs [g0] 0 (longest_chain cs)) as [rest|] eqn:Er; cbn [bind] in H; [|discriminate].
  inversion H; subst groups. clear H. cbn [nth_opt].
  pose proof (group_all_length _ _ _ _ _ Er) as Hlen.
  destruct Hl as (c & Hc & Hlt).
  assert (Hfuel : (Z.to_nat d < longest_chain cs)%nat).
  { unfold longest_chain. destruct (fold_max_ge cs 0%nat) as [_ B].
    specialize (B c (nth_opt_In _ _ _ (proj2 Hc))). unfold lenZ in Hlt. lia. }
  destruct (nth_opt_lt_Some rest (Z.to_nat d)) as (lv & Hlv); [lia|].
  destruct (group_all_spec cs _ _ _ _ (Z.le_refl 0) Er _ _ Hlv) as (G & C).
  rewrite Z.add_0_l, Z2Nat.id in G, C by exact Hd.
  destruct (C ci) as (ng & I1 & I2).
  - exists c. split; assumption.
  - exists g0. split; [left; reflexivity|]. unfold g0. destruct Hc as [H0 Hn].
    rewrite <- (Z2Nat.id ci H0). eapply in_map_fst_enumerate. exact Hn.
  - exists lv, ng. auto.
Qed.

(* ---- the instruction emitted for a good group ---- *)
Definition carries (c : o2t) (t : qtrans) (i : inst) : Prop :=
  i_trans i = t /\ opt_eqb qparam_eqb (i_params i) (o2t_params c) = true /\ In (o2t_op c) (i_consumers i).

Lemma group_inst_carries cs info d ng ci c t i :
  0 <= d -> good cs d ng -> In ci ng -> at_ cs ci c ->
  nth_opt (o2t_trans c) (Z.to_nat d) = Some t ->
  group_inst cs info ng d = Ok i -> carries c t i.
Proof.
  intros Hd (h & tl & -> & Hall) Hin Hc Ht H. unfold group_inst in H.
  destruct (py_index cs h) as [c0|] eqn:E0; cbn [bind] in H; [|discriminate].
  destruct (py_index (o2t_trans c0) d) as [tr|] eqn:Et; cbn [bind] in H; [|discriminate].
  destruct (mapM _ (h :: tl)) as [ops|] eqn:Em; cbn [bind] in H; [|discriminate].
  inversion H; subst i. clear H. unfold carries. cbn [i_trans i_params i_consumers].
  destruct (Hall _ Hin) as (ch & cx & Hch & Hcx & P & t' & T1 & T2).
  rewrite (at_index _ _ _ Hch) in E0. inversion E0; subst c0.
  destruct Hc as [C0 C1]. destruct Hcx as [_ C2]. rewrite C1 in C2. inversion C2; subst cx.
  apply (py_index_nonneg_inv _ _ _ Hd) in Et. rewrite T1 in Et. rewrite Ht in T2. split; [congruence|].
  split; [exact P|].
  destruct (mapM_In' _ _ _ _ Em Hin) as (b & Hb & Ib).
  rewrite (at_index cs ci c (conj C0 C1)) in Hb. cbn [bind] in Hb. inversion Hb; subst b. exact Ib.
Qed.

(* ---- vertical rewrites ---- *)
Definition rewritten (pr : inst) (c : o2t) (t : qtrans) (i : inst) : Prop :=
  i_trans pr = Tr_ADD_DEQUANTIZE /\ In (o2t_op c) (i_consumers i) /\
  ( (t = Tr_ADD_QUANTIZE /\ opt_eqb qparam_eqb (i_params pr) (o2t_params c) = true /\
     i_trans i = Tr_QUANTIZE_TENSOR /\ opt_eqb qparam_eqb (i_params i) (o2t_params c) = true)
  \/ (t = Tr_NO_QUANTIZE /\ i_trans i = Tr_ADD_DEQUANTIZE /\ i_params i = i_params pr) ).

Lemma carries_mk_like c t r : carries c t r -> carries c t (mk_like r t (i_params r)).
Proof. intros (A & B & C). repeat split; assumption. Qed.

Lemma apply_vertical_cover prod rules l c t r :
  apply_vertical prod rules = Ok l -> In r rules -> carries c t r ->
  exists i, In i l /\ (carries c t i \/ rewritten prod c t i).
Proof.
  unfold apply_vertical.
  set (step := fun (st : list Z * list inst) (rule : inst) => _).
  intros H Hin Hcar.
  assert (G : forall rules st st', foldM step rules st = Ok st' ->
            (forall i, In i (snd st) -> In i (snd st')) /\
            (In r rules -> exists i, In i (snd st') /\ (carries c t i \/ rewritten prod c t i))).
  { induction rules0 as [|rule rs IH]; intros [pcs acc] st' H0; cbn [foldM] in H0.
    - inversion H0; subst. split; [auto|intros []].
    - destruct (step (pcs, acc) rule) as [[pcs1 acc1]|] eqn:Es; cbn [bind] in H0; [|discriminate].
      destruct (IH _ _ H0) as (Keep & Cov). cbn [snd] in *.
      assert (Hacc : (forall i, In i acc -> In i acc1) /\
                     (rule = r -> exists i, In i acc1 /\ (carries c t i \/ rewritten prod c t i))).
      { unfold step in Es.
        destruct (check_dq_q_elimination (with_consumers prod pcs) rule) as [e1|] eqn:E1; cbn [bind] in Es; [|discriminate].
        destruct e1.
        - inversion Es; subst. split; [intros i Hi; apply in_app_iff; left; exact Hi|].
          intros ->. exists (mk_like r Tr_QUANTIZE_TENSOR (i_params r)).
          split; [apply in_app_iff; right; left; reflexivity|]. right.
          unfold check_dq_q_elimination in E1. cbn [with_consumers i_trans i_params] in E1. inversion E1 as [E].
          apply andb_true_iff in E. destruct E as [E Ep]. apply andb_true_iff in E. destruct E as [Ed Eq].
          destruct (qtrans_eqb_spec (i_trans prod) Tr_ADD_DEQUANTIZE) as [Hpd|]; [|discriminate].
          destruct (qtrans_eqb_spec (i_trans r) Tr_ADD_QUANTIZE) as [Hrq|]; [|discriminate].
          destruct Hcar as (A & B & C). split; [exact Hpd|]. split; [exact C|]. left.
          split; [congruence|]. split; [eapply qp_eq_trans; eauto|]. split; [reflexivity|exact B].
        - destruct (check_replace_dq_q_with_rq (with_consumers prod pcs) rule) as [e2|] eqn:E2; cbn [bind] in Es; [|discriminate].
          destruct e2.
          + inversion Es; subst. split; [intros i Hi; apply in_app_iff; left; exact Hi|].
            intros ->. exists (mk_like r Tr_ADD_QUANTIZE (i_params r)).
            split; [apply in_app_iff; right; right; left; reflexivity|]. left.
            unfold check_replace_dq_q_with_rq in E2. cbn [with_consumers i_trans i_params] in E2. inversion E2 as [E].
            apply andb_true_iff in E. destruct E as [E _]. apply andb_true_iff in E. destruct E as [_ Eq].
            destruct (qtrans_eqb_spec (i_trans r) Tr_ADD_QUANTIZE) as [Hrq|]; [|discriminate].
            destruct Hcar as (A & B & C). unfold carries. cbn [mk_like i_trans i_params i_consumers]. split; [congruence|split; assumption].
          + destruct (check_dq_no_quant_elimination (with_consumers prod pcs) rule) as [e3|] eqn:E3; cbn [bind] in Es; [|discriminate].
            destruct e3; inversion Es; subst; (split; [intros i Hi; apply in_app_iff; left; exact Hi|]); intros ->.
            * exists (mk_like r Tr_ADD_DEQUANTIZE (i_params prod)).
              split; [apply in_app_iff; right; left; reflexivity|]. right.
              unfold check_dq_no_quant_elimination in E3. cbn [with_consumers i_trans] in E3. inversion E3 as [E].
              apply andb_true_iff in E. destruct E as [Ed En].
              destruct (qtrans_eqb_spec (i_trans prod) Tr_ADD_DEQUANTIZE) as [Hpd|]; [|discriminate].
              destruct (qtrans_eqb_spec (i_trans r) Tr_NO_QUANTIZE) as [Hrn|]; [|discriminate].
              destruct Hcar as (A & B & C). split; [exact Hpd|]. split; [exact C|]. right.
              split; [congruence|]. split; reflexivity.
            * exists r. split; [apply in_app_iff; right; left; reflexivity|left; exact Hcar]. }
      destruct Hacc as [K1 K2]. split; [intros i Hi; apply Keep, K1, Hi|].
      intros [E|Hr]; [|apply Cov; exact Hr].
      destruct (K2 E) as (i & Hi & Hp). exists i. split; [apply Keep; exact Hi|exact Hp]. }
  destruct (foldM step rules (i_consumers prod, [])) as [[pcs acc]|] eqn:E; cbn [bind] in H; [|discriminate].
  inversion H; subst l. destruct (G _ _ _ E) as [_ Cov]. destruct (Cov Hin) as (i & Hi & Hp). cbn [snd] in Hi.
  exists i. split; [|exact Hp]. destruct pcs; [exact Hi|right; exact Hi].
Qed.

(* ---- the whole instruction list of one tensor ---- *)
Definition last_producer (info : tinfo) (p : ttp) : option inst :=
  match ttp_producer p with
  | None => None
  | Some pp => last (map Some (map (fun t =>
      {| i_trans := t; i_tensor := gi_tensor info; i_producer := gi_producer info;
         i_consumers := gi_consumers info; i_params := o2t_params pp |}) (o2t_trans pp))) None
  end.

Theorem insts_cover_consumers im p ti cs k c d t :
  quant_params_to_insts im p = Ok ti ->
  ttp_consumers p = Some cs -> nth_opt cs k = Some c -> nth_opt (o2t_trans c) d = Some t ->
  exists i, In i (ti_insts ti) /\
    ( carries c t i
      \/ (d = 0%nat /\ exists info pr, lookup_info im (ttp_name p) = Ok info /\
            last_producer info p = Some pr /\ rewritten pr c t i) ).
Proof.
  intros H Hcs Hk Ht. unfold quant_params_to_insts in H.
  destruct (lookup_info im (ttp_name p)) as [info|] eqn:El; cbn [bind] in H; [|discriminate].
  destruct (group_consumer_transformations p) as [groups|] eqn:Eg; cbn [bind] in H; [|discriminate].
  destruct (vertical_candidates groups p info) as [vert|] eqn:Ev; cbn [bind] in H; [|discriminate].
  destruct (other_consumer_insts groups p info) as [others|] eqn:Eo; cbn [bind] in H; [|discriminate].
  match type of H with (body <- ?m ;; _) = _ => destruct m as [body|] eqn:Eb end; cbn [bind] in H; [|discriminate].
  destruct (insts_valid (body ++ others)); cbn [bind] in H; [|discriminate].
  inversion H; subst ti. clear H. cbn [ti_insts].
  assert (Hat : at_ cs (Z.of_nat k) c) by (split; [lia|rewrite Nat2Z.id; exact Hk]).
  assert (Hd : 0 <= Z.of_nat d) by lia.
  assert (Hlong : long cs (Z.of_nat d) (Z.of_nat k)).
  { exists c. split; [exact Hat|]. pose proof (nth_opt_Some_lt _ _ _ Ht). unfold lenZ. lia. }
  destruct (groups_cover p cs groups _ _ Hcs Eg Hd Hlong) as (lv & ng & Hlv & Hgood & Hng & Hin).
  rewrite Nat2Z.id in Hlv. rewrite Forall_forall in Hgood. specialize (Hgood _ Hng).
  assert (Ecl : consumers_list p = cs) by (unfold consumers_list; rewrite Hcs; reflexivity).
  destruct d as [|d'].
  - (* position 0: through the vertical optimisation *)
    unfold vertical_candidates in Ev. destruct groups as [|g0 [|g1 rest]]; try discriminate.
    cbn [nth_opt] in Hlv. inversion Hlv; subst g1. rewrite Ecl in Ev.
    destruct (mapM_In' _ _ _ _ Ev Hng) as (r & Hr & Ir).
    assert (Hcar : carries c t r).
    { eapply (group_inst_carries cs info 0); try eassumption; try lia; try (rewrite Nat2Z.id; exact Ht). }
    fold (last_producer info p) in Eb. destruct (last_producer info p) as [lastp|] eqn:Elp.
    + assert (Eb' : (v <- apply_vertical lastp vert ;; Ok (but_last
               match ttp_producer p with
               | Some pp => map (fun t0 => {| i_trans := t0; i_tensor := gi_tensor info; i_producer := gi_producer info;
                                              i_consumers := gi_consumers info; i_params := o2t_params pp |}) (o2t_trans pp)
               | None => [] end ++ v)) = Ok body).
      { unfold last_producer in Elp. destruct (ttp_producer p) as [pp|]; [|discriminate].
        rewrite Elp in Eb. exact Eb. }
      destruct (apply_vertical lastp vert) as [v|] eqn:Eav; cbn [bind] in Eb'; [|discriminate].
      inversion Eb'; subst body.
      destruct (apply_vertical_cover _ _ _ _ _ _ Eav Ir Hcar) as (i & Hi & Hp).
      exists i. split; [apply in_app_iff; left; apply in_app_iff; right; exact Hi|].
      destruct Hp as [Hp|Hp]; [left; exact Hp|right]. split; [reflexivity|]. exists info, lastp. auto.
    + assert (Eb' : Ok (match ttp_producer p with
               | Some pp => map (fun t0 => {| i_trans := t0; i_tensor := gi_tensor info; i_producer := gi_producer info;
                                              i_consumers := gi_consumers info; i_params := o2t_params pp |}) (o2t_trans pp)
               | None => [] end ++ vert) = Ok body).
      { unfold last_producer in Elp. destruct (ttp_producer p) as [pp|]; [rewrite Elp in Eb|]; exact Eb. }
      inversion Eb'; subst body. exists r. split; [|left; exact Hcar].
      apply in_app_iff; left; apply in_app_iff; right; exact Ir.
  - (* later positions: emitted unchanged *)
    unfold other_consumer_insts in Eo. rewrite Ecl in Eo.
    match type of Eo with (r <- ?m ;; _) = _ => destruct m as [rr|] eqn:Em end; cbn [bind] in Eo; [|discriminate].
    inversion Eo; subst others.
    assert (Hen : In (Z.of_nat (S (S d')), lv) (enumerate groups)).
    { pose proof (in_enumerate_from groups 0 _ _ Hlv) as Hi. exact Hi. }
    destruct (mapM_In' _ _ _ _ Em Hen) as (b & Hb & Ib). cbn beta iota in Hb.
    destruct (Z.ltb_spec (Z.of_nat (S (S d'))) 2); [lia|].
    match type of Hb with (r <- ?m ;; _) = _ => destruct m as [r2|] eqn:E2 end; cbn [bind] in Hb; [|discriminate].
    inversion Hb; subst b.
    destruct (mapM_In' _ _ _ _ E2 Hng) as (b2 & Hb2 & Ib2). cbn beta in Hb2.
    destruct Hgood as (h & tl & -> & Hall).
    destruct (py_index cs h) as [c0|] eqn:E0; cbn [bind] in Hb2; [|discriminate].
    destruct (Hall h (or_introl eq_refl)) as (ch & _ & Hch & _ & _ & th & Th & _).
    rewrite (at_index _ _ _ Hch) in E0. inversion E0; subst c0.
    replace (Z.of_nat (S (S d')) - 1) with (Z.of_nat (S d')) in Hb2 by lia.
    pose proof (nth_opt_Some_lt _ _ _ Th) as Hlt. rewrite Nat2Z.id in Hlt.
    destruct (Z.leb_spec (Z.of_nat (length (o2t_trans ch))) (Z.of_nat (S d'))); [lia|].
    destruct (group_inst cs info (h :: tl) (Z.of_nat (S d'))) as [i|] eqn:Ei; cbn [bind] in Hb2; [|discriminate].
    inversion Hb2; subst b2.
    exists i. split.
    + apply in_app_iff. right. apply in_concat. exists (concat r2). split; [exact Ib|].
      apply in_concat. exists [i]. split; [exact Ib2|left; reflexivity].
    + left. eapply (group_inst_carries cs info (Z.of_nat (S d'))); try eassumption.
      * exists h, tl. split; [reflexivity|exact Hall].
      * rewrite Nat2Z.id. exact Ht.
Qed.

(* ================================================================== *)
(* The converse: the generator invents nothing.  Every emitted instruction is
   either one of the producer's (its consumer list a sub-list of the tensor's
   readers) or lists only operators whose plan entry asked for exactly that
   transformation with those parameters at some position — or, against an
   ADD_DEQUANTIZE producer, for the transformation the rewrite replaced. *)

Lemma mapM_In_inv {A B} (f : A -> res B) : forall l r b,
  mapM f l = Ok r -> In b r -> exists a, In a l /\ f a = Ok b.
Proof.
  induction l as [|x l IH]; intros r b H Hin; cbn in H; [inversion H; subst; destruct Hin|].
  destruct (f x) as [y|] eqn:Ey; cbn [bind] in H; [|discriminate].
  destruct (mapM f l) as [ys|] eqn:E; cbn [bind] in H; [|discriminate]. inversion H; subst.
  destruct Hin as [<-|Hin]; [exists x; split; [left; reflexivity|exact Ey]|].
  destruct (IH _ _ eq_refl Hin) as (a & Ha & Fa). exists a. split; [right; exact Ha|exact Fa].
Qed.

Definition planned (cs : list o2t) (o : Z) (t : qtrans) (ps : option qparam) (d : nat) : Prop :=
  exists k c, nth_opt cs k = Some c /\ o2t_op c = o /\ nth_opt (o2t_trans c) d = Some t /\
              opt_eqb qparam_eqb ps (o2t_params c) = true.

Definition as_planned (cs : list o2t) (d : nat) (i : inst) : Prop :=
  forall o, In o (i_consumers i) -> planned cs o (i_trans i) (i_params i) d.

Lemma group_inst_exact cs info d ng i :
  0 <= d -> good cs d ng -> group_inst cs info ng d = Ok i -> as_planned cs (Z.to_nat d) i.
Proof.
  intros Hd (h & tl & -> & Hall) H. unfold group_inst in H.
  destruct (py_index cs h) as [c0|] eqn:E0; cbn [bind] in H; [|discriminate].
  destruct (py_index (o2t_trans c0) d) as [tr|] eqn:Et; cbn [bind] in H; [|discriminate].
  destruct (mapM _ (h :: tl)) as [ops|] eqn:Em; cbn [bind] in H; [|discriminate].
  inversion H; subst i. clear H. intros o Ho. cbn [i_trans i_params i_consumers] in *.
  destruct (mapM_In_inv _ _ _ _ Em Ho) as (x & Hx & Fx).
  destruct (Hall _ Hx) as (ch & cx & Hch & Hcx & P & t & T1 & T2).
  rewrite (at_index _ _ _ Hch) in E0. inversion E0; subst c0.
  rewrite (at_index _ _ _ Hcx) in Fx. cbn [bind] in Fx. inversion Fx; subst o.
  apply (py_index_nonneg_inv _ _ _ Hd) in Et. rewrite T1 in Et. inversion Et; subst tr.
  exists (Z.to_nat x), cx. split; [apply Hcx|]. split; [reflexivity|]. split; [exact T2|exact P].
Qed.

Lemma groups_good p cs groups j lv :
  ttp_consumers p = Some cs -> group_consumer_transformations p = Ok groups ->
  nth_opt groups (S j) = Some lv -> Forall (good cs (Z.of_nat j)) lv.
Proof.
  intros Hcs H Hlv. unfold group_consumer_transformations in H. rewrite Hcs in H.
  destruct cs as [|c0 cs0] eqn:Ecs; [inversion H; subst; discriminate|].
  rewrite <- Ecs in *. clear Ecs c0 cs0.
  destruct (group_all cs [map fst (enumerate cs)] 0 (longest_chain cs)) as [rest|] eqn:Er; cbn [bind] in H; [|discriminate].
  inversion H; subst groups. cbn [nth_opt] in Hlv.
  destruct (group_all_spec cs _ _ _ _ (Z.le_refl 0) Er _ _ Hlv) as (G & _). exact G.
Qed.

(* list.remove keeps a sub-list *)
Lemma remove_first_incl x : forall l l', remove_first x l = Ok l' -> incl l' l.
Proof.
  induction l as [|y l IH]; intros l' H; cbn in H; [discriminate|].
  destruct (Z.eqb x y); [inversion H; subst; apply incl_tl, incl_refl|].
  destruct (remove_first x l) as [r|] eqn:E; cbn [bind] in H; [|discriminate]. inversion H; subst.
  intros z [<-|Hz]; [left; reflexivity|right; eapply IH; eauto].
Qed.

Lemma remove_if_present_incl xs : forall l, incl (remove_if_present l xs) l.
Proof.
  unfold remove_if_present. induction xs as [|x xs IH]; intros l; cbn [fold_left]; [apply incl_refl|].
  destruct (memZ x l); [|apply IH].
  destruct (remove_first x l) as [l'|] eqn:E; [|apply IH].
  eapply incl_tran; [apply IH|eapply remove_first_incl; exact E].
Qed.

Definition rewrite_of (cs : list o2t) (pr : inst) (i : inst) : Prop :=
  i_trans pr = Tr_ADD_DEQUANTIZE /\
  forall o, In o (i_consumers i) ->
    (i_trans i = Tr_QUANTIZE_TENSOR /\ opt_eqb qparam_eqb (i_params i) (i_params pr) = true /\
       exists ps, planned cs o Tr_ADD_QUANTIZE ps 0)
    \/ (i_trans i = Tr_ADD_DEQUANTIZE /\ i_params i = i_params pr /\
       exists ps, planned cs o Tr_NO_QUANTIZE ps 0).

Definition producer_rest (prod i : inst) : Prop :=
  i_trans i = i_trans prod /\ i_params i = i_params prod /\ incl (i_consumers i) (i_consumers prod).

Lemma apply_vertical_exact cs prod rules l :
  Forall (as_planned cs 0) rules -> apply_vertical prod rules = Ok l ->
  forall i, In i l -> producer_rest prod i \/ as_planned cs 0 i \/ rewrite_of cs prod i.
Proof.
  unfold apply_vertical.
  set (step := fun (st : list Z * list inst) (rule : inst) => _).
  set (P := fun i => as_planned cs 0 i \/ rewrite_of cs prod i).
  intros Hr H.
  assert (G : forall rules st st', Forall (as_planned cs 0) rules -> foldM step rules st = Ok st' ->
            incl (fst st) (i_consumers prod) -> Forall P (snd st) ->
            incl (fst st') (i_consumers prod) /\ Forall P (snd st')).
  { induction rules0 as [|rule rs IH]; intros [pcs acc] st' Hrs H0 Hi Ha; cbn [foldM] in H0.
    - inversion H0; subst. split; assumption.
    - inversion Hrs as [|? ? Hrule Hrs']; subst.
      destruct (step (pcs, acc) rule) as [[pcs1 acc1]|] eqn:Es; cbn [bind] in H0; [|discriminate].
      eapply IH; [exact Hrs'|exact H0| |]; cbn [fst snd] in *; unfold step in Es.
      + destruct (check_dq_q_elimination (with_consumers prod pcs) rule) as [[|]|]; cbn [bind] in Es; try discriminate.
        * inversion Es; subst. eapply incl_tran; [apply remove_if_present_incl|exact Hi].
        * destruct (check_replace_dq_q_with_rq (with_consumers prod pcs) rule) as [[|]|]; cbn [bind] in Es; try discriminate.
          -- inversion Es; subst. eapply incl_tran; [apply remove_if_present_incl|exact Hi].
          -- destruct (check_dq_no_quant_elimination (with_consumers prod pcs) rule) as [[|]|]; cbn [bind] in Es; try discriminate;
               inversion Es; subst; [eapply incl_tran; [apply remove_if_present_incl|exact Hi]|exact Hi].
      + destruct (check_dq_q_elimination (with_consumers prod pcs) rule) as [e1|] eqn:E1; cbn [bind] in Es; [|discriminate].
        destruct e1.
        * inversion Es; subst. apply Forall_app. split; [exact Ha|]. constructor; [|constructor]. right.
          unfold check_dq_q_elimination in E1. cbn [with_consumers i_trans i_params] in E1. injection E1 as E.
          apply andb_true_iff in E. destruct E as [E Ep]. apply andb_true_iff in E. destruct E as [Ed Eq].
          destruct (qtrans_eqb_spec (i_trans prod) Tr_ADD_DEQUANTIZE) as [Hpd|]; [|discriminate].
          destruct (qtrans_eqb_spec (i_trans rule) Tr_ADD_QUANTIZE) as [Hrq|]; [|discriminate].
          split; [exact Hpd|]. intros o Ho. left. cbn [mk_like i_trans i_params i_consumers] in *.
          split; [reflexivity|]. split; [apply qp_eq_sym; exact Ep|].
          exists (i_params rule). rewrite <- Hrq. apply Hrule. exact Ho.
        * destruct (check_replace_dq_q_with_rq (with_consumers prod pcs) rule) as [e2|] eqn:E2; cbn [bind] in Es; [|discriminate].
          destruct e2.
          -- inversion Es; subst. apply Forall_app. split; [exact Ha|].
             unfold check_replace_dq_q_with_rq in E2. cbn [with_consumers i_trans i_params] in E2. injection E2 as E.
             apply andb_true_iff in E. destruct E as [E _]. apply andb_true_iff in E. destruct E as [Ed Eq].
             destruct (qtrans_eqb_spec (i_trans prod) Tr_ADD_DEQUANTIZE) as [Hpd|]; [|discriminate].
             destruct (qtrans_eqb_spec (i_trans rule) Tr_ADD_QUANTIZE) as [Hrq|]; [|discriminate].
             constructor; [|constructor; [|constructor]].
             ++ right. split; [exact Hpd|]. intros o Ho. left. cbn [mk_like i_trans i_params i_consumers] in *.
                split; [reflexivity|]. split; [apply qp_eq_refl|].
                exists (i_params rule). rewrite <- Hrq. apply Hrule. exact Ho.
             ++ left. intros o Ho. cbn [mk_like i_trans i_params i_consumers] in *. rewrite <- Hrq. apply Hrule. exact Ho.
          -- destruct (check_dq_no_quant_elimination (with_consumers prod pcs) rule) as [e3|] eqn:E3; cbn [bind] in Es; [|discriminate].
             destruct e3; inversion Es; subst; (apply Forall_app; split; [exact Ha|]); (constructor; [|constructor]).
             ++ right. unfold check_dq_no_quant_elimination in E3. cbn [with_consumers i_trans] in E3. injection E3 as E.
                apply andb_true_iff in E. destruct E as [Ed En].
                destruct (qtrans_eqb_spec (i_trans prod) Tr_ADD_DEQUANTIZE) as [Hpd|]; [|discriminate].
                destruct (qtrans_eqb_spec (i_trans rule) Tr_NO_QUANTIZE) as [Hrn|]; [|discriminate].
                split; [exact Hpd|]. intros o Ho. right. cbn [mk_like i_trans i_params i_consumers] in *.
                split; [reflexivity|]. split; [reflexivity|].
                exists (i_params rule). rewrite <- Hrn. apply Hrule. exact Ho.
             ++ left. exact Hrule. }
  destruct (foldM step rules (i_consumers prod, [])) as [[pcs acc]|] eqn:E; cbn [bind] in H; [|discriminate].
  inversion H; subst l.
  destruct (G _ _ _ Hr E (incl_refl _) (Forall_nil _)) as [Gi Ga]. cbn [fst snd] in *.
  rewrite Forall_forall in Ga. intros i Hi.
  destruct pcs as [|x pcs']; [right; apply Ga; exact Hi|].
  destruct Hi as [<-|Hi]; [left|right; apply Ga; exact Hi].
  split; [reflexivity|]. split; [reflexivity|exact Gi].
Qed.

Theorem insts_exact im p ti i :
  quant_params_to_insts im p = Ok ti -> In i (ti_insts ti) ->
  exists info, lookup_info im (ttp_name p) = Ok info /\
  ( (exists pp, ttp_producer p = Some pp /\ In (i_trans i) (o2t_trans pp) /\
                i_params i = o2t_params pp /\ incl (i_consumers i) (gi_consumers info))
    \/ (exists d, as_planned (consumers_list p) d i)
    \/ (exists pr, last_producer info p = Some pr /\ rewrite_of (consumers_list p) pr i) ).
Proof.
  intros H Hin. unfold quant_params_to_insts in H.
  destruct (lookup_info im (ttp_name p)) as [info|] eqn:El; cbn [bind] in H; [|discriminate].
  destruct (group_consumer_transformations p) as [groups|] eqn:Eg; cbn [bind] in H; [|discriminate].
  destruct (vertical_candidates groups p info) as [vert|] eqn:Ev; cbn [bind] in H; [|discriminate].
  destruct (other_consumer_insts groups p info) as [others|] eqn:Eo; cbn [bind] in H; [|discriminate].
  match type of H with (body <- ?m ;; _) = _ => destruct m as [body|] eqn:Eb end; cbn [bind] in H; [|discriminate].
  destruct (insts_valid (body ++ others)); cbn [bind] in H; [|discriminate].
  inversion H; subst ti. clear H. cbn [ti_insts] in Hin. exists info. split; [reflexivity|].
  set (cs := consumers_list p).
  assert (Hgood : forall j lv, nth_opt groups (S j) = Some lv -> Forall (good cs (Z.of_nat j)) lv).
  { intros j lv Hlv. unfold cs, consumers_list. destruct (ttp_consumers p) as [cs0|] eqn:Ec.
    - eapply groups_good; eauto.
    - unfold group_consumer_transformations in Eg. rewrite Ec in Eg. inversion Eg; subst. discriminate. }
  (* the depth-0 candidates are as planned *)
  assert (Hvert : Forall (as_planned cs 0) vert).
  { unfold vertical_candidates in Ev. destruct groups as [|g0 [|g1 rest]]; try (inversion Ev; constructor).
    specialize (Hgood 0%nat g1 eq_refl). rewrite Forall_forall in Hgood.
    apply Forall_forall. intros r Hr. destruct (mapM_In_inv _ _ _ _ Ev Hr) as (g & Hg & Fg).
    apply (group_inst_exact cs info 0 g r (Z.le_refl 0) (Hgood _ Hg) Fg). }
  (* the later ones too *)
  assert (Hoth : forall r, In r others -> exists d, as_planned cs d r).
  { unfold other_consumer_insts in Eo. fold cs in Eo.
    match type of Eo with (r <- ?m ;; _) = _ => destruct m as [rr|] eqn:Em end; cbn [bind] in Eo; [|discriminate].
    inversion Eo; subst others. intros r Hr. apply in_concat in Hr. destruct Hr as (b & Hb & Hrb).
    destruct (mapM_In_inv _ _ _ _ Em Hb) as ([idx gs] & Hig & Fig). cbn beta iota in Fig.
    destruct (Z.ltb_spec idx 2); [inversion Fig; subst; destruct Hrb|].
    match type of Fig with (r <- ?m ;; _) = _ => destruct m as [r2|] eqn:E2 end; cbn [bind] in Fig; [|discriminate].
    inversion Fig; subst b. apply in_concat in Hrb. destruct Hrb as (b2 & Hb2 & Hrb2).
    destruct (mapM_In_inv _ _ _ _ E2 Hb2) as (g & Hg & Fg). cbn beta in Fg.
    destruct g as [|g0 g]; [discriminate|].
    destruct (py_index cs g0) as [c0|]; cbn [bind] in Fg; [|discriminate].
    destruct (Z.of_nat (length (o2t_trans c0)) <=? idx - 1); [inversion Fg; subst; destruct Hrb2|].
    destruct (group_inst cs info (g0 :: g) (idx - 1)) as [i'|] eqn:Ei; cbn [bind] in Fg; [|discriminate].
    inversion Fg; subst b2. destruct Hrb2 as [<-|[]].
    unfold enumerate in Hig. destruct (in_enumerate_from_inv _ _ _ _ Hig) as [K1 K2]. rewrite Z.sub_0_r in K2.
    assert (Hlv : nth_opt groups (S (Z.to_nat (idx - 1))) = Some gs).
    { replace (S (Z.to_nat (idx - 1))) with (Z.to_nat idx) by lia. exact K2. }
    specialize (Hgood _ _ Hlv). rewrite Forall_forall in Hgood.
    rewrite Z2Nat.id in Hgood by lia.
    exists (Z.to_nat (idx - 1)). eapply group_inst_exact; [lia|apply Hgood; exact Hg|exact Ei]. }
  apply in_app_iff in Hin. destruct Hin as [Hin|Hin]; [|right; left; apply Hoth; exact Hin].
  fold (last_producer info p) in Eb. unfold last_producer in Eb.
  destruct (ttp_producer p) as [pp|] eqn:Epp.
  - set (prods := map (fun t => {| i_trans := t; i_tensor := gi_tensor info; i_producer := gi_producer info;
                                   i_consumers := gi_consumers info; i_params := o2t_params pp |}) (o2t_trans pp)) in *.
    assert (Hprods : forall x, In x prods -> In (i_trans x) (o2t_trans pp) /\ i_params x = o2t_params pp /\
                                             i_consumers x = gi_consumers info).
    { intros x Hx. unfold prods in Hx. apply in_map_iff in Hx. destruct Hx as (t & <- & Ht). cbn. auto. }
    destruct (last (map Some prods) None) as [lastp|] eqn:Elast.
    + destruct (apply_vertical lastp vert) as [v|] eqn:Eav; cbn [bind] in Eb; [|discriminate].
      inversion Eb; subst body. apply in_app_iff in Hin. destruct Hin as [Hin|Hin].
      * left. exists pp. split; [reflexivity|]. apply but_last_incl in Hin.
        destruct (Hprods _ Hin) as (A & B & C). rewrite C. repeat split; try assumption. apply incl_refl.
      * destruct (apply_vertical_exact cs _ _ _ Hvert Eav _ Hin) as [(A & B & C)|[Hp|Hp]].
        -- left. exists pp. split; [reflexivity|]. destruct (Hprods _ (last_in _ _ Elast)) as (A' & B' & C').
           rewrite A, B. rewrite C' in C. auto.
        -- right. left. exists 0%nat. exact Hp.
        -- right. right. exists lastp. unfold last_producer. rewrite Epp. fold prods. split; [exact Elast|exact Hp].
    + inversion Eb; subst body. apply in_app_iff in Hin. destruct Hin as [Hin|Hin].
      * left. exists pp. split; [reflexivity|]. destruct (Hprods _ Hin) as (A & B & C). rewrite C.
        repeat split; try assumption. apply incl_refl.
      * right. left. exists 0%nat. rewrite Forall_forall in Hvert. apply Hvert. exact Hin.
  - cbn [map last] in Eb. inversion Eb; subst body. cbn [app] in Hin.
    right. left. exists 0%nat. rewrite Forall_forall in Hvert. apply Hvert. exact Hin.
Qed.
