(* Proofs/CalibProofs.v — lemmas about Model/Calib.v (C09, C10). *)
From VF Require Import Base.Prelude Gen.Enums Gen.Configs Gen.Scopes
     Model.Recipe Model.Check Model.Graph Model.Plan Model.Calib Proofs.ListFacts.

Lemma list_eqb_Z_eq (a b : list Z) : list_eqb Z.eqb a b = true <-> a = b.
Proof.
  revert b; induction a as [|x a IH]; intros [|y b]; cbn; split; try congruence; try discriminate.
  - intros H. apply andb_true_iff in H. destruct H as [H1 H2].
    apply Z.eqb_eq in H1. apply IH in H2. congruence.
  - intros H. inversion H; subst. rewrite Z.eqb_refl. cbn. apply IH. reflexivity.
Qed.

Lemma name_eqb2_eq (a b : name_t) : name_eqb2 a b = true <-> a = b.
Proof.
  destruct a as [r1 s1], b as [r2 s2]. unfold name_eqb2. cbn. split.
  - intros H. apply andb_true_iff in H. destruct H as [H1 H2].
    apply Z.eqb_eq in H1. apply list_eqb_Z_eq in H2. congruence.
  - intros H. inversion H; subst. rewrite Z.eqb_refl. cbn. apply list_eqb_Z_eq. reflexivity.
Qed.

Lemma name_eqb2_refl a : name_eqb2 a a = true.
Proof. apply name_eqb2_eq. reflexivity. Qed.

Lemma name_eqb2_neq a b : a <> b -> name_eqb2 a b = false.
Proof.
  intros H. destruct (name_eqb2 a b) eqn:E; [|reflexivity]. apply name_eqb2_eq in E. contradiction.
Qed.

Lemma qs_get_set_same s n v : qs_get (qs_set s n v) n = Some v.
Proof.
  induction s as [|[k w] s IH]; cbn.
  - rewrite name_eqb2_refl. reflexivity.
  - destruct (name_eqb2 k n) eqn:E; cbn; rewrite E; auto.
Qed.

Lemma qs_get_set_other s n v n2 : n2 <> n -> qs_get (qs_set s n v) n2 = qs_get s n2.
Proof.
  intros Hne. induction s as [|[k w] s IH]; cbn.
  - rewrite (name_eqb2_neq n n2) by congruence. reflexivity.
  - destruct (name_eqb2 k n) eqn:E; cbn.
    + apply name_eqb2_eq in E. subst k.
      rewrite (name_eqb2_neq n n2) by congruence. reflexivity.
    + destruct (name_eqb2 k n2); auto.
Qed.

(* what one sample may do to the entry of a tensor: nothing, or exactly one
   update with THAT sample's value of THAT tensor *)
Definition step_of (k : Z) (n : name_t) (old : option qval) : option qval :=
  Some (match old with None => QSample n k | Some o => update o (QSample n k) end).

Definition inner_inv (k : Z) (s0 : qstore) (st : qstore * list name_t) : Prop :=
  forall n, (In n (snd st) -> qs_get (fst st) n = step_of k n (qs_get s0 n)) /\
            (~ In n (snd st) -> qs_get (fst st) n = qs_get s0 n).

Lemma existsb_name_In n l : existsb (name_eqb2 n) l = true <-> In n l.
Proof.
  rewrite existsb_exists. split.
  - intros (x & Hx & E). apply name_eqb2_eq in E. subst. assumption.
  - intros H. exists n. split; [assumption|apply name_eqb2_refl].
Qed.

(* the per-op update loop keeps the invariant when every collected entry is
   (n, QSample n k) *)
Lemma update_fold_inv k s0 es : forall st,
  Forall (fun e => snd e = QSample (fst e) k) es ->
  inner_inv k s0 st ->
  inner_inv k s0
    (fold_left (fun st e =>
       let '(s, upd) := st in
       if existsb (name_eqb2 (fst e)) upd then (s, upd)
       else match qs_get s (fst e) with
            | None => (qs_set s (fst e) (snd e), fst e :: upd)
            | Some old => (qs_set s (fst e) (update old (snd e)), fst e :: upd)
            end) es st).
Proof.
  induction es as [|[n v] es IH]; intros [s upd] Hes Hinv; cbn [fold_left]; [assumption|].
  apply Forall_cons_iff in Hes. destruct Hes as [Hv Hes]. cbn [fst snd] in Hv. subst v.
  apply IH; [assumption|]. cbn [fst snd].
  destruct (existsb (name_eqb2 n) upd) eqn:Ex; [assumption|].
  assert (Hnin : ~ In n upd).
  { intros H. apply existsb_name_In in H. congruence. }
  destruct (Hinv n) as [_ Hn]. specialize (Hn Hnin). cbn [fst snd] in Hn.
  assert (Hstep : forall s', (forall n2, n2 <> n -> qs_get s' n2 = qs_get s n2) ->
            qs_get s' n = step_of k n (qs_get s0 n) -> inner_inv k s0 (s', n :: upd)).
  { intros s' Hoth Hsame n2. cbn [fst snd]. split.
    - intros [<-|Hin]; [assumption|].
      destruct (Hinv n2) as [H1 _]. cbn [fst snd] in H1.
      assert (n2 <> n) by (intros ->; contradiction).
      rewrite Hoth by assumption. auto.
    - intros Hnin2. assert (n2 <> n) by (intros ->; apply Hnin2; left; reflexivity).
      rewrite Hoth by assumption. destruct (Hinv n2) as [_ H2]. apply H2.
      intros Hin. apply Hnin2. right. assumption. }
  destruct (qs_get s n) as [old|] eqn:Eg.
  - apply Hstep.
    + intros n2 Hne. apply qs_get_set_other. assumption.
    + rewrite qs_get_set_same. rewrite <- Hn. reflexivity.
  - apply Hstep.
    + intros n2 Hne. apply qs_get_set_other. assumption.
    + rewrite qs_get_set_same. rewrite <- Hn. reflexivity.
Qed.

Definition sample_form (k : Z) (e : name_t * qval) : Prop := snd e = QSample (fst e) k.

Lemma qs_set_form k s n v :
  Forall (sample_form k) s -> sample_form k (n, v) -> Forall (sample_form k) (qs_set s n v).
Proof.
  intros Hs Hv. induction s as [|[k' w] s IH]; cbn.
  - constructor; [assumption|constructor].
  - apply Forall_cons_iff in Hs. destruct Hs as [H1 H2].
    destruct (name_eqb2 k' n) eqn:E.
    + apply name_eqb2_eq in E. subst k'. constructor; assumption.
    + constructor; auto.
Qed.

Lemma fold_qs_set_form k es : forall acc,
  Forall (sample_form k) acc -> Forall (sample_form k) es ->
  Forall (sample_form k) (fold_left (fun acc e => qs_set acc (fst e) (snd e)) es acc).
Proof.
  induction es as [|[n v] es IH]; intros acc Ha He; cbn [fold_left]; [assumption|].
  apply Forall_cons_iff in He. destruct He as [H1 H2].
  apply IH; [|assumption]. apply qs_set_form; assumption.
Qed.

Section OneSample.
  Variable matches : Z -> Z -> bool.
  Variable rules : state.
  Variable bufs : list bufval.
  Variable scope_id : Z -> list stok -> Z.

  Lemma mapM_Forall {A B} (f : A -> res B) (P : B -> Prop) l r :
    (forall a b, f a = Ok b -> P b) -> mapM f l = Ok r -> Forall P r.
  Proof.
    intros Hf. revert r. induction l as [|a l IH]; intros r H; cbn in H.
    - inversion H. constructor.
    - destruct (f a) eqn:E; cbn in H; [|discriminate].
      destruct (mapM f l) eqn:E2; cbn in H; [|discriminate].
      inversion H; subst. constructor; [eapply Hf; eassumption|apply IH; reflexivity].
  Qed.

  Lemma collect_op_form ts op a k es :
    collect_op bufs ts op a k = Ok es -> Forall (sample_form k) es.
  Proof.
    unfold collect_op. destruct a; intros H; try (inversion H; constructor).
    match type of H with bind ?m _ = _ => destruct m as [r|] eqn:E end; cbn [bind] in H; [|discriminate].
    inversion H; subst; clear H.
    apply fold_qs_set_form; [constructor|].
    assert (Hr : Forall (Forall (sample_form k)) r).
    { eapply mapM_Forall; [|exact E]. intros x b Hb. cbn in Hb.
      destruct (py_index ts x) as [t|]; cbn [bind] in Hb; [|discriminate].
      destruct (is_const bufs t); inversion Hb; subst; [constructor|].
      constructor; [reflexivity|constructor]. }
    clear E. induction r as [|l r IH]; cbn; [constructor|].
    apply Forall_cons_iff in Hr. destruct Hr as [H1 H2].
    apply Forall_app. split; auto.
  Qed.

  (* Each tensor is updated AT MOST ONCE per sample, and then with that
     sample's own min/max, however many selected ops touch it (and however
     many copies of the virtual I/O operators have accumulated). *)
  Theorem one_sample_once m gi g ad k s s' :
    one_sample matches rules bufs scope_id m gi g ad k s = Ok s' ->
    forall n, qs_get s' n = qs_get s n \/ qs_get s' n = step_of k n (qs_get s n).
  Proof.
    unfold one_sample, one_sample_gen.
    set (ops := real_cops scope_id gi (m_opcodes m) g ad ++ _).
    intros H.
    match type of H with bind ?m _ = _ => destruct m as [[sf updf]|] eqn:E end;
      cbn [bind] in H; [|discriminate].
    inversion H; subst s'; clear H.
    assert (Hinv : inner_inv k s (sf, updf)).
    { assert (Hgen : forall ops st st', inner_inv k s st ->
                foldM (sample_step matches rules bufs g k) ops st = Ok st' -> inner_inv k s st').
      { induction ops0 as [|op ops0 IH]; intros st st' Hi Hf; cbn [foldM] in Hf.
        - inversion Hf; subst. assumption.
        - destruct st as [s0 upd0]. unfold sample_step at 1 in Hf.
          destruct (selected matches rules op) as [[[a c] o]|].
          + destruct (algname_of a) as [a'|]; cbn [bind] in Hf; [|discriminate].
            destruct (negb (is_op_registered (AK a') o)); [discriminate|].
            destruct (collect_op bufs (sg_tensors g) op a' k) as [es|] eqn:Ec;
              cbn [bind] in Hf; [|discriminate].
            eapply IH; [|exact Hf].
            apply update_fold_inv; [eapply collect_op_form; eassumption|assumption].
          + cbn [bind] in Hf. eapply IH; eassumption. }
      eapply Hgen; [|exact E].
      intros n. cbn. split; [intros []|reflexivity]. }
    intros n. destruct (Hinv n) as [H1 H2]. cbn [fst snd] in *.
    destruct (existsb (name_eqb2 n) updf) eqn:Ex.
    - right. apply H1. apply existsb_name_In. assumption.
    - left. apply H2. intros Hin. apply existsb_name_In in Hin. congruence.
  Qed.
End OneSample.
