(* Proofs/RecipeProofs.v — lemmas about Model/Recipe.v used by Props/C11, C12. *)
From VF Require Import Base.Prelude Gen.Enums Gen.Configs Model.Recipe.

Lemma find_app_l {A} (f : A -> bool) (a b : list A) :
  find f (a ++ b) = match find f a with Some x => Some x | None => find f b end.
Proof. induction a as [|x a IH]; cbn; [reflexivity|]. destruct (f x); auto. Qed.

Lemma NoDup_snoc {A} (l : list A) (x : A) : NoDup l -> ~ In x l -> NoDup (l ++ [x]).
Proof.
  induction l as [|y l IH]; cbn; intros Hnd Hnin.
  - constructor; [intros []|constructor].
  - apply NoDup_cons_iff in Hnd. destruct Hnd as [Hy Hl]. constructor.
    + intros Hin. apply in_app_or in Hin. destruct Hin as [Hin|[Hin|[]]]; [contradiction|].
      apply Hnin. left. symmetry. assumption.
    + apply IH; [assumption|]. intros Hin. apply Hnin. right. assumption.
Qed.

Section Spec.
  Variable check : akey -> opname -> ocfg -> bool.
  Variable matches : Z -> Z -> bool.

  Definition flatten (s : state) : list rule := flat_map snd s.

  (* A rule is applicable iff its regex is found in the scope, it targets the
     operator or '*', and (unless it is no_quantize) its config passes the
     support check for that operator. *)
  Definition applicable (target : opname) (scope : Z) (r : rule) : bool :=
    matches (r_regex r) scope
    && (opname_eqb (r_op r) Op_ALL_SUPPORTED || opname_eqb (r_op r) target)
    && (is_noquant (r_alg r) || check (r_alg r) target (r_cfg r)).

  (* documented model: the LAST applicable rule of the flattened list wins *)
  Definition resolve_spec (rules : list rule) (target : opname) (scope : Z)
    : akey * ocfg :=
    match find (applicable target scope) (rev rules) with
    | Some r => (r_alg r, r_cfg r)
    | None => (AK Alg_NO_QUANTIZE, default_ocfg)
    end.

  Definition resolve_fold (rules : list rule) target scope (acc : akey * ocfg) :=
    fold_left (fun acc r => if applicable target scope r
                            then (r_alg r, r_cfg r) else acc) rules acc.

  Definition keys_ok (s : state) : Prop :=
    Forall (fun kv => Forall (fun r => r_regex r = fst kv) (snd kv)) s.

  Definition keys (s : state) : list Z := map fst s.

  Lemma scan_rules_fold rs k target scope acc :
    Forall (fun r => r_regex r = k) rs ->
    matches k scope = true ->
    scan_rules check rs target acc = resolve_fold rs target scope acc.
  Proof.
    revert acc; induction rs as [|r rs IH]; intros acc Hk Hm; [reflexivity|].
    apply Forall_cons_iff in Hk; destruct Hk as [Hr Hrs].
    cbn [scan_rules resolve_fold fold_left].
    fold (resolve_fold rs target scope).
    assert (Ha : applicable target scope r =
                 (opname_eqb (r_op r) Op_ALL_SUPPORTED || opname_eqb (r_op r) target)
                 && (is_noquant (r_alg r) || check (r_alg r) target (r_cfg r))).
    { unfold applicable. rewrite Hr, Hm. reflexivity. }
    rewrite Ha.
    destruct (opname_eqb (r_op r) Op_ALL_SUPPORTED) eqn:E1;
      destruct (opname_eqb (r_op r) target) eqn:E2; cbn [negb andb orb];
      try (destruct (is_noquant (r_alg r)) eqn:E3;
           destruct (check (r_alg r) target (r_cfg r)) eqn:E4; cbn [negb andb orb]);
      apply IH; auto.
  Qed.

  Lemma resolve_fold_nomatch rs k target scope acc :
    Forall (fun r => r_regex r = k) rs ->
    matches k scope = false ->
    resolve_fold rs target scope acc = acc.
  Proof.
    revert acc; induction rs as [|r rs IH]; intros acc Hk Hm; [reflexivity|].
    apply Forall_cons_iff in Hk; destruct Hk as [Hr Hrs].
    cbn [resolve_fold fold_left]. fold (resolve_fold rs target scope).
    assert (Ha : applicable target scope r = false).
    { unfold applicable. rewrite Hr, Hm. reflexivity. }
    rewrite Ha. apply IH; auto.
  Qed.

  Lemma resolve_fold_app a b target scope acc :
    resolve_fold (a ++ b) target scope acc =
    resolve_fold b target scope (resolve_fold a target scope acc).
  Proof. unfold resolve_fold. apply fold_left_app. Qed.

  Lemma scan_scopes_fold s target scope acc :
    keys_ok s ->
    scan_scopes check matches s target scope acc =
    resolve_fold (flatten s) target scope acc.
  Proof.
    revert acc; induction s as [|[k rs] s IH]; intros acc Hk; [reflexivity|].
    apply Forall_cons_iff in Hk; destruct Hk as [H1 H2]. cbn [fst snd] in H1.
    cbn [scan_scopes flatten flat_map snd]. fold (flatten s).
    rewrite resolve_fold_app.
    destruct (matches k scope) eqn:Hm.
    - rewrite IH by assumption. f_equal. apply scan_rules_fold with (k := k); assumption.
    - rewrite IH by assumption. f_equal. symmetry.
      apply resolve_fold_nomatch with (k := k); assumption.
  Qed.

  Lemma resolve_fold_last rules target scope acc :
    resolve_fold rules target scope acc =
    match find (applicable target scope) (rev rules) with
    | Some r => (r_alg r, r_cfg r)
    | None => acc
    end.
  Proof.
    induction rules as [|r rs IH] using rev_ind; [reflexivity|].
    rewrite resolve_fold_app, rev_app_distr. cbn [rev app find].
    unfold resolve_fold at 1. cbn [fold_left].
    destruct (applicable target scope r); [reflexivity|apply IH].
  Qed.

  (* ---------------- characterisation of [assign] / [add] ---------------- *)
  Lemma lookup_assign_same s k v : lookup (assign s k v) k = Some v.
  Proof.
    induction s as [|[k' v'] s IH]; cbn [assign lookup].
    - rewrite Z.eqb_refl. reflexivity.
    - destruct (Z.eqb k k') eqn:E; cbn [lookup]; rewrite E; auto.
  Qed.

  Lemma lookup_assign_other s k v k2 :
    k2 <> k -> lookup (assign s k v) k2 = lookup s k2.
  Proof.
    intros Hne. induction s as [|[k' v'] s IH]; cbn [assign lookup].
    - destruct (Z.eqb_spec k2 k); [contradiction|reflexivity].
    - destruct (Z.eqb_spec k k'); cbn [lookup].
      + subst k'. destruct (Z.eqb_spec k2 k); [contradiction|reflexivity].
      + destruct (Z.eqb k2 k'); auto.
  Qed.

  (* first-insertion order of the regexes is preserved; a new one goes last *)
  Lemma keys_assign s k v :
    keys (assign s k v) = if memZ k (keys s) then keys s else keys s ++ [k].
  Proof.
    unfold keys, memZ. induction s as [|[k' v'] s IH]; cbn [assign map fst existsb app].
    - reflexivity.
    - destruct (Z.eqb k k') eqn:E; cbn [map fst orb]; [reflexivity|].
      rewrite IH. destruct (existsb (Z.eqb k) (map fst s)); reflexivity.
  Qed.

  Lemma lookup_in s k v : lookup s k = Some v -> In (k, v) s.
  Proof.
    induction s as [|[k' v'] s IH]; cbn [lookup]; [discriminate|].
    destruct (Z.eqb_spec k k'); intros H.
    - inversion H; subst. left; reflexivity.
    - right; auto.
  Qed.

  Lemma lookup_none_keys s k : lookup s k = None -> memZ k (keys s) = false.
  Proof.
    unfold memZ, keys. induction s as [|[k' v'] s IH]; cbn [lookup map fst existsb]; [reflexivity|].
    destruct (Z.eqb k k'); [discriminate|]. cbn [orb]. auto.
  Qed.

  Lemma replace_op_spec cfgs r :
    replace_op cfgs r =
    (map (fun e => if opname_eqb (r_op e) (r_op r) then r else e) cfgs,
     negb (existsb (fun e => opname_eqb (r_op e) (r_op r)) cfgs)).
  Proof.
    induction cfgs as [|e cfgs IH]; cbn [replace_op map existsb]; [reflexivity|].
    rewrite IH. destruct (opname_eqb (r_op e) (r_op r)); reflexivity.
  Qed.

  Lemma replace_none cfgs r :
    existsb (fun e => opname_eqb (r_op e) (r_op r)) cfgs = false ->
    map (fun e => if opname_eqb (r_op e) (r_op r) then r else e) cfgs = cfgs.
  Proof.
    induction cfgs as [|e cfgs IH]; cbn [map existsb]; [reflexivity|].
    intros H. apply orb_false_iff in H. destruct H as [H1 H2].
    rewrite H1, IH by assumption. reflexivity.
  Qed.

  (* what one accepted add does to the scope of its regex *)
  Definition add_scope (old : option (list rule)) (r : rule) : list rule :=
    if opname_eqb (r_op r) Op_ALL_SUPPORTED then [r]            (* '*' resets *)
    else match old with
         | None => [r]
         | Some cfgs =>
             if existsb (fun e => opname_eqb (r_op e) (r_op r)) cfgs
             then map (fun e => if opname_eqb (r_op e) (r_op r) then r else e) cfgs
                                                               (* replace in place *)
             else cfgs ++ [r]                                  (* append *)
         end.

  Definition mk_rule regex op (cfg : option ocfg) alg : rule :=
    {| r_regex := regex; r_op := op; r_alg := alg;
       r_cfg := match cfg with Some c => c | None => default_ocfg end |}.

  Definition add_accepts op (cfg : option ocfg) alg : bool :=
    opname_eqb op Op_ALL_SUPPORTED || is_noquant alg
    || check alg op (match cfg with Some c => c | None => default_ocfg end).

  Lemma add_spec s regex op cfg alg :
    add check s regex op cfg alg =
    if add_accepts op cfg alg
    then Ok (assign s regex (add_scope (lookup s regex) (mk_rule regex op cfg alg)))
    else Err ValueError.
  Proof.
    unfold add, add_accepts, add_scope, mk_rule. cbn [r_op].
    destruct (opname_eqb op Op_ALL_SUPPORTED) eqn:E1; cbn [orb]; [reflexivity|].
    destruct (is_noquant alg) eqn:E2; cbn [negb andb orb].
    - destruct (lookup s regex) as [cfgs|]; [|reflexivity].
      rewrite replace_op_spec. cbn [r_op].
      destruct (existsb _ cfgs) eqn:Ex; cbn [negb]; [reflexivity|].
      pose proof (replace_none cfgs (mk_rule regex op cfg alg)) as Hn.
      unfold mk_rule in Hn; cbn [r_op] in Hn. rewrite Hn by exact Ex. reflexivity.
    - destruct (check alg op _) eqn:E3; cbn [negb]; [|reflexivity].
      destruct (lookup s regex) as [cfgs|]; [|reflexivity].
      rewrite replace_op_spec. cbn [r_op].
      destruct (existsb _ cfgs) eqn:Ex; cbn [negb]; [reflexivity|].
      pose proof (replace_none cfgs (mk_rule regex op cfg alg)) as Hn.
      unfold mk_rule in Hn; cbn [r_op] in Hn. rewrite Hn by exact Ex. reflexivity.
  Qed.

  (* ---------------- invariant of reachable states ---------------- *)
  Definition rule_checked (r : rule) : Prop :=
    opname_eqb (r_op r) Op_ALL_SUPPORTED = true \/ is_noquant (r_alg r) = true
    \/ check (r_alg r) (r_op r) (r_cfg r) = true.

  Definition scope_ok (k : Z) (rs : list rule) : Prop :=
    rs <> [] /\ Forall (fun r => r_regex r = k) rs /\ NoDup (map r_op rs)
    /\ (forall r, In r (tl rs) -> r_op r <> Op_ALL_SUPPORTED)
    /\ Forall rule_checked rs.

  Definition Inv (s : state) : Prop :=
    NoDup (keys s) /\ Forall (fun kv => scope_ok (fst kv) (snd kv)) s.

  Lemma Inv_keys_ok s : Inv s -> keys_ok s.
  Proof.
    intros [_ H]. unfold keys_ok. eapply Forall_impl; [|exact H].
    intros [k rs] (_ & Hk & _). exact Hk.
  Qed.

  Lemma Inv_init : Inv init.
  Proof. split; constructor. Qed.

  Lemma Forall_assign (Pk : Z * list rule -> Prop) s k v :
    Forall Pk s -> Pk (k, v) -> Forall Pk (assign s k v).
  Proof.
    intros Hs Hv. induction s as [|[k' v'] s IH]; cbn [assign].
    - constructor; [assumption|constructor].
    - apply Forall_cons_iff in Hs. destruct Hs as [H1 H2].
      destruct (Z.eqb_spec k k'); [subst; constructor; assumption|].
      constructor; auto.
  Qed.

  Lemma NoDup_keys_assign s k v : NoDup (keys s) -> NoDup (keys (assign s k v)).
  Proof.
    intros H. rewrite keys_assign. unfold memZ.
    destruct (existsb (Z.eqb k) (keys s)) eqn:E; [assumption|].
    apply NoDup_snoc; [assumption|].
    intros Hin. assert (existsb (Z.eqb k) (keys s) = true).
    { apply existsb_exists. exists k. split; [assumption|apply Z.eqb_refl]. }
    congruence.
  Qed.

  Lemma map_replace_ops cfgs r :
    map r_op (map (fun e => if opname_eqb (r_op e) (r_op r) then r else e) cfgs)
    = map r_op cfgs.
  Proof.
    induction cfgs as [|e cfgs IH]; cbn [map]; [reflexivity|]. rewrite IH. f_equal.
    destruct (opname_eqb_spec (r_op e) (r_op r)); congruence.
  Qed.

  Lemma add_scope_ok k old r :
    r_regex r = k -> rule_checked r ->
    match old with Some rs => scope_ok k rs | None => True end ->
    scope_ok k (add_scope old r).
  Proof.
    intros Hk Hc Hold. unfold add_scope.
    destruct (opname_eqb_spec (r_op r) Op_ALL_SUPPORTED) as [Eall|Nall].
    { repeat split; try discriminate.
      - constructor; [assumption|constructor].
      - cbn. constructor; [intros []|constructor].
      - cbn. intros ? [].
      - constructor; [assumption|constructor]. }
    destruct old as [rs|].
    2:{ repeat split; try discriminate.
        - constructor; [assumption|constructor].
        - cbn. constructor; [intros []|constructor].
        - cbn. intros ? [].
        - constructor; [assumption|constructor]. }
    destruct Hold as (Hne & Hreg & Hnd & Htl & Hchk).
    destruct (existsb (fun e => opname_eqb (r_op e) (r_op r)) rs) eqn:Ex.
    - repeat split.
      + destruct rs; [contradiction|discriminate].
      + apply Forall_map. eapply Forall_impl; [|exact Hreg].
        intros e He. cbn. destruct (opname_eqb (r_op e) (r_op r)); assumption.
      + rewrite map_replace_ops. assumption.
      + intros x Hx. destruct rs as [|e0 rs]; [contradiction|]. cbn [map tl] in Hx.
        apply in_map_iff in Hx. destruct Hx as (e & He & Hin).
        destruct (opname_eqb (r_op e) (r_op r)); subst x; [assumption|].
        apply Htl. exact Hin.
      + apply Forall_map. eapply Forall_impl; [|exact Hchk].
        intros e He. cbn. destruct (opname_eqb (r_op e) (r_op r)); assumption.
    - repeat split.
      + destruct rs; discriminate.
      + apply Forall_app. split; [assumption|]. constructor; [assumption|constructor].
      + rewrite map_app. cbn [map].
        apply NoDup_snoc; [assumption|].
        intros Hin. apply in_map_iff in Hin. destruct Hin as (e & He & Hin).
        assert (existsb (fun e => opname_eqb (r_op e) (r_op r)) rs = true).
        { apply existsb_exists. exists e. split; [assumption|].
          destruct (opname_eqb_spec (r_op e) (r_op r)); congruence. }
        congruence.
      + intros x Hx. destruct rs as [|e0 rs]; [contradiction|]. cbn [app tl] in Hx.
        apply in_app_or in Hx. destruct Hx as [Hx|[Hx|[]]].
        * apply Htl. exact Hx.
        * subst x. assumption.
      + apply Forall_app. split; [assumption|]. constructor; [assumption|constructor].
  Qed.

  Lemma Inv_lookup s k rs : Inv s -> lookup s k = Some rs -> scope_ok k rs.
  Proof.
    intros [_ H] Hl. apply lookup_in in Hl.
    rewrite Forall_forall in H. apply (H (k, rs) Hl).
  Qed.

  Lemma add_inv s regex op cfg alg s' :
    Inv s -> add check s regex op cfg alg = Ok s' -> Inv s'.
  Proof.
    intros HI Hadd. rewrite add_spec in Hadd.
    destruct (add_accepts op cfg alg) eqn:Hacc; [|discriminate].
    inversion Hadd; subst s'; clear Hadd.
    destruct HI as [Hnd Hall]. split.
    - apply NoDup_keys_assign. assumption.
    - apply Forall_assign; [assumption|]. cbn [fst snd].
      apply add_scope_ok.
      + reflexivity.
      + unfold rule_checked, mk_rule. cbn [r_op r_alg r_cfg].
        unfold add_accepts in Hacc.
        apply orb_true_iff in Hacc. destruct Hacc as [Hacc|Hacc]; [|auto].
        apply orb_true_iff in Hacc. destruct Hacc; auto.
      + destruct (lookup s regex) eqn:El; [|exact I].
        eapply Inv_lookup; [split; eassumption|eassumption].
  Qed.

  Variable post_init : ocfg -> res unit.

  Lemma load_one_inv s j s' :
    Inv s -> load_one check post_init s j = Ok s' -> Inv s'.
  Proof.
    unfold load_one. intros HI H.
    destruct (if is_noquant (j_alg j) then Ok None else _) as [c|e]; cbn [bind] in H;
      [|discriminate].
    eapply add_inv; eassumption.
  Qed.

  Lemma foldM_load_inv js s s' :
    Inv s -> foldM (load_one check post_init) js s = Ok s' -> Inv s'.
  Proof.
    revert s; induction js as [|j js IH]; intros s HI H; cbn [foldM] in H.
    - inversion H; subst; assumption.
    - destruct (load_one check post_init s j) as [s1|e] eqn:E; cbn [bind] in H; [|discriminate].
      eapply IH; [|eassumption]. eapply load_one_inv; eassumption.
  Qed.

  Lemma step_inv s o :
    Inv s -> Inv (fst (step check matches post_init s o)).
  Proof.
    intros HI. destruct o as [regex op cfg alg| | |op scope|]; cbn [step].
    - destruct (add check s regex op cfg alg) as [s'|e] eqn:E; cbn [fst]; [|assumption].
      eapply add_inv; eassumption.
    - destruct (load check post_init (get_recipe s)) as [s'|e] eqn:E; cbn [fst]; [|assumption].
      unfold load in E. eapply foldM_load_inv; [apply Inv_init|eassumption].
    - cbn [load foldM fst]. apply Inv_init.
    - destruct (get check matches s op scope). cbn [fst]. assumption.
    - cbn [fst]. assumption.
  Qed.

  Lemma run_inv ops s :
    Inv s -> Inv (fst (run check matches post_init s ops)).
  Proof.
    revert s; induction ops as [|o ops IH]; intros s HI; cbn [run]; [assumption|].
    pose proof (step_inv s o HI) as H1.
    destruct (step check matches post_init s o) as [s1 out]. cbn [fst] in H1.
    specialize (IH s1 H1).
    destruct (run check matches post_init s1 ops) as [s2 outs]. cbn [fst] in *. assumption.
  Qed.

  (* queries never change the rule list *)
  Lemma step_get_pure s op scope :
    fst (step check matches post_init s (RGet op scope)) = s.
  Proof. cbn [step]. destruct (get check matches s op scope). reflexivity. Qed.
End Spec.
