(* Proofs/RecipeRoundTrip.v — load (get_recipe s) = s for every reachable,
   loadable state (C12). *)
From VF Require Import Base.Prelude Gen.Enums Gen.Configs Model.Recipe
     Proofs.RecipeProofs.

Section RT.
  Variable check : akey -> opname -> ocfg -> bool.
  Variable post_init : ocfg -> res unit.

  (* exactly the guard the code imposes on re-loading one rule *)
  Definition loadable_rule (r : rule) : Prop :=
    if is_noquant (r_alg r) then r_cfg r = default_ocfg
    else ocfg_weight_tensor_config (r_cfg r) <> None /\ post_init (r_cfg r) = Ok tt.

  Definition loadable (s : state) : Prop :=
    Forall (fun kv => Forall loadable_rule (snd kv)) s.

  Definition to_j (r : rule) : jrule :=
    {| j_regex := r_regex r; j_op := r_op r; j_alg := r_alg r;
       j_dict := Some (to_dict (r_cfg r)) |}.

  Definition load_rules (rs : list rule) (st : state) : res state :=
    foldM (load_one check post_init) (map to_j rs) st.

  Lemma get_recipe_flatten s : get_recipe s = map to_j (flatten s).
  Proof.
    unfold get_recipe, flatten. induction s as [|[k rs] s IH]; cbn [flat_map snd]; [reflexivity|].
    rewrite map_app, IH. reflexivity.
  Qed.

  Lemma foldM_app {A S} (f : S -> A -> res S) (a b : list A) (s : S) :
    foldM f (a ++ b) s = (s' <- foldM f a s ;; foldM f b s').
  Proof.
    revert s; induction a as [|x a IH]; intros s; cbn [app foldM bind]; [reflexivity|].
    destruct (f s x); cbn [bind]; auto.
  Qed.

  Lemma load_one_add st r :
    loadable_rule r ->
    load_one check post_init st (to_j r) =
    add check st (r_regex r) (r_op r) (Some (r_cfg r)) (r_alg r)
    \/ (is_noquant (r_alg r) = true /\ r_cfg r = default_ocfg /\
        load_one check post_init st (to_j r) =
        add check st (r_regex r) (r_op r) None (r_alg r)).
  Proof.
    unfold loadable_rule, load_one, to_j, from_dict, to_dict. cbn [j_alg j_dict j_regex j_op].
    destruct (is_noquant (r_alg r)) eqn:E.
    - intros H. right. repeat split; auto.
    - intros [Hw Hp]. left.
      destruct (ocfg_weight_tensor_config (r_cfg r)); [|contradiction].
      rewrite Hp. reflexivity.
  Qed.

  Lemma mk_rule_some r : mk_rule (r_regex r) (r_op r) (Some (r_cfg r)) (r_alg r) = r.
  Proof. destruct r; reflexivity. Qed.

  Lemma mk_rule_none r :
    r_cfg r = default_ocfg -> mk_rule (r_regex r) (r_op r) None (r_alg r) = r.
  Proof. destruct r; cbn. intros ->. reflexivity. Qed.

  (* one re-loaded rule behaves like [assign .. (add_scope ..)] *)
  Lemma load_one_spec st r :
    loadable_rule r -> rule_checked check r ->
    load_one check post_init st (to_j r) =
    Ok (assign st (r_regex r) (add_scope (lookup st (r_regex r)) r)).
  Proof.
    intros Hl Hc. destruct (load_one_add st r Hl) as [H|(Hnq & Hd & H)]; rewrite H, add_spec.
    - rewrite mk_rule_some.
      replace (add_accepts check (r_op r) (Some (r_cfg r)) (r_alg r)) with true; [reflexivity|].
      symmetry. unfold add_accepts. destruct Hc as [Hc|[Hc|Hc]]; rewrite Hc;
        rewrite ?orb_true_r; reflexivity.
    - rewrite mk_rule_none by assumption.
      replace (add_accepts check (r_op r) None (r_alg r)) with true; [reflexivity|].
      symmetry. unfold add_accepts. rewrite Hnq. rewrite orb_true_r. reflexivity.
  Qed.

  Lemma assign_new st k v : memZ k (keys st) = false -> assign st k v = st ++ [(k, v)].
  Proof.
    unfold memZ, keys. induction st as [|[k' v'] st IH]; cbn [assign map fst existsb app]; [reflexivity|].
    intros H. apply orb_false_iff in H. destruct H as [H1 H2]. rewrite H1, IH by assumption.
    reflexivity.
  Qed.

  Lemma assign_last st k v v' :
    memZ k (keys st) = false -> assign (st ++ [(k, v)]) k v' = st ++ [(k, v')].
  Proof.
    unfold memZ, keys. induction st as [|[k' w] st IH]; cbn [assign map fst existsb app].
    - intros _. rewrite Z.eqb_refl. reflexivity.
    - intros H. apply orb_false_iff in H. destruct H as [H1 H2]. rewrite H1, IH by assumption.
      reflexivity.
  Qed.

  Lemma lookup_last st k v : memZ k (keys st) = false -> lookup (st ++ [(k, v)]) k = Some v.
  Proof.
    unfold memZ, keys. induction st as [|[k' w] st IH]; cbn [lookup map fst existsb app].
    - intros _. rewrite Z.eqb_refl. reflexivity.
    - intros H. apply orb_false_iff in H. destruct H as [H1 H2]. rewrite H1. auto.
  Qed.

  Lemma lookup_absent st k : memZ k (keys st) = false -> lookup st k = None.
  Proof.
    unfold memZ, keys. induction st as [|[k' w] st IH]; cbn [lookup map fst existsb]; [reflexivity|].
    intros H. apply orb_false_iff in H. destruct H as [H1 H2]. rewrite H1. auto.
  Qed.

  Lemma load_tail st k done todo :
    memZ k (keys st) = false -> done <> [] ->
    Forall (fun r => r_regex r = k) todo ->
    NoDup (map r_op (done ++ todo)) ->
    (forall r, In r todo -> r_op r <> Op_ALL_SUPPORTED) ->
    Forall loadable_rule todo -> Forall (rule_checked check) todo ->
    load_rules todo (st ++ [(k, done)]) = Ok (st ++ [(k, done ++ todo)]).
  Proof.
    intros Hk. revert done. induction todo as [|r todo IH]; intros done Hne Hreg Hnd Hall Hl Hc.
    - rewrite app_nil_r. reflexivity.
    - apply Forall_cons_iff in Hreg, Hl, Hc.
      destruct Hreg as [Hr Hreg], Hl as [Hl1 Hl], Hc as [Hc1 Hc].
      unfold load_rules. cbn [map foldM]. rewrite load_one_spec by assumption.
      cbn [bind]. rewrite Hr, lookup_last by assumption.
      unfold add_scope.
      destruct (opname_eqb_spec (r_op r) Op_ALL_SUPPORTED) as [E|_].
      { exfalso. apply (Hall r); [left; reflexivity|exact E]. }
      assert (Hex : existsb (fun e => opname_eqb (r_op e) (r_op r)) done = false).
      { destruct (existsb _ done) eqn:Ex; [|reflexivity]. exfalso.
        apply existsb_exists in Ex. destruct Ex as (e & Hin & He).
        destruct (opname_eqb_spec (r_op e) (r_op r)) as [Eq|]; [|discriminate].
        rewrite map_app in Hnd. cbn [map] in Hnd.
        apply NoDup_remove_2 in Hnd. apply Hnd. apply in_or_app. left.
        rewrite <- Eq. apply in_map. assumption. }
      rewrite Hex, assign_last by assumption.
      fold (load_rules todo (st ++ [(k, done ++ [r])])).
      rewrite IH.
      + rewrite <- app_assoc. reflexivity.
      + destruct done; discriminate.
      + assumption.
      + rewrite <- app_assoc. exact Hnd.
      + intros x Hx. apply Hall. right. assumption.
      + assumption.
      + assumption.
  Qed.

  Lemma load_scope st k rs :
    memZ k (keys st) = false -> scope_ok check k rs -> Forall loadable_rule rs ->
    load_rules rs st = Ok (st ++ [(k, rs)]).
  Proof.
    intros Hk (Hne & Hreg & Hnd & Htl & Hchk) Hl.
    destruct rs as [|r0 rest]; [contradiction|].
    apply Forall_cons_iff in Hreg, Hl, Hchk.
    destruct Hreg as [Hr Hreg], Hl as [Hl0 Hl], Hchk as [Hc0 Hc].
    unfold load_rules. cbn [map foldM]. rewrite load_one_spec by assumption.
    cbn [bind]. rewrite Hr, lookup_absent by assumption.
    assert (Hs : add_scope None r0 = [r0]).
    { unfold add_scope. destruct (opname_eqb (r_op r0) Op_ALL_SUPPORTED); reflexivity. }
    rewrite Hs, assign_new by assumption.
    fold (load_rules rest (st ++ [(k, [r0])])).
    apply (load_tail st k [r0] rest); try assumption; discriminate.
  Qed.

  Lemma load_state st s :
    NoDup (keys st ++ keys s) ->
    Forall (fun kv => scope_ok check (fst kv) (snd kv)) s -> loadable s ->
    load_rules (flatten s) st = Ok (st ++ s).
  Proof.
    revert st. induction s as [|[k rs] s IH]; intros st Hnd Hok Hl.
    - rewrite app_nil_r. reflexivity.
    - apply Forall_cons_iff in Hok, Hl. destruct Hok as [Hok1 Hok], Hl as [Hl1 Hl].
      cbn [fst snd] in Hok1, Hl1.
      unfold load_rules, flatten. cbn [flat_map snd]. rewrite map_app, foldM_app.
      fold (load_rules rs st).
      assert (Hk : memZ k (keys st) = false).
      { unfold memZ. destruct (existsb (Z.eqb k) (keys st)) eqn:E; [|reflexivity]. exfalso.
        apply existsb_exists in E. destruct E as (x & Hin & Hx).
        apply Z.eqb_eq in Hx. subst x. cbn [keys map fst] in Hnd.
        apply NoDup_remove_2 in Hnd. apply Hnd. apply in_or_app. left. assumption. }
      rewrite (load_scope st k rs) by assumption. cbn [bind].
      fold (flatten s). fold (load_rules (flatten s) (st ++ [(k, rs)])).
      rewrite IH.
      + rewrite <- app_assoc. reflexivity.
      + unfold keys in *. rewrite map_app, <- app_assoc. cbn [map fst app]. exact Hnd.
      + assumption.
      + assumption.
  Qed.

  Theorem load_get_recipe s :
    Inv check s -> loadable s -> load check post_init (get_recipe s) = Ok s.
  Proof.
    intros [Hnd Hok] Hl. unfold load. rewrite get_recipe_flatten.
    change (load_rules (flatten s) init = Ok s).
    rewrite load_state; [reflexivity| |assumption|assumption].
    cbn. assumption.
  Qed.
End RT.
