(* Proofs/GroupLists.v — from nested GROUPS of consumer indices (GroupNest.v)
   towards the consumer LISTS of the emitted instructions:
   (1) any two groups, at any two depths, are nested or disjoint;
   (2) every consumer-side instruction the generator builds (vertical
       candidates = depth-1 groups at chain position 0; the instructions of
       depth >= 2) lists exactly the operators of ONE group: its consumer list
       is the image of that group under index -> operator id. *)
From VF Require Import Base.Prelude Gen.Enums Model.Graph Gen.InstChecks Model.Insts
     Proofs.ListFacts Proofs.InstsSane Proofs.InstsCover Proofs.GroupNest.

(* ---- (1) ---- *)
Lemma deeper_group_inside p groups :
  group_consumer_transformations p = Ok groups ->
  forall k d lv lv' g', nth_opt groups d = Some lv -> nth_opt groups (k + d) = Some lv' -> In g' lv' ->
    exists h, In h lv /\ incl g' h.
Proof.
  intros Hg. induction k as [|k IH]; intros d lv lv' g' Hd Hd' Hin.
  - cbn [Nat.add] in Hd'. rewrite Hd in Hd'. inversion Hd'; subst lv'. exists g'. split; [exact Hin|apply incl_refl].
  - cbn [Nat.add] in Hd'.
    assert (Hlt : (k + d < length groups)%nat).
    { pose proof (nth_opt_Some_lt _ _ _ Hd'). lia. }
    destruct (nth_opt_lt_Some groups (k + d) Hlt) as [lvm Hm].
    destruct (groups_are_nests p groups Hg (k + d)%nat lvm Hm) as [_ Hn].
    destruct (Hn lv' Hd' g' Hin) as (cur & Hcur & Hincl).
    destruct (IH d lv lvm cur Hd Hm Hcur) as (h & Hh & Hch).
    exists h. split; [exact Hh|]. intros x Hx. apply Hch. apply Hincl. exact Hx.
Qed.

Theorem groups_nested_or_disjoint p groups :
  group_consumer_transformations p = Ok groups ->
  forall d d' lv lv' g g', (d <= d')%nat ->
    nth_opt groups d = Some lv -> nth_opt groups d' = Some lv' -> In g lv -> In g' lv' ->
    incl g' g \/ (forall x, In x g' -> ~ In x g).
Proof.
  intros Hg d d' lv lv' g g' Hle Hd Hd' Hin Hin'.
  replace d' with ((d' - d) + d)%nat in Hd' by lia.
  destruct (deeper_group_inside p groups Hg _ _ _ _ _ Hd Hd' Hin') as (h & Hh & Hincl).
  destruct (groups_are_nests p groups Hg d lv Hd) as [Hnd _].
  destruct (existsb (fun x => memZ x g) g') eqn:E.
  - left. apply existsb_exists in E. destruct E as (x & Hx & Hm). apply memZ_In in Hm.
    assert (h = g) by (eapply (unique_group lv Hnd h g x); eauto). subst h. exact Hincl.
  - right. intros x Hx Hxg.
    assert (existsb (fun x => memZ x g) g' = true).
    { apply existsb_exists. exists x. split; [exact Hx|apply memZ_In; exact Hxg]. }
    congruence.
Qed.

(* ---- (2) ---- *)
Definition op_image (cs : list o2t) (g ops : list Z) : Prop :=
  mapM (fun i => c <- py_index cs i ;; Ok (o2t_op c)) g = Ok ops.

Lemma group_inst_image cs info g pos i : group_inst cs info g pos = Ok i -> op_image cs g (i_consumers i).
Proof.
  unfold group_inst, op_image. destruct g as [|g0 g]; [discriminate|].
  destruct (py_index cs g0) as [c0|]; cbn [bind]; [|discriminate].
  destruct (py_index (o2t_trans c0) pos) as [tr|]; cbn [bind]; [|discriminate].
  destruct (mapM _ (g0 :: g)) as [ops|]; cbn [bind]; [|discriminate].
  intros H. inversion H; subst. reflexivity.
Qed.

Definition from_group (cs : list o2t) (groups : list (list (list Z))) (i : inst) : Prop :=
  exists d lv g, nth_opt groups d = Some lv /\ In g lv /\ op_image cs g (i_consumers i).

Lemma vertical_candidates_groups groups p info l :
  vertical_candidates groups p info = Ok l -> Forall (from_group (consumers_list p) groups) l.
Proof.
  unfold vertical_candidates. destruct groups as [|g0 [|g1 rest]]; try (intros H; inversion H; constructor).
  intros H. apply Forall_forall. intros i Hi.
  destruct (mapM_In_inv _ _ _ _ H Hi) as (g & Hg & Hgi).
  exists 1%nat, g1, g. split; [reflexivity|]. split; [exact Hg|]. eapply group_inst_image. exact Hgi.
Qed.

Lemma other_consumer_insts_groups groups p info l :
  other_consumer_insts groups p info = Ok l -> Forall (from_group (consumers_list p) groups) l.
Proof.
  unfold other_consumer_insts. intros H.
  match type of H with (r <- ?m ;; _) = _ => destruct m as [r|] eqn:E end; cbn [bind] in H; [|discriminate].
  inversion H; subst. apply Forall_forall. intros i Hi. apply in_concat in Hi. destruct Hi as (li & Hli & Hi).
  destruct (mapM_In_inv _ _ _ _ E Hli) as ([idx gs] & Hin & Hb). cbn beta iota in Hb.
  destruct (idx <? 2); [inversion Hb; subst; destruct Hi|].
  match type of Hb with (r <- ?m ;; _) = _ => destruct m as [r2|] eqn:E2 end; cbn [bind] in Hb; [|discriminate].
  inversion Hb; subst li. apply in_concat in Hi. destruct Hi as (lg & Hlg & Hi).
  destruct (mapM_In_inv _ _ _ _ E2 Hlg) as (g & Hg & Hgb). cbn beta in Hgb.
  destruct g as [|g0 g]; [discriminate|].
  destruct (py_index (consumers_list p) g0) as [c0|]; cbn [bind] in Hgb; [|discriminate].
  destruct (Z.of_nat (length (o2t_trans c0)) <=? idx - 1); [inversion Hgb; subst; destruct Hi|].
  destruct (group_inst (consumers_list p) info (g0 :: g) (idx - 1)) as [i'|] eqn:Ei; cbn [bind] in Hgb; [|discriminate].
  inversion Hgb; subst lg. destruct Hi as [<-|[]].
  unfold enumerate in Hin. destruct (in_enumerate_from_inv _ _ _ _ Hin) as [_ Hn]. rewrite Z.sub_0_r in Hn.
  exists (Z.to_nat idx), gs, (g0 :: g). split; [exact Hn|]. split; [exact Hg|]. eapply group_inst_image. exact Ei.
Qed.

(* the consumer-side instructions of one plan entry, before vertical
   rewriting (which keeps every rule's consumer list: mk_like) *)
Theorem consumer_side_instructions_list_groups p info groups vert others :
  group_consumer_transformations p = Ok groups ->
  vertical_candidates groups p info = Ok vert ->
  other_consumer_insts groups p info = Ok others ->
  Forall (from_group (consumers_list p) groups) (vert ++ others).
Proof.
  intros _ Hv Ho. apply Forall_app. split;
    [eapply vertical_candidates_groups; exact Hv|eapply other_consumer_insts_groups; exact Ho].
Qed.

(* ---- (3) operator level: when distinct consumer entries name distinct
   operators, the consumer lists of two consumer-side instructions are nested
   or disjoint ---- *)
Definition inj_ops (cs : list o2t) : Prop :=
  forall i j ci cj, 0 <= i -> 0 <= j -> py_index cs i = Ok ci -> py_index cs j = Ok cj ->
                    o2t_op ci = o2t_op cj -> i = j.

Lemma group_indices_nonneg p groups :
  group_consumer_transformations p = Ok groups ->
  forall d lv g x, nth_opt groups d = Some lv -> In g lv -> In x g -> 0 <= x.
Proof.
  intros Hg d lv g x Hd Hin Hx.
  assert (H0 : exists lv0, nth_opt groups 0 = Some lv0).
  { apply nth_opt_lt_Some. pose proof (nth_opt_Some_lt _ _ _ Hd). lia. }
  destruct H0 as [lv0 H0].
  replace d with (d + 0)%nat in Hd by lia.
  destruct (deeper_group_inside p groups Hg _ _ _ _ _ H0 Hd Hin) as (h & Hh & Hincl).
  specialize (Hincl _ Hx).
  unfold group_consumer_transformations in Hg.
  destruct (ttp_consumers p) as [cs|]; [|inversion Hg; subst; discriminate].
  destruct cs as [|c0 cs0] eqn:Ecs; [inversion Hg; subst; discriminate|]. rewrite <- Ecs in Hg.
  destruct (group_all cs [map fst (enumerate cs)] 0 (longest_chain cs)) as [rest|]; cbn [bind] in Hg; [|discriminate].
  inversion Hg; subst groups. cbn [nth_opt] in H0. inversion H0; subst lv0.
  destruct Hh as [<-|[]]. unfold enumerate in Hincl. destruct (nodup_iota cs 0) as [_ B]. apply B. exact Hincl.
Qed.

Theorem consumer_lists_nested_or_disjoint p groups i1 i2 d d' lv lv' g g' :
  group_consumer_transformations p = Ok groups -> inj_ops (consumers_list p) -> (d <= d')%nat ->
  nth_opt groups d = Some lv -> nth_opt groups d' = Some lv' -> In g lv -> In g' lv' ->
  op_image (consumers_list p) g (i_consumers i1) -> op_image (consumers_list p) g' (i_consumers i2) ->
  incl (i_consumers i2) (i_consumers i1) \/ (forall c, In c (i_consumers i2) -> ~ In c (i_consumers i1)).
Proof.
  intros Hg Hinj Hle Hd Hd' Hin Hin' Him1 Him2.
  destruct (groups_nested_or_disjoint p groups Hg d d' lv lv' g g' Hle Hd Hd' Hin Hin') as [Hincl|Hdis].
  - left. intros c Hc. destruct (mapM_In_inv _ _ _ _ Him2 Hc) as (i & Hi & Fi).
    destruct (mapM_In' _ _ _ _ Him1 (Hincl _ Hi)) as (b & Fb & Hb). rewrite Fi in Fb. inversion Fb; subst. exact Hb.
  - right. intros c Hc2 Hc1.
    destruct (mapM_In_inv _ _ _ _ Him2 Hc2) as (i & Hi & Fi). destruct (mapM_In_inv _ _ _ _ Him1 Hc1) as (j & Hj & Fj).
    destruct (py_index (consumers_list p) i) as [ci|] eqn:Ei; cbn [bind] in Fi; [|discriminate].
    destruct (py_index (consumers_list p) j) as [cj|] eqn:Ej; cbn [bind] in Fj; [|discriminate].
    inversion Fi; inversion Fj; subst.
    assert (i = j).
    { apply (Hinj i j ci cj); [exact (group_indices_nonneg p groups Hg d' lv' g' i Hd' Hin' Hi)|exact (group_indices_nonneg p groups Hg d lv g j Hd Hin Hj)|exact Ei|exact Ej|congruence]. }
    subst j. exact (Hdis _ Hi Hj).
Qed.
