(* Proofs/SemRun.v — C06 over whole graphs: a graph that is an INTERLEAVING of
   the original operators (operands possibly redirected to the result of a
   DEQUANTIZE) with DEQUANTIZE operators on quantized constants computes, on
   every original tensor that is not such a constant, exactly what the
   original graph computes when those constants hold their dequantized
   values — for every kernel semantics K in which each inserted DEQUANTIZE
   maps the stored constant q c to dq c. *)
From VF Require Import Base.Prelude Model.Graph Model.Perform Model.Sem Spec.Interleave Proofs.ListFacts
     Proofs.PerformStep Proofs.SemProofs.

Section SemRun.
  Variable val : Type.
  Variable K : Z -> Z -> list (option val) -> list val.
  Notation env := (env val).
  Notation step := (step val K).
  Notation run := (run val K).

  Variable n0 : Z.                 (* number of original tensors *)
  Variable isq : Z -> bool.        (* the constants stored quantized *)
  Variables (q dq : Z -> val).     (* stored / dequantized value of such a constant *)
  Hypothesis isq_orig : forall c, isq c = true -> 0 <= c < n0.

  (* nm: new tensor x |-> the constant c whose dequantized value it holds *)
  Notation nmap := Interleave.nmap.

  Definition EnvR (nm : nmap) (e0 e : env) : Prop :=
    (forall t, t < n0 -> isq t = false -> e t = e0 t) /\
    (forall c, isq c = true -> e0 c = Some (dq c) /\ e c = Some (q c)) /\
    (forall x c, In (x, c) nm -> e x = Some (dq c) /\ isq c = true /\ n0 <= x).

  (* operand x of a transformed op versus operand x0 of the original op *)
  Definition operandR (nm : nmap) (x0 x : Z) : Prop :=
    (x = x0 /\ (x0 = -1 \/ (x0 < n0 /\ isq x0 = false))) \/ In (x, x0) nm.

  Inductive inter : nmap -> list op -> list op -> Prop :=
  | I_nil nm : inter nm [] []
  | I_deq nm o x c ops0 ops :
      o_ins o = [c] -> o_outs o = [x] -> isq c = true -> n0 <= x -> ~ In x (map fst nm) ->
      K (o_code o) (o_uid o) [Some (q c)] = [dq c] ->
      inter ((x, c) :: nm) ops0 ops -> inter nm ops0 (o :: ops)
  | I_orig nm o0 o ops0 ops :
      o_code o = o_code o0 -> o_uid o = o_uid o0 -> o_outs o = o_outs o0 ->
      Forall2 (operandR nm) (o_ins o0) (o_ins o) ->
      Forall (fun t => t < n0 /\ isq t = false) (o_outs o0) ->
      inter nm ops0 ops -> inter nm (o0 :: ops0) (o :: ops).

  Lemma operand_agree nm e0 e x0 x :
    EnvR nm e0 e -> operandR nm x0 x -> operand val e x = operand val e0 x0.
  Proof.
    intros (E1 & E2 & E3) [[-> [-> | [Hlt Hq]]]|Hin]; unfold operand.
    - reflexivity.
    - destruct (Z.eqb x0 (-1)); [reflexivity|apply E1; assumption].
    - destruct (E3 _ _ Hin) as (Ex & Hc & Hx). destruct (E2 _ Hc) as [E0c _].
      pose proof (isq_orig _ Hc) as Hr.
      destruct (Z.eqb_spec x (-1)); [lia|]. destruct (Z.eqb_spec x0 (-1)); [lia|]. congruence.
  Qed.

  Lemma upd_list_keep : forall ks vs (e : env) t, ~ In t ks -> upd_list val e ks vs t = e t.
  Proof. intros. apply upd_list_other. assumption. Qed.

  Lemma step_orig nm e0 e o0 o :
    o_code o = o_code o0 -> o_uid o = o_uid o0 -> o_outs o = o_outs o0 ->
    Forall2 (operandR nm) (o_ins o0) (o_ins o) ->
    Forall (fun t => t < n0 /\ isq t = false) (o_outs o0) ->
    EnvR nm e0 e -> EnvR nm (step e0 o0) (step e o).
  Proof.
    intros Hc Hu Ho Hi Houts HE. unfold Sem.step. rewrite Hc, Hu, Ho.
    assert (Hins : map (operand val e) (o_ins o) = map (operand val e0) (o_ins o0)).
    { clear - Hi HE isq_orig. induction Hi as [|x0 x l0 l Hx HF IH]; cbn; [reflexivity|].
      f_equal; [eapply operand_agree; eassumption|exact IH]. }
    rewrite Hins. destruct HE as (E1 & E2 & E3).
    assert (Hout_q : forall c, isq c = true -> ~ In c (o_outs o0)).
    { intros c Hq Hin. rewrite Forall_forall in Houts. destruct (Houts _ Hin) as [_ C]. congruence. }
    assert (Hout_new : forall x, n0 <= x -> ~ In x (o_outs o0)).
    { intros x Hx Hin. rewrite Forall_forall in Houts. destruct (Houts _ Hin) as [C _]. lia. }
    repeat split.
    - intros t Ht Hq. apply (upd_list_agree val (fun t => t < n0 /\ isq t = false)); [|auto].
      intros t0 [A B]. apply E1; assumption.
    - rewrite upd_list_keep by (apply Hout_q; assumption). apply E2. assumption.
    - rewrite upd_list_keep by (apply Hout_q; assumption). apply E2. assumption.
    - destruct (E3 _ _ H) as (A & B & C). rewrite upd_list_keep by (apply Hout_new; exact C). exact A.
    - destruct (E3 _ _ H) as (A & B & C). exact B.
    - destruct (E3 _ _ H) as (A & B & C). exact C.
  Qed.

  Lemma step_deq nm e0 e o x c :
    o_ins o = [c] -> o_outs o = [x] -> isq c = true -> n0 <= x -> ~ In x (map fst nm) ->
    K (o_code o) (o_uid o) [Some (q c)] = [dq c] ->
    EnvR nm e0 e -> EnvR ((x, c) :: nm) e0 (step e o).
  Proof.
    intros Hi Ho Hq Hx Hfresh HK (E1 & E2 & E3). unfold Sem.step. rewrite Hi, Ho. cbn [map].
    pose proof (isq_orig _ Hq) as Hr.
    unfold operand at 1. destruct (Z.eqb_spec c (-1)); [lia|].
    rewrite (proj2 (E2 _ Hq)), HK. cbn [upd_list]. unfold upd. repeat split.
    - intros t Ht Hqt. destruct (Z.eqb_spec t x); [lia|apply E1; assumption].
    - apply E2. assumption.
    - pose proof (isq_orig _ H). destruct (Z.eqb_spec c0 x); [lia|apply E2; assumption].
    - destruct H as [H|H].
      + inversion H; subst. rewrite Z.eqb_refl. reflexivity.
      + destruct (Z.eqb_spec x0 x) as [->|Hne].
        * exfalso. apply Hfresh. apply in_map_iff. exists (x, c0). auto.
        * apply (E3 _ _ H).
    - destruct H as [H|H]; [inversion H; subst; exact Hq|apply (E3 _ _ H)].
    - destruct H as [H|H]; [inversion H; subst; exact Hx|apply (E3 _ _ H)].
  Qed.

  Theorem inter_preserves_meaning : forall nm ops0 ops,
    inter nm ops0 ops -> forall e0 e, EnvR nm e0 e ->
    exists nm', EnvR nm' (run ops0 e0) (run ops e).
  Proof.
    induction 1 as [nm|nm o x c ops0 ops Hi Ho Hq Hx Hf HK _ IH|nm o0 o ops0 ops Hc Hu Ho Hi Houts _ IH];
      intros e0 e HE.
    - exists nm. exact HE.
    - cbn [Sem.run fold_left]. apply IH. eapply step_deq; eassumption.
    - cbn [Sem.run fold_left]. apply IH. eapply step_orig; eassumption.
  Qed.

  (* spelled out: every original tensor that is not a quantized constant holds
     the same value after both runs *)
  Corollary inter_same_results ops0 ops e0 e :
    inter [] ops0 ops ->
    (forall t, t < n0 -> isq t = false -> e t = e0 t) ->
    (forall c, isq c = true -> e0 c = Some (dq c) /\ e c = Some (q c)) ->
    forall t, t < n0 -> isq t = false -> run ops e t = run ops0 e0 t.
  Proof.
    intros HI H1 H2.
    destruct (inter_preserves_meaning _ _ _ HI e0 e) as (nm' & R & _ & _).
    - repeat split; try (intros; apply H1; assumption); try (apply H2; assumption); destruct H.
    - exact R.
  Qed.

  (* ---- the executable check of [inter] (Spec/Interleave.v; K's contract
     stays a hypothesis) is sound ---- *)
  Notation operandRb := (Interleave.operandRb n0 isq).
  Notation interb := (Interleave.interb n0 isq).

  Lemma list_eqb_Z_eq : forall a b : list Z, list_eqb Z.eqb a b = true -> a = b.
  Proof.
    induction a as [|x a IH]; intros [|y b]; cbn; intros H; try discriminate; [reflexivity|].
    apply Bool.andb_true_iff in H. destruct H as [H1 H2]. apply Z.eqb_eq in H1. f_equal; auto.
  Qed.

  Lemma operandRb_sound nm x0 x : operandRb nm x0 x = true -> operandR nm x0 x.
  Proof.
    unfold operandRb, operandR. intros H. apply Bool.orb_true_iff in H. destruct H as [H|H].
    - apply Bool.andb_true_iff in H. destruct H as [H1 H2]. apply Z.eqb_eq in H1. left. split; [exact H1|].
      apply Bool.orb_true_iff in H2. destruct H2 as [H2|H2]; [left; apply Z.eqb_eq; exact H2|right].
      apply Bool.andb_true_iff in H2. destruct H2 as [A B]. apply Z.ltb_lt in A. apply Bool.negb_true_iff in B. auto.
    - right. apply existsb_exists in H. destruct H as ([a b] & Hin & E). cbn in E.
      apply Bool.andb_true_iff in E. destruct E as [E1 E2]. apply Z.eqb_eq in E1, E2. subst. exact Hin.
  Qed.

  Lemma forall2b_sound {A B} (f : A -> B -> bool) (R : A -> B -> Prop) :
    (forall a b, f a b = true -> R a b) -> forall l1 l2, forall2b f l1 l2 = true -> Forall2 R l1 l2.
  Proof.
    intros Hf. induction l1 as [|a l1 IH]; intros [|b l2] H; cbn in H; try discriminate; constructor.
    - apply Bool.andb_true_iff in H. apply Hf. exact (proj1 H).
    - apply Bool.andb_true_iff in H. apply IH. exact (proj2 H).
  Qed.

  Theorem interb_sound : forall ops nm ops0,
    (forall o c, In o ops -> o_uid o = UID_INSERTED -> o_ins o = [c] ->
                 K (o_code o) (o_uid o) [Some (q c)] = [dq c]) ->
    interb nm ops0 ops = true -> inter nm ops0 ops.
  Proof.
    induction ops as [|o r IH]; intros nm ops0 HK H; cbn [interb] in H.
    - destruct ops0; [constructor|discriminate].
    - destruct (Z.eqb_spec (o_uid o) UID_INSERTED) as [Eu|Nu].
      + destruct (o_ins o) as [|c [|? ?]] eqn:Ei; try discriminate.
        destruct (o_outs o) as [|x [|? ?]] eqn:Eo; try discriminate.
        repeat (apply Bool.andb_true_iff in H; destruct H as [H ?]).
        eapply I_deq; try eassumption.
        * apply Z.leb_le. assumption.
        * intros C. apply memZ_In in C. match goal with Hn : negb (memZ x _) = true |- _ => rewrite C in Hn; discriminate end.
        * apply HK; [left; reflexivity|exact Eu|exact Ei].
        * apply IH; [intros o' c' Hin; apply HK; right; exact Hin|assumption].
      + destruct ops0 as [|o0 r0]; [discriminate|].
        repeat (apply Bool.andb_true_iff in H; destruct H as [H ?]).
        apply I_orig.
        * apply Z.eqb_eq. assumption.
        * apply Z.eqb_eq. assumption.
        * apply list_eqb_Z_eq. assumption.
        * eapply forall2b_sound; [apply operandRb_sound|assumption].
        * apply Forall_forall. intros t Ht.
          match goal with Hf : forallb _ (o_outs o0) = true |- _ => rewrite forallb_forall in Hf; specialize (Hf _ Ht) end.
          match goal with Hf : (_ <? _) && negb _ = true |- _ => apply Bool.andb_true_iff in Hf; destruct Hf as [A B] end.
          apply Z.ltb_lt in A. apply Bool.negb_true_iff in B. auto.
        * apply IH; [intros o' c' Hin; apply HK; right; exact Hin|assumption].
  Qed.
End SemRun.

(* ---- dynamic range, any number of constants quantized in place ---- *)
Section HybridMany.
  Variable val : Type.
  Variable K : Z -> Z -> list (option val) -> list val.
  Variable isq : Z -> bool.
  Variables (q dq : Z -> val).

  (* operand lists that agree except that the quantized side may hold q c where
     the float side holds dq c *)
  Inductive rel_operands : list (option val) -> list (option val) -> Prop :=
  | RO_nil : rel_operands [] []
  | RO_same x l l' : rel_operands l l' -> rel_operands (x :: l) (x :: l')
  | RO_quant c l l' : isq c = true -> rel_operands l l' -> rel_operands (Some (dq c) :: l) (Some (q c) :: l').

  (* idealised hybrid-kernel contract *)
  Definition hybrid_exact_many : Prop :=
    forall c u ins ins', rel_operands ins ins' -> K c u ins' = K c u ins.

  Definition InvQM (e e' : env val) : Prop :=
    (forall c, isq c = true -> e c = Some (dq c) /\ e' c = Some (q c)) /\
    (forall t, isq t = false -> e' t = e t).

  Lemma step_hybrid_many e e' o :
    hybrid_exact_many -> (forall t, In t (o_outs o) -> isq t = false) ->
    InvQM e e' -> InvQM (step val K e o) (step val K e' o).
  Proof.
    intros HK Hw (I1 & I2). unfold Sem.step.
    assert (R : rel_operands (map (operand val e) (o_ins o)) (map (operand val e') (o_ins o))).
    { induction (o_ins o) as [|i l IH]; cbn; [constructor|].
      unfold operand at 1 3. destruct (Z.eqb i (-1)); [constructor; exact IH|].
      destruct (isq i) eqn:Ei.
      - destruct (I1 _ Ei) as [A B]. rewrite A, B. constructor; assumption.
      - rewrite (I2 _ Ei). constructor. exact IH. }
    rewrite (HK _ _ _ _ R). split.
    - intros c Hc. assert (Hn : ~ In c (o_outs o)) by (intros C; specialize (Hw _ C); congruence).
      rewrite !upd_list_other by exact Hn. apply I1. exact Hc.
    - intros t Ht. apply (upd_list_agree val (fun t => isq t = false)); [|exact Ht]. exact I2.
  Qed.

  Theorem quantize_in_place_many_preserves_meaning ops : forall e e',
    hybrid_exact_many -> Forall (fun o => forall t, In t (o_outs o) -> isq t = false) ops ->
    InvQM e e' -> InvQM (run val K ops e) (run val K ops e').
  Proof.
    induction ops as [|o ops IH]; intros e e' HK Hw I; cbn; [exact I|].
    inversion Hw; subst. apply IH; [exact HK|assumption|]. apply step_hybrid_many; assumption.
  Qed.
End HybridMany.
