(* Proofs/InstsAlone.v — the instruction generator works per subgraph.

   With model-wide unique tensor names (the input contract), the instructions
   generated for a plan entry of a tensor of subgraph k are the same in the
   whole model and in the model that consists of subgraph k alone (only the
   subgraph index they are addressed to differs); composed with the
   performer's stand-alone theorem (Proofs/AloneProofs.v): running generator
   and performer on the whole model, or on subgraph k alone with k's plan
   entries, yields the same subgraph. *)
From VF Require Import Base.Prelude Gen.Enums Model.Graph Gen.InstChecks Model.Insts Model.Perform
     Spec.WF Proofs.ListFacts Proofs.PerformStep Proofs.LocalProofs Proofs.InstsSane Proofs.AloneProofs.

(* everything after the lookup *)
Definition insts_from (info : tinfo) (p : ttp) : res tinsts :=
  groups <- group_consumer_transformations p ;;
  vert <- vertical_candidates groups p info ;;
  others <- other_consumer_insts groups p info ;;
  let prods := match ttp_producer p with
               | None => []
               | Some pp => map (fun t =>
                   {| i_trans := t; i_tensor := gi_tensor info;
                      i_producer := gi_producer info;
                      i_consumers := gi_consumers info;
                      i_params := o2t_params pp |}) (o2t_trans pp)
               end in
  body <- match last (map Some prods) None with
          | Some lastp => v <- apply_vertical lastp vert ;; Ok (but_last prods ++ v)
          | None => Ok (prods ++ vert)
          end ;;
  let all := body ++ others in
  insts_valid all ;;;
  Ok {| ti_name := ttp_name p; ti_sg := gi_sg info; ti_insts := all |}.

Lemma qpi_unfold im p :
  quant_params_to_insts im p = (info <- lookup_info im (ttp_name p) ;; insts_from info p).
Proof. reflexivity. Qed.

Definition with_sg (info : tinfo) (sg : Z) : tinfo :=
  {| gi_tensor := gi_tensor info; gi_sg := sg; gi_producer := gi_producer info;
     gi_consumers := gi_consumers info |}.

Definition res_map {A B} (f : A -> B) (r : res A) : res B :=
  match r with Ok a => Ok (f a) | Err e => Err e end.

Definition set_sg (sg : Z) (ti : tinsts) : tinsts :=
  {| ti_name := ti_name ti; ti_sg := sg; ti_insts := ti_insts ti |}.

(* the subgraph index only flows into ti_sg *)
Lemma insts_from_sg info sg p :
  insts_from (with_sg info sg) p = res_map (set_sg sg) (insts_from info p).
Proof.
  unfold insts_from.
  destruct (group_consumer_transformations p) as [groups|]; cbn [bind res_map]; [|reflexivity].
  change (vertical_candidates groups p (with_sg info sg)) with (vertical_candidates groups p info).
  destruct (vertical_candidates groups p info) as [vert|]; cbn [bind res_map]; [|reflexivity].
  change (other_consumer_insts groups p (with_sg info sg)) with (other_consumer_insts groups p info).
  destruct (other_consumer_insts groups p info) as [others|]; cbn [bind res_map]; [|reflexivity].
  cbn [with_sg gi_tensor gi_producer gi_consumers gi_sg].
  match goal with |- (body <- ?m ;; _) = _ => destruct m as [body|] end; cbn [bind res_map]; [|reflexivity].
  destruct (insts_valid (body ++ others)); cbn [bind res_map]; reflexivity.
Qed.

Lemma tensor_info_with_sg sg sg' g t : with_sg (tensor_info sg g t) sg' = tensor_info sg' g t.
Proof. reflexivity. Qed.

Lemma nodup_app_l {A} (l r : list A) : NoDup (l ++ r) -> NoDup l.
Proof.
  induction l as [|x l IH]; cbn; intros H; [constructor|]. inversion H as [|? ? Hn Hr]; subst.
  constructor; [intros Hin; apply Hn; apply in_app_iff; left; exact Hin|apply IH; exact Hr].
Qed.
Lemma nodup_app_r {A} (l r : list A) : NoDup (l ++ r) -> NoDup r.
Proof. induction l as [|x l IH]; cbn; intros H; [exact H|]. inversion H; subst. auto. Qed.

(* unique names are inherited by the stand-alone model *)
Lemma all_keys_alone m k g :
  nth_opt (m_subgraphs m) k = Some g -> NoDup (all_keys m) -> NoDup (all_keys (alone m k g)).
Proof.
  intros Hg Hnd. unfold all_keys, info_map in *. cbn [alone m_subgraphs enumerate enumerate_from flat_map].
  rewrite app_nil_r.
  (* the keys of subgraph k form a sub-list of all keys *)
  assert (Hsub : forall (l : list subgraph) i0 j, nth_opt l j = Some g ->
            NoDup (map fst (flat_map (fun sg : Z * subgraph => let '(sgid, g0) := sg in
                     map (fun it : Z * tensor => let '(tid, t) := it in (name_key t, tensor_info sgid g0 tid))
                         (enumerate (sg_tensors g0))) (enumerate_from i0 l))) ->
            NoDup (map (fun it : Z * tensor => name_key (snd it)) (enumerate (sg_tensors g)))).
  { induction l as [|x l IH]; intros i0 j Hj H; [destruct j; discriminate|].
    cbn [enumerate_from flat_map] in H. rewrite map_app in H. destruct j as [|j]; cbn [nth_opt] in Hj.
    - inversion Hj; subst x. apply nodup_app_l in H. rewrite map_map in H.
      erewrite map_ext; [exact H|]. intros [tid t]. reflexivity.
    - apply nodup_app_r in H. eapply IH; eauto. }
  specialize (Hsub _ 0 _ Hg Hnd). rewrite map_map. erewrite map_ext; [exact Hsub|]. intros [tid t]. reflexivity.
Qed.

Definition in_subgraph (g : subgraph) (n : Z * list Z) : Prop :=
  exists tid t, nth_opt (sg_tensors g) tid = Some t /\ n = name_key t.

Theorem insts_per_subgraph m k g p :
  NoDup (all_keys m) -> nth_opt (m_subgraphs m) k = Some g -> in_subgraph g (ttp_name p) ->
  quant_params_to_insts (info_map (alone m k g)) p =
    res_map (set_sg 0) (quant_params_to_insts (info_map m) p) /\
  (forall ti, quant_params_to_insts (info_map m) p = Ok ti -> ti_sg ti = Z.of_nat k).
Proof.
  intros Hnd Hg (tid & t & Ht & Hn). rewrite !qpi_unfold, Hn.
  rewrite (lookup_info_own m _ _ Hnd (info_map_contains m k g tid t Hg Ht)).
  assert (Hg0 : nth_opt (m_subgraphs (alone m k g)) 0 = Some g) by reflexivity.
  rewrite (lookup_info_own _ _ _ (all_keys_alone m k g Hg Hnd) (info_map_contains _ 0 g tid t Hg0 Ht)).
  cbn [bind]. split.
  - rewrite <- (tensor_info_with_sg (Z.of_nat k) (Z.of_nat 0)). rewrite insts_from_sg. reflexivity.
  - intros ti H. unfold insts_from in H.
    destruct (group_consumer_transformations p) as [groups|]; cbn [bind] in H; [|discriminate].
    destruct (vertical_candidates groups p _) as [vert|]; cbn [bind] in H; [|discriminate].
    destruct (other_consumer_insts groups p _) as [others|]; cbn [bind] in H; [|discriminate].
    match type of H with (body <- ?m ;; _) = _ => destruct m as [body|] end; cbn [bind] in H; [|discriminate].
    destruct (insts_valid _); cbn [bind] in H; [|discriminate]. inversion H; subst ti. reflexivity.
Qed.

(* a plan entry that is generated at all is named after a tensor of the model,
   and its instructions are addressed to that tensor's subgraph *)
Lemma lookup_info_key im k info : lookup_info im k = Ok info -> In (k, info) im.
Proof.
  unfold lookup_info. destruct (find _ (rev im)) as [e|] eqn:E; [|discriminate].
  intros H; inversion H; subst. apply find_some in E. destruct E as [E1 E2]. apply in_rev in E1.
  apply key_eqb_eq in E2. destruct e as [k' i']. cbn in *. subst. exact E1.
Qed.

Lemma generated_entry_subgraph m p ti :
  quant_params_to_insts (info_map m) p = Ok ti ->
  exists sg g, nth_opt (m_subgraphs m) sg = Some g /\ in_subgraph g (ttp_name p) /\ ti_sg ti = Z.of_nat sg.
Proof.
  intros H. pose proof H as H0. rewrite qpi_unfold in H.
  destruct (lookup_info (info_map m) (ttp_name p)) as [info|] eqn:El; cbn [bind] in H; [|discriminate].
  pose proof (lookup_info_key _ _ _ El) as Hin.
  assert (Hk : exists sg g tid t, nth_opt (m_subgraphs m) sg = Some g /\ nth_opt (sg_tensors g) tid = Some t /\
                 ttp_name p = name_key t /\ info = tensor_info (Z.of_nat sg) g (Z.of_nat tid)).
  { unfold info_map in Hin. apply in_flat_map in Hin. destruct Hin as ([sgid g] & Hsg & Hin).
    apply in_map_iff in Hin. destruct Hin as ([tid t] & E & Ht). inversion E; subst.
    unfold enumerate in *. destruct (in_enumerate_from_inv _ _ _ _ Hsg) as [S1 S2].
    destruct (in_enumerate_from_inv _ _ _ _ Ht) as [T1 T2]. rewrite Z.sub_0_r in *.
    exists (Z.to_nat sgid), g, (Z.to_nat tid), t. rewrite !Z2Nat.id by lia. auto. }
  destruct Hk as (sg & g & tid & t & Hg & Ht & Hn & ->).
  exists sg, g. split; [exact Hg|]. split; [exists tid, t; auto|].
  unfold insts_from in H.
  destruct (group_consumer_transformations p) as [groups|]; cbn [bind] in H; [|discriminate].
  destruct (vertical_candidates groups p _) as [vert|]; cbn [bind] in H; [|discriminate].
  destruct (other_consumer_insts groups p _) as [others|]; cbn [bind] in H; [|discriminate].
  match type of H with (body <- ?m ;; _) = _ => destruct m as [body|] end; cbn [bind] in H; [|discriminate].
  destruct (insts_valid _); cbn [bind] in H; [|discriminate]. inversion H; subst ti. reflexivity.
Qed.

(* names of different subgraphs are different *)
Lemma unique_names_separate m j k gj gk n :
  NoDup (all_keys m) -> nth_opt (m_subgraphs m) j = Some gj -> nth_opt (m_subgraphs m) k = Some gk ->
  in_subgraph gj n -> in_subgraph gk n -> j = k.
Proof.
  intros Hnd Hj Hk (t1 & x1 & H1 & E1) (t2 & x2 & H2 & E2).
  pose proof (lookup_info_own m _ _ Hnd (info_map_contains m j gj t1 x1 Hj H1)) as L1.
  pose proof (lookup_info_own m _ _ Hnd (info_map_contains m k gk t2 x2 Hk H2)) as L2.
  rewrite <- E1 in L1. rewrite <- E2 in L2. rewrite L1 in L2.
  assert (E : tensor_info (Z.of_nat j) gj (Z.of_nat t1) = tensor_info (Z.of_nat k) gk (Z.of_nat t2)) by congruence.
  apply (f_equal gi_sg) in E. cbn in E. lia.
Qed.

(* decidable: is the entry named after a tensor of g? *)
Definition named_in (g : subgraph) (p : ttp) : bool :=
  existsb (fun t => key_eqb (ttp_name p) (name_key t)) (sg_tensors g).

Lemma named_in_spec g p : named_in g p = true <-> in_subgraph g (ttp_name p).
Proof.
  unfold named_in, in_subgraph. rewrite existsb_exists. split.
  - intros (t & Hin & E). apply key_eqb_eq in E. destruct (In_nth_opt _ _ Hin) as (tid & Ht). eauto.
  - intros (tid & t & Ht & E). exists t. split; [eapply nth_opt_In; eauto|apply key_eqb_eq; exact E].
Qed.

(* the generator on the whole plan, restricted to subgraph k = the generator
   on k's entries in the stand-alone model *)
Theorem insts_of_params_alone m k g : NoDup (all_keys m) -> nth_opt (m_subgraphs m) k = Some g ->
  forall ps tis, insts_of_params m ps = Ok tis ->
  insts_of_params (alone m k g) (filter (named_in g) ps) = Ok (map (retarget 0) (filter (own k) tis)).
Proof.
  intros Hnd Hg. unfold insts_of_params.
  induction ps as [|p ps IH]; intros tis H; cbn [mapM] in H.
  - inversion H; subst. reflexivity.
  - destruct (quant_params_to_insts (info_map m) p) as [ti|] eqn:Ep; cbn [bind] in H; [|discriminate].
    destruct (mapM (quant_params_to_insts (info_map m)) ps) as [rest|] eqn:Er; cbn [bind] in H; [|discriminate].
    inversion H; subst tis. clear H. cbn [filter].
    destruct (generated_entry_subgraph _ _ _ Ep) as (sg & g' & Hg' & Hin' & Hsg).
    destruct (named_in g p) eqn:En.
    + apply named_in_spec in En. destruct (insts_per_subgraph m k g p Hnd Hg En) as [A B].
      cbn [mapM]. rewrite A, Ep. cbn [res_map bind]. rewrite (IH _ eq_refl). cbn [bind].
      unfold own at 2. rewrite (B _ Ep), Z.eqb_refl. cbn [map]. reflexivity.
    + rewrite (IH _ eq_refl). unfold own at 2.
      destruct (Z.eqb_spec (ti_sg ti) (Z.of_nat k)) as [E|_]; [|reflexivity].
      exfalso. rewrite Hsg in E. apply Nat2Z.inj in E. subst sg. rewrite Hg in Hg'. inversion Hg'; subst g'.
      apply named_in_spec in Hin'. congruence.
Qed.

(* generator + performer: the whole model vs subgraph k alone *)
Theorem generate_and_transform_alone m k g ps tis m1 :
  NoDup (all_keys m) -> nth_opt (m_subgraphs m) k = Some g -> codes_in_range (m_opcodes m) g ->
  insts_of_params m ps = Ok tis -> transform_graph m tis = Ok m1 ->
  exists tis2 m2, insts_of_params (alone m k g) (filter (named_in g) ps) = Ok tis2 /\
                  transform_graph (alone m k g) tis2 = Ok m2 /\ same_subgraph_result k 0 m1 m2.
Proof.
  intros Hnd Hg Hc Hi Ht.
  assert (Hnn : Forall (fun ti => 0 <= ti_sg ti) tis).
  { apply Forall_forall. intros ti Hin. unfold insts_of_params in Hi.
    assert (Hall : Forall (fun ti => exists p, quant_params_to_insts (info_map m) p = Ok ti) tis).
    { eapply mapM_Forall_gen; [|exact Hi]. intros a b Hb. exists a. exact Hb. }
    rewrite Forall_forall in Hall. destruct (Hall _ Hin) as (p & Hp).
    destruct (generated_entry_subgraph _ _ _ Hp) as (sg & _ & _ & _ & E). lia. }
  destruct (transform_graph_alone m tis m1 k g Hg Hc Hnn Ht) as (m2 & T2 & S).
  exists (map (retarget 0) (filter (own k) tis)), m2. split; [|split; assumption].
  eapply insts_of_params_alone; eassumption.
Qed.
