(* Proofs/NeedCalProofs.v — C10: the gate of Quantizer.calibrate()
   (need_calibration) is true whenever ANY operator resolves to a static-range
   config: calibration cannot be skipped for a recipe under which quantization
   will ask for statistics. *)
From VF Require Import Base.Prelude Gen.Enums Gen.Configs Model.Recipe.

Section NeedCal.
  Variable check : akey -> opname -> ocfg -> bool.
  Variable matches : Z -> Z -> bool.

  Definition static_cfg (c : ocfg) : bool :=
    precision_eqb (ocfg_compute_precision c) Prec_INTEGER
    && negb (is_none (ocfg_activation_tensor_config c)).

  Lemma scan_rules_from rs target : forall acc,
    scan_rules check rs target acc = acc \/
    exists r, In r rs /\ scan_rules check rs target acc = (r_alg r, r_cfg r).
  Proof.
    induction rs as [|r rest IH]; intros acc; cbn [scan_rules]; [left; reflexivity|].
    destruct (negb (opname_eqb (r_op r) Op_ALL_SUPPORTED) && negb (opname_eqb (r_op r) target)).
    - destruct (IH acc) as [E|(r' & Hin & E)]; [left; exact E|right; exists r'; split; [right; exact Hin|exact E]].
    - destruct (negb (is_noquant (r_alg r)) && negb (check (r_alg r) target (r_cfg r))).
      + destruct (IH acc) as [E|(r' & Hin & E)]; [left; exact E|right; exists r'; split; [right; exact Hin|exact E]].
      + destruct (IH (r_alg r, r_cfg r)) as [E|(r' & Hin & E)].
        * right. exists r. split; [left; reflexivity|exact E].
        * right. exists r'. split; [right; exact Hin|exact E].
  Qed.

  Lemma scan_scopes_from (s : state) target scope : forall acc,
    scan_scopes check matches s target scope acc = acc \/
    exists regex rs r, In (regex, rs) s /\ In r rs /\
      scan_scopes check matches s target scope acc = (r_alg r, r_cfg r).
  Proof.
    induction s as [|[regex rs] rest IH]; intros acc; cbn [scan_scopes]; [left; reflexivity|].
    destruct (matches regex scope).
    - destruct (IH (scan_rules check rs target acc)) as [E|(rg & rs' & r & Hin & Hr & E)].
      + destruct (scan_rules_from rs target acc) as [E2|(r & Hr & E2)].
        * left. rewrite E, E2. reflexivity.
        * right. exists regex, rs, r. split; [left; reflexivity|]. split; [exact Hr|]. rewrite E, E2. reflexivity.
      + right. exists rg, rs', r. split; [right; exact Hin|]. split; [exact Hr|exact E].
    - destruct (IH acc) as [E|(rg & rs' & r & Hin & Hr & E)]; [left; exact E|].
      right. exists rg, rs', r. split; [right; exact Hin|]. split; [exact Hr|exact E].
  Qed.

  Theorem static_resolution_needs_calibration (s : state) target scope a c :
    get check matches s target scope = (a, c) -> static_cfg c = true ->
    need_calibration s = true.
  Proof.
    intros Hget Hst. unfold get in Hget.
    destruct (scan_scopes_from s target scope (AK Alg_NO_QUANTIZE, default_ocfg)) as [E|(rg & rs & r & Hin & Hr & E)].
    - rewrite E in Hget. inversion Hget; subst. vm_compute in Hst. discriminate.
    - rewrite E in Hget. inversion Hget; subst.
      unfold need_calibration. apply existsb_exists.
      exists {| j_regex := r_regex r; j_op := r_op r; j_alg := r_alg r; j_dict := Some (to_dict (r_cfg r)) |}.
      split.
      + unfold get_recipe. apply in_flat_map. exists (rg, rs). split; [exact Hin|].
        cbn [snd]. apply in_map_iff. exists r. split; [reflexivity|exact Hr].
      + cbn [j_dict]. unfold to_dict. exact Hst.
  Qed.
End NeedCal.
