(* Proofs/PerformInv.v — the GLOBAL invariant of the transformation performer
   (C01 composition): running any list of instructions whose producer
   references are exact keeps every subgraph well-formed.  The invariant says
   that the two op-id maps always resolve a producer reference to the actual
   position of the op that writes the instruction's tensor. *)
From Coq Require Import Sorted.
From VF Require Import Base.Prelude Gen.Enums Model.Graph Gen.InstChecks Model.Perform Spec.WF
     Proofs.ListFacts Proofs.PerformStep Proofs.ModeProofs Proofs.LocalProofs.

Definition shiftZ (n x : Z) : Z := if n <=? x then x + 1 else x.

(* ---------------- list facts about the two maps ---------------- *)
Lemma py_index_In {A} (l : list A) i a : py_index l i = Ok a -> In a l.
Proof.
  unfold py_index. destruct ((_ <? 0) || _); [discriminate|].
  destruct (nth_opt l _) eqn:E; [|discriminate]. intros H; inversion H; subst. eapply nth_opt_In; exact E.
Qed.

Lemma shift_suffix_sorted pos l :
  StronglySorted Z.lt l -> shift_suffix pos 1 l = shift_from pos 1 l.
Proof.
  induction l as [|x l IH]; intros H; [reflexivity|]. inversion H as [|? ? Hs Hall]; subst.
  cbn [shift_suffix shift_from map]. destruct (Z.leb_spec pos x).
  - f_equal. apply map_ext_in. intros y Hy. rewrite Forall_forall in Hall. specialize (Hall y Hy).
    destruct (Z.leb_spec pos y); [reflexivity|lia].
  - f_equal. apply IH. exact Hs.
Qed.

Lemma shift_from_sorted pos l : StronglySorted Z.lt l -> StronglySorted Z.lt (shift_from pos 1 l).
Proof.
  induction l as [|x l IH]; intros H; cbn; [constructor|]. inversion H as [|? ? Hs Hall]; subst.
  constructor; [apply IH; exact Hs|]. rewrite Forall_forall in *. intros y Hy.
  apply in_map_iff in Hy. destruct Hy as (z & <- & Hz). specialize (Hall z Hz).
  destruct (Z.leb_spec pos x); destruct (Z.leb_spec pos z); lia.
Qed.

Lemma nth_opt_map {A B} (f : A -> B) (l : list A) k : nth_opt (map f l) k = option_map f (nth_opt l k).
Proof. revert k; induction l as [|x l IH]; intros [|k]; cbn; auto. Qed.

Lemma py_index_map {A B} (f : A -> B) (l : list A) i :
  py_index (map f l) i = match py_index l i with Ok a => Ok (f a) | Err e => Err e end.
Proof.
  unfold py_index. rewrite map_length, nth_opt_map.
  destruct ((_ <? 0) || _); [reflexivity|]. destruct (nth_opt l _); reflexivity.
Qed.

Lemma py_index_nonneg_eq {A} (l : list A) i :
  0 <= i ->
  py_index l i = if lenZ l <=? i then Err IndexError
                 else match nth_opt l (Z.to_nat i) with Some a => Ok a | None => Err IndexError end.
Proof.
  intros H. unfold py_index, lenZ.
  assert (E : i <? 0 = false) by (apply Z.ltb_ge; lia). rewrite E. cbn zeta iota. rewrite E. reflexivity.
Qed.

Lemma py_index_app_l {A} (l r : list A) i :
  0 <= i < lenZ l -> py_index (l ++ r) i = py_index l i.
Proof.
  intros [H0 H1]. rewrite !py_index_nonneg_eq by exact H0. unfold lenZ in *. rewrite app_length.
  destruct (Z.leb_spec (Z.of_nat (length l + length r)) i); [lia|].
  destruct (Z.leb_spec (Z.of_nat (length l)) i); [lia|].
  rewrite nth_opt_app_l by lia. reflexivity.
Qed.

Lemma py_index_app_last {A} (l : list A) a : py_index (l ++ [a]) (lenZ l) = Ok a.
Proof.
  rewrite py_index_nonneg_eq by (unfold lenZ; lia). unfold lenZ. rewrite app_length. cbn [length].
  destruct (Z.leb_spec (Z.of_nat (length l + 1)) (Z.of_nat (length l))); [lia|].
  rewrite Nat2Z.id, nth_opt_app_r by lia. rewrite Nat.sub_diag. reflexivity.
Qed.

Lemma py_index_beyond {A} (l : list A) i : lenZ l <= i -> exists e, py_index l i = Err e.
Proof.
  intros H. rewrite py_index_nonneg_eq by (unfold lenZ in H; lia).
  destruct (Z.leb_spec (lenZ l) i); [eexists; reflexivity|lia].
Qed.

(* ---------------- producer references ---------------- *)
Definition resolve (om am : list Z) (pid : Z) : res Z :=
  if pid <? 0 then Ok (-1)
  else if pid <? lenZ om then py_index om pid
  else py_index am (pid - lenZ om).

Definition prod_exact (g : subgraph) (t pos : Z) : Prop :=
  (pos = -1 /\ forall k o, op_at g k o -> ~ writes o t) \/
  (0 <= pos /\ exists o, op_at g (Z.to_nat pos) o /\ writes o t).

Record maps_ok (g : subgraph) (om am : list Z) : Prop := {
  mo_wf : wf_sg g;
  mo_sorted : StronglySorted Z.lt om;
  mo_rng_o : Forall (fun p => 0 <= p < lenZ (sg_ops g)) om;
  mo_rng_a : Forall (fun p => 0 <= p < lenZ (sg_ops g)) am }.

Definition inst_ok (g : subgraph) (om am : list Z) (i : inst) : Prop :=
  0 <= i_tensor i < ntens g /\
  i_producer i < lenZ om + lenZ am /\          (* no reference to an op that does not exist yet *)
  forall pos, resolve om am (i_producer i) = Ok pos -> prod_exact g (i_tensor i) pos.

Lemma resolve_range g om am pid pos :
  maps_ok g om am -> resolve om am pid = Ok pos -> -1 <= pos < lenZ (sg_ops g).
Proof.
  intros [_ _ Ho Ha] H. unfold resolve in H. destruct (pid <? 0).
  - inversion H. unfold lenZ. lia.
  - destruct (pid <? lenZ om); apply py_index_In in H;
      [rewrite Forall_forall in Ho; specialize (Ho _ H)|rewrite Forall_forall in Ha; specialize (Ha _ H)]; lia.
Qed.

(* the step hypotheses of PerformStep follow from exactness + well-formedness *)
Lemma prod_exact_step_hyps g t pos :
  wf_sg g -> prod_exact g t pos ->
  (forall k o, op_at g k o -> writes o t -> Z.of_nat k <= pos) /\
  (forall k o, op_at g k o -> reads o t -> pos < Z.of_nat k).
Proof.
  intros [_ _ W3 W4 _ _] [[-> Hno]|[Hp (o & Ho & Hw)]].
  - split; [intros k o0 H1 H2; exfalso; eapply Hno; eassumption|intros; lia].
  - split.
    + intros k o0 H1 H2. pose proof (W3 _ _ _ _ _ H1 Ho H2 Hw). lia.
    + intros k o0 H1 H2. pose proof (W4 _ _ _ _ _ H1 Ho H2 Hw). lia.
Qed.

(* resolution after an insertion at position n *)
Lemma shift_from_is_map n l : shift_from n 1 l = map (shiftZ n) l.
Proof. reflexivity. Qed.

Lemma resolve_shift om am n pid pos' :
  0 <= n -> StronglySorted Z.lt om ->
  resolve (shift_suffix n 1 om) (shift_from n 1 am ++ [n]) pid = Ok pos' ->
  (pid = lenZ om + lenZ am /\ pos' = n) \/
  (exists pos, resolve om am pid = Ok pos /\ pos' = shiftZ n pos).
Proof.
  intros Hn Hs H. rewrite (shift_suffix_sorted _ _ Hs) in H. unfold resolve in *.
  rewrite !shift_from_is_map in H.
  assert (L : lenZ (map (shiftZ n) om) = lenZ om) by (unfold lenZ; rewrite map_length; reflexivity).
  assert (La : lenZ (map (shiftZ n) am) = lenZ am) by (unfold lenZ; rewrite map_length; reflexivity).
  rewrite L in H. destruct (Z.ltb_spec pid 0).
  - inversion H; subst. right. exists (-1). split; [reflexivity|]. unfold shiftZ.
    destruct (Z.leb_spec n (-1)); [lia|reflexivity].
  - destruct (Z.ltb_spec pid (lenZ om)).
    + rewrite py_index_map in H. destruct (py_index om pid) as [pos|]; [|discriminate].
      inversion H. right. exists pos. auto.
    + set (j := pid - lenZ om) in *.
      destruct (Z.lt_trichotomy j (lenZ am)) as [Hj|[Hj|Hj]].
      * rewrite py_index_app_l in H by (rewrite La; unfold j; lia).
        rewrite py_index_map in H. destruct (py_index am j) as [pos|]; [|discriminate].
        inversion H. right. exists pos. auto.
      * rewrite Hj, <- La, py_index_app_last in H. inversion H. left. unfold j in Hj. split; lia.
      * destruct (py_index_beyond (map (shiftZ n) am ++ [n]) j) as [e E].
        { unfold lenZ. rewrite app_length, map_length. cbn. unfold lenZ in Hj. lia. }
        rewrite E in H. discriminate.
Qed.

(* ---------------- one insertion, one subgraph ---------------- *)
Lemma shiftZ_shift_pos n k : 0 <= n -> shiftZ n (Z.of_nat k) = Z.of_nat (shift_pos (Z.to_nat n) k).
Proof.
  intros Hn. unfold shiftZ, shift_pos.
  destruct (Z.leb_spec n (Z.of_nat k)); destruct (Nat.ltb_spec k (Z.to_nat n)); lia.
Qed.

Lemma rewired_outs old new cs k o o' : rewired old new cs k o o' -> o_outs o' = o_outs o.
Proof. intros [->|[-> _]]; reflexivity. Qed.

Lemma insert_step is_quant codes bufs g tid producer cs ps codes' bufs' g' info om am :
  maps_ok g om am -> 0 <= tid < ntens g ->
  prod_exact g tid producer -> -1 <= producer < lenZ (sg_ops g) ->
  Forall (fun c => c = -1 \/ 0 <= c) cs ->
  insert_common is_quant codes bufs g tid producer cs ps = Ok (codes', bufs', g', info) ->
  0 <= to_op_id info /\
  maps_ok g' (shift_suffix (to_op_id info) 1 om) (shift_from (to_op_id info) 1 am ++ [to_op_id info]) /\
  (forall t pos, 0 <= t < ntens g -> prod_exact g t pos -> prod_exact g' t (shiftZ (to_op_id info) pos)) /\
  prod_exact g' (ntens g) (to_op_id info) /\
  ntens g' = ntens g + 1 /\ to_tensor info = ntens g /\ to_added info = 1.
Proof.
  intros [Hwf Hs Ho Ha] Ht Hpe Hpr Hcs Hrun.
  destruct (prod_exact_step_hyps g tid producer Hwf Hpe) as [Hpw Hprd].
  assert (Ht0 : 0 <= tid) by lia.
  pose proof (insert_common_wf is_quant codes bufs g tid producer cs ps codes' bufs' g' info
                Hwf Ht0 Hpr Hpw Hprd Hcs Hrun) as Hwf'.
  destruct (insert_common_facts is_quant codes bufs g tid producer cs ps codes' bufs' g' info
              Ht0 Hpr Hcs Hrun)
    as (ops2 & first & Hn & Htn & Hadd & Hop & Hlt & Hmin & Hrng & Hlen & Hrew & Hops & _ & _).
  set (n := to_op_id info) in *.
  set (newop := {| o_code := _; o_ins := [tid]; o_outs := [ntens g]; o_uid := UID_INSERTED |}) in *.
  assert (Hn0 : 0 <= n) by lia.
  assert (Hnle : (Z.to_nat n <= length ops2)%nat) by (unfold lenZ in Hrng; lia).
  assert (Hlen' : lenZ (sg_ops g') = lenZ (sg_ops g) + 1).
  { rewrite Hops. unfold lenZ. rewrite length_insert_at. lia. }
  (* ops of g' in terms of ops of g *)
  assert (Hold : forall k o, op_at g k o ->
            exists o', op_at g' (shift_pos (Z.to_nat n) k) o' /\ o_outs o' = o_outs o).
  { intros k o Hk. pose proof (nth_opt_Some_lt _ _ _ Hk) as Hkl.
    destruct (nth_opt_lt_Some ops2 k ltac:(lia)) as [o' Ho'].
    destruct (Hrew _ _ Ho') as (o0 & Ho0 & Hr). unfold op_at in Ho0. rewrite Hk in Ho0. inversion Ho0; subst o0.
    exists o'. split; [|eapply rewired_outs; exact Hr].
    unfold op_at. rewrite Hops, nth_opt_insert_at_old by exact Hnle. exact Ho'. }
  assert (Hnew : op_at g' (Z.to_nat n) newop).
  { unfold op_at. rewrite Hops, nth_opt_insert_at by exact Hnle.
    rewrite Nat.ltb_irrefl, Nat.eqb_refl. reflexivity. }
  assert (Hinv : forall k' o', op_at g' k' o' ->
            (k' = Z.to_nat n /\ o' = newop) \/
            exists k o, k' = shift_pos (Z.to_nat n) k /\ op_at g k o /\ o_outs o' = o_outs o).
  { intros k' o' Hk'. unfold op_at in Hk'. rewrite Hops in Hk'.
    destruct (insert_at_cases _ _ _ _ _ Hnle Hk') as [[-> ->]|(k0 & -> & Hk0)]; [left; auto|].
    right. destruct (Hrew _ _ Hk0) as (o & Hko & Hr). exists k0, o. split; [reflexivity|].
    split; [exact Hko|eapply rewired_outs; exact Hr]. }
  split; [exact Hn0|]. split.
  - constructor.
    + exact Hwf'.
    + rewrite (shift_suffix_sorted _ _ Hs). apply shift_from_sorted. exact Hs.
    + rewrite (shift_suffix_sorted _ _ Hs). rewrite Forall_forall in *. intros p Hp.
      apply in_map_iff in Hp. destruct Hp as (x & <- & Hx). specialize (Ho x Hx). rewrite Hlen'.
      destruct (Z.leb_spec n x); lia.
    + apply Forall_app. split.
      * rewrite Forall_forall in *. intros p Hp. apply in_map_iff in Hp. destruct Hp as (x & <- & Hx).
        specialize (Ha x Hx). rewrite Hlen'. destruct (Z.leb_spec n x); lia.
      * constructor; [rewrite Hlen'; lia|constructor].
  - split.
    + intros t pos Htr [[-> Hno]|[Hp (o & Hko & Hw)]].
      * left. split; [unfold shiftZ; destruct (Z.leb_spec n (-1)); [lia|reflexivity]|].
        intros k' o' Hk' Hw'. destruct (Hinv _ _ Hk') as [[_ ->]|(k & o & _ & Hko & Hout)].
        -- cbn in Hw'. destruct Hw' as [E|[]]. lia.
        -- unfold writes in Hw'. rewrite Hout in Hw'. eapply Hno; eassumption.
      * right. destruct (Hold _ _ Hko) as (o' & Hko' & Hout).
        assert (E : shiftZ n pos = Z.of_nat (shift_pos (Z.to_nat n) (Z.to_nat pos))).
        { rewrite <- (Z2Nat.id pos) at 1 by exact Hp. apply shiftZ_shift_pos. exact Hn0. }
        rewrite E. split; [lia|]. exists o'. rewrite Nat2Z.id. split; [exact Hko'|].
        unfold writes. rewrite Hout. exact Hw.
    + split.
      * right. split; [exact Hn0|]. exists newop. split; [exact Hnew|]. cbn. left. reflexivity.
      * repeat split; assumption.
Qed.

(* ---------------- what one performer step does (view of apply_single) ---------------- *)
Lemma mapM_consumers om cs l :
  mapM (fun c : Z => if c =? -1 then Ok (-1) else py_index om c) l = Ok cs ->
  Forall (fun c => c = -1 \/ In c om) cs.
Proof.
  revert cs. induction l as [|c l IH]; cbn; intros cs H; [inversion H; constructor|].
  destruct (Z.eqb_spec c (-1)).
  - cbn [bind] in H. destruct (mapM _ l) as [r|] eqn:E; cbn [bind] in H; [|discriminate].
    inversion H; subst. constructor; [left; reflexivity|apply IH; reflexivity].
  - destruct (py_index om c) as [x|] eqn:Ex; cbn [bind] in H; [|discriminate].
    destruct (mapM _ l) as [r|] eqn:E; cbn [bind] in H; [|discriminate].
    inversion H; subst. constructor; [right; eapply py_index_In; exact Ex|apply IH; reflexivity].
Qed.

Inductive step_view (st : pstate) (sgid : Z) (i : inst) (later : list inst)
          (st' : pstate) (later' : list inst) : Prop :=
| SV_quantize om am g bufs g' :
    nth_opt (ps_orig st) (Z.to_nat sgid) = Some om ->
    nth_opt (ps_added st) (Z.to_nat sgid) = Some am ->
    nth_opt (m_subgraphs (ps_model st)) (Z.to_nat sgid) = Some g ->
    quantize_tensor (m_buffers (ps_model st)) g (i_tensor i) (i_params i) = Ok (bufs, g') ->
    later' = later -> ps_orig st' = ps_orig st -> ps_added st' = ps_added st ->
    m_subgraphs (ps_model st') = set_nth (m_subgraphs (ps_model st)) (Z.to_nat sgid) g' ->
    step_view st sgid i later st' later'
| SV_insert q om am g producer cs codes bufs g' info :
    nth_opt (ps_orig st) (Z.to_nat sgid) = Some om ->
    nth_opt (ps_added st) (Z.to_nat sgid) = Some am ->
    nth_opt (m_subgraphs (ps_model st)) (Z.to_nat sgid) = Some g ->
    resolve om am (i_producer i) = Ok producer ->
    Forall (fun c => c = -1 \/ In c om) cs ->
    insert_common q (m_opcodes (ps_model st)) (m_buffers (ps_model st)) g (i_tensor i)
                  producer cs (i_params i) = Ok (codes, bufs, g', info) ->
    (to_added info = 1 ->
     later' = update_instructions later i (lenZ om + lenZ am) (to_tensor info) /\
     ps_orig st' = set_nth (ps_orig st) (Z.to_nat sgid) (shift_suffix (to_op_id info) 1 om) /\
     ps_added st' = set_nth (ps_added st) (Z.to_nat sgid)
                      (shift_from (to_op_id info) 1 am ++ [to_op_id info])) ->
    m_subgraphs (ps_model st') = set_nth (m_subgraphs (ps_model st)) (Z.to_nat sgid) g' ->
    step_view st sgid i later st' later'.

Lemma apply_single_view st sgid i later st' later' :
  0 <= sgid -> apply_single st sgid i later = Ok (st', later') ->
  step_view st sgid i later st' later'.
Proof.
  intros Hs H. unfold apply_single in H.
  destruct (py_index (ps_orig st) sgid) as [om|] eqn:E1; cbn [bind] in H; [|discriminate].
  destruct (py_index (ps_added st) sgid) as [am|] eqn:E2; cbn [bind] in H; [|discriminate].
  destruct (py_index (m_subgraphs (ps_model st)) sgid) as [g|] eqn:E3; cbn [bind] in H; [|discriminate].
  apply (py_index_nonneg _ _ _ Hs) in E1. apply (py_index_nonneg _ _ _ Hs) in E2.
  apply (py_index_nonneg _ _ _ Hs) in E3. destruct E1 as [E1 _], E2 as [E2 _], E3 as [E3 _].
  fold (resolve om am (i_producer i)) in H.
  destruct (resolve om am (i_producer i)) as [producer|] eqn:Er; cbn [bind] in H; [|discriminate].
  match type of H with bind ?m _ = _ => destruct m as [cs|] eqn:Ec end; cbn [bind] in H; [|discriminate].
  apply mapM_consumers in Ec.
  destruct (i_trans i) eqn:Et; cbn [bind] in H; try discriminate.
  - (* ADD_QUANTIZE *)
    destruct (insert_common true (m_opcodes (ps_model st)) (m_buffers (ps_model st)) g (i_tensor i)
                producer cs (i_params i)) as [[[[codes bufs] g'] info]|] eqn:Ei; cbn [bind] in H; [|discriminate].
    destruct (to_added info =? 0) eqn:Ea.
    + inversion H; subst. eapply (SV_insert _ _ _ _ _ _ true); try eassumption; [|reflexivity].
      intros C. apply Z.eqb_eq in Ea. lia.
    + inversion H; subst. eapply (SV_insert _ _ _ _ _ _ true); try eassumption; [|reflexivity].
      intros C. cbn [ps_orig ps_added]. rewrite C.
      replace (to_op_id info + 1 - 1) with (to_op_id info) by lia.
      replace (lenZ om + lenZ (am ++ [to_op_id info]) - 1) with (lenZ om + lenZ am)
        by (unfold lenZ; rewrite app_length; cbn; lia).
      repeat split.
  - (* ADD_DEQUANTIZE *)
    destruct (insert_common false (m_opcodes (ps_model st)) (m_buffers (ps_model st)) g (i_tensor i)
                producer cs (i_params i)) as [[[[codes bufs] g'] info]|] eqn:Ei; cbn [bind] in H; [|discriminate].
    destruct (to_added info =? 0) eqn:Ea.
    + inversion H; subst. eapply (SV_insert _ _ _ _ _ _ false); try eassumption; [|reflexivity].
      intros C. apply Z.eqb_eq in Ea. lia.
    + inversion H; subst. eapply (SV_insert _ _ _ _ _ _ false); try eassumption; [|reflexivity].
      intros C. cbn [ps_orig ps_added]. rewrite C.
      replace (to_op_id info + 1 - 1) with (to_op_id info) by lia.
      replace (lenZ om + lenZ (am ++ [to_op_id info]) - 1) with (lenZ om + lenZ am)
        by (unfold lenZ; rewrite app_length; cbn; lia).
      repeat split.
  - (* QUANTIZE_TENSOR *)
    destruct (quantize_tensor (m_buffers (ps_model st)) g (i_tensor i) (i_params i)) as [[bufs g']|] eqn:Eq;
      cbn [bind] in H; [|discriminate].
    cbn [to_added Z.eqb fst snd] in H. inversion H; subst.
    eapply SV_quantize; try eassumption; reflexivity.
Qed.

(* ---------------- the global invariant ---------------- *)
Definition pend := list (Z * inst).

Record ginv (st : pstate) (pd : pend) : Prop := {
  gi_len_o : length (ps_orig st) = length (m_subgraphs (ps_model st));
  gi_len_a : length (ps_added st) = length (m_subgraphs (ps_model st));
  gi_maps : forall k g om am,
      nth_opt (m_subgraphs (ps_model st)) k = Some g ->
      nth_opt (ps_orig st) k = Some om -> nth_opt (ps_added st) k = Some am -> maps_ok g om am;
  gi_pend : forall sg i, In (sg, i) pd ->
      0 <= sg /\
      forall g om am,
        nth_opt (m_subgraphs (ps_model st)) (Z.to_nat sg) = Some g ->
        nth_opt (ps_orig st) (Z.to_nat sg) = Some om ->
        nth_opt (ps_added st) (Z.to_nat sg) = Some am -> inst_ok g om am i }.

Lemma prod_exact_same_ops g g' t pos :
  sg_ops g' = sg_ops g -> prod_exact g t pos -> prod_exact g' t pos.
Proof. intros E H. unfold prod_exact, op_at in *. rewrite E. exact H. Qed.

Lemma nth_opt_set_nth_eq {A} (l : list A) n a x :
  nth_opt l n = Some x -> nth_opt (set_nth l n a) n = Some a.
Proof. intros H. apply nth_opt_set_nth_same. eapply nth_opt_Some_lt; exact H. Qed.

Lemma in_update_instructions later prev np ot i2' :
  In i2' (update_instructions later prev np ot) ->
  exists i2, In i2 later /\
    (i2' = i2 \/ (i_tensor i2' = ot /\ i_producer i2' = np)).
Proof.
  unfold update_instructions. intros H. apply in_map_iff in H. destruct H as (i2 & E & Hin).
  exists i2. split; [exact Hin|]. destruct (existsb _ _); subst; [right; split; reflexivity|left; reflexivity].
Qed.

Theorem apply_single_ginv st sgid i later rest st' later' :
  ginv st ((sgid, i) :: map (pair sgid) later ++ rest) ->
  apply_single st sgid i later = Ok (st', later') ->
  ginv st' (map (pair sgid) later' ++ rest).
Proof.
  intros [Lo La Hm Hp] H.
  destruct (Hp sgid i (or_introl eq_refl)) as [Hs Hi].
  destruct (apply_single_view _ _ _ _ _ _ Hs H) as
    [om am g bufs g' Eo Ea Eg Hq -> Eo' Ea' Em'
    |q om am g producer cs codes bufs g' info Eo Ea Eg Hr Hcs Hins Hupd Em'].
  - (* in-place quantization: nothing structural changes *)
    destruct (quantize_tensor_shape _ _ _ _ _ _ Hq) as (Hops & Hin & Hout & Hnt & _).
    constructor.
    + rewrite Eo', Em', length_set_nth. exact Lo.
    + rewrite Ea', Em', length_set_nth. exact La.
    + intros k g0 om0 am0 Hg0 Ho0 Ha0. rewrite Eo' in Ho0. rewrite Ea' in Ha0. rewrite Em' in Hg0.
      destruct (Nat.eq_dec k (Z.to_nat sgid)) as [->|Hk].
      * rewrite (nth_opt_set_nth_eq _ _ _ _ Eg) in Hg0. inversion Hg0; subst g0.
        rewrite Eo in Ho0. rewrite Ea in Ha0. inversion Ho0; inversion Ha0; subst.
        destruct (Hm _ _ _ _ Eg Eo Ea) as [W S R1 R2].
        constructor; [eapply quantize_tensor_wf; eassumption|exact S|rewrite Hops; exact R1|rewrite Hops; exact R2].
      * rewrite nth_opt_set_nth_other in Hg0 by exact Hk. eapply Hm; eassumption.
    + intros sg i2 Hin2.
      assert (Hin2' : In (sg, i2) ((sgid, i) :: map (pair sgid) later ++ rest)) by (right; exact Hin2).
      destruct (Hp _ _ Hin2') as [Hs2 Hi2]. split; [exact Hs2|].
      intros g0 om0 am0 Hg0 Ho0 Ha0. rewrite Eo' in Ho0. rewrite Ea' in Ha0. rewrite Em' in Hg0.
      destruct (Nat.eq_dec (Z.to_nat sg) (Z.to_nat sgid)) as [Ek|Hk].
      * rewrite Ek in *. rewrite (nth_opt_set_nth_eq _ _ _ _ Eg) in Hg0. inversion Hg0; subst g0.
        rewrite Eo in Ho0. rewrite Ea in Ha0. inversion Ho0; inversion Ha0; subst.
        destruct (Hi2 _ _ _ Eg Eo Ea) as (T & P & X). split; [rewrite Hnt; exact T|]. split; [exact P|].
        intros pos Hpos. eapply prod_exact_same_ops; [exact Hops|apply X; exact Hpos].
      * rewrite nth_opt_set_nth_other in Hg0 by exact Hk. eapply Hi2; eassumption.
  - (* insertion *)
    pose proof (Hm _ _ _ _ Eg Eo Ea) as Hmo.
    destruct (Hi _ _ _ Eg Eo Ea) as (Ht & Hpl & Hpe).
    pose proof (resolve_range _ _ _ _ _ Hmo Hr) as Hrng.
    assert (Hcs' : Forall (fun c => c = -1 \/ 0 <= c) cs).
    { eapply Forall_impl; [|exact Hcs]. cbn. intros c [->|Hc]; [left; reflexivity|right].
      destruct Hmo as [_ _ Ro _]. rewrite Forall_forall in Ro. specialize (Ro _ Hc). lia. }
    destruct (insert_step q _ _ g (i_tensor i) producer cs (i_params i) _ _ g' info om am
                Hmo Ht (Hpe _ Hr) Hrng Hcs' Hins)
      as (Hn0 & Hmo' & Hshift & Hnewp & Hnt & Htn & Hadd).
    destruct (Hupd Hadd) as (-> & Eo' & Ea').
    set (n := to_op_id info) in *.
    set (om' := shift_suffix n 1 om) in *. set (am' := shift_from n 1 am ++ [n]) in *.
    assert (Lom : lenZ om' = lenZ om).
    { unfold om'. rewrite (shift_suffix_sorted _ _ (mo_sorted _ _ _ Hmo)). unfold lenZ, shift_from.
      rewrite map_length. reflexivity. }
    assert (Lam : lenZ am' = lenZ am + 1).
    { unfold am', lenZ, shift_from. rewrite app_length, map_length. cbn. lia. }
    (* instructions of this subgraph under the new graph and maps *)
    assert (Hkeep : forall i2, inst_ok g om am i2 -> inst_ok g' om' am' i2).
    { intros i2 (T & P & X). split; [lia|]. split; [lia|]. intros pos' Hpos'.
      destruct (resolve_shift om am n (i_producer i2) pos' Hn0 (mo_sorted _ _ _ Hmo) Hpos')
        as [[E _]|(pos & Hpos & ->)]; [lia|].
      apply Hshift; [exact T|apply X; exact Hpos]. }
    assert (Hretarget : forall i2, i_tensor i2 = to_tensor info -> i_producer i2 = lenZ om + lenZ am ->
              inst_ok g' om' am' i2).
    { intros i2 E1 E2. split; [rewrite E1, Htn; lia|]. split; [rewrite E2; lia|].
      intros pos' Hpos'. rewrite E2 in Hpos'.
      destruct (resolve_shift om am n _ pos' Hn0 (mo_sorted _ _ _ Hmo) Hpos') as [[_ ->]|(pos & Hpos & _)].
      - rewrite E1, Htn. exact Hnewp.
      - exfalso. unfold resolve in Hpos.
        destruct (Z.ltb_spec (lenZ om + lenZ am) 0); [unfold lenZ in *; lia|].
        destruct (Z.ltb_spec (lenZ om + lenZ am) (lenZ om)); [unfold lenZ in *; lia|].
        destruct (py_index_beyond am (lenZ om + lenZ am - lenZ om)) as [e Ee]; [lia|]. congruence. }
    constructor.
    + rewrite Eo', Em', !length_set_nth. exact Lo.
    + rewrite Ea', Em', !length_set_nth. exact La.
    + intros k g0 om0 am0 Hg0 Ho0 Ha0. rewrite Eo' in Ho0. rewrite Ea' in Ha0. rewrite Em' in Hg0.
      destruct (Nat.eq_dec k (Z.to_nat sgid)) as [->|Hk].
      * rewrite (nth_opt_set_nth_eq _ _ _ _ Eg) in Hg0. rewrite (nth_opt_set_nth_eq _ _ _ _ Eo) in Ho0.
        rewrite (nth_opt_set_nth_eq _ _ _ _ Ea) in Ha0. inversion Hg0; inversion Ho0; inversion Ha0; subst.
        exact Hmo'.
      * rewrite nth_opt_set_nth_other in Hg0 by exact Hk. rewrite nth_opt_set_nth_other in Ho0 by exact Hk.
           rewrite nth_opt_set_nth_other in Ha0 by exact Hk. eapply Hm; eassumption.
    + intros sg i2 Hin2. apply in_app_iff in Hin2.
      assert (Hcase : (sg = sgid /\ exists i0, In (sgid, i0) ((sgid, i) :: map (pair sgid) later ++ rest) /\
                         (i2 = i0 \/ (i_tensor i2 = to_tensor info /\ i_producer i2 = lenZ om + lenZ am)))
                      \/ In (sg, i2) ((sgid, i) :: map (pair sgid) later ++ rest)).
      { destruct Hin2 as [Hin2|Hin2].
        - left. apply in_map_iff in Hin2. destruct Hin2 as (i2' & E & Hin2). inversion E; subst.
          destruct (in_update_instructions _ _ _ _ _ Hin2) as (i0 & Hi0 & Hc).
          split; [reflexivity|]. exists i0. split; [|exact Hc].
          right. apply in_app_iff. left. apply in_map. exact Hi0.
        - right. right. apply in_app_iff. right. exact Hin2. }
      destruct Hcase as [(-> & i0 & Hin0 & Hc)|Hin0].
      * split; [exact Hs|]. intros g0 om0 am0 Hg0 Ho0 Ha0.
        rewrite Eo' in Ho0. rewrite Ea' in Ha0. rewrite Em' in Hg0.
        rewrite (nth_opt_set_nth_eq _ _ _ _ Eg) in Hg0. rewrite (nth_opt_set_nth_eq _ _ _ _ Eo) in Ho0.
        rewrite (nth_opt_set_nth_eq _ _ _ _ Ea) in Ha0. inversion Hg0; inversion Ho0; inversion Ha0; subst.
        destruct Hc as [->|[E1 E2]].
        -- apply Hkeep. destruct (Hp _ _ Hin0) as [_ X]. eapply X; eassumption.
        -- apply Hretarget; assumption.
      * destruct (Hp _ _ Hin0) as [Hs2 Hi2]. split; [exact Hs2|].
        intros g0 om0 am0 Hg0 Ho0 Ha0. rewrite Eo' in Ho0. rewrite Ea' in Ha0. rewrite Em' in Hg0.
        destruct (Nat.eq_dec (Z.to_nat sg) (Z.to_nat sgid)) as [Ek|Hk].
        -- rewrite Ek in *. rewrite (nth_opt_set_nth_eq _ _ _ _ Eg) in Hg0.
           rewrite (nth_opt_set_nth_eq _ _ _ _ Eo) in Ho0. rewrite (nth_opt_set_nth_eq _ _ _ _ Ea) in Ha0.
           inversion Hg0; inversion Ho0; inversion Ha0; subst. apply Hkeep. eapply Hi2; eassumption.
        -- rewrite nth_opt_set_nth_other in Hg0 by exact Hk. rewrite nth_opt_set_nth_other in Ho0 by exact Hk.
           rewrite nth_opt_set_nth_other in Ha0 by exact Hk. eapply Hi2; eassumption.
Qed.

(* ---------------- lifting to instruction lists and to transform_graph ---------------- *)
Lemma ginv_weaken st pd pd' : (forall x, In x pd' -> In x pd) -> ginv st pd -> ginv st pd'.
Proof. intros Hincl [A B C D]. constructor; [exact A|exact B|exact C|]. intros sg i Hin. apply D. apply Hincl. exact Hin. Qed.

Lemma apply_insts_ginv sgid : forall fuel is st rest st',
  ginv st (map (pair sgid) is ++ rest) ->
  apply_insts st sgid is fuel = Ok st' -> ginv st' rest.
Proof.
  induction fuel as [|f IH]; intros is st rest st' HI H.
  - destruct is as [|i later]; cbn in H; [|discriminate]. inversion H; subst.
    eapply ginv_weaken; [|exact HI]. intros x Hx. exact Hx.
  - destruct is as [|i later]; cbn [apply_insts] in H.
    + inversion H; subst. eapply ginv_weaken; [|exact HI]. intros x Hx. exact Hx.
    + destruct (is_insertion (i_trans i)).
      * destruct (apply_single st sgid i later) as [[st1 later1]|] eqn:E; cbn [bind fst snd] in H; [|discriminate].
        eapply IH; [|exact H]. eapply apply_single_ginv; [|exact E]. exact HI.
      * destruct (qtrans_eqb (i_trans i) Tr_EMULATED_SUBCHANNEL); [discriminate|].
        eapply IH; [|exact H]. eapply ginv_weaken; [|exact HI]. intros x Hx. cbn. right. exact Hx.
Qed.

Definition pend_of (tis : list tinsts) : pend :=
  flat_map (fun ti => map (pair (ti_sg ti)) (ti_insts ti)) tis.

Lemma foldM_ginv : forall tis st st',
  ginv st (pend_of tis) ->
  foldM (fun st ti => apply_insts st (ti_sg ti) (ti_insts ti) (length (ti_insts ti))) tis st = Ok st' ->
  ginv st' [].
Proof.
  induction tis as [|ti tis IH]; intros st st' HI H; cbn in H.
  - inversion H; subst. exact HI.
  - destruct (apply_insts st (ti_sg ti) (ti_insts ti) (length (ti_insts ti))) as [st1|] eqn:E;
      cbn [bind] in H; [|discriminate].
    eapply IH; [|exact H]. eapply apply_insts_ginv; [|exact E]. exact HI.
Qed.

(* initial maps: the identity *)
Lemma nth_opt_iota {A} (l : list A) : forall i0 k,
  (k < length l)%nat -> nth_opt (map fst (enumerate_from i0 l)) k = Some (i0 + Z.of_nat k).
Proof.
  induction l as [|x l IH]; intros i0 k H; cbn in *; [lia|]. destruct k; cbn; [f_equal; lia|].
  rewrite IH by lia. f_equal. lia.
Qed.
Lemma length_iota {A} (l : list A) i0 : length (map fst (enumerate_from i0 l)) = length l.
Proof. revert i0; induction l; intros; cbn; auto. Qed.
Lemma iota_sorted {A} (l : list A) : forall i0, StronglySorted Z.lt (map fst (enumerate_from i0 l)) /\
  Forall (fun p => i0 <= p < i0 + Z.of_nat (length l)) (map fst (enumerate_from i0 l)).
Proof.
  induction l as [|x l IH]; intros i0; cbn; [split; constructor|].
  destruct (IH (i0 + 1)) as [S R]. split.
  - constructor; [exact S|]. eapply Forall_impl; [|exact R]. cbn. intros; lia.
  - constructor; [lia|]. eapply Forall_impl; [|exact R]. cbn. intros; lia.
Qed.

(* what makes an instruction sane w.r.t. the ORIGINAL graph: its tensor exists
   and its producer field is the position of the op that writes it (or < 0
   when nothing writes it) *)
Definition sane (m : model) (sg : Z) (i : inst) : Prop :=
  0 <= sg /\
  forall g, nth_opt (m_subgraphs m) (Z.to_nat sg) = Some g ->
    0 <= i_tensor i < ntens g /\ i_producer i < lenZ (sg_ops g) /\
    prod_exact g (i_tensor i) (if i_producer i <? 0 then -1 else i_producer i).

Lemma init_ginv m tis :
  Forall wf_sg (m_subgraphs m) ->
  (forall ti i, In ti tis -> In i (ti_insts ti) -> sane m (ti_sg ti) i) ->
  ginv (init_pstate m) (pend_of tis).
Proof.
  intros Hwf Hsane. unfold init_pstate. constructor; cbn [ps_orig ps_added ps_model].
  - apply map_length.
  - apply map_length.
  - intros k g om am Hg Ho Ha. rewrite nth_opt_map, Hg in Ho, Ha. cbn in Ho, Ha.
    inversion Ho; inversion Ha; subst. unfold enumerate.
    destruct (iota_sorted (sg_ops g) 0) as [S R]. constructor.
    + rewrite Forall_forall in Hwf. apply Hwf. eapply nth_opt_In; exact Hg.
    + exact S.
    + eapply Forall_impl; [|exact R]. cbn. unfold lenZ. intros; lia.
    + constructor.
  - intros sg i Hin. unfold pend_of in Hin. apply in_flat_map in Hin. destruct Hin as (ti & Hti & Hin).
    apply in_map_iff in Hin. destruct Hin as (i0 & E & Hi0). injection E as E1 E2. subst sg i.
    destruct (Hsane _ _ Hti Hi0) as [Hs Hg]. split; [exact Hs|].
    intros g om am Eg Eo Ea. rewrite nth_opt_map, Eg in Eo, Ea. cbn in Eo, Ea.
    inversion Eo; inversion Ea; subst. destruct (Hg _ Eg) as (T & P & X).
    assert (L : lenZ (map fst (enumerate (sg_ops g))) = lenZ (sg_ops g)).
    { unfold lenZ, enumerate. rewrite length_iota. reflexivity. }
    split; [exact T|]. split; [rewrite L; unfold lenZ in *; cbn; lia|].
    intros pos Hpos. unfold resolve in Hpos. rewrite L in Hpos.
    destruct (Z.ltb_spec (i_producer i0) 0); [inversion Hpos; subst; exact X|].
    destruct (Z.ltb_spec (i_producer i0) (lenZ (sg_ops g))); [|lia].
    rewrite py_index_nonneg_eq in Hpos by assumption. rewrite L in Hpos.
    destruct (Z.leb_spec (lenZ (sg_ops g)) (i_producer i0)); [lia|].
    unfold enumerate in Hpos. rewrite nth_opt_iota in Hpos by (unfold lenZ in *; lia).
    inversion Hpos; subst. rewrite Z2Nat.id by assumption. exact X.
Qed.

Theorem transform_graph_wf m tis m' :
  Forall wf_sg (m_subgraphs m) ->
  (forall ti i, In ti tis -> In i (ti_insts ti) -> sane m (ti_sg ti) i) ->
  transform_graph m tis = Ok m' ->
  Forall wf_sg (m_subgraphs m').
Proof.
  intros Hwf Hsane H. unfold transform_graph in H.
  match type of H with bind ?x _ = _ => destruct x as [st|] eqn:E end; cbn [bind] in H; [|discriminate].
  inversion H; subst.
  pose proof (foldM_ginv _ _ _ (init_ginv _ _ Hwf Hsane) E) as [Lo La Hm _].
  apply Forall_forall. intros g Hg. destruct (In_nth_opt _ _ Hg) as [k Hk].
  pose proof (nth_opt_Some_lt _ _ _ Hk) as Hlt.
  destruct (nth_opt_lt_Some (ps_orig st) k ltac:(lia)) as [om Ho].
  destruct (nth_opt_lt_Some (ps_added st) k ltac:(lia)) as [am Ha].
  exact (mo_wf _ _ _ (Hm _ _ _ _ Hk Ho Ha)).
Qed.
