(* Proofs/CalibOnly.v — calibration records statistics ONLY for operands of
   selected operators (and for entries of the previous result passed in):
   no entry for an absent operand (-1), for a tensor of an operator the recipe
   does not select, or for any name that is not an operand's. *)
From VF Require Import Base.Prelude Gen.Enums Gen.Configs Gen.Registry Gen.Checks
     Gen.Scopes Model.Recipe Model.Check Model.Graph Model.Plan Model.Calib
     Proofs.ListFacts Proofs.CalibProofs.

Lemma qs_set_keys s : forall k v n, In n (map fst (qs_set s k v)) -> n = k \/ In n (map fst s).
Proof.
  induction s as [|[k0 w] r IH]; intros k v n H; cbn [qs_set] in H.
  - destruct H as [E|[]]. left. symmetry. exact E.
  - destruct (name_eqb2 k0 k); cbn [map fst] in H.
    + destruct H as [E|H]; [right; left; exact E|right; right; exact H].
    + destruct H as [E|H]; [right; left; exact E|]. destruct (IH _ _ _ H) as [A|A]; [left; exact A|right; right; exact A].
Qed.

Lemma fold_qs_set_keys (es : list (name_t * qval)) : forall acc n,
  In n (map fst (fold_left (fun acc e => qs_set acc (fst e) (snd e)) es acc)) ->
  In n (map fst acc) \/ In n (map fst es).
Proof.
  induction es as [|e es IH]; intros acc n H; cbn [fold_left] in H; [left; exact H|].
  destruct (IH _ _ H) as [A|A]; [|right; right; exact A].
  destruct (qs_set_keys _ _ _ _ A) as [->|B]; [right; left; reflexivity|left; exact B].
Qed.

Section Only.
  Variable matches : Z -> Z -> bool.
  Variable rules : state.
  Variable bufs : list bufval.
  Variable scope_id : Z -> list stok -> Z.
  Notation selected := (selected matches rules).

  (* n names a present operand of op *)
  Definition operand_name (ts : list tensor) (op : cop) (n : name_t) : Prop :=
    exists x t, In x (present (co_ins op) ++ present (co_outs op)) /\ x <> -1 /\
                py_index ts x = Ok t /\ n = tname t.

  Lemma present_not_absent l x : In x (present l) -> x <> -1.
  Proof.
    unfold present. intros H. apply filter_In in H. destruct H as [_ H].
    destruct (Z.eqb_spec x (-1)); [discriminate|assumption].
  Qed.

  Lemma in_present_app a b x : In x (present a ++ present b) -> x <> -1.
  Proof. intros H. apply in_app_iff in H. destruct H; eapply present_not_absent; eauto. Qed.

  Lemma mapM_In_inv' {A B} (f : A -> res B) : forall l r b,
    mapM f l = Ok r -> In b r -> exists a, In a l /\ f a = Ok b.
  Proof.
    induction l as [|x l IH]; intros r b H Hin; cbn in H; [inversion H; subst; destruct Hin|].
    destruct (f x) as [y|] eqn:Ey; cbn [bind] in H; [|discriminate].
    destruct (mapM f l) as [ys|] eqn:E; cbn [bind] in H; [|discriminate]. inversion H; subst.
    destruct Hin as [<-|Hin]; [exists x; split; [left; reflexivity|exact Ey]|].
    destruct (IH _ _ eq_refl Hin) as (a & Ha & Fa). exists a. split; [right; exact Ha|exact Fa].
  Qed.

  Lemma collect_op_only ts op a k es n :
    collect_op bufs ts op a k = Ok es -> In n (map fst es) -> operand_name ts op n.
  Proof.
    unfold collect_op. destruct a; try (intros H; inversion H; subst; intros []).
    destruct (mapM _ (present (co_ins op) ++ present (co_outs op))) as [r|] eqn:E; cbn [bind]; [|discriminate].
    intros H Hin. inversion H; subst es. destruct (fold_qs_set_keys _ _ _ Hin) as [[]|Hc].
    apply in_map_iff in Hc. destruct Hc as ([n' v] & <- & Hc). apply in_concat in Hc.
    destruct Hc as (l & Hl & Hnl). destruct (mapM_In_inv' _ _ _ _ E Hl) as (x & Hx & Fx). cbn beta in Fx.
    destruct (py_index ts x) as [t|] eqn:Et; cbn [bind] in Fx; [|discriminate].
    destruct (is_const bufs t); inversion Fx; subst l; [destruct Hnl|]. destruct Hnl as [E1|[]]. inversion E1; subst.
    exists x, t. split; [exact Hx|]. split; [eapply in_present_app; eauto|]. split; [exact Et|reflexivity].
  Qed.

  Lemma init_op_only ts op a c o es n :
    init_op bufs ts op a c o = Ok es -> In n (map fst es) -> operand_name ts op n.
  Proof.
    unfold init_op. destruct (negb _); [discriminate|].
    destruct a; try (intros H; inversion H; subst; intros []).
    intros E Hin. apply in_map_iff in Hin. destruct Hin as ([n' v] & <- & Hc).
    destruct (mapM_In_inv' _ _ _ _ E Hc) as (x & Hx & Fx). cbn beta in Fx.
    destruct (py_index ts x) as [t|] eqn:Et; cbn [bind] in Fx; [|discriminate].
    assert (Hn : n' = tname t).
    { destruct (is_const bufs t); [destruct (is_blockwise c); [discriminate|]|]; inversion Fx; reflexivity. }
    exists x, t. split; [exact Hx|]. split; [eapply in_present_app; eauto|]. split; [exact Et|exact Hn].
  Qed.

  (* one operator in one sample *)
  Lemma sample_step_only g k s upd op s' upd' n :
    sample_step matches rules bufs g k (s, upd) op = Ok (s', upd') -> In n (map fst s') ->
    In n (map fst s) \/ (selected op <> None /\ operand_name (sg_tensors g) op n).
  Proof.
    unfold sample_step. destruct (selected op) as [[[a c] o]|] eqn:Es; [|intros H; inversion H; subst; left; assumption].
    destruct (algname_of a) as [a'|]; cbn [bind]; [|discriminate].
    destruct (negb _); [discriminate|].
    destruct (collect_op bufs (sg_tensors g) op a' k) as [es|] eqn:Ec; cbn [bind]; [|discriminate].
    intros H Hin. inversion H as [Hf]. clear H.
    assert (G : forall es0 st, (forall m, In m (map fst es0) -> operand_name (sg_tensors g) op m) ->
              In n (map fst (fst (fold_left (fun st e => let '(s, upd) := st in
                   if existsb (name_eqb2 (fst e)) upd then (s, upd)
                   else match qs_get s (fst e) with
                        | None => (qs_set s (fst e) (snd e), fst e :: upd)
                        | Some old => (qs_set s (fst e) (update old (snd e)), fst e :: upd) end) es0 st))) ->
              In n (map fst (fst st)) \/ operand_name (sg_tensors g) op n).
    { induction es0 as [|e es0 IH]; intros [s0 u0] Hall H0; cbn [fold_left] in H0; [left; exact H0|].
      assert (Hall' : forall m, In m (map fst es0) -> operand_name (sg_tensors g) op m)
        by (intros m Hm; apply Hall; right; exact Hm).
      destruct (existsb (name_eqb2 (fst e)) u0); [apply (IH _ Hall' H0)|].
      destruct (qs_get s0 (fst e)); destruct (IH _ Hall' H0) as [A|A]; try (right; exact A); cbn [fst] in A;
        (destruct (qs_set_keys _ _ _ _ A) as [->|B]; [right; apply Hall; left; reflexivity|left; exact B]). }
    specialize (G es (s, upd) (fun m Hm => collect_op_only _ _ _ _ _ _ Ec Hm)).
    rewrite Hf in G. cbn [fst] in G. destruct (G Hin) as [A|A]; [left; exact A|right; split; [discriminate|exact A]].
  Qed.

  Lemma fold_sample_only g k : forall ops s upd s' upd' n,
    foldM (sample_step matches rules bufs g k) ops (s, upd) = Ok (s', upd') -> In n (map fst s') ->
    In n (map fst s) \/ exists op, In op ops /\ selected op <> None /\ operand_name (sg_tensors g) op n.
  Proof.
    induction ops as [|op ops IH]; intros s upd s' upd' n H Hin; cbn [foldM] in H.
    - inversion H; subst. left; exact Hin.
    - destruct (sample_step matches rules bufs g k (s, upd) op) as [[s1 u1]|] eqn:E; cbn [bind] in H; [|discriminate].
      destruct (IH _ _ _ _ _ H Hin) as [A|(op' & I & S & O)].
      + destruct (sample_step_only _ _ _ _ _ _ _ _ E A) as [B|[S O]]; [left; exact B|].
        right. exists op. split; [left; reflexivity|split; assumption].
      + right. exists op'. split; [right; exact I|split; assumption].
  Qed.

  Lemma in_concat_repeat' {A} (l : list A) c x : In x (concat (repeat l c)) -> In x l.
  Proof.
    induction c as [|c IH]; cbn; [intros []|]. intros H. apply in_app_iff in H. destruct H; auto.
  Qed.

  (* one sample: new keys are operands of selected real / virtual I/O operators *)
  Theorem one_sample_only m gi g ad copies k s s' n :
    one_sample_gen matches rules bufs scope_id m gi g ad copies k s = Ok s' -> In n (map fst s') ->
    In n (map fst s) \/
    exists op, In op (real_cops scope_id gi (m_opcodes m) g ad ++ io_cops scope_id gi g) /\
               selected op <> None /\ operand_name (sg_tensors g) op n.
  Proof.
    unfold one_sample_gen.
    destruct (foldM _ _ (s, [])) as [[s1 u1]|] eqn:E; cbn [bind]; [|discriminate].
    intros H Hin. inversion H; subst s'. cbn [fst] in Hin.
    destruct (fold_sample_only _ _ _ _ _ _ _ _ E Hin) as [A|(op & I & S & O)]; [left; exact A|].
    right. exists op. split; [|split; assumption].
    apply in_app_iff in I. apply in_app_iff. destruct I as [I|I]; [left; exact I|right; eapply in_concat_repeat'; eauto].
  Qed.

  (* the initialisation pass over every subgraph *)
  Definition selected_operand (m : model) (n : name_t) : Prop :=
    exists gi g ad op, In g (m_subgraphs m) /\
      In op (real_cops scope_id gi (m_opcodes m) g ad ++ io_cops scope_id gi g) /\
      selected op <> None /\ operand_name (sg_tensors g) op n.

  Lemma fold_if_absent_keys (es : list (name_t * qval)) : forall s n,
    In n (map fst (fold_left (fun s e => match qs_get s (fst e) with
                                         | Some _ => s | None => qs_set s (fst e) (snd e) end) es s)) ->
    In n (map fst s) \/ In n (map fst es).
  Proof.
    induction es as [|e es IH]; intros s n H; cbn [fold_left] in H; [left; exact H|].
    destruct (IH _ _ H) as [A|A]; [|right; right; exact A].
    destruct (qs_get s (fst e)); [left; exact A|].
    destruct (qs_set_keys _ _ _ _ A) as [->|B]; [right; left; reflexivity|left; exact B].
  Qed.

  Lemma in_combine_l' {A B} (a : list A) (b : list B) x y : In (x, y) (combine a b) -> In x a.
  Proof. apply in_combine_l. Qed.

  Lemma in_enumerate_snd {A} (l : list A) : forall i0 k a, In (k, a) (enumerate_from i0 l) -> In a l.
  Proof.
    induction l as [|x l IH]; intros i0 k a H; [destruct H|]. cbn in H. destruct H as [E|H].
    - inversion E; subst. left; reflexivity.
    - right. eapply IH; eauto.
  Qed.

  Lemma initialize_only m adjy s s' n :
    initialize matches rules bufs scope_id m adjy s = Ok s' -> In n (map fst s') ->
    In n (map fst s) \/ selected_operand m n.
  Proof.
    unfold initialize.
    assert (G : forall L s s', (forall gx, In gx L -> In (fst (snd gx)) (m_subgraphs m)) ->
      foldM (fun s gx => let '(gi, (g, ad)) := gx in
        foldM (fun s op => match selected op with
          | None => Ok s
          | Some (a, c, o) =>
              a' <- algname_of a ;; es <- init_op bufs (sg_tensors g) op a' c o ;;
              let es' := fold_left (fun acc e => qs_set acc (fst e) (snd e)) es [] in
              Ok (fold_left (fun s e => match qs_get s (fst e) with
                                        | Some _ => s | None => qs_set s (fst e) (snd e) end) es' s)
          end) (real_cops scope_id gi (m_opcodes m) g ad) s) L s = Ok s' ->
      In n (map fst s') -> In n (map fst s) \/ selected_operand m n).
    { induction L as [|[gi [g ad]] L IH]; intros s0 s1 HL H Hin; cbn [foldM] in H.
      - inversion H; subst. left; exact Hin.
      - match type of H with (s' <- ?X ;; _) = _ => destruct X as [sm|] eqn:E end; cbn [bind] in H; [|discriminate].
        destruct (IH _ _ (fun gx Hgx => HL gx (or_intror Hgx)) H Hin) as [A|A]; [|right; exact A].
        assert (Hg : In g (m_subgraphs m)) by (apply (HL (gi, (g, ad))); left; reflexivity).
        clear H IH.
        set (R := real_cops scope_id gi (m_opcodes m) g ad) in *.
        assert (GO : forall ops, (forall op, In op ops -> In op R) -> forall s0 sm,
                  foldM (fun s op => match selected op with
                    | None => Ok s
                    | Some (a, c, o) =>
                        a' <- algname_of a ;; es <- init_op bufs (sg_tensors g) op a' c o ;;
                        let es' := fold_left (fun acc e => qs_set acc (fst e) (snd e)) es [] in
                        Ok (fold_left (fun s e => match qs_get s (fst e) with
                                                  | Some _ => s | None => qs_set s (fst e) (snd e) end) es' s)
                    end) ops s0 = Ok sm ->
                  In n (map fst sm) -> In n (map fst s0) \/ selected_operand m n).
        { induction ops as [|op ops IHo]; intros Hsub s2 sm2 E2 A2; cbn [foldM] in E2.
          - inversion E2; subst. left; exact A2.
          - destruct (selected op) as [[[a c] o]|] eqn:Es.
            + destruct (algname_of a) as [a'|]; cbn [bind] in E2; [|discriminate].
              destruct (init_op bufs (sg_tensors g) op a' c o) as [es|] eqn:Ei; cbn [bind] in E2; [|discriminate].
              destruct (IHo (fun op' H' => Hsub op' (or_intror H')) _ _ E2 A2) as [B|B]; [|right; exact B].
              destruct (fold_if_absent_keys _ _ _ B) as [C|C]; [left; exact C|].
              destruct (fold_qs_set_keys _ _ _ C) as [[]|D].
              right. exists gi, g, ad, op. split; [exact Hg|].
              split; [apply in_app_iff; left; apply Hsub; left; reflexivity|].
              split; [rewrite Es; discriminate|eapply init_op_only; eauto].
            + cbn [bind] in E2. apply (IHo (fun op' H' => Hsub op' (or_intror H')) _ _ E2 A2). }
        apply (GO R (fun op H' => H') _ _ E A). }
    intros H Hin. eapply G; [|exact H|exact Hin].
    intros [gi [g ad]] Hgx. cbn [fst snd]. unfold enumerate in Hgx.
    apply in_enumerate_snd in Hgx. eapply in_combine_l'; eauto.
  Qed.

  Lemma py_index_In' {A} (l : list A) i a : py_index l i = Ok a -> In a l.
  Proof.
    unfold py_index. destruct (_ || _); [discriminate|].
    destruct (nth_opt l _) eqn:E; [|discriminate]. intros H; inversion H; subst. eapply nth_opt_In; eauto.
  Qed.

  (* Quantizer.calibrate as a whole *)
  Theorem calibrate_only m adjy sig prev nsamples s n :
    calibrate matches rules bufs scope_id m adjy sig prev nsamples = Ok s -> In n (map fst s) ->
    (exists ns, prev = Some ns /\ In n ns) \/ selected_operand m n.
  Proof.
    unfold calibrate. destruct (negb (need_calibration rules)); [intros H; inversion H; subst; intros []|].
    cbv zeta. match goal with |- context [initialize _ _ _ _ _ _ ?x] => set (s0 := x) end.
    assert (H0 : forall x, In x (map fst s0) -> exists ns, prev = Some ns /\ In x ns).
    { unfold s0. destruct prev as [ns|]; [|intros x []]. intros x Hx. exists ns. split; [reflexivity|].
      rewrite map_map in Hx. cbn [fst] in Hx. rewrite map_id in Hx. exact Hx. }
    destruct (match s0 with [] => initialize matches rules bufs scope_id m adjy s0 | _ :: _ => Ok s0 end) as [s1|] eqn:E1;
      cbn [bind]; [|discriminate].
    assert (H1 : forall x, In x (map fst s1) -> (exists ns, prev = Some ns /\ In x ns) \/ selected_operand m x).
    { intros x Hx. destruct s0 as [|e0 r0] eqn:Es0.
      - destruct (initialize_only _ _ _ _ _ E1 Hx) as [[]|A]. right; exact A.
      - inversion E1; subst s1. left. apply H0. exact Hx. }
    destruct (py_index (m_subgraphs m) sig) as [g|] eqn:Eg; cbn [bind]; [|discriminate].
    destruct (py_index adjy sig) as [ad|]; cbn [bind]; [|discriminate].
    generalize (map Z.of_nat (seq 0 (Z.to_nat nsamples))) as ks. intros ks. clear E1. revert s1 H1.
    induction ks as [|k ks IH]; intros s1 H1 H Hin; cbn [foldM] in H.
    - inversion H; subst. apply H1. exact Hin.
    - destruct (one_sample matches rules bufs scope_id m sig g ad k s1) as [s2|] eqn:E2; cbn [bind] in H; [|discriminate].
      apply (IH s2); [|exact H|exact Hin]. intros x Hx. unfold one_sample in E2.
      destruct (one_sample_only _ _ _ _ _ _ _ _ _ E2 Hx) as [A|(op & I & S & O)]; [apply H1; exact A|].
      right. exists sig, g, ad, op. split; [eapply py_index_In'; eauto|]. split; [exact I|split; assumption].
  Qed.
End Only.
