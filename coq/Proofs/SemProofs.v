(* Proofs/SemProofs.v — C06: inserting a DEQUANTIZE between a quantized
   constant and its float consumers preserves the meaning of the graph, for
   every kernel semantics in which DEQUANTIZE maps the stored constant to its
   dequantized value. *)
From VF Require Import Base.Prelude Model.Graph Model.Perform Model.Sem Proofs.ListFacts
     Proofs.PerformStep.

Section SemProofs.
  Variable val : Type.
  Variable K : Z -> Z -> list (option val) -> list val.
  Notation env := (env val).
  Notation step := (step val K).
  Notation run := (run val K).

  Variables (tid new : Z) (q dq : val).
  Hypothesis Hne : tid <> new.
  Hypothesis Hnew_pos : new <> -1.
  Hypothesis Htid_pos : tid <> -1.

  (* e: float model with the constant replaced by its dequantized value;
     e': quantized model (constant stored quantized; [new] defined iff b) *)
  Definition Inv (b : bool) (e e' : env) : Prop :=
    e tid = Some dq /\ e' tid = Some q /\
    (forall t, t <> tid -> t <> new -> e' t = e t) /\
    (b = true -> e' new = Some dq).

  (* an original op is "plain": it neither writes the constant or the new
     tensor nor mentions the new tensor *)
  Definition plain (o : op) : Prop :=
    ~ In tid (o_outs o) /\ ~ In new (o_outs o) /\ ~ In new (o_ins o).

  Lemma upd_list_agree (P : Z -> Prop) : forall ks vs (e e' : env),
    (forall t, P t -> e' t = e t) ->
    forall t, P t -> upd_list val e' ks vs t = upd_list val e ks vs t.
  Proof.
    induction ks as [|k ks IH]; intros vs e e' H t Pt; cbn; [apply H; exact Pt|].
    destruct vs as [|v vs]; [apply H; exact Pt|].
    apply IH; [|exact Pt]. intros t0 P0. unfold upd. destruct (Z.eqb t0 k); [reflexivity|apply H; exact P0].
  Qed.

  Lemma upd_list_other : forall ks vs (e : env) t, ~ In t ks -> upd_list val e ks vs t = e t.
  Proof.
    induction ks as [|k ks IH]; intros vs e t H; cbn; [reflexivity|].
    destruct vs as [|v vs]; [reflexivity|].
    rewrite IH by (intros C; apply H; right; exact C).
    unfold upd. destruct (Z.eqb_spec t k); [exfalso; apply H; left; congruence|reflexivity].
  Qed.

  (* an op that does not read the constant behaves identically on both sides *)
  Lemma step_same b e e' o :
    plain o -> ~ In tid (o_ins o) -> Inv b e e' -> Inv b (step e o) (step e' o).
  Proof.
    intros (P1 & P2 & P3) Hr (I1 & I2 & I3 & I4). unfold Sem.step.
    assert (Hins : map (operand val e') (o_ins o) = map (operand val e) (o_ins o)).
    { apply map_ext_in. intros i Hi. unfold operand. destruct (Z.eqb i (-1)); [reflexivity|].
      apply I3; intros ->; contradiction. }
    rewrite Hins. repeat split.
    - rewrite upd_list_other by exact P1. exact I1.
    - rewrite upd_list_other by exact P1. exact I2.
    - intros t Ht Hn. apply (upd_list_agree (fun t => t <> tid /\ t <> new)); [|auto].
      intros t0 [A B]. apply I3; assumption.
    - intros Hb. rewrite upd_list_other by exact P2. apply I4. exact Hb.
  Qed.

  (* a rewired reader sees through [new] what the float model sees at [tid] *)
  Lemma step_rewired e e' o :
    plain o -> Inv true e e' -> Inv true (step e o) (step e' (rewire_op o tid new)).
  Proof.
    intros (P1 & P2 & P3) (I1 & I2 & I3 & I4). unfold Sem.step. cbn [rewire_op o_code o_uid o_ins o_outs].
    assert (Hins : map (operand val e') (map (fun x => if x =? tid then new else x) (o_ins o))
                   = map (operand val e) (o_ins o)).
    { rewrite map_map. apply map_ext_in. intros i Hi. unfold operand.
      destruct (Z.eqb_spec i tid) as [->|Hi2].
      - destruct (Z.eqb_spec new (-1)); [contradiction|]. destruct (Z.eqb_spec tid (-1)); [contradiction|].
        rewrite I4 by reflexivity. rewrite I1. reflexivity.
      - destruct (Z.eqb i (-1)); [reflexivity|]. apply I3; [exact Hi2|]. intros ->. contradiction. }
    rewrite Hins. repeat split.
    - rewrite upd_list_other by exact P1. exact I1.
    - rewrite upd_list_other by exact P1. exact I2.
    - intros t Ht Hn. apply (upd_list_agree (fun t => t <> tid /\ t <> new)); [|auto].
      intros t0 [A B]. apply I3; assumption.
    - intros _. rewrite upd_list_other by exact P2. apply I4. reflexivity.
  Qed.

  (* the inserted DEQUANTIZE defines [new] *)
  Lemma step_new e e' newop :
    o_ins newop = [tid] -> o_outs newop = [new] ->
    K (o_code newop) (o_uid newop) [Some q] = [dq] ->
    Inv false e e' -> Inv true e (step e' newop).
  Proof.
    intros Hi Ho Hk (I1 & I2 & I3 & _). unfold Sem.step. rewrite Hi, Ho. cbn [map].
    unfold operand at 1. destruct (Z.eqb_spec tid (-1)); [contradiction|]. rewrite I2, Hk. cbn [upd_list].
    unfold upd. repeat split.
    - exact I1.
    - destruct (Z.eqb_spec tid new); [contradiction|exact I2].
    - intros t Ht Hn. destruct (Z.eqb_spec t new); [contradiction|apply I3; assumption].
    - intros _. rewrite Z.eqb_refl. reflexivity.
  Qed.

  (* pairs (original op, op of the quantized graph) *)
  Definition before_ok (p : op * op) : Prop :=
    plain (fst p) /\ snd p = fst p /\ ~ In tid (o_ins (fst p)).
  Definition after_ok (p : op * op) : Prop :=
    plain (fst p) /\ ((snd p = fst p /\ ~ In tid (o_ins (fst p))) \/ snd p = rewire_op (fst p) tid new).

  Lemma run_before : forall l e e',
    Forall before_ok l -> Inv false e e' ->
    Inv false (run (map fst l) e) (run (map snd l) e').
  Proof.
    induction l as [|[o o'] l IH]; intros e e' H I; cbn; [exact I|].
    inversion H as [|? ? (P & E & R) H']; subst. cbn in E, R, P. subst o'.
    apply IH; [exact H'|]. apply step_same; assumption.
  Qed.

  Lemma run_after : forall l e e',
    Forall after_ok l -> Inv true e e' ->
    Inv true (run (map fst l) e) (run (map snd l) e').
  Proof.
    induction l as [|[o o'] l IH]; intros e e' H I; cbn; [exact I|].
    inversion H as [|? ? (P & C) H']; subst. cbn in C, P.
    apply IH; [exact H'|]. destruct C as [[-> R]| ->]; [apply step_same|apply step_rewired]; assumption.
  Qed.

  (* Main statement: [pre]/[post] are the ops before / from the insertion
     position, paired with their images in the quantized graph *)
  Theorem dequantize_insertion_preserves_meaning pre post newop e e' :
    Forall before_ok pre -> Forall after_ok post ->
    o_ins newop = [tid] -> o_outs newop = [new] ->
    K (o_code newop) (o_uid newop) [Some q] = [dq] ->
    Inv false e e' ->
    Inv true (run (map fst pre ++ map fst post) e)
             (run (map snd pre ++ newop :: map snd post) e').
  Proof.
    intros Hpre Hpost Hi Ho Hk I. unfold Sem.run. rewrite !fold_left_app. cbn [fold_left].
    apply run_after; [exact Hpost|]. apply step_new; try assumption.
    apply run_before; assumption.
  Qed.
End SemProofs.

(* ---- in-place quantization of a constant (dynamic range) ---- *)
Section Hybrid.
  Variable val : Type.
  Variable K : Z -> Z -> list (option val) -> list val.
  Variables (tid : Z) (q dq : val).

  (* operand lists that agree except that the quantized side may hold q where
     the float side holds dq *)
  Inductive rel_operand : option val -> option val -> Prop :=
  | RO_same x : rel_operand x x
  | RO_quant : rel_operand (Some dq) (Some q).

  (* idealised hybrid-kernel contract: a kernel handed the quantized constant
     computes what the float kernel computes on the dequantized constant *)
  Definition hybrid_exact : Prop :=
    forall c u ins ins', Forall2 rel_operand ins ins' -> K c u ins' = K c u ins.

  Definition InvQ (e e' : env val) : Prop :=
    e tid = Some dq /\ e' tid = Some q /\ forall t, t <> tid -> e' t = e t.

  Lemma step_hybrid e e' o :
    hybrid_exact -> ~ In tid (o_outs o) -> InvQ e e' -> InvQ (step val K e o) (step val K e' o).
  Proof.
    intros HK Hw (I1 & I2 & I3). unfold Sem.step.
    assert (R : Forall2 rel_operand (map (operand val e) (o_ins o)) (map (operand val e') (o_ins o))).
    { induction (o_ins o) as [|i l IH]; cbn; constructor; [|exact IH].
      unfold operand. destruct (Z.eqb i (-1)); [constructor|].
      destruct (Z.eq_dec i tid) as [->|Hi]; [rewrite I1, I2; constructor|rewrite I3 by exact Hi; constructor]. }
    rewrite (HK _ _ _ _ R). repeat split.
    - rewrite upd_list_other by exact Hw. exact I1.
    - rewrite upd_list_other by exact Hw. exact I2.
    - intros t Ht. apply (upd_list_agree val (fun t => t <> tid)); [|exact Ht]. exact I3.
  Qed.

  Theorem quantize_in_place_preserves_meaning ops : forall e e',
    hybrid_exact -> Forall (fun o => ~ In tid (o_outs o)) ops -> InvQ e e' ->
    InvQ (run val K ops e) (run val K ops e').
  Proof.
    induction ops as [|o ops IH]; intros e e' HK Hw I; cbn; [exact I|].
    inversion Hw; subst. apply IH; [exact HK|assumption|]. apply step_hybrid; assumption.
  Qed.
End Hybrid.
