(* Proofs/PipelineAlone.v — plan generation, instruction generation and graph
   transformation, each on the whole model and on subgraph k alone: with
   model-wide unique tensor names the three stages produce, for subgraph k,
   the same plan entries, the same instructions and the same subgraph.
   (The buffer-sharing check that follows plan generation is by nature
   cross-subgraph — property C15 — and is not part of this statement; the
   parameter classification [cls] is the same on both sides, as parameter
   VALUES are in the code.) *)
From VF Require Import Base.Prelude Gen.Enums Gen.Configs Gen.Scopes Model.Recipe Model.Check
     Model.Graph Model.Plan Model.Insts Model.Perform Model.Pipeline Spec.WF
     Proofs.ListFacts Proofs.LocalProofs Proofs.AloneProofs Proofs.InstsAlone Proofs.PlanLocal.

Definition nb_of (g : subgraph) (n : name_t) : bool :=
  existsb (fun t => key_eqb n (name_key t)) (sg_tensors g).

Lemma nb_of_spec g n : nb_of g n = true <-> in_subgraph g n.
Proof.
  unfold nb_of, in_subgraph. rewrite existsb_exists. split.
  - intros (t & Hin & E). apply key_eqb_eq in E. destruct (In_nth_opt _ _ Hin) as (tid & Ht). eauto.
  - intros (tid & t & Ht & E). exists t. split; [eapply nth_opt_In; eauto|apply key_eqb_eq; exact E].
Qed.

Lemma inside_own g : inside (nb_of g) (sg_tensors g).
Proof.
  intros t Hin. apply nb_of_spec. destruct (In_nth_opt _ _ Hin) as (tid & Ht). exists tid, t. split; [exact Ht|reflexivity].
Qed.

Lemma outside_other m k g j g' :
  NoDup (all_keys m) -> nth_opt (m_subgraphs m) k = Some g -> nth_opt (m_subgraphs m) j = Some g' -> j <> k ->
  outside (nb_of g) (sg_tensors g').
Proof.
  intros Hnd Hk Hj Hne t Hin. destruct (nb_of g (Plan.tname t)) eqn:E; [|reflexivity]. exfalso. apply Hne.
  apply nb_of_spec in E. destruct (In_nth_opt _ _ Hin) as (tid & Ht).
  eapply (unique_names_separate m j k g' g (Plan.tname t)); eauto. exists tid, t. split; [exact Ht|reflexivity].
Qed.

Lemma nth_opt_combine_l {A B} (a : list A) (b : list B) : forall j x y,
  nth_opt (combine a b) j = Some (x, y) -> nth_opt a j = Some x.
Proof.
  revert b. induction a as [|x0 a IH]; intros b j x y H; [destruct j; discriminate|].
  destruct b as [|y0 b]; [destruct j; discriminate|]. destruct j as [|j]; cbn in *.
  - inversion H; reflexivity.
  - eapply IH; eauto.
Qed.

Lemma filter_named_map cls g rs :
  filter (named_in g) (map (to_ttp cls) rs) = map (to_ttp cls) (filt (nb_of g) rs).
Proof.
  induction rs as [|r rs IH]; cbn [map filter filt]; [reflexivity|].
  change (named_in g (to_ttp cls r)) with (nb_of g (tp_name r)).
  destruct (nb_of g (tp_name r)); cbn [map]; [f_equal|]; exact IH.
Qed.

Theorem stages_alone matches rules scope_id cls m scopes stats k g sc rs s tis m1 :
  NoDup (all_keys m) ->
  nth_opt (combine (m_subgraphs m) scopes) k = Some (g, sc) -> codes_in_range (m_opcodes m) g ->
  plan matches rules (m_buffers m) scope_id m scopes stats = Ok (rs, s) ->
  insts_of_params m (map (to_ttp cls) rs) = Ok tis ->
  transform_graph m tis = Ok m1 ->
  exists s' tis2 m2,
    plan matches rules (m_buffers (alone m k g)) (fun _ => scope_id (Z.of_nat k)) (alone m k g) [sc] stats
      = Ok (filt (nb_of g) rs, s') /\
    insts_of_params (alone m k g) (map (to_ttp cls) (filt (nb_of g) rs)) = Ok tis2 /\
    transform_graph (alone m k g) tis2 = Ok m2 /\
    same_subgraph_result k 0 m1 m2.
Proof.
  intros Hnd Hk Hc Hp Hi Ht.
  pose proof (nth_opt_combine_l _ _ _ _ _ Hk) as Hg.
  destruct (plan_of_subgraph_alone matches rules (nb_of g) scope_id (m_buffers m) m (alone m k g) scopes stats k g sc rs s
              Hk eq_refl eq_refl (inside_own g)) as (s' & P & _); [|exact Hp|].
  { intros j g' sc' Hj Hne. eapply outside_other; eauto. eapply nth_opt_combine_l; eauto. }
  destruct (generate_and_transform_alone m k g _ _ _ Hnd Hg Hc Hi Ht) as (tis2 & m2 & I2 & T2 & S).
  exists s', tis2, m2. split; [exact P|]. split; [|split; assumption].
  rewrite <- filter_named_map. exact I2.
Qed.

(* ---- the uniqueness contract is checked by the pipeline itself ---- *)
Lemma names_nodupb_sound : forall l, names_nodupb l = true -> NoDup l.
Proof.
  induction l as [|x l IH]; cbn [names_nodupb]; intros H; [constructor|].
  apply andb_true_iff in H. destruct H as [H1 H2]. constructor; [|apply IH; exact H2].
  intros Hin. apply negb_true_iff in H1.
  assert (existsb (name_eqb2 x) l = true) by (apply existsb_exists; exists x; split; [exact Hin|apply name_eqb2_refl]).
  congruence.
Qed.

Lemma keys_inner sgid g (ts : list tensor) : forall j0,
  map fst (map (fun it : Z * tensor => let '(tid, t) := it in (name_key t, tensor_info sgid g tid))
               (enumerate_from j0 ts)) = map Plan.tname ts.
Proof.
  induction ts as [|t ts IH]; intros j0; cbn [enumerate_from map]; [reflexivity|].
  rewrite IH. reflexivity.
Qed.

Lemma keys_outer (l : list subgraph) : forall i0,
  map fst (flat_map (fun sg : Z * subgraph => let '(sgid, g) := sg in
             map (fun it : Z * tensor => let '(tid, t) := it in (name_key t, tensor_info sgid g tid))
                 (enumerate (sg_tensors g))) (enumerate_from i0 l))
  = flat_map (fun g => map Plan.tname (sg_tensors g)) l.
Proof.
  induction l as [|g l IH]; intros i0; cbn [enumerate_from flat_map]; [reflexivity|].
  rewrite map_app, IH. unfold enumerate. rewrite keys_inner. reflexivity.
Qed.

Lemma all_keys_all_names m : all_keys m = all_names m.
Proof. unfold all_keys, info_map, all_names. apply keys_outer. Qed.

(* the whole modelled pipeline: whenever it returns, subgraph k of the result is
   what plan / instruction generation / transformation produce on k alone *)
Theorem pipeline_subgraph_alone mk_cls matches rules scope_id m scopes stats m1 rs k g sc :
  pipeline_cls mk_cls matches rules scope_id m scopes stats = Ok (m1, rs) ->
  nth_opt (combine (m_subgraphs m) scopes) k = Some (g, sc) -> codes_in_range (m_opcodes m) g ->
  exists s' tis2 m2,
    plan matches rules (m_buffers (alone m k g)) (fun _ => scope_id (Z.of_nat k)) (alone m k g) [sc] stats
      = Ok (filt (nb_of g) rs, s') /\
    insts_of_params (alone m k g) (map (to_ttp (mk_cls (terms_of rs))) (filt (nb_of g) rs)) = Ok tis2 /\
    transform_graph (alone m k g) tis2 = Ok m2 /\
    same_subgraph_result k 0 m1 m2.
Proof.
  intros H Hk Hc. unfold pipeline_cls, plan_checked_cls in H.
  destruct (names_nodupb (all_names m)) eqn:En; cbn [negb] in H; [|discriminate].
  destruct (plan matches rules (m_buffers m) scope_id m scopes stats) as [[rs0 s0]|] eqn:Ep; cbn [bind fst] in H; [|discriminate].
  destruct (check_buffer_sharing_with _ _ _ _); cbn [bind fst] in H; [|discriminate].
  destruct (insts_of_params m _) as [tis|] eqn:Ei; cbn [bind] in H; [|discriminate].
  destruct (transform_graph m tis) as [m1'|] eqn:Et; cbn [bind] in H; [|discriminate].
  inversion H; subst m1' rs0. clear H.
  assert (Hnd : NoDup (all_keys m)) by (rewrite all_keys_all_names; apply names_nodupb_sound; exact En).
  eapply stages_alone; eauto.
Qed.
