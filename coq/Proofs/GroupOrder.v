(* Proofs/GroupOrder.v — ORDER of the consumer-side instructions of a plan
   entry: the instructions of depth >= 2 are emitted depth by depth
   (ascending) after the vertical candidates (depth 1).  Hence in
   `vert ++ others` an earlier instruction's group is never deeper than a later
   one's, and (GroupLists.v) the LATER consumer list lies inside the EARLIER
   one or is disjoint from it — the order `ok_list` needs of the insertions
   that precede the last instruction. *)
From Coq Require Import Sorted.
From VF Require Import Base.Prelude Gen.Enums Model.Graph Gen.InstChecks Model.Insts
     Proofs.ListFacts Proofs.InstsSane Proofs.InstsCover Proofs.GroupNest Proofs.GroupLists Spec.Interleave.

Definition at_depth (cs : list o2t) (groups : list (list (list Z))) (d : nat) (i : inst) : Prop :=
  exists lv g, nth_opt groups d = Some lv /\ In g lv /\ op_image cs g (i_consumers i).

Definition per_idx (p : ttp) (info : tinfo) (ig : Z * list (list Z)) : res (list inst) :=
  let cs := consumers_list p in
  let '(idx, gs) := ig in
  if idx <? 2 then Ok []
  else r <- mapM (fun g =>
         match g with
         | [] => Err IndexError
         | g0 :: _ =>
             c0 <- py_index cs g0 ;;
             if Z.of_nat (length (o2t_trans c0)) <=? idx - 1 then Ok []
             else i <- group_inst cs info g (idx - 1) ;; Ok [i]
         end) gs ;; Ok (concat r).

Lemma others_unfold groups p info :
  other_consumer_insts groups p info = (r <- mapM (per_idx p info) (enumerate groups) ;; Ok (concat r)).
Proof. reflexivity. Qed.

Lemma per_idx_block p info groups idx gs blk :
  per_idx p info (idx, gs) = Ok blk -> 0 <= idx -> nth_opt groups (Z.to_nat idx) = Some gs ->
  Forall (at_depth (consumers_list p) groups (Z.to_nat idx)) blk /\ (blk <> [] -> 2 <= idx).
Proof.
  unfold per_idx. intros Hb H0 Hn. destruct (idx <? 2) eqn:E2.
  - inversion Hb; subst. split; [constructor|intros X; contradiction].
  - apply Z.ltb_ge in E2. split; [|intros _; exact E2].
    match type of Hb with (r <- ?m ;; _) = _ => destruct m as [r2|] eqn:Em end; cbn [bind] in Hb; [|discriminate].
    inversion Hb; subst blk. apply Forall_forall. intros i Hi. apply in_concat in Hi. destruct Hi as (lg & Hlg & Hi).
    destruct (mapM_In_inv _ _ _ _ Em Hlg) as (g & Hg & Hgb). cbn beta in Hgb.
    destruct g as [|g0 g]; [discriminate|].
    destruct (py_index (consumers_list p) g0) as [c0|]; cbn [bind] in Hgb; [|discriminate].
    destruct (Z.of_nat (length (o2t_trans c0)) <=? idx - 1); [inversion Hgb; subst; destruct Hi|].
    destruct (group_inst (consumers_list p) info (g0 :: g) (idx - 1)) as [i'|] eqn:Ei; cbn [bind] in Hgb; [|discriminate].
    inversion Hgb; subst lg. destruct Hi as [<-|[]].
    exists gs, (g0 :: g). split; [exact Hn|]. split; [exact Hg|]. eapply group_inst_image. exact Ei.
Qed.

Lemma Forall2_repeat {A B} (P : A -> B -> Prop) a : forall l, Forall (P a) l -> Forall2 P (repeat a (length l)) l.
Proof. induction l as [|b l IH]; intros H; cbn; [constructor|]. inversion H; subst. constructor; auto. Qed.

Lemma sorted_repeat_app k n : forall tags, StronglySorted le tags -> Forall (fun t => (k <= t)%nat) tags ->
  StronglySorted le (repeat k n ++ tags).
Proof.
  induction n as [|n IH]; intros tags Hs Hk; cbn; [exact Hs|]. constructor; [apply IH; assumption|].
  apply Forall_app. split; [|exact Hk]. clear. induction n; cbn; constructor; [lia|assumption].
Qed.

Lemma suffix_sorted p info groups : forall gsuf k r,
  (forall j lv, nth_opt gsuf j = Some lv -> nth_opt groups (k + j) = Some lv) ->
  mapM (per_idx p info) (enumerate_from (Z.of_nat k) gsuf) = Ok r ->
  exists tags, Forall2 (at_depth (consumers_list p) groups) tags (concat r) /\ StronglySorted le tags /\
               Forall (fun t => (k <= t)%nat /\ (2 <= t)%nat) tags.
Proof.
  induction gsuf as [|lv rest IH]; intros k r Hsuf H; cbn [enumerate_from mapM] in H.
  - inversion H; subst. exists []. cbn. repeat split; constructor.
  - destruct (per_idx p info (Z.of_nat k, lv)) as [blk|] eqn:Eb; cbn [bind] in H; [|discriminate].
    replace (Z.of_nat k + 1) with (Z.of_nat (S k)) in H by lia.
    destruct (mapM (per_idx p info) (enumerate_from (Z.of_nat (S k)) rest)) as [r'|] eqn:Er; cbn [bind] in H; [|discriminate].
    inversion H; subst r. cbn [concat].
    destruct (IH (S k) r') as (tags' & F2 & Ss & Fk); [|exact Er|].
    { intros j lv' Hj. replace (S k + j)%nat with (k + S j)%nat by lia. apply Hsuf. exact Hj. }
    assert (Hn : nth_opt groups (Z.to_nat (Z.of_nat k)) = Some lv).
    { rewrite Nat2Z.id. replace k with (k + 0)%nat at 1 by lia. apply Hsuf. reflexivity. }
    destruct (per_idx_block p info groups _ _ _ Eb ltac:(lia) Hn) as [Hblk Hne]. rewrite Nat2Z.id in Hblk.
    exists (repeat k (length blk) ++ tags'). split; [|split].
    + apply Forall2_app; [apply Forall2_repeat; exact Hblk|exact F2].
    + apply sorted_repeat_app; [exact Ss|]. eapply Forall_impl; [|exact Fk]. intros t [Ht _]. lia.
    + apply Forall_app. split.
      * destruct blk as [|b blk']; [constructor|]. assert (2 <= Z.of_nat k) by (apply Hne; discriminate).
        apply Forall_forall. intros t Ht. apply repeat_spec in Ht. subst t. lia.
      * eapply Forall_impl; [|exact Fk]. intros t [Ht H2]. lia.
Qed.

Theorem others_depth_sorted p info groups others :
  other_consumer_insts groups p info = Ok others ->
  exists tags, Forall2 (at_depth (consumers_list p) groups) tags others /\ StronglySorted le tags /\
               Forall (fun t => (2 <= t)%nat) tags.
Proof.
  rewrite others_unfold. intros H.
  destruct (mapM (per_idx p info) (enumerate groups)) as [r|] eqn:E; cbn [bind] in H; [|discriminate].
  inversion H; subst others. unfold enumerate in E.
  destruct (suffix_sorted p info groups groups 0%nat r (fun j lv Hj => Hj) E) as (tags & F2 & Ss & Fk).
  exists tags. split; [exact F2|]. split; [exact Ss|]. eapply Forall_impl; [|exact Fk]. intros t [_ H2]. exact H2.
Qed.

Theorem consumer_side_depth_sorted p info groups vert others :
  vertical_candidates groups p info = Ok vert -> other_consumer_insts groups p info = Ok others ->
  exists tags, Forall2 (at_depth (consumers_list p) groups) tags (vert ++ others) /\ StronglySorted le tags.
Proof.
  intros Hv Ho. destruct (others_depth_sorted p info groups others Ho) as (tags & F2 & Ss & F2le).
  assert (Hvd : Forall (at_depth (consumers_list p) groups 1%nat) vert).
  { unfold vertical_candidates in Hv. destruct groups as [|g0 [|g1 rest]]; try (inversion Hv; constructor).
    apply Forall_forall. intros i Hi. destruct (mapM_In_inv _ _ _ _ Hv Hi) as (g & Hg & Hgi).
    exists g1, g. split; [reflexivity|]. split; [exact Hg|]. eapply group_inst_image. exact Hgi. }
  exists (repeat 1%nat (length vert) ++ tags). split.
  - apply Forall2_app; [apply Forall2_repeat; exact Hvd|exact F2].
  - apply sorted_repeat_app; [exact Ss|]. eapply Forall_impl; [|exact F2le]. intros t Ht. cbv beta in Ht. lia.
Qed.

(* the order property: of two consumer-side instructions, the LATER one's
   consumer list lies inside the EARLIER one's or is disjoint from it *)
Theorem later_consumer_list_inside_or_disjoint p info groups vert others l1 a l2 b l3 :
  group_consumer_transformations p = Ok groups -> inj_ops (consumers_list p) ->
  vertical_candidates groups p info = Ok vert -> other_consumer_insts groups p info = Ok others ->
  vert ++ others = l1 ++ a :: l2 ++ b :: l3 ->
  incl (i_consumers b) (i_consumers a) \/ (forall c, In c (i_consumers b) -> ~ In c (i_consumers a)).
Proof.
  intros Hg Hinj Hv Ho Hsplit.
  destruct (consumer_side_depth_sorted p info groups vert others Hv Ho) as (tags & F2 & Ss). rewrite Hsplit in F2.
  apply Forall2_app_inv_r in F2. destruct F2 as (t1 & tr & _ & F2 & ->).
  inversion F2 as [|da a' tr2 ? Ha F2']; subst.
  apply Forall2_app_inv_r in F2'. destruct F2' as (t2 & tr3 & _ & F2'' & ->).
  inversion F2'' as [|db b' tr4 ? Hb _]; subst.
  assert (Hle : (da <= db)%nat).
  { clear - Ss. induction t1 as [|x t1 IH]; cbn [app] in Ss.
    - inversion Ss as [|? ? _ Hall]; subst. rewrite Forall_forall in Hall. apply Hall. apply in_app_iff. right. left. reflexivity.
    - inversion Ss; subst. apply IH. assumption. }
  destruct Ha as (lv & g & Hd & Hin & Him). destruct Hb as (lv' & g' & Hd' & Hin' & Him').
  exact (consumer_lists_nested_or_disjoint p groups a b da db lv lv' g g' Hg Hinj Hle Hd Hd' Hin Hin' Him Him').
Qed.

(* ---- `inj_ops` decided: no operator occurs twice among the consumer entries ---- *)
Definition inj_opsb (cs : list o2t) : bool := nodupZ (map o2t_op cs).
Lemma nodupZ_NoDup l : nodupZ l = true -> NoDup l.
Proof.
  induction l as [|x l IH]; intros H; [constructor|]. cbn [nodupZ] in H. apply andb_true_iff in H. destruct H as [A B].
  constructor; [|apply IH; exact B]. intros Hin. apply memZ_In in Hin. rewrite Hin in A. discriminate.
Qed.
Lemma py_index_nth {A} (l : list A) i a : 0 <= i -> py_index l i = Ok a -> nth_error l (Z.to_nat i) = Some a.
Proof.
  unfold py_index. intros Hi. destruct (i <? 0) eqn:E; [apply Z.ltb_lt in E; lia|].
  intros H. rewrite <- nth_opt_nth_error.
  repeat match type of H with context [if ?c then _ else _] => destruct c; try discriminate end.
  destruct (nth_opt l (Z.to_nat i)); inversion H; reflexivity.
Qed.
Theorem inj_opsb_sound cs : inj_opsb cs = true -> inj_ops cs.
Proof.
  unfold inj_opsb, inj_ops. intros H i j ci cj Hi Hj Ei Ej Eop. apply nodupZ_NoDup in H.
  apply py_index_nth in Ei; [|exact Hi]. apply py_index_nth in Ej; [|exact Hj].
  assert (Hl : (Z.to_nat i < length (map o2t_op cs))%nat).
  { rewrite map_length. apply nth_error_Some. rewrite Ei. discriminate. }
  assert (E : nth_error (map o2t_op cs) (Z.to_nat i) = nth_error (map o2t_op cs) (Z.to_nat j)).
  { rewrite !nth_error_map, Ei, Ej. cbn. f_equal. exact Eop. }
  pose proof (proj1 (NoDup_nth_error _) H _ _ Hl E). lia.
Qed.
