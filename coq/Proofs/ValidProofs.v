(* Proofs/ValidProofs.v — C18: the pop-based partition files every compared
   name exactly once, under exactly one group, with its own value; metric laws
   over the reals. *)
From Coq Require Import Permutation Reals Lra Psatz.
From VF Require Import Base.Prelude Model.Valid.
Open Scope Z_scope.

(* the names a skip-duplicates loop files: first occurrences, in order *)
Fixpoint dedup (seen names : list Z) : list Z :=
  match names with
  | [] => []
  | n :: ns => if memZ n seen then dedup seen ns else n :: dedup (n :: seen) ns
  end.

Lemma memZ_In n l : memZ n l = true <-> In n l.
Proof.
  unfold memZ. rewrite existsb_exists. split.
  - intros (x & I & E). apply Z.eqb_eq in E. subst. exact I.
  - intros I. exists n. split; [exact I|apply Z.eqb_refl].
Qed.

Lemma dedup_spec names : forall seen,
  NoDup (dedup seen names) /\ (forall n, In n (dedup seen names) <-> In n names /\ ~ In n seen).
Proof.
  induction names as [|m ms IH]; intros seen; cbn.
  - split; [constructor|]. intros n. split; [intros []|intros [[] _]].
  - destruct (memZ m seen) eqn:E.
    + apply memZ_In in E. destruct (IH seen) as (ND & I). split; [exact ND|].
      intros n. rewrite I. split; [intros [A B]; auto|].
      intros [[->|A] B]; [contradiction|auto].
    + assert (Hm : ~ In m seen) by (intros C; apply memZ_In in C; congruence).
      destruct (IH (m :: seen)) as (ND & I). split.
      * constructor; [|exact ND]. intros C. apply I in C. destruct C as [_ C]. apply C. left. reflexivity.
      * intros n. cbn. rewrite I. cbn. split.
        -- intros [->|[A B]]; [auto|]. split; [auto|]. intros C. apply B. right. exact C.
        -- intros [[->|A] B]; [left; reflexivity|].
           destruct (Z.eq_dec m n) as [->|Hne]; [left; reflexivity|].
           right. split; [exact A|]. intros [C|C]; [contradiction|contradiction].
Qed.

Lemma dedup_nodup names : forall seen,
  NoDup names -> (forall n, In n names -> ~ In n seen) -> dedup seen names = names.
Proof.
  induction names as [|m ms IH]; intros seen ND H; cbn; [reflexivity|].
  inversion ND as [|? ? Hm ND']; subst.
  destruct (memZ m seen) eqn:E.
  - apply memZ_In in E. exfalso. exact (H m (or_introl eq_refl) E).
  - f_equal. apply IH; [exact ND'|]. intros n I [C|C]; [subst; contradiction|].
    exact (H n (or_intror I) C).
Qed.

Section P.
  Variable V : Type.
  Notation results := (list (Z * V)).

  Lemma pop_spec (r : results) k v r' :
    pop r k = Ok (v, r') ->
    Permutation r ((k, v) :: r') /\ In (k, v) r /\
    exists a b, r = a ++ (k, v) :: b /\ r' = a ++ b /\ ~ In k (map fst a).
  Proof.
    revert v r'. induction r as [|[k' v'] t IH]; cbn; intros v r' H; [discriminate|].
    destruct (Z.eqb_spec k k') as [->|Hne].
    - inversion H; subst. split; [apply Permutation_refl|]. split; [left; reflexivity|].
      exists [], r'. repeat split; auto.
    - destruct (pop t k) as [[v0 t0]|] eqn:E; cbn [bind] in H; [|discriminate].
      inversion H; subst. destruct (IH _ _ eq_refl) as (P & I & a & b & -> & -> & N).
      split; [rewrite P; apply perm_swap|]. split; [right; assumption|].
      exists ((k', v') :: a), b. repeat split; auto. cbn. intros [E1|E1]; [congruence|contradiction].
  Qed.

  Lemma pop_err (r : results) k e : pop r k = Err e -> e = KeyError.
  Proof.
    revert e. induction r as [|[k2 v2] t IHt]; cbn; intros e E; [inversion E; reflexivity|].
    destruct (Z.eqb k k2); [discriminate E|].
    destruct (pop t k) as [[? ?]|e2]; cbn [bind] in E; [discriminate E|]. inversion E; subst. apply IHt. reflexivity.
  Qed.

  Lemma pop_none (r : results) k : pop r k = Err KeyError <-> ~ In k (map fst r).
  Proof.
    induction r as [|[k' v'] t IH]; cbn.
    - split; [intros _ []|reflexivity].
    - destruct (Z.eqb_spec k k') as [->|Hne].
      + split; [discriminate|intros H; exfalso; apply H; left; reflexivity].
      + destruct (pop t k) as [[v0 t0]|e] eqn:E; cbn [bind].
        * split; [discriminate|]. intros H. exfalso.
          destruct (pop_spec _ _ _ _ E) as (_ & I & _). apply H. right.
          apply in_map_iff. exists (k, v0). split; [reflexivity|assumption].
        * assert (e = KeyError) by (eapply pop_err; exact E).
          subst e. split; [|reflexivity]. intros _ [E1|E1]; [congruence|]. apply IH in E1; [exact E1|reflexivity].
  Qed.

  Lemma pop_all_spec names : forall (r : results) a rest,
    pop_all r names = Ok (a, rest) ->
    Permutation r (a ++ rest) /\ map fst a = names /\
    (forall k v, In (k, v) a -> In (k, v) r).
  Proof.
    induction names as [|n ns IH]; cbn; intros r a rest H.
    - inversion H; subst. split; [apply Permutation_refl|]. split; [reflexivity|intros ? ? []].
    - destruct (pop r n) as [[v r1]|] eqn:E; cbn [bind fst snd] in H; [|discriminate].
      destruct (pop_all r1 ns) as [[a1 rest1]|] eqn:E2; cbn [bind fst snd] in H; [|discriminate].
      inversion H; subst. destruct (pop_spec _ _ _ _ E) as (P & I & _).
      destruct (IH _ _ _ E2) as (P2 & M & S).
      split; [rewrite P; cbn; apply perm_skip; exact P2|]. split; [cbn; congruence|].
      intros k v0 [E1|E1]; [inversion E1; subst; exact I|].
      apply S in E1. eapply Permutation_in; [apply Permutation_sym; exact P|right; exact E1].
  Qed.

  Lemma pop_all_skip_eq names : forall (r : results) seen,
    pop_all_skip r names seen = pop_all r (dedup seen names).
  Proof.
    induction names as [|n ns IH]; intros r seen; cbn; [reflexivity|].
    destruct (memZ n seen); [apply IH|]. cbn.
    destruct (pop r n) as [[v r1]|]; cbn [bind fst snd]; [|reflexivity].
    rewrite IH. reflexivity.
  Qed.

  (* every compared name ends up in exactly one group, with its own value:
     the four groups are a permutation of the result dict, and the first three
     list exactly the input / output / constant names *)
  Theorem partition_exact (r : results) ins outs consts g :
    partition r ins outs consts = Ok g ->
    Permutation r (g_inputs g ++ g_outputs g ++ g_constants g ++ g_intermediates g) /\
    map fst (g_inputs g) = ins /\ map fst (g_outputs g) = dedup ins outs /\
    map fst (g_constants g) = dedup (ins ++ outs) consts.
  Proof.
    unfold partition. intros H.
    destruct (pop_all r ins) as [[a r1]|] eqn:E1; cbn [bind fst snd] in H; [|discriminate].
    rewrite pop_all_skip_eq in H.
    destruct (pop_all r1 (dedup ins outs)) as [[b r2]|] eqn:E2; cbn [bind fst snd] in H; [|discriminate].
    rewrite pop_all_skip_eq in H.
    destruct (pop_all r2 (dedup (ins ++ outs) consts)) as [[c r3]|] eqn:E3; cbn [bind fst snd] in H; [|discriminate].
    inversion H; subst; clear H. cbn.
    destruct (pop_all_spec _ _ _ _ E1) as (P1 & M1 & _).
    destruct (pop_all_spec _ _ _ _ E2) as (P2 & M2 & _).
    destruct (pop_all_spec _ _ _ _ E3) as (P3 & M3 & _).
    split; [|auto].
    rewrite P1. apply Permutation_app_head. rewrite P2. apply Permutation_app_head. exact P3.
  Qed.

  Corollary partition_once (r : results) ins outs consts g :
    NoDup (map fst r) -> partition r ins outs consts = Ok g ->
    NoDup (map fst (g_inputs g ++ g_outputs g ++ g_constants g ++ g_intermediates g)) /\
    forall k v, In (k, v) r <->
      In (k, v) (g_inputs g ++ g_outputs g ++ g_constants g ++ g_intermediates g).
  Proof.
    intros Hnd H. destruct (partition_exact _ _ _ _ _ H) as (P & _).
    split.
    - eapply Permutation_NoDup; [apply Permutation_map; exact P|exact Hnd].
    - intros k v. split; intros I; [eapply Permutation_in; [exact P|exact I]|
                                    eapply Permutation_in; [apply Permutation_sym; exact P|exact I]].
  Qed.

  (* when it raises: some role name is missing from the compared names, or a
     name has two roles *)
  Theorem pop_all_total names : forall (r : results),
    NoDup names -> (forall n, In n names -> In n (map fst r)) ->
    exists a rest, pop_all r names = Ok (a, rest).
  Proof.
    induction names as [|n ns IH]; intros r Hnd Hin; cbn.
    - exists [], r. reflexivity.
    - inversion Hnd as [|? ? Hn Hnd']; subst.
      destruct (pop r n) as [[v r1]|e] eqn:E.
      2:{ exfalso. assert (e = KeyError) by (eapply pop_err; exact E).
          subst. apply pop_none in E. apply E. apply Hin. left. reflexivity. }
      cbn [bind fst snd]. destruct (pop_spec _ _ _ _ E) as (P & I & a0 & b0 & -> & -> & N).
      assert (Hin1 : forall m, In m ns -> In m (map fst (a0 ++ b0))).
      { intros m Hm. specialize (Hin m (or_intror Hm)). rewrite map_app in *. cbn in Hin.
        apply in_app_iff in Hin. apply in_app_iff. destruct Hin as [H|[H|H]]; auto.
        subst. contradiction. }
      destruct (IH (a0 ++ b0) Hnd' Hin1) as (a & rest & Ea).
      exists ((n, v) :: a), rest. rewrite Ea. reflexivity.
  Qed.

  (* ... and it raises KeyError as soon as a role name is not among the
     compared names *)
  Theorem pop_all_missing names : forall (r : results) n,
    In n names -> ~ In n (map fst r) -> exists e, pop_all r names = Err e.
  Proof.
    induction names as [|m ms IH]; intros r n Hin Hn; [destruct Hin|]. cbn.
    destruct (pop r m) as [[v r1]|e] eqn:E; [|exists e; reflexivity]. cbn [bind fst snd].
    destruct Hin as [->|Hin].
    - exfalso. destruct (pop_spec _ _ _ _ E) as (_ & I & _). apply Hn.
      apply in_map_iff. exists (n, v). auto.
    - assert (Hn1 : ~ In n (map fst r1)).
      { intros C. apply Hn. destruct (pop_spec _ _ _ _ E) as (P & _).
        eapply Permutation_in; [apply Permutation_sym, Permutation_map; exact P|]. right. exact C. }
      destruct (IH r1 n Hin Hn1) as [e Ee]. rewrite Ee. exists e. reflexivity.
  Qed.
End P.

(* ---- metric laws (ideal arithmetic) ---- *)
Open Scope R_scope.
Fixpoint sumsq (a b : list R) : R :=
  match a, b with
  | x :: a', y :: b' => (x - y) * (x - y) + sumsq a' b'
  | _, _ => 0
  end.
Definition mse (a b : list R) : R :=
  match a with [] => 0 | _ => sumsq a b / INR (length a) end.

Lemma sumsq_nonneg a : forall b, 0 <= sumsq a b.
Proof.
  induction a as [|x a IH]; intros [|y b]; cbn; try lra. specialize (IH b).
  pose proof (Rle_0_sqr (x - y)) as S. unfold Rsqr in S. lra.
Qed.
Lemma sumsq_sym a : forall b, sumsq a b = sumsq b a.
Proof. induction a as [|x a IH]; intros [|y b]; cbn; try reflexivity. rewrite IH. ring. Qed.
Lemma sumsq_refl a : sumsq a a = 0.
Proof. induction a as [|x a IH]; cbn; [reflexivity|]. rewrite IH. ring. Qed.

Theorem mse_nonneg a b : 0 <= mse a b.
Proof.
  unfold mse. destruct a as [|x a]; [lra|].
  apply Rmult_le_pos; [apply sumsq_nonneg|]. apply Rlt_le, Rinv_0_lt_compat, lt_0_INR. cbn. lia.
Qed.
Theorem mse_refl a : mse a a = 0.
Proof. unfold mse. destruct a; [reflexivity|]. rewrite sumsq_refl. unfold Rdiv. ring. Qed.
Theorem mse_sym a b : length a = length b -> mse a b = mse b a.
Proof.
  intros L. unfold mse. destruct a as [|x a], b as [|y b]; try discriminate; [reflexivity|].
  rewrite sumsq_sym, L. reflexivity.
Qed.

(* one term of the median-diff-ratio: |x - y| / (|y| + tol) *)
Definition ratio (tol x y : R) : R := Rabs (x - y) / (Rabs y + tol).
Theorem ratio_nonneg tol x y : 0 < tol -> 0 <= ratio tol x y.
Proof.
  intros Ht. unfold ratio. apply Rmult_le_pos; [apply Rabs_pos|].
  apply Rlt_le, Rinv_0_lt_compat. pose proof (Rabs_pos y). lra.
Qed.
Theorem ratio_refl tol x : 0 < tol -> ratio tol x x = 0.
Proof.
  intros Ht. unfold ratio. replace (x - x) with 0 by ring. rewrite Rabs_R0. unfold Rdiv. ring.
Qed.
(* the ratio divides by its SECOND argument: it is not symmetric *)
Example ratio_not_symmetric : ratio 1 0 1 <> ratio 1 1 0.
Proof.
  unfold ratio. replace (0 - 1) with (-(1)) by ring. replace (1 - 0) with 1 by ring.
  rewrite Rabs_Ropp, Rabs_R1, Rabs_R0. lra.
Qed.
