(* Proofs/InstsSane.v — every instruction produced by the instruction
   generator model refers to an existing tensor of its own subgraph and names,
   as producer, exactly the op that writes that tensor (or none): the
   hypothesis of the performer's composition theorem (Proofs/PerformInv.v). *)
From VF Require Import Base.Prelude Gen.Enums Model.Graph Gen.InstChecks Model.Insts Model.Perform
     Spec.WF Proofs.ListFacts Proofs.PerformStep Proofs.ModeProofs Proofs.LocalProofs Proofs.PerformInv.

Definition from_info (info : tinfo) (i : inst) : Prop :=
  i_tensor i = gi_tensor info /\ i_producer i = gi_producer info.

Lemma mapM_Forall_gen {A B} (f : A -> res B) (P : B -> Prop) :
  (forall a b, f a = Ok b -> P b) -> forall l r, mapM f l = Ok r -> Forall P r.
Proof.
  intros Hf. induction l as [|a l IH]; cbn; intros r H; [inversion H; constructor|].
  destruct (f a) as [b|] eqn:E; cbn [bind] in H; [|discriminate].
  destruct (mapM f l) as [bs|] eqn:E2; cbn [bind] in H; [|discriminate].
  inversion H; subst. constructor; eauto.
Qed.

Lemma group_inst_from cs info g pos i : group_inst cs info g pos = Ok i -> from_info info i.
Proof.
  unfold group_inst. destruct g as [|g0 g]; [discriminate|].
  destruct (py_index cs g0) as [c0|]; cbn [bind]; [|discriminate].
  destruct (py_index (o2t_trans c0) pos) as [tr|]; cbn [bind]; [|discriminate].
  destruct (mapM _ (g0 :: g)) as [ops|]; cbn [bind]; [|discriminate].
  intros H; inversion H; subst. split; reflexivity.
Qed.

Lemma vertical_candidates_from groups p info l :
  vertical_candidates groups p info = Ok l -> Forall (from_info info) l.
Proof.
  unfold vertical_candidates. destruct groups as [|g0 [|g1 rest]]; try (intros H; inversion H; constructor).
  apply mapM_Forall_gen. intros a b. apply group_inst_from.
Qed.

Lemma Forall_concat {A} (P : A -> Prop) (ll : list (list A)) : Forall (Forall P) ll -> Forall P (concat ll).
Proof. induction 1; cbn; [constructor|apply Forall_app; split; assumption]. Qed.

Lemma other_consumer_insts_from groups p info l :
  other_consumer_insts groups p info = Ok l -> Forall (from_info info) l.
Proof.
  unfold other_consumer_insts.
  match goal with |- (r <- ?m ;; _) = _ -> _ => destruct m as [r|] eqn:E end; cbn [bind]; [|discriminate].
  intros H; inversion H; subst. apply Forall_concat.
  eapply mapM_Forall_gen; [|exact E]. intros [idx gs] b Hb. cbn beta iota in Hb.
  destruct (idx <? 2); [inversion Hb; constructor|].
  match type of Hb with (r <- ?m ;; _) = _ => destruct m as [r2|] eqn:E2 end; cbn [bind] in Hb; [|discriminate].
  inversion Hb; subst. apply Forall_concat.
  eapply mapM_Forall_gen; [|exact E2]. intros g b Hg. cbn beta in Hg.
  destruct g as [|g0 g]; [discriminate|].
  destruct (py_index (consumers_list p) g0) as [c0|]; cbn [bind] in Hg; [|discriminate].
  destruct (Z.of_nat (length (o2t_trans c0)) <=? idx - 1); [inversion Hg; constructor|].
  destruct (group_inst (consumers_list p) info (g0 :: g) (idx - 1)) as [i|] eqn:Ei; cbn [bind] in Hg; [|discriminate].
  inversion Hg; subst. constructor; [eapply group_inst_from; exact Ei|constructor].
Qed.

Lemma mk_like_from info r t ps : from_info info r -> from_info info (mk_like r t ps).
Proof. intros [A B]. split; assumption. Qed.
Lemma with_consumers_from info r cs : from_info info r -> from_info info (with_consumers r cs).
Proof. intros [A B]. split; assumption. Qed.

Lemma apply_vertical_from info prod rules l :
  from_info info prod -> Forall (from_info info) rules ->
  apply_vertical prod rules = Ok l -> Forall (from_info info) l.
Proof.
  intros Hp Hr. unfold apply_vertical.
  assert (G : forall rules st st', Forall (from_info info) rules -> Forall (from_info info) (snd st) ->
            foldM (fun st rule =>
              let '(pcs, acc) := st in
              let prod' := with_consumers prod pcs in
              e1 <- check_dq_q_elimination prod' rule ;;
              if e1 then Ok (remove_if_present pcs (i_consumers rule),
                             acc ++ [mk_like rule Tr_QUANTIZE_TENSOR (i_params rule)])
              else e2 <- check_replace_dq_q_with_rq prod' rule ;;
                   if e2 then Ok (remove_if_present pcs (i_consumers rule),
                                  acc ++ [mk_like rule Tr_QUANTIZE_TENSOR (i_params prod);
                                          mk_like rule Tr_ADD_QUANTIZE (i_params rule)])
                   else e3 <- check_dq_no_quant_elimination prod' rule ;;
                        if e3 then Ok (remove_if_present pcs (i_consumers rule),
                                       acc ++ [mk_like rule Tr_ADD_DEQUANTIZE (i_params prod)])
                        else Ok (pcs, acc ++ [rule])) rules st = Ok st' ->
            Forall (from_info info) (snd st')).
  { induction rules0 as [|rule rs IH]; intros [pcs acc] st' Hrs Hacc H; cbn [foldM] in H.
    - inversion H; subst. exact Hacc.
    - inversion Hrs as [|? ? Hrule Hrs']; subst. cbn [snd] in Hacc.
      destruct (check_dq_q_elimination (with_consumers prod pcs) rule) as [e1|]; cbn [bind] in H; [|discriminate].
      destruct e1.
      + cbn [bind] in H. eapply IH; [exact Hrs'| |exact H]. cbn [snd]. apply Forall_app. split; [exact Hacc|].
        constructor; [apply mk_like_from; exact Hrule|constructor].
      + destruct (check_replace_dq_q_with_rq (with_consumers prod pcs) rule) as [e2|]; cbn [bind] in H; [|discriminate].
        destruct e2.
        * cbn [bind] in H. eapply IH; [exact Hrs'| |exact H]. cbn [snd]. apply Forall_app. split; [exact Hacc|].
          constructor; [apply mk_like_from; exact Hrule|]. constructor; [apply mk_like_from; exact Hrule|constructor].
        * destruct (check_dq_no_quant_elimination (with_consumers prod pcs) rule) as [e3|]; cbn [bind] in H; [|discriminate].
          destruct e3; cbn [bind] in H; (eapply IH; [exact Hrs'| |exact H]); cbn [snd]; apply Forall_app;
            (split; [exact Hacc|]); (constructor; [|constructor]); [apply mk_like_from|]; exact Hrule. }
  match goal with |- (r <- ?m ;; _) = _ -> _ => destruct m as [[pcs acc]|] eqn:E end; cbn [bind]; [|discriminate].
  intros H; inversion H; subst.
  assert (G0 : Forall (from_info info) (snd (i_consumers prod, @nil inst))) by constructor.
  specialize (G _ _ _ Hr G0 E). cbn [snd] in G.
  destruct pcs; [exact G|constructor; [apply with_consumers_from; exact Hp|exact G]].
Qed.

Lemma but_last_incl {A} (l : list A) : forall x, In x (but_last l) -> In x l.
Proof.
  induction l as [|a l IH]; cbn; [intros ? []|]. destruct l as [|b l]; [intros ? []|].
  intros x [->|H]; [left; reflexivity|right; apply IH; exact H].
Qed.

Lemma last_in {A} (l : list A) a : last (map Some l) None = Some a -> In a l.
Proof.
  induction l as [|x l IH]; cbn; [discriminate|]. destruct l as [|y l]; cbn in *.
  - intros H; inversion H; left; reflexivity.
  - intros H. right. apply IH. exact H.
Qed.

Theorem quant_params_to_insts_from im p ti :
  quant_params_to_insts im p = Ok ti ->
  exists info, lookup_info im (ttp_name p) = Ok info /\ ti_sg ti = gi_sg info /\
               Forall (from_info info) (ti_insts ti).
Proof.
  unfold quant_params_to_insts.
  destruct (lookup_info im (ttp_name p)) as [info|] eqn:El; cbn [bind]; [|discriminate].
  destruct (group_consumer_transformations p) as [groups|]; cbn [bind]; [|discriminate].
  destruct (vertical_candidates groups p info) as [vert|] eqn:Ev; cbn [bind]; [|discriminate].
  destruct (other_consumer_insts groups p info) as [others|] eqn:Eo; cbn [bind]; [|discriminate].
  set (prods := match ttp_producer p with None => [] | Some pp => _ end).
  assert (Hprods : Forall (from_info info) prods).
  { unfold prods. destruct (ttp_producer p) as [pp|]; [|constructor].
    apply Forall_forall. intros i Hi. apply in_map_iff in Hi. destruct Hi as (t & <- & _). split; reflexivity. }
  pose proof (vertical_candidates_from _ _ _ _ Ev) as Hvert.
  pose proof (other_consumer_insts_from _ _ _ _ Eo) as Hoth.
  match goal with |- (body <- ?m ;; _) = _ -> _ => destruct m as [body|] eqn:Eb end; cbn [bind]; [|discriminate].
  assert (Hbody : Forall (from_info info) body).
  { destruct (last (map Some prods) None) as [lastp|] eqn:Elast.
    - destruct (apply_vertical lastp vert) as [v|] eqn:Eav; cbn [bind] in Eb; [|discriminate].
      inversion Eb; subst. apply Forall_app. split.
      + apply Forall_forall. intros x Hx. apply but_last_incl in Hx. rewrite Forall_forall in Hprods. auto.
      + eapply apply_vertical_from; [|exact Hvert|exact Eav].
        rewrite Forall_forall in Hprods. apply Hprods. apply last_in. exact Elast.
    - inversion Eb; subst. apply Forall_app. split; assumption. }
  destruct (insts_valid (body ++ others)); cbn [bind]; [|discriminate].
  intros H; inversion H; subst. cbn [ti_sg ti_insts]. exists info. repeat split.
  apply Forall_app. split; assumption.
Qed.

(* entries of the info map describe real tensors of real subgraphs *)
Lemma in_enumerate_from_inv {A} (l : list A) : forall i0 k a,
  In (k, a) (enumerate_from i0 l) -> i0 <= k /\ nth_opt l (Z.to_nat (k - i0)) = Some a.
Proof.
  induction l as [|x l IH]; intros i0 k a H; [destruct H|]. cbn in H. destruct H as [E|H].
  - inversion E; subst. split; [lia|]. rewrite Z.sub_diag. reflexivity.
  - destruct (IH _ _ _ H) as [H1 H2]. split; [lia|].
    replace (Z.to_nat (k - i0)) with (S (Z.to_nat (k - (i0 + 1)))) by lia. exact H2.
Qed.

Lemma lookup_info_in im k info : lookup_info im k = Ok info -> exists key, In (key, info) im.
Proof.
  unfold lookup_info. destruct (find _ (rev im)) as [e|] eqn:E; [|discriminate].
  intros H; inversion H; subst. apply find_some in E. destruct E as [E _]. apply in_rev in E.
  exists (fst e). destruct e; exact E.
Qed.

Lemma info_map_entry m key info :
  In (key, info) (info_map m) ->
  exists sg g tid t, nth_opt (m_subgraphs m) sg = Some g /\ nth_opt (sg_tensors g) tid = Some t /\
    info = tensor_info (Z.of_nat sg) g (Z.of_nat tid).
Proof.
  unfold info_map. intros H. apply in_flat_map in H. destruct H as ([sgid g] & Hsg & H).
  apply in_map_iff in H. destruct H as ([tid t] & E & Ht). inversion E; subst.
  unfold enumerate in *. destruct (in_enumerate_from_inv _ _ _ _ Hsg) as [S1 S2].
  destruct (in_enumerate_from_inv _ _ _ _ Ht) as [T1 T2]. rewrite Z.sub_0_r in *.
  exists (Z.to_nat sgid), g, (Z.to_nat tid), t. rewrite !Z2Nat.id by lia. auto.
Qed.

Lemma producer_of_exact g t :
  let p := producer_of g t in
  p < lenZ (sg_ops g) /\ prod_exact g t (if p <? 0 then -1 else p).
Proof.
  unfold producer_of. destruct (find _ (enumerate (sg_ops g))) as [[k o]|] eqn:E.
  - apply find_some in E. destruct E as [Hin Hw]. unfold enumerate in Hin.
    destruct (in_enumerate_from_inv _ _ _ _ Hin) as [K1 K2]. rewrite Z.sub_0_r in K2. cbn [fst snd] in *.
    pose proof (nth_opt_Some_lt _ _ _ K2). split; [unfold lenZ; lia|].
    destruct (Z.ltb_spec k 0); [lia|]. right. split; [exact K1|]. exists o. split; [exact K2|].
    unfold op_writes in Hw. apply memZ_In in Hw. exact Hw.
  - split; [unfold lenZ; lia|]. cbn. left. split; [reflexivity|]. intros k o Hk Hw.
    assert (Hin : In (Z.of_nat k, o) (enumerate (sg_ops g))).
    { unfold enumerate. replace (Z.of_nat k) with (0 + Z.of_nat k) by lia. apply in_enumerate_from. exact Hk. }
    pose proof (find_none _ _ E _ Hin) as Hn. cbn in Hn. unfold op_writes in Hn.
    assert (memZ t (o_outs o) = true) by (apply memZ_In; exact Hw). congruence.
Qed.

Theorem insts_of_params_sane m ps tis :
  insts_of_params m ps = Ok tis ->
  forall ti i, In ti tis -> In i (ti_insts ti) -> sane m (ti_sg ti) i.
Proof.
  unfold insts_of_params. intros H ti i Hti Hi.
  assert (Hall : Forall (fun ti => exists p, quant_params_to_insts (info_map m) p = Ok ti) tis).
  { eapply mapM_Forall_gen; [|exact H]. intros a b Hb. exists a. exact Hb. }
  rewrite Forall_forall in Hall. destruct (Hall _ Hti) as (p & Hp).
  destruct (quant_params_to_insts_from _ _ _ Hp) as (info & Hl & Hsg & Hf).
  rewrite Forall_forall in Hf. destruct (Hf _ Hi) as [Et Epr].
  destruct (lookup_info_in _ _ _ Hl) as (key & Hin).
  destruct (info_map_entry _ _ _ Hin) as (sg & g & tid & t & Hg & Htid & ->).
  cbn [tensor_info gi_tensor gi_sg gi_producer] in *. rewrite Hsg. split; [lia|].
  rewrite Nat2Z.id. intros g' Hg'. rewrite Hg in Hg'. inversion Hg'; subst g'.
  rewrite Et, Epr. pose proof (nth_opt_Some_lt _ _ _ Htid). split; [unfold ntens, lenZ; lia|].
  apply producer_of_exact.
Qed.
