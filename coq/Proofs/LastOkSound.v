(* Proofs/LastOkSound.v — soundness of the executable hypothesis check
   Spec/LastOk.last_hypb, and the whole-run C03 theorem on the last
   instruction of a nested list restated with (a) the generator in front
   (sanity of the instructions is then a theorem, InstsSane) and (b) every
   remaining hypothesis decided by [last_hypb]. *)
From VF Require Import Base.Prelude Gen.Enums Model.Graph Model.Insts Model.Perform Spec.WF
     Proofs.ListFacts Proofs.PerformInv Proofs.SkeletonInv Proofs.UntouchedProofs
     Proofs.ReadersProofs Proofs.ReadersOrig Proofs.InstsSane Proofs.AloneProofs Spec.LastOk.

Lemma insertb_spec i : insertb i = true <-> (i_trans i = Tr_ADD_QUANTIZE \/ i_trans i = Tr_ADD_DEQUANTIZE).
Proof.
  unfold insertb. rewrite orb_true_iff. split.
  - intros [H|H]; [left|right].
    + destruct (qtrans_eqb_spec (i_trans i) Tr_ADD_QUANTIZE) as [E|]; [exact E|discriminate].
    + destruct (qtrans_eqb_spec (i_trans i) Tr_ADD_DEQUANTIZE) as [E|]; [exact E|discriminate].
  - intros [-> | ->]; [left|right]; reflexivity.
Qed.

Lemma disj_fromb_spec C s : disj_fromb C s = true <-> disj_from C s.
Proof.
  unfold disj_fromb, disj_from. rewrite forallb_forall. split; intros H c Hc; specialize (H c Hc).
  - apply negb_true_iff in H. exact H.
  - rewrite H. reflexivity.
Qed.

Lemma sub_ofb_spec C s : sub_ofb C s = true <-> sub_of C s.
Proof.
  unfold sub_ofb, sub_of. destruct C as [|c0 C'].
  - split; [discriminate|]. intros [H _]. contradiction.
  - rewrite forallb_forall. split.
    + intros H. split; [discriminate|exact H].
    + intros [_ H]. exact H.
Qed.

Lemma ge_m1_spec l : forallb (fun c => -1 <=? c) l = true -> Forall (fun c => -1 <= c) l.
Proof.
  intros H. apply Forall_forall. rewrite forallb_forall in H. intros c Hc. specialize (H c Hc). apply Z.leb_le. exact H.
Qed.

Lemma step_ok2b_sound C s : step_ok2b C s = true -> step_ok2 C s.
Proof.
  unfold step_ok2b, step_ok2. intros H.
  apply andb_true_iff in H. destruct H as [H K]. apply andb_true_iff in H. destruct H as [A B].
  split; [apply Z.leb_le; exact A|]. split; [apply ge_m1_spec; exact B|].
  apply orb_true_iff in K. destruct K as [K|K].
  - left. destruct (qtrans_eqb_spec (i_trans s) Tr_QUANTIZE_TENSOR) as [E|]; [exact E|discriminate].
  - right. apply andb_true_iff in K. destruct K as [K1 K2]. split; [apply insertb_spec; exact K1|].
    apply orb_true_iff in K2. destruct K2 as [K2|K2]; [left; apply disj_fromb_spec|right; apply sub_ofb_spec]; exact K2.
Qed.

Lemma ok_listb_sound C : forall l, ok_listb C l = true -> ok_list C l.
Proof.
  induction l as [|s r IH]; intros H; [exact I|]. cbn [ok_listb] in H. cbn [ok_list].
  apply andb_true_iff in H. destruct H as [H Hr]. apply andb_true_iff in H. destruct H as [Hs Hm].
  split; [apply step_ok2b_sound; exact Hs|]. split; [|apply IH; exact Hr].
  intros Hd s2 Hs2 Hsub c Hc.
  apply orb_true_iff in Hm. destruct Hm as [Hm|Hm].
  - apply negb_true_iff in Hm. apply disj_fromb_spec in Hd. congruence.
  - rewrite forallb_forall in Hm. specialize (Hm _ Hs2). apply orb_true_iff in Hm. destruct Hm as [Hm|Hm].
    + apply negb_true_iff in Hm. apply sub_ofb_spec in Hsub. congruence.
    + rewrite forallb_forall in Hm. specialize (Hm _ Hc). apply negb_true_iff in Hm. exact Hm.
Qed.

Lemma quietb_sound t i : quietb t i = true -> quiet t i.
Proof.
  unfold quietb, quiet. intros H Hins. apply orb_true_iff in H. destruct H as [H|H].
  - rewrite Hins in H. discriminate.
  - apply negb_true_iff in H. apply Z.eqb_neq. exact H.
Qed.

Lemma never_namesb_sound k t tis : never_namesb k t tis = true -> never_names k t tis.
Proof.
  unfold never_namesb, never_names. intros H ti i Hti Hsg Hi. rewrite forallb_forall in H. specialize (H _ Hti).
  apply orb_true_iff in H. destruct H as [H|H].
  - apply negb_true_iff in H. apply Z.eqb_neq in H. contradiction.
  - rewrite forallb_forall in H. apply quietb_sound. apply H. exact Hi.
Qed.

Lemma ids_okb_sound tis : ids_okb tis = true -> ids_ok tis.
Proof.
  unfold ids_okb, ids_ok. intros H. apply Forall_forall. intros ti Hti. rewrite forallb_forall in H. specialize (H _ Hti).
  apply andb_true_iff in H. destruct H as [A B]. split; [apply Z.leb_le; exact A|].
  apply Forall_forall. intros i Hi. rewrite forallb_forall in B. apply Z.leb_le. apply B. exact Hi.
Qed.

Lemma split_at_app {A} : forall n (l : list A) pre x post,
  split_at n l = Some (pre, x, post) -> l = pre ++ x :: post.
Proof.
  induction n as [|n IH]; intros l pre x post H; destruct l as [|y r]; cbn [split_at] in H; try discriminate.
  - inversion H; subst. reflexivity.
  - destruct (split_at n r) as [[[p y'] q]|] eqn:E; [|discriminate]. inversion H; subst.
    cbn [app]. f_equal. apply IH. exact E.
Qed.

Lemma split_last_app {A} : forall (l : list A) s x, split_last l = Some (s, x) -> l = s ++ [x].
Proof.
  induction l as [|y r IH]; intros s x H; [discriminate|]. cbn [split_last] in H.
  destruct r as [|z r'].
  - inversion H; subst. reflexivity.
  - destruct (split_last (z :: r')) as [[s' y']|] eqn:E; [|discriminate]. inversion H; subst.
    cbn [app]. f_equal. apply IH. reflexivity.
Qed.

(* the theorem with its hypotheses decided; sanity of the instructions as a hypothesis *)
Theorem last_checked_gen m0 tis n m' :
  Forall wf_sg (m_subgraphs m0) -> uids_ok m0 ->
  (forall ti i, In ti tis -> In i (ti_insts ti) -> sane m0 (ti_sg ti) i) ->
  last_hypb m0 tis n = true ->
  transform_graph m0 tis = Ok m' ->
  exists pre ti0 post steps i0 k g0,
    tis = pre ++ ti0 :: post /\ length pre = n /\ ti_insts ti0 = steps ++ [i0] /\
    ti_sg ti0 = Z.of_nat k /\ nth_opt (m_subgraphs m0) k = Some g0 /\
    exists x' g', nth_opt (m_subgraphs m') k = Some g' /\ ntens g0 <= x' /\
                  readers_profile x' g' = moved_profile (i_tensor i0) (i_consumers i0) g0.
Proof.
  intros Hwf Hu Hsane Hb Hrun. unfold last_hypb in Hb.
  destruct (split_at n tis) as [[[pre ti0] post]|] eqn:Esp; [|discriminate].
  destruct (split_last (ti_insts ti0)) as [[steps i0]|] eqn:Esl; [|discriminate].
  pose proof (split_at_app _ _ _ _ _ Esp) as Etis. pose proof (split_last_app _ _ _ Esl) as Eins.
  repeat (apply andb_true_iff in Hb; let X := fresh "B" in destruct Hb as [Hb X]).
  destruct (nth_opt (m_subgraphs m0) (Z.to_nat (ti_sg ti0))) as [g0|] eqn:Eg0; [|discriminate].
  apply Z.leb_le in B5.
  assert (Hsg : ti_sg ti0 = Z.of_nat (Z.to_nat (ti_sg ti0))) by lia.
  exists pre, ti0, post, steps, i0, (Z.to_nat (ti_sg ti0)), g0.
  split; [exact Etis|]. split.
  { clear -Esp. revert tis pre ti0 post Esp. induction n as [|n IH]; intros l pre x post H; destruct l as [|y r]; cbn [split_at] in H; try discriminate.
    - inversion H; subst. reflexivity.
    - destruct (split_at n r) as [[[p y'] q]|] eqn:E; [|discriminate]. inversion H; subst. cbn [length]. f_equal. eapply IH. exact E. }
  split; [exact Eins|]. split; [exact Hsg|]. split; [exact Eg0|].
  subst tis.
  apply (last_instruction_readers m0 pre ti0 post m' (Z.to_nat (ti_sg ti0)) g0 steps i0 Hwf Hu).
  - exact Hsane.
  - apply ids_okb_sound. exact Hb.
  - exact Eg0.
  - exact Hsg.
  - exact Eins.
  - apply ok_listb_sound. exact B3.
  - intros s Hs. rewrite forallb_forall in B2. apply Z.eqb_eq. apply B2. exact Hs.
  - apply insertb_spec. exact B1.
  - apply ge_m1_spec. exact B0.
  - apply never_namesb_sound. exact B.
  - exact Hrun.
Qed.

Theorem last_instruction_readers_checked m0 ps tis n m' :
  Forall wf_sg (m_subgraphs m0) -> uids_ok m0 ->
  insts_of_params m0 ps = Ok tis ->
  last_hypb m0 tis n = true ->
  transform_graph m0 tis = Ok m' ->
  exists pre ti0 post steps i0 k g0,
    tis = pre ++ ti0 :: post /\ length pre = n /\ ti_insts ti0 = steps ++ [i0] /\
    ti_sg ti0 = Z.of_nat k /\ nth_opt (m_subgraphs m0) k = Some g0 /\
    exists x' g', nth_opt (m_subgraphs m') k = Some g' /\ ntens g0 <= x' /\
                  readers_profile x' g' = moved_profile (i_tensor i0) (i_consumers i0) g0.
Proof.
  intros Hwf Hu Hgen. apply last_checked_gen; [exact Hwf|exact Hu|]. exact (insts_of_params_sane m0 ps _ Hgen).
Qed.

(* ---- instructions the performer skips (NO_QUANTIZE) can be dropped ---- *)
Lemma actsb_update later prev np ot :
  filter actsb (update_instructions later prev np ot) = update_instructions (filter actsb later) prev np ot.
Proof.
  unfold update_instructions. induction later as [|j r IH]; [reflexivity|]. cbn [map filter].
  assert (E : actsb (if existsb (fun c => memZ c (i_consumers prev)) (i_consumers j)
                     then {| i_trans := i_trans j; i_tensor := ot; i_producer := np; i_consumers := i_consumers j; i_params := i_params j |}
                     else j) = actsb j) by (destruct (existsb _ _); reflexivity).
  rewrite E. destruct (actsb j); cbn [map]; rewrite IH; reflexivity.
Qed.

Lemma apply_single_filter st sg i l :
  apply_single st sg i (filter actsb l) = (r <- apply_single st sg i l ;; Ok (fst r, filter actsb (snd r))).
Proof.
  rewrite !apply_single_unfold.
  destruct (py_index (ps_orig st) sg); cbn [bind]; [|reflexivity].
  destruct (py_index (ps_added st) sg); cbn [bind]; [|reflexivity].
  destruct (py_index (m_subgraphs (ps_model st)) sg); cbn [bind]; [|reflexivity].
  destruct (resolve _ _ _); cbn [bind]; [|reflexivity].
  destruct (mapM _ _); cbn [bind]; [|reflexivity].
  destruct (trans_of _ _ _ _ _ _) as [[[[c b] g'] info]|]; cbn [bind]; [|reflexivity].
  destruct (to_added info =? 0); cbn [bind fst snd]; [reflexivity|]. rewrite actsb_update. reflexivity.
Qed.

Lemma apply_single_length st sg i l st' l' : apply_single st sg i l = Ok (st', l') -> length l' = length l.
Proof.
  rewrite apply_single_unfold.
  destruct (py_index (ps_orig st) sg); cbn [bind]; [|discriminate].
  destruct (py_index (ps_added st) sg); cbn [bind]; [|discriminate].
  destruct (py_index (m_subgraphs (ps_model st)) sg); cbn [bind]; [|discriminate].
  destruct (resolve _ _ _); cbn [bind]; [|discriminate].
  destruct (mapM _ _); cbn [bind]; [|discriminate].
  destruct (trans_of _ _ _ _ _ _) as [[[[c b] g'] info]|]; cbn [bind]; [|discriminate].
  destruct (to_added info =? 0); intros H; inversion H; subst; [reflexivity|]. unfold update_instructions. apply map_length.
Qed.

Lemma apply_insts_strip sg : forall fuel is st, (length is <= fuel)%nat ->
  apply_insts st sg is fuel = apply_insts st sg (filter actsb is) (length (filter actsb is)).
Proof.
  induction fuel as [|f IH]; intros is st Hlen.
  - destruct is as [|i later]; [reflexivity|cbn [length] in Hlen; lia].
  - destruct is as [|i later]; [reflexivity|]. cbn [length] in Hlen. cbn [apply_insts filter].
    destruct (is_insertion (i_trans i)) eqn:Ei.
    + assert (Ea : actsb i = true) by (unfold actsb; rewrite Ei; reflexivity). rewrite Ea.
      cbn [length apply_insts]. rewrite Ei. rewrite apply_single_filter.
      destruct (apply_single st sg i later) as [[st1 l1]|] eqn:ES; cbn [bind fst snd]; [|reflexivity].
      pose proof (apply_single_length _ _ _ _ _ _ ES) as Hl.
      rewrite (IH l1 st1 ltac:(lia)).
      assert (Hf : length (filter actsb l1) = length (filter actsb later)).
      { pose proof (apply_single_filter st sg i later) as X. rewrite ES in X. cbn [bind fst snd] in X.
        eapply apply_single_length. exact X. }
      rewrite Hf. reflexivity.
    + destruct (qtrans_eqb (i_trans i) Tr_EMULATED_SUBCHANNEL) eqn:Ee.
      * assert (Ea : actsb i = true) by (unfold actsb; rewrite Ei, Ee; reflexivity). rewrite Ea.
        cbn [length apply_insts]. rewrite Ei, Ee. reflexivity.
      * assert (Ea : actsb i = false) by (unfold actsb; rewrite Ei, Ee; reflexivity). rewrite Ea.
        apply IH. lia.
Qed.

Lemma apply_insts_strip_ti st ti :
  apply_insts st (ti_sg (strip ti)) (ti_insts (strip ti)) (length (ti_insts (strip ti)))
  = apply_insts st (ti_sg ti) (ti_insts ti) (length (ti_insts ti)).
Proof. unfold strip. cbn [ti_sg ti_insts]. symmetry. apply apply_insts_strip. apply le_n. Qed.

Lemma transform_graph_strip m tis : transform_graph m (map strip tis) = transform_graph m tis.
Proof.
  unfold transform_graph. f_equal. generalize (init_pstate m) as st. induction tis as [|ti r IH]; intros st; [reflexivity|].
  cbn [map foldM]. rewrite apply_insts_strip_ti.
  destruct (apply_insts st (ti_sg ti) (ti_insts ti) (length (ti_insts ti))); cbn [bind]; [apply IH|reflexivity].
Qed.

(* lists that hold NO_QUANTIZE instructions (a float reader beside quantized
   readers): the hypotheses are decided on the list with those dropped *)
Theorem last_instruction_readers_checked_skipping m0 ps tis n m' :
  Forall wf_sg (m_subgraphs m0) -> uids_ok m0 ->
  insts_of_params m0 ps = Ok tis ->
  last_hypb m0 (map strip tis) n = true ->
  transform_graph m0 tis = Ok m' ->
  exists pre ti0 post steps i0 k g0,
    map strip tis = pre ++ ti0 :: post /\ length pre = n /\ ti_insts ti0 = steps ++ [i0] /\
    ti_sg ti0 = Z.of_nat k /\ nth_opt (m_subgraphs m0) k = Some g0 /\
    exists x' g', nth_opt (m_subgraphs m') k = Some g' /\ ntens g0 <= x' /\
                  readers_profile x' g' = moved_profile (i_tensor i0) (i_consumers i0) g0.
Proof.
  intros Hwf Hu Hgen Hb Hrun. apply last_checked_gen; [exact Hwf|exact Hu| |exact Hb|rewrite transform_graph_strip; exact Hrun].
  intros ti' i Hti Hi. apply in_map_iff in Hti. destruct Hti as (ti & <- & Hti).
  unfold strip in Hi |- *. cbn [ti_sg ti_insts] in *. apply filter_In in Hi. destruct Hi as [Hi _].
  exact (insts_of_params_sane m0 ps _ Hgen ti i Hti Hi).
Qed.
