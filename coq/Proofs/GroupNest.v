(* Proofs/GroupNest.v — horizontal grouping produces NESTS: at every depth the
   groups of consumer indices are pairwise disjoint and without repetition, and
   every group of depth d+1 lies inside one group of depth d.  (This is the shape
   of consumer lists that Proofs/ReadersOrig.v assumes of an instruction list:
   any two instructions of a tensor list consumers that are nested or disjoint.) *)
From Coq Require Import Permutation.
From VF Require Import Base.Prelude Gen.Enums Model.Graph Gen.InstChecks Model.Insts
     Proofs.ListFacts Proofs.LocalProofs Proofs.InstsSane Proofs.InstsCover.

Definition flat (l : list (list Z)) : list Z := concat l.

(* inclusion of every new group in one current group *)
Definition nested_in (groups next : list (list Z)) : Prop :=
  forall ng, In ng next -> exists cur, In cur groups /\ incl ng cur.

Lemma unique_group (L : list (list Z)) : NoDup (flat L) ->
  forall a b x, In a L -> In b L -> In x a -> In x b -> a = b.
Proof.
  unfold flat. induction L as [|g L IH]; intros Hnd a b x Ha Hb Hxa Hxb; [destruct Ha|].
  cbn [concat] in Hnd.
  assert (Hsep : forall y, In y g -> ~ In y (concat L)).
  { intros y Hy Hc. revert Hnd. clear - Hy Hc. induction g as [|z g IHg]; [destruct Hy|].
    cbn. intros Hnd. inversion Hnd as [|? ? Hn Hnd']; subst. destruct Hy as [->|Hy].
    - apply Hn. apply in_app_iff. right. exact Hc.
    - apply IHg; assumption. }
  assert (HndL : NoDup (concat L)).
  { clear - Hnd. induction g as [|z g IHg]; [exact Hnd|]. cbn in Hnd. inversion Hnd; subst. auto. }
  destruct Ha as [<-|Ha], Hb as [<-|Hb].
  - reflexivity.
  - exfalso. apply (Hsep x Hxa). apply in_concat. eauto.
  - exfalso. apply (Hsep x Hxb). apply in_concat. eauto.
  - eapply IH; eauto.
Qed.

Section Nest.
  Variable cs : list o2t.
  Variable d : Z.

  (* assign_group adds ci exactly once and keeps every group inside a current group *)
  Lemma assign_group_nest groups cur ci c : In cur groups -> In ci cur -> NoDup (flat groups) ->
    forall next next', nested_in groups next ->
    assign_group cs cur ci c d next = Ok next' ->
    Permutation (flat next') (ci :: flat next) /\ nested_in groups next'.
  Proof.
    intros Hcur Hci Hnd. induction next as [|ng rest IH]; intros next' Hin H; cbn [assign_group] in H.
    - inversion H; subst. split; [cbn; apply Permutation_refl|].
      intros g [<-|[]]. exists cur. split; [exact Hcur|]. intros x [<-|[]]. exact Hci.
    - destruct ng as [|idx tl]; [discriminate|].
      match type of H with (hit <- ?m ;; _) = _ => destruct m as [hit|] eqn:Eh end; cbn [bind] in H; [|discriminate].
      destruct hit.
      + inversion H; subst. clear H. split.
        * unfold flat. cbn [concat].
          change ((idx :: tl ++ [ci]) ++ concat rest) with (((idx :: tl) ++ [ci]) ++ concat rest). rewrite <- app_assoc.
          change ([ci] ++ concat rest) with (ci :: concat rest).
          apply Permutation_sym. apply (Permutation_middle (idx :: tl) (concat rest) ci).
        * intros g [<-|Hg]; [|apply Hin; right; exact Hg].
          destruct (memZ idx cur) eqn:Em; [|discriminate]. apply memZ_In in Em.
          destruct (Hin (idx :: tl) (or_introl eq_refl)) as (cur' & Hc' & Hi').
          assert (E : cur' = cur) by (eapply (unique_group groups Hnd cur' cur idx); eauto; apply Hi'; left; reflexivity).
          subst cur'. exists cur. split; [exact Hcur|]. intros x Hx.
          change (idx :: tl ++ [ci]) with ((idx :: tl) ++ [ci]) in Hx. apply in_app_iff in Hx.
          destruct Hx as [Hx|[<-|[]]]; [apply Hi'; exact Hx|exact Hci].
      + destruct (assign_group cs cur ci c d rest) as [rest'|] eqn:Er; cbn [bind] in H; [|discriminate].
        inversion H; subst. destruct (IH rest' (fun g Hg => Hin g (or_intror Hg)) eq_refl) as (P & N).
        split.
        * unfold flat in *. cbn [concat]. eapply Permutation_trans; [apply Permutation_app_head; exact P|].
          apply Permutation_sym. apply Permutation_middle.
        * intros g [<-|Hg]; [apply Hin; left; reflexivity|apply N; exact Hg].
  Qed.

  Lemma nodup_flat_tail g (gs : list (list Z)) : NoDup (flat (g :: gs)) -> NoDup (flat gs) /\ forall x, In x g -> ~ In x (flat gs).
  Proof.
    unfold flat. cbn [concat]. induction g as [|z g IHg]; intros H; [split; [exact H|intros x []]|].
    cbn in H. inversion H as [|? ? Hn Hnd]; subst. destruct (IHg Hnd) as [A B]. split; [exact A|].
    intros x [<-|Hx]; [intros Hc; apply Hn; apply in_app_iff; right; exact Hc|apply B; exact Hx].
  Qed.

  (* the inner loop: ci is added for the (unique) current group that contains it *)
  Lemma inner_nest groups ci c : NoDup (flat groups) ->
    forall gs next next', (forall g, In g gs -> In g groups) -> NoDup (flat gs) -> nested_in groups next ->
    foldM (fun next cur => if memZ ci cur then assign_group cs cur ci c d next else Ok next) gs next = Ok next' ->
    nested_in groups next' /\
    (Permutation (flat next') (ci :: flat next) \/ next' = next).
  Proof.
    intros Hnd. induction gs as [|cur gs IH]; intros next next' Hsub Hndg Hin H; cbn [foldM] in H.
    - inversion H; subst. split; [exact Hin|right; reflexivity].
    - destruct (nodup_flat_tail _ _ Hndg) as [Hndt Hsep].
      destruct (memZ ci cur) eqn:Em.
      + apply memZ_In in Em.
        destruct (assign_group cs cur ci c d next) as [n1|] eqn:Ea; cbn [bind] in H; [|discriminate].
        destruct (assign_group_nest groups cur ci c (Hsub cur (or_introl eq_refl)) Em Hnd next n1 Hin Ea) as (P1 & N1).
        (* no later current group contains ci: the rest of the loop changes nothing *)
        assert (Hrest : forall gs' n n', (forall g, In g gs' -> ~ In ci g) ->
                  foldM (fun next cur => if memZ ci cur then assign_group cs cur ci c d next else Ok next) gs' n = Ok n' -> n' = n).
        { induction gs' as [|g gs' IHr]; intros n n' Hno Hf; cbn [foldM] in Hf; [inversion Hf; reflexivity|].
          destruct (memZ ci g) eqn:Eg; [apply memZ_In in Eg; exfalso; apply (Hno g (or_introl eq_refl)); exact Eg|].
          cbn [bind] in Hf. apply IHr; [intros g' Hg'; apply Hno; right; exact Hg'|exact Hf]. }
        assert (Hno : forall g, In g gs -> ~ In ci g).
        { intros g Hg Hi. apply (Hsep ci Em). unfold flat. apply in_concat. eauto. }
        rewrite (Hrest gs n1 next' Hno H). split; [exact N1|left; exact P1].
      + cbn [bind] in H. apply (IH next next' (fun g Hg => Hsub g (or_intror Hg)) Hndt Hin H).
  Qed.

  (* the outer loop over the consumer entries, in increasing index order *)
  Lemma outer_nest groups : NoDup (flat groups) -> forall l next next' i0,
    (forall x, In x (flat next) -> x < i0) ->
    NoDup (flat next) -> nested_in groups next ->
    outer cs d groups (enumerate_from i0 l) next = Ok next' ->
    NoDup (flat next') /\ nested_in groups next'.
  Proof.
    intros Hnd. unfold outer. induction l as [|c l IH]; intros next next' i0 Hlt Hndn Hin H; cbn [enumerate_from foldM] in H.
    - inversion H; subst. split; assumption.
    - destruct (Z.of_nat (length (o2t_trans c)) >? d).
      + match type of H with (s' <- ?m ;; _) = _ => destruct m as [n1|] eqn:Ei end; cbn [bind] in H; [|discriminate].
        destruct (inner_nest groups i0 c Hnd groups next n1 (fun g Hg => Hg) Hnd Hin Ei) as (N1 & [P| ->]).
        * apply (IH n1 next' (i0 + 1)); [| |exact N1|exact H].
          -- intros x Hx. apply (Permutation_in _ P) in Hx. destruct Hx as [<-|Hx]; [lia|specialize (Hlt _ Hx); lia].
          -- apply (Permutation_NoDup (Permutation_sym P)). constructor; [|exact Hndn].
             intros Hc. specialize (Hlt _ Hc). lia.
        * apply (IH next next' (i0 + 1)); [intros x Hx; specialize (Hlt _ Hx); lia|exact Hndn|exact N1|exact H].
      + cbn [bind] in H. apply (IH next next' (i0 + 1)); [intros x Hx; specialize (Hlt _ Hx); lia|exact Hndn|exact Hin|exact H].
  Qed.

  Theorem group_depth_nest groups next :
    NoDup (flat groups) -> group_depth cs groups d = Ok next ->
    NoDup (flat next) /\ nested_in groups next.
  Proof.
    intros Hnd H. change (outer cs d groups (enumerate cs) [] = Ok next) in H. unfold enumerate in H.
    apply (outer_nest groups Hnd cs [] next 0); [intros x []|constructor|intros ng []|exact H].
  Qed.
End Nest.

(* all depths *)
Lemma nodup_iota (l : list o2t) : forall i0,
  NoDup (map fst (enumerate_from i0 l)) /\ forall x, In x (map fst (enumerate_from i0 l)) -> i0 <= x.
Proof.
  induction l as [|c l IH]; intros i0; cbn [enumerate_from map fst]; [split; [constructor|intros x []]|].
  destruct (IH (i0 + 1)) as [A B]. split.
  - constructor; [|exact A]. intros Hin. specialize (B _ Hin). lia.
  - intros x [<-|Hx]; [lia|]. specialize (B _ Hx). lia.
Qed.

Lemma group_all_nest cs : forall fuel groups depth levels,
  NoDup (flat groups) -> group_all cs groups depth fuel = Ok levels ->
  forall j lv, nth_opt (groups :: levels) j = Some lv ->
    NoDup (flat lv) /\ forall lv', nth_opt (groups :: levels) (S j) = Some lv' -> nested_in lv lv'.
Proof.
  induction fuel as [|f IH]; intros groups depth levels Hnd H j lv Hj; cbn [group_all] in H.
  - inversion H; subst. destruct j as [|j]; cbn [nth_opt] in Hj; [|destruct j; discriminate].
    inversion Hj; subst. split; [exact Hnd|]. intros lv' H'. discriminate.
  - destruct (group_depth cs groups depth) as [next|] eqn:En; cbn [bind] in H; [|discriminate].
    destruct (group_all cs next (depth + 1) f) as [rest|] eqn:Er; cbn [bind] in H; [|discriminate].
    inversion H; subst levels. destruct (group_depth_nest cs depth groups next Hnd En) as (Nn & Nin).
    destruct j as [|j]; cbn [nth_opt] in Hj.
    + inversion Hj; subst lv. split; [exact Hnd|]. intros lv' H'. cbn [nth_opt] in H'. inversion H'; subst. exact Nin.
    + apply (IH next (depth + 1) rest Nn Er j lv Hj).
Qed.

Theorem groups_are_nests p groups :
  group_consumer_transformations p = Ok groups ->
  forall j lv, nth_opt groups j = Some lv ->
    NoDup (flat lv) /\ forall lv', nth_opt groups (S j) = Some lv' -> nested_in lv lv'.
Proof.
  unfold group_consumer_transformations.
  destruct (ttp_consumers p) as [cs|]; [|intros H; inversion H; subst; intros j lv Hj; destruct j; discriminate].
  destruct cs as [|c0 cs0] eqn:Ecs; [intros H; inversion H; subst; intros j lv Hj; destruct j; discriminate|].
  rewrite <- Ecs. clear Ecs c0 cs0.
  set (g0 := map fst (enumerate cs)).
  destruct (group_all cs [g0] 0 (longest_chain cs)) as [rest|] eqn:Er; cbn [bind]; [|discriminate].
  intros H; inversion H; subst groups. clear H.
  assert (Hg0 : NoDup (flat [g0])).
  { unfold flat. cbn [concat]. rewrite app_nil_r. unfold g0, enumerate. apply (nodup_iota cs 0). }
  exact (group_all_nest cs _ _ _ _ Hg0 Er).
Qed.
