(* Proofs/ReadersProofs.v — C03 "others untouched", operand level, whole runs:
   for an original tensor t that no instruction names, the sequence of ORIGINAL
   operators (identified by their uid, in graph order) together with the operand
   positions at which each of them reads t is the same after the entire run of
   transform_graph as before it.  With Proofs/UntouchedProofs.v (t itself keeps
   dtype, buffer, annotation): an operand the recipe leaves alone is still the
   same tensor of the same type, read by the same operators at the same slots. *)
From VF Require Import Base.Prelude Gen.Enums Model.Graph Gen.InstChecks Model.Insts
     Model.Perform Spec.WF Proofs.ListFacts Proofs.PerformStep Proofs.ModeProofs Proofs.LocalProofs
     Proofs.PerformInv Proofs.RangeInv Proofs.AloneProofs Proofs.UntouchedProofs.

Definition is_original (o : op) : bool := negb (Z.eqb (o_uid o) UID_INSERTED).
Definition slots (t : Z) (o : op) : Z * list bool := (o_uid o, map (Z.eqb t) (o_ins o)).
(* who reads t where: original operators only, in graph order *)
Definition readers_profile (t : Z) (g : subgraph) : list (Z * list bool) :=
  map (slots t) (filter is_original (sg_ops g)).

Lemma slots_rewire t o old new : t <> old -> t <> new -> slots t (rewire_op o old new) = slots t o.
Proof.
  intros H1 H2. unfold slots, rewire_op. cbn [o_uid o_ins]. f_equal. rewrite map_map.
  apply map_ext. intros y. destruct (Z.eqb_spec y old) as [->|Hy].
  - destruct (Z.eqb_spec t new); [contradiction|]. destruct (Z.eqb_spec t old); [contradiction|reflexivity].
  - reflexivity.
Qed.

Lemma is_original_rewire o old new : is_original (rewire_op o old new) = is_original o.
Proof. reflexivity. Qed.

Lemma set_nth_same_image {A B} (f : A -> B) (p : A -> bool) a : forall (l : list A) n x,
  nth_opt l n = Some x -> f a = f x -> p a = p x ->
  map f (filter p (set_nth l n a)) = map f (filter p l).
Proof.
  induction l as [|y l IH]; intros n x Hn Hf Hp; [destruct n; discriminate|].
  destruct n as [|n]; cbn [nth_opt] in Hn; cbn [set_nth filter].
  - inversion Hn; subst y. rewrite Hp. destruct (p x); cbn [map]; [rewrite Hf|]; reflexivity.
  - destruct (p y); cbn [map]; [f_equal|]; eapply IH; eauto.
Qed.

Lemma rewire_consumers_profile t old new : t <> old -> t <> new -> forall cs ops ops',
  rewire_consumers ops cs old new = Ok ops' ->
  map (slots t) (filter is_original ops') = map (slots t) (filter is_original ops).
Proof.
  intros H1 H2. induction cs as [|c cs IH]; intros ops ops' H; unfold rewire_consumers in H; cbn [foldM] in H.
  - inversion H; subst. reflexivity.
  - destruct (Z.eqb c (-1)); cbn [bind] in H.
    + apply IH. exact H.
    + destruct (py_index ops c) as [o|] eqn:Ei; cbn [bind] in H; [|discriminate].
      fold (rewire_consumers (set_nth ops (Z.to_nat (if c <? 0 then c + lenZ ops else c)) (rewire_op o old new)) cs old new) in H.
      rewrite (IH _ _ H). unfold py_index in Ei. fold (lenZ ops) in Ei.
      destruct ((if c <? 0 then c + lenZ ops else c) <? 0) eqn:E1; [discriminate|]. cbn [orb] in Ei.
      destruct (lenZ ops <=? (if c <? 0 then c + lenZ ops else c)); [discriminate|].
      destruct (nth_opt ops (Z.to_nat (if c <? 0 then c + lenZ ops else c))) as [o1|] eqn:En; [|discriminate].
      inversion Ei; subst o1.
      eapply set_nth_same_image; [exact En|apply slots_rewire; assumption|apply is_original_rewire].
Qed.

Lemma filter_insert_at {A} (p : A -> bool) a : p a = false -> forall (l : list A) n,
  filter p (insert_at l n a) = filter p l.
Proof.
  intros Ha l n. revert l. induction n as [|n IH]; intros l.
  - destruct l; cbn [insert_at filter]; rewrite Ha; reflexivity.
  - destruct l as [|x l]; cbn [insert_at filter]; [rewrite Ha; reflexivity|]. rewrite IH. reflexivity.
Qed.

Lemma insert_common_profile q codes bufs g tid producer cs ps codes' bufs' g' info t :
  0 <= tid -> 0 <= t < ntens g -> t <> tid ->
  insert_common q codes bufs g tid producer cs ps = Ok (codes', bufs', g', info) ->
  readers_profile t g' = readers_profile t g.
Proof.
  intros Htid Ht Hne H. unfold insert_common in H.
  destruct (add_op_code _ codes) as [cidx cds].
  destruct (get_tensor g tid) as [t0|]; cbn [bind] in H; [|discriminate].
  match type of H with bind ?m _ = _ => destruct m as [[b2 g2]|] eqn:Q end; cbn [bind] in H; [|discriminate].
  destruct (py_min cs); cbn [bind] in H; [|discriminate].
  match type of H with bind ?m _ = _ => destruct m as [ops'|] eqn:R end; cbn [bind] in H; [|discriminate].
  destruct (Z.max (producer + 1) _ <? 0); [discriminate|]. inversion H; subst; clear H.
  destruct (quantize_tensor_shape _ _ _ _ _ _ Q) as (Hops & _).
  cbn [sg_ops] in Hops. unfold readers_profile. cbn [sg_ops].
  rewrite filter_insert_at by reflexivity.
  rewrite (rewire_consumers_profile t tid (lenZ (sg_tensors g)) Hne ltac:(unfold ntens in Ht; lia) _ _ _ R).
  rewrite Hops. reflexivity.
Qed.

Lemma trans_of_profile i codes bufs g producer cs codes' bufs' g' info t :
  0 <= i_tensor i -> 0 <= t < ntens g -> t <> i_tensor i ->
  trans_of i codes bufs g producer cs = Ok (codes', bufs', g', info) ->
  readers_profile t g' = readers_profile t g.
Proof.
  intros Hit Ht Hne H. unfold trans_of in H. destruct (i_trans i); try discriminate.
  - eapply insert_common_profile; eauto.
  - eapply insert_common_profile; eauto.
  - destruct (quantize_tensor bufs g (i_tensor i) (i_params i)) as [[b2 g2]|] eqn:Q; cbn [bind fst snd] in H; [|discriminate].
    inversion H; subst; clear H. destruct (quantize_tensor_shape _ _ _ _ _ _ Q) as (Hops & _).
    unfold readers_profile. rewrite Hops. reflexivity.
Qed.

Lemma apply_single_profile st sgid i later st' later' k g t :
  0 <= sgid -> 0 <= i_tensor i ->
  nth_opt (m_subgraphs (ps_model st)) k = Some g -> 0 <= t < ntens g ->
  (Z.to_nat sgid <> k \/ i_tensor i <> t) ->
  apply_single st sgid i later = Ok (st', later') ->
  exists g', nth_opt (m_subgraphs (ps_model st')) k = Some g' /\ readers_profile t g' = readers_profile t g.
Proof.
  intros Hs Hit Hg Ht Hne H.
  destruct (Nat.eq_dec (Z.to_nat sgid) k) as [Ek|Nk].
  - rewrite apply_single_unfold in H.
    destruct (py_index (ps_orig st) sgid) as [om|]; cbn [bind] in H; [|discriminate].
    destruct (py_index (ps_added st) sgid) as [am|]; cbn [bind] in H; [|discriminate].
    destruct (py_index (m_subgraphs (ps_model st)) sgid) as [g0|] eqn:Eg; cbn [bind] in H; [|discriminate].
    destruct (resolve om am (i_producer i)) as [producer|]; cbn [bind] in H; [|discriminate].
    destruct (mapM _ (i_consumers i)) as [cs|]; cbn [bind] in H; [|discriminate].
    destruct (trans_of i (m_opcodes (ps_model st)) (m_buffers (ps_model st)) g0 producer cs)
      as [[[[c' b'] g'] info]|] eqn:T; cbn [bind] in H; [|discriminate].
    apply (py_index_nonneg _ _ _ Hs) in Eg. destruct Eg as [Eg Hlt]. subst k. rewrite Hg in Eg. inversion Eg; subst g0.
    destruct Hne as [C|Hne]; [contradiction|].
    assert (P : readers_profile t g' = readers_profile t g) by (eapply trans_of_profile; eauto).
    exists g'. split; [|exact P].
    destruct (to_added info =? 0); inversion H; subst st'; cbn [ps_model set_sg m_subgraphs];
      apply nth_opt_set_nth_same; eapply nth_opt_Some_lt; exact Hg.
  - destruct (apply_single_local _ _ _ _ _ _ Hs H) as (Hoth & _). destruct (Hoth k (fun C => Nk (eq_sym C))) as (A & _).
    exists g. split; [rewrite A; exact Hg|reflexivity].
Qed.

Lemma apply_insts_profile sg k t : 0 <= sg -> forall fuel is st st' g,
  Forall (fun i => 0 <= i_tensor i) is ->
  nth_opt (m_subgraphs (ps_model st)) k = Some g -> 0 <= t < ntens g ->
  (Z.to_nat sg <> k \/ Forall (quiet t) is) ->
  apply_insts st sg is fuel = Ok st' ->
  exists g', nth_opt (m_subgraphs (ps_model st')) k = Some g' /\
             readers_profile t g' = readers_profile t g /\ ntens g <= ntens g'.
Proof.
  intros Hs. induction fuel as [|f IH]; intros is st st' g Hnn Hg Ht Hno H.
  - destruct is; cbn in H; [|discriminate]. inversion H; subst. exists g. split; [exact Hg|]. split; [reflexivity|lia].
  - destruct is as [|i later]; cbn [apply_insts] in H.
    + inversion H; subst. exists g. split; [exact Hg|]. split; [reflexivity|lia].
    + inversion Hnn as [|? ? Hi Hnn']; subst.
      assert (Hno' : Z.to_nat sg <> k \/ Forall (quiet t) later).
      { destruct Hno as [C|F]; [left; exact C|right; inversion F; assumption]. }
      destruct (is_insertion (i_trans i)) eqn:Eins.
      * destruct (apply_single st sg i later) as [[st1 later1]|] eqn:E; cbn [bind fst snd] in H; [|discriminate].
        assert (Hne : Z.to_nat sg <> k \/ i_tensor i <> t).
        { destruct Hno as [C|F]; [left; exact C|right; inversion F as [|? ? Fq _]; apply Fq; exact Eins]. }
        destruct (apply_single_untouched _ _ _ _ _ _ _ _ _ Hs Hi Hg Ht Hne E) as (g1 & Hg1 & _ & Hn & L1 & L2).
        destruct (apply_single_profile _ _ _ _ _ _ _ _ _ Hs Hi Hg Ht Hne E) as (g1' & Hg1' & P1).
        rewrite Hg1 in Hg1'. inversion Hg1'; subst g1'.
        assert (Hnn1 : Forall (fun i => 0 <= i_tensor i) later1).
        { apply Forall_forall. intros j Hj. destruct (L2 j Hj) as [Hj0|(j0 & Hj0 & Ej)]; [exact Hj0|].
          rewrite <- Ej. rewrite Forall_forall in Hnn'. apply Hnn'. exact Hj0. }
        assert (Hno1 : Z.to_nat sg <> k \/ Forall (quiet t) later1).
        { destruct Hno' as [C|F]; [left; exact C|].
          destruct (Nat.eq_dec (Z.to_nat sg) k) as [Ek|Nk]; [|left; exact Nk].
          right. apply Forall_forall. intros j Hj Hjins Ejt. destruct (L1 Ek j Hj Ejt) as (j0 & Hj0 & Ej0 & Etr).
          rewrite Forall_forall in F. apply (F j0 Hj0); [rewrite Etr; exact Hjins|exact Ej0]. }
        destruct (IH later1 st1 st' g1 Hnn1 Hg1 ltac:(lia) Hno1 H) as (g2 & Hg2 & P2 & Hn2).
        exists g2. split; [exact Hg2|]. split; [congruence|lia].
      * destruct (qtrans_eqb (i_trans i) Tr_EMULATED_SUBCHANNEL); [discriminate|].
        eapply IH; eassumption.
Qed.

Lemma run_all_profile k t : forall tis st0 st1 g0,
  ids_ok tis -> never_names k t tis ->
  nth_opt (m_subgraphs (ps_model st0)) k = Some g0 -> 0 <= t < ntens g0 ->
  run_all tis st0 = Ok st1 ->
  exists g', nth_opt (m_subgraphs (ps_model st1)) k = Some g' /\
             readers_profile t g' = readers_profile t g0 /\ ntens g0 <= ntens g'.
Proof.
  unfold run_all. induction tis as [|ti tis IH]; intros st0 st1 g0 Hok Hno Hg Ht H; cbn [foldM] in H.
  - inversion H; subst. exists g0. split; [exact Hg|]. split; [reflexivity|lia].
  - inversion Hok as [|? ? [Hsg Hnn] Hok']; subst.
    destruct (apply_insts st0 (ti_sg ti) (ti_insts ti) (length (ti_insts ti))) as [st2|] eqn:E; cbn [bind] in H; [|discriminate].
    assert (Hno1 : Z.to_nat (ti_sg ti) <> k \/ Forall (quiet t) (ti_insts ti)).
    { destruct (Z.eq_dec (ti_sg ti) (Z.of_nat k)) as [Ek|Nk].
      - right. apply Forall_forall. intros i Hi. exact (Hno ti i (or_introl eq_refl) Ek Hi).
      - left. lia. }
    destruct (apply_insts_profile _ _ _ Hsg _ _ _ _ _ Hnn Hg Ht Hno1 E) as (g1 & Hg1 & P1 & Hn).
    destruct (IH st2 st1 g1 Hok' (fun ti' i' Hin => Hno ti' i' (or_intror Hin)) Hg1 ltac:(lia) H) as (g2 & Hg2 & P2 & Hn2).
    exists g2. split; [exact Hg2|]. split; [congruence|lia].
Qed.

Theorem transform_graph_readers_untouched m tis m' k g t :
  nth_opt (m_subgraphs m) k = Some g -> 0 <= t < ntens g ->
  ids_ok tis -> never_names k t tis ->
  transform_graph m tis = Ok m' ->
  exists g', nth_opt (m_subgraphs m') k = Some g' /\ readers_profile t g' = readers_profile t g.
Proof.
  intros Hg Ht Hok Hno H. unfold transform_graph in H.
  match type of H with bind ?x _ = _ => destruct x as [st|] eqn:E end; cbn [bind] in H; [|discriminate].
  inversion H; subst m'; clear H.
  destruct (run_all_profile k t tis (init_pstate m) st g Hok Hno Hg Ht E) as (g' & A & B & _). eauto.
Qed.
