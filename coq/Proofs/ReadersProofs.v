(* Proofs/ReadersProofs.v — C03 "others untouched", operand level, whole runs:
   for an original tensor t that no instruction names, the sequence of ORIGINAL
   operators (identified by their uid, in graph order) together with the operand
   positions at which each of them reads t is the same after the entire run of
   transform_graph as before it.  With Proofs/UntouchedProofs.v (t itself keeps
   dtype, buffer, annotation): an operand the recipe leaves alone is still the
   same tensor of the same type, read by the same operators at the same slots. *)
From VF Require Import Base.Prelude Gen.Enums Model.Graph Gen.InstChecks Model.Insts
     Model.Perform Spec.WF Proofs.ListFacts Proofs.PerformStep Proofs.ModeProofs Proofs.LocalProofs
     Proofs.PerformInv Proofs.RangeInv Proofs.AloneProofs Proofs.UntouchedProofs.

Definition is_original (o : op) : bool := negb (Z.eqb (o_uid o) UID_INSERTED).
Definition slots (t : Z) (o : op) : Z * list bool := (o_uid o, map (Z.eqb t) (o_ins o)).
(* who reads t where: original operators only, in graph order *)
Definition readers_profile (t : Z) (g : subgraph) : list (Z * list bool) :=
  map (slots t) (filter is_original (sg_ops g)).

Lemma slots_rewire t o old new : t <> old -> t <> new -> slots t (rewire_op o old new) = slots t o.
Proof.
  intros H1 H2. unfold slots, rewire_op. cbn [o_uid o_ins]. f_equal. rewrite map_map.
  apply map_ext. intros y. destruct (Z.eqb_spec y old) as [->|Hy].
  - destruct (Z.eqb_spec t new); [contradiction|]. destruct (Z.eqb_spec t old); [contradiction|reflexivity].
  - reflexivity.
Qed.

Lemma is_original_rewire o old new : is_original (rewire_op o old new) = is_original o.
Proof. reflexivity. Qed.

Lemma set_nth_same_image {A B} (f : A -> B) (p : A -> bool) a : forall (l : list A) n x,
  nth_opt l n = Some x -> f a = f x -> p a = p x ->
  map f (filter p (set_nth l n a)) = map f (filter p l).
Proof.
  induction l as [|y l IH]; intros n x Hn Hf Hp; [destruct n; discriminate|].
  destruct n as [|n]; cbn [nth_opt] in Hn; cbn [set_nth filter].
  - inversion Hn; subst y. rewrite Hp. destruct (p x); cbn [map]; [rewrite Hf|]; reflexivity.
  - destruct (p y); cbn [map]; [f_equal|]; eapply IH; eauto.
Qed.

Lemma rewire_consumers_profile t old new : t <> old -> t <> new -> forall cs ops ops',
  rewire_consumers ops cs old new = Ok ops' ->
  map (slots t) (filter is_original ops') = map (slots t) (filter is_original ops).
Proof.
  intros H1 H2. induction cs as [|c cs IH]; intros ops ops' H; unfold rewire_consumers in H; cbn [foldM] in H.
  - inversion H; subst. reflexivity.
  - destruct (Z.eqb c (-1)); cbn [bind] in H.
    + apply IH. exact H.
    + destruct (py_index ops c) as [o|] eqn:Ei; cbn [bind] in H; [|discriminate].
      fold (rewire_consumers (set_nth ops (Z.to_nat (if c <? 0 then c + lenZ ops else c)) (rewire_op o old new)) cs old new) in H.
      rewrite (IH _ _ H). unfold py_index in Ei. fold (lenZ ops) in Ei.
      destruct ((if c <? 0 then c + lenZ ops else c) <? 0) eqn:E1; [discriminate|]. cbn [orb] in Ei.
      destruct (lenZ ops <=? (if c <? 0 then c + lenZ ops else c)); [discriminate|].
      destruct (nth_opt ops (Z.to_nat (if c <? 0 then c + lenZ ops else c))) as [o1|] eqn:En; [|discriminate].
      inversion Ei; subst o1.
      eapply set_nth_same_image; [exact En|apply slots_rewire; assumption|apply is_original_rewire].
Qed.

Lemma filter_insert_at {A} (p : A -> bool) a : p a = false -> forall (l : list A) n,
  filter p (insert_at l n a) = filter p l.
Proof.
  intros Ha l n. revert l. induction n as [|n IH]; intros l.
  - destruct l; cbn [insert_at filter]; rewrite Ha; reflexivity.
  - destruct l as [|x l]; cbn [insert_at filter]; [rewrite Ha; reflexivity|]. rewrite IH. reflexivity.
Qed.

Lemma insert_common_profile q codes bufs g tid producer cs ps codes' bufs' g' info t :
  0 <= tid -> 0 <= t < ntens g -> t <> tid ->
  insert_common q codes bufs g tid producer cs ps = Ok (codes', bufs', g', info) ->
  readers_profile t g' = readers_profile t g.
Proof.
  intros Htid Ht Hne H. unfold insert_common in H.
  destruct (add_op_code _ codes) as [cidx cds].
  destruct (get_tensor g tid) as [t0|]; cbn [bind] in H; [|discriminate].
  match type of H with bind ?m _ = _ => destruct m as [[b2 g2]|] eqn:Q end; cbn [bind] in H; [|discriminate].
  destruct (py_min cs); cbn [bind] in H; [|discriminate].
  match type of H with bind ?m _ = _ => destruct m as [ops'|] eqn:R end; cbn [bind] in H; [|discriminate].
  destruct (Z.max (producer + 1) _ <? 0); [discriminate|]. inversion H; subst; clear H.
  destruct (quantize_tensor_shape _ _ _ _ _ _ Q) as (Hops & _).
  cbn [sg_ops] in Hops. unfold readers_profile. cbn [sg_ops].
  rewrite filter_insert_at by reflexivity.
  rewrite (rewire_consumers_profile t tid (lenZ (sg_tensors g)) Hne ltac:(unfold ntens in Ht; lia) _ _ _ R).
  rewrite Hops. reflexivity.
Qed.

Lemma trans_of_profile i codes bufs g producer cs codes' bufs' g' info t :
  0 <= i_tensor i -> 0 <= t < ntens g -> t <> i_tensor i ->
  trans_of i codes bufs g producer cs = Ok (codes', bufs', g', info) ->
  readers_profile t g' = readers_profile t g.
Proof.
  intros Hit Ht Hne H. unfold trans_of in H. destruct (i_trans i); try discriminate.
  - eapply insert_common_profile; eauto.
  - eapply insert_common_profile; eauto.
  - destruct (quantize_tensor bufs g (i_tensor i) (i_params i)) as [[b2 g2]|] eqn:Q; cbn [bind fst snd] in H; [|discriminate].
    inversion H; subst; clear H. destruct (quantize_tensor_shape _ _ _ _ _ _ Q) as (Hops & _).
    unfold readers_profile. rewrite Hops. reflexivity.
Qed.

Lemma apply_single_profile st sgid i later st' later' k g t :
  0 <= sgid -> 0 <= i_tensor i ->
  nth_opt (m_subgraphs (ps_model st)) k = Some g -> 0 <= t < ntens g ->
  (Z.to_nat sgid <> k \/ i_tensor i <> t) ->
  apply_single st sgid i later = Ok (st', later') ->
  exists g', nth_opt (m_subgraphs (ps_model st')) k = Some g' /\ readers_profile t g' = readers_profile t g.
Proof.
  intros Hs Hit Hg Ht Hne H.
  destruct (Nat.eq_dec (Z.to_nat sgid) k) as [Ek|Nk].
  - rewrite apply_single_unfold in H.
    destruct (py_index (ps_orig st) sgid) as [om|]; cbn [bind] in H; [|discriminate].
    destruct (py_index (ps_added st) sgid) as [am|]; cbn [bind] in H; [|discriminate].
    destruct (py_index (m_subgraphs (ps_model st)) sgid) as [g0|] eqn:Eg; cbn [bind] in H; [|discriminate].
    destruct (resolve om am (i_producer i)) as [producer|]; cbn [bind] in H; [|discriminate].
    destruct (mapM _ (i_consumers i)) as [cs|]; cbn [bind] in H; [|discriminate].
    destruct (trans_of i (m_opcodes (ps_model st)) (m_buffers (ps_model st)) g0 producer cs)
      as [[[[c' b'] g'] info]|] eqn:T; cbn [bind] in H; [|discriminate].
    apply (py_index_nonneg _ _ _ Hs) in Eg. destruct Eg as [Eg Hlt]. subst k. rewrite Hg in Eg. inversion Eg; subst g0.
    destruct Hne as [C|Hne]; [contradiction|].
    assert (P : readers_profile t g' = readers_profile t g) by (eapply trans_of_profile; eauto).
    exists g'. split; [|exact P].
    destruct (to_added info =? 0); inversion H; subst st'; cbn [ps_model set_sg m_subgraphs];
      apply nth_opt_set_nth_same; eapply nth_opt_Some_lt; exact Hg.
  - destruct (apply_single_local _ _ _ _ _ _ Hs H) as (Hoth & _). destruct (Hoth k (fun C => Nk (eq_sym C))) as (A & _).
    exists g. split; [rewrite A; exact Hg|reflexivity].
Qed.

Lemma apply_insts_profile sg k t : 0 <= sg -> forall fuel is st st' g,
  Forall (fun i => 0 <= i_tensor i) is ->
  nth_opt (m_subgraphs (ps_model st)) k = Some g -> 0 <= t < ntens g ->
  (Z.to_nat sg <> k \/ Forall (quiet t) is) ->
  apply_insts st sg is fuel = Ok st' ->
  exists g', nth_opt (m_subgraphs (ps_model st')) k = Some g' /\
             readers_profile t g' = readers_profile t g /\ ntens g <= ntens g'.
Proof.
  intros Hs. induction fuel as [|f IH]; intros is st st' g Hnn Hg Ht Hno H.
  - destruct is; cbn in H; [|discriminate]. inversion H; subst. exists g. split; [exact Hg|]. split; [reflexivity|lia].
  - destruct is as [|i later]; cbn [apply_insts] in H.
    + inversion H; subst. exists g. split; [exact Hg|]. split; [reflexivity|lia].
    + inversion Hnn as [|? ? Hi Hnn']; subst.
      assert (Hno' : Z.to_nat sg <> k \/ Forall (quiet t) later).
      { destruct Hno as [C|F]; [left; exact C|right; inversion F; assumption]. }
      destruct (is_insertion (i_trans i)) eqn:Eins.
      * destruct (apply_single st sg i later) as [[st1 later1]|] eqn:E; cbn [bind fst snd] in H; [|discriminate].
        assert (Hne : Z.to_nat sg <> k \/ i_tensor i <> t).
        { destruct Hno as [C|F]; [left; exact C|right; inversion F as [|? ? Fq _]; apply Fq; exact Eins]. }
        destruct (apply_single_untouched _ _ _ _ _ _ _ _ _ Hs Hi Hg Ht Hne E) as (g1 & Hg1 & _ & Hn & L1 & L2).
        destruct (apply_single_profile _ _ _ _ _ _ _ _ _ Hs Hi Hg Ht Hne E) as (g1' & Hg1' & P1).
        rewrite Hg1 in Hg1'. inversion Hg1'; subst g1'.
        assert (Hnn1 : Forall (fun i => 0 <= i_tensor i) later1).
        { apply Forall_forall. intros j Hj. destruct (L2 j Hj) as [Hj0|(j0 & Hj0 & Ej)]; [exact Hj0|].
          rewrite <- Ej. rewrite Forall_forall in Hnn'. apply Hnn'. exact Hj0. }
        assert (Hno1 : Z.to_nat sg <> k \/ Forall (quiet t) later1).
        { destruct Hno' as [C|F]; [left; exact C|].
          destruct (Nat.eq_dec (Z.to_nat sg) k) as [Ek|Nk]; [|left; exact Nk].
          right. apply Forall_forall. intros j Hj Hjins Ejt. destruct (L1 Ek j Hj Ejt) as (j0 & Hj0 & Ej0 & Etr).
          rewrite Forall_forall in F. apply (F j0 Hj0); [rewrite Etr; exact Hjins|exact Ej0]. }
        destruct (IH later1 st1 st' g1 Hnn1 Hg1 ltac:(lia) Hno1 H) as (g2 & Hg2 & P2 & Hn2).
        exists g2. split; [exact Hg2|]. split; [congruence|lia].
      * destruct (qtrans_eqb (i_trans i) Tr_EMULATED_SUBCHANNEL); [discriminate|].
        eapply IH; eassumption.
Qed.

Lemma run_all_profile k t : forall tis st0 st1 g0,
  ids_ok tis -> never_names k t tis ->
  nth_opt (m_subgraphs (ps_model st0)) k = Some g0 -> 0 <= t < ntens g0 ->
  run_all tis st0 = Ok st1 ->
  exists g', nth_opt (m_subgraphs (ps_model st1)) k = Some g' /\
             readers_profile t g' = readers_profile t g0 /\ ntens g0 <= ntens g'.
Proof.
  unfold run_all. induction tis as [|ti tis IH]; intros st0 st1 g0 Hok Hno Hg Ht H; cbn [foldM] in H.
  - inversion H; subst. exists g0. split; [exact Hg|]. split; [reflexivity|lia].
  - inversion Hok as [|? ? [Hsg Hnn] Hok']; subst.
    destruct (apply_insts st0 (ti_sg ti) (ti_insts ti) (length (ti_insts ti))) as [st2|] eqn:E; cbn [bind] in H; [|discriminate].
    assert (Hno1 : Z.to_nat (ti_sg ti) <> k \/ Forall (quiet t) (ti_insts ti)).
    { destruct (Z.eq_dec (ti_sg ti) (Z.of_nat k)) as [Ek|Nk].
      - right. apply Forall_forall. intros i Hi. exact (Hno ti i (or_introl eq_refl) Ek Hi).
      - left. lia. }
    destruct (apply_insts_profile _ _ _ Hsg _ _ _ _ _ Hnn Hg Ht Hno1 E) as (g1 & Hg1 & P1 & Hn).
    destruct (IH st2 st1 g1 Hok' (fun ti' i' Hin => Hno ti' i' (or_intror Hin)) Hg1 ltac:(lia) H) as (g2 & Hg2 & P2 & Hn2).
    exists g2. split; [exact Hg2|]. split; [congruence|lia].
Qed.

Theorem transform_graph_readers_untouched m tis m' k g t :
  nth_opt (m_subgraphs m) k = Some g -> 0 <= t < ntens g ->
  ids_ok tis -> never_names k t tis ->
  transform_graph m tis = Ok m' ->
  exists g', nth_opt (m_subgraphs m') k = Some g' /\ readers_profile t g' = readers_profile t g.
Proof.
  intros Hg Ht Hok Hno H. unfold transform_graph in H.
  match type of H with bind ?x _ = _ => destruct x as [st|] eqn:E end; cbn [bind] in H; [|discriminate].
  inversion H; subst m'; clear H.
  destruct (run_all_profile k t tis (init_pstate m) st g Hok Hno Hg Ht E) as (g' & A & B & _). eauto.
Qed.

(* ================================================================== *)
(* The positive clause for an inserted QUANTIZE / DEQUANTIZE: right after the
   step, the operators the instruction lists (resolved to positions) read the
   NEW tensor at exactly the slots where they read the old one, nobody else
   reads it — and if nothing later names the new tensor, that is still so at
   the end of the run. *)
From VF Require Import Proofs.RewireFun.

Definition moved (tid : Z) (cs : list Z) (ko : Z * op) : Z * list bool :=
  (o_uid (snd ko), if memZ (fst ko) cs then map (Z.eqb tid) (o_ins (snd ko))
                   else map (fun _ => false) (o_ins (snd ko))).
Definition moved_profile (tid : Z) (cs : list Z) (g : subgraph) : list (Z * list bool) :=
  map (moved tid cs) (filter (fun ko => is_original (snd ko)) (enumerate (sg_ops g))).

Lemma rewire_drop_absent old new : forall cs ops,
  rewire_consumers ops cs old new =
  rewire_consumers ops (filter (fun c => negb (Z.eqb c (-1))) cs) old new.
Proof.
  unfold rewire_consumers. induction cs as [|c cs IH]; intros ops; cbn [foldM filter]; [reflexivity|].
  destruct (Z.eqb c (-1)) eqn:E; cbn [negb bind].
  - apply IH.
  - cbn [foldM]. rewrite E. destruct (py_index ops c); cbn [bind]; [apply IH|reflexivity].
Qed.

Lemma slots_new_rewire o old new :
  ~ In new (o_ins o) -> slots new (rewire_op o old new) = (o_uid o, map (Z.eqb old) (o_ins o)).
Proof.
  intros Hn. unfold slots, rewire_op. cbn [o_uid o_ins]. f_equal. rewrite map_map.
  apply map_ext_in. intros y Hy. destruct (Z.eqb_spec y old) as [->|Hne].
  - rewrite !Z.eqb_refl. reflexivity.
  - destruct (Z.eqb_spec new y) as [->|_]; [contradiction|]. destruct (Z.eqb_spec old y); [congruence|reflexivity].
Qed.

Lemma slots_new_none o new : ~ In new (o_ins o) -> slots new o = (o_uid o, map (fun _ => false) (o_ins o)).
Proof.
  intros Hn. unfold slots. f_equal. apply map_ext_in. intros y Hy.
  destruct (Z.eqb_spec new y) as [->|_]; [contradiction|reflexivity].
Qed.

Lemma pointwise_profile old new cs : forall (l l' : list op) i0,
  (forall o, In o l -> ~ In new (o_ins o)) ->
  (forall k, nth_opt l' k = option_map (fun o => if memZ (i0 + Z.of_nat k) cs then rewire_op o old new else o)
                                       (nth_opt l k)) ->
  map (slots new) (filter is_original l') =
  map (moved old cs) (filter (fun ko => is_original (snd ko)) (enumerate_from i0 l)).
Proof.
  induction l as [|o l IH]; intros l' i0 Hn H.
  - destruct l' as [|o' l']; [reflexivity|]. specialize (H 0%nat). discriminate.
  - destruct l' as [|o' l']; [specialize (H 0%nat); discriminate|].
    pose proof (H 0%nat) as H0. cbn [nth_opt option_map] in H0. rewrite Z.add_0_r in H0. inversion H0 as [E0].
    cbn [enumerate_from filter snd].
    assert (Hno : ~ In new (o_ins o)) by (apply Hn; left; reflexivity).
    assert (Htl : map (slots new) (filter is_original l') =
                  map (moved old cs) (filter (fun ko => is_original (snd ko)) (enumerate_from (i0 + 1) l))).
    { apply IH; [intros o2 H2; apply Hn; right; exact H2|].
      intros k. specialize (H (S k)). cbn [nth_opt] in H. rewrite H.
      replace (i0 + Z.of_nat (S k)) with (i0 + 1 + Z.of_nat k) by lia. reflexivity. }
    destruct (memZ i0 cs) eqn:Em.
    + rewrite is_original_rewire. destruct (is_original o); cbn [map]; [|exact Htl].
      rewrite Htl. f_equal. unfold moved. cbn [fst snd]. rewrite Em. apply slots_new_rewire. exact Hno.
    + destruct (is_original o); cbn [map]; [|exact Htl].
      rewrite Htl. f_equal. unfold moved. cbn [fst snd]. rewrite Em. apply slots_new_none. exact Hno.
Qed.

Lemma memZ_filter_absent k cs : 0 <= k -> memZ k (filter (fun c => negb (Z.eqb c (-1))) cs) = memZ k cs.
Proof.
  intros Hk. induction cs as [|c cs IH]; [reflexivity|]. cbn [filter]. unfold memZ in *.
  destruct (Z.eqb_spec c (-1)) as [->|Hc]; cbn [negb existsb].
  - rewrite IH. destruct (Z.eqb_spec k (-1)); [lia|reflexivity].
  - rewrite IH. reflexivity.
Qed.

Lemma moved_ext tid cs cs' l : forall i0, 0 <= i0 ->
  (forall k, 0 <= k -> memZ k cs' = memZ k cs) ->
  map (moved tid cs') (filter (fun ko => is_original (snd ko)) (enumerate_from i0 l)) =
  map (moved tid cs) (filter (fun ko => is_original (snd ko)) (enumerate_from i0 l)).
Proof.
  induction l as [|o l IH]; intros i0 H0 H; [reflexivity|]. cbn [enumerate_from filter snd].
  destruct (is_original o); cbn [map]; [f_equal|]; try (apply IH; [lia|exact H]).
  unfold moved. cbn [fst snd]. rewrite (H i0 H0). reflexivity.
Qed.

Lemma insert_common_new_profile q codes bufs g tid producer cs ps codes' bufs' g' info :
  0 <= tid < ntens g -> Forall (fun c => c = -1 \/ 0 <= c) cs ->
  (forall o, In o (sg_ops g) -> ~ In (ntens g) (o_ins o)) ->
  insert_common q codes bufs g tid producer cs ps = Ok (codes', bufs', g', info) ->
  readers_profile (ntens g) g' = moved_profile tid cs g.
Proof.
  intros Htid Hcs Hfresh H. unfold insert_common in H.
  destruct (add_op_code _ codes) as [cidx cds].
  destruct (get_tensor g tid) as [t0|]; cbn [bind] in H; [|discriminate].
  match type of H with bind ?m _ = _ => destruct m as [[b2 g2]|] eqn:Q end; cbn [bind] in H; [|discriminate].
  destruct (py_min cs); cbn [bind] in H; [|discriminate].
  match type of H with bind ?m _ = _ => destruct m as [ops'|] eqn:R end; cbn [bind] in H; [|discriminate].
  destruct (Z.max (producer + 1) _ <? 0); [discriminate|]. inversion H; subst; clear H.
  destruct (quantize_tensor_shape _ _ _ _ _ _ Q) as (Hops & _). cbn [sg_ops] in Hops.
  unfold readers_profile, moved_profile. cbn [sg_ops]. rewrite filter_insert_at by reflexivity.
  rewrite Hops in R. rewrite rewire_drop_absent in R.
  set (cs' := filter (fun c => negb (Z.eqb c (-1))) cs) in *.
  assert (Hcs' : Forall (fun c => 0 <= c) cs').
  { unfold cs'. apply Forall_forall. intros c Hc. apply filter_In in Hc. destruct Hc as [Hc Hn].
    rewrite Forall_forall in Hcs. destruct (Hcs c Hc) as [->|]; [discriminate|assumption]. }
  assert (Hne : lenZ (sg_tensors g) <> tid) by (unfold ntens in Htid; lia).
  pose proof (rewire_fun cs' _ _ _ _ Hne Hcs' R) as HF.
  unfold enumerate. fold (ntens g).
  rewrite (pointwise_profile tid (ntens g) cs' (sg_ops g) ops' 0 Hfresh).
  - apply moved_ext; [lia|]. intros k Hk. unfold cs'. apply memZ_filter_absent. exact Hk.
  - intros k. rewrite Z.add_0_l. apply HF.
Qed.

Theorem inserted_tensor_readers k st i later st1 later1 fuel st2 post st3 g om cs :
  nth_opt (m_subgraphs (ps_model st)) k = Some g ->
  (i_trans i = Tr_ADD_QUANTIZE \/ i_trans i = Tr_ADD_DEQUANTIZE) ->
  0 <= i_tensor i < ntens g -> (forall o, In o (sg_ops g) -> ~ In (ntens g) (o_ins o)) ->
  py_index (ps_orig st) (Z.of_nat k) = Ok om ->
  mapM (fun c => if Z.eqb c (-1) then Ok (-1) else py_index om c) (i_consumers i) = Ok cs ->
  Forall (fun c => c = -1 \/ 0 <= c) cs ->
  apply_single st (Z.of_nat k) i later = Ok (st1, later1) ->
  Forall (fun j => 0 <= i_tensor j) later1 -> Forall (quiet (ntens g)) later1 ->
  apply_insts st1 (Z.of_nat k) later1 fuel = Ok st2 ->
  ids_ok post -> never_names k (ntens g) post -> run_all post st2 = Ok st3 ->
  exists g3, nth_opt (m_subgraphs (ps_model st3)) k = Some g3 /\
             readers_profile (ntens g) g3 = moved_profile (i_tensor i) cs g.
Proof.
  intros Hg Htr Ht Hfresh Hom Hcs Hcsr H Hnn1 Hq1 H2 Hok Hnn H3.
  assert (Hs : 0 <= Z.of_nat k) by lia.
  rewrite apply_single_unfold in H. rewrite Hom in H. cbn [bind] in H.
  destruct (py_index (ps_added st) (Z.of_nat k)) as [am|]; cbn [bind] in H; [|discriminate].
  destruct (py_index (m_subgraphs (ps_model st)) (Z.of_nat k)) as [g0|] eqn:Eg; cbn [bind] in H; [|discriminate].
  apply (py_index_nonneg _ _ _ Hs) in Eg. destruct Eg as [Eg _]. rewrite Nat2Z.id, Hg in Eg. inversion Eg; subst g0.
  destruct (resolve om am (i_producer i)) as [producer|]; cbn [bind] in H; [|discriminate].
  rewrite Hcs in H. cbn [bind] in H.
  destruct (trans_of i (m_opcodes (ps_model st)) (m_buffers (ps_model st)) g producer cs)
    as [[[[c' b'] g1] info]|] eqn:T; cbn [bind] in H; [|discriminate].
  assert (P1 : readers_profile (ntens g) g1 = moved_profile (i_tensor i) cs g /\ ntens g1 = ntens g + 1).
  { unfold trans_of in T. destruct Htr as [E|E]; rewrite E in T.
    - split; [eapply insert_common_new_profile; eauto|].
      destruct (insert_common_other _ _ _ _ _ _ _ _ _ _ _ _ (proj1 Ht) T) as (A & _). exact A.
    - split; [eapply insert_common_new_profile; eauto|].
      destruct (insert_common_other _ _ _ _ _ _ _ _ _ _ _ _ (proj1 Ht) T) as (A & _). exact A. }
  destruct P1 as [P1 N1].
  assert (Hg1 : nth_opt (m_subgraphs (ps_model st1)) k = Some g1).
  { destruct (to_added info =? 0); inversion H; subst st1; cbn [ps_model set_sg m_subgraphs];
      rewrite Nat2Z.id; apply nth_opt_set_nth_same; eapply nth_opt_Some_lt; exact Hg. }
  assert (Hx : 0 <= ntens g < ntens g1) by (unfold ntens, lenZ in *; lia).
  destruct (apply_insts_profile (Z.of_nat k) k (ntens g) Hs fuel later1 st1 st2 g1 Hnn1 Hg1 Hx (or_intror Hq1) H2)
    as (g2 & Hg2 & P2 & N2).
  destruct (run_all_profile k (ntens g) post st2 st3 g2 Hok Hnn Hg2 ltac:(lia) H3) as (g3 & Hg3 & P3 & _).
  exists g3. split; [exact Hg3|]. congruence.
Qed.

(* ... and what that new tensor is: typed by the instruction's parameters at the
   step, and never changed afterwards *)
Definition new_tensor_type (is_quant : bool) (ps : option qparam) (tn : tensor) : Prop :=
  match ps with
  | None => True
  | Some p =>
      if is_quant then
        (if qp_uniform p
         then quant_params_to_tflite_type (qp_bits p) = Ok (t_ty tn) /\ t_q tn = Some (qp_id p)
         else nonlinear_quant_params_to_tflite_type (qp_bits p) = Ok (t_ty tn))
      else t_ty tn = TY_FLOAT32 /\ t_q tn = None
  end.

Theorem inserted_tensor_typed k st i later st1 later1 fuel st2 post st3 g :
  nth_opt (m_subgraphs (ps_model st)) k = Some g ->
  (i_trans i = Tr_ADD_QUANTIZE \/ i_trans i = Tr_ADD_DEQUANTIZE) ->
  0 <= i_tensor i < ntens g -> (forall t0, tensor_at g (i_tensor i) = Some t0 -> 0 <= t_buf t0) ->
  apply_single st (Z.of_nat k) i later = Ok (st1, later1) ->
  Forall (fun j => 0 <= i_tensor j) later1 -> Forall (quiet (ntens g)) later1 ->
  apply_insts st1 (Z.of_nat k) later1 fuel = Ok st2 ->
  ids_ok post -> never_names k (ntens g) post -> run_all post st2 = Ok st3 ->
  exists g3 tn, nth_opt (m_subgraphs (ps_model st3)) k = Some g3 /\
                tensor_at g3 (ntens g) = Some tn /\
                new_tensor_type (qtrans_eqb (i_trans i) Tr_ADD_QUANTIZE) (i_params i) tn.
Proof.
  intros Hg Htr Ht Hbuf H Hnn1 Hq1 H2 Hok Hnn H3.
  assert (Hs : 0 <= Z.of_nat k) by lia.
  pose proof H as H'. rewrite apply_single_unfold in H'.
  destruct (py_index (ps_orig st) (Z.of_nat k)) as [om|]; cbn [bind] in H'; [|discriminate].
  destruct (py_index (ps_added st) (Z.of_nat k)) as [am|]; cbn [bind] in H'; [|discriminate].
  destruct (py_index (m_subgraphs (ps_model st)) (Z.of_nat k)) as [g0|] eqn:Eg; cbn [bind] in H'; [|discriminate].
  apply (py_index_nonneg _ _ _ Hs) in Eg. destruct Eg as [Eg _]. rewrite Nat2Z.id, Hg in Eg. inversion Eg; subst g0.
  destruct (resolve om am (i_producer i)) as [producer|]; cbn [bind] in H'; [|discriminate].
  destruct (mapM _ (i_consumers i)) as [cs|]; cbn [bind] in H'; [|discriminate].
  destruct (trans_of i (m_opcodes (ps_model st)) (m_buffers (ps_model st)) g producer cs)
    as [[[[c' b'] g1] info]|] eqn:T; cbn [bind] in H'; [|discriminate].
  assert (P1 : exists tn, tensor_at g1 (ntens g) = Some tn /\
                          new_tensor_type (qtrans_eqb (i_trans i) Tr_ADD_QUANTIZE) (i_params i) tn /\
                          ntens g1 = ntens g + 1).
  { unfold trans_of in T. destruct Htr as [E|E]; rewrite E in T |- *; cbn [qtrans_eqb].
    - destruct (insert_common_types _ _ _ _ _ _ _ _ _ _ _ _ (proj1 Ht) Hbuf T) as (t0 & tn & _ & A & _ & _ & _ & _ & _ & _ & B).
      destruct (insert_common_other _ _ _ _ _ _ _ _ _ _ _ _ (proj1 Ht) T) as (N & _).
      exists tn. split; [exact A|]. split; [|exact N]. unfold new_tensor_type. destruct (i_params i) as [p|]; [|exact I].
      change (qtrans_eqb Tr_ADD_QUANTIZE Tr_ADD_QUANTIZE) with true. exact B.
    - destruct (insert_common_types _ _ _ _ _ _ _ _ _ _ _ _ (proj1 Ht) Hbuf T) as (t0 & tn & _ & A & _ & _ & _ & _ & _ & _ & B).
      destruct (insert_common_other _ _ _ _ _ _ _ _ _ _ _ _ (proj1 Ht) T) as (N & _).
      exists tn. split; [exact A|]. split; [|exact N]. unfold new_tensor_type. destruct (i_params i) as [p|]; [|exact I].
      change (qtrans_eqb Tr_ADD_DEQUANTIZE Tr_ADD_QUANTIZE) with false. destruct B as (B1 & B2 & _). split; assumption. }
  destruct P1 as (tn & A1 & B1 & N1).
  assert (Hg1 : nth_opt (m_subgraphs (ps_model st1)) k = Some g1).
  { destruct (to_added info =? 0); inversion H'; subst st1; cbn [ps_model set_sg m_subgraphs];
      rewrite Nat2Z.id; apply nth_opt_set_nth_same; eapply nth_opt_Some_lt; exact Hg. }
  assert (Hx : 0 <= ntens g < ntens g1) by (unfold ntens, lenZ in *; lia).
  destruct (apply_insts_untouched (Z.of_nat k) k (ntens g) Hs fuel later1 st1 st2 g1 Hnn1 Hg1 Hx (or_intror Hq1) H2)
    as (g2 & Hg2 & T2 & N2).
  destruct (run_all_untouched k (ntens g) post st2 st3 g2 Hok Hnn Hg2 ltac:(lia) H3) as (g3 & Hg3 & T3 & _).
  exists g3, tn. split; [exact Hg3|]. split; [congruence|exact B1].
Qed.

(* ================================================================== *)
(* The same for a tensor that IS named, but only by in-place quantization
   (QUANTIZE_TENSOR): the dominant case of full-integer models, where every
   activation between two quantized operators and every weight is retyped in
   place.  Its readers are exactly the original ones, at the original slots. *)
Definition inplace_or_quiet (t : Z) (i : inst) : Prop :=
  is_insertion (i_trans i) = true -> i_tensor i <> t \/ i_trans i = Tr_QUANTIZE_TENSOR.

Lemma apply_single_inplace st sgid i later st' later' k g :
  0 <= sgid -> i_trans i = Tr_QUANTIZE_TENSOR ->
  nth_opt (m_subgraphs (ps_model st)) k = Some g ->
  apply_single st sgid i later = Ok (st', later') ->
  later' = later /\
  exists g', nth_opt (m_subgraphs (ps_model st')) k = Some g' /\ sg_ops g' = sg_ops g /\ ntens g' = ntens g.
Proof.
  intros Hs Htr Hg H. rewrite apply_single_unfold in H.
  destruct (py_index (ps_orig st) sgid) as [om|]; cbn [bind] in H; [|discriminate].
  destruct (py_index (ps_added st) sgid) as [am|]; cbn [bind] in H; [|discriminate].
  destruct (py_index (m_subgraphs (ps_model st)) sgid) as [g0|] eqn:Eg; cbn [bind] in H; [|discriminate].
  destruct (resolve om am (i_producer i)) as [producer|]; cbn [bind] in H; [|discriminate].
  destruct (mapM _ (i_consumers i)) as [cs|]; cbn [bind] in H; [|discriminate].
  unfold trans_of in H. rewrite Htr in H.
  destruct (quantize_tensor (m_buffers (ps_model st)) g0 (i_tensor i) (i_params i)) as [[b2 g2]|] eqn:Q;
    cbn [bind fst snd] in H; [|discriminate].
  cbn [to_added Z.eqb] in H. inversion H; subst st' later'. split; [reflexivity|].
  cbn [ps_model set_sg m_subgraphs].
  destruct (quantize_tensor_shape _ _ _ _ _ _ Q) as (Hops & _ & _ & Hn & _).
  apply (py_index_nonneg _ _ _ Hs) in Eg. destruct Eg as [Eg _].
  destruct (Nat.eq_dec k (Z.to_nat sgid)) as [->|Hk].
  - rewrite Hg in Eg. inversion Eg; subst g0. exists g2.
    split; [apply nth_opt_set_nth_same; eapply nth_opt_Some_lt; exact Hg|]. split; assumption.
  - exists g. split; [rewrite nth_opt_set_nth_other by exact Hk; exact Hg|]. split; reflexivity.
Qed.

Lemma apply_insts_profile2 sg k t : 0 <= sg -> forall fuel is st st' g,
  Forall (fun i => 0 <= i_tensor i) is ->
  nth_opt (m_subgraphs (ps_model st)) k = Some g -> 0 <= t < ntens g ->
  (Z.to_nat sg <> k \/ Forall (inplace_or_quiet t) is) ->
  apply_insts st sg is fuel = Ok st' ->
  exists g', nth_opt (m_subgraphs (ps_model st')) k = Some g' /\
             readers_profile t g' = readers_profile t g /\ ntens g <= ntens g'.
Proof.
  intros Hs. induction fuel as [|f IH]; intros is st st' g Hnn Hg Ht Hno H.
  - destruct is; cbn in H; [|discriminate]. inversion H; subst. exists g. split; [exact Hg|]. split; [reflexivity|lia].
  - destruct is as [|i later]; cbn [apply_insts] in H.
    + inversion H; subst. exists g. split; [exact Hg|]. split; [reflexivity|lia].
    + inversion Hnn as [|? ? Hi Hnn']; subst.
      assert (Hno' : Z.to_nat sg <> k \/ Forall (inplace_or_quiet t) later).
      { destruct Hno as [C|F]; [left; exact C|right; inversion F; assumption]. }
      destruct (is_insertion (i_trans i)) eqn:Eins.
      * destruct (apply_single st sg i later) as [[st1 later1]|] eqn:E; cbn [bind fst snd] in H; [|discriminate].
        (* either the step is on another subgraph / tensor, or it is in place *)
        assert (Hcase : (Z.to_nat sg <> k \/ i_tensor i <> t) \/ i_trans i = Tr_QUANTIZE_TENSOR).
        { destruct Hno as [C|F]; [left; left; exact C|]. inversion F as [|? ? Fq _]. destruct (Fq Eins) as [A|A]; [left; right; exact A|right; exact A]. }
        destruct Hcase as [Hne|Hqt].
        -- destruct (apply_single_untouched _ _ _ _ _ _ _ _ _ Hs Hi Hg Ht Hne E) as (g1 & Hg1 & _ & Hn & L1 & L2).
           destruct (apply_single_profile _ _ _ _ _ _ _ _ _ Hs Hi Hg Ht Hne E) as (g1' & Hg1' & P1).
           rewrite Hg1 in Hg1'. inversion Hg1'; subst g1'.
           assert (Hnn1 : Forall (fun i => 0 <= i_tensor i) later1).
           { apply Forall_forall. intros j Hj. destruct (L2 j Hj) as [Hj0|(j0 & Hj0 & Ej)]; [exact Hj0|].
             rewrite <- Ej. rewrite Forall_forall in Hnn'. apply Hnn'. exact Hj0. }
           assert (Hno1 : Z.to_nat sg <> k \/ Forall (inplace_or_quiet t) later1).
           { destruct Hno' as [C|F]; [left; exact C|].
             destruct (Nat.eq_dec (Z.to_nat sg) k) as [Ek|Nk]; [|left; exact Nk].
             right. apply Forall_forall. intros j Hj Hjins.
             destruct (Z.eq_dec (i_tensor j) t) as [Ejt|Njt]; [|left; exact Njt].
             destruct (L1 Ek j Hj Ejt) as (j0 & Hj0 & Ej0 & Etr).
             rewrite Forall_forall in F. destruct (F j0 Hj0 ltac:(rewrite Etr; exact Hjins)) as [A|A]; [contradiction|].
             right. congruence. }
           destruct (IH later1 st1 st' g1 Hnn1 Hg1 ltac:(lia) Hno1 H) as (g2 & Hg2 & P2 & Hn2).
           exists g2. split; [exact Hg2|]. split; [congruence|lia].
        -- destruct (apply_single_inplace _ _ _ _ _ _ _ _ Hs Hqt Hg E) as (-> & g1 & Hg1 & Hops & Hn).
           destruct (IH later st1 st' g1 Hnn' Hg1 ltac:(lia) Hno' H) as (g2 & Hg2 & P2 & Hn2).
           exists g2. split; [exact Hg2|]. split; [|lia].
           rewrite P2. unfold readers_profile. rewrite Hops. reflexivity.
      * destruct (qtrans_eqb (i_trans i) Tr_EMULATED_SUBCHANNEL); [discriminate|].
        eapply IH; eassumption.
Qed.

Definition only_inplace (k : nat) (t : Z) (tis : list tinsts) : Prop :=
  forall ti i, In ti tis -> ti_sg ti = Z.of_nat k -> In i (ti_insts ti) -> inplace_or_quiet t i.

Lemma run_all_profile2 k t : forall tis st0 st1 g0,
  ids_ok tis -> only_inplace k t tis ->
  nth_opt (m_subgraphs (ps_model st0)) k = Some g0 -> 0 <= t < ntens g0 ->
  run_all tis st0 = Ok st1 ->
  exists g', nth_opt (m_subgraphs (ps_model st1)) k = Some g' /\
             readers_profile t g' = readers_profile t g0 /\ ntens g0 <= ntens g'.
Proof.
  unfold run_all. induction tis as [|ti tis IH]; intros st0 st1 g0 Hok Hno Hg Ht H; cbn [foldM] in H.
  - inversion H; subst. exists g0. split; [exact Hg|]. split; [reflexivity|lia].
  - inversion Hok as [|? ? [Hsg Hnn] Hok']; subst.
    destruct (apply_insts st0 (ti_sg ti) (ti_insts ti) (length (ti_insts ti))) as [st2|] eqn:E; cbn [bind] in H; [|discriminate].
    assert (Hno1 : Z.to_nat (ti_sg ti) <> k \/ Forall (inplace_or_quiet t) (ti_insts ti)).
    { destruct (Z.eq_dec (ti_sg ti) (Z.of_nat k)) as [Ek|Nk].
      - right. apply Forall_forall. intros i Hi. exact (Hno ti i (or_introl eq_refl) Ek Hi).
      - left. lia. }
    destruct (apply_insts_profile2 _ _ _ Hsg _ _ _ _ _ Hnn Hg Ht Hno1 E) as (g1 & Hg1 & P1 & Hn).
    destruct (IH st2 st1 g1 Hok' (fun ti' i' Hin => Hno ti' i' (or_intror Hin)) Hg1 ltac:(lia) H) as (g2 & Hg2 & P2 & Hn2).
    exists g2. split; [exact Hg2|]. split; [congruence|lia].
Qed.

(* a tensor that is only ever quantized IN PLACE keeps all its readers, at the
   same operand slots, over the whole run *)
Theorem transform_graph_readers_inplace m tis m' k g t :
  nth_opt (m_subgraphs m) k = Some g -> 0 <= t < ntens g ->
  ids_ok tis -> only_inplace k t tis ->
  transform_graph m tis = Ok m' ->
  exists g', nth_opt (m_subgraphs m') k = Some g' /\ readers_profile t g' = readers_profile t g.
Proof.
  intros Hg Ht Hok Hno H. unfold transform_graph in H.
  match type of H with bind ?x _ = _ => destruct x as [st|] eqn:E end; cbn [bind] in H; [|discriminate].
  inversion H; subst m'; clear H.
  destruct (run_all_profile2 k t tis (init_pstate m) st g Hok Hno Hg Ht E) as (g' & A & B & _). eauto.
Qed.

(* ================================================================== *)
(* Complement of insert_common_new_profile: what still reads the OLD tensor *)
Definition stayed (tid : Z) (cs : list Z) (ko : Z * op) : Z * list bool :=
  (o_uid (snd ko), if memZ (fst ko) cs then map (fun _ => false) (o_ins (snd ko))
                   else map (Z.eqb tid) (o_ins (snd ko))).
Definition stayed_profile (tid : Z) (cs : list Z) (g : subgraph) : list (Z * list bool) :=
  map (stayed tid cs) (filter (fun ko => is_original (snd ko)) (enumerate (sg_ops g))).

Lemma slots_old_rewire o old new : new <> old -> slots old (rewire_op o old new) = (o_uid o, map (fun _ => false) (o_ins o)).
Proof.
  intros Hne. unfold slots, rewire_op. cbn [o_uid o_ins]. f_equal. rewrite map_map.
  apply map_ext. intros y. destruct (Z.eqb_spec y old) as [->|Hy].
  - destruct (Z.eqb_spec old new); [congruence|reflexivity].
  - destruct (Z.eqb_spec old y); [congruence|reflexivity].
Qed.

Lemma pointwise_old_profile old new cs : new <> old -> forall (l l' : list op) i0,
  (forall k, nth_opt l' k = option_map (fun o => if memZ (i0 + Z.of_nat k) cs then rewire_op o old new else o)
                                       (nth_opt l k)) ->
  map (slots old) (filter is_original l') =
  map (stayed old cs) (filter (fun ko => is_original (snd ko)) (enumerate_from i0 l)).
Proof.
  intros Hne. induction l as [|o l IH]; intros l' i0 H.
  - destruct l' as [|o' l']; [reflexivity|]. specialize (H 0%nat). discriminate.
  - destruct l' as [|o' l']; [specialize (H 0%nat); discriminate|].
    pose proof (H 0%nat) as H0. cbn [nth_opt option_map] in H0. rewrite Z.add_0_r in H0. inversion H0 as [E0].
    cbn [enumerate_from filter snd].
    assert (Htl : map (slots old) (filter is_original l') =
                  map (stayed old cs) (filter (fun ko => is_original (snd ko)) (enumerate_from (i0 + 1) l))).
    { apply IH. intros k. specialize (H (S k)). cbn [nth_opt] in H. rewrite H.
      replace (i0 + Z.of_nat (S k)) with (i0 + 1 + Z.of_nat k) by lia. reflexivity. }
    destruct (memZ i0 cs) eqn:Em.
    + rewrite is_original_rewire. destruct (is_original o); cbn [map]; [|exact Htl].
      rewrite Htl. f_equal. unfold stayed. cbn [fst snd]. rewrite Em. apply slots_old_rewire. exact Hne.
    + destruct (is_original o); cbn [map]; [|exact Htl].
      rewrite Htl. f_equal. unfold stayed. cbn [fst snd]. rewrite Em. reflexivity.
Qed.

Lemma stayed_ext tid cs cs' l : forall i0, 0 <= i0 ->
  (forall k, 0 <= k -> memZ k cs' = memZ k cs) ->
  map (stayed tid cs') (filter (fun ko => is_original (snd ko)) (enumerate_from i0 l)) =
  map (stayed tid cs) (filter (fun ko => is_original (snd ko)) (enumerate_from i0 l)).
Proof.
  induction l as [|o l IH]; intros i0 H0 H; [reflexivity|]. cbn [enumerate_from filter snd].
  destruct (is_original o); cbn [map]; [f_equal|]; try (apply IH; [lia|exact H]).
  unfold stayed. cbn [fst snd]. rewrite (H i0 H0). reflexivity.
Qed.

Lemma insert_common_old_profile q codes bufs g tid producer cs ps codes' bufs' g' info :
  0 <= tid < ntens g -> Forall (fun c => c = -1 \/ 0 <= c) cs ->
  insert_common q codes bufs g tid producer cs ps = Ok (codes', bufs', g', info) ->
  readers_profile tid g' = stayed_profile tid cs g.
Proof.
  intros Htid Hcs H. unfold insert_common in H.
  destruct (add_op_code _ codes) as [cidx cds].
  destruct (get_tensor g tid) as [t0|]; cbn [bind] in H; [|discriminate].
  match type of H with bind ?m _ = _ => destruct m as [[b2 g2]|] eqn:Q end; cbn [bind] in H; [|discriminate].
  destruct (py_min cs); cbn [bind] in H; [|discriminate].
  match type of H with bind ?m _ = _ => destruct m as [ops'|] eqn:R end; cbn [bind] in H; [|discriminate].
  destruct (Z.max (producer + 1) _ <? 0); [discriminate|]. inversion H; subst; clear H.
  destruct (quantize_tensor_shape _ _ _ _ _ _ Q) as (Hops & _). cbn [sg_ops] in Hops.
  unfold readers_profile, stayed_profile. cbn [sg_ops].
  rewrite filter_insert_at by reflexivity. rewrite Hops in R. rewrite rewire_drop_absent in R.
  set (cs' := filter (fun c => negb (Z.eqb c (-1))) cs) in *.
  assert (Hcs' : Forall (fun c => 0 <= c) cs').
  { unfold cs'. apply Forall_forall. intros c Hc. apply filter_In in Hc. destruct Hc as [Hc Hn].
    rewrite Forall_forall in Hcs. destruct (Hcs c Hc) as [->|]; [discriminate|assumption]. }
  assert (Hne : lenZ (sg_tensors g) <> tid) by (unfold ntens in Htid; lia).
  pose proof (rewire_fun cs' _ _ _ _ Hne Hcs' R) as HF.
  unfold enumerate.
  rewrite (pointwise_old_profile tid (lenZ (sg_tensors g)) cs' Hne (sg_ops g) ops' 0).
  - apply stayed_ext; [lia|]. intros k Hk. unfold cs'. apply memZ_filter_absent. exact Hk.
  - intros k. rewrite Z.add_0_l. apply HF.
Qed.
