(* Proofs/ReadersOrig.v — the positive operand-level clause of C03 in terms of
   the ORIGINAL graph, for a tensor whose instruction list is one inserted
   QUANTIZE / DEQUANTIZE: after the whole run of transform_graph, the j-th
   original operator reads the new tensor at exactly the slots where it read
   t in the input model iff the instruction lists j; no other original operator
   reads it.  (The performer's id maps and the skeleton invariant identify the
   resolved positions with the original operators.) *)
From Coq Require Import Sorted.
From VF Require Import Base.Prelude Gen.Enums Model.Graph Gen.InstChecks Model.Insts
     Model.Perform Spec.WF Proofs.ListFacts Proofs.PerformStep Proofs.ModeProofs Proofs.LocalProofs
     Proofs.PerformInv Proofs.RangeInv Proofs.AloneProofs Proofs.UntouchedProofs Proofs.SkeletonInv
     Proofs.ReadersProofs.

Lemma pend_of_app a b : pend_of (a ++ b) = pend_of a ++ pend_of b.
Proof. unfold pend_of. apply flat_map_app. Qed.

Lemma run_both_rest m0 : uids_ok m0 -> forall tis rest st st',
  ginv st (pend_of tis ++ rest) -> sinv m0 st -> run_all tis st = Ok st' -> ginv st' rest /\ sinv m0 st'.
Proof.
  intros Hu. unfold run_all. induction tis as [|ti tis IH]; intros rest st st' HI HS H; cbn [foldM] in H.
  - inversion H; subst. auto.
  - destruct (apply_insts st (ti_sg ti) (ti_insts ti) (length (ti_insts ti))) as [st1|] eqn:E; cbn [bind] in H; [|discriminate].
    cbn [pend_of flat_map] in HI. rewrite <- app_assoc in HI.
    destruct (apply_insts_both m0 (ti_sg ti) Hu _ _ _ _ _ HI HS E) as [HI1 HS1].
    eapply IH; eassumption.
Qed.

(* positions of the operators satisfying P, when they are exactly the sorted list om *)
Lemma filter_enum_sorted {A} (P : A -> bool) : forall (l : list A) i0 om,
  StronglySorted Z.lt om ->
  (forall p, In p om <-> exists k o, p = i0 + Z.of_nat k /\ nth_opt l k = Some o /\ P o = true) ->
  map fst (filter (fun ko => P (snd ko)) (enumerate_from i0 l)) = om.
Proof.
  induction l as [|x l IH]; intros i0 om Hs H.
  - cbn. destruct om as [|p om]; [reflexivity|]. destruct (proj1 (H p) (or_introl eq_refl)) as (k & o & _ & Hn & _).
    destruct k; discriminate.
  - cbn [enumerate_from filter snd]. destruct (P x) eqn:Px.
    + assert (Hin : In i0 om) by (apply H; exists 0%nat, x; repeat split; [lia|exact Px]).
      destruct om as [|p om]; [destruct Hin|]. inversion Hs as [|? ? Hs' Hlt]; subst.
      assert (Hp : p = i0).
      { destruct Hin as [E|Hin]; [exact E|]. rewrite Forall_forall in Hlt. specialize (Hlt _ Hin).
        destruct (proj1 (H p) (or_introl eq_refl)) as (k & o & Ek & _). lia. }
      subst p. cbn [map fst]. f_equal. apply IH; [exact Hs'|]. intros q. split.
      * intros Hq. destruct (proj1 (H q) (or_intror Hq)) as (k & o & Ek & Hn & Po).
        rewrite Forall_forall in Hlt. specialize (Hlt _ Hq).
        destruct k as [|k]; [lia|]. exists k, o. repeat split; [lia|exact Hn|exact Po].
      * intros (k & o & Ek & Hn & Po). destruct (proj2 (H q)) as [E|Hq]; [exists (S k), o; repeat split; [lia|exact Hn|exact Po]|lia|exact Hq].
    + apply IH; [exact Hs|]. intros q. split.
      * intros Hq. destruct (proj1 (H q) Hq) as (k & o & Ek & Hn & Po).
        destruct k as [|k]; [cbn in Hn; inversion Hn; subst; congruence|]. exists k, o. repeat split; [lia|exact Hn|exact Po].
      * intros (k & o & Ek & Hn & Po). apply H. exists (S k), o. repeat split; [lia|exact Hn|exact Po].
Qed.

Lemma map_const_len {A B} (l : list A) (l' : list B) :
  length l = length l' -> map (fun _ => false) l = map (fun _ => false) l'.
Proof. revert l'. induction l as [|a l IH]; intros [|b l'] H; cbn in *; try lia; [reflexivity|]. f_equal. apply IH. lia. Qed.

(* the zipped comparison *)
Lemma moved_transfer t cs C : forall (ops0 : list op) (L : list (Z * op)) j0,
  map (fun ko => slots t (snd ko)) L = map (slots t) ops0 ->
  (forall idx p o, nth_opt L idx = Some (p, o) -> memZ p cs = memZ (j0 + Z.of_nat idx) C) ->
  map (moved t cs) L = map (moved t C) (enumerate_from j0 ops0).
Proof.
  induction ops0 as [|o0 ops0 IH]; intros L j0 Hs Hm; destruct L as [|[p o] L]; cbn in Hs; try discriminate; [reflexivity|].
  inversion Hs as [[Hu Hsl Htl]]. cbn [enumerate_from map]. f_equal.
  - unfold moved. cbn [fst snd]. rewrite Hu. rewrite (Hm 0%nat p o eq_refl), Z.add_0_r.
    destruct (memZ j0 C); [rewrite Hsl; reflexivity|].
    f_equal. apply map_const_len. apply (f_equal (@length bool)) in Hsl. rewrite !map_length in Hsl. exact Hsl.
  - apply IH; [exact Htl|]. intros idx p' o' Hn. rewrite (Hm (S idx) p' o' Hn). f_equal. lia.
Qed.

Lemma memZ_resolved om : StronglySorted Z.lt om -> Forall (fun p => 0 <= p) om ->
  forall C cs, Forall (fun c => -1 <= c) C ->
  mapM (fun c => if Z.eqb c (-1) then Ok (-1) else py_index om c) C = Ok cs ->
  forall j p, nth_opt om j = Some p -> memZ p cs = memZ (Z.of_nat j) C.
Proof.
  intros Hs Hnn. induction C as [|c C IH]; intros cs HC H j p Hj; cbn [mapM] in H.
  - inversion H; subst. reflexivity.
  - inversion HC as [|? ? Hc HC']; subst.
    destruct (Z.eqb_spec c (-1)) as [->|Hne].
    + cbn [bind] in H. destruct (mapM _ C) as [r|] eqn:E; cbn [bind] in H; [|discriminate]. inversion H; subst.
      unfold memZ. cbn [existsb]. fold (memZ p r) (memZ (Z.of_nat j) C). rewrite (IH r HC' eq_refl j p Hj).
      rewrite Forall_forall in Hnn. specialize (Hnn p (nth_opt_In _ _ _ Hj)).
      destruct (Z.eqb_spec p (-1)); [lia|]. destruct (Z.eqb_spec (Z.of_nat j) (-1)); [lia|reflexivity].
    + destruct (py_index om c) as [x|] eqn:Ex; cbn [bind] in H; [|discriminate].
      destruct (mapM _ C) as [r|] eqn:E; cbn [bind] in H; [|discriminate]. inversion H; subst.
      unfold memZ. cbn [existsb]. fold (memZ p r) (memZ (Z.of_nat j) C). rewrite (IH r HC' eq_refl j p Hj). f_equal.
      assert (Hc0 : 0 <= c) by lia. apply (py_index_nonneg _ _ _ Hc0) in Ex. destruct Ex as [Ex _].
      (* injectivity of a strictly sorted list *)
      assert (Hinj : forall (l : list Z), StronglySorted Z.lt l -> forall a b v, nth_opt l a = Some v -> nth_opt l b = Some v -> a = b).
      { induction l as [|y l IHl]; intros Hsl a b v Ha Hb; [destruct a; discriminate|].
        inversion Hsl as [|? ? Hsl' Hlt]; subst. rewrite Forall_forall in Hlt.
        destruct a as [|a], b as [|b]; cbn [nth_opt] in *.
        - reflexivity.
        - inversion Ha; subst. specialize (Hlt _ (nth_opt_In _ _ _ Hb)). lia.
        - inversion Hb; subst. specialize (Hlt _ (nth_opt_In _ _ _ Ha)). lia.
        - f_equal. eapply IHl; eauto. }
      destruct (Z.eqb_spec p x) as [->|Hpx].
      * rewrite (Hinj om Hs _ _ _ Hj Ex). rewrite Z2Nat.id by exact Hc0. rewrite Z.eqb_refl. reflexivity.
      * destruct (Z.eqb_spec (Z.of_nat j) c) as [E2|_]; [|reflexivity].
        exfalso. apply Hpx. subst c. rewrite Nat2Z.id in Ex. congruence.
Qed.

Lemma filter_enum_snd {A} (P : A -> bool) : forall (l : list A) i0,
  map snd (filter (fun ko => P (snd ko)) (enumerate_from i0 l)) = filter P l.
Proof.
  induction l as [|x l IH]; intros i0; [reflexivity|]. cbn [enumerate_from filter snd].
  destruct (P x); cbn [map snd]; [f_equal|]; apply IH.
Qed.

Lemma filter_all {A} (P : A -> bool) (l : list A) : (forall x, In x l -> P x = true) -> filter P l = l.
Proof.
  induction l as [|x l IH]; intros H; [reflexivity|]. cbn [filter]. rewrite (H x (or_introl eq_refl)).
  f_equal. apply IH. intros y Hy. apply H. right. exact Hy.
Qed.

Lemma in_enum_all' {A} (l : list A) : forall i1 gi y,
  In (gi, y) (enumerate_from i1 l) -> exists j, gi = i1 + Z.of_nat j /\ nth_opt l j = Some y.
Proof.
  induction l as [|b l IH]; intros i1 gi y H; [destruct H|]. cbn [enumerate_from] in H. destruct H as [E|H].
  - inversion E; subst. exists 0%nat. split; [lia|reflexivity].
  - destruct (IH _ _ _ H) as (j & -> & Hn). exists (S j). split; [lia|exact Hn].
Qed.

Lemma apply_single_nil st sg i st' l' : apply_single st sg i [] = Ok (st', l') -> l' = [].
Proof.
  rewrite apply_single_unfold.
  destruct (py_index (ps_orig st) sg); cbn [bind]; [|discriminate].
  destruct (py_index (ps_added st) sg); cbn [bind]; [|discriminate].
  destruct (py_index (m_subgraphs (ps_model st)) sg); cbn [bind]; [|discriminate].
  destruct (resolve _ _ _); cbn [bind]; [|discriminate].
  destruct (mapM _ _); cbn [bind]; [|discriminate].
  destruct (trans_of _ _ _ _ _ _) as [[[[c b] g'] info]|]; cbn [bind]; [|discriminate].
  destruct (to_added info =? 0); intros H; inversion H; reflexivity.
Qed.

Theorem single_insertion_readers m0 pre ti0 post m' k g0 i0 :
  Forall wf_sg (m_subgraphs m0) -> uids_ok m0 ->
  (forall ti i, In ti (pre ++ ti0 :: post) -> In i (ti_insts ti) -> sane m0 (ti_sg ti) i) ->
  ids_ok (pre ++ ti0 :: post) ->
  nth_opt (m_subgraphs m0) k = Some g0 ->
  ti_sg ti0 = Z.of_nat k -> ti_insts ti0 = [i0] ->
  (i_trans i0 = Tr_ADD_QUANTIZE \/ i_trans i0 = Tr_ADD_DEQUANTIZE) ->
  Forall (fun c => -1 <= c) (i_consumers i0) ->
  never_names k (i_tensor i0) pre ->
  (forall t0, tensor_at g0 (i_tensor i0) = Some t0 -> 0 <= t_buf t0) ->
  transform_graph m0 (pre ++ ti0 :: post) = Ok m' ->
  exists x' g' tn, nth_opt (m_subgraphs m') k = Some g' /\ ntens g0 <= x' /\
                readers_profile x' g' = moved_profile (i_tensor i0) (i_consumers i0) g0 /\
                tensor_at g' x' = Some tn /\
                new_tensor_type (qtrans_eqb (i_trans i0) Tr_ADD_QUANTIZE) (i_params i0) tn.
Proof.
  intros Hwf Hu Hsane Hids Hg0 Hsg Hins Htr HC Hnn Hbuf0 H.
  set (t := i_tensor i0) in *. set (C := i_consumers i0) in *.
  unfold transform_graph in H.
  match type of H with bind ?x _ = _ => destruct x as [st3|] eqn:E end; cbn [bind] in H; [|discriminate].
  inversion H; subst m'; clear H.
  fold (run_all (pre ++ ti0 :: post) (init_pstate m0)) in E. unfold run_all in E. rewrite foldM_app in E.
  fold (run_all pre (init_pstate m0)) in E.
  destruct (run_all pre (init_pstate m0)) as [st|] eqn:E1; cbn [bind] in E; [|discriminate].
  cbn [foldM] in E. rewrite Hsg, Hins in E. cbn [length apply_insts] in E.
  assert (Hisins : is_insertion (i_trans i0) = true) by (destruct Htr as [-> | ->]; reflexivity).
  rewrite Hisins in E.
  destruct (apply_single st (Z.of_nat k) i0 []) as [[st1 later1]|] eqn:ES; cbn [bind fst snd] in E; [|discriminate].
  pose proof (apply_single_nil _ _ _ _ _ ES) as ->. cbn [apply_insts bind] in E.
  fold (run_all post st1) in E.
  (* invariants before the step *)
  pose proof (init_ginv m0 _ Hwf Hsane) as HG0. rewrite pend_of_app in HG0.
  destruct (run_both_rest m0 Hu pre _ _ _ HG0 (init_sinv _ Hu) E1) as [HG [SL SK]].
  destruct (ids_ok_app _ _ Hids) as [Hids_pre Hids2]. inversion Hids2 as [|? ? _ Hids_post]; subst.
  pose proof HG as [Lo La Hm Hp].
  assert (Hk : (k < length (m_subgraphs (ps_model st)))%nat) by (rewrite SL; eapply nth_opt_Some_lt; exact Hg0).
  destruct (nth_opt_lt_Some (m_subgraphs (ps_model st)) k Hk) as [g Hg].
  destruct (nth_opt_lt_Some (ps_orig st) k ltac:(lia)) as [om Ho].
  destruct (nth_opt_lt_Some (ps_added st) k ltac:(lia)) as [am Ha].
  pose proof (Hm _ _ _ _ Hg Ho Ha) as [Hwfg Hsorted Hro Hra].
  pose proof (SK _ _ _ _ Hg0 Hg Ho) as [SKlen SKorig SKother SKtens _ _].
  assert (Hpend : In (Z.of_nat k, i0) (pend_of (ti0 :: post))).
  { cbn [pend_of flat_map]. apply in_app_iff. left. rewrite Hsg, Hins. left. reflexivity. }
  destruct (Hp _ _ Hpend) as [_ Hiok]. rewrite Nat2Z.id in Hiok. destruct (Hiok _ _ _ Hg Ho Ha) as (Htr_rng & _).
  (* readers of t before the step = in the input model *)
  assert (Ht0 : 0 <= t < ntens g0).
  { assert (Hin0 : In ti0 (pre ++ ti0 :: post)) by (apply in_app_iff; right; left; reflexivity).
    assert (Hi0 : In i0 (ti_insts ti0)) by (rewrite Hins; left; reflexivity).
    destruct (Hsane ti0 i0 Hin0 Hi0) as [_ Hs2]. rewrite Hsg, Nat2Z.id in Hs2. destruct (Hs2 _ Hg0) as (R & _). exact R. }
  destruct (run_all_profile k t pre (init_pstate m0) st g0 Hids_pre Hnn Hg0 Ht0 E1) as (g_ & Hg_ & Pt & _).
  rewrite Hg in Hg_. inversion Hg_; subst g_.
  (* resolved consumers *)
  pose proof ES as ES'. rewrite apply_single_unfold in ES'.
  rewrite (py_index_of_nat _ _ _ Ho) in ES'. cbn [bind] in ES'.
  rewrite (py_index_of_nat _ _ _ Ha) in ES'. cbn [bind] in ES'.
  rewrite (py_index_of_nat _ _ _ Hg) in ES'. cbn [bind] in ES'.
  destruct (resolve om am (i_producer i0)); cbn [bind] in ES'; [|discriminate].
  destruct (mapM (fun c => if Z.eqb c (-1) then Ok (-1) else py_index om c) (i_consumers i0)) as [cs|] eqn:Ecs;
    cbn [bind] in ES'; [|discriminate]. clear ES'.
  assert (Hcsr : Forall (fun c => c = -1 \/ 0 <= c) cs).
  { eapply Forall_impl; [|exact (mapM_consumers _ _ _ Ecs)]. cbn. intros c [->|Hc]; [left; reflexivity|right].
    rewrite Forall_forall in Hro. specialize (Hro _ Hc). lia. }
  assert (Hfresh : forall o, In o (sg_ops g) -> ~ In (ntens g) (o_ins o)).
  { intros o Ho' Hin. destruct (In_nth_opt _ _ Ho') as (kk & Hkk).
    destruct (wf_ins g Hwfg kk o (ntens g) Hkk Hin) as [E0|E0]; unfold ntens, lenZ in *; lia. }
  assert (Hnn_post : never_names k (ntens g) post).
  { intros ti i Hti Hsgi Hi _ Heq.
    assert (Hin : In ti (pre ++ ti0 :: post)) by (apply in_app_iff; right; right; exact Hti).
    destruct (Hsane ti i Hin Hi) as [_ Hs2]. rewrite Hsgi, Nat2Z.id in Hs2. destruct (Hs2 _ Hg0) as (R & _).
    destruct SKtens as [T _]. lia. }
  destruct (inserted_tensor_readers k st i0 [] st1 [] 0 st1 post st3 g om cs Hg Htr Htr_rng Hfresh
              (py_index_of_nat _ _ _ Ho) Ecs Hcsr ES (Forall_nil _) (Forall_nil _) eq_refl Hids_post Hnn_post E)
    as (g3 & Hg3 & P3).
  (* the tensor t itself is as in the input model (nothing before names it) *)
  destruct (run_all_untouched k t pre (init_pstate m0) st g0 Hids_pre Hnn Hg0 Ht0 E1) as (g_u & Hg_u & Tt & _).
  rewrite Hg in Hg_u. inversion Hg_u; subst g_u.
  assert (Hbuf : forall t0, tensor_at g t = Some t0 -> 0 <= t_buf t0) by (intros t0 Ht0'; apply Hbuf0; rewrite <- Tt; exact Ht0').
  destruct (inserted_tensor_typed k st i0 [] st1 [] 0 st1 post st3 g Hg Htr Htr_rng Hbuf ES
              (Forall_nil _) (Forall_nil _) eq_refl Hids_post Hnn_post E) as (g3' & tn & Hg3' & Ttn & Ttype).
  rewrite Hg3 in Hg3'. inversion Hg3'; subst g3'.
  exists (ntens g), g3, tn. split; [exact Hg3|]. split; [destruct SKtens as [T _]; exact T|].
  split; [|split; [exact Ttn|exact Ttype]].
  rewrite P3. unfold moved_profile.
  (* all operators of the input graph are original *)
  assert (Horig0 : forall o, In o (sg_ops g0) -> is_original o = true).
  { intros o Ho'. unfold uids_ok in Hu. rewrite Forall_forall in Hu. specialize (Hu _ (nth_opt_In _ _ _ Hg0)).
    rewrite Forall_forall in Hu. specialize (Hu _ Ho'). unfold is_original. destruct (Z.eqb_spec (o_uid o) UID_INSERTED); [contradiction|reflexivity]. }
  rewrite (filter_all (fun ko : Z * op => is_original (snd ko)) (enumerate (sg_ops g0))).
  2:{ intros [j o] Hjo. cbn [snd]. apply Horig0. unfold enumerate in Hjo.
      destruct (in_enum_all' _ _ _ _ Hjo) as (jj & _ & Hn). eapply nth_opt_In; exact Hn. }
  set (L := filter (fun ko : Z * op => is_original (snd ko)) (enumerate (sg_ops g))).
  assert (HLfst : map fst L = om).
  { unfold L, enumerate. apply filter_enum_sorted; [exact Hsorted|]. intros p. split.
    - intros Hp'. destruct (In_nth_opt _ _ Hp') as (j & Hj).
      assert (Hjl : (j < length (sg_ops g0))%nat) by (rewrite <- SKlen; eapply nth_opt_Some_lt; exact Hj).
      destruct (nth_opt_lt_Some _ _ Hjl) as [o0 Ho0].
      destruct (SKorig _ _ _ Ho0 Hj) as (Hp0 & o & Hat & _ & Huid & _).
      exists (Z.to_nat p), o. split; [lia|]. split; [exact Hat|].
      unfold is_original. rewrite Huid. apply Horig0. eapply nth_opt_In; exact Ho0.
    - intros (kk & o & -> & Hn & Po). destruct (SKother kk o Hn) as [Hin|[Hui _]]; [rewrite Z.add_0_l; exact Hin|].
      unfold is_original in Po. rewrite Hui in Po. discriminate. }
  apply moved_transfer.
  - rewrite <- (map_map snd (slots t)). unfold L, enumerate. rewrite filter_enum_snd.
    change (map (slots t) (filter is_original (sg_ops g))) with (readers_profile t g). rewrite Pt.
    unfold readers_profile. rewrite (filter_all is_original _ Horig0). reflexivity.
  - intros idx p o Hn. rewrite Z.add_0_l.
    assert (Hp' : nth_opt om idx = Some p).
    { rewrite <- HLfst. rewrite nth_opt_map. rewrite Hn. reflexivity. }
    eapply memZ_resolved; [exact Hsorted| |exact HC|exact Ecs|exact Hp'].
    eapply Forall_impl; [|exact Hro]. cbn. intros; lia.
Qed.

(* ================================================================== *)
(* Generalisation: the tensor's list is a run of in-place quantizations followed
   by ONE insertion — [QUANTIZE_TENSOR p; ADD_DEQUANTIZE p for the graph output]
   (every output of a full-integer model), [QUANTIZE_TENSOR p1; ADD_QUANTIZE p2]
   (requantization), [QUANTIZE_TENSOR p; ADD_DEQUANTIZE p for the float readers]
   (quantized producer, partly float consumers). *)

Lemma quantize_tensor_buf_at bufs g tid ps bufs' g' :
  0 <= tid -> quantize_tensor bufs g tid ps = Ok (bufs', g') ->
  forall x y', tensor_at g' x = Some y' -> exists y, tensor_at g x = Some y /\ t_buf y' = t_buf y.
Proof.
  intros Ht H x y' Hy'.
  destruct (Z.eq_dec x tid) as [->|Hne].
  - unfold quantize_tensor in H.
    destruct (get_tensor g tid) as [t0|] eqn:Et; cbn [bind] in H; [|discriminate].
    unfold get_tensor in Et. destruct (py_index_nonneg _ _ _ Ht Et) as [Hn Hlt].
    replace (if tid <? 0 then tid + lenZ (sg_tensors g) else tid) with tid in H
      by (destruct (Z.ltb_spec tid 0); [lia|reflexivity]).
    assert (Hy : tensor_at g tid = Some t0).
    { unfold tensor_at, nthZ. destruct (Z.ltb_spec tid 0); [lia|exact Hn]. }
    destruct ps as [p|].
    + match type of H with bind ?m _ = _ => destruct m as [b2|] end; cbn [bind] in H; [|discriminate].
      match type of H with bind ?m _ = _ => destruct m as [t2|] eqn:Et2 end; cbn [bind] in H; [|discriminate].
      inversion H; subst bufs' g'; clear H.
      assert (E2 : tensor_at (set_tensor g tid t2) tid = Some t2).
      { unfold tensor_at, nthZ, set_tensor. cbn [sg_tensors]. destruct (Z.ltb_spec tid 0); [lia|].
        rewrite nth_opt_set_nth_any, Nat.eqb_refl, Hn. reflexivity. }
      rewrite E2 in Hy'. inversion Hy'; subst y'. exists t0. split; [exact Hy|].
      destruct (qp_uniform p).
      * destruct (quant_params_to_tflite_type (qp_bits p)); cbn [bind] in Et2; [|discriminate]. inversion Et2; reflexivity.
      * destruct (nonlinear_quant_params_to_tflite_type (qp_bits p)); cbn [bind] in Et2; [|discriminate]. inversion Et2; reflexivity.
    + destruct (negb (t_buf t0 =? 0)); [discriminate|]. inversion H; subst. exists y'. split; [exact Hy'|reflexivity].
  - rewrite (quantize_tensor_other _ _ _ _ _ _ Ht H x Hne) in Hy'. exists y'. split; [exact Hy'|reflexivity].
Qed.

Lemma apply_single_inplace_buf st k i later st' later' g :
  i_trans i = Tr_QUANTIZE_TENSOR -> 0 <= i_tensor i ->
  nth_opt (m_subgraphs (ps_model st)) k = Some g ->
  apply_single st (Z.of_nat k) i later = Ok (st', later') ->
  exists g', nth_opt (m_subgraphs (ps_model st')) k = Some g' /\
    forall x y', tensor_at g' x = Some y' -> exists y, tensor_at g x = Some y /\ t_buf y' = t_buf y.
Proof.
  intros Htr Hit Hg H. assert (Hs : 0 <= Z.of_nat k) by lia. rewrite apply_single_unfold in H.
  destruct (py_index (ps_orig st) (Z.of_nat k)) as [om|]; cbn [bind] in H; [|discriminate].
  destruct (py_index (ps_added st) (Z.of_nat k)) as [am|]; cbn [bind] in H; [|discriminate].
  destruct (py_index (m_subgraphs (ps_model st)) (Z.of_nat k)) as [g0|] eqn:Eg; cbn [bind] in H; [|discriminate].
  destruct (resolve om am (i_producer i)) as [producer|]; cbn [bind] in H; [|discriminate].
  destruct (mapM _ (i_consumers i)) as [cs|]; cbn [bind] in H; [|discriminate].
  unfold trans_of in H. rewrite Htr in H.
  destruct (quantize_tensor (m_buffers (ps_model st)) g0 (i_tensor i) (i_params i)) as [[b2 g2]|] eqn:Q;
    cbn [bind fst snd] in H; [|discriminate].
  cbn [to_added Z.eqb] in H. inversion H; subst st' later'. cbn [ps_model set_sg m_subgraphs].
  apply (py_index_nonneg _ _ _ Hs) in Eg. destruct Eg as [Eg _]. rewrite Nat2Z.id, Hg in Eg. inversion Eg; subst g0.
  exists g2. split; [rewrite Nat2Z.id; apply nth_opt_set_nth_same; eapply nth_opt_Some_lt; exact Hg|].
  exact (quantize_tensor_buf_at _ _ _ _ _ _ Hit Q).
Qed.

(* a prefix of in-place steps on the list of subgraph k *)
Lemma inplace_prefix m0 k : uids_ok m0 -> forall qs st tail rest fuel st2 g,
  Forall (fun q => i_trans q = Tr_QUANTIZE_TENSOR /\ 0 <= i_tensor q) qs ->
  ginv st (map (pair (Z.of_nat k)) (qs ++ tail) ++ rest) -> sinv m0 st ->
  nth_opt (m_subgraphs (ps_model st)) k = Some g ->
  apply_insts st (Z.of_nat k) (qs ++ tail) (length qs + fuel) = Ok st2 ->
  exists stq gq, apply_insts stq (Z.of_nat k) tail fuel = Ok st2 /\
    ginv stq (map (pair (Z.of_nat k)) tail ++ rest) /\ sinv m0 stq /\
    nth_opt (m_subgraphs (ps_model stq)) k = Some gq /\ sg_ops gq = sg_ops g /\ ntens gq = ntens g /\
    (forall x y', tensor_at gq x = Some y' -> exists y, tensor_at g x = Some y /\ t_buf y' = t_buf y).
Proof.
  intros Hu. induction qs as [|q qs IH]; intros st tail rest fuel st2 g Hqs HG HS Hg H.
  - cbn [app length Nat.add] in *. exists st, g. split; [exact H|]. split; [exact HG|]. split; [exact HS|].
    split; [exact Hg|]. split; [reflexivity|]. split; [reflexivity|]. intros x y' Hy. exists y'. split; [exact Hy|reflexivity].
  - inversion Hqs as [|? ? [Hq Hqt] Hqs']; subst. cbn [app length Nat.add apply_insts] in H.
    assert (Hins : is_insertion (i_trans q) = true) by (rewrite Hq; reflexivity). rewrite Hins in H.
    destruct (apply_single st (Z.of_nat k) q (qs ++ tail)) as [[st1 later1]|] eqn:E; cbn [bind fst snd] in H; [|discriminate].
    cbn [app map] in HG.
    pose proof (apply_single_ginv _ _ _ _ _ _ _ HG E) as HG1.
    pose proof (apply_single_sinv _ _ _ _ _ _ _ _ Hu HG HS E) as HS1.
    destruct (apply_single_inplace st (Z.of_nat k) q (qs ++ tail) st1 later1 k g (Zle_0_nat k) Hq Hg E) as (-> & g1 & Hg1 & Hops1 & Hn1).
    destruct (apply_single_inplace_buf _ _ _ _ _ _ _ Hq Hqt Hg E) as (g1' & Hg1' & Hb1).
    rewrite Hg1 in Hg1'. inversion Hg1'; subst g1'.
    destruct (IH st1 tail rest fuel st2 g1 Hqs' HG1 HS1 Hg1 H) as (stq & gq & A & B & C & D & E1 & E2 & E3).
    exists stq, gq. split; [exact A|]. split; [exact B|]. split; [exact C|]. split; [exact D|].
    split; [congruence|]. split; [congruence|].
    intros x y' Hy'. destruct (E3 x y' Hy') as (y1 & Hy1 & Eb1). destruct (Hb1 x y1 Hy1) as (y & Hy & Eb).
    exists y. split; [exact Hy|congruence].
Qed.

Theorem insertion_after_inplace_readers m0 pre ti0 post m' k g0 qs i0 :
  Forall wf_sg (m_subgraphs m0) -> uids_ok m0 ->
  (forall ti i, In ti (pre ++ ti0 :: post) -> In i (ti_insts ti) -> sane m0 (ti_sg ti) i) ->
  ids_ok (pre ++ ti0 :: post) ->
  nth_opt (m_subgraphs m0) k = Some g0 ->
  ti_sg ti0 = Z.of_nat k -> ti_insts ti0 = qs ++ [i0] ->
  Forall (fun q => i_trans q = Tr_QUANTIZE_TENSOR) qs ->
  (i_trans i0 = Tr_ADD_QUANTIZE \/ i_trans i0 = Tr_ADD_DEQUANTIZE) ->
  Forall (fun c => -1 <= c) (i_consumers i0) ->
  never_names k (i_tensor i0) pre ->
  (forall t0, tensor_at g0 (i_tensor i0) = Some t0 -> 0 <= t_buf t0) ->
  transform_graph m0 (pre ++ ti0 :: post) = Ok m' ->
  exists x' g' tn, nth_opt (m_subgraphs m') k = Some g' /\ ntens g0 <= x' /\
                readers_profile x' g' = moved_profile (i_tensor i0) (i_consumers i0) g0 /\
                tensor_at g' x' = Some tn /\
                new_tensor_type (qtrans_eqb (i_trans i0) Tr_ADD_QUANTIZE) (i_params i0) tn.
Proof.
  intros Hwf Hu Hsane Hids Hg0 Hsg Hins Hqs Htr HC Hnn Hbuf0 H.
  set (t := i_tensor i0) in *. set (C := i_consumers i0) in *.
  unfold transform_graph in H.
  match type of H with bind ?x _ = _ => destruct x as [st3|] eqn:E end; cbn [bind] in H; [|discriminate].
  inversion H; subst m'; clear H.
  fold (run_all (pre ++ ti0 :: post) (init_pstate m0)) in E. unfold run_all in E. rewrite foldM_app in E.
  fold (run_all pre (init_pstate m0)) in E.
  destruct (run_all pre (init_pstate m0)) as [st0|] eqn:E1; cbn [bind] in E; [|discriminate].
  cbn [foldM] in E. rewrite Hsg, Hins in E.
  destruct (apply_insts st0 (Z.of_nat k) (qs ++ [i0]) (length (qs ++ [i0]))) as [st2|] eqn:E2; cbn [bind] in E; [|discriminate].
  fold (run_all post st2) in E.
  (* invariants after [pre] *)
  pose proof (init_ginv m0 _ Hwf Hsane) as HG0. rewrite pend_of_app in HG0.
  destruct (run_both_rest m0 Hu pre _ _ _ HG0 (init_sinv _ Hu) E1) as [HGp HSp].
  destruct (ids_ok_app _ _ Hids) as [Hids_pre Hids2]. inversion Hids2 as [|? ? [_ Hids_ti0] Hids_post]; subst.
  rewrite Hins in Hids_ti0.
  assert (Hk0 : (k < length (m_subgraphs (ps_model st0)))%nat) by (destruct HSp as [SL _]; rewrite SL; eapply nth_opt_Some_lt; exact Hg0).
  destruct (nth_opt_lt_Some (m_subgraphs (ps_model st0)) k Hk0) as [gp Hgp].
  (* the in-place prefix *)
  assert (Hqs2 : Forall (fun q => i_trans q = Tr_QUANTIZE_TENSOR /\ 0 <= i_tensor q) qs).
  { apply Forall_forall. intros q Hq. rewrite Forall_forall in Hqs, Hids_ti0. split; [apply Hqs; exact Hq|].
    apply Hids_ti0. apply in_app_iff. left. exact Hq. }
  cbn [pend_of flat_map] in HGp. rewrite Hsg, Hins in HGp.
  rewrite app_length in E2. cbn [length] in E2.
  destruct (inplace_prefix m0 k Hu qs st0 [i0] (pend_of post) 1 st2 gp Hqs2 HGp HSp Hgp E2)
    as (st & g & EA & HG & [SL SK] & Hg & Hopsq & Hnq & Hbq).
  (* the insertion step *)
  cbn [apply_insts] in EA.
  assert (Hisins : is_insertion (i_trans i0) = true) by (destruct Htr as [-> | ->]; reflexivity).
  rewrite Hisins in EA.
  destruct (apply_single st (Z.of_nat k) i0 []) as [[st1 later1]|] eqn:ES; cbn [bind fst snd] in EA; [|discriminate].
  pose proof (apply_single_nil _ _ _ _ _ ES) as ->. cbn [apply_insts] in EA. inversion EA; subst st2. clear EA.
  pose proof HG as [Lo La Hm Hp].
  assert (Hk : (k < length (m_subgraphs (ps_model st)))%nat) by (eapply nth_opt_Some_lt; exact Hg).
  destruct (nth_opt_lt_Some (ps_orig st) k ltac:(lia)) as [om Ho].
  destruct (nth_opt_lt_Some (ps_added st) k ltac:(lia)) as [am Ha].
  pose proof (Hm _ _ _ _ Hg Ho Ha) as [Hwfg Hsorted Hro Hra].
  pose proof (SK _ _ _ _ Hg0 Hg Ho) as [SKlen SKorig SKother SKtens _ _].
  assert (Hpend : In (Z.of_nat k, i0) (map (pair (Z.of_nat k)) [i0] ++ pend_of post)) by (left; reflexivity).
  destruct (Hp _ _ Hpend) as [_ Hiok]. rewrite Nat2Z.id in Hiok. destruct (Hiok _ _ _ Hg Ho Ha) as (Htr_rng & _).
  assert (Ht0 : 0 <= t < ntens g0).
  { assert (Hin0 : In ti0 (pre ++ ti0 :: post)) by (apply in_app_iff; right; left; reflexivity).
    assert (Hi0 : In i0 (ti_insts ti0)) by (rewrite Hins; apply in_app_iff; right; left; reflexivity).
    destruct (Hsane ti0 i0 Hin0 Hi0) as [_ Hs2]. rewrite Hsg, Nat2Z.id in Hs2. destruct (Hs2 _ Hg0) as (R & _). exact R. }
  (* readers of t: unchanged by [pre] (never named) and by the in-place prefix (same operators) *)
  destruct (run_all_profile k t pre (init_pstate m0) st0 g0 Hids_pre Hnn Hg0 Ht0 E1) as (g_ & Hg_ & Ptp & _).
  rewrite Hgp in Hg_. inversion Hg_; subst g_.
  assert (Pt : readers_profile t g = readers_profile t g0) by (rewrite <- Ptp; unfold readers_profile; rewrite Hopsq; reflexivity).
  pose proof ES as ES'. rewrite apply_single_unfold in ES'.
  rewrite (py_index_of_nat _ _ _ Ho) in ES'. cbn [bind] in ES'.
  rewrite (py_index_of_nat _ _ _ Ha) in ES'. cbn [bind] in ES'.
  rewrite (py_index_of_nat _ _ _ Hg) in ES'. cbn [bind] in ES'.
  destruct (resolve om am (i_producer i0)); cbn [bind] in ES'; [|discriminate].
  destruct (mapM (fun c => if Z.eqb c (-1) then Ok (-1) else py_index om c) (i_consumers i0)) as [cs|] eqn:Ecs;
    cbn [bind] in ES'; [|discriminate]. clear ES'.
  assert (Hcsr : Forall (fun c => c = -1 \/ 0 <= c) cs).
  { eapply Forall_impl; [|exact (mapM_consumers _ _ _ Ecs)]. cbn. intros c [->|Hc]; [left; reflexivity|right].
    rewrite Forall_forall in Hro. specialize (Hro _ Hc). lia. }
  assert (Hfresh : forall o, In o (sg_ops g) -> ~ In (ntens g) (o_ins o)).
  { intros o Ho' Hin. destruct (In_nth_opt _ _ Ho') as (kk & Hkk).
    destruct (wf_ins g Hwfg kk o (ntens g) Hkk Hin) as [E0|E0]; unfold ntens, lenZ in *; lia. }
  assert (Hnn_post : never_names k (ntens g) post).
  { intros ti i Hti Hsgi Hi _ Heq.
    assert (Hin : In ti (pre ++ ti0 :: post)) by (apply in_app_iff; right; right; exact Hti).
    destruct (Hsane ti i Hin Hi) as [_ Hs2]. rewrite Hsgi, Nat2Z.id in Hs2. destruct (Hs2 _ Hg0) as (R & _).
    destruct SKtens as [T _]. lia. }
  destruct (inserted_tensor_readers k st i0 [] st1 [] 0 st1 post st3 g om cs Hg Htr Htr_rng Hfresh
              (py_index_of_nat _ _ _ Ho) Ecs Hcsr ES (Forall_nil _) (Forall_nil _) eq_refl Hids_post Hnn_post E)
    as (g3 & Hg3 & P3).
  (* the buffer of t: as in the input model *)
  destruct (run_all_untouched k t pre (init_pstate m0) st0 g0 Hids_pre Hnn Hg0 Ht0 E1) as (g_u & Hg_u & Tt & _).
  rewrite Hgp in Hg_u. inversion Hg_u; subst g_u.
  assert (Hbuf : forall t0, tensor_at g t = Some t0 -> 0 <= t_buf t0).
  { intros t0 Ht0'. destruct (Hbq _ _ Ht0') as (y & Hy & Eb). rewrite Eb. apply Hbuf0. rewrite <- Tt. exact Hy. }
  destruct (inserted_tensor_typed k st i0 [] st1 [] 0 st1 post st3 g Hg Htr Htr_rng Hbuf ES
              (Forall_nil _) (Forall_nil _) eq_refl Hids_post Hnn_post E) as (g3' & tn & Hg3' & Ttn & Ttype).
  rewrite Hg3 in Hg3'. inversion Hg3'; subst g3'.
  exists (ntens g), g3, tn. split; [exact Hg3|]. split; [destruct SKtens as [T _]; exact T|].
  split; [|split; [exact Ttn|exact Ttype]].
  rewrite P3. unfold moved_profile.
  assert (Horig0 : forall o, In o (sg_ops g0) -> is_original o = true).
  { intros o Ho'. unfold uids_ok in Hu. rewrite Forall_forall in Hu. specialize (Hu _ (nth_opt_In _ _ _ Hg0)).
    rewrite Forall_forall in Hu. specialize (Hu _ Ho'). unfold is_original. destruct (Z.eqb_spec (o_uid o) UID_INSERTED); [contradiction|reflexivity]. }
  rewrite (filter_all (fun ko : Z * op => is_original (snd ko)) (enumerate (sg_ops g0))).
  2:{ intros [j o] Hjo. cbn [snd]. apply Horig0. unfold enumerate in Hjo.
      destruct (in_enum_all' _ _ _ _ Hjo) as (jj & _ & Hn). eapply nth_opt_In; exact Hn. }
  set (L := filter (fun ko : Z * op => is_original (snd ko)) (enumerate (sg_ops g))).
  assert (HLfst : map fst L = om).
  { unfold L, enumerate. apply filter_enum_sorted; [exact Hsorted|]. intros p. split.
    - intros Hp'. destruct (In_nth_opt _ _ Hp') as (j & Hj).
      assert (Hjl : (j < length (sg_ops g0))%nat) by (rewrite <- SKlen; eapply nth_opt_Some_lt; exact Hj).
      destruct (nth_opt_lt_Some _ _ Hjl) as [o0 Ho0].
      destruct (SKorig _ _ _ Ho0 Hj) as (Hp0 & o & Hat & _ & Huid & _).
      exists (Z.to_nat p), o. split; [lia|]. split; [exact Hat|].
      unfold is_original. rewrite Huid. apply Horig0. eapply nth_opt_In; exact Ho0.
    - intros (kk & o & -> & Hn & Po). destruct (SKother kk o Hn) as [Hin|[Hui _]]; [rewrite Z.add_0_l; exact Hin|].
      unfold is_original in Po. rewrite Hui in Po. discriminate. }
  apply moved_transfer.
  - rewrite <- (map_map snd (slots t)). unfold L, enumerate. rewrite filter_enum_snd.
    change (map (slots t) (filter is_original (sg_ops g))) with (readers_profile t g). rewrite Pt.
    unfold readers_profile. rewrite (filter_all is_original _ Horig0). reflexivity.
  - intros idx p o Hn. rewrite Z.add_0_l.
    assert (Hp' : nth_opt om idx = Some p).
    { rewrite <- HLfst. rewrite nth_opt_map. rewrite Hn. reflexivity. }
    eapply memZ_resolved; [exact Hsorted| |exact HC|exact Ecs|exact Hp'].
    eapply Forall_impl; [|exact Hro]. cbn. intros; lia.
Qed.

(* ================================================================== *)
(* Profiles in ORIGINAL ORDER: selection by original operator index *)
Definition keep_if (b : bool) (e : Z * list bool) : Z * list bool :=
  (fst e, if b then snd e else map (fun _ => false) (snd e)).
Definition select (D : list Z) (P : list (Z * list bool)) : list (Z * list bool) :=
  map (fun ie => keep_if (memZ (fst ie) D) (snd ie)) (enumerate P).
Definition deselect (D : list Z) (P : list (Z * list bool)) : list (Z * list bool) :=
  map (fun ie => keep_if (negb (memZ (fst ie) D)) (snd ie)) (enumerate P).

Lemma map_false_len {A B} (f : A -> B) (l : list A) : map (fun _ => false) (map f l) = map (fun _ => false) l.
Proof. rewrite map_map. reflexivity. Qed.

Lemma moved_as_select tid cs D : forall (L : list (Z * op)) j0,
  (forall idx p o, nth_opt L idx = Some (p, o) -> memZ p cs = memZ (j0 + Z.of_nat idx) D) ->
  map (moved tid cs) L =
  map (fun ie => keep_if (memZ (fst ie) D) (snd ie)) (enumerate_from j0 (map (fun ko => slots tid (snd ko)) L)).
Proof.
  induction L as [|[p o] L IH]; intros j0 H; [reflexivity|]. cbn [map enumerate_from]. f_equal.
  - unfold moved, keep_if, slots. cbn [fst snd]. rewrite (H 0%nat p o eq_refl), Z.add_0_r.
    destruct (memZ j0 D); [reflexivity|]. rewrite map_false_len. reflexivity.
  - apply IH. intros idx p' o' Hn. rewrite (H (S idx) p' o' Hn). f_equal. lia.
Qed.

Lemma stayed_as_deselect tid cs D : forall (L : list (Z * op)) j0,
  (forall idx p o, nth_opt L idx = Some (p, o) -> memZ p cs = memZ (j0 + Z.of_nat idx) D) ->
  map (stayed tid cs) L =
  map (fun ie => keep_if (negb (memZ (fst ie) D)) (snd ie)) (enumerate_from j0 (map (fun ko => slots tid (snd ko)) L)).
Proof.
  induction L as [|[p o] L IH]; intros j0 H; [reflexivity|]. cbn [map enumerate_from]. f_equal.
  - unfold stayed, keep_if, slots. cbn [fst snd]. rewrite (H 0%nat p o eq_refl), Z.add_0_r.
    destruct (memZ j0 D); cbn [negb]; [rewrite map_false_len|]; reflexivity.
  - apply IH. intros idx p' o' Hn. rewrite (H (S idx) p' o' Hn). f_equal. lia.
Qed.

(* selecting C after removing a disjoint D changes nothing *)
Lemma select_deselect C D : (forall c, In c C -> memZ c D = false) -> forall P,
  select C (deselect D P) = select C P.
Proof.
  intros Hd P. unfold select, deselect, enumerate. generalize 0 as j0. induction P as [|e P IH]; intros j0; [reflexivity|].
  cbn [enumerate_from map]. f_equal; [|apply IH].
  unfold keep_if. cbn [fst snd]. destruct (memZ j0 C) eqn:EC.
  - apply memZ_In in EC. rewrite (Hd _ EC). reflexivity.
  - f_equal. destruct (negb (memZ j0 D)); [reflexivity|]. rewrite map_map. reflexivity.
Qed.

(* one insertion step at a state satisfying the run invariants, in original order *)
Lemma insertion_step_profiles m0 k st i later st1 later1 rest g0 g :
  uids_ok m0 -> ginv st ((Z.of_nat k, i) :: map (pair (Z.of_nat k)) later ++ rest) -> sinv m0 st ->
  nth_opt (m_subgraphs m0) k = Some g0 -> nth_opt (m_subgraphs (ps_model st)) k = Some g ->
  (i_trans i = Tr_ADD_QUANTIZE \/ i_trans i = Tr_ADD_DEQUANTIZE) ->
  Forall (fun c => -1 <= c) (i_consumers i) ->
  apply_single st (Z.of_nat k) i later = Ok (st1, later1) ->
  exists g1, nth_opt (m_subgraphs (ps_model st1)) k = Some g1 /\ ntens g1 = ntens g + 1 /\
    0 <= i_tensor i < ntens g /\
    readers_profile (ntens g) g1 = select (i_consumers i) (readers_profile (i_tensor i) g) /\
    readers_profile (i_tensor i) g1 = deselect (i_consumers i) (readers_profile (i_tensor i) g).
Proof.
  intros Hu HG [SL SK] Hg0 Hg Htr HC ES.
  pose proof HG as [Lo La Hm Hp].
  assert (Hk : (k < length (m_subgraphs (ps_model st)))%nat) by (eapply nth_opt_Some_lt; exact Hg).
  destruct (nth_opt_lt_Some (ps_orig st) k ltac:(lia)) as [om Ho].
  destruct (nth_opt_lt_Some (ps_added st) k ltac:(lia)) as [am Ha].
  pose proof (Hm _ _ _ _ Hg Ho Ha) as [Hwfg Hsorted Hro Hra].
  pose proof (SK _ _ _ _ Hg0 Hg Ho) as [SKlen SKorig SKother SKtens _ _].
  destruct (Hp _ _ (or_introl eq_refl)) as [_ Hiok]. rewrite Nat2Z.id in Hiok. destruct (Hiok _ _ _ Hg Ho Ha) as (Htr_rng & _).
  pose proof ES as ES'. rewrite apply_single_unfold in ES'.
  rewrite (py_index_of_nat _ _ _ Ho) in ES'. cbn [bind] in ES'.
  rewrite (py_index_of_nat _ _ _ Ha) in ES'. cbn [bind] in ES'.
  rewrite (py_index_of_nat _ _ _ Hg) in ES'. cbn [bind] in ES'.
  destruct (resolve om am (i_producer i)) as [producer|]; cbn [bind] in ES'; [|discriminate].
  destruct (mapM (fun c => if Z.eqb c (-1) then Ok (-1) else py_index om c) (i_consumers i)) as [cs|] eqn:Ecs;
    cbn [bind] in ES'; [|discriminate].
  destruct (trans_of i (m_opcodes (ps_model st)) (m_buffers (ps_model st)) g producer cs)
    as [[[[c' b'] g1] info]|] eqn:T; cbn [bind] in ES'; [|discriminate].
  assert (Hcsr : Forall (fun c => c = -1 \/ 0 <= c) cs).
  { eapply Forall_impl; [|exact (mapM_consumers _ _ _ Ecs)]. cbn. intros c [->|Hc]; [left; reflexivity|right].
    rewrite Forall_forall in Hro. specialize (Hro _ Hc). lia. }
  assert (Hfresh : forall o, In o (sg_ops g) -> ~ In (ntens g) (o_ins o)).
  { intros o Ho' Hin. destruct (In_nth_opt _ _ Ho') as (kk & Hkk).
    destruct (wf_ins g Hwfg kk o (ntens g) Hkk Hin) as [E0|E0]; unfold ntens, lenZ in *; lia. }
  assert (Hg1 : nth_opt (m_subgraphs (ps_model st1)) k = Some g1).
  { destruct (to_added info =? 0); inversion ES'; subst st1; cbn [ps_model set_sg m_subgraphs];
      rewrite Nat2Z.id; apply nth_opt_set_nth_same; eapply nth_opt_Some_lt; exact Hg. }
  assert (PN : readers_profile (ntens g) g1 = moved_profile (i_tensor i) cs g /\
               readers_profile (i_tensor i) g1 = stayed_profile (i_tensor i) cs g /\ ntens g1 = ntens g + 1).
  { unfold trans_of in T. destruct Htr as [E|E]; rewrite E in T.
    - split; [eapply insert_common_new_profile; eauto|]. split; [eapply insert_common_old_profile; eauto|].
      destruct (insert_common_other _ _ _ _ _ _ _ _ _ _ _ _ (proj1 Htr_rng) T) as (A & _). exact A.
    - split; [eapply insert_common_new_profile; eauto|]. split; [eapply insert_common_old_profile; eauto|].
      destruct (insert_common_other _ _ _ _ _ _ _ _ _ _ _ _ (proj1 Htr_rng) T) as (A & _). exact A. }
  destruct PN as (PN & PO & N1).
  exists g1. split; [exact Hg1|]. split; [exact N1|]. split; [exact Htr_rng|].
  assert (Horig0 : forall o, In o (sg_ops g0) -> is_original o = true).
  { intros o Ho'. unfold uids_ok in Hu. rewrite Forall_forall in Hu. specialize (Hu _ (nth_opt_In _ _ _ Hg0)).
    rewrite Forall_forall in Hu. specialize (Hu _ Ho'). unfold is_original. destruct (Z.eqb_spec (o_uid o) UID_INSERTED); [contradiction|reflexivity]. }
  set (L := filter (fun ko : Z * op => is_original (snd ko)) (enumerate (sg_ops g))).
  assert (HLfst : map fst L = om).
  { unfold L, enumerate. apply filter_enum_sorted; [exact Hsorted|]. intros p. split.
    - intros Hp'. destruct (In_nth_opt _ _ Hp') as (j & Hj).
      assert (Hjl : (j < length (sg_ops g0))%nat) by (rewrite <- SKlen; eapply nth_opt_Some_lt; exact Hj).
      destruct (nth_opt_lt_Some _ _ Hjl) as [o0 Ho0].
      destruct (SKorig _ _ _ Ho0 Hj) as (Hp0 & o & Hat & _ & Huid & _).
      exists (Z.to_nat p), o. split; [lia|]. split; [exact Hat|].
      unfold is_original. rewrite Huid. apply Horig0. eapply nth_opt_In; exact Ho0.
    - intros (kk & o & -> & Hn & Po). destruct (SKother kk o Hn) as [Hin|[Hui _]]; [rewrite Z.add_0_l; exact Hin|].
      unfold is_original in Po. rewrite Hui in Po. discriminate. }
  assert (Hmem : forall idx p o, nth_opt L idx = Some (p, o) -> memZ p cs = memZ (0 + Z.of_nat idx) (i_consumers i)).
  { intros idx p o Hn. rewrite Z.add_0_l.
    assert (Hp' : nth_opt om idx = Some p) by (rewrite <- HLfst; rewrite nth_opt_map; rewrite Hn; reflexivity).
    eapply memZ_resolved; [exact Hsorted| |exact HC|exact Ecs|exact Hp'].
    eapply Forall_impl; [|exact Hro]. cbn. intros; lia. }
  assert (HLprof : map (fun ko : Z * op => slots (i_tensor i) (snd ko)) L = readers_profile (i_tensor i) g).
  { rewrite <- (map_map snd (slots (i_tensor i))). unfold L, enumerate. rewrite filter_enum_snd. reflexivity. }
  split.
  - rewrite PN. unfold moved_profile. fold L. rewrite (moved_as_select _ _ (i_consumers i) L 0 Hmem), HLprof. reflexivity.
  - rewrite PO. unfold stayed_profile. fold L. rewrite (stayed_as_deselect _ _ (i_consumers i) L 0 Hmem), HLprof. reflexivity.
Qed.

(* ================================================================== *)
(* Several insertions on one tensor: the list of tensor t is any run of in-place
   quantizations and of insertions whose consumers are DISJOINT from those of the
   last insertion i0 (so i0 is never re-targeted), followed by i0. *)
Definition disj_from (C : list Z) (s : inst) : Prop := forall c, In c C -> memZ c (i_consumers s) = false.
Definition step_ok (C : list Z) (s : inst) : Prop :=
  0 <= i_tensor s /\ Forall (fun c => -1 <= c) (i_consumers s) /\
  (i_trans s = Tr_QUANTIZE_TENSOR \/
   ((i_trans s = Tr_ADD_QUANTIZE \/ i_trans s = Tr_ADD_DEQUANTIZE) /\ disj_from C s)).

Lemma upd_keep_last a i0 prev np ot :
  disj_from (i_consumers i0) prev ->
  update_instructions (a ++ [i0]) prev np ot = update_instructions a prev np ot ++ [i0].
Proof.
  intros Hd. unfold update_instructions. rewrite map_app. cbn [map]. f_equal.
  assert (E : existsb (fun c => memZ c (i_consumers prev)) (i_consumers i0) = false).
  { destruct (existsb _ (i_consumers i0)) eqn:E; [|reflexivity]. apply existsb_exists in E. destruct E as (c & Hc & Hm).
    rewrite (Hd c Hc) in Hm. discriminate. }
  rewrite E. reflexivity.
Qed.

Lemma upd_step_ok C a prev np ot : 0 <= ot -> Forall (step_ok C) a -> Forall (step_ok C) (update_instructions a prev np ot).
Proof.
  intros Hot H. unfold update_instructions. apply Forall_forall. intros j Hj. apply in_map_iff in Hj.
  destruct Hj as (j0 & <- & Hj0). rewrite Forall_forall in H. specialize (H _ Hj0).
  destruct (existsb _ (i_consumers j0)); [|exact H]. destruct H as (A & B & D). split; [exact Hot|]. split; [exact B|exact D].
Qed.

Lemma apply_single_later_form st k s later st1 later1 g :
  0 <= i_tensor s -> nth_opt (m_subgraphs (ps_model st)) k = Some g ->
  apply_single st (Z.of_nat k) s later = Ok (st1, later1) ->
  later1 = later \/ exists X ot, 0 <= ot /\ later1 = update_instructions later s X ot.
Proof.
  intros Hit Hg H. assert (Hs : 0 <= Z.of_nat k) by lia. rewrite apply_single_unfold in H.
  destruct (py_index (ps_orig st) (Z.of_nat k)) as [om|]; cbn [bind] in H; [|discriminate].
  destruct (py_index (ps_added st) (Z.of_nat k)) as [am|]; cbn [bind] in H; [|discriminate].
  destruct (py_index (m_subgraphs (ps_model st)) (Z.of_nat k)) as [g0|] eqn:Eg; cbn [bind] in H; [|discriminate].
  destruct (resolve om am (i_producer s)) as [producer|]; cbn [bind] in H; [|discriminate].
  destruct (mapM _ (i_consumers s)) as [cs|]; cbn [bind] in H; [|discriminate].
  destruct (trans_of s (m_opcodes (ps_model st)) (m_buffers (ps_model st)) g0 producer cs)
    as [[[[c' b'] g1] info]|] eqn:T; cbn [bind] in H; [|discriminate].
  destruct (trans_of_other _ _ _ _ _ _ _ _ _ _ Hit T) as (_ & _ & Hinfo).
  destruct (to_added info =? 0) eqn:Ez; inversion H; subst; [left; reflexivity|].
  right. destruct Hinfo as [Hz|Hto]; [rewrite Hz in Ez; discriminate|].
  eexists _, (to_tensor info). split; [rewrite Hto; unfold ntens, lenZ; lia|reflexivity].
Qed.

Section Mixed.
  Variable m0 : model.
  Variable k : nat.
  Variable g0 : subgraph.
  Variable t : Z.
  Variable i0 : inst.
  Hypothesis Hu : uids_ok m0.
  Hypothesis Hg0 : nth_opt (m_subgraphs m0) k = Some g0.
  Let C := i_consumers i0.
  Definition Jinv (g : subgraph) : Prop :=
    select C (readers_profile t g) = select C (readers_profile t g0).

  Lemma mixed_prefix : forall steps st g rest fuel st2,
    Forall (step_ok C) steps ->
    ginv st (map (pair (Z.of_nat k)) (steps ++ [i0]) ++ rest) -> sinv m0 st ->
    nth_opt (m_subgraphs (ps_model st)) k = Some g -> 0 <= t < ntens g -> Jinv g ->
    apply_insts st (Z.of_nat k) (steps ++ [i0]) (length steps + fuel) = Ok st2 ->
    exists stq gq, apply_insts stq (Z.of_nat k) [i0] fuel = Ok st2 /\
      ginv stq (map (pair (Z.of_nat k)) [i0] ++ rest) /\ sinv m0 stq /\
      nth_opt (m_subgraphs (ps_model stq)) k = Some gq /\ 0 <= t < ntens gq /\ Jinv gq.
  Proof.
    intros steps. remember (length steps) as n eqn:En. revert steps En.
    induction n as [|n IH]; intros steps En st g rest fuel st2 Hst HG HS Hg Ht HJ H.
    - destruct steps; [|discriminate]. cbn [app length Nat.add] in *. exists st, g.
      split; [exact H|]. split; [exact HG|]. split; [exact HS|]. split; [exact Hg|]. split; [exact Ht|exact HJ].
    - destruct steps as [|s steps]; [discriminate|]. cbn [length] in En. injection En as En.
      inversion Hst as [|? ? Hs Hst']; subst. destruct Hs as (Hsnn & HsC & Hkind).
      cbn [app length Nat.add apply_insts] in H.
      assert (Hins : is_insertion (i_trans s) = true) by (destruct Hkind as [->|[[->| ->] _]]; reflexivity).
      rewrite Hins in H.
      destruct (apply_single st (Z.of_nat k) s (steps ++ [i0])) as [[st1 later1]|] eqn:E; cbn [bind fst snd] in H; [|discriminate].
      cbn [app map] in HG.
      pose proof (apply_single_ginv _ _ _ _ _ _ _ HG E) as HG1.
      pose proof (apply_single_sinv _ _ _ _ _ _ _ _ Hu HG HS E) as HS1.
      assert (Hs0 : 0 <= Z.of_nat k) by lia.
      destruct Hkind as [Hq|[Htr Hdisj]].
      + (* in place *)
        destruct (apply_single_inplace st (Z.of_nat k) s (steps ++ [i0]) st1 later1 k g Hs0 Hq Hg E) as (-> & g1 & Hg1 & Hops1 & Hn1).
        assert (HJ1 : Jinv g1) by (unfold Jinv, readers_profile in *; rewrite Hops1; exact HJ).
        apply (IH steps eq_refl st1 g1 rest fuel st2 Hst' HG1 HS1 Hg1 ltac:(lia) HJ1 H).
      + (* an insertion that does not list any consumer of i0 *)
        destruct (apply_single_later_form _ _ _ _ _ _ _ Hsnn Hg E) as [->|(X & ot & Hot & ->)].
        * (* nothing was re-targeted *)
          destruct (insertion_step_profiles m0 k st s (steps ++ [i0]) st1 (steps ++ [i0]) rest g0 g Hu HG HS Hg0 Hg Htr HsC E)
            as (g1 & Hg1 & N1 & Hrng & _ & PO).
          assert (HJ1 : Jinv g1).
          { destruct (Z.eq_dec (i_tensor s) t) as [Et|Nt].
            - unfold Jinv. rewrite <- Et at 1. rewrite PO, Et. rewrite select_deselect; [exact HJ|exact Hdisj].
            - destruct (apply_single_profile st (Z.of_nat k) s (steps ++ [i0]) st1 (steps ++ [i0]) k g t Hs0 Hsnn Hg Ht (or_intror Nt) E)
                as (g1' & Hg1' & P1). rewrite Hg1 in Hg1'. inversion Hg1'; subst g1'. unfold Jinv. rewrite P1. exact HJ. }
          apply (IH steps eq_refl st1 g1 rest fuel st2 Hst' HG1 HS1 Hg1 ltac:(lia) HJ1 H).
        * rewrite (upd_keep_last steps i0 s X ot Hdisj) in H, HG1.
          destruct (insertion_step_profiles m0 k st s (steps ++ [i0]) st1 _ rest g0 g Hu HG HS Hg0 Hg Htr HsC E)
            as (g1 & Hg1 & N1 & Hrng & _ & PO).
          assert (HJ1 : Jinv g1).
          { destruct (Z.eq_dec (i_tensor s) t) as [Et|Nt].
            - unfold Jinv. rewrite <- Et at 1. rewrite PO, Et. rewrite select_deselect; [exact HJ|exact Hdisj].
            - destruct (apply_single_profile st (Z.of_nat k) s (steps ++ [i0]) st1 _ k g t Hs0 Hsnn Hg Ht (or_intror Nt) E)
                as (g1' & Hg1' & P1). rewrite Hg1 in Hg1'. inversion Hg1'; subst g1'. unfold Jinv. rewrite P1. exact HJ. }
          assert (Hlen : length steps = length (update_instructions steps s X ot)) by (unfold update_instructions; rewrite map_length; reflexivity).
          apply (IH (update_instructions steps s X ot) Hlen st1 g1 rest fuel st2
                    (upd_step_ok C steps s X ot Hot Hst') HG1 HS1 Hg1 ltac:(lia) HJ1 H).
  Qed.
End Mixed.

Lemma select_orig t C (ops0 : list op) : forall j0,
  map (fun ie => keep_if (memZ (fst ie) C) (snd ie)) (enumerate_from j0 (map (slots t) ops0)) =
  map (moved t C) (enumerate_from j0 ops0).
Proof.
  induction ops0 as [|o l IH]; intros j0; [reflexivity|]. cbn [map enumerate_from]. f_equal; [|apply IH].
  unfold keep_if, moved, slots. cbn [fst snd]. destruct (memZ j0 C); [reflexivity|]. rewrite map_map. reflexivity.
Qed.

Theorem insertion_after_steps_readers m0 pre ti0 post m' k g0 steps i0 :
  Forall wf_sg (m_subgraphs m0) -> uids_ok m0 ->
  (forall ti i, In ti (pre ++ ti0 :: post) -> In i (ti_insts ti) -> sane m0 (ti_sg ti) i) ->
  ids_ok (pre ++ ti0 :: post) ->
  nth_opt (m_subgraphs m0) k = Some g0 ->
  ti_sg ti0 = Z.of_nat k -> ti_insts ti0 = steps ++ [i0] ->
  Forall (step_ok (i_consumers i0)) steps ->
  (i_trans i0 = Tr_ADD_QUANTIZE \/ i_trans i0 = Tr_ADD_DEQUANTIZE) ->
  Forall (fun c => -1 <= c) (i_consumers i0) ->
  never_names k (i_tensor i0) pre ->
  transform_graph m0 (pre ++ ti0 :: post) = Ok m' ->
  exists x' g', nth_opt (m_subgraphs m') k = Some g' /\ ntens g0 <= x' /\
                readers_profile x' g' = moved_profile (i_tensor i0) (i_consumers i0) g0.
Proof.
  intros Hwf Hu Hsane Hids Hg0 Hsg Hins Hsteps Htr HC Hnn H.
  set (t := i_tensor i0) in *. set (C := i_consumers i0) in *.
  unfold transform_graph in H.
  match type of H with bind ?x _ = _ => destruct x as [st3|] eqn:E end; cbn [bind] in H; [|discriminate].
  inversion H; subst m'; clear H.
  fold (run_all (pre ++ ti0 :: post) (init_pstate m0)) in E. unfold run_all in E. rewrite foldM_app in E.
  fold (run_all pre (init_pstate m0)) in E.
  destruct (run_all pre (init_pstate m0)) as [st0|] eqn:E1; cbn [bind] in E; [|discriminate].
  cbn [foldM] in E. rewrite Hsg, Hins in E.
  destruct (apply_insts st0 (Z.of_nat k) (steps ++ [i0]) (length (steps ++ [i0]))) as [st2|] eqn:E2; cbn [bind] in E; [|discriminate].
  fold (run_all post st2) in E.
  pose proof (init_ginv m0 _ Hwf Hsane) as HG0. rewrite pend_of_app in HG0.
  destruct (run_both_rest m0 Hu pre _ _ _ HG0 (init_sinv _ Hu) E1) as [HGp HSp].
  destruct (ids_ok_app _ _ Hids) as [Hids_pre Hids2]. inversion Hids2 as [|? ? _ Hids_post]; subst.
  assert (Hk0 : (k < length (m_subgraphs (ps_model st0)))%nat) by (destruct HSp as [SL _]; rewrite SL; eapply nth_opt_Some_lt; exact Hg0).
  destruct (nth_opt_lt_Some (m_subgraphs (ps_model st0)) k Hk0) as [gp Hgp].
  assert (Ht0 : 0 <= t < ntens g0).
  { assert (Hin0 : In ti0 (pre ++ ti0 :: post)) by (apply in_app_iff; right; left; reflexivity).
    assert (Hi0 : In i0 (ti_insts ti0)) by (rewrite Hins; apply in_app_iff; right; left; reflexivity).
    destruct (Hsane ti0 i0 Hin0 Hi0) as [_ Hs2]. rewrite Hsg, Nat2Z.id in Hs2. destruct (Hs2 _ Hg0) as (R & _). exact R. }
  destruct (run_all_profile k t pre (init_pstate m0) st0 g0 Hids_pre Hnn Hg0 Ht0 E1) as (g_ & Hg_ & Ptp & Hnp).
  rewrite Hgp in Hg_. inversion Hg_; subst g_.
  cbn [pend_of flat_map] in HGp. rewrite Hsg, Hins in HGp.
  rewrite app_length in E2. cbn [length] in E2.
  assert (HJp : Jinv g0 t i0 gp) by (unfold Jinv; rewrite Ptp; reflexivity).
  destruct (mixed_prefix m0 k g0 t i0 Hu Hg0 steps st0 gp (pend_of post) 1 st2 Hsteps HGp HSp Hgp ltac:(lia) HJp E2)
    as (stq & gq & EA & HGq & HSq & Hgq & Htq & HJq).
  cbn [apply_insts] in EA.
  assert (Hisins : is_insertion (i_trans i0) = true) by (destruct Htr as [-> | ->]; reflexivity).
  rewrite Hisins in EA.
  destruct (apply_single stq (Z.of_nat k) i0 []) as [[st1 later1]|] eqn:ES; cbn [bind fst snd] in EA; [|discriminate].
  pose proof (apply_single_nil _ _ _ _ _ ES) as ->. cbn [apply_insts] in EA. inversion EA; subst st2. clear EA.
  cbn [map app] in HGq.
  destruct (insertion_step_profiles m0 k stq i0 [] st1 [] (pend_of post) g0 gq Hu HGq HSq Hg0 Hgq Htr HC ES)
    as (g1 & Hg1 & N1 & _ & PN & _).
  assert (Hnn_post : never_names k (ntens gq) post).
  { intros ti i Hti Hsgi Hi _ Heq.
    assert (Hin : In ti (pre ++ ti0 :: post)) by (apply in_app_iff; right; right; exact Hti).
    destruct (Hsane ti i Hin Hi) as [_ Hs2]. rewrite Hsgi, Nat2Z.id in Hs2. destruct (Hs2 _ Hg0) as (R & _).
    destruct HSq as [_ SKq]. assert (Hkq : (k < length (m_subgraphs (ps_model stq)))%nat) by (eapply nth_opt_Some_lt; exact Hgq).
    destruct HGq as [Loq _ _ _]. destruct (nth_opt_lt_Some (ps_orig stq) k ltac:(lia)) as [omq Hoq].
    destruct (SKq _ _ _ _ Hg0 Hgq Hoq) as [_ _ _ [T _] _ _]. lia. }
  destruct (run_all_profile k (ntens gq) post st1 st3 g1 Hids_post Hnn_post Hg1 ltac:(lia) E) as (g3 & Hg3 & P3 & _).
  exists (ntens gq), g3. split; [exact Hg3|]. split.
  { destruct HSq as [_ SKq]. assert (Hkq : (k < length (m_subgraphs (ps_model stq)))%nat) by (eapply nth_opt_Some_lt; exact Hgq).
    destruct HGq as [Loq _ _ _]. destruct (nth_opt_lt_Some (ps_orig stq) k ltac:(lia)) as [omq Hoq].
    destruct (SKq _ _ _ _ Hg0 Hgq Hoq) as [_ _ _ [T _] _ _]. exact T. }
  rewrite P3, PN. fold t C. unfold Jinv in HJq. fold C in HJq. rewrite HJq.
  assert (Horig0 : forall o, In o (sg_ops g0) -> is_original o = true).
  { intros o Ho'. unfold uids_ok in Hu. rewrite Forall_forall in Hu. specialize (Hu _ (nth_opt_In _ _ _ Hg0)).
    rewrite Forall_forall in Hu. specialize (Hu _ Ho'). unfold is_original. destruct (Z.eqb_spec (o_uid o) UID_INSERTED); [contradiction|reflexivity]. }
  unfold select, moved_profile, readers_profile, enumerate. rewrite (filter_all is_original _ Horig0).
  rewrite (filter_all (fun ko : Z * op => is_original (snd ko)) (enumerate_from 0 (sg_ops g0))).
  2:{ intros [j o] Hjo. cbn [snd]. apply Horig0. destruct (in_enum_all' _ _ _ _ Hjo) as (jj & _ & Hn). eapply nth_opt_In; exact Hn. }
  apply select_orig.
Qed.

(* ================================================================== *)
(* Re-targeting included: an earlier insertion on the SAME tensor that lists all
   consumers of the last instruction re-targets it onto its own result (the
   chain [.., ADD_QUANTIZE D, .., ADD_DEQUANTIZE C] with C a sub-list of D that
   horizontal grouping produces at depth 2).  The tensor the last instruction
   names changes along the run; what its listed consumers read there does not. *)
Definition sub_of (C : list Z) (s : inst) : Prop :=
  C <> [] /\ forall c, In c C -> memZ c (i_consumers s) = true.
Definition step_ok2 (C : list Z) (s : inst) : Prop :=
  0 <= i_tensor s /\ Forall (fun c => -1 <= c) (i_consumers s) /\
  (i_trans s = Tr_QUANTIZE_TENSOR \/
   ((i_trans s = Tr_ADD_QUANTIZE \/ i_trans s = Tr_ADD_DEQUANTIZE) /\ (disj_from C s \/ sub_of C s))).
Definition same_but_target (a b : inst) : Prop :=
  i_trans b = i_trans a /\ i_consumers b = i_consumers a /\ i_params b = i_params a.

Lemma upd_retarget_last a i0 prev np ot :
  sub_of (i_consumers i0) prev ->
  exists i0', update_instructions (a ++ [i0]) prev np ot = update_instructions a prev np ot ++ [i0'] /\
              same_but_target i0 i0' /\ i_tensor i0' = ot.
Proof.
  intros [Hne Hsub]. unfold update_instructions. rewrite map_app. cbn [map].
  assert (E : existsb (fun c => memZ c (i_consumers prev)) (i_consumers i0) = true).
  { destruct (i_consumers i0) as [|c cs] eqn:Ec; [contradiction|]. cbn [existsb]. rewrite (Hsub c (or_introl eq_refl)). reflexivity. }
  rewrite E. eexists. split; [reflexivity|]. split; [repeat split|reflexivity].
Qed.

Lemma upd_step_ok2 C a prev np ot : 0 <= ot -> Forall (step_ok2 C) a -> Forall (step_ok2 C) (update_instructions a prev np ot).
Proof.
  intros Hot H. unfold update_instructions. apply Forall_forall. intros j Hj. apply in_map_iff in Hj.
  destruct Hj as (j0 & <- & Hj0). rewrite Forall_forall in H. specialize (H _ Hj0).
  destruct (existsb _ (i_consumers j0)); [|exact H]. destruct H as (A & B & D). split; [exact Hot|]. split; [exact B|exact D].
Qed.

Lemma apply_single_insertion_later st k s later st1 later1 g :
  0 <= i_tensor s -> (i_trans s = Tr_ADD_QUANTIZE \/ i_trans s = Tr_ADD_DEQUANTIZE) ->
  nth_opt (m_subgraphs (ps_model st)) k = Some g ->
  apply_single st (Z.of_nat k) s later = Ok (st1, later1) ->
  exists X, later1 = update_instructions later s X (ntens g).
Proof.
  intros Hit Htr Hg H. assert (Hs : 0 <= Z.of_nat k) by lia. rewrite apply_single_unfold in H.
  destruct (py_index (ps_orig st) (Z.of_nat k)) as [om|]; cbn [bind] in H; [|discriminate].
  destruct (py_index (ps_added st) (Z.of_nat k)) as [am|]; cbn [bind] in H; [|discriminate].
  destruct (py_index (m_subgraphs (ps_model st)) (Z.of_nat k)) as [g0|] eqn:Eg; cbn [bind] in H; [|discriminate].
  apply (py_index_nonneg _ _ _ Hs) in Eg. destruct Eg as [Eg _]. rewrite Nat2Z.id, Hg in Eg. inversion Eg; subst g0.
  destruct (resolve om am (i_producer s)) as [producer|]; cbn [bind] in H; [|discriminate].
  destruct (mapM _ (i_consumers s)) as [cs|]; cbn [bind] in H; [|discriminate].
  destruct (trans_of s (m_opcodes (ps_model st)) (m_buffers (ps_model st)) g producer cs)
    as [[[[c' b'] g1] info]|] eqn:T; cbn [bind] in H; [|discriminate].
  assert (Hinfo : to_added info = 1 /\ to_tensor info = ntens g).
  { unfold trans_of in T. destruct Htr as [E|E]; rewrite E in T; unfold insert_common in T;
      destruct (add_op_code _ _) as [ci cd];
      (destruct (get_tensor g (i_tensor s)); cbn [bind] in T; [|discriminate]);
      (match type of T with bind ?m _ = _ => destruct m as [[b3 g3]|] end; cbn [bind] in T; [|discriminate]);
      (destruct (py_min cs); cbn [bind] in T; [|discriminate]);
      (match type of T with bind ?m _ = _ => destruct m end; cbn [bind] in T; [|discriminate]);
      (destruct (_ <? 0); [discriminate|]); inversion T; subst; split; reflexivity. }
  destruct Hinfo as [Ha Hto]. rewrite Ha in H. cbn [Z.eqb] in H. inversion H; subst. rewrite Hto. eexists. reflexivity.
Qed.

Lemma select_select_sub C D : (forall c, In c C -> memZ c D = true) -> forall P, select C (select D P) = select C P.
Proof.
  intros Hs P. unfold select, enumerate. generalize 0 as j0. induction P as [|e P IH]; intros j0; [reflexivity|].
  cbn [enumerate_from map]. f_equal; [|apply IH].
  unfold keep_if. cbn [fst snd]. destruct (memZ j0 C) eqn:EC.
  - apply memZ_In in EC. rewrite (Hs _ EC). reflexivity.
  - f_equal. destruct (memZ j0 D); [reflexivity|]. rewrite map_map. reflexivity.
Qed.

Fixpoint ok_list (C : list Z) (l : list inst) : Prop :=
  match l with
  | [] => True
  | s :: r => step_ok2 C s /\
              (disj_from C s -> forall s2, In s2 r -> sub_of C s2 ->
                                forall c, In c (i_consumers s2) -> memZ c (i_consumers s) = false) /\
              ok_list C r
  end.

Lemma upd_consumers a prev np ot : map i_consumers (update_instructions a prev np ot) = map i_consumers a.
Proof.
  unfold update_instructions. rewrite map_map. apply map_ext. intros j. destruct (existsb _ _); reflexivity.
Qed.

Lemma in_upd a prev np ot j : In j (update_instructions a prev np ot) ->
  exists j0, In j0 a /\ i_consumers j = i_consumers j0 /\ i_trans j = i_trans j0 /\
    ((existsb (fun c => memZ c (i_consumers prev)) (i_consumers j0) = true /\ i_tensor j = ot) \/
     (existsb (fun c => memZ c (i_consumers prev)) (i_consumers j0) = false /\ j = j0)).
Proof.
  unfold update_instructions. intros H. apply in_map_iff in H. destruct H as (j0 & <- & Hj0). exists j0. split; [exact Hj0|].
  destruct (existsb _ (i_consumers j0)) eqn:E; cbn; repeat split; auto.
Qed.

Lemma upd_ok_list C prev np ot : 0 <= ot -> forall a, ok_list C a -> ok_list C (update_instructions a prev np ot).
Proof.
  intros Hot. induction a as [|s r IH]; intros H; [exact I|]. cbn [ok_list] in H. destruct H as (A & B & D).
  change (update_instructions (s :: r) prev np ot) with
    ((if existsb (fun c => memZ c (i_consumers prev)) (i_consumers s)
      then {| i_trans := i_trans s; i_tensor := ot; i_producer := np; i_consumers := i_consumers s; i_params := i_params s |}
      else s) :: update_instructions r prev np ot).
  cbn [ok_list]. split; [|split; [|apply IH; exact D]].
  - destruct (existsb _ (i_consumers s)); [|exact A]. destruct A as (A1 & A2 & A3). split; [exact Hot|]. split; [exact A2|exact A3].
  - intros Hd s2 Hs2 Hsub c Hc. destruct (in_upd _ _ _ _ _ Hs2) as (j0 & Hj0 & Ec & _ & _).
    assert (Hd' : disj_from C s) by (destruct (existsb _ (i_consumers s)); exact Hd).
    assert (Hsub' : sub_of C j0) by (unfold sub_of in *; rewrite <- Ec; exact Hsub).
    rewrite Ec in Hc. pose proof (B Hd' j0 Hj0 Hsub' c Hc) as R.
    destruct (existsb _ (i_consumers s)); exact R.
Qed.

Section Mixed2.
  Variable m0 : model.
  Variable k : nat.
  Variable g0 : subgraph.
  Variable t : Z.
  Variable C : list Z.
  Hypothesis Hu : uids_ok m0.
  Hypothesis Hg0 : nth_opt (m_subgraphs m0) k = Some g0.
  Definition Jinv2 (tau : Z) (g : subgraph) : Prop :=
    select C (readers_profile tau g) = select C (readers_profile t g0).

  Lemma mixed_prefix2 : forall n steps i0c st g rest fuel st2,
    n = length steps -> i_consumers i0c = C ->
    ok_list C steps ->
    (forall s, In s steps -> sub_of C s -> i_tensor s = i_tensor i0c) ->
    ginv st (map (pair (Z.of_nat k)) (steps ++ [i0c]) ++ rest) -> sinv m0 st ->
    nth_opt (m_subgraphs (ps_model st)) k = Some g -> 0 <= i_tensor i0c < ntens g -> Jinv2 (i_tensor i0c) g ->
    apply_insts st (Z.of_nat k) (steps ++ [i0c]) (n + fuel) = Ok st2 ->
    exists stq gq i0q, apply_insts stq (Z.of_nat k) [i0q] fuel = Ok st2 /\
      ginv stq (map (pair (Z.of_nat k)) [i0q] ++ rest) /\ sinv m0 stq /\ same_but_target i0c i0q /\
      nth_opt (m_subgraphs (ps_model stq)) k = Some gq /\ 0 <= i_tensor i0q < ntens gq /\ Jinv2 (i_tensor i0q) gq.
  Proof.
    induction n as [|n IH]; intros steps i0c st g rest fuel st2 En HC Hok Htau HG HS Hg Ht HJ H.
    - destruct steps; [|discriminate]. cbn [app Nat.add] in *. exists st, g, i0c.
      split; [exact H|]. split; [exact HG|]. split; [exact HS|]. split; [repeat split|]. split; [exact Hg|]. split; [exact Ht|exact HJ].
    - destruct steps as [|s steps]; [discriminate|]. cbn [length] in En. injection En as En.
      cbn [ok_list] in Hok. destruct Hok as ((Hsnn & HsC & Hkind) & Hlater & Hok').
      cbn [app Nat.add apply_insts] in H.
      assert (Hins : is_insertion (i_trans s) = true) by (destruct Hkind as [->|[[->| ->] _]]; reflexivity).
      rewrite Hins in H.
      destruct (apply_single st (Z.of_nat k) s (steps ++ [i0c])) as [[st1 later1]|] eqn:E; cbn [bind fst snd] in H; [|discriminate].
      cbn [app map] in HG.
      pose proof (apply_single_ginv _ _ _ _ _ _ _ HG E) as HG1.
      pose proof (apply_single_sinv _ _ _ _ _ _ _ _ Hu HG HS E) as HS1.
      assert (Hs0 : 0 <= Z.of_nat k) by lia.
      assert (Htau' : forall s2, In s2 steps -> sub_of C s2 -> i_tensor s2 = i_tensor i0c)
        by (intros s2 H2; apply Htau; right; exact H2).
      destruct Hkind as [Hq|[Htr Hrel]].
      + destruct (apply_single_inplace st (Z.of_nat k) s (steps ++ [i0c]) st1 later1 k g Hs0 Hq Hg E) as (-> & g1 & Hg1 & Hops1 & Hn1).
        assert (HJ1 : Jinv2 (i_tensor i0c) g1) by (unfold Jinv2, readers_profile in *; rewrite Hops1; exact HJ).
        apply (IH steps i0c st1 g1 rest fuel st2 En HC Hok' Htau' HG1 HS1 Hg1 ltac:(lia) HJ1 H).
      + destruct (apply_single_insertion_later _ _ _ _ _ _ _ Hsnn Htr Hg E) as (X & ->).
        destruct (insertion_step_profiles m0 k st s (steps ++ [i0c]) st1 _ rest g0 g Hu HG HS Hg0 Hg Htr HsC E)
          as (g1 & Hg1 & N1 & Hrng & PN & PO).
        assert (Hot : 0 <= ntens g) by (unfold ntens, lenZ; lia).
        assert (Hlen : n = length (update_instructions steps s X (ntens g))) by (unfold update_instructions; rewrite map_length; exact En).
        destruct Hrel as [Hdisj|Hsub].
        * (* i0c is not re-targeted *)
          rewrite <- HC in Hdisj. rewrite (upd_keep_last steps i0c s X (ntens g) Hdisj) in H, HG1. rewrite HC in Hdisj.
          assert (HJ1 : Jinv2 (i_tensor i0c) g1).
          { destruct (Z.eq_dec (i_tensor s) (i_tensor i0c)) as [Et|Nt].
            - unfold Jinv2. rewrite <- Et at 1. rewrite PO, Et. rewrite select_deselect; [exact HJ|exact Hdisj].
            - destruct (apply_single_profile st (Z.of_nat k) s (steps ++ [i0c]) st1 _ k g (i_tensor i0c) Hs0 Hsnn Hg Ht (or_intror Nt) E)
                as (g1' & Hg1' & P1). rewrite Hg1 in Hg1'. inversion Hg1'; subst g1'. unfold Jinv2. rewrite P1. exact HJ. }
          assert (Htau1 : forall s2, In s2 (update_instructions steps s X (ntens g)) -> sub_of C s2 -> i_tensor s2 = i_tensor i0c).
          { intros s2 H2 Hsub2. destruct (in_upd _ _ _ _ _ H2) as (j0 & Hj0 & Ec & _ & [[Eb _]|[_ ->]]).
            - exfalso. apply existsb_exists in Eb. destruct Eb as (c & Hc & Hm).
              assert (Hsub0 : sub_of C j0) by (unfold sub_of in *; rewrite <- Ec; exact Hsub2).
              rewrite (Hlater Hdisj j0 Hj0 Hsub0 c Hc) in Hm. discriminate.
            - apply Htau'; assumption. }
          apply (IH _ i0c st1 g1 rest fuel st2 Hlen HC (upd_ok_list C s X (ntens g) Hot steps Hok') Htau1 HG1 HS1 Hg1 ltac:(lia) HJ1 H).
        * (* i0c is re-targeted onto the new tensor *)
          assert (Hs_tau : i_tensor s = i_tensor i0c) by (apply Htau; [left; reflexivity|exact Hsub]).
          rewrite <- HC in Hsub.
          destruct (upd_retarget_last steps i0c s X (ntens g) Hsub) as (i0' & EU & (S1 & S2 & S3) & Etn).
          rewrite HC in Hsub. rewrite EU in H, HG1.
          assert (HJ1 : Jinv2 (i_tensor i0') g1).
          { unfold Jinv2. rewrite Etn, PN, Hs_tau. rewrite select_select_sub; [exact HJ|exact (proj2 Hsub)]. }
          assert (Htau1 : forall s2, In s2 (update_instructions steps s X (ntens g)) -> sub_of C s2 -> i_tensor s2 = i_tensor i0').
          { intros s2 H2 Hsub2. rewrite Etn. destruct (in_upd _ _ _ _ _ H2) as (j0 & Hj0 & Ec & _ & [[_ Et2]|[Eb ->]]); [exact Et2|].
            exfalso. destruct Hsub as [Hne Hall]. destruct Hsub2 as [_ Hall2]. destruct C as [|c0 C'] eqn:EC; [contradiction|].
            assert (Hm : existsb (fun c => memZ c (i_consumers s)) (i_consumers j0) = true).
            { apply existsb_exists. exists c0. split; [apply memZ_In; apply Hall2; left; reflexivity|apply Hall; left; reflexivity]. }
            congruence. }
          apply (IH _ i0' st1 g1 rest fuel st2 Hlen (eq_trans S2 HC) (upd_ok_list C s X (ntens g) Hot steps Hok') Htau1 HG1 HS1 Hg1
                    ltac:(rewrite Etn; lia) HJ1) in H.
          destruct H as (stq & gq & i0q & A1 & A2 & A3 & (B1 & B2 & B3) & A4 & A5 & A6).
          exists stq, gq, i0q. split; [exact A1|]. split; [exact A2|]. split; [exact A3|].
          split; [repeat split; congruence|]. split; [exact A4|]. split; [exact A5|exact A6].
  Qed.
End Mixed2.

Theorem last_instruction_readers m0 pre ti0 post m' k g0 steps i0 :
  Forall wf_sg (m_subgraphs m0) -> uids_ok m0 ->
  (forall ti i, In ti (pre ++ ti0 :: post) -> In i (ti_insts ti) -> sane m0 (ti_sg ti) i) ->
  ids_ok (pre ++ ti0 :: post) ->
  nth_opt (m_subgraphs m0) k = Some g0 ->
  ti_sg ti0 = Z.of_nat k -> ti_insts ti0 = steps ++ [i0] ->
  ok_list (i_consumers i0) steps -> (forall s, In s steps -> i_tensor s = i_tensor i0) ->
  (i_trans i0 = Tr_ADD_QUANTIZE \/ i_trans i0 = Tr_ADD_DEQUANTIZE) ->
  Forall (fun c => -1 <= c) (i_consumers i0) ->
  never_names k (i_tensor i0) pre ->
  transform_graph m0 (pre ++ ti0 :: post) = Ok m' ->
  exists x' g', nth_opt (m_subgraphs m') k = Some g' /\ ntens g0 <= x' /\
                readers_profile x' g' = moved_profile (i_tensor i0) (i_consumers i0) g0.
Proof.
  intros Hwf Hu Hsane Hids Hg0 Hsg Hins Hok Hsame Htr HC Hnn H.
  set (t := i_tensor i0) in *. set (C := i_consumers i0) in *.
  unfold transform_graph in H.
  match type of H with bind ?x _ = _ => destruct x as [st3|] eqn:E end; cbn [bind] in H; [|discriminate].
  inversion H; subst m'; clear H.
  fold (run_all (pre ++ ti0 :: post) (init_pstate m0)) in E. unfold run_all in E. rewrite foldM_app in E.
  fold (run_all pre (init_pstate m0)) in E.
  destruct (run_all pre (init_pstate m0)) as [st0|] eqn:E1; cbn [bind] in E; [|discriminate].
  cbn [foldM] in E. rewrite Hsg, Hins in E.
  destruct (apply_insts st0 (Z.of_nat k) (steps ++ [i0]) (length (steps ++ [i0]))) as [st2|] eqn:E2; cbn [bind] in E; [|discriminate].
  fold (run_all post st2) in E.
  pose proof (init_ginv m0 _ Hwf Hsane) as HG0. rewrite pend_of_app in HG0.
  destruct (run_both_rest m0 Hu pre _ _ _ HG0 (init_sinv _ Hu) E1) as [HGp HSp].
  destruct (ids_ok_app _ _ Hids) as [Hids_pre Hids2]. inversion Hids2 as [|? ? _ Hids_post]; subst.
  assert (Hk0 : (k < length (m_subgraphs (ps_model st0)))%nat) by (destruct HSp as [SL _]; rewrite SL; eapply nth_opt_Some_lt; exact Hg0).
  destruct (nth_opt_lt_Some (m_subgraphs (ps_model st0)) k Hk0) as [gp Hgp].
  assert (Ht0 : 0 <= t < ntens g0).
  { assert (Hin0 : In ti0 (pre ++ ti0 :: post)) by (apply in_app_iff; right; left; reflexivity).
    assert (Hi0 : In i0 (ti_insts ti0)) by (rewrite Hins; apply in_app_iff; right; left; reflexivity).
    destruct (Hsane ti0 i0 Hin0 Hi0) as [_ Hs2]. rewrite Hsg, Nat2Z.id in Hs2. destruct (Hs2 _ Hg0) as (R & _). exact R. }
  destruct (run_all_profile k t pre (init_pstate m0) st0 g0 Hids_pre Hnn Hg0 Ht0 E1) as (g_ & Hg_ & Ptp & Hnp).
  rewrite Hgp in Hg_. inversion Hg_; subst g_.
  cbn [pend_of flat_map] in HGp. rewrite Hsg, Hins in HGp.
  rewrite app_length in E2. cbn [length] in E2.
  assert (HJp : Jinv2 g0 t C t gp) by (unfold Jinv2; rewrite Ptp; reflexivity).
  destruct (mixed_prefix2 m0 k g0 t C Hu Hg0 (length steps) steps i0 st0 gp (pend_of post) 1 st2 eq_refl eq_refl Hok
              (fun s Hs _ => Hsame s Hs) HGp HSp Hgp ltac:(fold t; lia) HJp E2)
    as (stq & gq & i0q & EA & HGq & HSq & (Q1 & Q2 & Q3) & Hgq & Htq & HJq).
  cbn [apply_insts] in EA.
  assert (Htrq : i_trans i0q = Tr_ADD_QUANTIZE \/ i_trans i0q = Tr_ADD_DEQUANTIZE) by (rewrite Q1; exact Htr).
  assert (Hisins : is_insertion (i_trans i0q) = true) by (destruct Htrq as [-> | ->]; reflexivity).
  rewrite Hisins in EA.
  destruct (apply_single stq (Z.of_nat k) i0q []) as [[st1 later1]|] eqn:ES; cbn [bind fst snd] in EA; [|discriminate].
  pose proof (apply_single_nil _ _ _ _ _ ES) as ->. cbn [apply_insts] in EA. inversion EA; subst st2. clear EA.
  cbn [map app] in HGq.
  assert (HCq : Forall (fun c => -1 <= c) (i_consumers i0q)) by (rewrite Q2; exact HC).
  destruct (insertion_step_profiles m0 k stq i0q [] st1 [] (pend_of post) g0 gq Hu HGq HSq Hg0 Hgq Htrq HCq ES)
    as (g1 & Hg1 & N1 & _ & PN & _).
  assert (Hn0q : ntens g0 <= ntens gq).
  { destruct HSq as [_ SKq]. assert (Hkq : (k < length (m_subgraphs (ps_model stq)))%nat) by (eapply nth_opt_Some_lt; exact Hgq).
    destruct HGq as [Loq _ _ _]. destruct (nth_opt_lt_Some (ps_orig stq) k ltac:(lia)) as [omq Hoq].
    destruct (SKq _ _ _ _ Hg0 Hgq Hoq) as [_ _ _ [T _] _ _]. exact T. }
  assert (Hnn_post : never_names k (ntens gq) post).
  { intros ti i Hti Hsgi Hi _ Heq.
    assert (Hin : In ti (pre ++ ti0 :: post)) by (apply in_app_iff; right; right; exact Hti).
    destruct (Hsane ti i Hin Hi) as [_ Hs2]. rewrite Hsgi, Nat2Z.id in Hs2. destruct (Hs2 _ Hg0) as (R & _). lia. }
  destruct (run_all_profile k (ntens gq) post st1 st3 g1 Hids_post Hnn_post Hg1 ltac:(lia) E) as (g3 & Hg3 & P3 & _).
  exists (ntens gq), g3. split; [exact Hg3|]. split; [exact Hn0q|].
  rewrite P3, PN, Q2. fold C. unfold Jinv2 in HJq. rewrite HJq.
  assert (Horig0 : forall o, In o (sg_ops g0) -> is_original o = true).
  { intros o Ho'. unfold uids_ok in Hu. rewrite Forall_forall in Hu. specialize (Hu _ (nth_opt_In _ _ _ Hg0)).
    rewrite Forall_forall in Hu. specialize (Hu _ Ho'). unfold is_original. destruct (Z.eqb_spec (o_uid o) UID_INSERTED); [contradiction|reflexivity]. }
  unfold select, moved_profile, readers_profile, enumerate. rewrite (filter_all is_original _ Horig0).
  rewrite (filter_all (fun ko : Z * op => is_original (snd ko)) (enumerate_from 0 (sg_ops g0))).
  2:{ intros [j o] Hjo. cbn [snd]. apply Horig0. destruct (in_enum_all' _ _ _ _ Hjo) as (jj & _ & Hn). eapply nth_opt_In; exact Hn. }
  apply select_orig.
Qed.
