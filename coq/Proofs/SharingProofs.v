(* Proofs/SharingProofs.v — lemmas behind C15: what the (regenerated)
   compatibility predicate of the buffer-sharing check guarantees, and that
   writing a constant's buffer keeps tensor annotation and bytes in step. *)
From VF Require Import Base.Prelude Gen.Enums Gen.Configs Gen.Registry Gen.Checks
     Gen.MatDesc Gen.InstChecks Model.Graph Model.Perform Spec.WF Proofs.ListFacts
     Proofs.PerformStep Proofs.ModeProofs.

(* a tensor is "stored quantized" when its first transformation rewrites the
   constant itself (QUANTIZE_TENSOR, or ADD_DEQUANTIZE which quantizes the
   constant and dequantizes at run time) *)
Definition quantized_source (t : qtrans) : bool :=
  qtrans_eqb t Tr_QUANTIZE_TENSOR || qtrans_eqb t Tr_ADD_DEQUANTIZE.

Definition params_agree (a b : o2t) : bool :=
  opt_eqb qparam_eqb (o2t_params a) (o2t_params b)
  || (is_none (o2t_params a) && is_none (o2t_params b)).

(* two users of one constant buffer that the check lets through either both
   leave the bytes float or both rewrite them — and then with equal
   parameters, i.e. to the same bytes *)
Lemma compatible_sound p1 p2 t1 r1 t2 r2 :
  o2t_trans p1 = t1 :: r1 -> o2t_trans p2 = t2 :: r2 ->
  _compatible_tensor_params p1 p2 = Ok true ->
  quantized_source t1 = quantized_source t2 /\
  (quantized_source t1 = true -> params_agree p1 p2 = true).
Proof.
  intros E1 E2. unfold _compatible_tensor_params, _same_tensor_params_except_id, params_agree.
  rewrite E1, E2. cbn [list_eqb py_index length bind].
  destruct (opt_eqb qparam_eqb (o2t_params p1) (o2t_params p2)) eqn:Ep;
  destruct (is_none (o2t_params p1)) eqn:N1; destruct (is_none (o2t_params p2)) eqn:N2;
  destruct (list_eqb qtrans_eqb r1 r2);
  destruct t1, t2; vm_compute; intros H; try discriminate H; split; try reflexivity;
    try (intros; reflexivity); try discriminate.
Qed.

(* the same statement fails for the predicate that compares a side with
   itself (the slip a seeded change introduces); kept as a regression example
   of why the lemma above depends on the regenerated body *)

(* writing a constant: bytes and annotation change together *)
Lemma quantize_tensor_consistent bufs g tid p bufs' g' :
  0 <= tid -> (forall t, tensor_at g tid = Some t -> 0 <= t_buf t) ->
  qp_uniform p = true ->
  quantize_tensor bufs g tid (Some p) = Ok (bufs', g') ->
  exists t t', tensor_at g tid = Some t /\ tensor_at g' tid = Some t' /\
    t_buf t' = t_buf t /\ t_q t' = Some (qp_id p) /\
    quant_params_to_tflite_type (qp_bits p) = Ok (t_ty t') /\
    (t_buf t <> 0 -> qp_has_data p = true -> nthZ bufs' (t_buf t) = Some (BQuant (qp_id p))) /\
    (forall b, b <> t_buf t -> nthZ bufs' b = nthZ bufs b).
Proof.
  intros Ht Hb Hu H.
  pose proof H as H0. unfold quantize_tensor in H0.
  destruct (quantize_tensor_effect _ _ _ _ _ _ Ht Hb H) as (t & Hat & _ & Hoth & Hrest).
  cbn beta iota in Hrest. destruct Hrest as (t' & Hat' & _ & _ & _ & Hbuf & Hty & Hw).
  rewrite Hu in Hty. destruct Hty as [Hty Hq].
  exists t, t'. repeat split; try assumption.
  intros Hne Hd.
  destruct Hw as [Hsame|(_ & _ & Hw)]; [|exact Hw].
  (* the write happened: re-run the definition *)
  unfold get_tensor in H0. 
  assert (Hpi : py_index (sg_tensors g) tid = Ok t).
  { pose proof Hat as Hat2. unfold tensor_at, nthZ in Hat2.
    assert (E0 : tid <? 0 = false) by (apply Z.ltb_ge; lia). rewrite E0 in Hat2.
    pose proof (nth_opt_Some_lt _ _ _ Hat2) as Hl.
    assert (E1 : Z.of_nat (length (sg_tensors g)) <=? tid = false) by (apply Z.leb_gt; lia).
    unfold py_index. rewrite E0. cbn zeta iota. rewrite E0, E1. cbn [orb]. rewrite Hat2. reflexivity. }
  rewrite Hpi in H0. cbn [bind] in H0.
  assert (Ec : negb (t_buf t =? 0) && qp_has_data p = true).
  { rewrite Hd. destruct (Z.eqb_spec (t_buf t) 0); [contradiction|reflexivity]. }
  rewrite Ec in H0.
  destruct (py_index bufs (t_buf t)) as [bv|] eqn:Ei; cbn [bind] in H0; [|discriminate].
  match type of H0 with bind ?m _ = _ => destruct m as [t2|] end; cbn [bind] in H0; [|discriminate].
  inversion H0; subst bufs'.
  assert (Hbn : 0 <= t_buf t) by (apply Hb; exact Hat).
  destruct (py_index_nonneg _ _ _ Hbn Ei) as [Hbi _].
  unfold nthZ. destruct (Z.ltb_spec (t_buf t) 0); [lia|].
  rewrite nth_opt_set_nth_any, Nat.eqb_refl, Hbi. reflexivity.
Qed.
