(* Proofs/UntouchedProofs.v — C03 "others untouched", over whole performer
   runs: an original tensor that no instruction names keeps its name, shape,
   dtype, buffer and quantization annotation through the entire run of
   transform_graph (instructions that the performer re-targets are re-targeted
   to NEW tensors only). *)
From VF Require Import Base.Prelude Gen.Enums Model.Graph Gen.InstChecks Model.Insts
     Model.Perform Spec.WF Proofs.ListFacts Proofs.PerformStep Proofs.ModeProofs Proofs.LocalProofs
     Proofs.PerformInv Proofs.RangeInv Proofs.AloneProofs.

Lemma quantize_tensor_other bufs g tid ps bufs' g' :
  0 <= tid -> quantize_tensor bufs g tid ps = Ok (bufs', g') ->
  forall k, k <> tid -> tensor_at g' k = tensor_at g k.
Proof.
  intros Ht H k Hk. unfold quantize_tensor in H.
  destruct (get_tensor g tid) as [t0|]; cbn [bind] in H; [|discriminate].
  replace (if tid <? 0 then tid + lenZ (sg_tensors g) else tid) with tid in H
    by (destruct (Z.ltb_spec tid 0); [lia|reflexivity]).
  destruct ps as [p|].
  - match type of H with bind ?m _ = _ => destruct m as [b2|] end; cbn [bind] in H; [|discriminate].
    match type of H with bind ?m _ = _ => destruct m as [t2|] end; cbn [bind] in H; [|discriminate].
    inversion H; subst. unfold tensor_at, nthZ, set_tensor. cbn [sg_tensors].
    destruct (Z.ltb_spec k 0); [reflexivity|]. rewrite nth_opt_set_nth_any.
    destruct (Nat.eqb_spec (Z.to_nat k) (Z.to_nat tid)); [lia|reflexivity].
  - destruct (negb (t_buf t0 =? 0)); [discriminate|]. inversion H; subst. reflexivity.
Qed.

Lemma insert_common_other q codes bufs g tid producer cs ps codes' bufs' g' info :
  0 <= tid ->
  insert_common q codes bufs g tid producer cs ps = Ok (codes', bufs', g', info) ->
  ntens g' = ntens g + 1 /\ to_tensor info = ntens g /\
  forall k, k < ntens g -> k <> tid -> tensor_at g' k = tensor_at g k.
Proof.
  intros Ht H. unfold insert_common in H.
  destruct (add_op_code _ codes) as [cidx cds].
  destruct (get_tensor g tid) as [t0|]; cbn [bind] in H; [|discriminate].
  match type of H with bind ?m _ = _ => destruct m as [[b2 g2]|] eqn:Q end; cbn [bind] in H; [|discriminate].
  destruct (py_min cs); cbn [bind] in H; [|discriminate].
  match type of H with bind ?m _ = _ => destruct m end; cbn [bind] in H; [|discriminate].
  destruct (Z.max (producer + 1) _ <? 0); [discriminate|]. inversion H; subst; clear H.
  match type of Q with quantize_tensor _ ?G ?T _ = _ => set (g1 := G) in *; set (tq := T) in * end.
  assert (Htq : 0 <= tq) by (unfold tq; destruct q; unfold lenZ; lia).
  destruct (quantize_tensor_shape _ _ _ _ _ _ Q) as (_ & _ & _ & Hn & _).
  assert (Hn1 : ntens g1 = ntens g + 1).
  { unfold ntens, g1, lenZ. cbn [sg_tensors]. rewrite app_length. cbn. lia. }
  split; [unfold ntens in *; cbn [sg_tensors]; lia|]. split; [reflexivity|].
  intros k Hk Hne.
  change (tensor_at {| sg_tensors := sg_tensors g2; sg_ops := _; sg_inputs := _; sg_outputs := _ |} k)
    with (tensor_at g2 k).
  assert (Hk' : k <> tq) by (unfold tq; destruct q; unfold ntens in Hk; lia).
  rewrite (quantize_tensor_other _ _ _ _ _ _ Htq Q k Hk').
  unfold tensor_at, g1. cbn [sg_tensors]. apply nthZ_app_l. exact Hk.
Qed.

Lemma trans_of_other i codes bufs g producer cs codes' bufs' g' info :
  0 <= i_tensor i ->
  trans_of i codes bufs g producer cs = Ok (codes', bufs', g', info) ->
  ntens g <= ntens g' /\
  (forall t, t < ntens g -> t <> i_tensor i -> tensor_at g' t = tensor_at g t) /\
  (to_added info = 0 \/ to_tensor info = ntens g).
Proof.
  intros Hit H. unfold trans_of in H. destruct (i_trans i); try discriminate.
  - destruct (insert_common_other _ _ _ _ _ _ _ _ _ _ _ _ Hit H) as (Hn & Hto & Ho).
    split; [lia|]. split; [exact Ho|right; exact Hto].
  - destruct (insert_common_other _ _ _ _ _ _ _ _ _ _ _ _ Hit H) as (Hn & Hto & Ho).
    split; [lia|]. split; [exact Ho|right; exact Hto].
  - destruct (quantize_tensor bufs g (i_tensor i) (i_params i)) as [[b2 g2]|] eqn:Q; cbn [bind fst snd] in H; [|discriminate].
    inversion H; subst; clear H.
    destruct (quantize_tensor_shape _ _ _ _ _ _ Q) as (_ & _ & _ & Hn & _).
    split; [lia|]. split; [|left; reflexivity].
    intros t _ Hne. apply (quantize_tensor_other _ _ _ _ _ _ Hit Q). exact Hne.
Qed.

(* one performer step: a tensor of the target subgraph other than the one the
   instruction names is left alone; re-targeted later instructions name the
   NEW tensor *)
Lemma apply_single_untouched st sgid i later st' later' k g t :
  0 <= sgid -> 0 <= i_tensor i ->
  nth_opt (m_subgraphs (ps_model st)) k = Some g -> 0 <= t < ntens g ->
  (Z.to_nat sgid <> k \/ i_tensor i <> t) ->
  apply_single st sgid i later = Ok (st', later') ->
  exists g', nth_opt (m_subgraphs (ps_model st')) k = Some g' /\
    tensor_at g' t = tensor_at g t /\ ntens g <= ntens g' /\
    (Z.to_nat sgid = k ->
     forall j, In j later' -> i_tensor j = t -> exists j0, In j0 later /\ i_tensor j0 = t) /\
    (forall j, In j later' -> 0 <= i_tensor j \/ exists j0, In j0 later /\ i_tensor j0 = i_tensor j).
Proof.
  intros Hs Hit Hg Ht Hne H.
  destruct (apply_single_local _ _ _ _ _ _ Hs H) as (Hoth & _ & _ & _).
  rewrite apply_single_unfold in H.
  destruct (py_index (ps_orig st) sgid) as [om|]; cbn [bind] in H; [|discriminate].
  destruct (py_index (ps_added st) sgid) as [am|]; cbn [bind] in H; [|discriminate].
  destruct (py_index (m_subgraphs (ps_model st)) sgid) as [g0|] eqn:Eg; cbn [bind] in H; [|discriminate].
  destruct (resolve om am (i_producer i)) as [producer|]; cbn [bind] in H; [|discriminate].
  destruct (mapM _ (i_consumers i)) as [cs|]; cbn [bind] in H; [|discriminate].
  destruct (trans_of i (m_opcodes (ps_model st)) (m_buffers (ps_model st)) g0 producer cs)
    as [[[[c' b'] g'] info]|] eqn:T; cbn [bind] in H; [|discriminate].
  apply (py_index_nonneg _ _ _ Hs) in Eg. destruct Eg as [Eg Hlt].
  destruct (trans_of_other _ _ _ _ _ _ _ _ _ _ Hit T) as (Hn & Ho & Hinfo).
  assert (Hlater : forall X,
            later' = later \/ (to_tensor info = ntens g0 /\ later' = update_instructions later i X (to_tensor info)) ->
            (Z.to_nat sgid = k -> forall j, In j later' -> i_tensor j = t -> exists j0, In j0 later /\ i_tensor j0 = t) /\
            (forall j, In j later' -> 0 <= i_tensor j \/ exists j0, In j0 later /\ i_tensor j0 = i_tensor j)).
  { intros X [->|[Hto ->]].
    - split; [intros _ j Hj Hjt; eauto|intros j Hj; right; eauto].
    - split.
      + intros Ek j Hj Hjt. subst k. rewrite Hg in Eg. inversion Eg; subst g0.
        unfold update_instructions in Hj. apply in_map_iff in Hj. destruct Hj as (j0 & <- & Hj0).
        destruct (existsb _ (i_consumers j0)); [cbn [i_tensor] in Hjt; lia|eauto].
      + intros j Hj. unfold update_instructions in Hj. apply in_map_iff in Hj. destruct Hj as (j0 & <- & Hj0).
        destruct (existsb _ (i_consumers j0)); [left; cbn [i_tensor]; rewrite Hto; unfold ntens, lenZ; lia|right; eauto]. }
  assert (Hsub : forall sgs, sgs = set_nth (m_subgraphs (ps_model st)) (Z.to_nat sgid) g' ->
            exists g2, nth_opt sgs k = Some g2 /\ tensor_at g2 t = tensor_at g t /\ ntens g <= ntens g2).
  { intros sgs ->. destruct (Nat.eq_dec (Z.to_nat sgid) k) as [Ek|Nk].
    - subst k. rewrite Hg in Eg. inversion Eg; subst g0.
      exists g'. split; [apply nth_opt_set_nth_same; eapply nth_opt_Some_lt; exact Hg|].
      destruct Hne as [C|Hne]; [contradiction|].
      split; [apply Ho; [lia|congruence]|exact Hn].
    - exists g. split; [rewrite nth_opt_set_nth_other by (intros C; apply Nk; symmetry; exact C); exact Hg|]. split; [reflexivity|lia]. }
  destruct (to_added info =? 0) eqn:Ez.
  - inversion H; subst st' later'; clear H. cbn [ps_model set_sg m_subgraphs].
    destruct (Hsub _ eq_refl) as (g2 & A & B & C). exists g2. split; [exact A|]. split; [exact B|]. split; [exact C|].
    exact (Hlater 0 (or_introl eq_refl)).
  - inversion H; subst st' later'; clear H. cbn [ps_model set_sg m_subgraphs].
    destruct (Hsub _ eq_refl) as (g2 & A & B & C). exists g2. split; [exact A|]. split; [exact B|]. split; [exact C|].
    destruct Hinfo as [Hz|Hto]; [rewrite Hz in Ez; discriminate|].
    match goal with |- context [update_instructions later i ?X _] =>
      exact (Hlater X (or_intror (conj Hto eq_refl))) end.
Qed.

Lemma apply_insts_untouched sg k t : 0 <= sg -> forall fuel is st st' g,
  Forall (fun i => 0 <= i_tensor i) is ->
  nth_opt (m_subgraphs (ps_model st)) k = Some g -> 0 <= t < ntens g ->
  (Z.to_nat sg <> k \/ Forall (fun i => i_tensor i <> t) is) ->
  apply_insts st sg is fuel = Ok st' ->
  exists g', nth_opt (m_subgraphs (ps_model st')) k = Some g' /\
             tensor_at g' t = tensor_at g t /\ ntens g <= ntens g'.
Proof.
  intros Hs. induction fuel as [|f IH]; intros is st st' g Hnn Hg Ht Hno H.
  - destruct is; cbn in H; [|discriminate]. inversion H; subst. exists g. split; [exact Hg|]. split; [reflexivity|lia].
  - destruct is as [|i later]; cbn [apply_insts] in H.
    + inversion H; subst. exists g. split; [exact Hg|]. split; [reflexivity|lia].
    + inversion Hnn as [|? ? Hi Hnn']; subst.
      assert (Hno' : Z.to_nat sg <> k \/ Forall (fun i => i_tensor i <> t) later).
      { destruct Hno as [C|F]; [left; exact C|right; inversion F; assumption]. }
      destruct (is_insertion (i_trans i)).
      * destruct (apply_single st sg i later) as [[st1 later1]|] eqn:E; cbn [bind fst snd] in H; [|discriminate].
        assert (Hne : Z.to_nat sg <> k \/ i_tensor i <> t).
        { destruct Hno as [C|F]; [left; exact C|right; inversion F; assumption]. }
        destruct (apply_single_untouched _ _ _ _ _ _ _ _ _ Hs Hi Hg Ht Hne E) as (g1 & Hg1 & Et & Hn & L1 & L2).
        assert (Hnn1 : Forall (fun i => 0 <= i_tensor i) later1).
        { apply Forall_forall. intros j Hj. destruct (L2 j Hj) as [Hj0|(j0 & Hj0 & Ej)]; [exact Hj0|].
          rewrite <- Ej. rewrite Forall_forall in Hnn'. apply Hnn'. exact Hj0. }
        assert (Hno1 : Z.to_nat sg <> k \/ Forall (fun i => i_tensor i <> t) later1).
        { destruct Hno' as [C|F]; [left; exact C|].
          destruct (Nat.eq_dec (Z.to_nat sg) k) as [Ek|Nk]; [|left; exact Nk].
          right. apply Forall_forall. intros j Hj Ejt. destruct (L1 Ek j Hj Ejt) as (j0 & Hj0 & Ej0).
          rewrite Forall_forall in F. exact (F j0 Hj0 Ej0). }
        destruct (IH later1 st1 st' g1 Hnn1 Hg1 ltac:(lia) Hno1 H) as (g2 & Hg2 & Et2 & Hn2).
        exists g2. split; [exact Hg2|]. split; [congruence|lia].
      * destruct (qtrans_eqb (i_trans i) Tr_EMULATED_SUBCHANNEL); [discriminate|].
        eapply IH; eassumption.
Qed.

(* whole runs: an original tensor that no instruction of its subgraph names is
   returned exactly as it was *)
Theorem transform_graph_untouched m tis m' k g t :
  nth_opt (m_subgraphs m) k = Some g -> 0 <= t < ntens g ->
  Forall (fun ti => 0 <= ti_sg ti /\ Forall (fun i => 0 <= i_tensor i) (ti_insts ti)) tis ->
  (forall ti i, In ti tis -> ti_sg ti = Z.of_nat k -> In i (ti_insts ti) -> i_tensor i <> t) ->
  transform_graph m tis = Ok m' ->
  exists g', nth_opt (m_subgraphs m') k = Some g' /\ tensor_at g' t = tensor_at g t.
Proof.
  intros Hg Ht Hok Hno H. unfold transform_graph in H.
  match type of H with bind ?x _ = _ => destruct x as [st|] eqn:E end; cbn [bind] in H; [|discriminate].
  inversion H; subst m'; clear H.
  assert (G : forall tis st0 st1 g0,
            Forall (fun ti => 0 <= ti_sg ti /\ Forall (fun i => 0 <= i_tensor i) (ti_insts ti)) tis ->
            (forall ti i, In ti tis -> ti_sg ti = Z.of_nat k -> In i (ti_insts ti) -> i_tensor i <> t) ->
            nth_opt (m_subgraphs (ps_model st0)) k = Some g0 -> 0 <= t < ntens g0 ->
            foldM (fun st ti => apply_insts st (ti_sg ti) (ti_insts ti) (length (ti_insts ti))) tis st0 = Ok st1 ->
            exists g', nth_opt (m_subgraphs (ps_model st1)) k = Some g' /\ tensor_at g' t = tensor_at g0 t).
  { clear. induction tis as [|ti tis IH]; intros st0 st1 g0 Hok Hno Hg Ht H; cbn [foldM] in H.
    - inversion H; subst. eauto.
    - inversion Hok as [|? ? [Hsg Hnn] Hok']; subst.
      destruct (apply_insts st0 (ti_sg ti) (ti_insts ti) (length (ti_insts ti))) as [st2|] eqn:E; cbn [bind] in H; [|discriminate].
      assert (Hno1 : Z.to_nat (ti_sg ti) <> k \/ Forall (fun i => i_tensor i <> t) (ti_insts ti)).
      { destruct (Z.eq_dec (ti_sg ti) (Z.of_nat k)) as [Ek|Nk].
        - right. apply Forall_forall. intros i Hi. exact (Hno ti i (or_introl eq_refl) Ek Hi).
        - left. lia. }
      destruct (apply_insts_untouched _ _ _ Hsg _ _ _ _ _ Hnn Hg Ht Hno1 E) as (g1 & Hg1 & Et & Hn).
      destruct (IH st2 st1 g1 Hok' (fun ti' i' Hin => Hno ti' i' (or_intror Hin)) Hg1 ltac:(lia) H) as (g2 & Hg2 & Et2).
      exists g2. split; [exact Hg2|congruence]. }
  exact (G tis (init_pstate m) st g Hok Hno Hg Ht E).
Qed.
