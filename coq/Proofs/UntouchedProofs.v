(* Proofs/UntouchedProofs.v — C03 "others untouched", over whole performer
   runs: an original tensor that no instruction names keeps its name, shape,
   dtype, buffer and quantization annotation through the entire run of
   transform_graph (instructions that the performer re-targets are re-targeted
   to NEW tensors only). *)
From VF Require Import Base.Prelude Gen.Enums Model.Graph Gen.InstChecks Model.Insts
     Model.Perform Spec.WF Proofs.ListFacts Proofs.PerformStep Proofs.ModeProofs Proofs.LocalProofs
     Proofs.PerformInv Proofs.RangeInv Proofs.AloneProofs.

Lemma quantize_tensor_other bufs g tid ps bufs' g' :
  0 <= tid -> quantize_tensor bufs g tid ps = Ok (bufs', g') ->
  forall k, k <> tid -> tensor_at g' k = tensor_at g k.
Proof.
  intros Ht H k Hk. unfold quantize_tensor in H.
  destruct (get_tensor g tid) as [t0|]; cbn [bind] in H; [|discriminate].
  replace (if tid <? 0 then tid + lenZ (sg_tensors g) else tid) with tid in H
    by (destruct (Z.ltb_spec tid 0); [lia|reflexivity]).
  destruct ps as [p|].
  - match type of H with bind ?m _ = _ => destruct m as [b2|] end; cbn [bind] in H; [|discriminate].
    match type of H with bind ?m _ = _ => destruct m as [t2|] end; cbn [bind] in H; [|discriminate].
    inversion H; subst. unfold tensor_at, nthZ, set_tensor. cbn [sg_tensors].
    destruct (Z.ltb_spec k 0); [reflexivity|]. rewrite nth_opt_set_nth_any.
    destruct (Nat.eqb_spec (Z.to_nat k) (Z.to_nat tid)); [lia|reflexivity].
  - destruct (negb (t_buf t0 =? 0)); [discriminate|]. inversion H; subst. reflexivity.
Qed.

Lemma insert_common_other q codes bufs g tid producer cs ps codes' bufs' g' info :
  0 <= tid ->
  insert_common q codes bufs g tid producer cs ps = Ok (codes', bufs', g', info) ->
  ntens g' = ntens g + 1 /\ to_tensor info = ntens g /\
  forall k, k < ntens g -> k <> tid -> tensor_at g' k = tensor_at g k.
Proof.
  intros Ht H. unfold insert_common in H.
  destruct (add_op_code _ codes) as [cidx cds].
  destruct (get_tensor g tid) as [t0|]; cbn [bind] in H; [|discriminate].
  match type of H with bind ?m _ = _ => destruct m as [[b2 g2]|] eqn:Q end; cbn [bind] in H; [|discriminate].
  destruct (py_min cs); cbn [bind] in H; [|discriminate].
  match type of H with bind ?m _ = _ => destruct m end; cbn [bind] in H; [|discriminate].
  destruct (Z.max (producer + 1) _ <? 0); [discriminate|]. inversion H; subst; clear H.
  match type of Q with quantize_tensor _ ?G ?T _ = _ => set (g1 := G) in *; set (tq := T) in * end.
  assert (Htq : 0 <= tq) by (unfold tq; destruct q; unfold lenZ; lia).
  destruct (quantize_tensor_shape _ _ _ _ _ _ Q) as (_ & _ & _ & Hn & _).
  assert (Hn1 : ntens g1 = ntens g + 1).
  { unfold ntens, g1, lenZ. cbn [sg_tensors]. rewrite app_length. cbn. lia. }
  split; [unfold ntens in *; cbn [sg_tensors]; lia|]. split; [reflexivity|].
  intros k Hk Hne.
  change (tensor_at {| sg_tensors := sg_tensors g2; sg_ops := _; sg_inputs := _; sg_outputs := _ |} k)
    with (tensor_at g2 k).
  assert (Hk' : k <> tq) by (unfold tq; destruct q; unfold ntens in Hk; lia).
  rewrite (quantize_tensor_other _ _ _ _ _ _ Htq Q k Hk').
  unfold tensor_at, g1. cbn [sg_tensors]. apply nthZ_app_l. exact Hk.
Qed.

Lemma trans_of_other i codes bufs g producer cs codes' bufs' g' info :
  0 <= i_tensor i ->
  trans_of i codes bufs g producer cs = Ok (codes', bufs', g', info) ->
  ntens g <= ntens g' /\
  (forall t, t < ntens g -> t <> i_tensor i -> tensor_at g' t = tensor_at g t) /\
  (to_added info = 0 \/ to_tensor info = ntens g).
Proof.
  intros Hit H. unfold trans_of in H. destruct (i_trans i); try discriminate.
  - destruct (insert_common_other _ _ _ _ _ _ _ _ _ _ _ _ Hit H) as (Hn & Hto & Ho).
    split; [lia|]. split; [exact Ho|right; exact Hto].
  - destruct (insert_common_other _ _ _ _ _ _ _ _ _ _ _ _ Hit H) as (Hn & Hto & Ho).
    split; [lia|]. split; [exact Ho|right; exact Hto].
  - destruct (quantize_tensor bufs g (i_tensor i) (i_params i)) as [[b2 g2]|] eqn:Q; cbn [bind fst snd] in H; [|discriminate].
    inversion H; subst; clear H.
    destruct (quantize_tensor_shape _ _ _ _ _ _ Q) as (_ & _ & _ & Hn & _).
    split; [lia|]. split; [|left; reflexivity].
    intros t _ Hne. apply (quantize_tensor_other _ _ _ _ _ _ Hit Q). exact Hne.
Qed.

(* one performer step: a tensor of the target subgraph other than the one the
   instruction names is left alone; re-targeted later instructions name the
   NEW tensor *)
Lemma apply_single_untouched st sgid i later st' later' k g t :
  0 <= sgid -> 0 <= i_tensor i ->
  nth_opt (m_subgraphs (ps_model st)) k = Some g -> 0 <= t < ntens g ->
  (Z.to_nat sgid <> k \/ i_tensor i <> t) ->
  apply_single st sgid i later = Ok (st', later') ->
  exists g', nth_opt (m_subgraphs (ps_model st')) k = Some g' /\
    tensor_at g' t = tensor_at g t /\ ntens g <= ntens g' /\
    (Z.to_nat sgid = k ->
     forall j, In j later' -> i_tensor j = t ->
               exists j0, In j0 later /\ i_tensor j0 = t /\ i_trans j0 = i_trans j) /\
    (forall j, In j later' -> 0 <= i_tensor j \/ exists j0, In j0 later /\ i_tensor j0 = i_tensor j).
Proof.
  intros Hs Hit Hg Ht Hne H.
  destruct (apply_single_local _ _ _ _ _ _ Hs H) as (Hoth & _ & _ & _).
  rewrite apply_single_unfold in H.
  destruct (py_index (ps_orig st) sgid) as [om|]; cbn [bind] in H; [|discriminate].
  destruct (py_index (ps_added st) sgid) as [am|]; cbn [bind] in H; [|discriminate].
  destruct (py_index (m_subgraphs (ps_model st)) sgid) as [g0|] eqn:Eg; cbn [bind] in H; [|discriminate].
  destruct (resolve om am (i_producer i)) as [producer|]; cbn [bind] in H; [|discriminate].
  destruct (mapM _ (i_consumers i)) as [cs|]; cbn [bind] in H; [|discriminate].
  destruct (trans_of i (m_opcodes (ps_model st)) (m_buffers (ps_model st)) g0 producer cs)
    as [[[[c' b'] g'] info]|] eqn:T; cbn [bind] in H; [|discriminate].
  apply (py_index_nonneg _ _ _ Hs) in Eg. destruct Eg as [Eg Hlt].
  destruct (trans_of_other _ _ _ _ _ _ _ _ _ _ Hit T) as (Hn & Ho & Hinfo).
  assert (Hlater : forall X,
            later' = later \/ (to_tensor info = ntens g0 /\ later' = update_instructions later i X (to_tensor info)) ->
            (Z.to_nat sgid = k -> forall j, In j later' -> i_tensor j = t ->
                                  exists j0, In j0 later /\ i_tensor j0 = t /\ i_trans j0 = i_trans j) /\
            (forall j, In j later' -> 0 <= i_tensor j \/ exists j0, In j0 later /\ i_tensor j0 = i_tensor j)).
  { intros X [->|[Hto ->]].
    - split; [intros _ j Hj Hjt; eauto|intros j Hj; right; eauto].
    - split.
      + intros Ek j Hj Hjt. subst k. rewrite Hg in Eg. inversion Eg; subst g0.
        unfold update_instructions in Hj. apply in_map_iff in Hj. destruct Hj as (j0 & <- & Hj0).
        destruct (existsb _ (i_consumers j0)); [cbn [i_tensor] in Hjt; lia|eauto].
      + intros j Hj. unfold update_instructions in Hj. apply in_map_iff in Hj. destruct Hj as (j0 & <- & Hj0).
        destruct (existsb _ (i_consumers j0)); [left; cbn [i_tensor]; rewrite Hto; unfold ntens, lenZ; lia|right; eauto]. }
  assert (Hsub : forall sgs, sgs = set_nth (m_subgraphs (ps_model st)) (Z.to_nat sgid) g' ->
            exists g2, nth_opt sgs k = Some g2 /\ tensor_at g2 t = tensor_at g t /\ ntens g <= ntens g2).
  { intros sgs ->. destruct (Nat.eq_dec (Z.to_nat sgid) k) as [Ek|Nk].
    - subst k. rewrite Hg in Eg. inversion Eg; subst g0.
      exists g'. split; [apply nth_opt_set_nth_same; eapply nth_opt_Some_lt; exact Hg|].
      destruct Hne as [C|Hne]; [contradiction|].
      split; [apply Ho; [lia|congruence]|exact Hn].
    - exists g. split; [rewrite nth_opt_set_nth_other by (intros C; apply Nk; symmetry; exact C); exact Hg|]. split; [reflexivity|lia]. }
  destruct (to_added info =? 0) eqn:Ez.
  - inversion H; subst st' later'; clear H. cbn [ps_model set_sg m_subgraphs].
    destruct (Hsub _ eq_refl) as (g2 & A & B & C). exists g2. split; [exact A|]. split; [exact B|]. split; [exact C|].
    exact (Hlater 0 (or_introl eq_refl)).
  - inversion H; subst st' later'; clear H. cbn [ps_model set_sg m_subgraphs].
    destruct (Hsub _ eq_refl) as (g2 & A & B & C). exists g2. split; [exact A|]. split; [exact B|]. split; [exact C|].
    destruct Hinfo as [Hz|Hto]; [rewrite Hz in Ez; discriminate|].
    match goal with |- context [update_instructions later i ?X _] =>
      exact (Hlater X (or_intror (conj Hto eq_refl))) end.
Qed.

(* an instruction is QUIET about t if it is skipped by the performer
   (NO_QUANTIZE) or names another tensor *)
Definition quiet (t : Z) (i : inst) : Prop := is_insertion (i_trans i) = true -> i_tensor i <> t.

Lemma apply_insts_untouched sg k t : 0 <= sg -> forall fuel is st st' g,
  Forall (fun i => 0 <= i_tensor i) is ->
  nth_opt (m_subgraphs (ps_model st)) k = Some g -> 0 <= t < ntens g ->
  (Z.to_nat sg <> k \/ Forall (quiet t) is) ->
  apply_insts st sg is fuel = Ok st' ->
  exists g', nth_opt (m_subgraphs (ps_model st')) k = Some g' /\
             tensor_at g' t = tensor_at g t /\ ntens g <= ntens g'.
Proof.
  intros Hs. induction fuel as [|f IH]; intros is st st' g Hnn Hg Ht Hno H.
  - destruct is; cbn in H; [|discriminate]. inversion H; subst. exists g. split; [exact Hg|]. split; [reflexivity|lia].
  - destruct is as [|i later]; cbn [apply_insts] in H.
    + inversion H; subst. exists g. split; [exact Hg|]. split; [reflexivity|lia].
    + inversion Hnn as [|? ? Hi Hnn']; subst.
      assert (Hno' : Z.to_nat sg <> k \/ Forall (quiet t) later).
      { destruct Hno as [C|F]; [left; exact C|right; inversion F; assumption]. }
      destruct (is_insertion (i_trans i)) eqn:Eins.
      * destruct (apply_single st sg i later) as [[st1 later1]|] eqn:E; cbn [bind fst snd] in H; [|discriminate].
        assert (Hne : Z.to_nat sg <> k \/ i_tensor i <> t).
        { destruct Hno as [C|F]; [left; exact C|right; inversion F as [|? ? Fq _]; apply Fq; exact Eins]. }
        destruct (apply_single_untouched _ _ _ _ _ _ _ _ _ Hs Hi Hg Ht Hne E) as (g1 & Hg1 & Et & Hn & L1 & L2).
        assert (Hnn1 : Forall (fun i => 0 <= i_tensor i) later1).
        { apply Forall_forall. intros j Hj. destruct (L2 j Hj) as [Hj0|(j0 & Hj0 & Ej)]; [exact Hj0|].
          rewrite <- Ej. rewrite Forall_forall in Hnn'. apply Hnn'. exact Hj0. }
        assert (Hno1 : Z.to_nat sg <> k \/ Forall (quiet t) later1).
        { destruct Hno' as [C|F]; [left; exact C|].
          destruct (Nat.eq_dec (Z.to_nat sg) k) as [Ek|Nk]; [|left; exact Nk].
          right. apply Forall_forall. intros j Hj Hjins Ejt. destruct (L1 Ek j Hj Ejt) as (j0 & Hj0 & Ej0 & Etr).
          rewrite Forall_forall in F. apply (F j0 Hj0); [rewrite Etr; exact Hjins|exact Ej0]. }
        destruct (IH later1 st1 st' g1 Hnn1 Hg1 ltac:(lia) Hno1 H) as (g2 & Hg2 & Et2 & Hn2).
        exists g2. split; [exact Hg2|]. split; [congruence|lia].
      * destruct (qtrans_eqb (i_trans i) Tr_EMULATED_SUBCHANNEL); [discriminate|].
        eapply IH; eassumption.
Qed.

Definition run_all (tis : list tinsts) (st : pstate) : res pstate :=
  foldM (fun st ti => apply_insts st (ti_sg ti) (ti_insts ti) (length (ti_insts ti))) tis st.

Definition ids_ok (tis : list tinsts) : Prop :=
  Forall (fun ti => 0 <= ti_sg ti /\ Forall (fun i => 0 <= i_tensor i) (ti_insts ti)) tis.
Definition never_names (k : nat) (t : Z) (tis : list tinsts) : Prop :=
  forall ti i, In ti tis -> ti_sg ti = Z.of_nat k -> In i (ti_insts ti) -> quiet t i.

Lemma run_all_untouched k t : forall tis st0 st1 g0,
  ids_ok tis -> never_names k t tis ->
  nth_opt (m_subgraphs (ps_model st0)) k = Some g0 -> 0 <= t < ntens g0 ->
  run_all tis st0 = Ok st1 ->
  exists g', nth_opt (m_subgraphs (ps_model st1)) k = Some g' /\ tensor_at g' t = tensor_at g0 t /\
             ntens g0 <= ntens g'.
Proof.
  unfold run_all. induction tis as [|ti tis IH]; intros st0 st1 g0 Hok Hno Hg Ht H; cbn [foldM] in H.
  - inversion H; subst. exists g0. split; [exact Hg|]. split; [reflexivity|lia].
  - inversion Hok as [|? ? [Hsg Hnn] Hok']; subst.
    destruct (apply_insts st0 (ti_sg ti) (ti_insts ti) (length (ti_insts ti))) as [st2|] eqn:E; cbn [bind] in H; [|discriminate].
    assert (Hno1 : Z.to_nat (ti_sg ti) <> k \/ Forall (quiet t) (ti_insts ti)).
    { destruct (Z.eq_dec (ti_sg ti) (Z.of_nat k)) as [Ek|Nk].
      - right. apply Forall_forall. intros i Hi. exact (Hno ti i (or_introl eq_refl) Ek Hi).
      - left. lia. }
    destruct (apply_insts_untouched _ _ _ Hsg _ _ _ _ _ Hnn Hg Ht Hno1 E) as (g1 & Hg1 & Et & Hn).
    destruct (IH st2 st1 g1 Hok' (fun ti' i' Hin => Hno ti' i' (or_intror Hin)) Hg1 ltac:(lia) H) as (g2 & Hg2 & Et2 & Hn2).
    exists g2. split; [exact Hg2|]. split; [congruence|lia].
Qed.

(* whole runs: an original tensor that no instruction of its subgraph names is
   returned exactly as it was *)
Theorem transform_graph_untouched m tis m' k g t :
  nth_opt (m_subgraphs m) k = Some g -> 0 <= t < ntens g ->
  ids_ok tis -> never_names k t tis ->
  transform_graph m tis = Ok m' ->
  exists g', nth_opt (m_subgraphs m') k = Some g' /\ tensor_at g' t = tensor_at g t.
Proof.
  intros Hg Ht Hok Hno H. unfold transform_graph in H.
  match type of H with bind ?x _ = _ => destruct x as [st|] eqn:E end; cbn [bind] in H; [|discriminate].
  inversion H; subst m'; clear H.
  destruct (run_all_untouched k t tis (init_pstate m) st g Hok Hno Hg Ht E) as (g' & A & B & _). eauto.
Qed.

(* ---------- the positive clause: a tensor quantized in place ---------- *)
(* y' is y quantized with parameters p: same name, shape, buffer; the dtype of
   p's bit width; uniform parameters are annotated, float16 casts are not *)
Definition qres (p : qparam) (y y' : tensor) : Prop :=
  t_root y' = t_root y /\ t_sfx y' = t_sfx y /\ t_shape y' = t_shape y /\ t_buf y' = t_buf y /\
  (if qp_uniform p
   then quant_params_to_tflite_type (qp_bits p) = Ok (t_ty y') /\ t_q y' = Some (qp_id p)
   else nonlinear_quant_params_to_tflite_type (qp_bits p) = Ok (t_ty y') /\ t_q y' = t_q y).

Lemma qres_stable p x y z : qres p x y -> qres p y z -> z = y.
Proof.
  intros (A1 & A2 & A3 & A4 & A5) (B1 & B2 & B3 & B4 & B5).
  destruct y as [r1 s1 sh1 ty1 b1 q1], z as [r2 s2 sh2 ty2 b2 q2]. cbn in *.
  destruct (qp_uniform p).
  - destruct A5 as [A5 A6], B5 as [B5 B6]. rewrite A5 in B5. inversion B5. congruence.
  - destruct A5 as [A5 A6], B5 as [B5 B6]. rewrite A5 in B5. inversion B5. congruence.
Qed.

Lemma quantize_tensor_at bufs g tid p bufs' g' y :
  0 <= tid -> tensor_at g tid = Some y ->
  quantize_tensor bufs g tid (Some p) = Ok (bufs', g') ->
  exists y', tensor_at g' tid = Some y' /\ qres p y y'.
Proof.
  intros Ht Hy H. unfold quantize_tensor in H.
  destruct (get_tensor g tid) as [t0|] eqn:Et; cbn [bind] in H; [|discriminate].
  unfold get_tensor in Et. destruct (py_index_nonneg _ _ _ Ht Et) as [Hn Hlt].
  assert (t0 = y).
  { unfold tensor_at, nthZ in Hy. destruct (Z.ltb_spec tid 0); [lia|]. congruence. }
  subst t0.
  replace (if tid <? 0 then tid + lenZ (sg_tensors g) else tid) with tid in H
    by (destruct (Z.ltb_spec tid 0); [lia|reflexivity]).
  match type of H with bind ?m _ = _ => destruct m as [b2|] end; cbn [bind] in H; [|discriminate].
  match type of H with bind ?m _ = _ => destruct m as [t2|] eqn:Et2 end; cbn [bind] in H; [|discriminate].
  inversion H; subst bufs' g'; clear H. exists t2. split.
  - unfold tensor_at, nthZ, set_tensor. cbn [sg_tensors]. destruct (Z.ltb_spec tid 0); [lia|].
    rewrite nth_opt_set_nth_any, Nat.eqb_refl, Hn. reflexivity.
  - unfold qres. destruct (qp_uniform p).
    + destruct (quant_params_to_tflite_type (qp_bits p)) as [ty|]; cbn [bind] in Et2; [|discriminate].
      inversion Et2; subst; cbn. auto 10.
    + destruct (nonlinear_quant_params_to_tflite_type (qp_bits p)) as [ty|]; cbn [bind] in Et2; [|discriminate].
      inversion Et2; subst; cbn. auto 10.
Qed.

(* effect of the three transformations on the tensor they name *)
Lemma trans_of_named i codes bufs g producer cs codes' bufs' g' info y :
  0 <= i_tensor i -> tensor_at g (i_tensor i) = Some y ->
  trans_of i codes bufs g producer cs = Ok (codes', bufs', g', info) ->
  (i_trans i = Tr_ADD_QUANTIZE /\ tensor_at g' (i_tensor i) = Some y) \/
  ((i_trans i = Tr_QUANTIZE_TENSOR \/ i_trans i = Tr_ADD_DEQUANTIZE) /\
   match i_params i with
   | Some p => exists y', tensor_at g' (i_tensor i) = Some y' /\ qres p y y'
   | None => tensor_at g' (i_tensor i) = Some y
   end).
Proof.
  intros Hit Hy H. unfold trans_of in H.
  assert (Hlt : i_tensor i < ntens g).
  { unfold tensor_at, nthZ in Hy. destruct (Z.ltb_spec (i_tensor i) 0); [lia|].
    apply nth_opt_Some_lt in Hy. unfold ntens, lenZ. lia. }
  destruct (i_trans i) eqn:Etr; try discriminate.
  - (* ADD_QUANTIZE: only the new tensor is annotated *)
    left. split; [reflexivity|]. unfold insert_common in H.
    destruct (add_op_code _ codes) as [cidx cds].
    destruct (get_tensor g (i_tensor i)) as [t0|]; cbn [bind] in H; [|discriminate].
    match type of H with bind ?m _ = _ => destruct m as [[b2 g2]|] eqn:Q end; cbn [bind] in H; [|discriminate].
    destruct (py_min cs); cbn [bind] in H; [|discriminate].
    match type of H with bind ?m _ = _ => destruct m end; cbn [bind] in H; [|discriminate].
    destruct (Z.max (producer + 1) _ <? 0); [discriminate|]. inversion H; subst; clear H.
    change (tensor_at {| sg_tensors := sg_tensors g2; sg_ops := _; sg_inputs := _; sg_outputs := _ |} (i_tensor i))
      with (tensor_at g2 (i_tensor i)).
    assert (Hq0 : 0 <= lenZ (sg_tensors g)) by (unfold lenZ; lia).
    rewrite (quantize_tensor_other _ _ _ _ _ _ Hq0 Q (i_tensor i)) by (unfold ntens in Hlt; lia).
    unfold tensor_at. cbn [sg_tensors]. rewrite nthZ_app_l by exact Hlt. exact Hy.
  - (* ADD_DEQUANTIZE: the named tensor itself is quantized *)
    right. split; [right; reflexivity|]. unfold insert_common in H.
    destruct (add_op_code _ codes) as [cidx cds].
    destruct (get_tensor g (i_tensor i)) as [t0|]; cbn [bind] in H; [|discriminate].
    match type of H with bind ?m _ = _ => destruct m as [[b2 g2]|] eqn:Q end; cbn [bind] in H; [|discriminate].
    destruct (py_min cs); cbn [bind] in H; [|discriminate].
    match type of H with bind ?m _ = _ => destruct m end; cbn [bind] in H; [|discriminate].
    destruct (Z.max (producer + 1) _ <? 0); [discriminate|]. inversion H; subst; clear H.
    change (tensor_at {| sg_tensors := sg_tensors g2; sg_ops := _; sg_inputs := _; sg_outputs := _ |} (i_tensor i))
      with (tensor_at g2 (i_tensor i)).
    match type of Q with quantize_tensor _ ?G _ _ = _ => set (g1 := G) in * end.
    assert (Hy1 : tensor_at g1 (i_tensor i) = Some y).
    { unfold tensor_at, g1. cbn [sg_tensors]. rewrite nthZ_app_l by exact Hlt. exact Hy. }
    destruct (i_params i) as [p|].
    + exact (quantize_tensor_at _ _ _ _ _ _ _ Hit Hy1 Q).
    + unfold quantize_tensor in Q. destruct (get_tensor g1 (i_tensor i)) as [t1|]; cbn [bind] in Q; [|discriminate].
      destruct (negb (t_buf t1 =? 0)); [discriminate|]. inversion Q; subst. exact Hy1.
  - right. split; [left; reflexivity|].
    destruct (quantize_tensor bufs g (i_tensor i) (i_params i)) as [[b2 g2]|] eqn:Q; cbn [bind fst snd] in H; [|discriminate].
    inversion H; subst; clear H.
    destruct (i_params i) as [p|].
    + exact (quantize_tensor_at _ _ _ _ _ _ _ Hit Hy Q).
    + unfold quantize_tensor in Q. destruct (get_tensor g (i_tensor i)) as [t1|]; cbn [bind] in Q; [|discriminate].
      destruct (negb (t_buf t1 =? 0)); [discriminate|]. inversion Q; subst. exact Hy.
Qed.

Definition agree (p : qparam) (t : Z) (is : list inst) : Prop :=
  Forall (fun i => i_tensor i = t ->
                   (i_trans i = Tr_QUANTIZE_TENSOR \/ i_trans i = Tr_ADD_DEQUANTIZE) ->
                   i_params i = Some p) is.

(* re-targeted instructions name the NEW tensor *)
Lemma apply_single_later st k i later st' later' g :
  0 <= i_tensor i ->
  nth_opt (m_subgraphs (ps_model st)) k = Some g ->
  apply_single st (Z.of_nat k) i later = Ok (st', later') ->
  forall j, In j later' -> In j later \/ i_tensor j = ntens g.
Proof.
  intros Hit Hg H. rewrite apply_single_unfold in H.
  destruct (py_index (ps_orig st) (Z.of_nat k)) as [om|]; cbn [bind] in H; [|discriminate].
  destruct (py_index (ps_added st) (Z.of_nat k)) as [am|]; cbn [bind] in H; [|discriminate].
  rewrite (py_index_of_nat _ _ _ Hg) in H. cbn [bind] in H.
  destruct (resolve om am (i_producer i)) as [producer|]; cbn [bind] in H; [|discriminate].
  destruct (mapM _ (i_consumers i)) as [cs|]; cbn [bind] in H; [|discriminate].
  destruct (trans_of i (m_opcodes (ps_model st)) (m_buffers (ps_model st)) g producer cs)
    as [[[[c' b'] g'] info]|] eqn:T; cbn [bind] in H; [|discriminate].
  destruct (trans_of_other _ _ _ _ _ _ _ _ _ _ Hit T) as (_ & _ & Hinfo).
  destruct (to_added info =? 0) eqn:Ez; inversion H; subst st' later'; clear H.
  - intros j Hj. left. exact Hj.
  - destruct Hinfo as [Hz|Hto]; [rewrite Hz in Ez; discriminate|].
    intros j Hj. unfold update_instructions in Hj. apply in_map_iff in Hj. destruct Hj as (j0 & <- & Hj0).
    destruct (existsb _ (i_consumers j0)); [right; cbn [i_tensor]; exact Hto|left; exact Hj0].
Qed.

(* the effect of a step on the tensor its instruction names *)
Lemma apply_single_named st k i later st' later' g y :
  0 <= i_tensor i ->
  nth_opt (m_subgraphs (ps_model st)) k = Some g -> tensor_at g (i_tensor i) = Some y ->
  apply_single st (Z.of_nat k) i later = Ok (st', later') ->
  exists g', nth_opt (m_subgraphs (ps_model st')) k = Some g' /\ ntens g <= ntens g' /\
    ((i_trans i = Tr_ADD_QUANTIZE /\ tensor_at g' (i_tensor i) = Some y) \/
     ((i_trans i = Tr_QUANTIZE_TENSOR \/ i_trans i = Tr_ADD_DEQUANTIZE) /\
      match i_params i with
      | Some p => exists y', tensor_at g' (i_tensor i) = Some y' /\ qres p y y'
      | None => tensor_at g' (i_tensor i) = Some y
      end)).
Proof.
  intros Hit Hg Hy H. rewrite apply_single_unfold in H.
  destruct (py_index (ps_orig st) (Z.of_nat k)) as [om|]; cbn [bind] in H; [|discriminate].
  destruct (py_index (ps_added st) (Z.of_nat k)) as [am|]; cbn [bind] in H; [|discriminate].
  rewrite (py_index_of_nat _ _ _ Hg) in H. cbn [bind] in H.
  destruct (resolve om am (i_producer i)) as [producer|]; cbn [bind] in H; [|discriminate].
  destruct (mapM _ (i_consumers i)) as [cs|]; cbn [bind] in H; [|discriminate].
  destruct (trans_of i (m_opcodes (ps_model st)) (m_buffers (ps_model st)) g producer cs)
    as [[[[c' b'] g'] info]|] eqn:T; cbn [bind] in H; [|discriminate].
  destruct (trans_of_other _ _ _ _ _ _ _ _ _ _ Hit T) as (Hn & _ & _).
  pose proof (trans_of_named _ _ _ _ _ _ _ _ _ _ _ Hit Hy T) as Hnamed.
  pose proof (nth_opt_Some_lt _ _ _ Hg) as Hlt.
  exists g'. destruct (to_added info =? 0) eqn:Ez; inversion H; subst st' later'; clear H;
    cbn [ps_model set_sg m_subgraphs]; rewrite Nat2Z.id;
    (split; [apply nth_opt_set_nth_same; exact Hlt|]); (split; [exact Hn|exact Hnamed]).
Qed.

Lemma apply_insts_kept k t p y : forall fuel is st st' g,
  (forall z, qres p y z -> z = y) ->
  Forall (fun i => 0 <= i_tensor i) is -> agree p t is ->
  nth_opt (m_subgraphs (ps_model st)) k = Some g -> tensor_at g t = Some y -> 0 <= t ->
  apply_insts st (Z.of_nat k) is fuel = Ok st' ->
  exists g', nth_opt (m_subgraphs (ps_model st')) k = Some g' /\ tensor_at g' t = Some y /\ ntens g <= ntens g'.
Proof.
  induction fuel as [|f IH]; intros is st st' g Hst Hnn Hag Hg Hy Ht0 H.
  - destruct is; cbn in H; [|discriminate]. inversion H; subst. exists g. split; [exact Hg|]. split; [exact Hy|lia].
  - destruct is as [|i later]; cbn [apply_insts] in H.
    + inversion H; subst. exists g. split; [exact Hg|]. split; [exact Hy|lia].
    + inversion Hnn as [|? ? Hi Hnn']; subst. inversion Hag as [|? ? Hai Hag']; subst.
      assert (Htlt : t < ntens g).
      { unfold tensor_at, nthZ in Hy. destruct (Z.ltb_spec t 0); [lia|].
        apply nth_opt_Some_lt in Hy. unfold ntens, lenZ. lia. }
      destruct (is_insertion (i_trans i)).
      * destruct (apply_single st (Z.of_nat k) i later) as [[st1 later1]|] eqn:E; cbn [bind fst snd] in H; [|discriminate].
        pose proof (apply_single_later _ _ _ _ _ _ _ Hi Hg E) as Hl.
        assert (Hstep : exists g1, nth_opt (m_subgraphs (ps_model st1)) k = Some g1 /\ tensor_at g1 t = Some y /\
                          ntens g <= ntens g1).
        { destruct (Z.eq_dec (i_tensor i) t) as [Et|Nt].
          - subst t. destruct (apply_single_named _ _ _ _ _ _ _ _ Hi Hg Hy E) as (g1 & Hg1 & Hn & Hcase).
            exists g1. split; [exact Hg1|]. split; [|exact Hn].
            destruct Hcase as [[_ Hs]|[Htr Hs]]; [exact Hs|].
            rewrite (Hai eq_refl Htr) in Hs. destruct Hs as (y' & Hy' & Hq). rewrite (Hst _ Hq) in Hy'. exact Hy'.
          - assert (Hsg : 0 <= Z.of_nat k) by lia.
            destruct (apply_single_untouched _ _ _ _ _ _ k g t Hsg Hi Hg (conj Ht0 Htlt) (or_intror Nt) E)
              as (g1 & Hg1 & Et & Hn & _ & _).
            exists g1. split; [exact Hg1|]. split; [congruence|exact Hn]. }
        destruct Hstep as (g1 & Hg1 & Hy1 & Hn1).
        assert (Hnn1 : Forall (fun i => 0 <= i_tensor i) later1).
        { apply Forall_forall. intros j Hj. destruct (Hl j Hj) as [Hj0|Ej].
          - rewrite Forall_forall in Hnn'. exact (Hnn' j Hj0).
          - rewrite Ej. unfold ntens, lenZ. lia. }
        assert (Hag1 : agree p t later1).
        { apply Forall_forall. intros j Hj. destruct (Hl j Hj) as [Hj0|Ej].
          - unfold agree in Hag'. rewrite Forall_forall in Hag'. exact (Hag' j Hj0).
          - intros C. lia. }
        destruct (IH later1 st1 st' g1 Hst Hnn1 Hag1 Hg1 Hy1 Ht0 H) as (g2 & A & B & C).
        exists g2. split; [exact A|]. split; [exact B|lia].
      * destruct (qtrans_eqb (i_trans i) Tr_EMULATED_SUBCHANNEL); [discriminate|].
        eapply IH; eassumption.
Qed.

Lemma foldM_app {A S} (f : S -> A -> res S) : forall l1 l2 s,
  foldM f (l1 ++ l2) s = (s1 <- foldM f l1 s ;; foldM f l2 s1).
Proof.
  induction l1 as [|x l1 IH]; intros l2 s; cbn; [reflexivity|].
  destruct (f s x); cbn [bind]; [apply IH|reflexivity].
Qed.

Lemma ids_ok_app a b : ids_ok (a ++ b) -> ids_ok a /\ ids_ok b.
Proof. unfold ids_ok. apply Forall_app. Qed.

(* whole runs, the positive clause: the tensor whose instruction list starts
   with QUANTIZE_TENSOR or ADD_DEQUANTIZE (parameters p) comes back quantized
   with p — same name, shape and buffer, the dtype of p's bit width, annotated
   with p — provided the rest of its list does not quantize it in place with
   other parameters and no other list of its subgraph names it *)
Theorem transform_graph_quantized_in_place m pre ti0 post m' k g t x i0 rest p :
  nth_opt (m_subgraphs m) k = Some g -> tensor_at g t = Some x -> 0 <= t ->
  ids_ok (pre ++ ti0 :: post) ->
  never_names k t pre -> never_names k t post ->
  ti_sg ti0 = Z.of_nat k -> ti_insts ti0 = i0 :: rest ->
  i_tensor i0 = t -> (i_trans i0 = Tr_QUANTIZE_TENSOR \/ i_trans i0 = Tr_ADD_DEQUANTIZE) ->
  i_params i0 = Some p -> agree p t rest ->
  transform_graph m (pre ++ ti0 :: post) = Ok m' ->
  exists g' x', nth_opt (m_subgraphs m') k = Some g' /\ tensor_at g' t = Some x' /\ qres p x x'.
Proof.
  intros Hg Hx Ht0 Hok Hpre Hpost Hsg Hins Hit Htr Hp Hag H. subst t.
  assert (Htlt : i_tensor i0 < ntens g).
  { unfold tensor_at, nthZ in Hx. destruct (Z.ltb_spec (i_tensor i0) 0); [lia|].
    apply nth_opt_Some_lt in Hx. unfold ntens, lenZ. lia. }
  unfold transform_graph in H.
  match type of H with bind ?z _ = _ => destruct z as [st|] eqn:E end; cbn [bind] in H; [|discriminate].
  inversion H; subst m'; clear H.
  change (run_all (pre ++ ti0 :: post) (init_pstate m) = Ok st) in E. unfold run_all in E.
  rewrite foldM_app in E.
  destruct (foldM _ pre (init_pstate m)) as [s1|] eqn:E1; cbn [bind] in E; [|discriminate].
  cbn [foldM] in E.
  destruct (apply_insts s1 (ti_sg ti0) (ti_insts ti0) (length (ti_insts ti0))) as [s2|] eqn:E2; cbn [bind] in E; [|discriminate].
  destruct (ids_ok_app _ _ Hok) as [Hok1 Hok23]. inversion Hok23 as [|? ? [_ Hnn0] Hok3]; subst.
  (* prefix *)
  destruct (run_all_untouched k (i_tensor i0) pre (init_pstate m) s1 g Hok1 Hpre Hg (conj Ht0 Htlt) E1) as (g1 & Hg1 & Ex1 & Hn1).
  rewrite Hx in Ex1.
  (* the tensor's own list *)
  rewrite Hsg, Hins in E2. cbn [length apply_insts] in E2. rewrite Hins in Hnn0.
  inversion Hnn0 as [|? ? Hi0 Hnnr]; subst.
  assert (Hins0 : is_insertion (i_trans i0) = true) by (destruct Htr as [-> | ->]; reflexivity).
  rewrite Hins0 in E2.
  destruct (apply_single s1 (Z.of_nat k) i0 rest) as [[s1' later1]|] eqn:E0; cbn [bind fst snd] in E2; [|discriminate].
  destruct (apply_single_named _ _ _ _ _ _ _ _ Hi0 Hg1 Ex1 E0) as (g1' & Hg1' & Hn1' & Hcase).
  pose proof (apply_single_later _ _ _ _ _ _ _ Hi0 Hg1 E0) as Hl.
  destruct Hcase as [[C _]|[_ Hs]]; [destruct Htr as [T|T]; rewrite T in C; discriminate|].
  rewrite Hp in Hs. destruct Hs as (y & Hy & Hq).
  assert (Hnn1 : Forall (fun i => 0 <= i_tensor i) later1).
  { apply Forall_forall. intros j Hj. destruct (Hl j Hj) as [Hj0|Ej].
    - rewrite Forall_forall in Hnnr. exact (Hnnr j Hj0).
    - rewrite Ej. unfold ntens, lenZ. lia. }
  assert (Hag1 : agree p (i_tensor i0) later1).
  { apply Forall_forall. intros j Hj. destruct (Hl j Hj) as [Hj0|Ej].
    - unfold agree in Hag. rewrite Forall_forall in Hag. exact (Hag j Hj0).
    - intros C. lia. }
  destruct (apply_insts_kept k (i_tensor i0) p y _ _ _ _ _ (fun z => qres_stable p x y z Hq) Hnn1 Hag1 Hg1' Hy Ht0 E2)
    as (g2 & Hg2 & Hy2 & Hn2).
  (* suffix *)
  assert (Ht2 : 0 <= i_tensor i0 < ntens g2) by lia.
  destruct (run_all_untouched k (i_tensor i0) post _ _ g2 Hok3 Hpost Hg2 Ht2 E) as (g3 & Hg3 & Ex3 & _).
  exists g3, y. split; [exact Hg3|]. split; [congruence|exact Hq].
Qed.
