(* Proofs/LocalProofs.v — lemmas behind C19: a performer step on subgraph
   [sgid] leaves every other subgraph, its op-id maps and its signatures
   alone; the shared opcode table only grows; the model-wide name-keyed
   info map gives each tensor the info of its own subgraph when names are
   unique model-wide. *)
From VF Require Import Base.Prelude Gen.Enums Model.Graph Gen.InstChecks Model.Insts
     Model.Perform Spec.WF Proofs.ListFacts Proofs.PerformStep Proofs.ModeProofs.

(* ---- shared opcode table ---- *)
Lemma find_index_lt {A} (p : A -> bool) : forall l i,
  find_index p l = Some i -> (i < length l)%nat.
Proof.
  induction l as [|x l IH]; cbn; intros i H; [discriminate|].
  destruct (p x); [inversion H; lia|].
  destruct (find_index p l) as [j|]; cbn in H; [|discriminate]. inversion H. specialize (IH j eq_refl). lia.
Qed.

Lemma nth_opt_app_l {A} (l r : list A) k : (k < length l)%nat -> nth_opt (l ++ r) k = nth_opt l k.
Proof.
  revert k. induction l as [|x l IH]; intros k H; cbn in *; [lia|].
  destruct k; [reflexivity|]. apply IH. lia.
Qed.

Lemma add_op_code_stable code codes :
  let '(idx, codes') := add_op_code code codes in
  (forall k, (k < length codes)%nat -> nth_opt codes' k = nth_opt codes k) /\
  nthZ codes' idx = Some code /\ (length codes <= length codes')%nat.
Proof.
  unfold add_op_code. destruct (find_index (Z.eqb code) codes) as [i|] eqn:E.
  - split; [reflexivity|]. split; [|lia].
    unfold nthZ. destruct (Z.ltb_spec (Z.of_nat i) 0); [lia|]. rewrite Nat2Z.id.
    clear H. revert i E. induction codes as [|x l IH]; cbn; intros i E; [discriminate|].
    destruct (Z.eqb_spec code x).
    + inversion E. subst. reflexivity.
    + destruct (find_index (Z.eqb code) l) as [j|]; cbn in E; [|discriminate].
      inversion E. cbn. apply IH. reflexivity.
  - split; [intros k Hk; apply nth_opt_app_l; exact Hk|]. split.
    + apply nthZ_app_new.
    + rewrite app_length. lia.
Qed.

(* ---- a step on one subgraph ---- *)
Lemma py_index_nonneg_inv {A} (l : list A) i a :
  0 <= i -> py_index l i = Ok a -> nth_opt l (Z.to_nat i) = Some a.
Proof. intros H E. apply (py_index_nonneg l i a H E). Qed.

Lemma nth_opt_set_nth_ne {A} (l : list A) n k a : k <> n -> nth_opt (set_nth l n a) k = nth_opt l k.
Proof.
  intros H. rewrite nth_opt_set_nth_any. destruct (Nat.eqb_spec k n); [contradiction|reflexivity].
Qed.

Lemma fix_sigs_other sigs sgid old new :
  forall s, In s sigs -> sd_sg s <> sgid -> In s (fix_sigs sigs sgid old new).
Proof.
  intros s Hin Hne. unfold fix_sigs. apply in_map_iff. exists s. split; [|exact Hin].
  destruct (Z.eqb_spec (sd_sg s) sgid); [contradiction|reflexivity].
Qed.

Lemma fix_sigs_nth sigs sgid old new k s :
  nth_opt sigs k = Some s -> sd_sg s <> sgid -> nth_opt (fix_sigs sigs sgid old new) k = Some s.
Proof.
  revert k. induction sigs as [|x l IH]; intros k H Hne; [destruct k; discriminate|].
  destruct k; cbn in *.
  - inversion H; subst. destruct (Z.eqb_spec (sd_sg s) sgid); [contradiction|reflexivity].
  - apply IH; assumption.
Qed.

Theorem apply_single_local st sgid i later st' later' :
  0 <= sgid ->
  apply_single st sgid i later = Ok (st', later') ->
  (forall k, k <> Z.to_nat sgid ->
     nth_opt (m_subgraphs (ps_model st')) k = nth_opt (m_subgraphs (ps_model st)) k /\
     nth_opt (ps_orig st') k = nth_opt (ps_orig st) k /\
     nth_opt (ps_added st') k = nth_opt (ps_added st) k) /\
  (forall k s, nth_opt (m_sigs (ps_model st)) k = Some s -> sd_sg s <> sgid ->
     nth_opt (m_sigs (ps_model st')) k = Some s) /\
  length (m_subgraphs (ps_model st')) = length (m_subgraphs (ps_model st)) /\
  (forall k, (k < length (m_opcodes (ps_model st)))%nat ->
     nth_opt (m_opcodes (ps_model st')) k = nth_opt (m_opcodes (ps_model st)) k).
Proof.
  intros Hs H. unfold apply_single in H.
  destruct (py_index (ps_orig st) sgid) as [orig|]; cbn [bind] in H; [|discriminate].
  destruct (py_index (ps_added st) sgid) as [added|]; cbn [bind] in H; [|discriminate].
  destruct (py_index (m_subgraphs (ps_model st)) sgid) as [g|]; cbn [bind] in H; [|discriminate].
  match type of H with bind ?m _ = _ => destruct m as [producer|] end; cbn [bind] in H; [|discriminate].
  match type of H with bind ?m _ = _ => destruct m as [consumers|] end; cbn [bind] in H; [|discriminate].
  match type of H with bind ?m _ = _ => destruct m as [[[[codes bufs] g'] info]|] eqn:Er end;
    cbn [bind] in H; [|discriminate].
  assert (Hcodes : forall k, (k < length (m_opcodes (ps_model st)))%nat ->
                     nth_opt codes k = nth_opt (m_opcodes (ps_model st)) k).
  { destruct (i_trans i); try discriminate Er.
    - (* ADD_QUANTIZE *)
      unfold insert_common in Er.
      pose proof (add_op_code_stable BC_QUANTIZE (m_opcodes (ps_model st))) as S.
      cbn [negb] in Er.
      destruct (add_op_code BC_QUANTIZE (m_opcodes (ps_model st))) as [cidx cds].
      destruct S as [S _].
      destruct (get_tensor g (i_tensor i)); cbn [bind] in Er; [|discriminate].
      match type of Er with bind ?m _ = _ => destruct m as [[b2 g2]|] end; cbn [bind] in Er; [|discriminate].
      destruct (py_min consumers); cbn [bind] in Er; [|discriminate].
      match type of Er with bind ?m _ = _ => destruct m end; cbn [bind] in Er; [|discriminate].
      match type of Er with (if ?c then _ else _) = _ => destruct c end; [discriminate|].
      inversion Er; subst. exact S.
    - (* ADD_DEQUANTIZE *)
      unfold insert_common in Er.
      pose proof (add_op_code_stable BC_DEQUANTIZE (m_opcodes (ps_model st))) as S.
      destruct (add_op_code BC_DEQUANTIZE (m_opcodes (ps_model st))) as [cidx cds].
      destruct S as [S _].
      destruct (get_tensor g (i_tensor i)); cbn [bind] in Er; [|discriminate].
      match type of Er with bind ?m _ = _ => destruct m as [[b2 g2]|] end; cbn [bind] in Er; [|discriminate].
      destruct (py_min consumers); cbn [bind] in Er; [|discriminate].
      match type of Er with bind ?m _ = _ => destruct m end; cbn [bind] in Er; [|discriminate].
      match type of Er with (if ?c then _ else _) = _ => destruct c end; [discriminate|].
      inversion Er; subst. exact S.
    - (* QUANTIZE_TENSOR *)
      match type of Er with bind ?m _ = _ => destruct m as [[b2 g2]|] end; cbn [bind] in Er; [|discriminate].
      inversion Er; subst. reflexivity. }
  assert (Hsig : forall sigs', (sigs' = m_sigs (ps_model st) \/
                                sigs' = fix_sigs (m_sigs (ps_model st)) sgid (i_tensor i) (to_tensor info)) ->
            forall k s, nth_opt (m_sigs (ps_model st)) k = Some s -> sd_sg s <> sgid ->
              nth_opt sigs' k = Some s).
  { intros sigs' [->| ->] k s Hk Hne; [exact Hk|apply fix_sigs_nth; assumption]. }
  set (sigs := if memZ (-1) (i_consumers i) && negb (to_tensor info =? i_tensor i)
               then fix_sigs (m_sigs (ps_model st)) sgid (i_tensor i) (to_tensor info)
               else m_sigs (ps_model st)) in *.
  assert (Hsigs : sigs = m_sigs (ps_model st) \/
                  sigs = fix_sigs (m_sigs (ps_model st)) sgid (i_tensor i) (to_tensor info)).
  { unfold sigs. destruct (memZ (-1) (i_consumers i) && negb (to_tensor info =? i_tensor i)); auto. }
  destruct (to_added info =? 0).
  - inversion H; subst st' later'; clear H. cbn [ps_model ps_orig ps_added set_sg m_subgraphs m_sigs m_opcodes].
    split; [intros k Hk; split; [apply nth_opt_set_nth_ne; exact Hk|split; reflexivity]|].
    split; [apply Hsig; exact Hsigs|]. split; [apply length_set_nth|exact Hcodes].
  - inversion H; subst st' later'; clear H. cbn [ps_model ps_orig ps_added set_sg m_subgraphs m_sigs m_opcodes].
    split; [intros k Hk; split; [apply nth_opt_set_nth_ne; exact Hk|
                                 split; apply nth_opt_set_nth_ne; exact Hk]|].
    split; [apply Hsig; exact Hsigs|]. split; [apply length_set_nth|exact Hcodes].
Qed.

(* ---- the model-wide, name-keyed info map ---- *)
Definition all_keys (m : model) : list (Z * list Z) := map fst (info_map m).

Lemma list_eqb_refl l : list_eqb Z.eqb l l = true.
Proof. induction l; cbn; [reflexivity|]. rewrite Z.eqb_refl. assumption. Qed.

Lemma key_eqb_eq a b : key_eqb a b = true <-> a = b.
Proof.
  destruct a as [r1 s1], b as [r2 s2]. unfold key_eqb. cbn. rewrite Bool.andb_true_iff, Z.eqb_eq.
  split.
  - intros [-> H]. f_equal. revert s2 H. induction s1 as [|x l IH]; destruct s2 as [|y l2]; cbn; try discriminate; auto.
    intros H. apply Bool.andb_true_iff in H. destruct H as [H1 H2]. apply Z.eqb_eq in H1. subst. f_equal. auto.
  - intros H. inversion H; subst. split; [reflexivity|apply list_eqb_refl].
Qed.

Lemma find_unique {V} (l : list ((Z * list Z) * V)) k v :
  NoDup (map fst l) -> In (k, v) l ->
  find (fun e => key_eqb (fst e) k) l = Some (k, v).
Proof.
  induction l as [|[k0 v0] l IH]; cbn; intros Hnd Hin; [destruct Hin|].
  inversion Hnd as [|? ? Hnotin Hnd']; subst.
  destruct Hin as [E|Hin].
  - inversion E; subst. destruct (key_eqb k k) eqn:Ek; [reflexivity|].
    assert (key_eqb k k = true) by (apply key_eqb_eq; reflexivity). congruence.
  - destruct (key_eqb k0 k) eqn:Ek.
    + apply key_eqb_eq in Ek. subst. exfalso. apply Hnotin. apply in_map_iff. exists (k, v). auto.
    + apply IH; assumption.
Qed.

(* with model-wide unique names the lookup returns the entry of the tensor's
   own subgraph, whatever the other subgraphs contain *)
Theorem lookup_info_own m k info :
  NoDup (all_keys m) -> In (k, info) (info_map m) ->
  lookup_info (info_map m) k = Ok info.
Proof.
  intros Hnd Hin. unfold lookup_info.
  assert (Hnd' : NoDup (map fst (rev (info_map m)))).
  { rewrite map_rev. apply NoDup_rev. exact Hnd. }
  rewrite (find_unique (rev (info_map m)) k info Hnd'); [reflexivity|].
  apply in_rev. rewrite rev_involutive. exact Hin.
Qed.

Lemma in_enumerate_from {A} (l : list A) : forall i0 k a,
  nth_opt l k = Some a -> In (i0 + Z.of_nat k, a) (enumerate_from i0 l).
Proof.
  induction l as [|x l IH]; intros i0 k a H; [destruct k; discriminate|].
  destruct k; cbn in *.
  - inversion H; subst. left. f_equal. lia.
  - right. replace (i0 + Z.pos (Pos.of_succ_nat k)) with ((i0 + 1) + Z.of_nat k) by lia. apply IH. exact H.
Qed.

Theorem info_map_contains m sgid g tid t :
  nth_opt (m_subgraphs m) sgid = Some g -> nth_opt (sg_tensors g) tid = Some t ->
  In (name_key t, tensor_info (Z.of_nat sgid) g (Z.of_nat tid)) (info_map m).
Proof.
  intros Hg Ht. unfold info_map. apply in_flat_map.
  exists (Z.of_nat sgid, g). split.
  - unfold enumerate. apply (in_enumerate_from (m_subgraphs m) 0 sgid g Hg).
  - apply in_map_iff. exists (Z.of_nat tid, t). split; [reflexivity|].
    unfold enumerate. apply (in_enumerate_from (sg_tensors g) 0 tid t Ht).
Qed.
