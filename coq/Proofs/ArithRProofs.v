(* Proofs/ArithRProofs.v — algebraic laws of the ideal arithmetic (C17, C05). *)
From Coq Require Import ZArith Reals Lra Lia Psatz.
From Flocq Require Import Core.
From VF Require Import Spec.ArithR.
Open Scope R_scope.

Lemma rne_half x : Rabs (x - IZR (rne x)) <= / 2.
Proof. apply Znearest_half. Qed.

Lemma rne_IZR z : rne (IZR z) = z.
Proof. unfold rne. apply (@Zrnd_IZR _ (valid_rnd_N _)). Qed.

Lemma rne_mono x y : x <= y -> (rne x <= rne y)%Z.
Proof. unfold rne. apply (@Zrnd_le _ (valid_rnd_N _)). Qed.

Lemma pow2_ge b : (2 <= b)%Z -> (2 <= 2 ^ (b - 1))%Z.
Proof.
  intros H. change 2%Z with (2 ^ 1)%Z at 1. apply Z.pow_le_mono_r; lia.
Qed.

Lemma qmax_pos b : (2 <= b)%Z -> 0 < IZR (qmax b).
Proof. intros H. apply IZR_lt. unfold qmax. pose proof (pow2_ge b H). lia. Qed.

Lemma qrange_pos b : (2 <= b)%Z -> 0 < IZR (qmax b - qmin b).
Proof. intros H. apply IZR_lt. unfold qmax, qmin. pose proof (pow2_ge b H). lia. Qed.

Lemma eps_pos : 0 < eps.
Proof. unfold eps. lra. Qed.

(* ---- scale positive ---- *)
Theorem scale_sym_pos b mn mx : (2 <= b)%Z -> 0 < scale_sym b mn mx.
Proof.
  intros H. unfold scale_sym. apply Rdiv_lt_0_compat; [|apply qmax_pos; assumption].
  pose proof eps_pos. pose proof (Rmax_r (Rmax (Rabs mn) (Rabs mx)) eps). lra.
Qed.

Theorem scale_asym_pos b mn mx : (2 <= b)%Z -> 0 < scale_asym b mn mx.
Proof.
  intros H. unfold scale_asym. apply Rdiv_lt_0_compat; [|apply qrange_pos; assumption].
  pose proof eps_pos. pose proof (Rmax_r (bmax mx - bmin mn) eps). lra.
Qed.

(* ---- zero point in range ---- *)
Theorem zp_asym_range b mn mx :
  (2 <= b)%Z -> (qmin b <= zp_asym b mn mx <= qmax b)%Z.
Proof.
  intros H. unfold zp_asym.
  pose proof (scale_asym_pos b mn mx H) as Hs.
  set (s := scale_asym b mn mx) in *.
  assert (Hb : bmin mn <= 0) by (unfold bmin; apply Rmin_r).
  assert (Hbm : 0 <= bmax mx) by (unfold bmax; apply Rmax_r).
  assert (Hq : - bmin mn / s <= IZR (qmax b - qmin b)).
  { unfold s, scale_asym.
    pose proof (qrange_pos b H) as Hr.
    set (r := IZR (qmax b - qmin b)) in *.
    set (bd := Rmax (bmax mx - bmin mn) eps).
    assert (Hbd : - bmin mn <= bd).
    { unfold bd. pose proof (Rmax_l (bmax mx - bmin mn) eps). lra. }
    assert (Hbdpos : 0 < bd).
    { unfold bd. pose proof (Rmax_r (bmax mx - bmin mn) eps). pose proof eps_pos. lra. }
    unfold Rdiv. rewrite Rinv_mult, Rinv_inv.
    apply Rmult_le_reg_r with (r := bd); [assumption|].
    replace (- bmin mn * (/ bd * r) * bd) with (- bmin mn * r * (bd * / bd)) by ring.
    rewrite Rinv_r by lra. nra. }
  assert (Hge : 0 <= - bmin mn / s).
  { apply Rmult_le_pos; [lra|]. apply Rlt_le. apply Rinv_0_lt_compat. assumption. }
  split.
  - apply Z.le_trans with (m := rne (IZR (qmin b))); [rewrite rne_IZR; lia|].
    apply rne_mono. unfold Rdiv in *. lra.
  - apply Z.le_trans with (m := rne (IZR (qmax b))); [|rewrite rne_IZR; lia].
    apply rne_mono. rewrite minus_IZR in Hq. unfold Rdiv in *. lra.
Qed.

(* ---- quantize: range, monotone ---- *)
Theorem quant_range b narrow s zp x :
  (qlo b narrow <= qmax b)%Z ->
  (qlo b narrow <= quant b narrow s zp x <= qmax b)%Z.
Proof. intros H. unfold quant, clipZ. lia. Qed.

Theorem quant_mono b narrow s zp x y :
  0 < s -> x <= y -> (quant b narrow s zp x <= quant b narrow s zp y)%Z.
Proof.
  intros Hs Hxy. unfold quant, clipZ.
  assert (H : (rne (x * (1 / s) + IZR zp) <= rne (y * (1 / s) + IZR zp))%Z).
  { apply rne_mono. apply Rplus_le_compat_r. apply Rmult_le_compat_r; [|assumption].
    apply Rlt_le. unfold Rdiv. rewrite Rmult_1_l. apply Rinv_0_lt_compat. assumption. }
  lia.
Qed.

(* ---- quantize(dequantize(c)) = c for every code in range (exact arithmetic) ---- *)
Theorem quant_deq_id b narrow s zp c :
  0 < s -> (qlo b narrow <= c <= qmax b)%Z ->
  quant b narrow s zp (deq s zp c) = c.
Proof.
  intros Hs Hc. unfold quant, deq, clipZ.
  replace (IZR (c - zp) * s * (1 / s) + IZR zp) with (IZR c).
  - rewrite rne_IZR. lia.
  - rewrite minus_IZR. field. lra.
Qed.

(* ---- |dequantize(quantize x) - x| <= scale/2 for in-range x ---- *)
Theorem deq_quant_halfstep b narrow s zp x :
  0 < s ->
  IZR (qlo b narrow) <= x * (1 / s) + IZR zp <= IZR (qmax b) ->
  Rabs (deq s zp (quant b narrow s zp x) - x) <= s / 2.
Proof.
  intros Hs [Hlo Hhi]. unfold quant, deq, clipZ.
  set (y := x * (1 / s) + IZR zp) in *.
  assert (Hr : (qlo b narrow <= rne y <= qmax b)%Z).
  { split.
    - rewrite <- (rne_IZR (qlo b narrow)). apply rne_mono. assumption.
    - rewrite <- (rne_IZR (qmax b)). apply rne_mono. assumption. }
  replace (Z.max (qlo b narrow) (Z.min (qmax b) (rne y))) with (rne y) by lia.
  rewrite minus_IZR.
  replace ((IZR (rne y) - IZR zp) * s - x) with (- (y - IZR (rne y)) * s)
    by (unfold y; field; lra).
  rewrite Rabs_mult, Rabs_Ropp, (Rabs_pos_eq s) by lra.
  pose proof (rne_half y). nra.
Qed.

(* ---- zero is exactly representable ---- *)
Theorem zero_exact b narrow s zp :
  0 < s -> (qlo b narrow <= zp <= qmax b)%Z ->
  deq s zp (quant b narrow s zp 0) = 0.
Proof.
  intros Hs Hz. unfold quant, deq, clipZ.
  replace (0 * (1 / s) + IZR zp) with (IZR zp) by (field; lra).
  rewrite rne_IZR.
  replace (Z.max (qlo b narrow) (Z.min (qmax b) zp) - zp)%Z with 0%Z by lia.
  simpl. ring.
Qed.

(* ---- the range [min,max] is covered up to half a step ---- *)
Theorem cover_sym b mn mx :
  (2 <= b)%Z -> mn <= mx ->
  let s := scale_sym b mn mx in
  deq s 0 (- qmax b) <= mn /\ mx <= deq s 0 (qmax b).
Proof.
  intros H Hm s. unfold deq. rewrite !Z.sub_0_r. rewrite opp_IZR.
  pose proof (qmax_pos b H) as Hq.
  assert (Hs : IZR (qmax b) * s = Rmax (Rmax (Rabs mn) (Rabs mx)) eps).
  { unfold s, scale_sym. field. lra. }
  pose proof (Rmax_l (Rmax (Rabs mn) (Rabs mx)) eps).
  pose proof (Rmax_l (Rabs mn) (Rabs mx)). pose proof (Rmax_r (Rabs mn) (Rabs mx)).
  pose proof (Rle_abs mx). pose proof (Rle_abs (- mn)). rewrite Rabs_Ropp in *.
  split; nra.
Qed.

Theorem cover_asym b mn mx :
  (2 <= b)%Z -> mn <= mx ->
  let s := scale_asym b mn mx in let zp := zp_asym b mn mx in
  deq s zp (qmin b) <= mn + s / 2 /\ mx - s / 2 <= deq s zp (qmax b).
Proof.
  intros H Hm s zp.
  pose proof (scale_asym_pos b mn mx H) as Hs. fold s in Hs.
  pose proof (qrange_pos b H) as Hr.
  assert (Hz : Rabs (IZR (qmin b) - bmin mn / s - IZR zp) <= / 2).
  { unfold zp, zp_asym. fold s. apply rne_half. }
  apply Rabs_le_inv in Hz. destruct Hz as [Hz1 Hz2].
  assert (Hbmin : bmin mn <= mn) by (unfold bmin; apply Rmin_l).
  assert (Hbmax : mx <= bmax mx) by (unfold bmax; apply Rmax_l).
  assert (Hbound : bmax mx - bmin mn <= IZR (qmax b - qmin b) * s).
  { unfold s, scale_asym.
    replace (IZR (qmax b - qmin b) * (Rmax (bmax mx - bmin mn) eps / IZR (qmax b - qmin b)))
      with (Rmax (bmax mx - bmin mn) eps) by (field; lra).
    apply Rmax_l. }
  rewrite minus_IZR in Hbound.
  assert (Hdiv : bmin mn / s * s = bmin mn) by (field; lra).
  unfold deq. rewrite !minus_IZR. split; nra.
Qed.
