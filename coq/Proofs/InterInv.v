(* Proofs/InterInv.v — C06 composition over WHOLE performer runs: when every
   instruction is ADD_DEQUANTIZE (or NO_QUANTIZE), each on an original constant
   of its subgraph, listing all readers of that constant, one instruction per
   constant, the result subgraph is an interleaving (Proofs/SemRun.v) of the
   original operators with DEQUANTIZE operators — hence computes the same
   values (inter_same_results). *)
From Coq Require Import Sorted.
From VF Require Import Base.Prelude Gen.Enums Model.Graph Gen.InstChecks Model.Insts Model.Perform Model.Sem
     Spec.WF Spec.Interleave Proofs.ListFacts Proofs.PerformStep Proofs.ModeProofs Proofs.LocalProofs
     Proofs.PerformInv Proofs.RangeInv Proofs.SkeletonInv Proofs.AloneProofs Proofs.SemProofs Proofs.SemRun
     Proofs.InterStep Proofs.RewireFun Proofs.InterRun Proofs.UntouchedProofs.

Section InterInv.
  Variable val : Type.
  Variable K : Z -> Z -> list (option val) -> list val.
  Variables (q dq : Z -> val).

  Notation interS n0 S := (inter val K n0 (inS S) q dq).

  (* an op with the "inserted" mark inside an interleaving is one of its DEQUANTIZEs *)
  Lemma inter_inserted n0 isq : forall nm ops0 ops,
    inter val K n0 isq q dq nm ops0 ops ->
    Forall (fun o0 => o_uid o0 <> UID_INSERTED) ops0 ->
    forall o, In o ops -> o_uid o = UID_INSERTED -> exists c, o_ins o = [c] /\ isq c = true.
  Proof.
    induction 1 as [nm|nm o x c ops0 ops Hi Ho Hq Hx Hf HK _ IH|nm o0 o ops0 ops Hc Hu Ho Hi Houts _ IH];
      intros Hu0 o' Hin Hins.
    - destruct Hin.
    - destruct Hin as [<-|Hin]; [eauto|]. apply IH; assumption.
    - inversion Hu0 as [|? ? Hu1 Hu2]; subst. destruct Hin as [<-|Hin]; [congruence|]. apply IH; assumption.
  Qed.

  Lemma mapM_In {A B} (f : A -> res B) : forall l r a,
    mapM f l = Ok r -> In a l -> exists b, f a = Ok b /\ In b r.
  Proof.
    induction l as [|x l IH]; intros r a H Hin; [destruct Hin|]. cbn in H.
    destruct (f x) as [y|] eqn:Ey; cbn [bind] in H; [|discriminate].
    destruct (mapM f l) as [ys|] eqn:E; cbn [bind] in H; [|discriminate]. inversion H; subst.
    destruct Hin as [<-|Hin]; [exists y; split; [exact Ey|left; reflexivity]|].
    destruct (IH _ _ eq_refl Hin) as (b & Hb & Ib). exists b. split; [exact Hb|right; exact Ib].
  Qed.

  Lemma mapM_Forall {A B} (f : A -> res B) (P : B -> Prop) : forall l r,
    mapM f l = Ok r -> (forall a b, In a l -> f a = Ok b -> P b) -> Forall P r.
  Proof.
    induction l as [|x l IH]; intros r H HP; cbn in H; [inversion H; constructor|].
    destruct (f x) as [y|] eqn:Ey; cbn [bind] in H; [|discriminate].
    destruct (mapM f l) as [ys|] eqn:E; cbn [bind] in H; [|discriminate]. inversion H; subst.
    constructor; [eapply HP; [left; reflexivity|exact Ey]|].
    apply IH; [reflexivity|]. intros a b Ha Hb. eapply HP; [right; exact Ha|exact Hb].
  Qed.

  (* under a skeleton, an ORIGINAL tensor derives only from itself *)
  Lemma derived_orig g0 g om c x0 :
    skel g0 g om -> Forall (fun o => o_uid o <> UID_INSERTED) (sg_ops g0) ->
    c < ntens g0 -> derived g c x0 -> c = x0.
  Proof.
    intros SK Hu Hc D. destruct D as [x|x y x0 k o Hk Hins Hi Ho D]; [reflexivity|]. exfalso.
    destruct (sk_other _ _ _ SK k o Hk) as [Hin|(_ & y' & x' & _ & Ho' & Hge)].
    - destruct (In_nth_opt _ _ Hin) as [j Hj].
      pose proof (nth_opt_Some_lt _ _ _ Hj) as Hlt. rewrite (sk_len _ _ _ SK) in Hlt.
      destruct (nth_opt_lt_Some (sg_ops g0) j Hlt) as [o0 Ho0].
      destruct (sk_orig _ _ _ SK j o0 _ Ho0 Hj) as (_ & o' & Hat & _ & Eu & _).
      unfold op_at in *. rewrite Nat2Z.id in Hat. rewrite Hk in Hat. inversion Hat; subst o'.
      rewrite Forall_forall in Hu. apply (Hu o0 (nth_opt_In _ _ _ Ho0)). congruence.
    - rewrite Ho in Ho'. inversion Ho'; subst. lia.
  Qed.

  (* exactness in the CURRENT graph from exactness in the original one *)
  Lemma readers_listed g0 g om S c J cs :
    skel g0 g om -> Forall (fun o => o_uid o <> UID_INSERTED) (sg_ops g0) ->
    interS (ntens g0) S [] (sg_ops g0) (sg_ops g) ->
    0 <= c < ntens g0 -> inS S c = false ->
    (forall j o0, nth_opt (sg_ops g0) j = Some o0 -> In c (o_ins o0) -> In (Z.of_nat j) J) ->
    mapM (fun j => if Z.eqb j (-1) then Ok (-1) else py_index om j) J = Ok cs ->
    forall k o, nth_opt (sg_ops g) k = Some o -> In c (o_ins o) -> In (Z.of_nat k) cs.
  Proof.
    intros SK Hu HI Hc HcS Hex HM k o Hk Hin.
    destruct (sk_other _ _ _ SK k o Hk) as [Hom|(Hins & _)].
    - destruct (In_nth_opt _ _ Hom) as [j Hj].
      pose proof (nth_opt_Some_lt _ _ _ Hj) as Hlt. rewrite (sk_len _ _ _ SK) in Hlt.
      destruct (nth_opt_lt_Some (sg_ops g0) j Hlt) as [o0 Ho0].
      destruct (sk_orig _ _ _ SK j o0 _ Ho0 Hj) as (_ & o' & Hat & _ & _ & _ & HF).
      unfold op_at in Hat. rewrite Nat2Z.id in Hat. rewrite Hk in Hat. inversion Hat; subst o'.
      assert (Hr0 : In c (o_ins o0)).
      { clear - HF Hin SK Hu Hc. induction HF as [|a b la lb Hab HF IH]; [destruct Hin|].
        destruct Hin as [->|Hin]; [left; symmetry; eapply derived_orig; try eassumption; lia|right; apply IH; exact Hin]. }
      specialize (Hex _ _ Ho0 Hr0).
      destruct (mapM_In _ _ _ _ HM Hex) as (b & Hb & Ib).
      destruct (Z.eqb_spec (Z.of_nat j) (-1)); [lia|].
      apply py_index_of_nat_inv in Hb. rewrite Hj in Hb. inversion Hb; subst. exact Ib.
    - exfalso. destruct (inter_inserted _ _ _ _ _ HI Hu o (nth_opt_In _ _ _ Hk) Hins) as (c' & Ec & Hq).
      rewrite Ec in Hin. destruct Hin as [->|[]]. congruence.
  Qed.

  (* ---------- the run-level invariant ---------- *)
  Variable m0 : model.
  Variable k : nat.
  Variable g0 : subgraph.
  Hypothesis Hg0 : nth_opt (m_subgraphs m0) k = Some g0.
  Hypothesis Hu : uids_ok m0.
  Let n0 := ntens g0.
  Let codes0 := m_opcodes m0.
  Let didx := fst (add_op_code BC_DEQUANTIZE codes0).
  Let codes1 := snd (add_op_code BC_DEQUANTIZE codes0).
  (* the kernel contract: the DEQUANTIZE kernel maps the stored constant to its dequantized value *)
  Hypothesis HK : forall c, K didx UID_INSERTED [Some (q c)] = [dq c].

  Definition isdeq (i : inst) : bool := qtrans_eqb (i_trans i) Tr_ADD_DEQUANTIZE.
  Definition float_inst (i : inst) : Prop :=
    i_trans i = Tr_ADD_DEQUANTIZE \/ i_trans i = Tr_NO_QUANTIZE.
  (* an ADD_DEQUANTIZE instruction of subgraph k: on an original constant, listing all its readers *)
  Definition deq_ok (i : inst) : Prop :=
    i_producer i < 0 /\ 0 <= i_tensor i < n0 /\
    Forall (fun o0 => ~ In (i_tensor i) (o_outs o0)) (sg_ops g0) /\
    Forall (fun j => 0 <= j) (i_consumers i) /\
    (forall j o0, nth_opt (sg_ops g0) j = Some o0 -> In (i_tensor i) (o_ins o0) ->
                  In (Z.of_nat j) (i_consumers i)).

  Definition cinv (st : pstate) (S : list Z) : Prop :=
    (m_opcodes (ps_model st) = codes0 \/ m_opcodes (ps_model st) = codes1) /\
    exists g, nth_opt (m_subgraphs (ps_model st)) k = Some g /\
              interS n0 S [] (sg_ops g0) (sg_ops g) /\ n0 <= ntens g.

  Lemma find_index_app_none {A} (p : A -> bool) : forall l x,
    find_index p l = None -> find_index p (l ++ [x]) = if p x then Some (length l) else None.
  Proof.
    induction l as [|y l IH]; intros x H; cbn [find_index app length] in *; [destruct (p x); reflexivity|].
    destruct (p y) eqn:Ey; [discriminate|]. destruct (find_index p l) eqn:E; [cbn in H; discriminate|].
    rewrite (IH x eq_refl). destruct (p x); reflexivity.
  Qed.

  Lemma add_op_code_again code codes :
    add_op_code code (snd (add_op_code code codes)) = add_op_code code codes.
  Proof.
    unfold add_op_code. destruct (find_index (Z.eqb code) codes) as [i|] eqn:E; cbn [snd].
    - rewrite E. reflexivity.
    - rewrite (find_index_app_none _ _ _ E), Z.eqb_refl. reflexivity.
  Qed.

  Lemma deq_code_stable codes :
    codes = codes0 \/ codes = codes1 ->
    fst (add_op_code BC_DEQUANTIZE codes) = didx /\ snd (add_op_code BC_DEQUANTIZE codes) = codes1.
  Proof.
    intros [-> | ->]; [split; reflexivity|]. unfold codes1, didx. rewrite add_op_code_again. split; reflexivity.
  Qed.

  (* what apply_single does with an ADD_DEQUANTIZE instruction *)
  Lemma apply_single_deq_view st sg i later st' later' :
    0 <= sg -> i_trans i = Tr_ADD_DEQUANTIZE ->
    apply_single st sg i later = Ok (st', later') ->
    exists om am g producer cs codes bufs g' info,
      nth_opt (ps_orig st) (Z.to_nat sg) = Some om /\ nth_opt (ps_added st) (Z.to_nat sg) = Some am /\
      nth_opt (m_subgraphs (ps_model st)) (Z.to_nat sg) = Some g /\
      resolve om am (i_producer i) = Ok producer /\
      mapM (fun c => if Z.eqb c (-1) then Ok (-1) else py_index om c) (i_consumers i) = Ok cs /\
      insert_common false (m_opcodes (ps_model st)) (m_buffers (ps_model st)) g (i_tensor i) producer cs
                    (i_params i) = Ok (codes, bufs, g', info) /\
      m_opcodes (ps_model st') = codes /\
      m_subgraphs (ps_model st') = set_nth (m_subgraphs (ps_model st)) (Z.to_nat sg) g' /\
      (Forall (fun j => i_trans j = Tr_NO_QUANTIZE) later -> Forall (fun j => i_trans j = Tr_NO_QUANTIZE) later').
  Proof.
    intros Hs Ht H. rewrite apply_single_unfold in H.
    destruct (py_index (ps_orig st) sg) as [om|] eqn:E1; cbn [bind] in H; [|discriminate].
    destruct (py_index (ps_added st) sg) as [am|] eqn:E2; cbn [bind] in H; [|discriminate].
    destruct (py_index (m_subgraphs (ps_model st)) sg) as [g|] eqn:E3; cbn [bind] in H; [|discriminate].
    apply (py_index_nonneg _ _ _ Hs) in E1, E2, E3. destruct E1 as [E1 _], E2 as [E2 _], E3 as [E3 _].
    destruct (resolve om am (i_producer i)) as [producer|] eqn:Er; cbn [bind] in H; [|discriminate].
    destruct (mapM _ (i_consumers i)) as [cs|] eqn:Ec; cbn [bind] in H; [|discriminate].
    unfold trans_of in H. rewrite Ht in H.
    destruct (insert_common false _ _ g (i_tensor i) producer cs (i_params i)) as [[[[codes bufs] g'] info]|] eqn:Ei;
      cbn [bind] in H; [|discriminate].
    exists om, am, g, producer, cs, codes, bufs, g', info.
    destruct (to_added info =? 0); inversion H; subst st' later'; clear H; cbn [ps_model set_sg m_opcodes m_subgraphs];
      repeat (split; [assumption || reflexivity|]).
    - intros F. exact F.
    - intros F. unfold update_instructions. apply Forall_forall. intros j Hj. apply in_map_iff in Hj.
      destruct Hj as (j0 & <- & Hj0). rewrite Forall_forall in F. specialize (F _ Hj0).
      destruct (existsb _ (i_consumers j0)); cbn [i_trans]; exact F.
  Qed.

  (* the step on subgraph k *)
  Lemma apply_single_cinv st i later rest st' later' S :
    ginv st ((Z.of_nat k, i) :: map (pair (Z.of_nat k)) later ++ rest) -> sinv m0 st -> cinv st S ->
    i_trans i = Tr_ADD_DEQUANTIZE -> deq_ok i -> ~ In (i_tensor i) S ->
    apply_single st (Z.of_nat k) i later = Ok (st', later') ->
    cinv st' (i_tensor i :: S) /\
    (Forall (fun j => i_trans j = Tr_NO_QUANTIZE) later -> Forall (fun j => i_trans j = Tr_NO_QUANTIZE) later').
  Proof.
    intros HG [_ SK] [Hcodes (g & Hg & HI & Hn)] Ht (Hpr & Hc & Hconst & Hcons & Hex) HnS H.
    assert (Hs : 0 <= Z.of_nat k) by lia.
    destruct (apply_single_deq_view _ _ _ _ _ _ Hs Ht H)
      as (om & am & g1 & producer & cs & codes & bufs & g' & info & Eo & Ea & Eg & Er & Ec & Ei & Ecodes & Em & Hlater).
    rewrite Nat2Z.id in Eo, Ea, Eg, Em. rewrite Hg in Eg. inversion Eg; subst g1; clear Eg.
    split; [|exact Hlater].
    destruct HG as [_ _ Hm _]. pose proof (Hm _ _ _ _ Hg Eo Ea) as [Hwf _ Hro _].
    pose proof (SK _ _ _ _ Hg0 Hg Eo) as Hsk.
    assert (Hu0 : Forall (fun o => o_uid o <> UID_INSERTED) (sg_ops g0)).
    { unfold uids_ok in Hu. rewrite Forall_forall in Hu. apply Hu. eapply nth_opt_In; exact Hg0. }
    assert (Ep : producer = -1).
    { unfold resolve in Er. destruct (Z.ltb_spec (i_producer i) 0); [inversion Er; reflexivity|lia]. }
    subst producer.
    assert (Hcs : Forall (fun p => 0 <= p) cs).
    { eapply mapM_Forall; [exact Ec|]. intros j p Hj Hp. cbn in Hp.
      rewrite Forall_forall in Hcons. specialize (Hcons _ Hj).
      destruct (Z.eqb_spec j (-1)); [lia|]. apply py_index_In in Hp.
      rewrite Forall_forall in Hro. specialize (Hro _ Hp). lia. }
    assert (HcS : inS S (i_tensor i) = false).
    { unfold inS. destruct (memZ (i_tensor i) S) eqn:E; [apply memZ_In in E; contradiction|reflexivity]. }
    pose proof (readers_listed _ _ _ _ _ _ _ Hsk Hu0 HI Hc HcS Hex Ec) as Hexg.
    destruct (deq_code_stable _ Hcodes) as [Eidx Esnd].
    assert (HKc : K (fst (add_op_code BC_DEQUANTIZE (m_opcodes (ps_model st)))) UID_INSERTED
                    [Some (q (i_tensor i))] = [dq (i_tensor i)]) by (rewrite Eidx; apply HK).
    pose proof (insert_common_inter val K n0 q dq _ _ _ _ _ _ _ _ _ _ _ S Hwf HI Hc Hn HcS Hconst Hcs Hexg Ei HKc) as HI'.
    split.
    - right. rewrite Ecodes. destruct (insert_common_tables _ _ _ _ _ _ _ _ _ _ _ _ Ei) as [-> _]. exact Esnd.
    - exists g'. rewrite Em. split; [apply nth_opt_set_nth_same; eapply nth_opt_Some_lt; exact Hg|].
      split; [exact HI'|].
      assert (Hit : 0 <= i_tensor i) by lia.
      destruct (Proofs.UntouchedProofs.insert_common_other _ _ _ _ _ _ _ _ _ _ _ _ Hit Ei) as (Hn' & _). lia.
  Qed.

  (* a step on ANOTHER subgraph (an ADD_DEQUANTIZE there) *)
  Lemma apply_single_cinv_other st sg i later st' later' S :
    0 <= sg -> Z.to_nat sg <> k -> cinv st S -> i_trans i = Tr_ADD_DEQUANTIZE ->
    apply_single st sg i later = Ok (st', later') -> cinv st' S.
  Proof.
    intros Hs Hne [Hcodes (g & Hg & HI & Hn)] Ht H.
    destruct (apply_single_local _ _ _ _ _ _ Hs H) as (Hoth & _ & _ & _).
    destruct (apply_single_deq_view _ _ _ _ _ _ Hs Ht H)
      as (om & am & g1 & producer & cs & codes & bufs & g' & info & _ & _ & _ & _ & _ & Ei & Ecodes & _ & _).
    destruct (deq_code_stable _ Hcodes) as [_ Esnd]. split.
    - right. rewrite Ecodes. destruct (insert_common_tables _ _ _ _ _ _ _ _ _ _ _ _ Ei) as [-> _]. exact Esnd.
    - exists g. split; [|split; assumption].
      rewrite (proj1 (Hoth k (fun C => Hne (eq_sym C)))). exact Hg.
  Qed.

  (* ---------- lifting over instruction lists ---------- *)
  Definition list_ok (S : list Z) (is : list inst) : Prop :=
    Forall float_inst is /\
    match filter isdeq is with
    | [] => True
    | [i] => deq_ok i /\ ~ In (i_tensor i) S
    | _ => False
    end.

  Lemma isdeq_true i : isdeq i = true <-> i_trans i = Tr_ADD_DEQUANTIZE.
  Proof. unfold isdeq. destruct (i_trans i); cbn; split; intros; (reflexivity || discriminate). Qed.

  Lemma filter_noq is : Forall (fun j => i_trans j = Tr_NO_QUANTIZE) is -> filter isdeq is = [].
  Proof.
    induction 1 as [|j l Hj _ IH]; cbn; [reflexivity|].
    unfold isdeq at 1. rewrite Hj. cbn. exact IH.
  Qed.

  Lemma apply_insts_cinv_k : forall fuel is st rest st' S,
    ginv st (map (pair (Z.of_nat k)) is ++ rest) -> sinv m0 st -> cinv st S -> list_ok S is ->
    apply_insts st (Z.of_nat k) is fuel = Ok st' ->
    ginv st' rest /\ sinv m0 st' /\ cinv st' (map i_tensor (filter isdeq is) ++ S).
  Proof.
    induction fuel as [|f IH]; intros is st rest st' S HG HS HC [HF HD] H.
    - destruct is as [|i later]; cbn in H; [|discriminate]. inversion H; subst.
      split; [eapply ginv_weaken; [|exact HG]; intros x Hx; exact Hx|]. split; [exact HS|exact HC].
    - destruct is as [|i later]; cbn [apply_insts] in H.
      + inversion H; subst. split; [eapply ginv_weaken; [|exact HG]; intros x Hx; exact Hx|]. split; [exact HS|exact HC].
      + inversion HF as [|? ? Hfi HF']; subst. cbn [filter] in HD |- *.
        destruct Hfi as [Ht|Ht].
        * (* ADD_DEQUANTIZE *)
          assert (Ed : isdeq i = true) by (apply isdeq_true; exact Ht). rewrite Ed in HD |- *.
          assert (Hins : is_insertion (i_trans i) = true) by (rewrite Ht; reflexivity). rewrite Hins in H.
          destruct (apply_single st (Z.of_nat k) i later) as [[st1 later1]|] eqn:E; cbn [bind fst snd] in H; [|discriminate].
          destruct (filter isdeq later) as [|i2 r2] eqn:Ef; [|destruct HD].
          destruct HD as [Hok HnS].
          assert (Hnq : Forall (fun j => i_trans j = Tr_NO_QUANTIZE) later).
          { apply Forall_forall. intros j Hj. rewrite Forall_forall in HF'. destruct (HF' _ Hj) as [C|C]; [|exact C].
            exfalso. assert (In j (filter isdeq later)) by (apply filter_In; split; [exact Hj|apply isdeq_true; exact C]).
            rewrite Ef in H0. destruct H0. }
          destruct (apply_single_cinv _ _ _ _ _ _ _ HG HS HC Ht Hok HnS E) as [HC1 Hl1].
          specialize (Hl1 Hnq).
          assert (HG1 := apply_single_ginv _ _ _ _ _ _ _ HG E).
          assert (HS1 := apply_single_sinv _ _ _ _ _ _ _ _ Hu HG HS E).
          assert (Hok1 : list_ok (i_tensor i :: S) later1).
          { split; [eapply Forall_impl; [|exact Hl1]; intros j Hj; right; exact Hj|].
            rewrite (filter_noq _ Hl1). exact I. }
          destruct (IH _ _ _ _ _ HG1 HS1 HC1 Hok1 H) as (A & B & C).
          split; [exact A|]. split; [exact B|]. rewrite (filter_noq _ Hl1) in C. cbn [map app] in C |- *. exact C.
        * (* NO_QUANTIZE: skipped *)
          assert (Ed : isdeq i = false) by (unfold isdeq; rewrite Ht; reflexivity). rewrite Ed in HD |- *.
          rewrite Ht in H. cbn [is_insertion qtrans_eqb orb] in H.
          eapply IH; [|exact HS|exact HC|split; [exact HF'|exact HD]|exact H].
          eapply ginv_weaken; [|exact HG]. intros x Hx. cbn. right. exact Hx.
  Qed.

  Lemma apply_insts_cinv_other sg : 0 <= sg -> Z.to_nat sg <> k -> forall fuel is st rest st' S,
    ginv st (map (pair sg) is ++ rest) -> sinv m0 st -> cinv st S -> Forall float_inst is ->
    apply_insts st sg is fuel = Ok st' ->
    ginv st' rest /\ sinv m0 st' /\ cinv st' S.
  Proof.
    intros Hs Hne. induction fuel as [|f IH]; intros is st rest st' S HG HS HC HF H.
    - destruct is as [|i later]; cbn in H; [|discriminate]. inversion H; subst.
      split; [eapply ginv_weaken; [|exact HG]; intros x Hx; exact Hx|]. split; [exact HS|exact HC].
    - destruct is as [|i later]; cbn [apply_insts] in H.
      + inversion H; subst. split; [eapply ginv_weaken; [|exact HG]; intros x Hx; exact Hx|]. split; [exact HS|exact HC].
      + inversion HF as [|? ? Hfi HF']; subst. destruct Hfi as [Ht|Ht].
        * assert (Hins : is_insertion (i_trans i) = true) by (rewrite Ht; reflexivity). rewrite Hins in H.
          destruct (apply_single st sg i later) as [[st1 later1]|] eqn:E; cbn [bind fst snd] in H; [|discriminate].
          assert (HC1 := apply_single_cinv_other _ _ _ _ _ _ _ Hs Hne HC Ht E).
          assert (HG1 := apply_single_ginv _ _ _ _ _ _ _ HG E).
          assert (HS1 := apply_single_sinv _ _ _ _ _ _ _ _ Hu HG HS E).
          assert (HF1 : Forall float_inst later1).
          { destruct (apply_single_deq_view _ _ _ _ _ _ Hs Ht E)
              as (om & am & g1 & producer & cs & codes & bufs & g' & info & _ & _ & _ & _ & _ & _ & _ & _ & _).
            (* update_instructions keeps every transformation kind *)
            clear - E HF' Hs Ht. rewrite apply_single_unfold in E.
            destruct (py_index (ps_orig st) sg); cbn [bind] in E; [|discriminate].
            destruct (py_index (ps_added st) sg); cbn [bind] in E; [|discriminate].
            destruct (py_index (m_subgraphs (ps_model st)) sg); cbn [bind] in E; [|discriminate].
            destruct (resolve _ _ _); cbn [bind] in E; [|discriminate].
            destruct (mapM _ _); cbn [bind] in E; [|discriminate].
            destruct (trans_of _ _ _ _ _ _) as [[[[? ?] ?] info]|]; cbn [bind] in E; [|discriminate].
            destruct (to_added info =? 0); inversion E; subst; [exact HF'|].
            unfold update_instructions. apply Forall_forall. intros j Hj. apply in_map_iff in Hj.
            destruct Hj as (j0 & <- & Hj0). rewrite Forall_forall in HF'. specialize (HF' _ Hj0).
            destruct (existsb _ (i_consumers j0)); exact HF'. }
          eapply IH; eassumption.
        * rewrite Ht in H. cbn [is_insertion qtrans_eqb orb] in H.
          eapply IH; [|exact HS|exact HC|exact HF'|exact H].
          eapply ginv_weaken; [|exact HG]. intros x Hx. cbn. right. exact Hx.
  Qed.

  (* ---------- whole runs ---------- *)
  (* the constants of subgraph k that the remaining instruction lists dequantize *)
  Definition deq_tensors (tis : list tinsts) : list Z :=
    flat_map (fun ti => if Z.eqb (ti_sg ti) (Z.of_nat k)
                        then map i_tensor (filter isdeq (ti_insts ti)) else []) tis.

  Definition ti_ok (ti : tinsts) : Prop :=
    Forall float_inst (ti_insts ti) /\
    (ti_sg ti = Z.of_nat k ->
     match filter isdeq (ti_insts ti) with [] => True | [i] => deq_ok i | _ => False end).

  Lemma NoDup_app_r {A} (l1 l2 : list A) : NoDup (l1 ++ l2) -> NoDup l2.
  Proof. induction l1 as [|a l1 IH]; cbn; intros H; [exact H|]. inversion H; subst. apply IH. assumption. Qed.

  Lemma foldM_cinv : forall tis st st' S,
    ginv st (pend_of tis) -> sinv m0 st -> cinv st S ->
    Forall ti_ok tis -> NoDup (deq_tensors tis) -> (forall c, In c (deq_tensors tis) -> ~ In c S) ->
    foldM (fun st ti => apply_insts st (ti_sg ti) (ti_insts ti) (length (ti_insts ti))) tis st = Ok st' ->
    exists S', cinv st' S' /\ (forall c, In c S' <-> In c S \/ In c (deq_tensors tis)).
  Proof.
    induction tis as [|ti tis IH]; intros st st' S HG HS HC Hok HND Hdis H; cbn [foldM] in H.
    - inversion H; subst. exists S. split; [exact HC|]. intros c. cbn. tauto.
    - inversion Hok as [|? ? [HF Hk] Hok']; subst.
      destruct (apply_insts st (ti_sg ti) (ti_insts ti) (length (ti_insts ti))) as [st1|] eqn:E; cbn [bind] in H; [|discriminate].
      cbn [pend_of flat_map] in HG. cbn [deq_tensors flat_map] in HND, Hdis |- *.
      destruct (Z.eqb_spec (ti_sg ti) (Z.of_nat k)) as [Ek|Nk].
      + rewrite Ek in E, HG. specialize (Hk Ek).
        assert (Hlok : list_ok S (ti_insts ti)).
        { split; [exact HF|]. destruct (filter isdeq (ti_insts ti)) as [|i [|i2 r]]; [exact I| |exact Hk].
          split; [exact Hk|]. apply Hdis. cbn. left. reflexivity. }
        destruct (apply_insts_cinv_k _ _ _ _ _ _ HG HS HC Hlok E) as (HG1 & HS1 & HC1).
        destruct (IH st1 st' _ HG1 HS1 HC1 Hok') as (S' & HC' & HS'); [| |exact H|].
        * eapply NoDup_app_r. exact HND.
        * intros c Hc Hin. apply in_app_iff in Hin. destruct Hin as [Hin|Hin].
          -- clear - HND Hc Hin. induction (map i_tensor (filter isdeq (ti_insts ti))) as [|a l IHl]; [destruct Hin|].
             cbn in HND. inversion HND as [|? ? Hn HND']; subst. destruct Hin as [->|Hin].
             ++ apply Hn. apply in_app_iff. right. exact Hc.
             ++ apply IHl; assumption.
          -- apply (Hdis c); [apply in_app_iff; right; exact Hc|exact Hin].
        * exists S'. split; [exact HC'|]. intros c. rewrite HS', !in_app_iff. tauto.
      + destruct (ti_insts ti) as [|i0 r0] eqn:Eti.
        * cbn in E. inversion E; subst st1. eapply IH; try eassumption.
        * assert (Hsg : 0 <= ti_sg ti).
          { destruct HG as [_ _ _ Hp]. destruct (Hp (ti_sg ti) i0) as [A _]; [cbn; left; reflexivity|exact A]. }
          assert (Hne : Z.to_nat (ti_sg ti) <> k) by lia.
          destruct (apply_insts_cinv_other _ Hsg Hne _ _ _ _ _ S HG HS HC HF E) as (HG1 & HS1 & HC1).
          eapply IH; try eassumption.
  Qed.

  Lemma init_cinv :
    (forall o t, In o (sg_ops g0) -> In t (o_ins o) -> t = -1 \/ t < n0) ->
    (forall o t, In o (sg_ops g0) -> In t (o_outs o) -> t < n0) ->
    cinv (init_pstate m0) [].
  Proof.
    intros Hins Houts. split; [left; reflexivity|]. exists g0. cbn [init_pstate ps_model].
    split; [exact Hg0|]. split; [|unfold n0; lia].
    (* the identity interleaving *)
    revert Hins Houts. generalize (sg_ops g0). induction l as [|o l IH]; intros Hins Houts; [constructor|].
    apply I_orig; try reflexivity.
    - assert (Hio : forall t, In t (o_ins o) -> t = -1 \/ t < n0) by (intros t Ht; eapply Hins; [left; reflexivity|exact Ht]).
      clear - Hio. induction (o_ins o) as [|t r IHr]; constructor.
      + left. split; [reflexivity|]. destruct (Hio t (or_introl eq_refl)) as [->|Hlt]; [left; reflexivity|right; split; [exact Hlt|reflexivity]].
      + apply IHr. intros t' Ht'. apply Hio. right. exact Ht'.
    - apply Forall_forall. intros t Ht. split; [eapply Houts; [left; reflexivity|exact Ht]|reflexivity].
    - apply IH; intros o' t Ho' Ht; [eapply Hins|eapply Houts]; try (right; exact Ho'); exact Ht.
  Qed.

  (* the theorem over whole runs of transform_graph *)
  Theorem transform_graph_float_compute_interleaving tis m' :
    Forall wf_sg (m_subgraphs m0) ->
    (forall ti i, In ti tis -> In i (ti_insts ti) -> sane m0 (ti_sg ti) i) ->
    Forall ti_ok tis -> NoDup (deq_tensors tis) ->
    transform_graph m0 tis = Ok m' ->
    exists g' S, nth_opt (m_subgraphs m') k = Some g' /\
                 (forall c, In c S <-> In c (deq_tensors tis)) /\
                 interS n0 S [] (sg_ops g0) (sg_ops g').
  Proof.
    intros Hwf Hsane Hok HND H. unfold transform_graph in H.
    match type of H with bind ?x _ = _ => destruct x as [st|] eqn:E end; cbn [bind] in H; [|discriminate].
    inversion H; subst m'; clear H.
    assert (Hwf0 : wf_sg g0) by (rewrite Forall_forall in Hwf; apply Hwf; eapply nth_opt_In; exact Hg0).
    assert (HC0 : cinv (init_pstate m0) []).
    { apply init_cinv.
      - intros o t Ho Ht. destruct (In_nth_opt _ _ Ho) as [j Hj].
        destruct (wf_ins _ Hwf0 j o t Hj Ht) as [->|R]; [left; reflexivity|right; unfold n0; lia].
      - intros o t Ho Ht. destruct (In_nth_opt _ _ Ho) as [j Hj].
        pose proof (wf_outs _ Hwf0 j o t Hj Ht). unfold n0. lia. }
    destruct (foldM_cinv _ _ _ [] (init_ginv _ _ Hwf Hsane) (init_sinv _ Hu) HC0 Hok HND (fun c _ F => F) E)
      as (S' & (_ & g' & Hg' & HI & _) & HS').
    exists g', S'. split; [exact Hg'|]. split; [|exact HI].
    intros c. rewrite HS'. cbn. tauto.
  Qed.

  (* ... and therefore the quantized graph computes the float graph's values *)
  Corollary transform_graph_float_compute_meaning tis m' e0 e :
    Forall wf_sg (m_subgraphs m0) ->
    (forall ti i, In ti tis -> In i (ti_insts ti) -> sane m0 (ti_sg ti) i) ->
    Forall ti_ok tis -> NoDup (deq_tensors tis) ->
    transform_graph m0 tis = Ok m' ->
    (forall c, In c (deq_tensors tis) -> 0 <= c < n0) ->
    (forall t, t < n0 -> ~ In t (deq_tensors tis) -> e t = e0 t) ->
    (forall c, In c (deq_tensors tis) -> e0 c = Some (dq c) /\ e c = Some (q c)) ->
    exists g', nth_opt (m_subgraphs m') k = Some g' /\
      forall t, t < n0 -> ~ In t (deq_tensors tis) ->
                run val K (sg_ops g') e t = run val K (sg_ops g0) e0 t.
  Proof.
    intros Hwf Hsane Hok HND H Hrng He Hq.
    destruct (transform_graph_float_compute_interleaving _ _ Hwf Hsane Hok HND H) as (g' & S & Hg' & HS & HI).
    exists g'. split; [exact Hg'|]. intros t Ht Hnt.
    assert (Hin : forall c, inS S c = true <-> In c (deq_tensors tis)).
    { intros c. unfold inS. rewrite memZ_In. apply HS. }
    eapply (inter_same_results val K n0 (inS S) q dq); [| exact HI | | | exact Ht |].
    - intros c Hc. apply Hrng. apply Hin. exact Hc.
    - intros t' Ht' Hf. apply He; [exact Ht'|]. intros C. apply Hin in C. congruence.
    - intros c Hc. apply Hq. apply Hin. exact Hc.
    - destruct (inS S t) eqn:Et; [exfalso; apply Hnt; apply Hin; exact Et|reflexivity].
  Qed.
End InterInv.

(* ---------- the executable hypotheses are sound ---------- *)
From VF Require Import Spec.WFb.

Lemma float_instb_sound i : float_instb i = true -> float_inst i.
Proof. unfold float_instb, float_inst. destruct (i_trans i); cbn; intros H; try discriminate; auto. Qed.

Lemma deq_okb_sound g0 i : deq_okb g0 i = true -> deq_ok g0 i.
Proof.
  unfold deq_okb, deq_ok. intros H.
  repeat (apply Bool.andb_true_iff in H; destruct H as [H ?]).
  apply Z.ltb_lt in H. 
  repeat match goal with
  | Hx : (_ <=? _) = true |- _ => apply Z.leb_le in Hx
  | Hx : (_ <? _) = true |- _ => apply Z.ltb_lt in Hx
  end.
  split; [exact H|]. split; [unfold ntens; lia|]. split; [|split].
  - apply Forall_forall. intros o0 Ho Hin.
    match goal with Hf : forallb (fun o0 => negb (memZ _ (o_outs o0))) _ = true |- _ =>
      rewrite forallb_forall in Hf; specialize (Hf _ Ho) end.
    apply memZ_In in Hin. rewrite Hin in *. discriminate.
  - apply Forall_forall. intros j Hj.
    match goal with Hf : forallb (fun j => 0 <=? j) _ = true |- _ =>
      rewrite forallb_forall in Hf; specialize (Hf _ Hj) end. apply Z.leb_le. assumption.
  - intros j o0 Hj Hin.
    match goal with Hf : forallb _ (enumerate _) = true |- _ =>
      rewrite forallb_forall in Hf; specialize (Hf _ (in_enum _ _ _ Hj)) end.
    cbn [fst snd] in *. apply memZ_In in Hin.
    match goal with Hf : negb _ || _ = true |- _ => rewrite Hin in Hf; cbn in Hf; apply memZ_In in Hf; exact Hf end.
Qed.

Lemma nodupZ_sound l : nodupZ l = true -> NoDup l.
Proof.
  induction l as [|x l IH]; cbn; intros H; [constructor|].
  apply Bool.andb_true_iff in H. destruct H as [A B]. constructor; [|apply IH; exact B].
  intros C. apply memZ_In in C. rewrite C in A. discriminate.
Qed.

Theorem plan_okb_sound k g0 tis :
  plan_okb k g0 tis = true -> Forall (ti_ok k g0) tis /\ NoDup (deq_tensors k tis).
Proof.
  unfold plan_okb. intros H. apply Bool.andb_true_iff in H. destruct H as [A B]. split.
  - apply Forall_forall. intros ti Hti. rewrite forallb_forall in A. specialize (A _ Hti).
    unfold ti_okb in A. apply Bool.andb_true_iff in A. destruct A as [A1 A2]. split.
    + apply Forall_forall. intros i Hi. rewrite forallb_forall in A1. apply float_instb_sound. apply A1. exact Hi.
    + intros Ek. rewrite Ek, Z.eqb_refl in A2. cbn in A2.
      change (filter isdeqb (ti_insts ti)) with (filter isdeq (ti_insts ti)) in A2.
      destruct (filter isdeq (ti_insts ti)) as [|i [|i2 r]]; [exact I|apply deq_okb_sound; exact A2|discriminate].
  - apply nodupZ_sound. exact B.
Qed.
