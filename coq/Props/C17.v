(* Props/C17.v — quantization arithmetic obeys its algebraic laws.
   Part 1: the ideal (real-number, TFLite-spec) arithmetic, all inputs, exact.
   Part 2: the implemented float32 arithmetic (Model/ArithF32.v, bit-exact
   against numpy by correspondence A): finite sweeps decided inside the kernel
   over the grid stated in each theorem, the refutation of scale finiteness for
   ranges wider than FLT_MAX, and pins tying the hand model to the source. *)
From Coq Require Import ZArith Reals Lra Lia List Bool.
From Flocq Require Import Core IEEE754.Binary IEEE754.Bits.
From VF Require Import Spec.ArithR Proofs.ArithRProofs Gen.Consts Model.ArithF32.
Import ListNotations.

(* ---------------- Part 1: ideal arithmetic, every real min <= max ---------------- *)
Open Scope R_scope.

Theorem C17_scale_positive :
  forall b mn mx, (2 <= b)%Z -> 0 < scale_sym b mn mx /\ 0 < scale_asym b mn mx.
Proof. intros. split; [apply scale_sym_pos|apply scale_asym_pos]; assumption. Qed.
Print Assumptions C17_scale_positive.

Theorem C17_zero_point_in_range :
  forall b mn mx, (2 <= b)%Z -> (qmin b <= zp_asym b mn mx <= qmax b)%Z.
Proof. exact zp_asym_range. Qed.
Print Assumptions C17_zero_point_in_range.

Theorem C17_zero_exactly_representable :
  forall b narrow s zp, 0 < s -> (qlo b narrow <= zp <= qmax b)%Z ->
    deq s zp (quant b narrow s zp 0) = 0.
Proof. exact zero_exact. Qed.
Print Assumptions C17_zero_exactly_representable.

Theorem C17_range_covered :
  forall b mn mx, (2 <= b)%Z -> mn <= mx ->
    (deq (scale_sym b mn mx) 0 (- qmax b) <= mn /\ mx <= deq (scale_sym b mn mx) 0 (qmax b)) /\
    (let s := scale_asym b mn mx in let zp := zp_asym b mn mx in
     deq s zp (qmin b) <= mn + s / 2 /\ mx - s / 2 <= deq s zp (qmax b)).
Proof. intros. split; [apply cover_sym|apply cover_asym]; assumption. Qed.
Print Assumptions C17_range_covered.

Theorem C17_quantize_in_range :
  forall b narrow s zp x, (qlo b narrow <= qmax b)%Z ->
    (qlo b narrow <= quant b narrow s zp x <= qmax b)%Z.
Proof. exact quant_range. Qed.
Print Assumptions C17_quantize_in_range.

Theorem C17_quantize_monotone :
  forall b narrow s zp x y, 0 < s -> x <= y ->
    (quant b narrow s zp x <= quant b narrow s zp y)%Z.
Proof. exact quant_mono. Qed.
Print Assumptions C17_quantize_monotone.

Theorem C17_dequantize_quantize_half_step :
  forall b narrow s zp x, 0 < s ->
    IZR (qlo b narrow) <= x * (1 / s) + IZR zp <= IZR (qmax b) ->
    Rabs (deq s zp (quant b narrow s zp x) - x) <= s / 2.
Proof. exact deq_quant_halfstep. Qed.
Print Assumptions C17_dequantize_quantize_half_step.

Theorem C17_quantize_dequantize_identity :
  forall b narrow s zp c, 0 < s -> (qlo b narrow <= c <= qmax b)%Z ->
    quant b narrow s zp (deq s zp c) = c.
Proof. exact quant_deq_id. Qed.
Print Assumptions C17_quantize_dequantize_identity.

(* ---------------- Part 2: implemented float32 arithmetic ---------------- *)
Open Scope Z_scope.

Definition f32 (bits : Z) : binary32 := b32_of_bits bits.
Definition eps32 := f32 min_bound_f32_bits.

(* parameter grid of the sweeps: (bits, symmetric, min bits, max bits) *)
Definition grid : list (Z * bool * Z * Z) :=
  [(8, false, 0, 1076048691);            (* [0, 2.55]: the old int8 wrap witness *)
   (8, false, 3212836864, 1077936128);   (* [-1, 3] *)
   (8, true,  3212836864, 1077936128);
   (8, false, 1056964608, 1075838976);   (* [0.5, 2.5] all positive *)
   (8, false, 3221225472, 3212836864);   (* [-2, -1] all negative *)
   (8, true,  0, 0);                     (* degenerate: min_bound *)
   (4, false, 3212836864, 1077936128);
   (4, true,  3204448256, 1048576000);   (* [-0.5, 0.25] *)
   (4, false, 0, 1065353216)].

Definition codes (bits : Z) (narrow : bool) : list Z :=
  map (fun k => (if narrow then qminZ bits + 1 else qminZ bits) + Z.of_nat k)
      (seq 0 (Z.to_nat (qmaxZ bits - (if narrow then qminZ bits + 1 else qminZ bits) + 1))).

Definition roundtrip_ok (g : Z * bool * Z * Z) : bool :=
  let '(bits, sym, mn, mx) := g in
  let '(zpf, scale) := zp_scale ops32 eps32 bits sym (f32 mn) (f32 mx) in
  let zp := Btrunc 24 128 zpf in
  (* the library hands dequantize's float64 result back to quantize as float32 *)
  forallb (fun c => Z.eqb (quantize ops32 bits sym scale zp
                             (f64_to_f32 (dequantize scale zp c))) c)
          (codes bits sym)
  && (qminZ bits <=? zp) && (zp <=? qmaxZ bits) && (negb sym || Z.eqb zp 0)
  && Z.eqb (bits_of_b64 (dequantize scale zp (quantize ops32 bits sym scale zp (f32 0)))) 0.

(* quantize(dequantize(c)) = c for EVERY 4/8-bit code, zero exact and the zero
   point in range, in the bit-exact float32 model, over [grid] (a finite
   computation inside the kernel; the unbounded claim is Part 1) *)
Theorem C17_f32_roundtrip_all_codes_on_grid : forallb roundtrip_ok grid = true.
Proof. vm_compute. reflexivity. Qed.
Print Assumptions C17_f32_roundtrip_all_codes_on_grid.

(* F12: the asymmetric range computation overflows float32 when max - min
   exceeds FLT_MAX; the scale is then +infinity (known finding) *)
Theorem C17_f32_scale_finite_refuted :
  exists mn mx : binary32,
    is_finite 24 128 mn = true /\ is_finite 24 128 mx = true /\
    is_finite 24 128 (snd (zp_scale ops32 eps32 8 false mn mx)) = false.
Proof.
  exists (f32 4284584383), (f32 2137100735).   (* -3e38, 3e38 *)
  vm_compute. repeat split.
Qed.
Print Assumptions C17_f32_scale_finite_refuted.

(* F11 (fixed in /repo): subtracting an int8 zero point from int8 data in int8
   wrapped; the witness stays as a regression example *)
Example C17_int8_wrap_witness :
  let '(zpf, scale) := zp_scale ops32 eps32 8 false (f32 0) (f32 1076048691) in
  let zp := Btrunc 24 128 zpf in
  zp = -128 /\
  Bsign 24 128 (dequantize_wrapping 8 scale zp 127) = true (* -0.01 *) /\
  Bsign 53 1024 (dequantize scale zp 127) = false (* 2.55 *).
Proof. vm_compute. repeat split. Qed.

(* pins: the body shapes of the hand-modelled numeric functions are those the
   model was written against (regenerated from /repo on every run) *)
Theorem C17_model_pins :
  zp_scale_shape = 5412333320397 /\ shape_uniform_quantize = 106400365541119 /\
  shape_round_and_clip = 199905319518080 /\ shape_assign_quantized_type = 259682751756931 /\
  shape_get_quantized_range = 227305537124413 /\
  shape_uniform_dequantize = 280373118552801 /\
  shape_symmetric_quantize_bias_tensor = 80842322323527 /\
  shape_fix_quantization_params_rank = 157110323541930 /\
  shape_pack_data = 10948941224577 /\ shape_get_min_max_from_quant_params = 26722420040307.
Proof. repeat split; reflexivity. Qed.
Print Assumptions C17_model_pins.

(* int4 packing round trip, every pair of nibbles (finite: 256 pairs) and
   every odd tail *)
Theorem C17_pack_unpack_pairs :
  forallb (fun e => forallb (fun o =>
     match unpack4 2 (pack4 [e; o]) with
     | [a; b] => Z.eqb a e && Z.eqb b o | _ => false end
     && match unpack4 1 (pack4 [e]) with [a] => Z.eqb a e | _ => false end)
     (codes 4 false)) (codes 4 false) = true.
Proof. vm_compute. reflexivity. Qed.
Print Assumptions C17_pack_unpack_pairs.
