(* Props/C16.v — large-model (external buffer) serialisation equals the
   in-place form.  Model/Serial.v mirrors the two passes of
   ModelModifier._serialize_large_model; the flatbuffer encoder enters only
   through the two encoded byte strings fb1 (pass 1, placeholder offsets) and
   fb2 (pass 2, real offsets).  RUNTIME ASSUMPTION, validated on every case by
   correspondence S and the byte-level oracle: both encodings have the same
   padded length (the encoded size does not depend on the non-default
   offset/size values). *)
From Coq Require Import ZArith List Bool Lia.
From VF Require Import Gen.Consts Model.Serial Proofs.SerialProofs.
Import ListNotations.
Open Scope Z_scope.

(* every region: 16-byte aligned, inside the file, after the flatbuffer, in
   buffer order and pairwise disjoint; buffers without data get no region and
   vice versa; the file ends aligned *)
Theorem C16_regions_aligned_in_bounds_disjoint :
  forall fb1 fb2 cm,
    lenZ (pad16 fb1) = lenZ (pad16 fb2) ->
    let out := serialize_large fb1 fb2 cm in
    Forall (region_ok (lenZ (lo_bytes out))) (lo_table out) /\
    ordered_from (lenZ (pad16 fb2)) (lo_table out) /\
    lenZ (lo_bytes out) mod 16 = 0 /\
    length (lo_table out) = length cm /\
    (forall k, nth_error cm k = Some None <-> nth_error (lo_table out) k = Some None).
Proof.
  intros fb1 fb2 cm E out. unfold out, serialize_large. cbn [lo_table lo_bytes].
  destruct (lenZ_pad16 fb1) as [_ A1].
  pose proof (assign_offsets_spec cm (lenZ (pad16 fb1)) (lenZ_nonneg _) A1) as S.
  rewrite (total_length cm (pad16 fb2) (lenZ (pad16 fb1)) (eq_sym E)).
  destruct (assign_offsets (lenZ (pad16 fb1)) cm) as [t e]. cbn [fst snd].
  destruct S as (S1 & S2 & S3 & S4 & S5 & S6). rewrite <- E. repeat split; try assumption; apply S6.
Qed.
Print Assumptions C16_regions_aligned_in_bounds_disjoint.

(* every (offset, size) selects exactly the bytes the ordinary path embeds *)
Theorem C16_regions_select_the_embedded_bytes :
  forall fb1 fb2 cm k d,
    lenZ (pad16 fb1) = lenZ (pad16 fb2) ->
    nth_error cm k = Some (Some d) ->
    let out := serialize_large fb1 fb2 cm in
    exists o, nth_error (lo_table out) k = Some (Some (o, lenZ d)) /\
              slice o (lenZ d) (lo_bytes out) = d.
Proof.
  intros fb1 fb2 cm k d E Hk out. unfold out, serialize_large. cbn [lo_table lo_bytes].
  apply content_spec; [symmetry; exact E|exact Hk].
Qed.
Print Assumptions C16_regions_select_the_embedded_bytes.

(* pins: alignment constant, size threshold (2^31 - 2^20) and the bodies of
   the hand-modelled functions are those the model was written against
   (regenerated from model_modifier.py on every run) *)
Theorem C16_model_pins :
  serial_align = 16 /\ large_model_threshold = 2 ^ 31 - 2 ^ 20 /\
  shape_serialize_large_model = 85907335864500 /\ shape_process_constant_map = 19111186700546 /\
  shape_serialize_small_model = 168455819717267.
Proof. repeat split; reflexivity. Qed.
Print Assumptions C16_model_pins.

(* the assumption is needed: if the second encoding is longer than the first
   (after padding), an offset points into the flatbuffer *)
Example C16_assumption_needed :
  let fb1 := repeat 7 16 in let fb2 := repeat 7 32 in
  let out := serialize_large fb1 fb2 [Some [1; 2; 3]] in
  lo_table out = [Some (16, 3)] /\ slice 16 3 (lo_bytes out) = [7; 7; 7].
Proof. vm_compute. split; reflexivity. Qed.

Example C16_nonvacuous :
  let out := serialize_large (repeat 9 20) (repeat 9 20) [None; Some [1; 2; 3]; Some []; Some (repeat 5 17)] in
  lo_table out = [None; Some (32, 3); Some (48, 0); Some (48, 17)] /\ lenZ (lo_bytes out) = 80.
Proof. vm_compute. split; reflexivity. Qed.
