(* Props/C08.v — shipped default recipes quantize every supported-op graph
   without rejection.  What is decided here by proof is the DECISION-TABLE half
   of the claim, for every shipped default recipe (regenerated from
   /repo/ai_edge_quantizer/recipes on every run) and every operator name: the
   recipe loads; under its '.*' rule the resolution of an operator is either
   no-quantize (silent fall-back) or an (algorithm, config) pair for which a
   materializer is registered, the transformation decision is defined for
   every kind of operand, the config is not block-wise and, for fixed-range
   ops, the activation width is one the materializer accepts.  Hence the
   raise sites "no materializer", "unsupported config", "emulated
   sub-channel" and "fixed range needs 8/16 bits" of plan generation are
   unreachable under a shipped recipe, for ALL graphs.  The graph-dependent
   raise sites (missing statistics: C10; buffer sharing; instruction
   validity) are covered by correspondences P/I/T/E and by the end-to-end
   oracle (public API incl. calibrate()) on generated graphs; the residual
   rejections of conflicting shared CONSTANTS are known findings F17/F18. *)
From VF Require Import Base.Prelude Gen.Enums Gen.Configs Gen.Policy Gen.Registry Gen.Checks
     Gen.MatDesc Gen.InstChecks Gen.Recipes Model.Recipe Model.Check Model.RecipeFile
     Model.Graph Model.Plan Proofs.ModeProofs.

Definition always (r s : Z) := true.          (* '.*' is found in every scope *)

Definition default_recipes : list (list raw_entry) :=
  [recipe_default_a16w8_recipe; recipe_default_a8w8_recipe;
   recipe_default_af32w4float_recipe; recipe_default_af32w8float_recipe;
   recipe_dynamic_wi8_afp32_recipe].

Definition all_operand_kinds : list (bool * bool) :=
  [(true, true); (true, false); (false, true); (false, false)].

Definition resolves_ok (s : state) (o : opname) : bool :=
  let '(alg, c) := get check always s o 0 in
  is_noquant alg ||
  match alg with
  | AKother _ => false
  | AK a =>
      match lookup_registration a o with
      | None => false
      | Some f =>
          forallb (fun k => is_ok (get_tensor_transformations c (fst k) (snd k))) all_operand_kinds
          && negb (is_blockwise c)
          && match mat_desc_of f, ocfg_activation_tensor_config c with
             | MFixed _, Some a => Z.eqb (tcfg_num_bits a) 8 || Z.eqb (tcfg_num_bits a) 16
             | _, _ => true
             end
      end
  end.

Definition recipe_ok (es : list raw_entry) : bool :=
  match load_raw check ocfg_post_init es with
  | Ok s => forallb (resolves_ok s) opname_all
  | Err _ => false
  end.

Theorem C08_shipped_recipes_resolve_to_materializable_configs :
  forall es, In es default_recipes ->
    exists s, load_raw check ocfg_post_init es = Ok s /\
      forall o, In o opname_all -> resolves_ok s o = true.
Proof.
  intros es Hin.
  assert (H : forallb recipe_ok default_recipes = true) by (vm_compute; reflexivity).
  rewrite forallb_forall in H. specialize (H es Hin). unfold recipe_ok in H.
  destruct (load_raw check ocfg_post_init es) as [s|]; [|discriminate].
  exists s. split; [reflexivity|]. apply forallb_forall. exact H.
Qed.
Print Assumptions C08_shipped_recipes_resolve_to_materializable_configs.

(* opname_all really lists every operator name *)
Theorem C08_opname_all_complete : forall o : opname, In o opname_all.
Proof. intros o. destruct o; cbn; auto 30. Qed.
Print Assumptions C08_opname_all_complete.

(* an unknown builtin operator (not in the name table) is planned NO_QUANTIZE
   and cannot raise because of the recipe *)
Theorem C08_unknown_op_never_consults_recipe :
  forall matches rules bufs rs s ts op,
    po_key op = None ->
    plan_op matches rules bufs (rs, s) ts op =
      (r <- (ps <- noquant_op ts op ;; Ok (ps, s)) ;;
       rs' <- foldM merge_result (fst r) rs ;; Ok (rs', snd r)).
Proof. intros. unfold plan_op. rewrite H. reflexivity. Qed.
Print Assumptions C08_unknown_op_never_consults_recipe.

(* which ops each shipped recipe actually quantizes (the rest fall back
   silently): static recipes = the README coverage table *)
Definition quantized_ops (es : list raw_entry) : list opname :=
  match load_raw check ocfg_post_init es with
  | Ok s => filter (fun o => negb (is_noquant (fst (get check always s o 0)))) opname_all
  | Err _ => []
  end.
Theorem C08_a8w8_covers_readme_table :
  quantized_ops recipe_default_a8w8_recipe =
  [Op_INPUT; Op_OUTPUT; Op_FULLY_CONNECTED; Op_BATCH_MATMUL; Op_DEPTHWISE_CONV_2D; Op_CONV_2D;
   Op_CONV_2D_TRANSPOSE; Op_AVERAGE_POOL_2D; Op_RESHAPE; Op_SOFTMAX; Op_TANH; Op_TRANSPOSE; Op_GELU;
   Op_ADD; Op_SUB; Op_MUL; Op_MEAN; Op_RSQRT; Op_CONCATENATION; Op_STRIDED_SLICE; Op_SPLIT; Op_LOGISTIC].
Proof. vm_compute. reflexivity. Qed.
Print Assumptions C08_a8w8_covers_readme_table.

Example C08_nonvacuous :
  quantized_ops recipe_dynamic_wi8_afp32_recipe =
  [Op_FULLY_CONNECTED; Op_BATCH_MATMUL; Op_DEPTHWISE_CONV_2D; Op_CONV_2D; Op_CONV_2D_TRANSPOSE;
   Op_EMBEDDING_LOOKUP].
Proof. vm_compute. reflexivity. Qed.
