(* Props/C10.v — calibration and quantization select the same ops. *)
From VF Require Import Base.Prelude Gen.Enums Gen.Configs Gen.Scopes
     Model.Recipe Model.Check Model.Graph Model.Plan Model.Calib.
From VF Require Import Gen.Registry Gen.Checks Model.Calib Proofs.CalibProofs Proofs.ResumeProofs Proofs.PlanProofs Proofs.NeedCalProofs.

(* The two scope functions (regenerated from calibrator.py and
   params_generator.py on every run) build the same token list for EVERY list
   of result tensors — hence the same string, hence the same answer from any
   regex matcher. *)
Theorem C10_scope_eq :
  forall outputs : list Z, scope_calibrator outputs = scope_params_generator outputs.
Proof.
  intros outputs. unfold scope_calibrator, scope_params_generator.
  induction outputs as [|x l IH]; cbn; [reflexivity|]. rewrite ?IH. reflexivity.
Qed.
Print Assumptions C10_scope_eq.

(* Consequently both sides resolve every operator to the same rule: for all
   rule lists, matchers, interning functions, operators. *)
Theorem C10_same_resolution :
  forall (matches : Z -> Z -> bool) (rules : state) (scope_id : Z -> list stok -> Z)
         (gi : Z) (key : opname) (outputs : list Z),
    get check matches rules key (scope_id gi (scope_calibrator outputs)) =
    get check matches rules key (scope_id gi (scope_params_generator outputs)).
Proof. intros. rewrite C10_scope_eq. reflexivity. Qed.
Print Assumptions C10_same_resolution.

(* per operator of a subgraph: the scope used while calibrating equals the
   scope used while quantizing (real ops and the virtual INPUT/OUTPUT ops) *)
Lemma combine_app_eq {A B} (a1 a2 : list A) (b1 b2 : list B) :
  length a1 = length b1 -> combine (a1 ++ a2) (b1 ++ b2) = combine a1 b1 ++ combine a2 b2.
Proof.
  revert b1; induction a1 as [|x a1 IH]; intros [|y b1] H; cbn in *; try discriminate; auto.
  f_equal. apply IH. lia.
Qed.

Lemma combine_map_l {A B C} (f : A -> C) (a : list A) (b : list B) :
  combine (map f a) b = map (fun p => (f (fst p), snd p)) (combine a b).
Proof.
  revert b; induction a as [|x a IH]; intros [|y b]; cbn; auto. f_equal. apply IH.
Qed.

Lemma length_enumerate_from {A} (l : list A) z : length (enumerate_from z l) = length l.
Proof. revert z; induction l; intros; cbn; auto. Qed.

Theorem C10_scope_per_op :
  forall scope_id gi opcodes g adjy,
    length adjy = length (sg_ops g) ->
    map (fun o => co_scope o) (real_cops scope_id gi opcodes g adjy ++ io_cops scope_id gi g) =
    map (fun o => po_scope o) (pops_of (scope_id gi) opcodes g adjy).
Proof.
  intros scope_id gi opcodes g adjy Hlen.
  unfold real_cops, io_cops, pops_of.
  rewrite combine_app_eq
    by (rewrite map_length; unfold enumerate; rewrite length_enumerate_from; lia).
  rewrite !map_app. f_equal.
  all: try (rewrite combine_map_l, !map_map; apply map_ext; intros [[i o] a]; cbn;
            rewrite C10_scope_eq; reflexivity).
  all: try (cbn; rewrite !C10_scope_eq; reflexivity).
Qed.
Print Assumptions C10_scope_per_op.

Example C10_nonvacuous :
  scope_calibrator [3; -1; 5] = [TName 3; TLit 59; TName 5; TLit 59] /\
  scope_params_generator [3; -1; 5] = [TName 3; TLit 59; TName 5; TLit 59].
Proof. split; reflexivity. Qed.

(* NO MISSING STATISTICS, the two halves.
   (a) calibration side: after ONE sample, every present, non-constant operand
       or result of every operator of the calibrated subgraph that the recipe
       selects for the min/max algorithm (real ops and the accumulated virtual
       INPUT/OUTPUT operators alike) has an entry in the store — and entries
       never disappear (C09);
   (b) quantization side: plan generation raises "statistics are required"
       for a tensor ONLY when that tensor is a runtime tensor without an entry;
       every other error of the per-tensor wrapper is a config error, which
       the support check excludes (C08/C13).
   Since both sides resolve every operator identically (C10_scope_eq,
   C10_same_resolution), quantize(calibrate()) cannot fail for missing
   statistics on the calibrated subgraph.  (The composition of (a) and (b)
   through the materializers is executed on every case by correspondence K/P
   and the oracle, not stated as one Coq theorem.) *)
Theorem C10_calibration_records_every_runtime_operand_of_selected_ops :
  forall matches rules bufs scope_id m gi g ad copies k s s' op c o x t,
    one_sample_gen matches rules bufs scope_id m gi g ad copies k s = Ok s' ->
    In op (real_cops scope_id gi (m_opcodes m) g ad ++ concat (repeat (io_cops scope_id gi g) copies)) ->
    selected matches rules op = Some (AK Alg_MIN_MAX_UNIFORM_QUANT, c, o) ->
    In x (present (co_ins op) ++ present (co_outs op)) ->
    py_index (sg_tensors g) x = Ok t -> is_const bufs t = false ->
    has_key s' (tname t).
Proof. intros. eapply sample_covers; eassumption. Qed.
Print Assumptions C10_calibration_records_every_runtime_operand_of_selected_ops.

Theorem C10_missing_statistics_only_for_absent_runtime_entry :
  forall bufs s o opid adjy c t inbound e,
    wrapper bufs s o opid adjy c t inbound None = Err e ->
    (store_get s (tname t) = None /\ is_const bufs t = false /\ e = ValueError) \/
    (is_blockwise c && is_const bufs t = true /\ e = OtherError) \/
    (exists tc, chosen_cfg bufs o c t = Some tc /\ param_qdim o tc t (is_const bufs t) adjy = Err e) \/
    (exists const, get_tensor_transformations c inbound const = Err e).
Proof. exact wrapper_error. Qed.
Print Assumptions C10_missing_statistics_only_for_absent_runtime_entry.

(* the gate of Quantizer.calibrate(): whenever ANY (operator, scope) resolves
   to a static-range config (INTEGER compute with an activation config),
   need_calibration is true — calibration is never skipped for a recipe under
   which quantization will ask for statistics *)
Theorem C10_static_resolution_implies_need_calibration :
  forall (check : akey -> opname -> ocfg -> bool) (matches : Z -> Z -> bool) s target scope a c,
    get check matches s target scope = (a, c) -> static_cfg c = true -> need_calibration s = true.
Proof. exact static_resolution_needs_calibration. Qed.
Print Assumptions C10_static_resolution_implies_need_calibration.
