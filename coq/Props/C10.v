(* Props/C10.v — calibration and quantization select the same ops. *)
From VF Require Import Base.Prelude Gen.Enums Gen.Configs Gen.Scopes
     Model.Recipe Model.Check Model.Graph Model.Plan Model.Calib.

(* The two scope functions (regenerated from calibrator.py and
   params_generator.py on every run) build the same token list for EVERY list
   of result tensors — hence the same string, hence the same answer from any
   regex matcher. *)
Theorem C10_scope_eq :
  forall outputs : list Z, scope_calibrator outputs = scope_params_generator outputs.
Proof.
  intros outputs. unfold scope_calibrator, scope_params_generator.
  induction outputs as [|x l IH]; cbn; [reflexivity|]. rewrite ?IH. reflexivity.
Qed.
Print Assumptions C10_scope_eq.

(* Consequently both sides resolve every operator to the same rule: for all
   rule lists, matchers, interning functions, operators. *)
Theorem C10_same_resolution :
  forall (matches : Z -> Z -> bool) (rules : state) (scope_id : Z -> list stok -> Z)
         (gi : Z) (key : opname) (outputs : list Z),
    get check matches rules key (scope_id gi (scope_calibrator outputs)) =
    get check matches rules key (scope_id gi (scope_params_generator outputs)).
Proof. intros. rewrite C10_scope_eq. reflexivity. Qed.
Print Assumptions C10_same_resolution.

(* per operator of a subgraph: the scope used while calibrating equals the
   scope used while quantizing (real ops and the virtual INPUT/OUTPUT ops) *)
Lemma combine_app_eq {A B} (a1 a2 : list A) (b1 b2 : list B) :
  length a1 = length b1 -> combine (a1 ++ a2) (b1 ++ b2) = combine a1 b1 ++ combine a2 b2.
Proof.
  revert b1; induction a1 as [|x a1 IH]; intros [|y b1] H; cbn in *; try discriminate; auto.
  f_equal. apply IH. lia.
Qed.

Lemma combine_map_l {A B C} (f : A -> C) (a : list A) (b : list B) :
  combine (map f a) b = map (fun p => (f (fst p), snd p)) (combine a b).
Proof.
  revert b; induction a as [|x a IH]; intros [|y b]; cbn; auto. f_equal. apply IH.
Qed.

Lemma length_enumerate_from {A} (l : list A) z : length (enumerate_from z l) = length l.
Proof. revert z; induction l; intros; cbn; auto. Qed.

Theorem C10_scope_per_op :
  forall scope_id gi opcodes g adjy,
    length adjy = length (sg_ops g) ->
    map (fun o => co_scope o) (real_cops scope_id gi opcodes g adjy ++ io_cops scope_id gi g) =
    map (fun o => po_scope o) (pops_of (scope_id gi) opcodes g adjy).
Proof.
  intros scope_id gi opcodes g adjy Hlen.
  unfold real_cops, io_cops, pops_of.
  rewrite combine_app_eq
    by (rewrite map_length; unfold enumerate; rewrite length_enumerate_from; lia).
  rewrite !map_app. f_equal.
  all: try (rewrite combine_map_l, !map_map; apply map_ext; intros [[i o] a]; cbn;
            rewrite C10_scope_eq; reflexivity).
  all: try (cbn; rewrite !C10_scope_eq; reflexivity).
Qed.
Print Assumptions C10_scope_per_op.

Example C10_nonvacuous :
  scope_calibrator [3; -1; 5] = [TName 3; TLit 59; TName 5; TLit 59] /\
  scope_params_generator [3; -1; 5] = [TName 3; TLit 59; TName 5; TLit 59].
Proof. split; reflexivity. Qed.
