(* Props/C18.v — validate() reports the true per-tensor error, once per tensor.
   Model/Valid.v mirrors the bookkeeping of model_validator (which names are
   compared; the pop-based filing under inputs / outputs / constants /
   intermediates).  Theorems: the four groups are a PERMUTATION of the
   compared-name dict (every name exactly once, under exactly one group, with
   its own value), the first three list exactly the signature's input /
   output / constant names; filing succeeds whenever the role names are
   distinct and among the compared names, and raises KeyError when one is
   missing; the metrics obey their laws over the reals (MSE >= 0, 0 on equal
   arguments, symmetric; the ratio term >= 0, 0 on equal arguments, NOT
   symmetric).  Tie: correspondence V (add_new_signature_results vs the model
   on real and adversarial name lists) and the end-to-end oracle that
   recomputes every reported value from the check's own interpreter runs. *)
From Coq Require Import Permutation Reals.
From VF Require Import Base.Prelude Model.Valid Proofs.ValidProofs Proofs.AggProofs.
Open Scope Z_scope.

Theorem C18_every_name_in_exactly_one_group :
  forall (V : Type) (r : list (Z * V)) ins outs consts g,
    partition r ins outs consts = Ok g ->
    Permutation r (g_inputs g ++ g_outputs g ++ g_constants g ++ g_intermediates g) /\
    map fst (g_inputs g) = ins /\ map fst (g_outputs g) = dedup ins outs /\
    map fst (g_constants g) = dedup (ins ++ outs) consts.
Proof. exact partition_exact. Qed.
Print Assumptions C18_every_name_in_exactly_one_group.

Theorem C18_names_stay_unique_and_keep_their_value :
  forall (V : Type) (r : list (Z * V)) ins outs consts g,
    NoDup (map fst r) -> partition r ins outs consts = Ok g ->
    NoDup (map fst (g_inputs g ++ g_outputs g ++ g_constants g ++ g_intermediates g)) /\
    forall k v, In (k, v) r <->
      In (k, v) (g_inputs g ++ g_outputs g ++ g_constants g ++ g_intermediates g).
Proof. exact partition_once. Qed.
Print Assumptions C18_names_stay_unique_and_keep_their_value.

Theorem C18_filing_succeeds_on_distinct_present_names :
  forall (V : Type) names (r : list (Z * V)),
    NoDup names -> (forall n, In n names -> In n (map fst r)) ->
    exists a rest, pop_all r names = Ok (a, rest).
Proof. exact pop_all_total. Qed.
Print Assumptions C18_filing_succeeds_on_distinct_present_names.

(* the names of a group are filed once each — first occurrences, in order,
   minus those already filed under an earlier group ([seen]: an output that is
   also an input, a constant that is also an output); without repetition and
   overlap that is the list itself *)
Theorem C18_output_names_filed_once :
  forall seen names,
    NoDup (dedup seen names) /\ (forall n, In n (dedup seen names) <-> In n names /\ ~ In n seen) /\
    (NoDup names -> (forall n, In n names -> ~ In n seen) -> dedup seen names = names).
Proof.
  intros seen names. destruct (dedup_spec names seen) as (ND & I). split; [exact ND|]. split; [exact I|].
  intros H1 H2. apply dedup_nodup; assumption.
Qed.
Print Assumptions C18_output_names_filed_once.

Theorem C18_filing_raises_on_missing_name :
  forall (V : Type) names (r : list (Z * V)) n,
    In n names -> ~ In n (map fst r) -> exists e, pop_all r names = Err e.
Proof. exact pop_all_missing. Qed.
Print Assumptions C18_filing_raises_on_missing_name.

Open Scope R_scope.
Theorem C18_mse_laws :
  forall a b, 0 <= mse a b /\ mse a a = 0 /\ (length a = length b -> mse a b = mse b a).
Proof. intros a b. split; [apply mse_nonneg|]. split; [apply mse_refl|apply mse_sym]. Qed.
Print Assumptions C18_mse_laws.

Theorem C18_ratio_laws :
  forall tol x y, 0 < tol -> 0 <= ratio tol x y /\ ratio tol x x = 0.
Proof. intros tol x y H. split; [apply ratio_nonneg; exact H|apply ratio_refl; exact H]. Qed.
Print Assumptions C18_ratio_laws.
Close Scope R_scope.

(* Aggregation over the test inputs of a signature (compare_model): for EVERY
   number of inputs and every reduction [mean], the value reported for a tensor
   name is the reduction of exactly the values compare_fn returned for that
   name — one per input that lists it, in input order (`values`) — and a name
   is reported iff some input listed it; when every input visits the same
   names once (same two models on every input), the reduction receives one
   value per test input. *)
Theorem C18_reported_value_reduces_the_per_input_values :
  forall (V : Type) (mean : list V -> V) samples n,
    lookup (aggregate mean samples) n =
      match values V n samples with [] => None | vs => Some (mean vs) end.
Proof. exact aggregate_reports. Qed.
Print Assumptions C18_reported_value_reduces_the_per_input_values.

Theorem C18_one_value_per_test_input :
  forall (V : Type) names (samples : list (list (Z * V))) n,
    uniform V names samples -> In n names -> length (values V n samples) = length samples.
Proof. exact uniform_one_value_per_input. Qed.
Print Assumptions C18_one_value_per_test_input.

(* three inputs, two names: each name's list holds its three values in input order *)
Definition agg_ex : list (list (Z * Z)) :=
  [[(7, 1); (9, 10)]; [(7, 2); (9, 20)]; [(7, 4); (9, 40)]].
Example C18_aggregation_nonvacuous :
  collect agg_ex = [(7, [1; 2; 4]); (9, [10; 20; 40])] /\
  aggregate (fun l => fold_left Z.add l 0) agg_ex = [(7, 7); (9, 70)] /\
  uniform Z [7; 9] agg_ex.
Proof.
  split; [vm_compute; reflexivity|]. split; [vm_compute; reflexivity|].
  split; [repeat constructor; cbn; intuition lia|repeat constructor].
Qed.

(* Non-vacuity: names 1..5; 1 is an input, 4 an output, 2 a constant *)
Example C18_nonvacuous :
  match partition [(1, 10); (2, 20); (3, 30); (4, 40); (5, 50)] [1] [4] [2] with
  | Ok g => g_inputs g = [(1, 10)] /\ g_outputs g = [(4, 40)] /\ g_constants g = [(2, 20)] /\
            g_intermediates g = [(3, 30); (5, 50)]
  | Err _ => False end /\
  partition [(1, 10); (2, 20)] [1; 1] [] [] = Err KeyError /\
  match partition [(1, 10); (2, 20); (3, 30)] [1] [3; 3; 1] [3; 2] with
  | Ok g => g_inputs g = [(1, 10)] /\ g_outputs g = [(3, 30)] /\ g_constants g = [(2, 20)] /\
            g_intermediates g = []
  | Err _ => False end.
Proof. vm_compute. repeat split. Qed.
