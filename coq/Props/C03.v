(* Props/C03.v — each op runs in the mode its recipe rule selected; others are
   untouched.  Statements about (a) the regenerated decision function
   get_tensor_transformations, (b) the plan model for unselected ops and
   ignored operands, (c) one performer step (dtypes of the tensors an inserted
   QUANTIZE/DEQUANTIZE connects; which buffer may change).  The composition
   over the instruction generator is validated by correspondences P/I/T/E and
   the per-operand dtype oracle on every generated case (stated in DESIGN). *)
From VF Require Import Base.Prelude Gen.Enums Gen.Configs Gen.Policy Gen.Registry Gen.Checks
     Gen.MatDesc Gen.InstChecks Gen.Scopes Model.Recipe Model.Check Model.Graph
     Model.Plan Model.Perform Spec.WF Proofs.ListFacts Proofs.PerformStep Proofs.ModeProofs Proofs.PlanProofs
     Proofs.UntouchedProofs Model.Insts Proofs.InstsCover Proofs.GroupNest Proofs.ReadersProofs Proofs.PerformInv Proofs.SkeletonInv Proofs.ReadersOrig Spec.LastOk Proofs.LastOkSound Model.Pipeline Proofs.GroupLists Proofs.GroupOrder.

(* (a) mode -> per-operand transformation, for EVERY config in one of the
   three modes (static-range: integer compute with an activation config;
   dynamic-range: integer compute without; weight-only: float compute with
   explicit dequantize, not block-wise):
     static  : activation operand  -> QUANTIZE inserted   (reads integers)
               constant operand    -> quantized in place
               result              -> DEQUANTIZE inserted (writes integers)
     dynamic : constant operand    -> quantized in place; everything else float
     w-only  : constant operand    -> DEQUANTIZE of the quantized constant;
               everything else float *)
Theorem C03_mode_table :
  forall c inbound const,
    cfg_static c || cfg_dynamic c || cfg_weight_only c = true ->
    get_tensor_transformations c inbound const = Ok (expected_trans c inbound const).
Proof. exact mode_table. Qed.
Print Assumptions C03_mode_table.

(* the decision function never returns anything but a single transformation *)
Theorem C03_single_transformation :
  forall c inbound const l,
    get_tensor_transformations c inbound const = Ok l ->
    l = [Tr_QUANTIZE_TENSOR] \/ l = [Tr_ADD_QUANTIZE] \/ l = [Tr_ADD_DEQUANTIZE] \/
    l = [Tr_NO_QUANTIZE] \/ l = [Tr_EMULATED_SUBCHANNEL].
Proof. exact trans_shapes. Qed.
Print Assumptions C03_single_transformation.

(* every config the default policy accepts for any operator is in one of the
   three modes, so the table above is total on what the API lets through
   (finite: the regenerated policy, by computation) *)
Definition policy_all_configs : list ocfg := flat_map snd DEFAULT_CONFIG_CHECK_POLICY.
Theorem C03_policy_configs_have_a_mode :
  forall c, In c policy_all_configs ->
    cfg_static c || cfg_dynamic c || cfg_weight_only c = true.
Proof.
  apply forallb_forall. vm_compute. reflexivity.
Qed.
Print Assumptions C03_policy_configs_have_a_mode.

(* ... and none of them quantizes activations per channel (no kernel takes
   per-channel activations): a static-range config with CHANNELWISE
   activations is supported by no operator, so a rule carrying one ('*' rules
   are not validated when added) resolves every operator to no-quantize.  The
   oracle applies this necessary condition independently of the policy table
   (directed stream "unsupported-config-through-star-rule"). *)
Theorem C03_policy_activations_are_per_tensor :
  forall c, In c policy_all_configs ->
    match ocfg_activation_tensor_config c with
    | Some a => tcfg_granularity a = Gr_TENSORWISE
    | None => True end.
Proof.
  intros c Hin. pose proof policy_activation_tensorwise as H.
  rewrite forallb_forall in H. specialize (H c Hin).
  destruct (ocfg_activation_tensor_config c) as [a|]; [|exact I].
  destruct (tcfg_granularity a); try discriminate; reflexivity.
Qed.
Print Assumptions C03_policy_activations_are_per_tensor.

(* (b) an operator resolved to no-quantize (unmatched scope, explicit
   no_quantize, unknown builtin code, or unsupported config) plans
   NO_QUANTIZE, without parameters, for every operand and result *)
Theorem C03_unselected_op_untouched :
  forall ts op ps,
    noquant_op ts op = Ok ps -> Forall (is_noquant_plan (po_id op)) ps.
Proof. exact noquant_op_all. Qed.
Print Assumptions C03_unselected_op_untouched.

(* operands that are not float32 (indices, shapes, axes, already-integer data)
   are flagged "ignore" and the merged plan gives them NO_QUANTIZE *)
Theorem C03_nonfloat_operand_never_quantized :
  forall ts ign ids ks,
    keep_flags ts ids ign = Ok ks ->
    forall k x t, nth_opt ids k = Some x -> get_t ts x = Ok t -> t_ty t <> TY_FLOAT32 ->
      nth_opt ks k = Some false.
Proof.
  intros ts ign ids ks H. unfold keep_flags, enumerate in H.
  destruct (keep_flags_nonfloat ts ign ids 0 ks H) as [_ R]. exact R.
Qed.
Print Assumptions C03_nonfloat_operand_never_quantized.

Theorem C03_ignored_operand_plan :
  forall ts opid inbound l ps out,
    merge_plans ts opid inbound l ps = Ok out ->
    forall k x, nth_opt l k = Some (x, false) ->
      exists p, nth_opt out k = Some p /\ is_noquant_plan opid p.
Proof.
  intros ts opid inbound l ps out H. destruct (merge_plans_ignored ts opid inbound l ps out H) as [_ R].
  exact R.
Qed.
Print Assumptions C03_ignored_operand_plan.

(* (c) one in-place quantization changes exactly one tensor (to the integer
   dtype of the configured width, carrying the parameters) and at most that
   tensor's buffer *)
Theorem C03_quantize_tensor_effect :
  forall bufs g tid ps bufs' g',
    0 <= tid -> (forall t, tensor_at g tid = Some t -> 0 <= t_buf t) ->
    quantize_tensor bufs g tid ps = Ok (bufs', g') ->
    exists t, tensor_at g tid = Some t /\
      (forall k, k <> tid -> tensor_at g' k = tensor_at g k) /\
      (forall b, b <> t_buf t -> nthZ bufs' b = nthZ bufs b) /\
      match ps with
      | None => g' = g /\ bufs' = bufs
      | Some p =>
          exists t', tensor_at g' tid = Some t' /\
            t_root t' = t_root t /\ t_sfx t' = t_sfx t /\ t_shape t' = t_shape t /\
            t_buf t' = t_buf t /\
            (if qp_uniform p
             then quant_params_to_tflite_type (qp_bits p) = Ok (t_ty t') /\ t_q t' = Some (qp_id p)
             else nonlinear_quant_params_to_tflite_type (qp_bits p) = Ok (t_ty t') /\ t_q t' = t_q t) /\
            (nthZ bufs' (t_buf t) = nthZ bufs (t_buf t) \/
             (t_buf t <> 0 /\ qp_has_data p = true /\ nthZ bufs' (t_buf t) = Some (BQuant (qp_id p))))
      end.
Proof. exact quantize_tensor_effect. Qed.
Print Assumptions C03_quantize_tensor_effect.

(* an inserted QUANTIZE converts the (untouched) source tensor into a NEW
   tensor of the parameters' integer dtype and writes no buffer; an inserted
   DEQUANTIZE retypes the source tensor to the parameters' dtype and produces
   a NEW float32 tensor without parameters; nothing else is retyped and no
   buffer other than the source tensor's can change *)
Theorem C03_inserted_op_converts_between_neighbour_dtypes :
  forall is_quant codes bufs g tid producer consumers ps codes' bufs' g' info,
    0 <= tid -> (forall t, tensor_at g tid = Some t -> 0 <= t_buf t) ->
    insert_common is_quant codes bufs g tid producer consumers ps = Ok (codes', bufs', g', info) ->
    exists t tn,
      tensor_at g tid = Some t /\ tensor_at g' (ntens g) = Some tn /\
      t_root tn = t_root t /\ t_shape tn = t_shape t /\ t_buf tn = 0 /\
      (forall k, k < ntens g -> k <> tid -> tensor_at g' k = tensor_at g k) /\
      (forall b, b <> t_buf t -> nthZ bufs' b = nthZ bufs b) /\
      (is_quant = true -> tensor_at g' tid = Some t /\ bufs' = bufs) /\
      match ps with
      | None => True
      | Some p =>
          if is_quant then
            (if qp_uniform p
             then quant_params_to_tflite_type (qp_bits p) = Ok (t_ty tn) /\ t_q tn = Some (qp_id p)
             else nonlinear_quant_params_to_tflite_type (qp_bits p) = Ok (t_ty tn))
          else
            t_ty tn = TY_FLOAT32 /\ t_q tn = None /\
            exists t', tensor_at g' tid = Some t' /\ t_buf t' = t_buf t /\ t_shape t' = t_shape t /\
              (if qp_uniform p
               then quant_params_to_tflite_type (qp_bits p) = Ok (t_ty t') /\ t_q t' = Some (qp_id p)
               else nonlinear_quant_params_to_tflite_type (qp_bits p) = Ok (t_ty t'))
      end.
Proof. exact insert_common_types. Qed.
Print Assumptions C03_inserted_op_converts_between_neighbour_dtypes.

(* the regenerated bit-width -> TensorType map *)
Theorem C03_dtype_of_bit_width :
  forall b ty, quant_params_to_tflite_type b = Ok ty ->
    (b <= 4 /\ ty = TY_INT4) \/ (4 < b <= 8 /\ ty = TY_INT8) \/ (8 < b <= 16 /\ ty = TY_INT16) \/
    (16 < b <= 32 /\ ty = TY_INT32) \/ (32 < b <= 64 /\ ty = TY_INT64).
Proof. exact dtype_of_bits. Qed.
Print Assumptions C03_dtype_of_bit_width.

(* bias width: 32 bits, 64 for 16-bit activations (term_bits of a PBias) *)
Theorem C03_bias_width :
  forall a w c, term_bits (PBias a w c) = if Z.eqb (term_bits a) 16 then 64 else 32.
Proof. reflexivity. Qed.
Print Assumptions C03_bias_width.

(* Non-vacuity: the shipped static a8w8 config is static, the dynamic one is
   dynamic, the weight-only one weight-only; an int8 DEQUANTIZE insertion on a
   constant retypes it to INT8, overwrites its buffer and feeds a float32 tensor *)
Definition ex_static : ocfg :=
  Mk_ocfg (Some (Mk_tcfg 8 false Gr_TENSORWISE Dt_INT 0)) (Some (Mk_tcfg 8 true Gr_CHANNELWISE Dt_INT 0))
          Prec_INTEGER false false.
Definition ex_wo : ocfg :=
  Mk_ocfg None (Some (Mk_tcfg 4 true Gr_CHANNELWISE Dt_INT 0)) Prec_FLOAT true false.
(* "others untouched", over WHOLE performer runs: an original tensor about
   which every instruction of its subgraph is QUIET — the instruction is one
   the performer skips (NO_QUANTIZE) or it names another tensor — comes back
   with the same name, shape, dtype, buffer and annotation (instructions
   re-targeted by the performer name new tensors only).  [ids_ok]: subgraph
   and tensor ids >= 0, decided in Coq on every generated instruction list. *)
Theorem C03_tensor_without_instruction_is_returned_unchanged :
  forall m tis m' k g t,
    nth_opt (m_subgraphs m) k = Some g -> 0 <= t < ntens g ->
    Forall (fun ti => 0 <= ti_sg ti /\ Forall (fun i => 0 <= i_tensor i) (ti_insts ti)) tis ->
    (forall ti i, In ti tis -> ti_sg ti = Z.of_nat k -> In i (ti_insts ti) ->
                  is_insertion (i_trans i) = true -> i_tensor i <> t) ->
    transform_graph m tis = Ok m' ->
    exists g', nth_opt (m_subgraphs m') k = Some g' /\ tensor_at g' t = tensor_at g t.
Proof. exact transform_graph_untouched. Qed.
Print Assumptions C03_tensor_without_instruction_is_returned_unchanged.

(* the positive clause over whole runs: a tensor whose instruction list starts
   with QUANTIZE_TENSOR or ADD_DEQUANTIZE (parameters p) is returned with the
   same name, shape and buffer, the dtype of p's bit width and p's annotation
   (qres), whatever else the run does — provided the rest of its own list
   does not re-quantize it in place with other parameters and no other list of
   its subgraph names it (one instruction list per tensor: names are unique) *)
Theorem C03_quantized_in_place_tensor_gets_selected_dtype :
  forall m pre ti0 post m' k g t x i0 rest p,
    nth_opt (m_subgraphs m) k = Some g -> tensor_at g t = Some x -> 0 <= t ->
    ids_ok (pre ++ ti0 :: post) ->
    never_names k t pre -> never_names k t post ->
    ti_sg ti0 = Z.of_nat k -> ti_insts ti0 = i0 :: rest ->
    i_tensor i0 = t -> (i_trans i0 = Tr_QUANTIZE_TENSOR \/ i_trans i0 = Tr_ADD_DEQUANTIZE) ->
    i_params i0 = Some p -> agree p t rest ->
    transform_graph m (pre ++ ti0 :: post) = Ok m' ->
    exists g' x', nth_opt (m_subgraphs m') k = Some g' /\ tensor_at g' t = Some x' /\ qres p x x'.
Proof. exact transform_graph_quantized_in_place. Qed.
Print Assumptions C03_quantized_in_place_tensor_gets_selected_dtype.

(* ... and it is still read by the same operators at the same operand slots:
   the sequence of ORIGINAL operators (by uid, in graph order) with the
   positions at which each reads t (`readers_profile`) is the same after the
   whole run as before it — no instruction that names another tensor ever
   rewires a reader of t, and inserted operators never read it *)
Theorem C03_readers_of_a_tensor_without_instruction_are_unchanged :
  forall m tis m' k g t,
    nth_opt (m_subgraphs m) k = Some g -> 0 <= t < ntens g ->
    ids_ok tis -> never_names k t tis ->
    transform_graph m tis = Ok m' ->
    exists g', nth_opt (m_subgraphs m') k = Some g' /\ readers_profile t g' = readers_profile t g.
Proof. exact transform_graph_readers_untouched. Qed.
Print Assumptions C03_readers_of_a_tensor_without_instruction_are_unchanged.

(* the same for a tensor that IS named, but only by in-place quantization — every
   weight under dynamic-range / weight-only-without-dequantize recipes, every
   activation between two quantized operators of a full-integer model: it is
   retyped (C03_quantized_in_place_tensor_gets_selected_dtype) and keeps exactly
   its original readers at their original slots *)
Theorem C03_readers_of_a_tensor_quantized_only_in_place_are_unchanged :
  forall m tis m' k g t,
    nth_opt (m_subgraphs m) k = Some g -> 0 <= t < ntens g ->
    ids_ok tis -> only_inplace k t tis ->
    transform_graph m tis = Ok m' ->
    exists g', nth_opt (m_subgraphs m') k = Some g' /\ readers_profile t g' = readers_profile t g.
Proof. exact transform_graph_readers_inplace. Qed.
Print Assumptions C03_readers_of_a_tensor_quantized_only_in_place_are_unchanged.

(* the positive counterpart for an inserted QUANTIZE / DEQUANTIZE, from the step
   to the END of the run: the operators the instruction lists (resolved to
   positions cs through the performer's id map om) read the NEW tensor — id
   `ntens g`, typed by the instruction's parameters (C03_inserted_op_converts_
   between_neighbour_dtypes) — at exactly the operand slots where they read the
   old one, no other original operator reads it (`moved_profile`), and this is
   still so after the remaining instructions of the list and all later lists,
   provided none of them names the new tensor *)
Theorem C03_listed_consumers_read_the_inserted_tensor_until_the_end :
  forall k st i later st1 later1 fuel st2 post st3 g om cs,
    nth_opt (m_subgraphs (ps_model st)) k = Some g ->
    (i_trans i = Tr_ADD_QUANTIZE \/ i_trans i = Tr_ADD_DEQUANTIZE) ->
    0 <= i_tensor i < ntens g -> (forall o, In o (sg_ops g) -> ~ In (ntens g) (o_ins o)) ->
    py_index (ps_orig st) (Z.of_nat k) = Ok om ->
    mapM (fun c => if Z.eqb c (-1) then Ok (-1) else py_index om c) (i_consumers i) = Ok cs ->
    Forall (fun c => c = -1 \/ 0 <= c) cs ->
    apply_single st (Z.of_nat k) i later = Ok (st1, later1) ->
    Forall (fun j => 0 <= i_tensor j) later1 -> Forall (quiet (ntens g)) later1 ->
    apply_insts st1 (Z.of_nat k) later1 fuel = Ok st2 ->
    ids_ok post -> never_names k (ntens g) post -> run_all post st2 = Ok st3 ->
    exists g3, nth_opt (m_subgraphs (ps_model st3)) k = Some g3 /\
               readers_profile (ntens g) g3 = moved_profile (i_tensor i) cs g.
Proof. exact inserted_tensor_readers. Qed.
Print Assumptions C03_listed_consumers_read_the_inserted_tensor_until_the_end.

(* ... and in terms of the INPUT model, for the commonest shape of a static
   plan (the tensor's list is one inserted QUANTIZE or DEQUANTIZE — a float
   graph input feeding quantized operators, a quantized constant feeding float
   ones): after the WHOLE run the j-th original operator reads the new tensor
   at exactly the operand slots where it read t in the input model iff the
   instruction lists j, and no other original operator reads it.  The
   performer's id maps are identified with the original operators through the
   skeleton invariant; hypotheses: well-formed input, uids of original ops
   distinct from the inserted marker, sane instructions (what the generator
   emits, Proofs/InstsSane.v), nothing before names t. *)
Theorem C03_single_insertion_is_read_by_exactly_the_listed_operators :
  forall m0 pre ti0 post m' k g0 i0,
    Forall wf_sg (m_subgraphs m0) -> uids_ok m0 ->
    (forall ti i, In ti (pre ++ ti0 :: post) -> In i (ti_insts ti) -> sane m0 (ti_sg ti) i) ->
    ids_ok (pre ++ ti0 :: post) ->
    nth_opt (m_subgraphs m0) k = Some g0 ->
    ti_sg ti0 = Z.of_nat k -> ti_insts ti0 = [i0] ->
    (i_trans i0 = Tr_ADD_QUANTIZE \/ i_trans i0 = Tr_ADD_DEQUANTIZE) ->
    Forall (fun c => -1 <= c) (i_consumers i0) ->
    never_names k (i_tensor i0) pre ->
    (forall t0, tensor_at g0 (i_tensor i0) = Some t0 -> 0 <= t_buf t0) ->
    transform_graph m0 (pre ++ ti0 :: post) = Ok m' ->
    exists x' g' tn, nth_opt (m_subgraphs m') k = Some g' /\ ntens g0 <= x' /\
                  readers_profile x' g' = moved_profile (i_tensor i0) (i_consumers i0) g0 /\
                  (* ... and that tensor has the dtype / annotation the instruction's
                     parameters select (QUANTIZE) or is float32 (DEQUANTIZE) *)
                  tensor_at g' x' = Some tn /\
                  new_tensor_type (qtrans_eqb (i_trans i0) Tr_ADD_QUANTIZE) (i_params i0) tn.
Proof. exact single_insertion_readers. Qed.
Print Assumptions C03_single_insertion_is_read_by_exactly_the_listed_operators.

(* ... and the same when the insertion comes after in-place quantizations of the
   same tensor: [QUANTIZE_TENSOR p; ADD_DEQUANTIZE p for the graph output] — every
   OUTPUT of a full-integer model —, [QUANTIZE_TENSOR p1; ADD_QUANTIZE p2] — a
   REQUANTIZATION between two quantized operators —, [QUANTIZE_TENSOR p;
   ADD_DEQUANTIZE p for the float readers] — a quantized producer with float
   consumers.  With the in-place theorems above this covers every instruction
   shape the generator emits for the shipped full-integer recipes except
   several insertions on one tensor. *)
Theorem C03_insertion_after_in_place_quantization_is_read_by_exactly_the_listed_operators :
  forall m0 pre ti0 post m' k g0 qs i0,
    Forall wf_sg (m_subgraphs m0) -> uids_ok m0 ->
    (forall ti i, In ti (pre ++ ti0 :: post) -> In i (ti_insts ti) -> sane m0 (ti_sg ti) i) ->
    ids_ok (pre ++ ti0 :: post) ->
    nth_opt (m_subgraphs m0) k = Some g0 ->
    ti_sg ti0 = Z.of_nat k -> ti_insts ti0 = qs ++ [i0] ->
    Forall (fun q => i_trans q = Tr_QUANTIZE_TENSOR) qs ->
    (i_trans i0 = Tr_ADD_QUANTIZE \/ i_trans i0 = Tr_ADD_DEQUANTIZE) ->
    Forall (fun c => -1 <= c) (i_consumers i0) ->
    never_names k (i_tensor i0) pre ->
    (forall t0, tensor_at g0 (i_tensor i0) = Some t0 -> 0 <= t_buf t0) ->
    transform_graph m0 (pre ++ ti0 :: post) = Ok m' ->
    exists x' g' tn, nth_opt (m_subgraphs m') k = Some g' /\ ntens g0 <= x' /\
                  readers_profile x' g' = moved_profile (i_tensor i0) (i_consumers i0) g0 /\
                  tensor_at g' x' = Some tn /\
                  new_tensor_type (qtrans_eqb (i_trans i0) Tr_ADD_QUANTIZE) (i_params i0) tn.
Proof. exact insertion_after_inplace_readers. Qed.
Print Assumptions C03_insertion_after_in_place_quantization_is_read_by_exactly_the_listed_operators.

(* ... and, for the readers, with ANY earlier instructions in the tensor's list that
   do not list a consumer of the insertion in question (`step_ok`: in-place
   quantizations, and insertions whose consumer lists are disjoint from i0's —
   a tensor feeding int8 and int16 operators gets one QUANTIZE per parameter set):
   i0 is then never re-targeted, and its new tensor is read by exactly the
   original operators it lists, at the slots where they read t in the input
   model.  What is left unproved is only an insertion that IS re-targeted onto
   the result of an earlier one (overlapping consumer lists). *)
Theorem C03_insertion_that_is_not_retargeted_is_read_by_exactly_the_listed_operators :
  forall m0 pre ti0 post m' k g0 steps i0,
    Forall wf_sg (m_subgraphs m0) -> uids_ok m0 ->
    (forall ti i, In ti (pre ++ ti0 :: post) -> In i (ti_insts ti) -> sane m0 (ti_sg ti) i) ->
    ids_ok (pre ++ ti0 :: post) ->
    nth_opt (m_subgraphs m0) k = Some g0 ->
    ti_sg ti0 = Z.of_nat k -> ti_insts ti0 = steps ++ [i0] ->
    Forall (step_ok (i_consumers i0)) steps ->
    (i_trans i0 = Tr_ADD_QUANTIZE \/ i_trans i0 = Tr_ADD_DEQUANTIZE) ->
    Forall (fun c => -1 <= c) (i_consumers i0) ->
    never_names k (i_tensor i0) pre ->
    transform_graph m0 (pre ++ ti0 :: post) = Ok m' ->
    exists x' g', nth_opt (m_subgraphs m') k = Some g' /\ ntens g0 <= x' /\
                  readers_profile x' g' = moved_profile (i_tensor i0) (i_consumers i0) g0.
Proof. exact insertion_after_steps_readers. Qed.
Print Assumptions C03_insertion_that_is_not_retargeted_is_read_by_exactly_the_listed_operators.

(* RE-TARGETING included.  An earlier insertion on the same tensor that lists ALL
   consumers of the last instruction re-targets it onto its own result
   (update_instructions; horizontal grouping produces exactly such nests: a group
   at depth d+1 lies inside one group at depth d).  For every list in which each
   earlier instruction is in place, or lists none of the last instruction's
   consumers, or lists all of them (`ok_list`), the LAST instruction's new tensor
   is read, after the whole run, by exactly the original operators it lists, at
   the operand slots where they read t in the input model — although the tensor
   the instruction names changes along the run.  (Only consumer lists that
   overlap partially are outside this statement; the generator cannot emit
   them — checked by correspondence T, not proved.) *)
Theorem C03_last_instruction_of_a_nested_list_is_read_by_exactly_the_listed_operators :
  forall m0 pre ti0 post m' k g0 steps i0,
    Forall wf_sg (m_subgraphs m0) -> uids_ok m0 ->
    (forall ti i, In ti (pre ++ ti0 :: post) -> In i (ti_insts ti) -> sane m0 (ti_sg ti) i) ->
    ids_ok (pre ++ ti0 :: post) ->
    nth_opt (m_subgraphs m0) k = Some g0 ->
    ti_sg ti0 = Z.of_nat k -> ti_insts ti0 = steps ++ [i0] ->
    ok_list (i_consumers i0) steps -> (forall s, In s steps -> i_tensor s = i_tensor i0) ->
    (i_trans i0 = Tr_ADD_QUANTIZE \/ i_trans i0 = Tr_ADD_DEQUANTIZE) ->
    Forall (fun c => -1 <= c) (i_consumers i0) ->
    never_names k (i_tensor i0) pre ->
    transform_graph m0 (pre ++ ti0 :: post) = Ok m' ->
    exists x' g', nth_opt (m_subgraphs m') k = Some g' /\ ntens g0 <= x' /\
                  readers_profile x' g' = moved_profile (i_tensor i0) (i_consumers i0) g0.
Proof. exact last_instruction_readers. Qed.
Print Assumptions C03_last_instruction_of_a_nested_list_is_read_by_exactly_the_listed_operators.

(* The same theorem with the GENERATOR in front and every remaining hypothesis
   DECIDED: the instructions are those `insts_of_params` emits for some plan
   (their sanity — tensor ids in range, producer exact — is then a theorem,
   Proofs/InstsSane.v), and `last_hypb m0 tis n` (Spec/LastOk.v, executable,
   proved sound in Proofs/LastOkSound.v) decides the nest shape of list n, the
   common tensor, the kind and consumer ids of its last instruction, the
   absence of earlier insertions on the tensor and the id ranges.  The
   correspondence harness evaluates `last_hypb` in Coq on EVERY instruction
   list the model generates from the library's own plans and reports how many
   lists that end with an insertion meet it (evidence: coverage of C03). *)
Theorem C03_generated_last_instruction_is_read_by_exactly_the_listed_operators :
  forall m0 ps tis n m',
    Forall wf_sg (m_subgraphs m0) -> uids_ok m0 ->
    insts_of_params m0 ps = Ok tis ->
    last_hypb m0 tis n = true ->
    transform_graph m0 tis = Ok m' ->
    exists pre ti0 post steps i0 k g0,
      tis = pre ++ ti0 :: post /\ length pre = n /\ ti_insts ti0 = steps ++ [i0] /\
      ti_sg ti0 = Z.of_nat k /\ nth_opt (m_subgraphs m0) k = Some g0 /\
      exists x' g', nth_opt (m_subgraphs m') k = Some g' /\ ntens g0 <= x' /\
                    readers_profile x' g' = moved_profile (i_tensor i0) (i_consumers i0) g0.
Proof. exact last_instruction_readers_checked. Qed.
Print Assumptions C03_generated_last_instruction_is_read_by_exactly_the_listed_operators.

(* Lists that also hold NO_QUANTIZE instructions (a float reader beside
   quantized readers of the same tensor): the performer skips them, so the run
   equals the run on the lists with those instructions dropped
   (`transform_graph_strip`, Proofs/LastOkSound.v), and the hypotheses are
   decided on the dropped form `map strip tis`. *)
Theorem C03_generated_last_instruction_is_read_by_exactly_the_listed_operators_skipping_no_quantize :
  forall m0 ps tis n m',
    Forall wf_sg (m_subgraphs m0) -> uids_ok m0 ->
    insts_of_params m0 ps = Ok tis ->
    last_hypb m0 (map strip tis) n = true ->
    transform_graph m0 tis = Ok m' ->
    exists pre ti0 post steps i0 k g0,
      map strip tis = pre ++ ti0 :: post /\ length pre = n /\ ti_insts ti0 = steps ++ [i0] /\
      ti_sg ti0 = Z.of_nat k /\ nth_opt (m_subgraphs m0) k = Some g0 /\
      exists x' g', nth_opt (m_subgraphs m') k = Some g' /\ ntens g0 <= x' /\
                    readers_profile x' g' = moved_profile (i_tensor i0) (i_consumers i0) g0.
Proof. exact last_instruction_readers_checked_skipping. Qed.
Print Assumptions C03_generated_last_instruction_is_read_by_exactly_the_listed_operators_skipping_no_quantize.

(* ... and for the whole pipeline `plan_checked ; insts_of_params ;
   transform_graph` (the function correspondence E2 compares with the bytes
   quantize() returns): for every recipe state, statistics and parameter
   classification, when the pipeline returns (m', plans) the instruction lists
   it went through are those generated from `plans`, and every one of them
   that meets the decided hypotheses has its last inserted tensor read by
   exactly the listed original operators of the INPUT model. *)
Theorem C03_pipeline_last_instructions_are_read_by_exactly_the_listed_operators :
  forall mk_cls matches rules scope_id m scopes stats m' plans,
    Forall wf_sg (m_subgraphs m) -> uids_ok m ->
    pipeline_cls mk_cls matches rules scope_id m scopes stats = Ok (m', plans) ->
    exists tis,
      insts_of_params m (map (to_ttp (mk_cls (terms_of plans))) plans) = Ok tis /\
      transform_graph m tis = Ok m' /\
      forall n, last_hypb m (map strip tis) n = true ->
        exists pre ti0 post steps i0 k g0,
          map strip tis = pre ++ ti0 :: post /\ length pre = n /\ ti_insts ti0 = steps ++ [i0] /\
          ti_sg ti0 = Z.of_nat k /\ nth_opt (m_subgraphs m) k = Some g0 /\
          exists x' g', nth_opt (m_subgraphs m') k = Some g' /\ ntens g0 <= x' /\
                        readers_profile x' g' = moved_profile (i_tensor i0) (i_consumers i0) g0.
Proof.
  intros mk_cls matches rules scope_id m scopes stats m' plans Hwf Hu H. unfold pipeline_cls in H.
  destruct (plan_checked_cls mk_cls matches rules scope_id m scopes stats) as [r|]; cbn [bind] in H; [|discriminate].
  match type of H with (tis <- ?x ;; _) = _ => destruct x as [tis|] eqn:Ei end; cbn [bind] in H; [|discriminate].
  destruct (transform_graph m tis) as [m2|] eqn:Et; cbn [bind] in H; [|discriminate].
  inversion H; subst. exists tis. split; [exact Ei|]. split; [exact Et|].
  intros n Hn. exact (last_instruction_readers_checked_skipping m _ tis n m' Hwf Hu Ei Hn Et).
Qed.
Print Assumptions C03_pipeline_last_instructions_are_read_by_exactly_the_listed_operators.

(* the performer never acts on a NO_QUANTIZE instruction: dropping them from
   every list leaves the whole run unchanged *)
Theorem C03_no_quantize_instructions_are_inert :
  forall m tis, transform_graph m (map strip tis) = transform_graph m tis.
Proof. exact transform_graph_strip. Qed.
Print Assumptions C03_no_quantize_instructions_are_inert.

(* non-vacuity of the nest: [ADD_QUANTIZE for ops 0 and 1; ADD_DEQUANTIZE for op 1]
   on the input of two readers: the second instruction is re-targeted onto tensor 3,
   its own new tensor 4 is read by operator 1 only *)
Example C03_nested_list_nonvacuous :
  let p := Some {| qp_id := 5; qp_uniform := true; qp_bits := 8; qp_has_data := false |} in
  let tf r := {| t_root := r; t_sfx := []; t_shape := 0; t_ty := TY_FLOAT32; t_buf := 0; t_q := None |} in
  let m := {| m_subgraphs := [{| sg_tensors := [tf 0; tf 1; tf 2];
                                 sg_ops := [{| o_code := 0; o_ins := [0]; o_outs := [1]; o_uid := 0 |};
                                            {| o_code := 0; o_ins := [0]; o_outs := [2]; o_uid := 1 |}];
                                 sg_inputs := [0]; sg_outputs := [1; 2] |}];
              m_buffers := [BEmpty]; m_opcodes := [0]; m_sigs := [] |} in
  let s := {| i_trans := Tr_ADD_QUANTIZE; i_tensor := 0; i_producer := -1; i_consumers := [0; 1]; i_params := p |} in
  let i0 := {| i_trans := Tr_ADD_DEQUANTIZE; i_tensor := 0; i_producer := -1; i_consumers := [1]; i_params := p |} in
  ok_list (i_consumers i0) [s] /\
  match transform_graph m [{| ti_name := (0, []); ti_sg := 0; ti_insts := [s; i0] |}] with
  | Ok m' => option_map (readers_profile 4) (nth_opt (m_subgraphs m') 0) = Some [(0, [false]); (1, [true])] /\
             option_map (moved_profile 0 [1]) (nth_opt (m_subgraphs m) 0) = Some [(0, [false]); (1, [true])]
  | Err _ => False end.
Proof.
  split.
  - cbn [ok_list]. split; [|split; [|exact I]].
    + split; [cbn; lia|]. split; [repeat constructor; cbn; lia|]. right. split; [left; reflexivity|].
      right. split; [discriminate|]. intros c [<-|[]]. reflexivity.
    + intros _ s2 [].
  - vm_compute. split; reflexivity.
Qed.

(* the decided hypotheses hold on that run (list 0 of the run) *)
Example C03_last_hypb_nonvacuous :
  let p := Some {| qp_id := 5; qp_uniform := true; qp_bits := 8; qp_has_data := false |} in
  let tf r := {| t_root := r; t_sfx := []; t_shape := 0; t_ty := TY_FLOAT32; t_buf := 0; t_q := None |} in
  let m := {| m_subgraphs := [{| sg_tensors := [tf 0; tf 1; tf 2];
                                 sg_ops := [{| o_code := 0; o_ins := [0]; o_outs := [1]; o_uid := 0 |};
                                            {| o_code := 0; o_ins := [0]; o_outs := [2]; o_uid := 1 |}];
                                 sg_inputs := [0]; sg_outputs := [1; 2] |}];
              m_buffers := [BEmpty]; m_opcodes := [0]; m_sigs := [] |} in
  let s := {| i_trans := Tr_ADD_QUANTIZE; i_tensor := 0; i_producer := -1; i_consumers := [0; 1]; i_params := p |} in
  let i0 := {| i_trans := Tr_ADD_DEQUANTIZE; i_tensor := 0; i_producer := -1; i_consumers := [1]; i_params := p |} in
  last_hypb m [{| ti_name := (0, []); ti_sg := 0; ti_insts := [s; i0] |}] 0 = true.
Proof. vm_compute. reflexivity. Qed.


(* non-vacuity: QUANTIZE inserted on the graph input of x --op--> y for consumer
   0: the new tensor 2 is read by the operator with uid 0 at slot 0 *)
Example C03_inserted_readers_nonvacuous :
  let i := {| i_trans := Tr_ADD_QUANTIZE; i_tensor := 0; i_producer := -1; i_consumers := [0];
              i_params := Some {| qp_id := 5; qp_uniform := true; qp_bits := 8; qp_has_data := false |} |} in
  let m := {| m_subgraphs := [{| sg_tensors := [{| t_root := 0; t_sfx := []; t_shape := 0; t_ty := TY_FLOAT32; t_buf := 0; t_q := None |};
                                                {| t_root := 1; t_sfx := []; t_shape := 0; t_ty := TY_FLOAT32; t_buf := 0; t_q := None |}];
                                 sg_ops := [{| o_code := 0; o_ins := [0]; o_outs := [1]; o_uid := 0 |}];
                                 sg_inputs := [0]; sg_outputs := [1] |}];
              m_buffers := [BEmpty]; m_opcodes := [0]; m_sigs := [] |} in
  match apply_single (init_pstate m) 0 i [] with
  | Ok (st1, later1) =>
      later1 = [] /\
      option_map (readers_profile 2) (nth_opt (m_subgraphs (ps_model st1)) 0) = Some [(0, [true])] /\
      option_map (moved_profile 0 [0]) (nth_opt (m_subgraphs m) 0) = Some [(0, [true])] /\
      option_map (fun g => map (fun t => (t_ty t, t_q t)) (sg_tensors g)) (nth_opt (m_subgraphs (ps_model st1)) 0)
        = Some [(TY_FLOAT32, None); (TY_FLOAT32, None); (TY_INT8, Some 5)]
  | Err _ => False end.
Proof. vm_compute. repeat split; reflexivity. Qed.

(* non-vacuity of the two whole-run clauses: x --op--> y; y's list is
   [QUANTIZE_TENSOR p; ADD_DEQUANTIZE p for the graph output]: y comes back
   int8 with p's annotation, x comes back untouched *)
Definition wr_t (r : Z) : tensor :=
  {| t_root := r; t_sfx := []; t_shape := 0; t_ty := TY_FLOAT32; t_buf := 0; t_q := None |}.
Definition wr_m : model :=
  {| m_subgraphs := [{| sg_tensors := [wr_t 0; wr_t 1];
                        sg_ops := [{| o_code := 0; o_ins := [0]; o_outs := [1]; o_uid := 0 |}];
                        sg_inputs := [0]; sg_outputs := [1] |}];
     m_buffers := [BEmpty]; m_opcodes := [0]; m_sigs := [] |}.
Definition wr_p : qparam := {| qp_id := 5; qp_uniform := true; qp_bits := 8; qp_has_data := false |}.
Definition wr_tis : list tinsts :=
  [{| ti_name := (1, []); ti_sg := 0;
      ti_insts := [{| i_trans := Tr_QUANTIZE_TENSOR; i_tensor := 1; i_producer := 0; i_consumers := [-1];
                      i_params := Some wr_p |};
                   {| i_trans := Tr_ADD_DEQUANTIZE; i_tensor := 1; i_producer := 0; i_consumers := [-1];
                      i_params := Some wr_p |}] |}].
Example C03_whole_run_nonvacuous :
  match transform_graph wr_m wr_tis with
  | Ok m' => option_map (fun g => map (fun t => (t_ty t, t_q t)) (sg_tensors g)) (nth_opt (m_subgraphs m') 0)
             = Some [(TY_FLOAT32, None); (TY_INT8, Some 5); (TY_FLOAT32, None)]
  | Err _ => False end /\
  ids_ok ([] ++ wr_tis) /\ never_names 0 0 wr_tis /\
  match transform_graph wr_m wr_tis with
  | Ok m' => option_map (readers_profile 0) (nth_opt (m_subgraphs m') 0) = Some [(0, [true])]
  | Err _ => False end.
Proof.
  split; [vm_compute; reflexivity|]. split; [|split; [|vm_compute; reflexivity]].
  - repeat constructor; cbn; lia.
  - intros ti i [<-|[]] _ [<-|[<-|[]]] _; cbn; lia.
Qed.

(* (e) the instruction generator loses no consumer: for EVERY plan entry of a
   tensor, every consumer c and every position d of c's transformation chain,
   the emitted list holds an instruction that lists c's operator and carries
   c's transformation at d with c's parameters (`carries`) — or, at position 0
   only and only against a producer whose last transformation is
   ADD_DEQUANTIZE, its documented vertical rewrite (`rewritten`:
   DEQUANTIZE;QUANTIZE with equal parameters -> the tensor stays quantized,
   DEQUANTIZE;NO_QUANTIZE -> one DEQUANTIZE with the producer's parameters).
   Grouping (horizontal optimisation) therefore never merges a consumer into
   a group whose instruction differs from what the plan gave that consumer. *)
Theorem C03_every_consumer_gets_its_planned_transformations :
  forall im p ti cs k c d t,
    quant_params_to_insts im p = Ok ti ->
    ttp_consumers p = Some cs -> nth_opt cs k = Some c -> nth_opt (o2t_trans c) d = Some t ->
    exists i, In i (ti_insts ti) /\
      ( carries c t i
        \/ (d = 0%nat /\ exists info pr, lookup_info im (ttp_name p) = Ok info /\
              last_producer info p = Some pr /\ rewritten pr c t i) ).
Proof. exact insts_cover_consumers. Qed.
Print Assumptions C03_every_consumer_gets_its_planned_transformations.

(* (f) ... and invents nothing: every emitted instruction is one of the
   producer's (its consumer list a sub-list of the tensor's readers), or
   lists only operators whose plan entry holds exactly that transformation
   with those parameters at one position d (`as_planned`), or — against an
   ADD_DEQUANTIZE producer — is the rewrite of what those operators asked for
   at position 0 (`rewrite_of`: "keep the tensor quantized with the producer's
   parameters" for readers that planned ADD_QUANTIZE, "one DEQUANTIZE with the
   producer's parameters" for readers that planned NO_QUANTIZE). *)
Theorem C03_generator_invents_no_instruction :
  forall im p ti i,
    quant_params_to_insts im p = Ok ti -> In i (ti_insts ti) ->
    exists info, lookup_info im (ttp_name p) = Ok info /\
    ( (exists pp, ttp_producer p = Some pp /\ In (i_trans i) (o2t_trans pp) /\
                  i_params i = o2t_params pp /\ incl (i_consumers i) (gi_consumers info))
      \/ (exists d, as_planned (consumers_list p) d i)
      \/ (exists pr, last_producer info p = Some pr /\ rewrite_of (consumers_list p) pr i) ).
Proof. exact insts_exact. Qed.
Print Assumptions C03_generator_invents_no_instruction.

(* (g) horizontal grouping produces NESTS: at every depth the groups of consumer
   indices are pairwise disjoint and repetition-free (`NoDup (flat lv)`), and
   every group of depth d+1 lies inside one group of depth d (`nested_in`) — for
   every plan entry.  This is the shape of consumer lists the performer's
   re-targeting theorem (C03_last_instruction_of_a_nested_list_...) assumes. *)
Theorem C03_horizontal_grouping_produces_nests :
  forall p groups,
    group_consumer_transformations p = Ok groups ->
    forall j lv, nth_opt groups j = Some lv ->
      NoDup (flat lv) /\ forall lv', nth_opt groups (S j) = Some lv' -> nested_in lv lv'.
Proof. exact groups_are_nests. Qed.
Print Assumptions C03_horizontal_grouping_produces_nests.

(* From groups to LISTS (Proofs/GroupLists.v): any two groups at any two depths
   are nested or disjoint; every consumer-side instruction the generator builds
   for a plan entry (vertical candidates and the instructions of depth >= 2,
   before the vertical rewrites, which keep each rule's consumer list) lists
   exactly the operators of ONE group; so, when distinct consumer entries name
   distinct operators (`inj_ops`), the consumer lists of two such instructions
   are nested or disjoint — the shape `ok_list` asks for. *)
Theorem C03_groups_at_any_depths_are_nested_or_disjoint :
  forall p groups, group_consumer_transformations p = Ok groups ->
  forall d d' lv lv' g g', (d <= d')%nat ->
    nth_opt groups d = Some lv -> nth_opt groups d' = Some lv' -> In g lv -> In g' lv' ->
    incl g' g \/ (forall x, In x g' -> ~ In x g).
Proof. exact groups_nested_or_disjoint. Qed.
Print Assumptions C03_groups_at_any_depths_are_nested_or_disjoint.

Theorem C03_consumer_side_instructions_list_one_group_each :
  forall p info groups vert others,
    group_consumer_transformations p = Ok groups ->
    vertical_candidates groups p info = Ok vert ->
    other_consumer_insts groups p info = Ok others ->
    Forall (from_group (consumers_list p) groups) (vert ++ others).
Proof. exact consumer_side_instructions_list_groups. Qed.
Print Assumptions C03_consumer_side_instructions_list_one_group_each.

Theorem C03_consumer_lists_of_two_groups_are_nested_or_disjoint :
  forall p groups i1 i2 d d' lv lv' g g',
    group_consumer_transformations p = Ok groups -> inj_ops (consumers_list p) -> (d <= d')%nat ->
    nth_opt groups d = Some lv -> nth_opt groups d' = Some lv' -> In g lv -> In g' lv' ->
    op_image (consumers_list p) g (i_consumers i1) -> op_image (consumers_list p) g' (i_consumers i2) ->
    incl (i_consumers i2) (i_consumers i1) \/ (forall c, In c (i_consumers i2) -> ~ In c (i_consumers i1)).
Proof. exact consumer_lists_nested_or_disjoint. Qed.
Print Assumptions C03_consumer_lists_of_two_groups_are_nested_or_disjoint.

(* ORDER (Proofs/GroupOrder.v): the consumer-side instructions of a plan entry
   are emitted by non-decreasing depth (vertical candidates = depth 1, then
   depth 2, 3, ...); so of any two of them the LATER one's consumer list lies
   inside the EARLIER one's or is disjoint from it. *)
Theorem C03_consumer_side_instructions_are_emitted_by_depth :
  forall p info groups vert others,
    vertical_candidates groups p info = Ok vert -> other_consumer_insts groups p info = Ok others ->
    exists tags, Forall2 (at_depth (consumers_list p) groups) tags (vert ++ others) /\
                 Sorted.StronglySorted le tags.
Proof. exact consumer_side_depth_sorted. Qed.
Print Assumptions C03_consumer_side_instructions_are_emitted_by_depth.

Theorem C03_later_consumer_list_is_inside_or_disjoint_from_an_earlier_one :
  forall p info groups vert others l1 a l2 b l3,
    group_consumer_transformations p = Ok groups -> inj_ops (consumers_list p) ->
    vertical_candidates groups p info = Ok vert -> other_consumer_insts groups p info = Ok others ->
    vert ++ others = l1 ++ a :: l2 ++ b :: l3 ->
    incl (i_consumers b) (i_consumers a) \/ (forall c, In c (i_consumers b) -> ~ In c (i_consumers a)).
Proof. exact later_consumer_list_inside_or_disjoint. Qed.
Print Assumptions C03_later_consumer_list_is_inside_or_disjoint_from_an_earlier_one.

(* `inj_ops` is decidable: it holds when no operator id occurs twice among the
   plan entry's consumer entries *)
Theorem C03_distinct_consumer_operators_decided :
  forall cs, inj_opsb cs = true -> inj_ops cs.
Proof. exact inj_opsb_sound. Qed.
Print Assumptions C03_distinct_consumer_operators_decided.

(* non-vacuity: a quantized producer (DEQUANTIZE with A) read by
   op 3 (QUANTIZE with A), ops 4 and 6 (QUANTIZE with B, then DEQUANTIZE) and
   op 5 (float): all three rewrites fire and ops 4, 6 are merged *)
Definition cov_pA : qparam := {| qp_id := 1; qp_uniform := true; qp_bits := 8; qp_has_data := false |}.
Definition cov_pB : qparam := {| qp_id := 2; qp_uniform := true; qp_bits := 8; qp_has_data := false |}.
Definition cov_im : list ((Z * list Z) * tinfo) :=
  [((7, []), {| gi_tensor := 2; gi_sg := 0; gi_producer := 1; gi_consumers := [3; 4; 5; 6] |})].
Definition cov_p : ttp :=
  {| ttp_name := (7, []);
     ttp_producer := Some {| o2t_op := 1; o2t_trans := [Tr_ADD_DEQUANTIZE]; o2t_params := Some cov_pA |};
     ttp_consumers := Some [ {| o2t_op := 3; o2t_trans := [Tr_ADD_QUANTIZE]; o2t_params := Some cov_pA |};
                             {| o2t_op := 4; o2t_trans := [Tr_ADD_QUANTIZE; Tr_ADD_DEQUANTIZE]; o2t_params := Some cov_pB |};
                             {| o2t_op := 5; o2t_trans := [Tr_NO_QUANTIZE]; o2t_params := None |};
                             {| o2t_op := 6; o2t_trans := [Tr_ADD_QUANTIZE; Tr_ADD_DEQUANTIZE]; o2t_params := Some cov_pB |} ] |}.
Example C03_cover_nonvacuous :
  match quant_params_to_insts cov_im cov_p with
  | Ok ti => map (fun i => (qtrans_code (i_trans i), i_consumers i, option_map qp_id (i_params i))) (ti_insts ti)
             = [ (qtrans_code Tr_QUANTIZE_TENSOR, [3], Some 1);
                 (qtrans_code Tr_QUANTIZE_TENSOR, [4; 6], Some 1);
                 (qtrans_code Tr_ADD_QUANTIZE, [4; 6], Some 2);
                 (qtrans_code Tr_ADD_DEQUANTIZE, [5], Some 1);
                 (qtrans_code Tr_ADD_DEQUANTIZE, [4; 6], Some 2) ]
  | Err _ => False end.
Proof. vm_compute. reflexivity. Qed.

Example C03_nonvacuous :
  In ex_static policy_all_configs /\ In ex_wo policy_all_configs /\
  expected_trans ex_static true false = [Tr_ADD_QUANTIZE] /\
  expected_trans ex_wo true true = [Tr_ADD_DEQUANTIZE] /\
  match insert_common false [9] [BEmpty; BEmpty; BOrig 2; BEmpty]
          {| sg_tensors := [ {| t_root := 0; t_sfx := []; t_shape := 2; t_ty := TY_FLOAT32; t_buf := 1; t_q := None |};
                             {| t_root := 1; t_sfx := []; t_shape := 2; t_ty := TY_FLOAT32; t_buf := 2; t_q := None |};
                             {| t_root := 2; t_sfx := []; t_shape := 2; t_ty := TY_FLOAT32; t_buf := 3; t_q := None |} ];
             sg_ops := [{| o_code := 0; o_ins := [0; 1]; o_outs := [2]; o_uid := 0 |}];
             sg_inputs := [0]; sg_outputs := [2] |} 1 (-1) [0]
          (Some {| qp_id := 7; qp_uniform := true; qp_bits := 8; qp_has_data := true |}) with
  | Ok (_, bufs', g', _) =>
      map t_ty (sg_tensors g') = [TY_FLOAT32; TY_INT8; TY_FLOAT32; TY_FLOAT32] /\
      bufs' = [BEmpty; BEmpty; BQuant 7; BEmpty] /\
      map o_ins (sg_ops g') = [[1]; [0; 3]]
  | Err _ => False
  end.
Proof. vm_compute. repeat split; auto 20. Qed.
