(* Props/C01.v — quantize() returns a well-formed model or raises. *)
From VF Require Import Base.Prelude Gen.Enums Gen.Configs Gen.Scopes Model.Recipe Model.Check
     Model.Graph Gen.InstChecks Model.Insts Model.Perform Model.Plan Model.Pipeline Spec.WF Spec.WFb
     Proofs.ListFacts Proofs.PerformStep Proofs.PerformInv Proofs.InstsSane Proofs.RangeInv Proofs.NameInv.

(* Local heart of C01, for ALL subgraphs, tensors, consumer lists, parameters:
   one insertion (QUANTIZE or DEQUANTIZE op + new tensor + rewiring + graph
   output rewiring) applied to a well-formed subgraph yields a well-formed
   subgraph (indices in range, at most one producer per tensor, every
   producer earlier than its readers, graph I/O in range), provided the
   producer argument is the position of the tensor's producer (or -1 when it
   has none), which is what the performer's op-id maps maintain. *)
Theorem C01_insertion_preserves_wf :
  forall is_quant codes bufs g tid producer consumers ps codes' bufs' g' info,
    wf_sg g -> 0 <= tid ->
    -1 <= producer < lenZ (sg_ops g) ->
    (forall k o, op_at g k o -> writes o tid -> Z.of_nat k <= producer) ->
    (forall k o, op_at g k o -> reads o tid -> producer < Z.of_nat k) ->
    Forall (fun c => c = -1 \/ 0 <= c) consumers ->
    insert_common is_quant codes bufs g tid producer consumers ps
      = Ok (codes', bufs', g', info) ->
    wf_sg g'.
Proof. intros. eapply insert_common_wf; eassumption. Qed.
Print Assumptions C01_insertion_preserves_wf.

(* In-place quantization of a tensor never touches the graph structure. *)
Theorem C01_quantize_tensor_preserves_wf :
  forall bufs g tid ps bufs' g',
    quantize_tensor bufs g tid ps = Ok (bufs', g') -> wf_sg g -> wf_sg g'.
Proof. exact quantize_tensor_wf. Qed.
Print Assumptions C01_quantize_tensor_preserves_wf.

(* The inserted op lands strictly after the producer and not after any
   rewired reader; the new tensor gets the next free index. *)
Theorem C01_insertion_position :
  forall is_quant codes bufs g tid producer consumers ps codes' bufs' g' info,
    wf_sg g -> 0 <= tid -> -1 <= producer < lenZ (sg_ops g) ->
    Forall (fun c => c = -1 \/ 0 <= c) consumers ->
    insert_common is_quant codes bufs g tid producer consumers ps
      = Ok (codes', bufs', g', info) ->
    ntens g' = ntens g + 1 /\ to_tensor info = ntens g /\ to_added info = 1 /\
    producer < to_op_id info <= lenZ (sg_ops g).
Proof.
  intros until info. intros Hwf Ht Hp Hc Hr.
  destruct (insert_common_facts is_quant codes bufs g tid producer consumers ps
              codes' bufs' g' info Ht Hp Hc Hr)
    as (ops2 & first & A & B & C & D & _ & _ & E & _).
  repeat split; try assumption; lia.
Qed.
Print Assumptions C01_insertion_position.

(* COMPOSITION.  The performer keeps, as a global invariant over ALL its
   steps, that the two op-id maps resolve every pending instruction's producer
   reference to the actual position of the op writing the instruction's
   tensor (Proofs/PerformInv.v: ginv, preserved by apply_single for in-place
   quantization, insertion, map shifting and instruction retargeting).  Hence
   for ANY model whose subgraphs are well formed and ANY instruction lists
   whose producer fields are exact w.r.t. the input graph, the transformed
   model's subgraphs are well formed: indices in range, one producer per
   tensor, every producer earlier than its readers, graph I/O in range. *)
Theorem C01_transform_graph_preserves_wellformedness :
  forall m tis m',
    Forall wf_sg (m_subgraphs m) ->
    (forall ti i, In ti tis -> In i (ti_insts ti) -> sane m (ti_sg ti) i) ->
    transform_graph m tis = Ok m' ->
    Forall wf_sg (m_subgraphs m').
Proof. exact transform_graph_wf. Qed.
Print Assumptions C01_transform_graph_preserves_wellformedness.

(* ... and every instruction the instruction-generator model emits is exact in
   that sense, whatever the plan (Proofs/InstsSane.v): so the generator and the
   performer compose *)
Theorem C01_generated_instructions_are_exact :
  forall m ps tis,
    insts_of_params m ps = Ok tis ->
    forall ti i, In ti tis -> In i (ti_insts ti) -> sane m (ti_sg ti) i.
Proof. exact insts_of_params_sane. Qed.
Print Assumptions C01_generated_instructions_are_exact.

(* the whole modelled pipeline (plan, buffer-sharing check, instruction
   generation, transformation; tied to quantize() by interface E2): a float
   model with well-formed subgraphs is mapped to a model with well-formed
   subgraphs or to an exception — for every recipe state, regex matcher,
   statistics and parameter-equality oracle *)
Theorem C01_pipeline_returns_wellformed_subgraphs_or_raises :
  forall mk_cls matches rules scope_id m scopes stats m' plans,
    Forall wf_sg (m_subgraphs m) ->
    pipeline_cls mk_cls matches rules scope_id m scopes stats = Ok (m', plans) ->
    Forall wf_sg (m_subgraphs m').
Proof.
  intros mk_cls matches rules scope_id m scopes stats m' plans Hwf H. unfold pipeline_cls in H.
  destruct (plan_checked_cls mk_cls matches rules scope_id m scopes stats) as [r|]; cbn [bind] in H; [|discriminate].
  match type of H with (tis <- ?x ;; _) = _ => destruct x as [tis|] eqn:Ei end; cbn [bind] in H; [|discriminate].
  destruct (transform_graph m tis) as [m2|] eqn:Et; cbn [bind] in H; [|discriminate].
  inversion H; subst. eapply transform_graph_wf; [exact Hwf| |exact Et].
  eapply insts_of_params_sane. exact Ei.
Qed.
Print Assumptions C01_pipeline_returns_wellformed_subgraphs_or_raises.

(* ... with ALL index clauses of the property: [wf_model] (Spec/WF.v) = every
   subgraph well formed AND every op's opcode index within the opcode table AND
   every tensor's buffer index within the buffer table AND every signature
   referring to an existing subgraph with all its input/output entries naming
   existing tensors.  (Proofs/RangeInv.v: the shared opcode table only grows,
   buffer count is constant, new tensors use buffer 0, signature entries are
   re-pointed to the new tensor.) *)
Theorem C01_transform_graph_preserves_wf_model :
  forall m tis m',
    wf_model m ->
    (forall ti i, In ti tis -> In i (ti_insts ti) -> sane m (ti_sg ti) i) ->
    transform_graph m tis = Ok m' -> wf_model m'.
Proof. exact transform_graph_wf_model. Qed.
Print Assumptions C01_transform_graph_preserves_wf_model.

Theorem C01_pipeline_returns_wf_model_or_raises :
  forall mk_cls matches rules scope_id m scopes stats m' plans,
    wf_model m ->
    pipeline_cls mk_cls matches rules scope_id m scopes stats = Ok (m', plans) -> wf_model m'.
Proof.
  intros mk_cls matches rules scope_id m scopes stats m' plans Hwf H. unfold pipeline_cls in H.
  destruct (plan_checked_cls mk_cls matches rules scope_id m scopes stats) as [r|]; cbn [bind] in H; [|discriminate].
  match type of H with (tis <- ?x ;; _) = _ => destruct x as [tis|] eqn:Ei end; cbn [bind] in H; [|discriminate].
  destruct (transform_graph m tis) as [m2|] eqn:Et; cbn [bind] in H; [|discriminate].
  inversion H; subst. eapply transform_graph_wf_model; [exact Hwf| |exact Et].
  eapply insts_of_params_sane. exact Ei.
Qed.
Print Assumptions C01_pipeline_returns_wf_model_or_raises.

(* "tensor names are unique": the retry loop of add_new_activation_tensor
   always finds a free name (pigeonhole over base, base_1, base_2, ...; the
   model's fuel, number of tensors + 1, is never exhausted), quantize_tensor
   renames nothing; so unique names stay unique over whole runs. *)
Theorem C01_inserted_tensor_name_is_fresh :
  forall ts root sfx,
    ~ In (root, fresh_sfx ts root sfx 0 (S (length ts))) (map tname ts).
Proof. exact fresh_sfx_fresh. Qed.
Print Assumptions C01_inserted_tensor_name_is_fresh.

(* the hypothesis is decided in Coq on every generated input (correspondence
   I+T+E evaluates names_uniqueb on the input and on the model's result) *)
Theorem C01_names_uniqueb_sound : forall g, names_uniqueb g = true -> names_unique g.
Proof. exact names_uniqueb_sound. Qed.
Print Assumptions C01_names_uniqueb_sound.

Theorem C01_transform_graph_keeps_tensor_names_unique :
  forall m tis m',
    Forall wf_sg (m_subgraphs m) ->
    (forall ti i, In ti tis -> In i (ti_insts ti) -> sane m (ti_sg ti) i) ->
    Forall names_unique (m_subgraphs m) ->
    transform_graph m tis = Ok m' -> Forall names_unique (m_subgraphs m').
Proof. exact transform_graph_names_unique. Qed.
Print Assumptions C01_transform_graph_keeps_tensor_names_unique.

Theorem C01_pipeline_keeps_tensor_names_unique :
  forall mk_cls matches rules scope_id m scopes stats m' plans,
    Forall wf_sg (m_subgraphs m) -> Forall names_unique (m_subgraphs m) ->
    pipeline_cls mk_cls matches rules scope_id m scopes stats = Ok (m', plans) ->
    Forall names_unique (m_subgraphs m').
Proof.
  intros mk_cls matches rules scope_id m scopes stats m' plans Hwf HN H. unfold pipeline_cls in H.
  destruct (plan_checked_cls mk_cls matches rules scope_id m scopes stats) as [r|]; cbn [bind] in H; [|discriminate].
  match type of H with (tis <- ?x ;; _) = _ => destruct x as [tis|] eqn:Ei end; cbn [bind] in H; [|discriminate].
  destruct (transform_graph m tis) as [m2|] eqn:Et; cbn [bind] in H; [|discriminate].
  inversion H; subst. eapply transform_graph_names_unique; [exact Hwf| |exact HN|exact Et].
  eapply insts_of_params_sane. exact Ei.
Qed.
Print Assumptions C01_pipeline_keeps_tensor_names_unique.

(* Non-vacuity: a concrete well-formed two-op graph whose middle tensor is
   both consumed and exported; inserting a DEQUANTIZE for the graph output and
   the consumer keeps it well formed and rewires both. *)
Definition ex_t (r : Z) : tensor :=
  {| t_root := r; t_sfx := []; t_shape := 0; t_ty := TY_FLOAT32; t_buf := r + 1; t_q := None |}.
Definition ex_g : subgraph :=
  {| sg_tensors := [ex_t 0; ex_t 1; ex_t 2];
     sg_ops := [{| o_code := 0; o_ins := [0]; o_outs := [1]; o_uid := 0 |};
                {| o_code := 0; o_ins := [1]; o_outs := [2]; o_uid := 0 |}];
     sg_inputs := [0]; sg_outputs := [1; 2] |}.
Definition ex_p : qparam := {| qp_id := 0; qp_uniform := true; qp_bits := 8; qp_has_data := false |}.
Example C01_nonvacuous :
  match insert_common false [28] [BEmpty; BEmpty; BEmpty; BEmpty] ex_g 1 0 [-1; 1] (Some ex_p) with
  | Ok (_, _, g', info) =>
      map o_ins (sg_ops g') = [[0]; [1]; [3]] /\ sg_outputs g' = [3; 2] /\ to_op_id info = 1
  | Err _ => False
  end.
Proof. vm_compute. repeat split. Qed.
