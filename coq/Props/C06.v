(* Props/C06.v — float-compute modes equal the float model run with
   dequantized constants.
   Weight-only / float16: the quantizer stores the constant quantized and
   inserts DEQUANTIZE in front of its float consumers.  Theorem: for EVERY
   kernel semantics K (a function of op code, options and operand VALUES) in
   which the inserted DEQUANTIZE maps the stored constant q to its dequantized
   value dq, the transformed graph computes, on every tensor other than the
   constant itself and the new tensor, exactly what the ORIGINAL graph
   computes when the constant holds dq — stated both abstractly and for the
   graph produced by the performer model's insert_common.
   Dynamic range: the constant is quantized in place and the kernel is handed
   integer weights; under the IDEALISED hybrid-kernel contract (a kernel given
   q computes what the float kernel computes on dq) the meaning is preserved;
   the real kernels additionally quantize activations to 8 bits per batch —
   that error is a property of LiteRT, bounded analytically and validated by
   execution (op-level oracle), not proved: the dynamic clause is PARTIAL. *)
From VF Require Import Base.Prelude Gen.Enums Gen.Configs Gen.Checks Model.Graph Gen.InstChecks
     Model.Perform Model.Sem Spec.WF Proofs.ListFacts Proofs.PerformStep Proofs.ModeProofs
     Spec.Interleave Proofs.SemProofs Proofs.SemGlue Proofs.SemRun Proofs.PerformInv Proofs.SkeletonInv
     Proofs.InterRun Proofs.InterInv.

Theorem C06_dequantize_insertion_preserves_meaning :
  forall (val : Type) (K : Z -> Z -> list (option val) -> list val)
         tid new (q dq : val) pre post newop e e',
    tid <> new -> new <> -1 -> tid <> -1 ->
    Forall (before_ok tid new) pre -> Forall (after_ok tid new) post ->
    o_ins newop = [tid] -> o_outs newop = [new] ->
    K (o_code newop) (o_uid newop) [Some q] = [dq] ->
    Inv val tid new q dq false e e' ->
    Inv val tid new q dq true
        (run val K (map fst pre ++ map fst post) e)
        (run val K (map snd pre ++ newop :: map snd post) e').
Proof. intros. eapply dequantize_insertion_preserves_meaning; eassumption. Qed.
Print Assumptions C06_dequantize_insertion_preserves_meaning.

(* ... instantiated on the performer model: any well-formed subgraph, any
   constant (no producer) all of whose readers are the listed consumers *)
Theorem C06_performer_dequantize_preserves_meaning :
  forall (val : Type) (K : Z -> Z -> list (option val) -> list val)
         codes bufs g tid consumers ps codes' bufs' g' info (q dq : val) e e',
    wf_sg g -> 0 <= tid ->
    (forall k o, op_at g k o -> ~ writes o tid) ->
    (forall k o, op_at g k o -> reads o tid -> In (Z.of_nat k) consumers) ->
    Forall (fun c => 0 <= c) consumers ->
    insert_common false codes bufs g tid (-1) consumers ps = Ok (codes', bufs', g', info) ->
    K (fst (add_op_code BC_DEQUANTIZE codes)) UID_INSERTED [Some q] = [dq] ->
    Inv val tid (ntens g) q dq false e e' ->
    Inv val tid (ntens g) q dq true (run val K (sg_ops g) e) (run val K (sg_ops g') e').
Proof. intros. eapply insert_dequantize_preserves_meaning; eassumption. Qed.
Print Assumptions C06_performer_dequantize_preserves_meaning.

(* what Inv says, spelled out: after both runs every original tensor except
   the constant holds the same value, and the new tensor holds dq *)
Theorem C06_meaning_of_the_invariant :
  forall (val : Type) tid new (q dq : val) e e',
    Inv val tid new q dq true e e' ->
    (forall t, t <> tid -> t <> new -> e' t = e t) /\ e' new = Some dq /\ e tid = Some dq /\ e' tid = Some q.
Proof. intros val tid new q dq e e' (A & B & C & D). repeat split; auto. Qed.
Print Assumptions C06_meaning_of_the_invariant.

(* weight-only and float16 configs plan exactly that transformation for a
   constant operand and leave every activation float (C03's mode table) *)
Theorem C06_weight_only_plans_dequantize :
  forall c, cfg_weight_only c = true ->
    get_tensor_transformations c true true = Ok [Tr_ADD_DEQUANTIZE] /\
    get_tensor_transformations c true false = Ok [Tr_NO_QUANTIZE] /\
    get_tensor_transformations c false false = Ok [Tr_NO_QUANTIZE].
Proof.
  intros c H.
  assert (M : cfg_static c || cfg_dynamic c || cfg_weight_only c = true) by (rewrite H; apply Bool.orb_true_r).
  assert (S : cfg_static c = false /\ cfg_dynamic c = false).
  { unfold cfg_weight_only, cfg_static, cfg_dynamic in *. destruct (ocfg_compute_precision c); cbn in *; auto; discriminate. }
  destruct S as [S1 S2].
  rewrite !(mode_table c _ _ M). unfold expected_trans. rewrite S1, S2. auto.
Qed.
Print Assumptions C06_weight_only_plans_dequantize.

(* ---- whole graphs, any number of constants ----
   [inter n0 isq q dq nm ops0 ops]: ops is an interleaving of the original
   operators ops0 — same code, options and results; every operand either
   unchanged (and then not a quantized constant) or the result of an earlier
   DEQUANTIZE of the original operand — with one-in/one-out operators that
   read a quantized constant c (isq c), write a fresh new tensor, and whose
   kernel maps q c to dq c.  Such a graph computes on every original tensor
   that is not a quantized constant exactly what the original graph computes
   with dq c in place of every quantized constant c. *)
Theorem C06_interleaved_graph_preserves_meaning :
  forall (val : Type) (K : Z -> Z -> list (option val) -> list val)
         n0 isq (q dq : Z -> val) ops0 ops e0 e,
    (forall c, isq c = true -> 0 <= c < n0) ->
    inter val K n0 isq q dq [] ops0 ops ->
    (forall t, t < n0 -> isq t = false -> e t = e0 t) ->
    (forall c, isq c = true -> e0 c = Some (dq c) /\ e c = Some (q c)) ->
    forall t, t < n0 -> isq t = false -> run val K ops e t = run val K ops0 e0 t.
Proof. intros. eapply inter_same_results; eassumption. Qed.
Print Assumptions C06_interleaved_graph_preserves_meaning.

(* the interleaving is decidable up to the kernel contract; correspondence
   I+T+E evaluates [interb] inside Coq on the result of EVERY generated
   float-compute run (all instructions ADD_DEQUANTIZE / NO_QUANTIZE) *)
Theorem C06_interleaving_check_is_sound :
  forall (val : Type) (K : Z -> Z -> list (option val) -> list val)
         n0 isq (q dq : Z -> val) ops nm ops0,
    (forall o c, In o ops -> o_uid o = UID_INSERTED -> o_ins o = [c] ->
                 K (o_code o) (o_uid o) [Some (q c)] = [dq c]) ->
    interb n0 isq nm ops0 ops = true -> inter val K n0 isq q dq nm ops0 ops.
Proof. intros. eapply interb_sound; eassumption. Qed.
Print Assumptions C06_interleaving_check_is_sound.

(* non-vacuity: two FCs sharing input x, each with its own quantized weight *)
Example C06_interleaving_nonvacuous :
  let o k a b c := {| o_code := k; o_ins := a; o_outs := b; o_uid := c |} in
  interb 5 (fun c => Z.eqb c 1 || Z.eqb c 2) []
         [o 0 [0; 1] [3] 0; o 0 [0; 2] [4] 1]
         [o 9 [1] [5] UID_INSERTED; o 0 [0; 5] [3] 0; o 9 [2] [6] UID_INSERTED; o 0 [0; 6] [4] 1] = true /\
  interb 5 (fun c => Z.eqb c 1 || Z.eqb c 2) []
         [o 0 [0; 1] [3] 0; o 0 [0; 2] [4] 1]
         [o 9 [1] [5] UID_INSERTED; o 0 [0; 5] [3] 0; o 0 [0; 2] [4] 1] = false.
Proof. vm_compute. split; reflexivity. Qed.

(* ---- WHOLE PERFORMER RUNS (Proofs/InterInv.v) ----
   A float-compute plan: every instruction is ADD_DEQUANTIZE or NO_QUANTIZE
   (weight-only / float16 recipes); each ADD_DEQUANTIZE of subgraph k names an
   original constant (no producer), lists all operators that read it, one
   instruction per constant ([ti_ok], [NoDup (deq_tensors ..)]).  Then, for
   every kernel semantics K whose DEQUANTIZE maps the stored constant q c to
   dq c, subgraph k of the result computes on every original tensor other
   than those constants exactly what the input subgraph computes with dq c in
   their place.  Proof: the interleaving is an invariant of the performer run
   (together with the C01 and C02 invariants), and interleavings preserve
   meaning. *)
Theorem C06_float_compute_run_is_an_interleaving :
  forall (val : Type) (K : Z -> Z -> list (option val) -> list val) (q dq : Z -> val)
         m0 k g0 tis m',
    nth_opt (m_subgraphs m0) k = Some g0 -> uids_ok m0 ->
    (forall c, K (fst (add_op_code BC_DEQUANTIZE (m_opcodes m0))) UID_INSERTED [Some (q c)] = [dq c]) ->
    Forall wf_sg (m_subgraphs m0) ->
    (forall ti i, In ti tis -> In i (ti_insts ti) -> sane m0 (ti_sg ti) i) ->
    Forall (ti_ok k g0) tis -> NoDup (deq_tensors k tis) ->
    transform_graph m0 tis = Ok m' ->
    exists g' S, nth_opt (m_subgraphs m') k = Some g' /\
      (forall c, In c S <-> In c (deq_tensors k tis)) /\
      inter val K (ntens g0) (inS S) q dq [] (sg_ops g0) (sg_ops g').
Proof. intros. eapply transform_graph_float_compute_interleaving; eassumption. Qed.
Print Assumptions C06_float_compute_run_is_an_interleaving.

Theorem C06_float_compute_run_preserves_meaning :
  forall (val : Type) (K : Z -> Z -> list (option val) -> list val) (q dq : Z -> val)
         m0 k g0 tis m' (e0 e : Z -> option val),
    nth_opt (m_subgraphs m0) k = Some g0 -> uids_ok m0 ->
    (forall c, K (fst (add_op_code BC_DEQUANTIZE (m_opcodes m0))) UID_INSERTED [Some (q c)] = [dq c]) ->
    Forall wf_sg (m_subgraphs m0) ->
    (forall ti i, In ti tis -> In i (ti_insts ti) -> sane m0 (ti_sg ti) i) ->
    Forall (ti_ok k g0) tis -> NoDup (deq_tensors k tis) ->
    transform_graph m0 tis = Ok m' ->
    (forall c, In c (deq_tensors k tis) -> 0 <= c < ntens g0) ->
    (forall t, t < ntens g0 -> ~ In t (deq_tensors k tis) -> e t = e0 t) ->
    (forall c, In c (deq_tensors k tis) -> e0 c = Some (dq c) /\ e c = Some (q c)) ->
    exists g', nth_opt (m_subgraphs m') k = Some g' /\
      forall t, t < ntens g0 -> ~ In t (deq_tensors k tis) ->
                run val K (sg_ops g') e t = run val K (sg_ops g0) e0 t.
Proof. intros. eapply transform_graph_float_compute_meaning; eassumption. Qed.
Print Assumptions C06_float_compute_run_preserves_meaning.

(* the plan hypotheses are decidable; correspondence I+T+E evaluates
   [plan_okb] in Coq for every subgraph of every generated float-compute run
   and reports on how many of them the whole-run theorem applies *)
Theorem C06_plan_check_is_sound :
  forall k g0 tis, plan_okb k g0 tis = true -> Forall (ti_ok k g0) tis /\ NoDup (deq_tensors k tis).
Proof. exact plan_okb_sound. Qed.
Print Assumptions C06_plan_check_is_sound.

(* dynamic range (PARTIAL: idealised kernel contract as hypothesis) *)
Theorem C06_dynamic_range_partial :
  forall (val : Type) (K : Z -> Z -> list (option val) -> list val) tid (q dq : val) ops e e',
    hybrid_exact val K q dq ->
    Forall (fun o => ~ In tid (o_outs o)) ops ->
    InvQ val tid q dq e e' ->
    InvQ val tid q dq (run val K ops e) (run val K ops e').
Proof. intros. apply quantize_in_place_preserves_meaning; assumption. Qed.
Print Assumptions C06_dynamic_range_partial.

(* ... and for ANY number of constants quantized in place (same idealised
   contract, hence still PARTIAL): every tensor that is not such a constant
   holds the same value in both runs *)
Theorem C06_dynamic_range_many_partial :
  forall (val : Type) (K : Z -> Z -> list (option val) -> list val) isq (q dq : Z -> val) ops e e',
    hybrid_exact_many val K isq q dq ->
    Forall (fun o => forall t, In t (o_outs o) -> isq t = false) ops ->
    InvQM val isq q dq e e' ->
    InvQM val isq q dq (run val K ops e) (run val K ops e').
Proof. intros. apply quantize_in_place_many_preserves_meaning; assumption. Qed.
Print Assumptions C06_dynamic_range_many_partial.

(* Non-vacuity: x -> FC(x, w) with K interpreting values as integers: the op
   with code index 0 adds its operands, DEQUANTIZE (appended code) doubles *)
Definition exK (c u : Z) (ins : list (option Z)) : list Z :=
  if Z.eqb c 0 then [fold_left (fun a o => match o with Some v => a + v | None => a end) ins 0]
  else match ins with [Some v] => [2 * v] | _ => [0] end.
Definition ex_t (r b : Z) : tensor :=
  {| t_root := r; t_sfx := []; t_shape := 2; t_ty := TY_FLOAT32; t_buf := b; t_q := None |}.
Definition ex_g : subgraph :=
  {| sg_tensors := [ex_t 0 1; ex_t 1 2; ex_t 2 3];
     sg_ops := [{| o_code := 0; o_ins := [0; 1]; o_outs := [2]; o_uid := 0 |}];
     sg_inputs := [0]; sg_outputs := [2] |}.
Example C06_nonvacuous :
  match insert_common false [9] [BEmpty; BEmpty; BOrig 2; BEmpty] ex_g 1 (-1) [0]
          (Some {| qp_id := 7; qp_uniform := true; qp_bits := 8; qp_has_data := true |}) with
  | Ok (_, _, g', _) =>
      (* float side: x = 5, w = dq = 6; quantized side: w = q = 3, DEQUANTIZE doubles *)
      let e  := fun t => if Z.eqb t 0 then Some 5 else if Z.eqb t 1 then Some 6 else None in
      let e' := fun t => if Z.eqb t 0 then Some 5 else if Z.eqb t 1 then Some 3 else None in
      run Z exK (sg_ops ex_g) e 2 = Some 11 /\ run Z exK (sg_ops g') e' 2 = Some 11 /\
      map o_ins (sg_ops g') = [[1]; [0; 3]]
  | Err _ => False end.
Proof. vm_compute. repeat split. Qed.
