(* Props/C12.v — a saved recipe reloads to the same rules. *)
From VF Require Import Base.Prelude Gen.Enums Gen.Configs Gen.Checks Gen.Recipes
     Model.Recipe Model.Check Model.RecipeFile
     Proofs.RecipeProofs Proofs.RecipeRoundTrip.

(* Full statement (false of the faithful model, see _refuted below):
     forall reachable s, load (get_recipe s) = Ok s.
   Proved under exactly the guard the code imposes ([loadable]): every
   no_quantize rule carries the default config and every other rule has a
   weight config (and constructs).  For EVERY support check and post-init. *)
Theorem C12_roundtrip_partial :
  forall check post_init (s : state),
    Inv check s -> loadable post_init s ->
    load check post_init (get_recipe s) = Ok s.
Proof. exact load_get_recipe. Qed.
Print Assumptions C12_roundtrip_partial.

(* ... hence identical resolution of every (operator, scope) pair *)
Theorem C12_same_resolution_partial :
  forall check matches post_init s s' target scope,
    Inv check s -> loadable post_init s ->
    load check post_init (get_recipe s) = Ok s' ->
    get check matches s' target scope = get check matches s target scope.
Proof.
  intros. rewrite load_get_recipe in H1 by assumption. inversion H1. reflexivity.
Qed.
Print Assumptions C12_same_resolution_partial.

(* Reachable states satisfy the invariant the round trip needs. *)
Theorem C12_reachable_inv :
  forall check matches post_init ops, Inv check (fst (run check matches post_init init ops)).
Proof. intros. apply run_inv. apply Inv_init. Qed.
Print Assumptions C12_reachable_inv.

(* F9(a): a no_quantize rule that was given a config re-loads without it. *)
Definition w8 := Mk_tcfg 8 true Gr_CHANNELWISE Dt_INT 0.
Definition drq := Mk_ocfg None (Some w8) Prec_INTEGER false false.
Definition always (r s : Z) := true.
Theorem C12_noquant_config_refuted :
  exists ops, let s := fst (run check always ocfg_post_init init ops) in
    exists s', load check ocfg_post_init (get_recipe s) = Ok s' /\ J_state s' <> J_state s.
Proof.
  exists [RAdd 0 Op_FULLY_CONNECTED (Some drq) (AK Alg_NO_QUANTIZE)].
  eexists. split; [vm_compute; reflexivity|]. vm_compute. discriminate.
Qed.
Print Assumptions C12_noquant_config_refuted.

(* F9(b): update('.*', '*', None): the default config has no weight config,
   to_dict drops it, from_dict needs it. *)
Theorem C12_default_config_refuted :
  exists ops, let s := fst (run check always ocfg_post_init init ops) in
    load check ocfg_post_init (get_recipe s) = Err KeyError.
Proof.
  exists [RAdd 0 Op_ALL_SUPPORTED None (AK Alg_MIN_MAX_UNIFORM_QUANT)].
  vm_compute. reflexivity.
Qed.
Print Assumptions C12_default_config_refuted.

(* Shipped recipe files (regenerated from /repo/ai_edge_quantizer/recipes):
   every file loads, and a file already in exported form re-exports to
   itself. *)
Definition file_loads (es : list raw_entry) : bool :=
  is_ok (load_raw check ocfg_post_init es).
Definition file_reexports (es : list raw_entry) : bool :=
  match load_raw check ocfg_post_init es with
  | Ok s => let js := get_recipe s in
            Nat.eqb (length js) (length es)
            && forallb (fun p => raw_is_export_of (fst p) (snd p)) (combine es js)
  | Err _ => false
  end.

Theorem C12_shipped_files_load : forallb file_loads shipped_recipes = true.
Proof. vm_compute. reflexivity. Qed.
Print Assumptions C12_shipped_files_load.

Theorem C12_default_recipes_reexport :
  forallb file_reexports
    [recipe_default_a16w8_recipe; recipe_default_a8w8_recipe;
     recipe_default_af32w4float_recipe; recipe_default_af32w8float_recipe;
     recipe_dynamic_wi8_afp32_recipe] = true.
Proof. vm_compute. reflexivity. Qed.
Print Assumptions C12_default_recipes_reexport.

Example C12_nonvacuous :
  let s := fst (run check always ocfg_post_init init
     [RAdd 0 Op_ALL_SUPPORTED (Some drq) (AK Alg_MIN_MAX_UNIFORM_QUANT);
      RAdd 1 Op_CONV_2D None (AK Alg_NO_QUANTIZE)]) in
  Z.of_nat (length (flatten s)) = 2 /\
  load check ocfg_post_init (get_recipe s) = Ok s.
Proof. split; vm_compute; reflexivity. Qed.
