(* Props/C07.v — full-integer models approximate the float model on calibrated
   inputs.  PARTIAL by nature: the numerical behaviour of LiteRT's integer
   kernels (fixed-point multipliers, LUT activations) is outside this
   repository and outside any executable model of it; it is validated by
   execution (C07 runtime oracle, root-cause analysis per op).  What is proved
   is the logic half — that no parameter choice of the quantizer FORCES a
   degenerate result (ideal arithmetic; float32 tie by C17's correspondence A):
   every value inside the calibrated range is represented within half a step
   (nothing inside the range is clipped), two values more than a step apart
   get different codes (outputs cannot collapse to a constant because of the
   parameters), zero is exact, and the fixed output ranges of
   softmax / logistic / tanh cover the functions' codomains up to one step. *)
From Coq Require Import ZArith Reals Lra Lia.
From Flocq Require Import Core.
From VF Require Import Spec.ArithR Proofs.ArithRProofs Proofs.PackProofs.
Open Scope R_scope.

(* statistics (lo, hi) of a calibrated activation: every value the tensor took
   on the calibration input lies in [lo, hi] (single sample: statistics = the
   sample's own min/max, C09) and is reproduced within half a step *)
Theorem C07_calibrated_range_is_not_clipped :
  forall b lo hi x, (2 <= b)%Z -> lo <= x <= hi ->
    (let s := scale_asym b lo hi in let zp := zp_asym b lo hi in
     Rabs (deq s zp (quant b false s zp x) - x) <= s / 2) /\
    (let s := scale_sym b lo hi in
     Rabs (deq s 0 (quant b true s 0 x) - x) <= s / 2).
Proof.
  intros b lo hi x Hb Hx. split; [apply const_asym_halfstep|apply const_sym_halfstep]; assumption.
Qed.
Print Assumptions C07_calibrated_range_is_not_clipped.

(* unclipped values more than one step apart get different codes: the code
   distance is at least (y - x)/scale - 1 *)
Theorem C07_codes_separate :
  forall b narrow s zp x y, 0 < s -> x <= y ->
    IZR (qlo b narrow) <= x * (1 / s) + IZR zp -> y * (1 / s) + IZR zp <= IZR (qmax b) ->
    (y - x) / s - 1 <= IZR (quant b narrow s zp y - quant b narrow s zp x).
Proof. exact quant_gap. Qed.
Print Assumptions C07_codes_separate.

Theorem C07_scale_is_positive_and_zero_exact :
  forall b lo hi, (2 <= b)%Z ->
    0 < scale_asym b lo hi /\ 0 < scale_sym b lo hi /\
    (let s := scale_asym b lo hi in let zp := zp_asym b lo hi in
     deq s zp (quant b false s zp 0) = 0).
Proof.
  intros b lo hi Hb. split; [apply scale_asym_pos; exact Hb|]. split; [apply scale_sym_pos; exact Hb|].
  cbn zeta. apply zero_exact; [apply scale_asym_pos; exact Hb|].
  unfold qlo. apply zp_asym_range. exact Hb.
Qed.
Print Assumptions C07_scale_is_positive_and_zero_exact.

(* fixed output ranges (regenerated literals, C04_fixed_range_literals):
   softmax / logistic int8: scale 1/256, zero point -128 covers [0, 255/256];
   tanh int8: scale 1/128, zero point 0 covers [-1, 127/128];
   int16: scale 1/32768, zero point 0 covers [-1, 32767/32768] *)
Theorem C07_fixed_ranges_cover_codomain :
  deq (1 / 256) (-128) (qmin 8) = 0 /\ deq (1 / 256) (-128) (qmax 8) = 255 / 256 /\
  deq (1 / 128) 0 (qmin 8) = -1 /\ deq (1 / 128) 0 (qmax 8) = 127 / 128 /\
  deq (1 / 32768) 0 (qmin 16) = -1 /\ deq (1 / 32768) 0 (qmax 16) = 32767 / 32768.
Proof.
  unfold deq, qmin, qmax. repeat split;
    repeat match goal with |- context [IZR (?a - ?b)] => let v := eval vm_compute in (a - b)%Z in change (a - b)%Z with v end;
    lra.
Qed.
Print Assumptions C07_fixed_ranges_cover_codomain.
