(* Props/C02.v — quantization preserves the graph skeleton and I/O contract.
   Step-level statements (the composition over the whole pipeline is
   validated by correspondence E and the skeleton oracle on every run). *)
From Coq Require Import Sorted.
From VF Require Import Base.Prelude Gen.Enums Gen.Configs Gen.Scopes Model.Recipe Model.Check
     Model.Graph Gen.InstChecks Model.Insts Model.Perform Model.Plan Model.Pipeline Spec.WF
     Proofs.ListFacts Proofs.PerformStep Proofs.PerformInv Proofs.InstsSane Proofs.SkeletonInv.

(* One insertion touches the wiring of nothing but the listed consumers, and
   there it replaces exactly the occurrences of the transformed tensor by the
   new tensor; every other operand of every op, all op results, codes and
   options are unchanged; the only op added is the QUANTIZE/DEQUANTIZE op
   reading the transformed tensor and writing the new one; graph inputs are
   unchanged and graph outputs change only when the graph output (-1) is a
   listed consumer. *)
Theorem C02_insertion_rewires_only_listed :
  forall is_quant codes bufs g tid producer consumers ps codes' bufs' g' info,
    0 <= tid -> -1 <= producer < lenZ (sg_ops g) ->
    Forall (fun c => c = -1 \/ 0 <= c) consumers ->
    insert_common is_quant codes bufs g tid producer consumers ps
      = Ok (codes', bufs', g', info) ->
    exists ops2,
      length ops2 = length (sg_ops g) /\
      (forall k o', nth_opt ops2 k = Some o' ->
         exists o, op_at g k o /\
           (o' = o \/ (o' = rewire_op o tid (ntens g) /\ In (Z.of_nat k) consumers))) /\
      sg_ops g' = insert_at ops2 (Z.to_nat (to_op_id info))
                    {| o_code := fst (add_op_code (if is_quant then BC_QUANTIZE else BC_DEQUANTIZE) codes);
                       o_ins := [tid]; o_outs := [ntens g]; o_uid := UID_INSERTED |} /\
      sg_inputs g' = sg_inputs g /\
      sg_outputs g' = (if memZ (-1) consumers
                       then map (repl tid (ntens g)) (sg_outputs g) else sg_outputs g).
Proof.
  intros until info. intros Ht Hp Hc Hr.
  destruct (insert_common_facts is_quant codes bufs g tid producer consumers ps
              codes' bufs' g' info Ht Hp Hc Hr)
    as (ops2 & first & _ & _ & _ & _ & _ & _ & _ & L & R & O & I & U).
  exists ops2. repeat split; assumption.
Qed.
Print Assumptions C02_insertion_rewires_only_listed.

(* In-place quantization keeps ops, inputs and outputs. *)
Theorem C02_quantize_tensor_keeps_wiring :
  forall bufs g tid ps bufs' g',
    quantize_tensor bufs g tid ps = Ok (bufs', g') ->
    sg_ops g' = sg_ops g /\ sg_inputs g' = sg_inputs g /\ sg_outputs g' = sg_outputs g
    /\ ntens g' = ntens g.
Proof.
  intros. destruct (quantize_tensor_shape _ _ _ _ _ _ H) as (A & B & C & D & _). auto.
Qed.
Print Assumptions C02_quantize_tensor_keeps_wiring.

(* Signature outputs follow the rewired graph output, in the same subgraph only. *)
Theorem C02_signature_follows_output :
  forall sigs sgid old new s,
    In s (fix_sigs sigs sgid old new) ->
    exists s0, In s0 sigs /\ sd_sg s = sd_sg s0 /\ sd_inputs s = sd_inputs s0 /\
      sd_outputs s = if Z.eqb (sd_sg s0) sgid then map (repl old new) (sd_outputs s0)
                     else sd_outputs s0.
Proof.
  intros sigs sgid old new s H. unfold fix_sigs in H. apply in_map_iff in H.
  destruct H as (s0 & <- & Hin). exists s0. split; [assumption|].
  destruct (Z.eqb (sd_sg s0) sgid); cbn; auto.
Qed.
Print Assumptions C02_signature_follows_output.

(* COMPOSITION (Proofs/SkeletonInv.v).  [skel g0 g' om] says: through the
   strictly increasing position map om, the op at om[i] of the result is
   original op i — same opcode index, same options identity, same results, and
   every operand DERIVES from the original operand through inserted ops only;
   every other op of the result is an inserted one-in/one-out op writing a NEW
   tensor; every original tensor is still there under its index with its name
   and shape; graph inputs are unchanged; graph outputs derive from the
   original outputs.  I.e. deleting the inserted ops and following them back
   yields exactly the input graph.  It holds for the result of running ANY
   exact instruction lists, hence for the whole pipeline model. *)
Theorem C02_transform_graph_preserves_skeleton :
  forall m tis m',
    Forall wf_sg (m_subgraphs m) -> uids_ok m ->
    (forall ti i, In ti tis -> In i (ti_insts ti) -> sane m (ti_sg ti) i) ->
    transform_graph m tis = Ok m' ->
    length (m_subgraphs m') = length (m_subgraphs m) /\
    forall k g0 g', nth_opt (m_subgraphs m) k = Some g0 -> nth_opt (m_subgraphs m') k = Some g' ->
      exists om, StronglySorted Z.lt om /\ skel g0 g' om.
Proof. exact transform_graph_skeleton. Qed.
Print Assumptions C02_transform_graph_preserves_skeleton.

Theorem C02_pipeline_preserves_skeleton :
  forall mk_cls matches rules scope_id m scopes stats m' plans,
    Forall wf_sg (m_subgraphs m) -> uids_ok m ->
    pipeline_cls mk_cls matches rules scope_id m scopes stats = Ok (m', plans) ->
    length (m_subgraphs m') = length (m_subgraphs m) /\
    forall k g0 g', nth_opt (m_subgraphs m) k = Some g0 -> nth_opt (m_subgraphs m') k = Some g' ->
      exists om, StronglySorted Z.lt om /\ skel g0 g' om.
Proof.
  intros mk_cls matches rules scope_id m scopes stats m' plans Hwf Hu H. unfold pipeline_cls in H.
  destruct (plan_checked_cls mk_cls matches rules scope_id m scopes stats) as [r|]; cbn [bind] in H; [|discriminate].
  match type of H with (tis <- ?x ;; _) = _ => destruct x as [tis|] eqn:Ei end; cbn [bind] in H; [|discriminate].
  destruct (transform_graph m tis) as [m2|] eqn:Et; cbn [bind] in H; [|discriminate].
  inversion H; subst. eapply transform_graph_skeleton; [exact Hwf|exact Hu| |exact Et].
  eapply insts_of_params_sane. exact Ei.
Qed.
Print Assumptions C02_pipeline_preserves_skeleton.

(* what the skeleton relation contains, spelled out for one original op *)
Theorem C02_skeleton_unfolded :
  forall g0 g om i o0 p,
    skel g0 g om -> nth_opt (sg_ops g0) i = Some o0 -> nth_opt om i = Some p ->
    exists o, op_at g (Z.to_nat p) o /\ o_code o = o_code o0 /\ o_uid o = o_uid o0 /\
              o_outs o = o_outs o0 /\ Forall2 (derived g) (o_ins o) (o_ins o0).
Proof. intros g0 g om i o0 p S H1 H2. destruct (sk_orig _ _ _ S _ _ _ H1 H2) as (_ & o & H). exists o. exact H. Qed.
Print Assumptions C02_skeleton_unfolded.

Example C02_nonvacuous :
  fix_sigs [{| sd_sg := 0; sd_inputs := [0]; sd_outputs := [2] |};
            {| sd_sg := 1; sd_inputs := [0]; sd_outputs := [2] |}] 0 2 5
  = [{| sd_sg := 0; sd_inputs := [0]; sd_outputs := [5] |};
     {| sd_sg := 1; sd_inputs := [0]; sd_outputs := [2] |}].
Proof. reflexivity. Qed.
