(* Props/C02.v — quantization preserves the graph skeleton and I/O contract.
   Step-level statements (the composition over the whole pipeline is
   validated by correspondence E and the skeleton oracle on every run). *)
From VF Require Import Base.Prelude Gen.Enums Model.Graph Gen.InstChecks
     Model.Perform Spec.WF Proofs.ListFacts Proofs.PerformStep.

(* One insertion touches the wiring of nothing but the listed consumers, and
   there it replaces exactly the occurrences of the transformed tensor by the
   new tensor; every other operand of every op, all op results, codes and
   options are unchanged; the only op added is the QUANTIZE/DEQUANTIZE op
   reading the transformed tensor and writing the new one; graph inputs are
   unchanged and graph outputs change only when the graph output (-1) is a
   listed consumer. *)
Theorem C02_insertion_rewires_only_listed :
  forall is_quant codes bufs g tid producer consumers ps codes' bufs' g' info,
    0 <= tid -> -1 <= producer < lenZ (sg_ops g) ->
    Forall (fun c => c = -1 \/ 0 <= c) consumers ->
    insert_common is_quant codes bufs g tid producer consumers ps
      = Ok (codes', bufs', g', info) ->
    exists ops2,
      length ops2 = length (sg_ops g) /\
      (forall k o', nth_opt ops2 k = Some o' ->
         exists o, op_at g k o /\
           (o' = o \/ (o' = rewire_op o tid (ntens g) /\ In (Z.of_nat k) consumers))) /\
      sg_ops g' = insert_at ops2 (Z.to_nat (to_op_id info))
                    {| o_code := fst (add_op_code (if is_quant then BC_QUANTIZE else BC_DEQUANTIZE) codes);
                       o_ins := [tid]; o_outs := [ntens g]; o_uid := UID_INSERTED |} /\
      sg_inputs g' = sg_inputs g /\
      sg_outputs g' = (if memZ (-1) consumers
                       then map (repl tid (ntens g)) (sg_outputs g) else sg_outputs g).
Proof.
  intros until info. intros Ht Hp Hc Hr.
  destruct (insert_common_facts is_quant codes bufs g tid producer consumers ps
              codes' bufs' g' info Ht Hp Hc Hr)
    as (ops2 & first & _ & _ & _ & _ & _ & _ & _ & L & R & O & I & U).
  exists ops2. repeat split; assumption.
Qed.
Print Assumptions C02_insertion_rewires_only_listed.

(* In-place quantization keeps ops, inputs and outputs. *)
Theorem C02_quantize_tensor_keeps_wiring :
  forall bufs g tid ps bufs' g',
    quantize_tensor bufs g tid ps = Ok (bufs', g') ->
    sg_ops g' = sg_ops g /\ sg_inputs g' = sg_inputs g /\ sg_outputs g' = sg_outputs g
    /\ ntens g' = ntens g.
Proof.
  intros. destruct (quantize_tensor_shape _ _ _ _ _ _ H) as (A & B & C & D & _). auto.
Qed.
Print Assumptions C02_quantize_tensor_keeps_wiring.

(* Signature outputs follow the rewired graph output, in the same subgraph only. *)
Theorem C02_signature_follows_output :
  forall sigs sgid old new s,
    In s (fix_sigs sigs sgid old new) ->
    exists s0, In s0 sigs /\ sd_sg s = sd_sg s0 /\ sd_inputs s = sd_inputs s0 /\
      sd_outputs s = if Z.eqb (sd_sg s0) sgid then map (repl old new) (sd_outputs s0)
                     else sd_outputs s0.
Proof.
  intros sigs sgid old new s H. unfold fix_sigs in H. apply in_map_iff in H.
  destruct H as (s0 & <- & Hin). exists s0. split; [assumption|].
  destruct (Z.eqb (sd_sg s0) sgid); cbn; auto.
Qed.
Print Assumptions C02_signature_follows_output.

Example C02_nonvacuous :
  fix_sigs [{| sd_sg := 0; sd_inputs := [0]; sd_outputs := [2] |};
            {| sd_sg := 1; sd_inputs := [0]; sd_outputs := [2] |}] 0 2 5
  = [{| sd_sg := 0; sd_inputs := [0]; sd_outputs := [5] |};
     {| sd_sg := 1; sd_inputs := [0]; sd_outputs := [2] |}].
Proof. reflexivity. Qed.
