(* Props/C05.v — stored quantized constants decode to within one step of the
   float originals.  (a) storage format: int4 packing (Model/ArithF32.pack4,
   tied to quantize_tensor._pack_data by correspondence A and the shape pin)
   round-trips for lists of EVERY length, low nibble first, odd tail padded
   with a zero nibble, (n+1)/2 bytes; (b) decode error in the ideal
   arithmetic, for every element of a tensor quantized with parameters
   computed from its own min/max: at most half a step, symmetric and
   asymmetric (the property allows a whole step for asymmetric); bias =
   round-half-even(b/s) unless saturating; (c) float16 cast = IEEE
   round-to-nearest-even to binary16.  The float32 implementation is the
   bit-exact model of C17 (correspondence A); the float32-vs-real envelope is
   not proved (the decode oracle states its float32 slack explicitly). *)
From Coq Require Import ZArith List Bool Lia Reals Lra.
From Flocq Require Import Core IEEE754.Binary IEEE754.Bits.
From VF Require Import Spec.ArithR Proofs.ArithRProofs Gen.Consts Model.ArithF32 Proofs.PackProofs.
Import ListNotations.
Open Scope Z_scope.

Theorem C05_int4_stored_length :
  forall l, Z.of_nat (length (pack4 l)) = (Z.of_nat (length l) + 1) / 2.
Proof. exact pack4_length. Qed.
Print Assumptions C05_int4_stored_length.

Theorem C05_int4_bytes_in_range :
  forall l, Forall int4 l -> Forall (fun b => 0 <= b < 256) (pack4 l).
Proof. exact pack4_bytes. Qed.
Print Assumptions C05_int4_bytes_in_range.

Theorem C05_int4_unpack_pack :
  forall l, Forall int4 l -> unpack4 (length l) (pack4 l) = l.
Proof. exact unpack_pack. Qed.
Print Assumptions C05_int4_unpack_pack.

Theorem C05_int4_odd_tail_padded_with_zero :
  forall e, int4 e -> pack4 [e] = [pack_pair e 0] /\ Z.shiftr (pack_pair e 0) 4 = 0.
Proof. intros e He. split; [reflexivity|apply pack4_odd_tail_zero; exact He]. Qed.
Print Assumptions C05_int4_odd_tail_padded_with_zero.

(* the packing function of the source still has the body the model was
   written against *)
Theorem C05_pack_pin : shape_pack_data = 10948941224577.
Proof. reflexivity. Qed.
Print Assumptions C05_pack_pin.

Open Scope R_scope.
Theorem C05_symmetric_constant_within_half_step :
  forall b mn mx x, (2 <= b)%Z -> mn <= x <= mx ->
    let s := scale_sym b mn mx in
    Rabs (deq s 0 (quant b true s 0 x) - x) <= s / 2.
Proof. exact const_sym_halfstep. Qed.
Print Assumptions C05_symmetric_constant_within_half_step.

Theorem C05_asymmetric_constant_within_half_step :
  forall b mn mx x, (2 <= b)%Z -> mn <= x <= mx ->
    let s := scale_asym b mn mx in let zp := zp_asym b mn mx in
    Rabs (deq s zp (quant b false s zp x) - x) <= s / 2.
Proof. exact const_asym_halfstep. Qed.
Print Assumptions C05_asymmetric_constant_within_half_step.

Theorem C05_bias_is_round_half_even :
  forall b s x, 0 < s -> IZR (qlo b true) <= x * (1 / s) <= IZR (qmax b) ->
    quant b true s 0 x = rne (x / s).
Proof. exact bias_is_rounded. Qed.
Print Assumptions C05_bias_is_round_half_even.

(* float16 cast: for every finite float32 whose rounding does not overflow
   binary16, the stored half is the round-to-nearest-even of the original in
   the binary16 format (exponent range and subnormals included) *)
Theorem C05_float16_is_rne :
  forall s m e (H : SpecFloat.bounded 24 128 m e = true),
    let x := B754_finite 24 128 s m e H in
    let fexp16 := FLT_exp (3 - 16 - 11) 11 in
    Rabs (round radix2 fexp16 ZnearestE (B2R 24 128 x)) < bpow radix2 16 ->
    B2R 11 16 (f32_to_f16 x) = round radix2 fexp16 ZnearestE (B2R 24 128 x)
    /\ is_finite 11 16 (f32_to_f16 x) = true.
Proof.
  intros s m e H x fexp16 Hlt.
  pose proof (binary_normalize_correct 11 16 Hp16 Hpe16 NE (cond_Zopp s (Zpos m)) e s) as C.
  change (SpecFloat.fexp 11 16) with fexp16 in C.
  change (BinarySingleNaN.round_mode NE) with ZnearestE in C.
  change (B2R 24 128 x) with (F2R (Float radix2 (cond_Zopp s (Zpos m)) e)) in Hlt |- *.
  change (f32_to_f16 x) with (binary_normalize 11 16 Hp16 Hpe16 NE (cond_Zopp s (Zpos m)) e s).
  rewrite (Rlt_bool_true _ _ Hlt) in C. destruct C as (C1 & C2 & _).
  split; [exact C1|exact C2].
Qed.
Print Assumptions C05_float16_is_rne.
Close Scope R_scope.

(* Non-vacuity / concrete instances *)
Example C05_nonvacuous :
  pack4 [1; -1; 7; -8; 3] = [241; 135; 3] /\ unpack4 5 [241; 135; 3] = [1; -1; 7; -8; 3] /\
  f32_to_f16_bits (b32_of_bits 1065353216) = 15360 (* 1.0 *) /\
  f32_to_f16_bits (b32_of_bits 1036831949) = 11878 (* 0.1f -> 0x2E66 *).
Proof. vm_compute. repeat split. Qed.
