(* Props/C13.v — every accepted (op, config) pair is sound w.r.t. the kernel
   support table; every other lattice point is refused.  The domain is the
   finite lattice of Model/Lattice.v (stated in each theorem), decided by
   vm_compute and lifted with forallb_forall. *)
From VF Require Import Base.Prelude Gen.Enums Gen.Configs Gen.Registry Gen.Checks
     Model.Recipe Model.Check Model.Lattice Spec.KernelTypes Proofs.RecipeProofs.

Definition kernel_ok (p : point) : bool :=
  match p_alg p with
  | Alg_MIN_MAX_UNIFORM_QUANT => kernel_ok_minmax (p_op p) (p_cfg p)
  | Alg_FLOAT_CASTING => kernel_ok_floatcast (p_op p) (p_cfg p)
  | Alg_NO_QUANTIZE => false
  end.

(* F20 / F21 (known findings): the accepted classes the runtime does not support *)
Definition wt_gran (p : point) (g : granularity) : bool :=
  match ocfg_weight_tensor_config (p_cfg p) with
  | Some w => granularity_eqb (tcfg_granularity w) g | None => false end.
Definition is_dynamic (p : point) : bool :=
  precision_eqb (ocfg_compute_precision (p_cfg p)) Prec_INTEGER
  && is_none (ocfg_activation_tensor_config (p_cfg p)).
Definition is_static (p : point) : bool :=
  precision_eqb (ocfg_compute_precision (p_cfg p)) Prec_INTEGER
  && negb (is_none (ocfg_activation_tensor_config (p_cfg p))).
Definition f20 (p : point) : bool :=
  accepted p && algname_eqb (p_alg p) Alg_MIN_MAX_UNIFORM_QUANT
  && ((opname_eqb (p_op p) Op_DEPTHWISE_CONV_2D && is_dynamic p && wt_gran p Gr_TENSORWISE)
      || (opname_eqb (p_op p) Op_BATCH_MATMUL && is_static p && wt_gran p Gr_CHANNELWISE)).

Definition sound_point (p : point) : bool :=
  implb (accepted p)
        (negb (is_none (lookup_registration (p_alg p) (p_op p)))   (* materializer *)
         && (match p_alg p with
             | Alg_MIN_MAX_UNIFORM_QUANT => transformations_defined (p_cfg p)
             | _ => true end)
         && (kernel_ok p || f20 p)).

Lemma sound_all : forallb sound_point lattice = true.
Proof. vm_compute. reflexivity. Qed.

(* Accepted => a materializer is registered, the execution mode is defined
   for every (inbound, constant) combination, and — outside the F20 class —
   the pair is in the kernel support table. *)
Theorem C13_accept_sound_partial :
  forall p, In p lattice -> accepted p = true ->
    lookup_registration (p_alg p) (p_op p) <> None /\
    (p_alg p = Alg_MIN_MAX_UNIFORM_QUANT -> transformations_defined (p_cfg p) = true) /\
    (f20 p = false -> kernel_ok p = true).
Proof.
  intros p Hin Hacc.
  pose proof (proj1 (forallb_forall _ _) sound_all p Hin) as H. clear Hin.
  unfold sound_point in H. rewrite Hacc in H. cbn [implb] in H.
  apply andb_true_iff in H. destruct H as [H Hk].
  apply andb_true_iff in H. destruct H as [Hr Ht].
  repeat split.
  - destruct (lookup_registration (p_alg p) (p_op p)); [discriminate|discriminate].
  - intros E. rewrite E in Ht. exact Ht.
  - intros Hf. rewrite Hf, orb_false_r in Hk. exact Hk.
Qed.
Print Assumptions C13_accept_sound_partial.

(* the full statement is FALSE of the code as it stands: dynamic-range
   depthwise convolution with per-tensor int8 weights is accepted although the
   runtime kernel needs per-channel parameters (witness replayed on the
   implementation by the C13 runtime step: garbage outputs) *)
Definition f20_witness : point :=
  {| p_alg := Alg_MIN_MAX_UNIFORM_QUANT; p_op := Op_DEPTHWISE_CONV_2D;
     p_cfg := Mk_ocfg None (Some (Mk_tcfg 8 true Gr_TENSORWISE Dt_INT 0)) Prec_INTEGER false false |}.
Definition f21_witness : point :=
  {| p_alg := Alg_MIN_MAX_UNIFORM_QUANT; p_op := Op_BATCH_MATMUL;
     p_cfg := Mk_ocfg (Some (Mk_tcfg 8 false Gr_TENSORWISE Dt_INT 0))
                      (Some (Mk_tcfg 8 true Gr_CHANNELWISE Dt_INT 0)) Prec_INTEGER false false |}.
Theorem C13_accept_sound_bmm_refuted :
  exists p, In p lattice /\ accepted p = true /\ kernel_ok p = false.
Proof.
  exists f21_witness. split; [|split; vm_compute; reflexivity].
  unfold lattice, f21_witness.
  apply in_flat_map. exists Alg_MIN_MAX_UNIFORM_QUANT. split; [cbn; auto|].
  apply in_flat_map. exists Op_BATCH_MATMUL. split; [vm_compute; auto 30|].
  apply in_map_iff. eexists. split; [reflexivity|].
  unfold lat_cfgs.
  apply in_flat_map. exists (Some (Mk_tcfg 8 false Gr_TENSORWISE Dt_INT 0)). split; [cbn; auto|].
  apply in_flat_map. exists (Mk_tcfg 8 true Gr_CHANNELWISE Dt_INT 0). split; [vm_compute; auto 30|].
  apply in_flat_map. exists Prec_INTEGER. split; [cbn; auto|].
  apply in_map_iff. exists false. split; [reflexivity|cbn; auto].
Qed.
Print Assumptions C13_accept_sound_bmm_refuted.

(* number of accepted lattice points in the two unsupported classes *)
Example C13_unsound_points : Z.of_nat (length (filter f20 lattice)) = 4.
Proof. vm_compute. reflexivity. Qed.

Theorem C13_accept_sound_refuted :
  exists p, In p lattice /\ accepted p = true /\ kernel_ok p = false.
Proof.
  exists f20_witness. split; [|split; vm_compute; reflexivity].
  unfold lattice, f20_witness.
  apply in_flat_map. exists Alg_MIN_MAX_UNIFORM_QUANT. split; [cbn; auto|].
  apply in_flat_map. exists Op_DEPTHWISE_CONV_2D. split; [vm_compute; auto 30|].
  apply in_map_iff. eexists. split; [reflexivity|].
  unfold lat_cfgs.
  apply in_flat_map. exists None. split; [cbn; auto|].
  apply in_flat_map. exists (Mk_tcfg 8 true Gr_TENSORWISE Dt_INT 0). split; [vm_compute; auto 30|].
  apply in_flat_map. exists Prec_INTEGER. split; [cbn; auto|].
  apply in_map_iff. exists false. split; [reflexivity|cbn; auto].
Qed.
Print Assumptions C13_accept_sound_refuted.

(* Conversely the kernel table contains nothing the policy refuses for a
   constructible config: acceptance is EXACTLY kernel support on the lattice,
   plus the F20 class (so a policy edit in either direction is noticed). *)
Lemma exact_all :
  forallb (fun p => Bool.eqb (accepted p)
                      (negb (Z.eqb (classify p) 0) && (kernel_ok p || f20 p))) lattice = true.
Proof. vm_compute. reflexivity. Qed.

Theorem C13_accept_iff_kernel_partial :
  forall p, In p lattice -> classify p <> 0 ->
    (accepted p = true <-> kernel_ok p = true \/ f20 p = true).
Proof.
  intros p Hin Hc.
  pose proof (proj1 (forallb_forall _ _) exact_all p Hin) as H. clear Hin. cbn beta in H.
  apply eqb_prop in H. rewrite H.
  destruct (Z.eqb_spec (classify p) 0); [contradiction|]. cbn. rewrite orb_true_iff. tauto.
Qed.
Print Assumptions C13_accept_iff_kernel_partial.

(* every point is constructed-and-accepted, refused with ValueError, or not
   constructible; no other exception *)
Lemma total_all : forallb (fun p => negb (Z.eqb (classify p) 3)) lattice = true.
Proof. vm_compute. reflexivity. Qed.

Theorem C13_reject_total :
  forall p, In p lattice -> accepted p = false ->
    classify p = 0 \/ classify p = 1.
Proof.
  intros p Hin Hacc.
  pose proof (proj1 (forallb_forall _ _) total_all p Hin) as H. clear Hin.
  cbn beta in H. unfold accepted in Hacc. unfold classify in *.
  destruct (ocfg_post_init (p_cfg p)) as [u|e].
  - destruct (api_check (AK (p_alg p)) (p_op p) (p_cfg p)) as [u2|e2].
    + cbn in Hacc. discriminate.
    + destruct e2; cbn in *; auto; discriminate.
  - destruct e; cbn in *; auto; discriminate.
Qed.
Print Assumptions C13_reject_total.

(* update-time refusal for a specific operator is a ValueError; under '*' the
   same rule is skipped at resolution time — for every check and matcher *)
Theorem C13_star_consistent :
  forall check matches regex cfg alg target scope,
    matches regex scope = true -> is_noquant alg = false ->
    get check matches [(regex, [mk_rule regex Op_ALL_SUPPORTED (Some cfg) alg])] target scope =
    if check alg target cfg then (alg, cfg) else (AK Alg_NO_QUANTIZE, default_ocfg).
Proof.
  intros check matches regex cfg alg target scope Hm Hn.
  unfold get. cbn [scan_scopes scan_rules mk_rule r_op r_alg r_cfg]. rewrite Hm.
  cbn. rewrite Hn. cbn. destruct (check alg target cfg); reflexivity.
Qed.
Print Assumptions C13_star_consistent.

Theorem C13_specific_refused :
  forall check s regex op cfg alg,
    opname_eqb op Op_ALL_SUPPORTED = false -> is_noquant alg = false ->
    check alg op cfg = false ->
    add check s regex op (Some cfg) alg = Err ValueError.
Proof.
  intros check s regex op cfg alg Ho Hn Hc. rewrite add_spec.
  unfold add_accepts. rewrite Ho, Hn, Hc. reflexivity.
Qed.
Print Assumptions C13_specific_refused.

Example C13_nonvacuous :
  Z.of_nat (length lattice) = 23040 /\ Z.of_nat (length (filter accepted lattice)) = 248.
Proof. split; vm_compute; reflexivity. Qed.
