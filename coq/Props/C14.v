(* Props/C14.v — quantize/calibrate are pure: no input mutation, no history
   dependence.  In the model every API function is a mathematical function,
   so what has to be PROVED is that the only state a Quantizer carries between
   calls — the recipe manager's scope table — influences quantize() through
   the flattened rule list alone, for every history of update / load / query
   calls; and what has to be CHECKED AGAINST THE CODE is that the
   implementation has no other state and writes to nothing the caller owns
   (correspondence P compares the caller's statistics dict before/after with
   the model's private store; the C14 oracle compares caller-owned objects
   around every API call and output hashes across histories, Quantizer
   objects, fresh processes and hash seeds). *)
From VF Require Import Base.Prelude Gen.Enums Gen.Configs Gen.Registry Gen.Checks Gen.Scopes
     Model.Recipe Model.Check Model.Graph Model.Plan Model.Insts Model.Perform Model.Pipeline
     Proofs.RecipeProofs Proofs.PurityProofs.

(* Whatever sequences of add / load / get / need_calibration calls produced
   two recipe managers: if their rule lists are equal, the whole pipeline
   (plan with buffer-sharing check, instructions, transformed graph; for every
   assignment of parameter-equality classes) returns
   the same result — same model or same exception — for every model, scope
   table, regex matcher and statistics. *)
Theorem C14_output_is_a_function_of_model_rule_list_and_statistics :
  forall mk_cls matches post_init (h1 h2 : list rop),
    let s1 := fst (run check matches post_init init h1) in
    let s2 := fst (run check matches post_init init h2) in
    flatten s1 = flatten s2 ->
    forall scope_id m scopes stats,
      pipeline_cls mk_cls matches s1 scope_id m scopes stats
      = pipeline_cls mk_cls matches s2 scope_id m scopes stats.
Proof.
  intros mk_cls matches post_init h1 h2 s1 s2 E scope_id m scopes stats.
  apply pipeline_cls_ext. apply same_flatten_same_resolution; [| |exact E];
    apply run_inv; apply Inv_init.
Qed.
Print Assumptions C14_output_is_a_function_of_model_rule_list_and_statistics.

(* queries (get_quantization_configs, need_calibration) leave the manager as it was *)
Theorem C14_queries_leave_recipe_unchanged :
  forall matches post_init s op scope,
    fst (step check matches post_init s (RGet op scope)) = s /\
    fst (step check matches post_init s RNeedCal) = s.
Proof. intros. split; [apply step_get_pure|reflexivity]. Qed.
Print Assumptions C14_queries_leave_recipe_unchanged.

(* Why the statistics must be copied on entry: plan generation WRITES the
   store it works on (same-scale ops copy the operand's entry to the results,
   fixed-range ops overwrite the result's entry).  Witness: a RESHAPE under a
   static rule — the working store gains an entry for the result.  The code
   works on a private copy since the fix of F10; correspondence P checks that
   the caller's dict is left alone while the model's working store changes. *)
Definition ex_cfg : ocfg :=
  Mk_ocfg (Some (Mk_tcfg 8 false Gr_TENSORWISE Dt_INT 0)) (Some (Mk_tcfg 8 true Gr_CHANNELWISE Dt_INT 0))
          Prec_INTEGER false false.
Definition ex_rules : state :=
  [(0, [{| r_regex := 0; r_op := Op_RESHAPE; r_alg := AK Alg_MIN_MAX_UNIFORM_QUANT; r_cfg := ex_cfg |}])].
Definition ex_m : model :=
  {| m_subgraphs := [{| sg_tensors :=
        [ {| t_root := 0; t_sfx := []; t_shape := 2; t_ty := TY_FLOAT32; t_buf := 1; t_q := None |};
          {| t_root := 1; t_sfx := []; t_shape := 1; t_ty := TY_INT32; t_buf := 2; t_q := None |};
          {| t_root := 2; t_sfx := []; t_shape := 1; t_ty := TY_FLOAT32; t_buf := 3; t_q := None |} ];
        sg_ops := [{| o_code := 0; o_ins := [0; 1]; o_outs := [2]; o_uid := 0 |}];
        sg_inputs := [0]; sg_outputs := [2] |}];
     m_buffers := [BEmpty; BEmpty; BOrig 2; BEmpty]; m_opcodes := [22]; m_sigs := [] |}.
Example C14_plan_writes_its_working_store :
  match plan (fun _ _ => true) ex_rules (m_buffers ex_m) (fun _ _ => 0) ex_m [[false]]
             (Some [(0, [])]) with
  | Ok (_, s') => s' = [((0, []), VStat (0, [])); ((2, []), VStat (0, []))]
  | Err _ => False end.
Proof. vm_compute. reflexivity. Qed.

(* Non-vacuity of the main theorem: two different histories with the same rule list *)
Example C14_nonvacuous :
  let h1 := [RAdd 0 Op_RESHAPE (Some ex_cfg) (AK Alg_MIN_MAX_UNIFORM_QUANT)] in
  let h2 := [RAdd 0 Op_ALL_SUPPORTED (Some ex_cfg) (AK Alg_MIN_MAX_UNIFORM_QUANT); RGet Op_ADD 0;
             RAdd 0 Op_ALL_SUPPORTED None (AK Alg_NO_QUANTIZE);
             RAdd 0 Op_RESHAPE (Some ex_cfg) (AK Alg_MIN_MAX_UNIFORM_QUANT); RNeedCal] in
  let s1 := fst (run check (fun _ _ => true) ocfg_post_init init h1) in
  let s2 := fst (run check (fun _ _ => true) ocfg_post_init init h2) in
  s1 <> s2 /\ flatten (fst (run check (fun _ _ => true) ocfg_post_init init
                              [RAdd 0 Op_RESHAPE (Some ex_cfg) (AK Alg_MIN_MAX_UNIFORM_QUANT); RNeedCal]))
              = flatten s1.
Proof. split; [vm_compute; discriminate|vm_compute; reflexivity]. Qed.
