(* Props/C19.v — each subgraph of a multi-signature model is transformed as if
   it stood alone.  Proved on the performer / instruction-generator models:
   a transformation step addressed to subgraph [sgid] changes nothing in any
   other subgraph (tensors, ops, I/O), in their op-id maps or in their
   signatures; the shared opcode table only grows (indices already handed out
   keep their meaning); the model-wide name-keyed tensor-info map resolves
   every tensor to its own subgraph when names are unique model-wide (the
   input contract checked by params_generator).  Shared buffers are C15's
   business.  Equality of the result with the stand-alone quantization of each
   extracted subgraph is checked end to end by the C19 oracle. *)
From VF Require Import Base.Prelude Gen.Enums Model.Graph Gen.InstChecks Model.Insts
     Model.Perform Spec.WF Proofs.ListFacts Proofs.PerformStep Proofs.ModeProofs Proofs.LocalProofs.

Theorem C19_step_is_local_to_its_subgraph :
  forall st sgid i later st' later',
    0 <= sgid ->
    apply_single st sgid i later = Ok (st', later') ->
    (forall k, k <> Z.to_nat sgid ->
       nth_opt (m_subgraphs (ps_model st')) k = nth_opt (m_subgraphs (ps_model st)) k /\
       nth_opt (ps_orig st') k = nth_opt (ps_orig st) k /\
       nth_opt (ps_added st') k = nth_opt (ps_added st) k) /\
    (forall k s, nth_opt (m_sigs (ps_model st)) k = Some s -> sd_sg s <> sgid ->
       nth_opt (m_sigs (ps_model st')) k = Some s) /\
    length (m_subgraphs (ps_model st')) = length (m_subgraphs (ps_model st)) /\
    (forall k, (k < length (m_opcodes (ps_model st)))%nat ->
       nth_opt (m_opcodes (ps_model st')) k = nth_opt (m_opcodes (ps_model st)) k).
Proof. exact apply_single_local. Qed.
Print Assumptions C19_step_is_local_to_its_subgraph.

Theorem C19_opcode_table_only_grows :
  forall code codes,
    let '(idx, codes') := add_op_code code codes in
    (forall k, (k < length codes)%nat -> nth_opt codes' k = nth_opt codes k) /\
    nthZ codes' idx = Some code /\ (length codes <= length codes')%nat.
Proof. exact add_op_code_stable. Qed.
Print Assumptions C19_opcode_table_only_grows.

Theorem C19_tensor_info_is_per_subgraph :
  forall m sgid g tid t,
    NoDup (all_keys m) ->
    nth_opt (m_subgraphs m) sgid = Some g -> nth_opt (sg_tensors g) tid = Some t ->
    lookup_info (info_map m) (name_key t) = Ok (tensor_info (Z.of_nat sgid) g (Z.of_nat tid)).
Proof.
  intros m sgid g tid t Hnd Hg Ht. apply lookup_info_own; [exact Hnd|].
  apply info_map_contains; assumption.
Qed.
Print Assumptions C19_tensor_info_is_per_subgraph.

(* tensor_info of a tensor mentions only its own subgraph *)
Theorem C19_tensor_info_depends_on_own_subgraph_only :
  forall sgid g t, tensor_info sgid g t =
    {| gi_tensor := t; gi_sg := sgid; gi_producer := producer_of g t;
       gi_consumers := if memZ t (sg_outputs g) then -1 :: consumers_of g t else consumers_of g t |}.
Proof. reflexivity. Qed.
Print Assumptions C19_tensor_info_depends_on_own_subgraph_only.

(* without the uniqueness contract the map is NOT per subgraph: two subgraphs
   with a tensor of the same name — the second one wins for both *)
Definition ex_t (r : Z) : tensor :=
  {| t_root := r; t_sfx := []; t_shape := 0; t_ty := TY_FLOAT32; t_buf := 1; t_q := None |}.
Definition ex_sg (ins : list Z) : subgraph :=
  {| sg_tensors := [ex_t 0; ex_t 1]; sg_ops := [{| o_code := 0; o_ins := ins; o_outs := [1]; o_uid := 0 |}];
     sg_inputs := [0]; sg_outputs := [1] |}.
Definition ex_m : model :=
  {| m_subgraphs := [ex_sg [0]; ex_sg [0; 0]]; m_buffers := [BEmpty; BEmpty]; m_opcodes := [0]; m_sigs := [] |}.
Example C19_unique_names_needed :
  ~ NoDup (all_keys ex_m) /\
  option_map gi_sg (match lookup_info (info_map ex_m) (0, []) with Ok i => Some i | Err _ => None end) = Some 1.
Proof.
  split; [|vm_compute; reflexivity].
  intros H. vm_compute in H. inversion H as [|? ? Hn _]. apply Hn. cbn. auto.
Qed.

Example C19_nonvacuous :
  let m := {| m_subgraphs := [ex_sg [0]; {| sg_tensors := [ex_t 2; ex_t 3]; sg_ops := sg_ops (ex_sg [0]);
                                           sg_inputs := [0]; sg_outputs := [1] |}];
              m_buffers := [BEmpty; BEmpty]; m_opcodes := [0]; m_sigs := [] |} in
  NoDup (all_keys m) /\
  match apply_single (init_pstate m) 1
          {| i_trans := Tr_ADD_QUANTIZE; i_tensor := 0; i_producer := -1; i_consumers := [0];
             i_params := Some {| qp_id := 0; qp_uniform := true; qp_bits := 8; qp_has_data := false |} |} [] with
  | Ok (st', _) => nth_opt (m_subgraphs (ps_model st')) 0 = Some (ex_sg [0]) /\
                   option_map (fun g => length (sg_ops g)) (nth_opt (m_subgraphs (ps_model st')) 1) = Some 2%nat
  | Err _ => False end.
Proof.
  split; [vm_compute; repeat constructor; cbn; intuition discriminate|vm_compute; split; reflexivity].
Qed.
