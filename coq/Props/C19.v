(* Props/C19.v — each subgraph of a multi-signature model is transformed as if
   it stood alone.  Proved on the performer / instruction-generator models:
   a transformation step addressed to subgraph [sgid] changes nothing in any
   other subgraph (tensors, ops, I/O), in their op-id maps or in their
   signatures; the shared opcode table only grows (indices already handed out
   keep their meaning); the model-wide name-keyed tensor-info map resolves
   every tensor to its own subgraph when names are unique model-wide (the
   input contract checked by params_generator).  Shared buffers are C15's
   business.  Equality of the result with the stand-alone quantization of each
   extracted subgraph is checked end to end by the C19 oracle. *)
From VF Require Import Base.Prelude Gen.Enums Model.Graph Gen.InstChecks Model.Insts
     Model.Perform Spec.WF Proofs.ListFacts Proofs.PerformStep Proofs.ModeProofs Proofs.LocalProofs
     Proofs.AloneProofs Proofs.InstsAlone Gen.Configs Gen.Scopes Model.Recipe Model.Check Model.Plan
     Model.Pipeline Proofs.PlanLocal Proofs.PipelineAlone.

Definition ex_t0 (r : Z) : tensor :=
  {| t_root := r; t_sfx := []; t_shape := 0; t_ty := TY_FLOAT32; t_buf := 1; t_q := None |}.
Definition ex_sg_named (r : Z) : subgraph :=
  {| sg_tensors := [ex_t0 r; ex_t0 (r + 1)];
     sg_ops := [{| o_code := 0; o_ins := [0]; o_outs := [1]; o_uid := 0 |}];
     sg_inputs := [0]; sg_outputs := [1] |}.

Theorem C19_step_is_local_to_its_subgraph :
  forall st sgid i later st' later',
    0 <= sgid ->
    apply_single st sgid i later = Ok (st', later') ->
    (forall k, k <> Z.to_nat sgid ->
       nth_opt (m_subgraphs (ps_model st')) k = nth_opt (m_subgraphs (ps_model st)) k /\
       nth_opt (ps_orig st') k = nth_opt (ps_orig st) k /\
       nth_opt (ps_added st') k = nth_opt (ps_added st) k) /\
    (forall k s, nth_opt (m_sigs (ps_model st)) k = Some s -> sd_sg s <> sgid ->
       nth_opt (m_sigs (ps_model st')) k = Some s) /\
    length (m_subgraphs (ps_model st')) = length (m_subgraphs (ps_model st)) /\
    (forall k, (k < length (m_opcodes (ps_model st)))%nat ->
       nth_opt (m_opcodes (ps_model st')) k = nth_opt (m_opcodes (ps_model st)) k).
Proof. exact apply_single_local. Qed.
Print Assumptions C19_step_is_local_to_its_subgraph.

Theorem C19_opcode_table_only_grows :
  forall code codes,
    let '(idx, codes') := add_op_code code codes in
    (forall k, (k < length codes)%nat -> nth_opt codes' k = nth_opt codes k) /\
    nthZ codes' idx = Some code /\ (length codes <= length codes')%nat.
Proof. exact add_op_code_stable. Qed.
Print Assumptions C19_opcode_table_only_grows.

Theorem C19_tensor_info_is_per_subgraph :
  forall m sgid g tid t,
    NoDup (all_keys m) ->
    nth_opt (m_subgraphs m) sgid = Some g -> nth_opt (sg_tensors g) tid = Some t ->
    lookup_info (info_map m) (name_key t) = Ok (tensor_info (Z.of_nat sgid) g (Z.of_nat tid)).
Proof.
  intros m sgid g tid t Hnd Hg Ht. apply lookup_info_own; [exact Hnd|].
  apply info_map_contains; assumption.
Qed.
Print Assumptions C19_tensor_info_is_per_subgraph.

(* tensor_info of a tensor mentions only its own subgraph *)
Theorem C19_tensor_info_depends_on_own_subgraph_only :
  forall sgid g t, tensor_info sgid g t =
    {| gi_tensor := t; gi_sg := sgid; gi_producer := producer_of g t;
       gi_consumers := if memZ t (sg_outputs g) then -1 :: consumers_of g t else consumers_of g t |}.
Proof. reflexivity. Qed.
Print Assumptions C19_tensor_info_depends_on_own_subgraph_only.

(* ---- whole runs: "as if it stood alone" (Proofs/AloneProofs.v) ----
   [same_subgraph_result k1 k2 m1 m2]: subgraph k1 of m1 and subgraph k2 of m2
   have the same tensors (names, shapes, dtypes, buffers, parameters), the
   same inputs/outputs, pointwise the same operators (operands, results,
   options, and the same BUILTIN code when the opcode index is read through
   the respective opcode table), and their signatures list the same tensors.
   Proved by a simulation: the performer's work on subgraph k is a function
   of that subgraph, its op-id maps, its signatures, the number of buffers
   and its own instructions; steps on other subgraphs only append to the
   shared opcode table. *)
Theorem C19_result_depends_on_own_instructions_only :
  forall m tis m1 k g,
    nth_opt (m_subgraphs m) k = Some g -> codes_in_range (m_opcodes m) g ->
    Forall (fun ti => 0 <= ti_sg ti) tis ->
    transform_graph m tis = Ok m1 ->
    exists m2, transform_graph m (filter (own k) tis) = Ok m2 /\ same_subgraph_result k k m1 m2.
Proof. exact transform_graph_own_instructions. Qed.
Print Assumptions C19_result_depends_on_own_instructions_only.

(* the model that consists of subgraph k alone (same buffers and opcode
   table, k's signatures re-pointed to subgraph 0), given k's instructions *)
Theorem C19_subgraph_transformed_as_if_it_stood_alone :
  forall m tis m1 k g,
    nth_opt (m_subgraphs m) k = Some g -> codes_in_range (m_opcodes m) g ->
    Forall (fun ti => 0 <= ti_sg ti) tis ->
    transform_graph m tis = Ok m1 ->
    exists m2, transform_graph (alone m k g) (map (retarget 0) (filter (own k) tis)) = Ok m2 /\
               same_subgraph_result k 0 m1 m2.
Proof. exact transform_graph_alone. Qed.
Print Assumptions C19_subgraph_transformed_as_if_it_stood_alone.

(* one stage earlier: the INSTRUCTION GENERATOR is per subgraph too.  With
   model-wide unique tensor names (the input contract; `NoDup (all_keys m)`),
   the instructions generated from a plan entry named after a tensor of
   subgraph k are the same in the whole model and in k alone, and they are
   addressed to k ... *)
Theorem C19_instructions_are_generated_per_subgraph :
  forall m k g p,
    NoDup (all_keys m) -> nth_opt (m_subgraphs m) k = Some g -> in_subgraph g (ttp_name p) ->
    quant_params_to_insts (info_map (alone m k g)) p =
      res_map (set_sg 0) (quant_params_to_insts (info_map m) p) /\
    (forall ti, quant_params_to_insts (info_map m) p = Ok ti -> ti_sg ti = Z.of_nat k).
Proof. exact insts_per_subgraph. Qed.
Print Assumptions C19_instructions_are_generated_per_subgraph.

(* ... so generator + performer on the whole model, and on subgraph k alone
   given the plan entries named after k's tensors, produce the same subgraph *)
Theorem C19_generated_and_transformed_as_if_alone :
  forall m k g ps tis m1,
    NoDup (all_keys m) -> nth_opt (m_subgraphs m) k = Some g -> codes_in_range (m_opcodes m) g ->
    insts_of_params m ps = Ok tis -> transform_graph m tis = Ok m1 ->
    exists tis2 m2, insts_of_params (alone m k g) (filter (named_in g) ps) = Ok tis2 /\
                    transform_graph (alone m k g) tis2 = Ok m2 /\ same_subgraph_result k 0 m1 m2.
Proof. exact generate_and_transform_alone. Qed.
Print Assumptions C19_generated_and_transformed_as_if_alone.

(* and one stage earlier still: the PARAMS GENERATOR.  It keeps one result
   dict and one statistics dict for the whole model, keyed by tensor name; an
   operator reads and writes them only at names of its own subgraph's tensors
   (every materialise function, incl. the statistic overwrites of same-scale
   and fixed-range ops).  So the plan entries named after subgraph k's tensors
   (`filt (nb_of g) rs`) are the plan of k alone, for every recipe state, all
   statistics and all models whose other subgraphs use other names: *)
Theorem C19_plan_of_a_subgraph_is_its_stand_alone_plan :
  forall matches rules nb scope_id bufs m m2 scopes stats k g sc rs s,
    nth_opt (combine (m_subgraphs m) scopes) k = Some (g, sc) ->
    m_subgraphs m2 = [g] -> m_opcodes m2 = m_opcodes m ->
    inside nb (sg_tensors g) ->
    (forall j g' sc', nth_opt (combine (m_subgraphs m) scopes) j = Some (g', sc') -> j <> k ->
                      outside nb (sg_tensors g')) ->
    plan matches rules bufs scope_id m scopes stats = Ok (rs, s) ->
    exists s', plan matches rules bufs (fun _ => scope_id (Z.of_nat k)) m2 [sc] stats = Ok (filt nb rs, s') /\
               agree (fun n => nb n = true) s s'.
Proof. exact plan_of_subgraph_alone. Qed.
Print Assumptions C19_plan_of_a_subgraph_is_its_stand_alone_plan.

(* all three stages — plan generation, instruction generation, graph
   transformation — on the whole model and on subgraph k alone (same recipe
   state, statistics, buffers, opcode table; one parameter classification
   [cls] on both sides, as parameter values are in the code): same plan
   entries, same instructions, same resulting subgraph.  The buffer-sharing
   check between the first two stages is cross-subgraph by nature (C15). *)
Theorem C19_all_stages_as_if_the_subgraph_stood_alone :
  forall matches rules scope_id cls m scopes stats k g sc rs s tis m1,
    NoDup (all_keys m) ->
    nth_opt (combine (m_subgraphs m) scopes) k = Some (g, sc) -> codes_in_range (m_opcodes m) g ->
    plan matches rules (m_buffers m) scope_id m scopes stats = Ok (rs, s) ->
    insts_of_params m (map (to_ttp cls) rs) = Ok tis ->
    transform_graph m tis = Ok m1 ->
    exists s' tis2 m2,
      plan matches rules (m_buffers (alone m k g)) (fun _ => scope_id (Z.of_nat k)) (alone m k g) [sc] stats
        = Ok (filt (nb_of g) rs, s') /\
      insts_of_params (alone m k g) (map (to_ttp cls) (filt (nb_of g) rs)) = Ok tis2 /\
      transform_graph (alone m k g) tis2 = Ok m2 /\
      same_subgraph_result k 0 m1 m2.
Proof. exact stages_alone. Qed.
Print Assumptions C19_all_stages_as_if_the_subgraph_stood_alone.

(* The whole modelled pipeline checks the uniqueness contract itself
   (ParamsGenerator.__init__: ValueError on a repeated tensor name), so the
   statement needs no hypothesis about names: WHENEVER the pipeline returns,
   subgraph k of its result is what the three stages produce on k alone. *)
Theorem C19_pipeline_result_is_per_subgraph :
  forall mk_cls matches rules scope_id m scopes stats m1 rs k g sc,
    pipeline_cls mk_cls matches rules scope_id m scopes stats = Ok (m1, rs) ->
    nth_opt (combine (m_subgraphs m) scopes) k = Some (g, sc) -> codes_in_range (m_opcodes m) g ->
    exists s' tis2 m2,
      plan matches rules (m_buffers (alone m k g)) (fun _ => scope_id (Z.of_nat k)) (alone m k g) [sc] stats
        = Ok (filt (nb_of g) rs, s') /\
      insts_of_params (alone m k g) (map (to_ttp (mk_cls (terms_of rs))) (filt (nb_of g) rs)) = Ok tis2 /\
      transform_graph (alone m k g) tis2 = Ok m2 /\
      same_subgraph_result k 0 m1 m2.
Proof. exact pipeline_subgraph_alone. Qed.
Print Assumptions C19_pipeline_result_is_per_subgraph.

(* and a model that repeats a name in another subgraph is refused *)
Example C19_repeated_name_is_refused :
  plan_checked (fun _ _ => true) init (fun _ _ => 0)
    {| m_subgraphs := [ex_sg_named 0; ex_sg_named 1]; m_buffers := [BEmpty; BEmpty]; m_opcodes := [0]; m_sigs := [] |}
    [[false]; [false]] None = Err ValueError.
Proof. vm_compute. reflexivity. Qed.

(* non-vacuity: two subgraphs with different tensor names; the plan of the
   whole model succeeds, and its entries for subgraph 1 are the plan of
   subgraph 1 alone *)
Example C19_plan_alone_nonvacuous :
  let g1 := ex_sg_named 2 in
  let m := {| m_subgraphs := [ex_sg_named 0; g1]; m_buffers := [BEmpty; BEmpty]; m_opcodes := [0]; m_sigs := [] |} in
  NoDup (all_keys m) /\
  match plan (fun _ _ => true) init (m_buffers m) (fun _ _ => 0) m [[false]; [false]] None with
  | Ok (rs, _) =>
      length rs = 4%nat /\ length (filt (nb_of g1) rs) = 2%nat /\
      option_map fst (match plan (fun _ _ => true) init (m_buffers m) (fun _ _ => 0) (alone m 1 g1) [[false]] None with
                      | Ok r => Some r | Err _ => None end) = Some (filt (nb_of g1) rs)
  | Err _ => False end.
Proof.
  split; [vm_compute; repeat constructor; cbn; intuition discriminate|vm_compute; repeat split].
Qed.

(* the step-level facts behind it, for ANY two states that agree on the subgraph *)
Theorem C19_same_instruction_same_effect :
  forall k1 k2 s1 s2 i later s1' later1,
    sim k1 k2 s1 s2 -> apply_single s1 (Z.of_nat k1) i later = Ok (s1', later1) ->
    exists s2', apply_single s2 (Z.of_nat k2) i later = Ok (s2', later1) /\ sim k1 k2 s1' s2'.
Proof. exact apply_single_sim. Qed.
Print Assumptions C19_same_instruction_same_effect.

Theorem C19_other_subgraphs_steps_are_invisible :
  forall k1 k2 s1 s2 sg i later s1' later',
    sim k1 k2 s1 s2 -> 0 <= sg -> Z.to_nat sg <> k1 ->
    apply_single s1 sg i later = Ok (s1', later') -> sim k1 k2 s1' s2.
Proof. exact apply_single_frame. Qed.
Print Assumptions C19_other_subgraphs_steps_are_invisible.

(* non-vacuity of the composition: a two-subgraph model, one QUANTIZE inserted
   in each; subgraph 1 of the result is what the stand-alone run produces *)
Example C19_alone_nonvacuous :
  let g0 := ex_sg_named 0 in let g1 := ex_sg_named 2 in
  let m := {| m_subgraphs := [g0; g1]; m_buffers := [BEmpty; BEmpty]; m_opcodes := [0]; m_sigs := [] |} in
  let ins := {| i_trans := Tr_ADD_QUANTIZE; i_tensor := 0; i_producer := -1; i_consumers := [0];
                i_params := Some {| qp_id := 0; qp_uniform := true; qp_bits := 8; qp_has_data := false |} |} in
  let tis := [{| ti_name := (0, []); ti_sg := 0; ti_insts := [ins] |};
              {| ti_name := (2, []); ti_sg := 1; ti_insts := [ins] |}] in
  match transform_graph m tis, transform_graph (alone m 1 g1) (map (retarget 0) (filter (own 1) tis)) with
  | Ok m1, Ok m2 =>
      option_map sg_tensors (nth_opt (m_subgraphs m1) 1) = option_map sg_tensors (nth_opt (m_subgraphs m2) 0) /\
      option_map (fun g => length (sg_ops g)) (nth_opt (m_subgraphs m1) 1) = Some 2%nat
  | _, _ => False end.
Proof. vm_compute. split; reflexivity. Qed.

(* without the uniqueness contract the map is NOT per subgraph: two subgraphs
   with a tensor of the same name — the second one wins for both *)
Definition ex_t (r : Z) : tensor :=
  {| t_root := r; t_sfx := []; t_shape := 0; t_ty := TY_FLOAT32; t_buf := 1; t_q := None |}.
Definition ex_sg (ins : list Z) : subgraph :=
  {| sg_tensors := [ex_t 0; ex_t 1]; sg_ops := [{| o_code := 0; o_ins := ins; o_outs := [1]; o_uid := 0 |}];
     sg_inputs := [0]; sg_outputs := [1] |}.
Definition ex_m : model :=
  {| m_subgraphs := [ex_sg [0]; ex_sg [0; 0]]; m_buffers := [BEmpty; BEmpty]; m_opcodes := [0]; m_sigs := [] |}.
Example C19_unique_names_needed :
  ~ NoDup (all_keys ex_m) /\
  option_map gi_sg (match lookup_info (info_map ex_m) (0, []) with Ok i => Some i | Err _ => None end) = Some 1.
Proof.
  split; [|vm_compute; reflexivity].
  intros H. vm_compute in H. inversion H as [|? ? Hn _]. apply Hn. cbn. auto.
Qed.

Example C19_nonvacuous :
  let m := {| m_subgraphs := [ex_sg [0]; {| sg_tensors := [ex_t 2; ex_t 3]; sg_ops := sg_ops (ex_sg [0]);
                                           sg_inputs := [0]; sg_outputs := [1] |}];
              m_buffers := [BEmpty; BEmpty]; m_opcodes := [0]; m_sigs := [] |} in
  NoDup (all_keys m) /\
  match apply_single (init_pstate m) 1
          {| i_trans := Tr_ADD_QUANTIZE; i_tensor := 0; i_producer := -1; i_consumers := [0];
             i_params := Some {| qp_id := 0; qp_uniform := true; qp_bits := 8; qp_has_data := false |} |} [] with
  | Ok (st', _) => nth_opt (m_subgraphs (ps_model st')) 0 = Some (ex_sg [0]) /\
                   option_map (fun g => length (sg_ops g)) (nth_opt (m_subgraphs (ps_model st')) 1) = Some 2%nat
  | Err _ => False end.
Proof.
  split; [vm_compute; repeat constructor; cbn; intuition discriminate|vm_compute; split; reflexivity].
Qed.
