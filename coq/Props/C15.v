(* Props/C15.v — shared constants are quantized consistently or the request is
   rejected.  (a) What the buffer-sharing check's compatibility predicate
   (REGENERATED from params_generator.py) guarantees for two tensors on one
   constant buffer; (b) writing a constant keeps bytes, dtype and parameters
   in step, touches no other buffer, and a second write with equal parameters
   is idempotent.  The loop over buffer groups and the whole pipeline are tied
   by correspondences P/I/T/E; per-buffer consistency of every returned model
   is checked by the decode oracle. *)
From VF Require Import Base.Prelude Gen.Enums Gen.Configs Gen.Registry Gen.Checks
     Gen.MatDesc Gen.InstChecks Model.Graph Model.Perform Spec.WF Proofs.ListFacts
     Model.Plan Proofs.PerformStep Proofs.ModeProofs Proofs.SharingProofs Proofs.UntouchedProofs Proofs.SharingScan.

(* two users of a constant buffer that pass the check either both keep the
   float bytes or both rewrite them with EQUAL parameters: a float consumer
   never reads integer bytes and vice versa *)
Theorem C15_compatible_users_agree :
  forall p1 p2 t1 r1 t2 r2,
    o2t_trans p1 = t1 :: r1 -> o2t_trans p2 = t2 :: r2 ->
    _compatible_tensor_params p1 p2 = Ok true ->
    quantized_source t1 = quantized_source t2 /\
    (quantized_source t1 = true -> params_agree p1 p2 = true).
Proof. exact compatible_sound. Qed.
Print Assumptions C15_compatible_users_agree.

(* rewriting a constant: the tensor gets the parameters' id and integer dtype,
   its buffer (if it has one and the parameters carry data) holds exactly the
   data quantized with those parameters, and no other buffer changes *)
Theorem C15_write_is_consistent :
  forall bufs g tid p bufs' g',
    0 <= tid -> (forall t, tensor_at g tid = Some t -> 0 <= t_buf t) ->
    qp_uniform p = true ->
    quantize_tensor bufs g tid (Some p) = Ok (bufs', g') ->
    exists t t', tensor_at g tid = Some t /\ tensor_at g' tid = Some t' /\
      t_buf t' = t_buf t /\ t_q t' = Some (qp_id p) /\
      quant_params_to_tflite_type (qp_bits p) = Ok (t_ty t') /\
      (t_buf t <> 0 -> qp_has_data p = true -> nthZ bufs' (t_buf t) = Some (BQuant (qp_id p))) /\
      (forall b, b <> t_buf t -> nthZ bufs' b = nthZ bufs b).
Proof. exact quantize_tensor_consistent. Qed.
Print Assumptions C15_write_is_consistent.

(* a second tensor on the same buffer quantized with the same parameters
   leaves the bytes as they are: the buffer is "quantized exactly once" *)
Theorem C15_second_write_same_bytes :
  forall bufs g tid p bufs1 g1 tid2 bufs2 g2 t t2,
    0 <= tid -> 0 <= tid2 ->
    (forall k t, tensor_at g k = Some t -> 0 <= t_buf t) ->
    qp_uniform p = true -> qp_has_data p = true ->
    tensor_at g tid = Some t -> tensor_at g tid2 = Some t2 -> tid <> tid2 ->
    t_buf t2 = t_buf t -> t_buf t <> 0 ->
    quantize_tensor bufs g tid (Some p) = Ok (bufs1, g1) ->
    quantize_tensor bufs1 g1 tid2 (Some p) = Ok (bufs2, g2) ->
    forall b, nthZ bufs2 b = nthZ bufs1 b.
Proof.
  intros bufs g tid p bufs1 g1 tid2 bufs2 g2 t t2 H0 H02 Hnn Hu Hd Ht Ht2 Hne Hsame Hb0 Q1 Q2 b.
  destruct (quantize_tensor_consistent _ _ _ _ _ _ H0 (fun t => Hnn tid t) Hu Q1)
    as (ta & ta' & Ea & Ea' & _ & _ & _ & W1 & O1).
  rewrite Ht in Ea. inversion Ea; subst ta.
  (* tensor tid2 is untouched by the first write *)
  destruct (quantize_tensor_effect _ _ _ _ _ _ H0 (fun t => Hnn tid t) Q1) as (tb & Eb & Hoth & _).
  assert (Ht2' : tensor_at g1 tid2 = Some t2) by (rewrite Hoth by congruence; exact Ht2).
  assert (Hnn1 : forall t0, tensor_at g1 tid2 = Some t0 -> 0 <= t_buf t0).
  { intros t0 E. rewrite Ht2' in E. inversion E; subst. eapply Hnn; exact Ht2. }
  destruct (quantize_tensor_consistent _ _ _ _ _ _ H02 Hnn1 Hu Q2)
    as (tc & tc' & Ec & _ & _ & _ & _ & W2 & O2).
  rewrite Ht2' in Ec. inversion Ec; subst tc.
  destruct (Z.eq_dec b (t_buf t2)) as [->|Hb].
  - rewrite W2 by (try congruence; assumption). rewrite Hsame. symmetry. apply W1; assumption.
  - apply O2. exact Hb.
Qed.
Print Assumptions C15_second_write_same_bytes.

(* Non-vacuity: tied weights — two tensors on buffer 1, both quantized with
   the same int8 parameters: one BQuant entry, both tensors int8 with that id *)
Definition ex_g : subgraph :=
  {| sg_tensors := [ {| t_root := 0; t_sfx := []; t_shape := 2; t_ty := TY_FLOAT32; t_buf := 1; t_q := None |};
                     {| t_root := 1; t_sfx := []; t_shape := 2; t_ty := TY_FLOAT32; t_buf := 1; t_q := None |} ];
     sg_ops := []; sg_inputs := []; sg_outputs := [] |}.
Definition ex_p : qparam := {| qp_id := 3; qp_uniform := true; qp_bits := 8; qp_has_data := true |}.
(* over WHOLE performer runs: two tensors (of any two subgraphs) that sit on
   one buffer and are both quantized in place with the SAME parameters — which
   is what the buffer-sharing check enforces (C15_compatible_users_agree) —
   come back on the same buffer with the same dtype and the same annotation *)
Theorem C15_sharers_quantized_in_place_agree :
  forall m m' p
         k1 g1 t1 x1 pre1 ti1 post1 i1 rest1
         k2 g2 t2 x2 pre2 ti2 post2 i2 rest2,
    qp_uniform p = true -> t_buf x1 = t_buf x2 ->
    nth_opt (m_subgraphs m) k1 = Some g1 -> tensor_at g1 t1 = Some x1 -> 0 <= t1 ->
    nth_opt (m_subgraphs m) k2 = Some g2 -> tensor_at g2 t2 = Some x2 -> 0 <= t2 ->
    pre1 ++ ti1 :: post1 = pre2 ++ ti2 :: post2 -> ids_ok (pre1 ++ ti1 :: post1) ->
    never_names k1 t1 pre1 -> never_names k1 t1 post1 ->
    never_names k2 t2 pre2 -> never_names k2 t2 post2 ->
    ti_sg ti1 = Z.of_nat k1 -> ti_insts ti1 = i1 :: rest1 -> i_tensor i1 = t1 ->
    (i_trans i1 = Tr_QUANTIZE_TENSOR \/ i_trans i1 = Tr_ADD_DEQUANTIZE) -> i_params i1 = Some p -> agree p t1 rest1 ->
    ti_sg ti2 = Z.of_nat k2 -> ti_insts ti2 = i2 :: rest2 -> i_tensor i2 = t2 ->
    (i_trans i2 = Tr_QUANTIZE_TENSOR \/ i_trans i2 = Tr_ADD_DEQUANTIZE) -> i_params i2 = Some p -> agree p t2 rest2 ->
    transform_graph m (pre1 ++ ti1 :: post1) = Ok m' ->
    exists g1' g2' y1 y2,
      nth_opt (m_subgraphs m') k1 = Some g1' /\ tensor_at g1' t1 = Some y1 /\
      nth_opt (m_subgraphs m') k2 = Some g2' /\ tensor_at g2' t2 = Some y2 /\
      t_buf y1 = t_buf y2 /\ t_ty y1 = t_ty y2 /\ t_q y1 = t_q y2 /\ t_q y1 = Some (qp_id p).
Proof.
  intros m m' p k1 g1 t1 x1 pre1 ti1 post1 i1 rest1 k2 g2 t2 x2 pre2 ti2 post2 i2 rest2
         Hu Hb G1 X1 T1 G2 X2 T2 Esplit Hok N1a N1b N2a N2b S1 I1 E1 Tr1 P1 A1 S2 I2 E2 Tr2 P2 A2 H.
  destruct (transform_graph_quantized_in_place _ _ _ _ _ _ _ _ _ _ _ _ G1 X1 T1 Hok N1a N1b S1 I1 E1 Tr1 P1 A1 H)
    as (g1' & y1 & Hg1 & Hy1 & Q1).
  rewrite Esplit in H, Hok.
  destruct (transform_graph_quantized_in_place _ _ _ _ _ _ _ _ _ _ _ _ G2 X2 T2 Hok N2a N2b S2 I2 E2 Tr2 P2 A2 H)
    as (g2' & y2 & Hg2 & Hy2 & Q2).
  exists g1', g2', y1, y2. repeat split; try assumption.
  - destruct Q1 as (_ & _ & _ & B1 & _), Q2 as (_ & _ & _ & B2 & _). congruence.
  - destruct Q1 as (_ & _ & _ & _ & C1), Q2 as (_ & _ & _ & _ & C2). rewrite Hu in C1, C2.
    destruct C1 as [C1 _], C2 as [C2 _]. rewrite C1 in C2. inversion C2. reflexivity.
  - destruct Q1 as (_ & _ & _ & _ & C1), Q2 as (_ & _ & _ & _ & C2). rewrite Hu in C1, C2.
    destruct C1 as [_ C1], C2 as [_ C2]. congruence.
  - destruct Q1 as (_ & _ & _ & _ & C1). rewrite Hu in C1. exact (proj2 C1).
Qed.
Print Assumptions C15_sharers_quantized_in_place_agree.

(* the buffer-sharing check visits everything: every operand occurrence of
   every operator is listed under its buffer, and when the check returns, the
   first listed user of each constant buffer and EVERY other listed user
   passed the compatibility predicate (no group skipped, no member skipped) *)
Theorem C15_every_operand_is_listed_under_its_buffer :
  forall m g o x t,
    In g (m_subgraphs m) -> In o (sg_ops g) -> In x (o_outs o ++ o_ins o) -> x <> -1 ->
    nthZ (sg_tensors g) x = Some t ->
    exists ns, In (t_buf t, ns) (buffer_groups m) /\ In (tname t) ns.
Proof. exact buffer_groups_lists_every_operand. Qed.
Print Assumptions C15_every_operand_is_listed_under_its_buffer.

Theorem C15_check_visits_every_group_and_member :
  forall bufs cls m rs,
    check_buffer_sharing_with bufs cls m rs = Ok tt ->
    forall b first second rest v n,
      In (b, first :: second :: rest) (buffer_groups m) ->
      nthZ bufs b = Some (BOrig v) ->
      In n (second :: rest) ->
      exists p1 p2, find_plan rs first = Ok p1 /\ find_plan rs n = Ok p2 /\
                    compatible_ttp (to_ttp cls p1) (to_ttp cls p2) = Ok true.
Proof. exact check_buffer_sharing_visits_all. Qed.
Print Assumptions C15_check_visits_every_group_and_member.

Example C15_nonvacuous :
  match quantize_tensor [BEmpty; BOrig 1] ex_g 0 (Some ex_p) with
  | Ok (b1, g1) =>
      match quantize_tensor b1 g1 1 (Some ex_p) with
      | Ok (b2, g2) => b2 = [BEmpty; BQuant 3] /\ b1 = b2 /\
                       map t_ty (sg_tensors g2) = [TY_INT8; TY_INT8] /\
                       map t_q (sg_tensors g2) = [Some 3; Some 3]
      | Err _ => False end
  | Err _ => False end.
Proof. vm_compute. repeat split. Qed.
