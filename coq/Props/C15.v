(* Props/C15.v — shared constants are quantized consistently or the request is
   rejected.  (a) What the buffer-sharing check's compatibility predicate
   (REGENERATED from params_generator.py) guarantees for two tensors on one
   constant buffer; (b) writing a constant keeps bytes, dtype and parameters
   in step, touches no other buffer, and a second write with equal parameters
   is idempotent.  The loop over buffer groups and the whole pipeline are tied
   by correspondences P/I/T/E; per-buffer consistency of every returned model
   is checked by the decode oracle. *)
From VF Require Import Base.Prelude Gen.Enums Gen.Configs Gen.Registry Gen.Checks
     Gen.MatDesc Gen.InstChecks Model.Graph Model.Perform Spec.WF Proofs.ListFacts
     Proofs.PerformStep Proofs.ModeProofs Proofs.SharingProofs.

(* two users of a constant buffer that pass the check either both keep the
   float bytes or both rewrite them with EQUAL parameters: a float consumer
   never reads integer bytes and vice versa *)
Theorem C15_compatible_users_agree :
  forall p1 p2 t1 r1 t2 r2,
    o2t_trans p1 = t1 :: r1 -> o2t_trans p2 = t2 :: r2 ->
    _compatible_tensor_params p1 p2 = Ok true ->
    quantized_source t1 = quantized_source t2 /\
    (quantized_source t1 = true -> params_agree p1 p2 = true).
Proof. exact compatible_sound. Qed.
Print Assumptions C15_compatible_users_agree.

(* rewriting a constant: the tensor gets the parameters' id and integer dtype,
   its buffer (if it has one and the parameters carry data) holds exactly the
   data quantized with those parameters, and no other buffer changes *)
Theorem C15_write_is_consistent :
  forall bufs g tid p bufs' g',
    0 <= tid -> (forall t, tensor_at g tid = Some t -> 0 <= t_buf t) ->
    qp_uniform p = true ->
    quantize_tensor bufs g tid (Some p) = Ok (bufs', g') ->
    exists t t', tensor_at g tid = Some t /\ tensor_at g' tid = Some t' /\
      t_buf t' = t_buf t /\ t_q t' = Some (qp_id p) /\
      quant_params_to_tflite_type (qp_bits p) = Ok (t_ty t') /\
      (t_buf t <> 0 -> qp_has_data p = true -> nthZ bufs' (t_buf t) = Some (BQuant (qp_id p))) /\
      (forall b, b <> t_buf t -> nthZ bufs' b = nthZ bufs b).
Proof. exact quantize_tensor_consistent. Qed.
Print Assumptions C15_write_is_consistent.

(* a second tensor on the same buffer quantized with the same parameters
   leaves the bytes as they are: the buffer is "quantized exactly once" *)
Theorem C15_second_write_same_bytes :
  forall bufs g tid p bufs1 g1 tid2 bufs2 g2 t t2,
    0 <= tid -> 0 <= tid2 ->
    (forall k t, tensor_at g k = Some t -> 0 <= t_buf t) ->
    qp_uniform p = true -> qp_has_data p = true ->
    tensor_at g tid = Some t -> tensor_at g tid2 = Some t2 -> tid <> tid2 ->
    t_buf t2 = t_buf t -> t_buf t <> 0 ->
    quantize_tensor bufs g tid (Some p) = Ok (bufs1, g1) ->
    quantize_tensor bufs1 g1 tid2 (Some p) = Ok (bufs2, g2) ->
    forall b, nthZ bufs2 b = nthZ bufs1 b.
Proof.
  intros bufs g tid p bufs1 g1 tid2 bufs2 g2 t t2 H0 H02 Hnn Hu Hd Ht Ht2 Hne Hsame Hb0 Q1 Q2 b.
  destruct (quantize_tensor_consistent _ _ _ _ _ _ H0 (fun t => Hnn tid t) Hu Q1)
    as (ta & ta' & Ea & Ea' & _ & _ & _ & W1 & O1).
  rewrite Ht in Ea. inversion Ea; subst ta.
  (* tensor tid2 is untouched by the first write *)
  destruct (quantize_tensor_effect _ _ _ _ _ _ H0 (fun t => Hnn tid t) Q1) as (tb & Eb & Hoth & _).
  assert (Ht2' : tensor_at g1 tid2 = Some t2) by (rewrite Hoth by congruence; exact Ht2).
  assert (Hnn1 : forall t0, tensor_at g1 tid2 = Some t0 -> 0 <= t_buf t0).
  { intros t0 E. rewrite Ht2' in E. inversion E; subst. eapply Hnn; exact Ht2. }
  destruct (quantize_tensor_consistent _ _ _ _ _ _ H02 Hnn1 Hu Q2)
    as (tc & tc' & Ec & _ & _ & _ & _ & W2 & O2).
  rewrite Ht2' in Ec. inversion Ec; subst tc.
  destruct (Z.eq_dec b (t_buf t2)) as [->|Hb].
  - rewrite W2 by (try congruence; assumption). rewrite Hsame. symmetry. apply W1; assumption.
  - apply O2. exact Hb.
Qed.
Print Assumptions C15_second_write_same_bytes.

(* Non-vacuity: tied weights — two tensors on buffer 1, both quantized with
   the same int8 parameters: one BQuant entry, both tensors int8 with that id *)
Definition ex_g : subgraph :=
  {| sg_tensors := [ {| t_root := 0; t_sfx := []; t_shape := 2; t_ty := TY_FLOAT32; t_buf := 1; t_q := None |};
                     {| t_root := 1; t_sfx := []; t_shape := 2; t_ty := TY_FLOAT32; t_buf := 1; t_q := None |} ];
     sg_ops := []; sg_inputs := []; sg_outputs := [] |}.
Definition ex_p : qparam := {| qp_id := 3; qp_uniform := true; qp_bits := 8; qp_has_data := true |}.
Example C15_nonvacuous :
  match quantize_tensor [BEmpty; BOrig 1] ex_g 0 (Some ex_p) with
  | Ok (b1, g1) =>
      match quantize_tensor b1 g1 1 (Some ex_p) with
      | Ok (b2, g2) => b2 = [BEmpty; BQuant 3] /\ b1 = b2 /\
                       map t_ty (sg_tensors g2) = [TY_INT8; TY_INT8] /\
                       map t_q (sg_tensors g2) = [Some 3; Some 3]
      | Err _ => False end
  | Err _ => False end.
Proof. vm_compute. repeat split. Qed.
