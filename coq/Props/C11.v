(* Props/C11.v — Recipe resolution follows the documented
   last-applicable-rule-wins model.  Only statements, closed by lemmas of
   Proofs/, each followed by Print Assumptions. *)
From VF Require Import Base.Prelude Gen.Enums Gen.Configs Gen.Checks
     Model.Recipe Model.Check Proofs.RecipeProofs Proofs.CheckProofs.

(* For EVERY support check, regex matcher, and reachable state: the resolved
   (algorithm, config) is that of the last applicable rule of the flattened
   rule list (scopes in order of first insertion, rules in insertion order);
   with no applicable rule the operator is not quantized. *)
Theorem C11_get_is_last_applicable :
  forall (check : akey -> opname -> ocfg -> bool) (matches : Z -> Z -> bool)
         (s : state) (target : opname) (scope : Z),
    Inv check s ->
    get check matches s target scope =
    resolve_spec check matches (flatten s) target scope.
Proof.
  intros check matches s target scope HI. unfold get, resolve_spec.
  rewrite scan_scopes_fold by (eapply Inv_keys_ok; eassumption).
  apply resolve_fold_last.
Qed.
Print Assumptions C11_get_is_last_applicable.

(* Every state reachable by any sequence of add / load / query operations
   satisfies the invariant (regexes unique and in first-insertion order, each
   scope non-empty, one rule per operator, '*' only at the head, every
   specific-operator rule passed the support check). *)
Theorem C11_reachable_inv :
  forall check matches post_init (ops : list rop),
    Inv check (fst (run check matches post_init init ops)).
Proof. intros. apply run_inv. apply Inv_init. Qed.
Print Assumptions C11_reachable_inv.

(* The documented edit performed by one add. *)
Theorem C11_add_model :
  forall check s regex op cfg alg,
    add check s regex op cfg alg =
    if add_accepts check op cfg alg
    then Ok (assign s regex (add_scope (lookup s regex) (mk_rule regex op cfg alg)))
    else Err ValueError.
Proof. exact add_spec. Qed.
Print Assumptions C11_add_model.

Theorem C11_scope_order :
  forall s k v, keys (assign s k v) = if memZ k (keys s) then keys s else keys s ++ [k].
Proof. exact keys_assign. Qed.
Print Assumptions C11_scope_order.

Theorem C11_other_scopes_untouched :
  forall s k v k2, k2 <> k -> lookup (assign s k v) k2 = lookup s k2.
Proof. exact lookup_assign_other. Qed.
Print Assumptions C11_other_scopes_untouched.

(* Resolution is a pure function of the rule list: queries do not change the
   state, and two states with the same flattened rules resolve identically. *)
Theorem C11_query_pure :
  forall check matches post_init s op scope,
    fst (step check matches post_init s (RGet op scope)) = s.
Proof. exact step_get_pure. Qed.
Print Assumptions C11_query_pure.

Theorem C11_resolution_function_of_rules :
  forall check matches s1 s2 target scope,
    Inv check s1 -> Inv check s2 -> flatten s1 = flatten s2 ->
    get check matches s1 target scope = get check matches s2 target scope.
Proof.
  intros. rewrite !C11_get_is_last_applicable by assumption. congruence.
Qed.
Print Assumptions C11_resolution_function_of_rules.

(* The concrete support check of this code base only returns or raises
   ValueError, which is what the boolean [check] abstracts. *)
Theorem C11_check_raises_only_ValueError :
  forall a o c, api_check a o c = Ok tt \/ api_check a o c = Err ValueError.
Proof. exact api_check_VE. Qed.
Print Assumptions C11_check_raises_only_ValueError.

(* Non-vacuity: a concrete reachable state with three rules in two scopes in
   which an unsupported rule is skipped and the last applicable one wins. *)
Definition ex_w8 := Mk_tcfg 8 true Gr_CHANNELWISE Dt_INT 0.
Definition ex_drq := Mk_ocfg None (Some ex_w8) Prec_INTEGER false false.
Definition ex_bad := Mk_ocfg None (Some (Mk_tcfg 8 false Gr_CHANNELWISE Dt_INT 0))
                             Prec_INTEGER false false.
Definition ex_ops : list rop :=
  [RAdd 0 Op_ALL_SUPPORTED (Some ex_drq) (AK Alg_MIN_MAX_UNIFORM_QUANT);
   RAdd 1 Op_ALL_SUPPORTED (Some ex_bad) (AK Alg_MIN_MAX_UNIFORM_QUANT);
   RAdd 1 Op_CONV_2D None (AK Alg_NO_QUANTIZE)].
Definition ex_matches (r s : Z) : bool := true.
Example C11_nonvacuous :
  let s := fst (run check ex_matches ocfg_post_init init ex_ops) in
  length (flatten s) = 3%nat /\
  get check ex_matches s Op_FULLY_CONNECTED 0 = (AK Alg_MIN_MAX_UNIFORM_QUANT, ex_drq) /\
  get check ex_matches s Op_CONV_2D 0 = (AK Alg_NO_QUANTIZE, default_ocfg).
Proof. vm_compute. repeat split. Qed.

(* a load REPLACES the rule list: after load([]) into a manager with any
   history, every (operator, scope) resolves to "not quantized" again *)
Theorem C11_load_forgets_previous_rules :
  forall check matches post_init s target scope,
    fst (step check matches post_init s RLoadEmpty) = init /\
    get check matches (fst (step check matches post_init s RLoadEmpty)) target scope
    = (AK Alg_NO_QUANTIZE, default_ocfg).
Proof. intros. split; reflexivity. Qed.
Print Assumptions C11_load_forgets_previous_rules.
