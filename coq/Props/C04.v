(* Props/C04.v — quantization parameters equal the TFLite-spec reference for
   the statistics and config.  The plan model (Model/Plan.v) attaches to every
   tensor a provenance TERM saying from which statistics / constant / fixed
   range / (input, weight) pair its parameters are computed; correspondence P
   evaluates each term with the library's numeric functions and requires ==
   with what the implementation attached.  The theorems below say which term
   each tensor gets (op-level rules of the spec), for every model, operator,
   config and statistics store; the numeric clauses are instances of C17. *)
From Coq Require Import Reals.
From VF Require Import Base.Prelude Gen.Enums Gen.Configs Gen.Policy Gen.Registry Gen.Checks
     Gen.MatDesc Gen.InstChecks Gen.Scopes Model.Recipe Model.Check Model.Graph
     Model.Plan Proofs.ListFacts Proofs.ModeProofs Proofs.PlanProofs
     Spec.ArithR Proofs.ArithRProofs.
Open Scope Z_scope.

(* a tensor planned without inherited parameters gets the reference min/max
   formula (MinMax term) applied to ITS OWN statistics entry — or to its own
   data when it is a constant without an entry — under the weight config when
   it is a constant operand of a weight op and the activation config otherwise,
   with that config's bit width and symmetry *)
Theorem C04_parameters_from_own_statistics :
  forall bufs s o opid adjy c t inbound pl,
    wrapper bufs s o opid adjy c t inbound None = Ok pl ->
    exists e, pl = entry_plan t inbound e /\ e_op e = opid /\
      match chosen_cfg bufs o c t with
      | None => e_params e = None
      | Some tc =>
          exists v qd,
            e_params e = Some (PMinMax v (tcfg_num_bits tc) (tcfg_symmetric tc) qd
                                       (if is_const bufs t then Some (tcid t) else None)) /\
            param_qdim o tc t (is_const bufs t) adjy = Ok qd /\
            (store_get s (tname t) = Some v \/
             (store_get s (tname t) = None /\ is_const bufs t = true /\
              v = VConst (tcid t) (init_qdim o c t adjy)))
      end.
Proof. exact wrapper_fresh. Qed.
Print Assumptions C04_parameters_from_own_statistics.

(* reshape / transpose / split / strided-slice / average-pool: every result
   carries the operand's parameters, and the operand has a statistics entry
   which the results inherit *)
Theorem C04_same_scale_results_share_operand_parameters :
  forall bufs s ts o op c act_in act_out pi po s',
    (act_in <> [] \/ act_out <> []) ->
    standard_core bufs s ts o op c SameAsInput act_in act_out = Ok (pi, po, s') ->
    exists x tx pin qp,
      act_in = [x] /\ get_t ts x = Ok tx /\ pi = [pin] /\ first_param pin true = Ok qp /\
      (forall p q, In p po -> qp = Some q ->
         exists e, tp_producer p = Some e /\ e_params e = Some q) /\
      exists v, store_get s (tname tx) = Some v.
Proof. exact same_as_input_shares. Qed.
Print Assumptions C04_same_scale_results_share_operand_parameters.

(* concatenation: every operand carries the result's parameters *)
Theorem C04_concat_operands_share_result_parameters :
  forall bufs s ts o op c act_in act_out pi po s',
    (act_in <> [] \/ act_out <> []) ->
    standard_core bufs s ts o op c SameAsOutput act_in act_out = Ok (pi, po, s') ->
    exists y pout qp,
      act_out = [y] /\ po = [pout] /\ first_param pout false = Ok qp /\ s' = s /\
      forall p q, In p pi -> qp = Some q ->
        exists e, tp_consumers p = Some [e] /\ e_params e = Some q.
Proof. exact same_as_output_shares. Qed.
Print Assumptions C04_concat_operands_share_result_parameters.

(* the constraint each registered materializer uses is regenerated from the
   source; these are the ops the spec lists *)
Theorem C04_constraint_table :
  map (fun o => option_map mat_desc_of (lookup_registration Alg_MIN_MAX_UNIFORM_QUANT o))
      [Op_RESHAPE; Op_TRANSPOSE; Op_SPLIT; Op_STRIDED_SLICE; Op_AVERAGE_POOL_2D; Op_CONCATENATION;
       Op_SOFTMAX; Op_LOGISTIC; Op_TANH]
  = [Some (MStd 1 [1] []); Some (MStd 1 [1] []); Some (MStd 1 [0] []); Some (MStd 1 [1; 2; 3] []);
     Some (MStd 1 [] []); Some (MStd 2 [] []); Some (MFixed 0); Some (MFixed 0); Some (MFixed 1)].
Proof. vm_compute. reflexivity. Qed.
Print Assumptions C04_constraint_table.

(* bias of fc / conv / depthwise / transpose-conv under static range: the Bias
   term of the input's and the weight's parameters (scale = s_in * s_w per
   channel, zero point 0: symmetric_quantize_bias_tensor, correspondence A/P) *)
Theorem C04_bias_from_input_and_weight :
  forall bufs ts op c ps ii wi bi ps',
    bias_step bufs ts op c ps ii wi bi = Ok ps' ->
    is_srq c = true ->
    forall bx, nthZ (po_ins op) bi = Some bx -> bx <> -1 -> 0 <= bi ->
    exists pin pw a w bt e,
      py_index ps ii = Ok pin /\ py_index ps wi = Ok pw /\
      first_param pin true = Ok (Some a) /\ first_param pw true = Ok (Some w) /\
      get_t ts bx = Ok bt /\ is_const bufs bt = true /\
      nth_opt ps' (Z.to_nat bi) = Some (entry_plan bt true e) /\
      e_params e = Some (PBias a w (tcid bt)) /\
      length ps' = length ps.
Proof. exact bias_step_term. Qed.
Print Assumptions C04_bias_from_input_and_weight.

(* softmax / logistic / tanh results: the runtime kernel's fixed range, and the
   statistics entry of the result is overwritten with that range so that
   downstream same-scale ops see it *)
Theorem C04_fixed_output_range :
  forall bufs s ts o op c kind ps s' a,
    fixed_output bufs s ts o op c kind = Ok (ps, s') ->
    ocfg_activation_tensor_config c = Some a ->
    forall lastp, last (map Some ps) None = Some lastp ->
    forall e, tp_producer lastp = Some e ->
      e_params e = Some (PFixed kind (tcfg_num_bits a)) /\
      (tcfg_num_bits a = 8 \/ tcfg_num_bits a = 16) /\
      store_get s' (tp_name lastp) = Some (VFixed kind (tcfg_num_bits a) (tcfg_symmetric a)).
Proof. exact fixed_output_term. Qed.
Print Assumptions C04_fixed_output_range.

(* the fixed ranges regenerated from naive_min_max_quantize.py are the ones
   hard-coded in the LiteRT kernels: softmax/logistic 1/256,-128 (int8) and
   1/32768,0 (int16); tanh 1/128,0 and 1/32768,0 *)
Theorem C04_fixed_range_literals :
  fixed_ranges =
  [[{| fr_bits := 8; fr_num := 1; fr_den := 256; fr_zp := -128; fr_sym := false |};
    {| fr_bits := 16; fr_num := 1; fr_den := 32768; fr_zp := 0; fr_sym := true |}];
   [{| fr_bits := 8; fr_num := 1; fr_den := 128; fr_zp := 0; fr_sym := false |};
    {| fr_bits := 16; fr_num := 1; fr_den := 32768; fr_zp := 0; fr_sym := true |}]].
Proof. reflexivity. Qed.
Print Assumptions C04_fixed_range_literals.

(* per-channel parameters appear only under a CHANNELWISE tensor config and
   then along the op's own weight dimension (regenerated table; batch-matmul
   rule rank-1 / rank-2 on a constant operand) *)
Theorem C04_per_channel_dimension :
  forall o tc t const adjy d,
    param_qdim o tc t const adjy = Ok (QdDim d) ->
    granularity_eqb (tcfg_granularity tc) Gr_CHANNELWISE = true /\
    ((opname_eqb o Op_BATCH_MATMUL = true /\ const = true /\ d = bmm_qdim (t_rank t) adjy) \/
     (opname_eqb o Op_BATCH_MATMUL = false /\ qdim_lookup o = Some d)).
Proof. exact param_qdim_channel. Qed.
Print Assumptions C04_per_channel_dimension.

(* ... and no activation config the default policy accepts is per-channel, so
   a per-channel term needs the WEIGHT config, which [chosen_cfg] selects only
   for a constant operand of a weight op *)
Theorem C04_activation_configs_are_per_tensor :
  forall c, In c (flat_map snd DEFAULT_CONFIG_CHECK_POLICY) ->
    match ocfg_activation_tensor_config c with
    | Some a => granularity_eqb (tcfg_granularity a) Gr_TENSORWISE = true
    | None => True end.
Proof.
  intros c Hin. pose proof policy_activation_tensorwise as H.
  rewrite forallb_forall in H. specialize (H c Hin).
  destruct (ocfg_activation_tensor_config c); [exact H|exact I].
Qed.
Print Assumptions C04_activation_configs_are_per_tensor.

(* the weight dimension table equals the kernels' (fc/conv/embedding/transpose
   conv: output channel 0; depthwise: 3) *)
Theorem C04_weight_dimension_table :
  TFL_OP_TO_WEIGHT_QUANTIZED_DIM =
  [(Op_FULLY_CONNECTED, 0); (Op_DEPTHWISE_CONV_2D, 3); (Op_CONV_2D, 0);
   (Op_EMBEDDING_LOOKUP, 0); (Op_CONV_2D_TRANSPOSE, 0)].
Proof. reflexivity. Qed.
Print Assumptions C04_weight_dimension_table.

(* numeric clauses on the reference formulas (ideal arithmetic; the float32
   implementation is tied bit-exactly by correspondence A, see C17): positive
   scale, zero point in range; symmetric parameters have zero point 0 by
   construction of the model (zp_scale returns 0 in the symmetric branch) *)
Open Scope R_scope.
Theorem C04_reference_parameters_wellformed :
  forall b mn mx, (2 <= b)%Z ->
    0 < scale_sym b mn mx /\ 0 < scale_asym b mn mx /\
    (qmin b <= zp_asym b mn mx <= qmax b)%Z.
Proof.
  intros b mn mx Hb. split; [apply scale_sym_pos; exact Hb|].
  split; [apply scale_asym_pos; exact Hb|apply zp_asym_range; exact Hb].
Qed.
Print Assumptions C04_reference_parameters_wellformed.
Close Scope R_scope.

(* Non-vacuity: a RESHAPE of a statically quantized tensor: the result's
   producer entry carries the operand's MinMax term *)
Definition ex_cfg : ocfg :=
  Mk_ocfg (Some (Mk_tcfg 8 false Gr_TENSORWISE Dt_INT 0)) (Some (Mk_tcfg 8 true Gr_CHANNELWISE Dt_INT 0))
          Prec_INTEGER false false.
Definition ex_ts : list tensor :=
  [ {| t_root := 0; t_sfx := []; t_shape := 2; t_ty := TY_FLOAT32; t_buf := 1; t_q := None |};
    {| t_root := 1; t_sfx := []; t_shape := 1; t_ty := TY_FLOAT32; t_buf := 2; t_q := None |} ].
Example C04_nonvacuous :
  match standard_core [BEmpty; BEmpty; BEmpty] [((0, []), VStat (0, []))] ex_ts Op_RESHAPE
          {| po_id := 0; po_key := Some Op_RESHAPE; po_ins := [0]; po_outs := [1]; po_scope := 0;
             po_adjy := false |} ex_cfg SameAsInput [0] [1] with
  | Ok (_, [po], s') =>
      option_map e_params (tp_producer po)
        = Some (Some (PMinMax (VStat (0, [])) 8 false QdNone None)) /\
      store_get s' (1, []) = Some (VStat (0, []))
  | _ => False
  end.
Proof. vm_compute. split; reflexivity. Qed.
