(* Props/C09.v — calibration statistics are exact, order-faithful, resumable. *)
From VF Require Import Base.Prelude Gen.Enums Gen.Configs Gen.Scopes
     Model.Recipe Model.Check Model.Graph Model.Plan Model.Calib
     Proofs.ListFacts Proofs.CalibProofs Proofs.ResumeProofs Proofs.CalibOnly.

(* For every model, recipe, matcher, sample index and incoming store: one
   calibration sample changes the entry of a tensor either not at all or by
   exactly one update with THAT sample's min/max of THAT tensor — however many
   selected operators read or write the tensor, and however many copies of the
   virtual INPUT/OUTPUT operators have accumulated on the operator list. *)
Theorem C09_each_sample_applied_once :
  forall matches rules bufs scope_id m gi g ad k s s',
    one_sample matches rules bufs scope_id m gi g ad k s = Ok s' ->
    forall n, qs_get s' n = qs_get s n \/ qs_get s' n = step_of k n (qs_get s n).
Proof. exact one_sample_once. Qed.
Print Assumptions C09_each_sample_applied_once.

(* The first sample initialises, later samples are combined by the update
   function in dataset order (samples are folded left to right by definition
   of [calibrate]). *)
Theorem C09_first_sample_initialises :
  forall new, update QEmpty new = new.
Proof. reflexivity. Qed.
Print Assumptions C09_first_sample_initialises.

Theorem C09_later_samples_update :
  forall old new, old <> QEmpty -> update old new = QUpd old new.
Proof. intros old new H. destruct old; try reflexivity. contradiction. Qed.
Print Assumptions C09_later_samples_update.

(* a recorded entry never becomes empty again *)
Theorem C09_entries_stay_recorded :
  forall k n old, step_of k n old <> Some QEmpty.
Proof.
  intros k n [o|]; cbn; [|discriminate].
  destruct o; cbn; discriminate.
Qed.
Print Assumptions C09_entries_stay_recorded.

(* RESUMABILITY.  [run_samples samples s0] is the calibration loop from a store
   s0 (initialisation only when s0 is empty) over a list of samples, each with
   its label and the number of accumulated I/O-operator copies; the modelled
   Quantizer.calibrate without previous result is run_samples over samples
   0..n-1 with k+1 copies on sample k.
   (a) the number of accumulated copies (>= 1) of the virtual INPUT/OUTPUT
       operators never influences the store: a resumed session (copies restart
       at 1) treats a sample exactly like an uninterrupted one;
   (b) calibrating on D1 and continuing on D2 from the returned store gives
       EXACTLY the store of one pass over D1 ++ D2 — for every model, recipe,
       matcher and split, including the corner where D1 recorded nothing. *)
Theorem C09_io_operator_copies_are_irrelevant :
  forall matches rules bufs scope_id m gi g ad c k s,
    one_sample_gen matches rules bufs scope_id m gi g ad (S c) k s
    = one_sample_gen matches rules bufs scope_id m gi g ad 1 k s.
Proof. exact copies_irrelevant. Qed.
Print Assumptions C09_io_operator_copies_are_irrelevant.

Theorem C09_resume_equals_one_pass :
  forall matches rules bufs scope_id m adjy gi g ad d1 d2,
    run_samples matches rules bufs scope_id m adjy gi g ad (d1 ++ d2) []
    = (s <- run_samples matches rules bufs scope_id m adjy gi g ad d1 [] ;;
       run_samples matches rules bufs scope_id m adjy gi g ad d2 s).
Proof. exact resume. Qed.
Print Assumptions C09_resume_equals_one_pass.

Theorem C09_calibrate_is_run_samples :
  forall matches rules bufs scope_id m adjy sig n g ad,
    need_calibration rules = true ->
    py_index (m_subgraphs m) sig = Ok g -> py_index adjy sig = Ok ad ->
    calibrate matches rules bufs scope_id m adjy sig None n
    = run_samples matches rules bufs scope_id m adjy sig g ad
        (map (fun k => (Z.to_nat (k + 1), k)) (map Z.of_nat (seq 0 (Z.to_nat n)))) [].
Proof. exact calibrate_is_run_samples. Qed.
Print Assumptions C09_calibrate_is_run_samples.

(* Only what the recipe selects is recorded: every key of the result of
   Quantizer.calibrate is a name of the previous result passed in, or the name
   of a PRESENT operand (index <> -1, resolved in the operator's own tensor
   table) of an operator the recipe resolves to a quantizing algorithm — a
   real operator of some subgraph (initialisation pass) or a real / virtual
   INPUT / OUTPUT operator of the calibrated signature's subgraph.  No entry
   for an absent optional operand, for tensors of unselected operators, or
   for any other name; for every model, recipe state, matcher, signature,
   previous result and number of samples. *)
Theorem C09_statistics_only_for_operands_of_selected_operators :
  forall matches rules bufs scope_id m adjy sig prev nsamples s n,
    calibrate matches rules bufs scope_id m adjy sig prev nsamples = Ok s -> In n (map fst s) ->
    (exists ns, prev = Some ns /\ In n ns) \/
    selected_operand matches rules scope_id m n.
Proof. exact calibrate_only. Qed.
Print Assumptions C09_statistics_only_for_operands_of_selected_operators.

(* what "operand" means there *)
Theorem C09_recorded_operands_are_present_operands :
  forall ts op n, operand_name ts op n ->
    exists x t, In x (co_ins op ++ co_outs op) /\ x <> -1 /\ py_index ts x = Ok t /\ n = tname t.
Proof.
  intros ts op n (x & t & Hin & Hne & Ht & Hn). exists x, t. split; [|auto].
  apply in_app_iff in Hin. apply in_app_iff. unfold present in Hin.
  destruct Hin as [H|H]; apply filter_In in H; destruct H as [H _]; [left|right]; exact H.
Qed.
Print Assumptions C09_recorded_operands_are_present_operands.

Example C09_nonvacuous :
  step_of 1 (7, []) (Some (QSample (7, []) 0)) = Some (QUpd (QSample (7, []) 0) (QSample (7, []) 1)) /\
  step_of 0 (7, []) (Some QEmpty) = Some (QSample (7, []) 0).
Proof. split; reflexivity. Qed.
