(* Props/C09.v — calibration statistics are exact, order-faithful, resumable. *)
From VF Require Import Base.Prelude Gen.Enums Gen.Configs Gen.Scopes
     Model.Recipe Model.Check Model.Graph Model.Plan Model.Calib
     Proofs.ListFacts Proofs.CalibProofs.

(* For every model, recipe, matcher, sample index and incoming store: one
   calibration sample changes the entry of a tensor either not at all or by
   exactly one update with THAT sample's min/max of THAT tensor — however many
   selected operators read or write the tensor, and however many copies of the
   virtual INPUT/OUTPUT operators have accumulated on the operator list. *)
Theorem C09_each_sample_applied_once :
  forall matches rules bufs scope_id m gi g ad k s s',
    one_sample matches rules bufs scope_id m gi g ad k s = Ok s' ->
    forall n, qs_get s' n = qs_get s n \/ qs_get s' n = step_of k n (qs_get s n).
Proof. exact one_sample_once. Qed.
Print Assumptions C09_each_sample_applied_once.

(* The first sample initialises, later samples are combined by the update
   function in dataset order (samples are folded left to right by definition
   of [calibrate]). *)
Theorem C09_first_sample_initialises :
  forall new, update QEmpty new = new.
Proof. reflexivity. Qed.
Print Assumptions C09_first_sample_initialises.

Theorem C09_later_samples_update :
  forall old new, old <> QEmpty -> update old new = QUpd old new.
Proof. intros old new H. destruct old; try reflexivity. contradiction. Qed.
Print Assumptions C09_later_samples_update.

(* a recorded entry never becomes empty again *)
Theorem C09_entries_stay_recorded :
  forall k n old, step_of k n old <> Some QEmpty.
Proof.
  intros k n [o|]; cbn; [|discriminate].
  destruct o; cbn; discriminate.
Qed.
Print Assumptions C09_entries_stay_recorded.

Example C09_nonvacuous :
  step_of 1 (7, []) (Some (QSample (7, []) 0)) = Some (QUpd (QSample (7, []) 0) (QSample (7, []) 1)) /\
  step_of 0 (7, []) (Some QEmpty) = Some (QSample (7, []) 0).
Proof. split; reflexivity. Qed.
