(* Spec/Interleave.v — executable check that a transformed operator list is an
   interleaving of the original operators with DEQUANTIZE operators on
   quantized constants (soundness w.r.t. [inter]: Proofs/SemRun.v).  No proofs
   here: the correspondence harness evaluates it on every float-compute run. *)
From VF Require Import Base.Prelude Model.Graph Model.Perform.

Definition nmap := list (Z * Z).

Section Interleave.
  Variable n0 : Z.                 (* number of original tensors *)
  Variable isq : Z -> bool.        (* the constants stored quantized *)

  Definition operandRb (nm : nmap) (x0 x : Z) : bool :=
    (Z.eqb x x0 && (Z.eqb x0 (-1) || ((x0 <? n0) && negb (isq x0))))
    || existsb (fun p => Z.eqb (fst p) x && Z.eqb (snd p) x0) nm.

  Fixpoint forall2b {A B} (f : A -> B -> bool) (l1 : list A) (l2 : list B) : bool :=
    match l1, l2 with
    | [], [] => true
    | a :: r1, b :: r2 => f a b && forall2b f r1 r2
    | _, _ => false
    end.

  Fixpoint interb (nm : nmap) (ops0 ops : list op) : bool :=
    match ops with
    | [] => match ops0 with [] => true | _ => false end
    | o :: r =>
        if Z.eqb (o_uid o) UID_INSERTED then
          match o_ins o, o_outs o with
          | [c], [x] => isq c && (n0 <=? x) && negb (memZ x (map fst nm)) && interb ((x, c) :: nm) ops0 r
          | _, _ => false
          end
        else
          match ops0 with
          | o0 :: r0 =>
              Z.eqb (o_code o) (o_code o0) && Z.eqb (o_uid o) (o_uid o0)
              && list_eqb Z.eqb (o_outs o) (o_outs o0)
              && forall2b (operandRb nm) (o_ins o0) (o_ins o)
              && forallb (fun t => (t <? n0) && negb (isq t)) (o_outs o0)
              && interb nm r0 r
          | [] => false
          end
    end.
End Interleave.

(* ---- executable form of the hypotheses of the whole-run theorem for
   float-compute plans (Proofs/InterInv.v; soundness: plan_okb_sound there) ---- *)
From VF Require Import Gen.Enums.

Definition isdeqb (i : inst) : bool := qtrans_eqb (i_trans i) Tr_ADD_DEQUANTIZE.
Definition float_instb (i : inst) : bool :=
  qtrans_eqb (i_trans i) Tr_ADD_DEQUANTIZE || qtrans_eqb (i_trans i) Tr_NO_QUANTIZE.

Definition deq_okb (g0 : subgraph) (i : inst) : bool :=
  (i_producer i <? 0) && (0 <=? i_tensor i) && (i_tensor i <? lenZ (sg_tensors g0))
  && forallb (fun o0 => negb (memZ (i_tensor i) (o_outs o0))) (sg_ops g0)
  && forallb (fun j => 0 <=? j) (i_consumers i)
  && forallb (fun jo => negb (memZ (i_tensor i) (o_ins (snd jo))) || memZ (fst jo) (i_consumers i))
             (enumerate (sg_ops g0)).

Definition ti_okb (k : nat) (g0 : subgraph) (ti : tinsts) : bool :=
  forallb float_instb (ti_insts ti)
  && (negb (Z.eqb (ti_sg ti) (Z.of_nat k))
      || match filter isdeqb (ti_insts ti) with
         | [] => true
         | [i] => deq_okb g0 i
         | _ => false
         end).

Definition deq_tensorsb (k : nat) (tis : list tinsts) : list Z :=
  flat_map (fun ti => if Z.eqb (ti_sg ti) (Z.of_nat k)
                      then map i_tensor (filter isdeqb (ti_insts ti)) else []) tis.

Fixpoint nodupZ (l : list Z) : bool :=
  match l with [] => true | x :: r => negb (memZ x r) && nodupZ r end.

Definition plan_okb (k : nat) (g0 : subgraph) (tis : list tinsts) : bool :=
  forallb (ti_okb k g0) tis && nodupZ (deq_tensorsb k tis).
