(* Spec/LastOk.v — executable form of the hypotheses of the whole-run C03
   theorem on the LAST instruction of a tensor's instruction list
   (Proofs/ReadersOrig.v: last_instruction_readers): the list is a nest
   ([ok_list]), every instruction names the same tensor, the last one is an
   inserted QUANTIZE / DEQUANTIZE with consumer ids >= -1, no earlier list of
   the same subgraph names the tensor, all ids are non-negative.
   Soundness (last_hypb = true -> those hypotheses): Proofs/LastOkSound.v.
   The correspondence harness evaluates [last_hypb] in Coq on every
   instruction list the model generates, so the theorem's hypotheses are
   CHECKED on the generated inputs, not assumed.  No proofs here. *)
From VF Require Import Base.Prelude Gen.Enums Model.Graph Model.Insts Model.Perform.

Definition insertb (i : inst) : bool :=
  qtrans_eqb (i_trans i) Tr_ADD_QUANTIZE || qtrans_eqb (i_trans i) Tr_ADD_DEQUANTIZE.
Definition disj_fromb (C : list Z) (s : inst) : bool :=
  forallb (fun c => negb (memZ c (i_consumers s))) C.
Definition sub_ofb (C : list Z) (s : inst) : bool :=
  match C with [] => false | _ => forallb (fun c => memZ c (i_consumers s)) C end.
Definition step_ok2b (C : list Z) (s : inst) : bool :=
  (0 <=? i_tensor s) && forallb (fun c => -1 <=? c) (i_consumers s)
  && (qtrans_eqb (i_trans s) Tr_QUANTIZE_TENSOR
      || (insertb s && (disj_fromb C s || sub_ofb C s))).

Fixpoint ok_listb (C : list Z) (l : list inst) : bool :=
  match l with
  | [] => true
  | s :: r =>
      step_ok2b C s
      && (negb (disj_fromb C s)
          || forallb (fun s2 => negb (sub_ofb C s2)
                                || forallb (fun c => negb (memZ c (i_consumers s))) (i_consumers s2)) r)
      && ok_listb C r
  end.

Definition quietb (t : Z) (i : inst) : bool :=
  negb (is_insertion (i_trans i)) || negb (Z.eqb (i_tensor i) t).
Definition never_namesb (k : nat) (t : Z) (tis : list tinsts) : bool :=
  forallb (fun ti => negb (Z.eqb (ti_sg ti) (Z.of_nat k)) || forallb (quietb t) (ti_insts ti)) tis.
Definition ids_okb (tis : list tinsts) : bool :=
  forallb (fun ti => (0 <=? ti_sg ti) && forallb (fun i => 0 <=? i_tensor i) (ti_insts ti)) tis.

Fixpoint split_at {A} (n : nat) (l : list A) : option (list A * A * list A) :=
  match l, n with
  | [], _ => None
  | x :: r, O => Some ([], x, r)
  | x :: r, S n => match split_at n r with
                   | Some (pre, y, post) => Some (x :: pre, y, post)
                   | None => None
                   end
  end.

Fixpoint split_last {A} (l : list A) : option (list A * A) :=
  match l with
  | [] => None
  | [x] => Some ([], x)
  | x :: r => match split_last r with
              | Some (s, y) => Some (x :: s, y)
              | None => None
              end
  end.

(* the hypotheses for the instruction list at position n of the run *)
Definition last_hypb (m0 : model) (tis : list tinsts) (n : nat) : bool :=
  match split_at n tis with
  | None => false
  | Some (pre, ti0, post) =>
      match split_last (ti_insts ti0) with
      | None => false
      | Some (steps, i0) =>
          ids_okb tis && (0 <=? ti_sg ti0)
          && match nth_opt (m_subgraphs m0) (Z.to_nat (ti_sg ti0)) with Some _ => true | None => false end
          && ok_listb (i_consumers i0) steps
          && forallb (fun s => Z.eqb (i_tensor s) (i_tensor i0)) steps
          && insertb i0
          && forallb (fun c => -1 <=? c) (i_consumers i0)
          && never_namesb (Z.to_nat (ti_sg ti0)) (i_tensor i0) pre
      end
  end.

(* lists whose last instruction is an inserted QUANTIZE / DEQUANTIZE (the ones
   the theorem speaks about); used by the harness to report coverage *)
Definition last_is_insertion (ti : tinsts) : bool :=
  match split_last (ti_insts ti) with Some (_, i0) => insertb i0 | None => false end.

(* which hypothesis fails first (0 = all hold); reported as a histogram by the
   harness so that the evidence says which lists are outside the theorem *)
Definition last_why (m0 : model) (tis : list tinsts) (n : nat) : Z :=
  match split_at n tis with
  | None => 1
  | Some (pre, ti0, post) =>
      match split_last (ti_insts ti0) with
      | None => 1
      | Some (steps, i0) =>
          if negb (ids_okb tis && (0 <=? ti_sg ti0)
                   && match nth_opt (m_subgraphs m0) (Z.to_nat (ti_sg ti0)) with Some _ => true | None => false end)
          then 2
          else if negb (insertb i0) then 3
          else if negb (forallb (fun c => -1 <=? c) (i_consumers i0)) then 4
          else if negb (forallb (fun s => Z.eqb (i_tensor s) (i_tensor i0)) steps) then 5
          else if negb (never_namesb (Z.to_nat (ti_sg ti0)) (i_tensor i0) pre) then 6
          else if existsb (fun s => qtrans_eqb (i_trans s) Tr_NO_QUANTIZE) steps then 7
          else if negb (forallb (fun s => qtrans_eqb (i_trans s) Tr_QUANTIZE_TENSOR || insertb s) steps) then 8
          else if negb (forallb (fun s => qtrans_eqb (i_trans s) Tr_QUANTIZE_TENSOR
                                          || disj_fromb (i_consumers i0) s || sub_ofb (i_consumers i0) s) steps) then 9
          else if negb (ok_listb (i_consumers i0) steps) then 10
          else 0
      end
  end.

(* instructions the performer acts on (it skips everything else, i.e.
   NO_QUANTIZE); a list with its skipped instructions dropped runs identically
   (Proofs/LastOkSound.v: transform_graph_strip) *)
Definition actsb (i : inst) : bool :=
  is_insertion (i_trans i) || qtrans_eqb (i_trans i) Tr_EMULATED_SUBCHANNEL.
Definition strip (ti : tinsts) : tinsts :=
  {| ti_name := ti_name ti; ti_sg := ti_sg ti; ti_insts := filter actsb (ti_insts ti) |}.
