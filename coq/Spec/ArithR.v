(* Spec/ArithR.v — the IDEAL (TFLite-spec) quantization arithmetic over the
   reals, with Flocq's round-half-even to integer.  Specification layer: the
   algebraic laws of C17 are stated and proved here exactly; the implemented
   float32 arithmetic is Model/ArithF32.v. *)
From Coq Require Import ZArith Reals Lra Lia.
From Flocq Require Import Core.
Open Scope R_scope.

Definition rne (x : R) : Z := ZnearestE x.

Definition qmin (b : Z) : Z := (- 2 ^ (b - 1))%Z.
Definition qmax (b : Z) : Z := (2 ^ (b - 1) - 1)%Z.
Definition eps : R := 1 / 10000.                (* min_bound = 1e-4 *)

Definition clipZ (lo hi z : Z) : Z := Z.max lo (Z.min hi z).

(* tensor_zp_scale_from_min_max *)
Definition scale_sym (b : Z) (mn mx : R) : R :=
  Rmax (Rmax (Rabs mn) (Rabs mx)) eps / IZR (qmax b).
Definition bmax (mx : R) : R := Rmax mx 0.
Definition bmin (mn : R) : R := Rmin mn 0.
Definition scale_asym (b : Z) (mn mx : R) : R :=
  Rmax (bmax mx - bmin mn) eps / IZR (qmax b - qmin b).
Definition zp_asym (b : Z) (mn mx : R) : Z :=
  rne (IZR (qmin b) - bmin mn / scale_asym b mn mx).

(* uniform_quantize / uniform_dequantize; narrow range when symmetric *)
Definition qlo (b : Z) (narrow : bool) : Z := if narrow then (qmin b + 1)%Z else qmin b.
Definition quant (b : Z) (narrow : bool) (s : R) (zp : Z) (x : R) : Z :=
  clipZ (qlo b narrow) (qmax b) (rne (x * (1 / s) + IZR zp)).
Definition deq (s : R) (zp : Z) (c : Z) : R := IZR (c - zp) * s.
