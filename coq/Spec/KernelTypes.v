(* Spec/KernelTypes.v — TRUSTED TRANSCRIPTION (not derived from /repo): which
   (operator, quantization mode, widths) the LiteRT builtin kernels of the
   pinned runtime prepare and run.  Written from the TFLite quantization spec
   and kernel sources; validated by execution (interpreter prepare+invoke of a
   single-op model for every accepted pair) in the C13 runtime step. *)
From VF Require Import Base.Prelude Gen.Enums Gen.Configs.

Definition op_in (o : opname) (l : list opname) : bool := existsb (opname_eqb o) l.

Definition k_srq_w8_ops : list opname :=
  [Op_ADD; Op_AVERAGE_POOL_2D; Op_BATCH_MATMUL; Op_CONCATENATION; Op_CONV_2D;
   Op_CONV_2D_TRANSPOSE; Op_DEPTHWISE_CONV_2D; Op_FULLY_CONNECTED; Op_GELU;
   Op_LOGISTIC; Op_MEAN; Op_MUL; Op_RESHAPE; Op_RSQRT; Op_SOFTMAX; Op_SPLIT;
   Op_STRIDED_SLICE; Op_SUB; Op_TANH; Op_TRANSPOSE; Op_INPUT; Op_OUTPUT].
Definition k_srq_w4_ops : list opname := [Op_FULLY_CONNECTED; Op_CONV_2D; Op_INPUT; Op_OUTPUT].
Definition k_drq_w8_ops : list opname :=
  [Op_BATCH_MATMUL; Op_CONV_2D; Op_CONV_2D_TRANSPOSE; Op_DEPTHWISE_CONV_2D;
   Op_EMBEDDING_LOOKUP; Op_FULLY_CONNECTED].
Definition k_drq_w4_ops : list opname := [Op_FULLY_CONNECTED; Op_EMBEDDING_LOOKUP].
(* weight-only = DEQUANTIZE(int weight) feeding the float kernel *)
Definition k_wo_w8_ops : list opname := k_drq_w8_ops.
Definition k_wo_w4_ops : list opname := [Op_BATCH_MATMUL; Op_FULLY_CONNECTED; Op_EMBEDDING_LOOKUP].
Definition k_fp16_ops : list opname :=
  [Op_FULLY_CONNECTED; Op_CONV_2D; Op_DEPTHWISE_CONV_2D; Op_CONV_2D_TRANSPOSE; Op_EMBEDDING_LOOKUP].

Definition is_tc (g : granularity) : bool :=
  granularity_eqb g Gr_TENSORWISE || granularity_eqb g Gr_CHANNELWISE.

(* min/max uniform algorithm *)
Definition kernel_ok_minmax (o : opname) (c : ocfg) : bool :=
  match ocfg_weight_tensor_config c with
  | None => false
  | Some w =>
      dtype_eqb (tcfg_dtype w) Dt_INT && is_tc (tcfg_granularity w) &&
      match ocfg_compute_precision c, ocfg_activation_tensor_config c with
      | Prec_INTEGER, Some a =>          (* static range *)
          dtype_eqb (tcfg_dtype a) Dt_INT
          && granularity_eqb (tcfg_granularity a) Gr_TENSORWISE
          && (Z.eqb (tcfg_num_bits a) 8 || (Z.eqb (tcfg_num_bits a) 16 && tcfg_symmetric a))
          && tcfg_symmetric w && negb (ocfg_explicit_dequantize c)
          && ((Z.eqb (tcfg_num_bits w) 8 && op_in o k_srq_w8_ops)
              || (Z.eqb (tcfg_num_bits w) 4 && op_in o k_srq_w4_ops))
          (* the integer batch-matmul kernels take ONE scale for the constant
             operand: per-channel parameters run but yield all zeros (observed, F21) *)
          && negb (opname_eqb o Op_BATCH_MATMUL
                   && granularity_eqb (tcfg_granularity w) Gr_CHANNELWISE)
      | Prec_INTEGER, None =>            (* dynamic range *)
          tcfg_symmetric w && negb (ocfg_explicit_dequantize c)
          && ((Z.eqb (tcfg_num_bits w) 8 && op_in o k_drq_w8_ops)
              || (Z.eqb (tcfg_num_bits w) 4 && op_in o k_drq_w4_ops))
          (* the hybrid depthwise kernel reads one weight scale PER CHANNEL:
             per-tensor parameters run but compute garbage (observed, F20) *)
          && negb (opname_eqb o Op_DEPTHWISE_CONV_2D
                   && granularity_eqb (tcfg_granularity w) Gr_TENSORWISE)
      | Prec_FLOAT, None =>              (* weight only, explicit dequantize *)
          ocfg_explicit_dequantize c
          && ((Z.eqb (tcfg_num_bits w) 8 && op_in o k_wo_w8_ops)
              || (Z.eqb (tcfg_num_bits w) 4 && op_in o k_wo_w4_ops))
      | Prec_FLOAT, Some _ => false
      end
  end.

(* float casting algorithm: fp16 weights behind a DEQUANTIZE *)
Definition kernel_ok_floatcast (o : opname) (c : ocfg) : bool :=
  match ocfg_weight_tensor_config c, ocfg_activation_tensor_config c with
  | Some w, None =>
      dtype_eqb (tcfg_dtype w) Dt_FLOAT && Z.eqb (tcfg_num_bits w) 16
      && precision_eqb (ocfg_compute_precision c) Prec_FLOAT && op_in o k_fp16_ops
  | _, _ => false
  end.
