(* Spec/WFb.v — executable well-formedness check with a soundness proof, so
   that the hypothesis [wf_sg] of the C01/C02 composition theorems is CHECKED
   (inside Coq, by the correspondence harness) on every generated input. *)
From VF Require Import Base.Prelude Model.Graph Spec.WF Proofs.ListFacts.

Definition in_rng (n x : Z) : bool := (0 <=? x) && (x <? n).

Definition wf_sgb (g : subgraph) : bool :=
  let n := ntens g in
  let ops := enumerate (sg_ops g) in
  forallb (fun ko => forallb (fun x => Z.eqb x (-1) || in_rng n x) (o_ins (snd ko))
                     && forallb (in_rng n) (o_outs (snd ko))) ops
  && forallb (fun ko =>
       forallb (fun jp =>
         (* a different op shares no result; an op at or after k writes no operand of k *)
         (Z.eqb (fst ko) (fst jp) || negb (existsb (fun x => memZ x (o_outs (snd jp))) (o_outs (snd ko))))
         && ((fst jp <? fst ko) || negb (existsb (fun x => memZ x (o_outs (snd jp))) (o_ins (snd ko)))))
         ops) ops
  && forallb (in_rng n) (sg_inputs g) && forallb (in_rng n) (sg_outputs g).

Lemma in_rng_spec n x : in_rng n x = true -> 0 <= x < n.
Proof. unfold in_rng. intros H. apply andb_true_iff in H. destruct H as [A B]. apply Z.leb_le in A. apply Z.ltb_lt in B. lia. Qed.

Lemma in_enum {A} (l : list A) k a : nth_opt l k = Some a -> In (Z.of_nat k, a) (enumerate l).
Proof.
  intros H. unfold enumerate. replace (Z.of_nat k) with (0 + Z.of_nat k) by lia.
  revert k H. generalize 0. induction l as [|x l IH]; intros i0 k H; [destruct k; discriminate|].
  destruct k; cbn in *.
  - inversion H; subst. left. f_equal. lia.
  - right. replace (i0 + Z.pos (Pos.of_succ_nat k)) with ((i0 + 1) + Z.of_nat k) by lia. apply IH. exact H.
Qed.

Theorem wf_sgb_sound g : wf_sgb g = true -> wf_sg g.
Proof.
  unfold wf_sgb. intros H.
  apply andb_true_iff in H. destruct H as [H Hout]. apply andb_true_iff in H. destruct H as [H Hin].
  apply andb_true_iff in H. destruct H as [Hrng Hpair].
  rewrite forallb_forall in Hrng, Hpair.
  constructor.
  - intros k o x Hk Hx. specialize (Hrng _ (in_enum _ _ _ Hk)). cbn in Hrng.
    apply andb_true_iff in Hrng. destruct Hrng as [R _]. rewrite forallb_forall in R. specialize (R _ Hx).
    apply orb_true_iff in R. destruct R as [R|R]; [left; apply Z.eqb_eq; exact R|right; apply in_rng_spec; exact R].
  - intros k o x Hk Hx. specialize (Hrng _ (in_enum _ _ _ Hk)). cbn in Hrng.
    apply andb_true_iff in Hrng. destruct Hrng as [_ R]. rewrite forallb_forall in R. apply in_rng_spec. apply R. exact Hx.
  - intros k1 k2 o1 o2 x H1 H2 Hx1 Hx2.
    specialize (Hpair _ (in_enum _ _ _ H1)). rewrite forallb_forall in Hpair.
    specialize (Hpair _ (in_enum _ _ _ H2)). cbn [fst snd] in Hpair.
    apply andb_true_iff in Hpair. destruct Hpair as [P _]. apply orb_true_iff in P. destruct P as [P|P].
    + apply Z.eqb_eq in P. lia.
    + exfalso. apply negb_true_iff in P.
      assert (existsb (fun x0 => memZ x0 (o_outs o2)) (o_outs o1) = true).
      { apply existsb_exists. exists x. split; [exact Hx1|apply memZ_In; exact Hx2]. }
      congruence.
  - intros k j o p x Hk Hj Hx Hw.
    specialize (Hpair _ (in_enum _ _ _ Hk)). rewrite forallb_forall in Hpair.
    specialize (Hpair _ (in_enum _ _ _ Hj)). cbn [fst snd] in Hpair.
    apply andb_true_iff in Hpair. destruct Hpair as [_ P]. apply orb_true_iff in P. destruct P as [P|P].
    + apply Z.ltb_lt in P. lia.
    + exfalso. apply negb_true_iff in P.
      assert (existsb (fun x0 => memZ x0 (o_outs p)) (o_ins o) = true).
      { apply existsb_exists. exists x. split; [exact Hx|apply memZ_In; exact Hw]. }
      congruence.
  - apply Forall_forall. rewrite forallb_forall in Hin. intros x Hx. apply in_rng_spec. apply Hin. exact Hx.
  - apply Forall_forall. rewrite forallb_forall in Hout. intros x Hx. apply in_rng_spec. apply Hout. exact Hx.
Qed.

Definition uids_okb (m : model) : bool :=
  forallb (fun g => forallb (fun o => negb (Z.eqb (o_uid o) (-1))) (sg_ops g)) (m_subgraphs m).

(* executable check of [names_unique] (soundness: Proofs/NameInv.v) *)
Fixpoint nodupb {A} (eqb : A -> A -> bool) (l : list A) : bool :=
  match l with
  | [] => true
  | x :: r => negb (existsb (eqb x) r) && nodupb eqb r
  end.
Definition name_pair_eqb (a b : Z * list Z) : bool :=
  Z.eqb (fst a) (fst b) && list_eqb Z.eqb (snd a) (snd b).
Definition names_uniqueb (g : subgraph) : bool := nodupb name_pair_eqb (map tname (sg_tensors g)).
