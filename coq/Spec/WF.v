(* Spec/WF.v — well-formedness of a subgraph / model (C01's output contract,
   DESIGN §3.2). *)
From VF Require Import Base.Prelude Model.Graph.

Definition reads (o : op) (t : Z) : Prop := In t (o_ins o).
Definition writes (o : op) (t : Z) : Prop := In t (o_outs o).
Definition op_at (g : subgraph) (k : nat) (o : op) : Prop := nth_opt (sg_ops g) k = Some o.
Definition ntens (g : subgraph) : Z := lenZ (sg_tensors g).

Record wf_sg (g : subgraph) : Prop := {
  (* every operand index is -1 (absent) or in range; every result in range *)
  wf_ins : forall k o x, op_at g k o -> reads o x -> x = -1 \/ 0 <= x < ntens g;
  wf_outs : forall k o x, op_at g k o -> writes o x -> 0 <= x < ntens g;
  (* at most one producer per tensor *)
  wf_single : forall k1 k2 o1 o2 x,
      op_at g k1 o1 -> op_at g k2 o2 -> writes o1 x -> writes o2 x -> k1 = k2;
  (* execution order: a producer of an operand is an EARLIER operator (an
     operand without producer is a graph input or a constant) *)
  wf_order : forall k j o p x,
      op_at g k o -> op_at g j p -> reads o x -> writes p x -> (j < k)%nat;
  wf_inputs : Forall (fun x => 0 <= x < ntens g) (sg_inputs g);
  wf_outputs : Forall (fun x => 0 <= x < ntens g) (sg_outputs g)
}.

Definition wf_model (m : model) : Prop :=
  Forall wf_sg (m_subgraphs m)
  /\ Forall (fun g => Forall (fun o => 0 <= o_code o < lenZ (m_opcodes m)) (sg_ops g))
            (m_subgraphs m)
  /\ Forall (fun g => Forall (fun t => 0 <= t_buf t < lenZ (m_buffers m)) (sg_tensors g))
            (m_subgraphs m)
  /\ Forall (fun s => exists g, nth_opt (m_subgraphs m) (Z.to_nat (sd_sg s)) = Some g /\
                      0 <= sd_sg s /\
                      Forall (fun x => 0 <= x < ntens g) (sd_inputs s ++ sd_outputs s))
            (m_sigs m).

(* C01: "tensor names are unique" (a name = interned root string + suffixes) *)
Definition tname (t : tensor) : Z * list Z := (t_root t, t_sfx t).
Definition names_unique (g : subgraph) : Prop := NoDup (map tname (sg_tensors g)).
