(* Model/Perform.v — executable model of transformation_performer.py and of
   the three op-insertion transformations (quantize_tensor, insert_quant,
   insert_dequant) as they stand in /repo (after the fix: commits recorded in
   KNOWN_FINDINGS.json).  EMULATED_SUBCHANNEL (op replacement) is out of
   scope: it is reported as OtherError.  No proofs here. *)
From VF Require Import Base.Prelude Gen.Enums Model.Graph Gen.InstChecks.

(* ---- transformation_utils ---- *)
Definition add_op_code (code : Z) (codes : list Z) : Z * list Z :=
  match find_index (Z.eqb code) codes with
  | Some i => (Z.of_nat i, codes)
  | None => (lenZ codes, codes ++ [code])
  end.

(* add_new_activation_tensor: name = base name + suffix, made unique within
   the subgraph by appending "_k" (k = 1, 2, ...; encoded as suffix 2+k) *)
Definition has_name (ts : list tensor) (root : Z) (sfx : list Z) : bool :=
  existsb (fun t => Z.eqb (t_root t) root && list_eqb Z.eqb (t_sfx t) sfx) ts.

Fixpoint fresh_sfx (ts : list tensor) (root : Z) (sfx : list Z) (k : Z) (fuel : nat)
  : list Z :=
  let cand := if Z.eqb k 0 then sfx else sfx ++ [2 + k] in
  match fuel with
  | O => cand
  | S f => if has_name ts root cand then fresh_sfx ts root sfx (k + 1) f else cand
  end.

Definition new_activation_tensor (ts : list tensor) (base : tensor) (sfx : Z) : tensor :=
  {| t_root := t_root base;
     t_sfx := fresh_sfx ts (t_root base) (t_sfx base ++ [sfx]) 0 (S (length ts));
     t_shape := t_shape base;
     t_ty := TY_FLOAT32; t_buf := 0; t_q := None |}.

Definition set_tensor (g : subgraph) (tid : Z) (t : tensor) : subgraph :=
  {| sg_tensors := set_nth (sg_tensors g) (Z.to_nat tid) t; sg_ops := sg_ops g;
     sg_inputs := sg_inputs g; sg_outputs := sg_outputs g |}.

(* Python list indexing by a (possibly negative) int, as the code does *)
Definition get_tensor (g : subgraph) (tid : Z) : res tensor := py_index (sg_tensors g) tid.

(* ---- quantize_tensor ---- *)
Definition quantize_tensor (bufs : list bufval) (g : subgraph) (tid : Z)
           (ps : option qparam) : res (list bufval * subgraph) :=
  t <- get_tensor g tid ;;
  let tidn := if tid <? 0 then tid + lenZ (sg_tensors g) else tid in
  match ps with
  | None =>
      (* quant_params is None: .quantized_data is only touched when the tensor
         has a buffer; neither isinstance branch fires *)
      if negb (Z.eqb (t_buf t) 0) then Err AttributeError else Ok (bufs, g)
  | Some p =>
      bufs' <- (if negb (Z.eqb (t_buf t) 0) && qp_has_data p
                then ( _ <- py_index bufs (t_buf t) ;;
                       Ok (set_nth bufs (Z.to_nat (t_buf t)) (BQuant (qp_id p))) )
                else Ok bufs) ;;
      t' <- (if qp_uniform p
             then ty <- quant_params_to_tflite_type (qp_bits p) ;;
                  Ok {| t_root := t_root t; t_sfx := t_sfx t; t_shape := t_shape t;
                        t_ty := ty; t_buf := t_buf t; t_q := Some (qp_id p) |}
             else ty <- nonlinear_quant_params_to_tflite_type (qp_bits p) ;;
                  Ok {| t_root := t_root t; t_sfx := t_sfx t; t_shape := t_shape t;
                        t_ty := ty; t_buf := t_buf t; t_q := t_q t |}) ;;
      Ok (bufs', set_tensor g tidn t')
  end.

(* ---- insert_quant / insert_dequant (shared tail) ---- *)
Definition rewire_op (o : op) (old new : Z) : op :=
  {| o_code := o_code o;
     o_ins := map (fun x => if Z.eqb x old then new else x) (o_ins o);
     o_outs := o_outs o; o_uid := o_uid o |}.

Definition rewire_consumers (ops : list op) (consumers : list Z) (old new : Z)
  : res (list op) :=
  foldM (fun ops c =>
    if Z.eqb c (-1) then Ok ops
    else o <- py_index ops c ;;
         let cn := if c <? 0 then c + lenZ ops else c in
         Ok (set_nth ops (Z.to_nat cn) (rewire_op o old new))) consumers ops.

Record tinfo_out := { to_op_id : Z; to_added : Z; to_tensor : Z }.

Definition UID_INSERTED : Z := -1.      (* inserted ops carry no options *)

Definition insert_common (is_quant : bool) (codes : list Z) (bufs : list bufval)
           (g : subgraph) (tid producer : Z) (consumers : list Z) (ps : option qparam)
  : res (list Z * list bufval * subgraph * tinfo_out) :=
  let '(cidx, codes') :=
    add_op_code (if is_quant then BC_QUANTIZE else BC_DEQUANTIZE) codes in
  t <- get_tensor g tid ;;
  let new_id := lenZ (sg_tensors g) in
  let g1 := {| sg_tensors := sg_tensors g ++
                 [new_activation_tensor (sg_tensors g) t (if is_quant then 0 else 1)];
               sg_ops := sg_ops g; sg_inputs := sg_inputs g;
               sg_outputs := sg_outputs g |} in
  (* quant: annotate the NEW tensor; dequant: quantize the ORIGINAL one *)
  bg <- quantize_tensor bufs g1 (if is_quant then new_id else tid) ps ;;
  let '(bufs', g2) := bg in
  first <- py_min consumers ;;
  ops' <- rewire_consumers (sg_ops g2) consumers tid new_id ;;
  let outs' := if memZ (-1) consumers
               then map (fun x => if Z.eqb x tid then new_id else x) (sg_outputs g2)
               else sg_outputs g2 in
  let op_id := Z.max (producer + 1) first in
  let newop := {| o_code := cidx; o_ins := [tid]; o_outs := [new_id];
                  o_uid := UID_INSERTED |} in
  (* list.insert with a negative index counts from the end; op_id >= 0 here
     whenever producer >= -1 *)
  if op_id <? 0 then Err OtherError else
  Ok (codes', bufs',
      {| sg_tensors := sg_tensors g2; sg_ops := insert_at ops' (Z.to_nat op_id) newop;
         sg_inputs := sg_inputs g2; sg_outputs := outs' |},
      {| to_op_id := op_id; to_added := 1; to_tensor := new_id |}).

(* ---- performer state ---- *)
Record pstate := {
  ps_model : model;
  ps_orig : list (list Z);       (* _original_op_id_map per subgraph *)
  ps_added : list (list Z) }.    (* _added_op_id_map per subgraph *)

Definition set_sg (m : model) (sgid : Z) (g : subgraph) (codes : list Z)
           (bufs : list bufval) (sigs : list sigdef) : model :=
  {| m_subgraphs := set_nth (m_subgraphs m) (Z.to_nat sgid) g;
     m_buffers := bufs; m_opcodes := codes; m_sigs := sigs |}.

Definition update_instructions (later : list inst) (prev : inst) (new_producer : Z)
           (out_tensor : Z) : list inst :=
  map (fun i =>
    if existsb (fun c => memZ c (i_consumers prev)) (i_consumers i)
    then {| i_trans := i_trans i; i_tensor := out_tensor; i_producer := new_producer;
            i_consumers := i_consumers i; i_params := i_params i |}
    else i) later.

Definition shift_from (pos n : Z) (l : list Z) : list Z :=
  map (fun x => if pos <=? x then x + n else x) l.

(* np_op_id_map[first:] += n, first = first original id whose current position
   is >= pos (map is kept monotone) *)
Fixpoint shift_suffix (pos n : Z) (l : list Z) : list Z :=
  match l with
  | [] => []
  | x :: r => if pos <=? x then map (fun y => y + n) (x :: r)
              else x :: shift_suffix pos n r
  end.

Definition fix_sigs (sigs : list sigdef) (sgid old new : Z) : list sigdef :=
  map (fun s => if Z.eqb (sd_sg s) sgid
                then {| sd_sg := sd_sg s; sd_inputs := sd_inputs s;
                        sd_outputs := map (fun x => if Z.eqb x old then new else x)
                                          (sd_outputs s) |}
                else s) sigs.

(* _apply_single_transformation; returns the new state and the updated tail
   of not-yet-applied instructions *)
Definition apply_single (st : pstate) (sgid : Z) (i : inst) (later : list inst)
  : res (pstate * list inst) :=
  let m := ps_model st in
  orig <- py_index (ps_orig st) sgid ;;
  added <- py_index (ps_added st) sgid ;;
  g <- py_index (m_subgraphs m) sgid ;;
  producer <- (if i_producer i <? 0 then Ok (-1)
               else if i_producer i <? lenZ orig then py_index orig (i_producer i)
               else py_index added (i_producer i - lenZ orig)) ;;
  consumers <- mapM (fun c => if Z.eqb c (-1) then Ok (-1) else py_index orig c)
                    (i_consumers i) ;;
  r <- match i_trans i with
       | Tr_QUANTIZE_TENSOR =>
           bg <- quantize_tensor (m_buffers m) g (i_tensor i) (i_params i) ;;
           Ok (m_opcodes m, fst bg, snd bg,
               {| to_op_id := 0; to_added := 0; to_tensor := i_tensor i |})
       | Tr_ADD_QUANTIZE =>
           insert_common true (m_opcodes m) (m_buffers m) g (i_tensor i) producer
                         consumers (i_params i)
       | Tr_ADD_DEQUANTIZE =>
           insert_common false (m_opcodes m) (m_buffers m) g (i_tensor i) producer
                         consumers (i_params i)
       | _ => Err OtherError
       end ;;
  let '(codes, bufs, g', info) := r in
  let sigs := if memZ (-1) (i_consumers i) && negb (Z.eqb (to_tensor info) (i_tensor i))
              then fix_sigs (m_sigs m) sgid (i_tensor i) (to_tensor info)
              else m_sigs m in
  let m' := set_sg m sgid g' codes bufs sigs in
  if Z.eqb (to_added info) 0 then
    Ok ({| ps_model := m'; ps_orig := ps_orig st; ps_added := ps_added st |}, later)
  else
    let n := to_added info in
    let added1 := added ++ [to_op_id info + n - 1] in
    let later' := update_instructions later i (lenZ orig + lenZ added1 - 1)
                                      (to_tensor info) in
    let added2 := shift_from (to_op_id info) n added ++ [to_op_id info + n - 1] in
    let orig2 := shift_suffix (to_op_id info) n orig in
    Ok ({| ps_model := m';
           ps_orig := set_nth (ps_orig st) (Z.to_nat sgid) orig2;
           ps_added := set_nth (ps_added st) (Z.to_nat sgid) added2 |}, later').

Definition is_insertion (t : qtrans) : bool :=
  qtrans_eqb t Tr_ADD_DEQUANTIZE || qtrans_eqb t Tr_QUANTIZE_TENSOR
  || qtrans_eqb t Tr_ADD_QUANTIZE.

(* pass 1 of _apply_transformations (pass 2 = op replacement, out of scope:
   any EMULATED_SUBCHANNEL instruction yields OtherError) *)
Fixpoint apply_insts (st : pstate) (sgid : Z) (is : list inst) (fuel : nat)
  : res pstate :=
  match fuel, is with
  | _, [] => Ok st
  | O, _ => Err OtherError
  | S f, i :: later =>
      if is_insertion (i_trans i) then
        r <- apply_single st sgid i later ;;
        apply_insts (fst r) sgid (snd r) f
      else if qtrans_eqb (i_trans i) Tr_EMULATED_SUBCHANNEL then Err OtherError
      else apply_insts st sgid later f
  end.

Definition init_pstate (m : model) : pstate :=
  {| ps_model := m;
     ps_orig := map (fun g => map fst (enumerate (sg_ops g))) (m_subgraphs m);
     ps_added := map (fun _ => []) (m_subgraphs m) |}.

Definition transform_graph (m : model) (tis : list tinsts) : res model :=
  st <- foldM (fun st ti => apply_insts st (ti_sg ti) (ti_insts ti)
                                       (length (ti_insts ti)))
              tis (init_pstate m) ;;
  Ok (ps_model st).
